/-! DESIGN-TIME FEASIBILITY PROBE (not part of the framework; kept as evidence for DESIGN.md Appendix E).
    Shows that the engine's bit-level ray walk (attacks.rs `generate_sliding_attacks`, one direction)
    equals a walk over squares, for every occupancy, by `decide +kernel` on one-bit boards plus
    induction on the fuel.  `lean walk.lean` checks in ~4 s; axioms: propext, Quot.sound. -/
abbrev BB := BitVec 64
def notA : BB := 0xFEFEFEFEFEFEFEFE#64
def notH : BB := 0x7F7F7F7F7F7F7F7F#64
inductive Dir | N | NE | E | SE | S | SW | W | NW deriving DecidableEq, Repr
def Dir.all : List Dir := [.N,.NE,.E,.SE,.S,.SW,.W,.NW]
def shiftDir (d : Dir) (b : BB) : BB :=
  match d with
  | .N => b <<< 8 | .S => b >>> 8
  | .E => (b <<< 1) &&& notA | .NE => (b <<< 9) &&& notA | .SE => (b >>> 7) &&& notA
  | .W => (b >>> 1) &&& notH | .SW => (b >>> 9) &&& notH | .NW => (b <<< 7) &&& notH
def bb (s : Fin 64) : BB := 1#64 <<< s.val
/-- square-level step -/
def step (d : Dir) (s : Fin 64) : Option (Fin 64) :=
  let f := s.val % 8; let r := s.val / 8
  let (df, dr) : Int × Int := match d with
    | .N => (0,1) | .NE => (1,1) | .E => (1,0) | .SE => (1,-1) | .S => (0,-1) | .SW => (-1,-1) | .W => (-1,0) | .NW => (-1,1)
  let f' : Int := f + df; let r' : Int := r + dr
  if h : 0 ≤ f' ∧ f' < 8 ∧ 0 ≤ r' ∧ r' < 8 then some ⟨(r' * 8 + f').toNat, by omega⟩ else none
def ofOpt : Option (Fin 64) → BB | some t => bb t | none => 0

theorem shift_bb : ∀ d ∈ Dir.all, ∀ s : Fin 64, shiftDir d (bb s) = ofOpt (step d s) := by decide +kernel
theorem shift_zero (d : Dir) : shiftDir d 0 = 0 := by cases d <;> simp [shiftDir]

/-- the engine's loop (attacks.rs generate_sliding_attacks), one direction, with fuel -/
def walk (d : Dir) (occ : BB) : Nat → BB → BB → BB
  | 0, _, acc => acc
  | fuel+1, cur, acc =>
    if cur = 0 then acc else
    let c := shiftDir d cur
    let acc := acc ||| c
    if occ &&& c ≠ 0 then acc else walk d occ fuel c acc

/-- square-level walk: list of squares visited -/
def walkSq (d : Dir) (occ : Fin 64 → Bool) : Nat → Fin 64 → List (Fin 64)
  | 0, _ => []
  | fuel+1, s => match step d s with
    | none => []
    | some t => if occ t then [t] else t :: walkSq d occ fuel t

def setOf (l : List (Fin 64)) : BB := l.foldl (fun a t => a ||| bb t) 0
def occOf (occ : BB) (t : Fin 64) : Bool := occ.getLsbD t.val

/-- membership wrapper: keeps `simp` from normalising `getLsbD` into `getElem` -/
def mem (b : BB) (t : Fin 64) : Bool := b.getLsbD t.val
theorem mem_and (a b : BB) (t) : mem (a &&& b) t = (mem a t && mem b t) := by simp [mem]
theorem mem_zero (t) : mem 0 t = false := by simp [mem]
theorem mem_bb (t u : Fin 64) : mem (bb t) u = decide (u = t) := by
  have : ∀ t u : Fin 64, mem (bb t) u = decide (u = t) := by decide +kernel
  exact this t u
theorem ext_mem (a b : BB) (h : ∀ t, mem a t = mem b t) : a = b := by
  apply BitVec.eq_of_getLsbD_eq; intro i hi; exact h ⟨i, hi⟩

theorem and_bb_eq_zero (occ : BB) (t : Fin 64) : (occ &&& bb t = 0) ↔ mem occ t = false := by
  constructor
  · intro hz
    have := congrArg (fun b => mem b t) hz
    simp only [mem_and, mem_bb, mem_zero, decide_true, Bool.and_true] at this
    exact this
  · intro h
    apply ext_mem; intro u
    rw [mem_and, mem_bb, mem_zero]
    by_cases hu : u = t
    · subst hu; simp [h]
    · simp [hu]

theorem bb_ne_zero (s : Fin 64) : bb s ≠ 0 := by
  intro h
  have h1 : mem (bb s) s = true := by rw [mem_bb]; simp
  rw [h] at h1
  simp [mem] at h1

theorem setOf_cons (t : Fin 64) (l : List (Fin 64)) : setOf (t :: l) = bb t ||| setOf l := by
  have h : ∀ (l : List (Fin 64)) (a : BB), l.foldl (fun a t => a ||| bb t) a = a ||| l.foldl (fun a t => a ||| bb t) 0 := by
    intro l; induction l with
    | nil => intro a; simp
    | cons x xs ih => intro a; simp only [List.foldl_cons]; rw [ih (a ||| bb x), ih (0 ||| bb x)]; simp [BitVec.or_assoc]
  unfold setOf; simp only [List.foldl_cons]; rw [h l (0 ||| bb t)]; simp

theorem walk_zero (d : Dir) (occ : BB) (fuel : Nat) (acc : BB) : walk d occ fuel 0 acc = acc := by
  cases fuel <;> simp [walk]

theorem walk_eq (d : Dir) (hd : d ∈ Dir.all) (occ : BB) (fuel : Nat) (s : Fin 64) (acc : BB) :
    walk d occ fuel (bb s) acc = acc ||| setOf (walkSq d (mem occ) fuel s) := by
  induction fuel generalizing s acc with
  | zero => simp [walk, walkSq, setOf]
  | succ n ih =>
    unfold walk walkSq
    rw [if_neg (bb_ne_zero s), shift_bb d hd s]
    cases hst : step d s with
    | none =>
      simp only [ofOpt, BitVec.and_zero, ne_eq, not_true_eq_false, if_false, walk_zero, setOf, List.foldl_nil]
      simp
    | some t =>
      simp only [ofOpt]
      cases ho : mem occ t with
      | true =>
        have hnz : occ &&& bb t ≠ 0 := fun h => by
          have := (and_bb_eq_zero occ t).1 h; simp [ho] at this
        simp only [hnz, ne_eq, not_false_eq_true, if_true, setOf_cons]
        simp [setOf]
      | false =>
        have hz : occ &&& bb t = 0 := (and_bb_eq_zero occ t).2 ho
        simp only [hz, ne_eq, not_true_eq_false, if_false, Bool.false_eq_true]
        rw [ih t (acc ||| bb t), setOf_cons]; simp [BitVec.or_assoc]
#print axioms walk_eq
