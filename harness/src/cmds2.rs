//! Request handlers for the engine-level properties (TT, time, eval, SEE, SAN, picker, search).

use std::panic::{catch_unwind, AssertUnwindSafe};
use std::time::Duration;

use crate::chess::game::Game;
use crate::chess::moves::{Move, MoveList};
use crate::chess::movegen;
use crate::chess::player::Player;
use crate::chess::san;
use crate::chess::square::Square;
use crate::chess::zobrist::ZobristHash;
use crate::engine::eval::{self, Eval, PhasedEval};
use crate::engine::options::EngineOptions;
use crate::engine::search::move_picker::MovePicker;
use crate::engine::search::time_control::{verif, TimeStrategy};
use crate::engine::search::transposition::{NodeBound, SearchTranspositionTable, SearchTranspositionTableData};
use crate::engine::search::{
    self, Clocks, PersistentState, Reporter, SearchContext, SearchInfo, SearchRestrictions, SearchScore,
    TimeControl,
};
use crate::engine::see;
use crate::proto::*;

fn opt_move(t: &str) -> Result<Option<Move>, String> {
    if t == "-" {
        Ok(None)
    } else {
        parse_move(t).map(Some).ok_or_else(|| format!("bad move {t}"))
    }
}

fn flip_move(m: Move) -> Move {
    let f = |s: Square| Square::from_index(s.idx() ^ 56);
    move_from_parts(f(m.src()), f(m.dst()), move_code(m)).unwrap()
}

// ---- C19 -------------------------------------------------------------------------------------
pub fn tt(f: &[&str]) -> Result<String, String> {
    let mb: usize = f[1].parse().map_err(|_| "mb")?;
    let mut t = SearchTranspositionTable::new(mb);
    let mut out = Vec::new();
    for op in f.get(2).unwrap_or(&"").split(' ').filter(|s| !s.is_empty()) {
        let p: Vec<&str> = op.split(':').collect();
        let res = match p[0] {
            "i" => {
                let key = ZobristHash(u64::from_str_radix(p[1], 16).map_err(|_| "key")?);
                let bound = match p[2] {
                    "E" => NodeBound::Exact,
                    "U" => NodeBound::Upper,
                    _ => NodeBound::Lower,
                };
                let age = if p[5] == "g" { t.generation } else { p[5].parse().map_err(|_| "age")? };
                let best = if p[6] == "-" { None } else { parse_move(&format!("{}:{}", p[6], p[7])) };
                t.insert(
                    &key,
                    SearchTranspositionTableData {
                        bound,
                        eval: Eval(p[3].parse().map_err(|_| "eval")?),
                        depth: p[4].parse().map_err(|_| "depth")?,
                        age,
                        best_move: best,
                    },
                );
                "ins".to_string()
            }
            "g" => {
                let key = ZobristHash(u64::from_str_radix(p[1], 16).map_err(|_| "key")?);
                match t.get(&key) {
                    Some(d) => format!(
                        "hit:{}:{}:{}:{}:{}",
                        match d.bound {
                            NodeBound::Exact => "E",
                            NodeBound::Upper => "U",
                            NodeBound::Lower => "L",
                        },
                        d.eval.0,
                        d.depth,
                        d.age,
                        d.best_move.map_or("-".to_string(), move_text)
                    ),
                    None => "miss".to_string(),
                }
            }
            // fill: `count` upper-bound entries under consecutive keys starting at `base`
            "f" => {
                let base = u64::from_str_radix(p[1], 16).map_err(|_| "key")?;
                let count: u64 = p[2].parse().map_err(|_| "count")?;
                let age = t.generation;
                for i in 0..count {
                    t.insert(
                        &ZobristHash(base.wrapping_add(i)),
                        SearchTranspositionTableData { bound: NodeBound::Upper, eval: Eval(7), depth: 2, age, best_move: None },
                    );
                }
                "fill".to_string()
            }
            "n" => {
                t.new_generation();
                "gen".to_string()
            }
            "r" => {
                t.reset();
                "reset".to_string()
            }
            "z" => {
                t.resize(p[1].parse().map_err(|_| "mb")?);
                "resize".to_string()
            }
            _ => return Err("tt op".into()),
        };
        out.push(format!("{res}[occ={},gen={},hf={}]", t.occupied, t.generation, t.occupancy()));
    }
    Ok(out.join(" "))
}

// ---- C14 -------------------------------------------------------------------------------------
fn opt_ms(t: &str) -> Result<Option<Duration>, String> {
    if t == "-" {
        Ok(None)
    } else {
        Ok(Some(Duration::from_millis(t.parse().map_err(|_| "ms")?)))
    }
}

pub fn limits(f: &[&str]) -> Result<String, String> {
    let g = if f[1] == "w" {
        Game::new()
    } else {
        read_position("rnbqkbnr/pppppppp/8/8/4P3/8/PPPP1PPP/RNBQKBNR b KQkq - 0 1")?
    };
    let movetime = opt_ms(f[7])?;
    let clocks = Clocks {
        white_clock: opt_ms(f[2])?,
        black_clock: opt_ms(f[3])?,
        white_increment: opt_ms(f[4])?,
        black_increment: opt_ms(f[5])?,
        moves_to_go: if f[6] == "-" { None } else { Some(f[6].parse().map_err(|_| "mtg")?) },
    };
    // same selection as UciCommand::Go
    let mut tc = TimeControl::Infinite;
    if let Some(mt) = movetime {
        tc = TimeControl::ExactTime(mt);
    }
    if clocks.white_clock.is_some() || clocks.black_clock.is_some() {
        tc = TimeControl::Clocks(clocks);
    }
    let mut options = EngineOptions::default();
    options.move_overhead = f[8].parse().map_err(|_| "overhead")?;
    let (ts, _c) = TimeStrategy::new(&g, &tc, &options);
    let (soft, hard) = ts.verif_limits();
    Ok(format!("soft={} hard={}", soft.as_nanos(), hard.as_nanos()))
}

// ---- C16 -------------------------------------------------------------------------------------
pub fn evalpair(f: &[&str]) -> Result<String, String> {
    let a = read_position(f[1])?;
    let b = read_position(f[2])?;
    Ok(format!(
        "a={} b={} absa={}",
        eval::eval(&a).0,
        eval::eval(&b).0,
        eval::absolute_eval(&a).0
    ))
}

/// the evaluation of a position reached by playing moves (accumulators carried move by move) next to the
/// evaluation of the same position set up from scratch
pub fn evalplay(f: &[&str]) -> Result<String, String> {
    let mut g = read_position(f[1])?;
    for mv in f.get(2).unwrap_or(&"").split(' ').filter(|s| !s.is_empty()) {
        g.make_move(parse_move(mv).ok_or("bad move")?);
    }
    let fresh = crate::chess::game::Game::from_state(
        g.board.clone(),
        g.player,
        g.castle_rights.clone(),
        g.en_passant_target,
        g.halfmove_clock,
        g.plies,
    );
    Ok(format!("ev={} evf={}", eval::eval(&g).0, eval::eval(&fresh).0))
}

pub fn blend(f: &[&str]) -> Result<String, String> {
    let mg: i16 = f[1].parse().map_err(|_| "mg")?;
    let eg: i16 = f[2].parse().map_err(|_| "eg")?;
    let ph: i16 = f[3].parse().map_err(|_| "phase")?;
    let pe = PhasedEval::new(mg, eg);
    Ok(format!("{} mg={} eg={}", pe.for_phase(ph).0, pe.midgame().0, pe.endgame().0))
}

// ---- C20 -------------------------------------------------------------------------------------
pub fn see_cmd(f: &[&str]) -> Result<String, String> {
    let g = read_position(f[1])?;
    let gm = read_position(f[2])?;
    let mut out = Vec::new();
    let mut moves: Vec<Move> = g.moves().iter().copied().filter(|m| m.is_capture() && !m.is_en_passant()).collect();
    moves.sort_by_key(|m| move_text(*m));
    for m in moves {
        let v = see::see(&g, m, Eval(0));
        let vm = see::see(&gm, flip_move(m), Eval(0));
        out.push(format!("{}={}/{}", move_text(m), u8::from(v), u8::from(vm)));
    }
    Ok(out.join(" "))
}

// ---- C18 -------------------------------------------------------------------------------------
pub fn san_cmd(f: &[&str]) -> Result<String, String> {
    let g = read_position(f[1])?;
    let mut moves: Vec<Move> = g.moves().iter().copied().collect();
    moves.sort_by_key(|m| move_text(*m));
    let mut out = Vec::new();
    for m in moves {
        let text = catch_unwind(AssertUnwindSafe(|| san::format_move(&g, m)));
        let Ok(text) = text else {
            out.push(format!("{}=panic=-", move_text(m)));
            continue;
        };
        let back = catch_unwind(AssertUnwindSafe(|| san_back(&g, &text)));
        let back = match back {
            Ok(Some(b)) => move_text(b),
            Ok(None) => "err".to_string(),
            Err(_) => "panic".to_string(),
        };
        out.push(format!("{}={}={}", move_text(m), text, back));
    }
    Ok(out.join(" "))
}

fn san_back(g: &Game, text: &str) -> Option<Move> {
    // san::parse_move is re-exported but unused by the engine itself
    crate::chess::san::parse_move(g, text).ok()
}

// ---- C10 -------------------------------------------------------------------------------------
pub fn picker(f: &[&str]) -> Result<String, String> {
    let mut g = read_position(f[1])?;
    if let Some(prev) = opt_move(f[2])? {
        g.make_move(prev);
    }
    let hash = opt_move(f[3])?;
    let k1 = opt_move(f[4])?;
    let k2 = opt_move(f[5])?;
    let counter = opt_move(f[6])?;
    let ply: u8 = f[7].parse().map_err(|_| "ply")?;
    let loud = f[9] == "1";

    let mut ps = PersistentState::new(0);
    for h in f[8].split(' ').filter(|s| !s.is_empty()) {
        // src:dst:depth (as a quiet move of the side to move)
        let p: Vec<&str> = h.split(':').collect();
        let mv = move_from_parts(parse_sq(p[0]).ok_or("sq")?, parse_sq(p[1]).ok_or("sq")?, 0).unwrap();
        ps.history_table.add_bonus_for(g.player, mv, p[2].parse().map_err(|_| "depth")?);
    }
    let options = EngineOptions::default();
    let (mut ts, _c) = TimeStrategy::new(&g, &TimeControl::Infinite, &options);
    let restrictions = SearchRestrictions::default();
    let mut ctx = SearchContext::new(&mut ps, &mut ts, &options, &restrictions);
    if let Some(k) = k2 {
        ctx.killer_moves.try_push(ply, k);
    }
    if let Some(k) = k1 {
        ctx.killer_moves.try_push(ply, k);
    }
    if let (Some(c), Some(prev)) = (counter, g.history.last().and_then(|h| h.mv)) {
        ctx.countermove_table.set(g.player, prev, c);
    }
    let mut mp = if loud { MovePicker::new_loud() } else { MovePicker::new(hash) };
    let mut out = Vec::new();
    while let Some(m) = mp.next(&g, &ctx, ply) {
        out.push(move_text(m));
        if out.len() > 600 {
            return Ok(format!("runaway {}", out.join(" ")));
        }
    }
    Ok(out.join(" "))
}

// ---- C04 / C08 / C09 / C12 ---------------------------------------------------------------------
struct Capture {
    lines: Vec<String>,
}

impl Reporter for Capture {
    fn generic_report(&self, _: &str) {}

    fn report_search_progress(&mut self, _: &Game, p: SearchInfo) {
        let score = match p.score {
            SearchScore::Centipawns(c) => format!("cp{c}"),
            SearchScore::Mate(m) => format!("mate{m}"),
        };
        let pv: Vec<String> = p.pv.clone().into_iter().map(move_text).collect();
        self.lines.push(format!(
            "d={},sd={},s={},n={},hf={},pv={}",
            p.depth,
            p.seldepth,
            score,
            p.stats.nodes,
            p.hashfull,
            pv.join("/")
        ));
    }

    fn best_move(&self, _: &Game, _: Move) {}
}

/// `search <hashMB> <job>;<job>;…` — jobs run in order on one `PersistentState`.
/// job = `N` (ucinewgame: reset) | `Z<mb>` (resize) | `<fen>|<moves>|<depth or ->|<stopAtPoll>|<everyNode>`
pub fn search_cmd(f: &[&str]) -> Result<String, String> {
    let mb: usize = f[1].parse().map_err(|_| "mb")?;
    let mut ps = PersistentState::new(mb);
    let options = EngineOptions::default();
    let mut out = Vec::new();
    for job in f[2].split(';').filter(|s| !s.is_empty()) {
        if job == "N" {
            ps.reset();
            out.push("reset".to_string());
            continue;
        }
        if let Some(mbs) = job.strip_prefix('Z') {
            ps.tt.resize(mbs.parse().map_err(|_| "mb")?);
            out.push("resize".to_string());
            continue;
        }
        let p: Vec<&str> = job.split('|').collect();
        let mut g = read_position(p[0])?;
        for mv in p[1].split(' ').filter(|s| !s.is_empty()) {
            g.make_move(parse_move(mv).ok_or("bad move")?);
        }
        let depth: Option<u8> = if p[2] == "-" { None } else { Some(p[2].parse().map_err(|_| "depth")?) };
        let stop_at: u64 = p[3].parse().map_err(|_| "stop")?;
        let every = p[4] == "1";
        let before = dump_game(&g);
        let (mut ts, _c) = TimeStrategy::new(&g, &TimeControl::Infinite, &options);
        let restrictions = SearchRestrictions { depth };
        let mut rep = Capture { lines: Vec::new() };
        verif::reset(stop_at, every);
        let res = catch_unwind(AssertUnwindSafe(|| {
            search::search(&g, &mut ps, &mut ts, &restrictions, &options, &mut rep)
        }));
        let polls = verif::POLLS.load(std::sync::atomic::Ordering::Relaxed);
        verif::reset(0, false);
        let untouched = before == dump_game(&g);
        match res {
            Ok(mv) => out.push(format!(
                "best={} polls={} untouched={} gen={} occ={} infos=[{}]",
                move_text(mv),
                polls,
                u8::from(untouched),
                ps.tt.generation,
                ps.tt.occupied,
                rep.lines.join(" ")
            )),
            Err(_) => {
                out.push(format!("panic polls={} infos=[{}]", polls, rep.lines.join(" ")));
                // the tables may be mid-update; a real engine would have died here
                break;
            }
        }
    }
    Ok(out.join(" ; "))
}
