//! tvharness — runs /repo's *current* sources in-process and answers the shared line protocol.
//!
//! `repo_src` is a symlink to `<repo>/src` (created by tools/vcheck.py; default /repo/src), so the
//! modules below are compiled from the working tree on every run. Only the ~10 crate-root items
//! that those modules refer to are replicated here.
#![allow(dead_code, unused_imports, clippy::all)]

#[path = "../repo_src/chess/mod.rs"]
mod chess;
#[path = "../repo_src/engine/mod.rs"]
mod engine;

use engine::uci;

pub const ENGINE_NAME: &str = "Tcheran";

pub fn engine_version() -> String {
    "vharness".to_string()
}

pub fn init() {
    chess::init();
    engine::init();
}

mod proto;
mod cmds;
mod cmds2;

fn main() {
    // panics are classified per request by catch_unwind; keep stderr quiet
    std::panic::set_hook(Box::new(|_| {}));
    init();
    let args: Vec<String> = std::env::args().collect();
    let mode = args.get(1).map(String::as_str).unwrap_or("serve");
    match mode {
        "serve" => cmds::serve(),
        "dump-zobrist" => cmds::dump_zobrist(),
        "dump-eval" => cmds::dump_eval(),
        "dump-misc" => cmds::dump_misc(),
        "dump-lmr" => cmds::dump_lmr(&args[2], &args[3]),
        _ => {
            eprintln!("usage: tvharness [serve|dump-zobrist|dump-eval|dump-misc]");
            std::process::exit(2);
        }
    }
}
