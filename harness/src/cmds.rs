//! Request handlers. One request per input line (TAB-separated fields), one answer line out.
//! A panic inside the code under test is caught per request and answered as `panic`.

use std::io::{BufRead, Write};
use std::panic::{catch_unwind, AssertUnwindSafe};

use crate::chess::bitboard::Bitboard;
use crate::chess::game::Game;
use crate::chess::movegen;
use crate::chess::movegen::tables;
use crate::chess::moves::MoveList;
use crate::chess::player::Player;
use crate::chess::square::Square;
use crate::chess::{fen, zobrist};
use crate::proto::*;

fn sq_of(text: &str) -> Result<Square, String> {
    let i: u8 = text.parse().map_err(|_| "square index")?;
    if i >= 64 {
        return Err("square index".into());
    }
    Ok(Square::from_index(i))
}

fn bb_of(text: &str) -> Result<Bitboard, String> {
    u64::from_str_radix(text, 16)
        .map(Bitboard::new)
        .map_err(|_| "bitboard".into())
}

fn hex(b: Bitboard) -> String {
    format!("{:016x}", b.as_u64())
}

fn sorted_moves(list: &MoveList) -> String {
    let mut v: Vec<String> = list.iter().map(|m| move_text(*m)).collect();
    v.sort();
    v.join(" ")
}

fn handle(line: &str) -> Result<String, String> {
    let f: Vec<&str> = line.split('\t').collect();
    match f[0] {
        // ---- C07 ---------------------------------------------------------------------------
        "rook" => Ok(hex(tables::rook_attacks(sq_of(f[1])?, bb_of(f[2])?))),
        "bishop" => Ok(hex(tables::bishop_attacks(sq_of(f[1])?, bb_of(f[2])?))),
        "knight" => Ok(hex(tables::knight_attacks(sq_of(f[1])?))),
        "king" => Ok(hex(tables::king_attacks(sq_of(f[1])?))),
        "pawn" => {
            let p = if f[2] == "w" { Player::White } else { Player::Black };
            Ok(hex(tables::pawn_attacks(sq_of(f[1])?, p)))
        }
        "between" => Ok(hex(tables::between(sq_of(f[1])?, sq_of(f[2])?))),
        // ---- C01 ---------------------------------------------------------------------------
        "moves" => {
            let g = read_position(f[1])?;
            let mut caps = MoveList::new();
            let mut cache = movegen::MovegenCache::new();
            movegen::generate_captures(&g, &mut caps, &mut cache);
            let ncaps = caps.len();
            let mut all = caps.clone();
            movegen::generate_quiets(&g, &mut all, &cache);
            let mut legal = MoveList::new();
            movegen::generate_legal_moves(&g, &mut legal);
            // the staged and the one-shot entry points must agree (order included)
            let same = legal.iter().map(|m| move_text(*m)).collect::<Vec<_>>()
                == all.iter().map(|m| move_text(*m)).collect::<Vec<_>>();
            let order: Vec<String> = legal.iter().map(|m| move_text(*m)).collect();
            Ok(format!(
                "check={} n={} ncaps={} staged={} sorted=[{}] order=[{}]",
                u8::from(g.is_king_in_check()),
                legal.len(),
                ncaps,
                u8::from(same),
                sorted_moves(&legal),
                order.join(" ")
            ))
        }
        // ---- C02 / C03 / C11 / C15 -----------------------------------------------------------
        "play" => {
            let mut g = read_position(f[1])?;
            let mut out = vec![dump_game(&g)];
            for op in f.get(2).unwrap_or(&"").split(' ').filter(|s| !s.is_empty()) {
                match op {
                    "null" => g.make_null_move(),
                    "undo" => g.undo_move(),
                    "undonull" => g.undo_null_move(),
                    mv => g.make_move(parse_move(mv).ok_or("bad move")?),
                }
                out.push(dump_game(&g));
            }
            Ok(out.join(" ; "))
        }
        // ---- C06 ---------------------------------------------------------------------------
        "fen" => match fen::parse(&f[1..].join("\t")) {
            Ok(g) => Ok(format!("ok {} W={}", dump_game(&g), fen::write(&g))),
            Err(_) => Ok("err".to_string()),
        },
        "fenrt" => {
            let g0 = read_position(f[1])?;
            let w = fen::write(&g0);
            let g1 = match fen::parse(&w) {
                Ok(g) => format!("ok {} W={}", dump_game(&g), fen::write(&g)),
                Err(_) => "err".to_string(),
            };
            Ok(format!("W={w} G0={} G1={g1}", dump_game(&g0)))
        }
        "ucimoves" => {
            let text = f[1..].join("\t");
            match crate::engine::uci::parser::uci_moves(&text) {
                Ok((rest, moves)) => {
                    let ms: Vec<String> = moves.iter().map(|m| m.notation()).collect();
                    Ok(format!("ok [{}] rest=[{}]", ms.join(" "), rest.replace('\t', "<TAB>")))
                }
                Err(_) => Ok("err".to_string()),
            }
        }
        "tt" => crate::cmds2::tt(&f),
        "limits" => crate::cmds2::limits(&f),
        "evalpair" => crate::cmds2::evalpair(&f),
        "evalplay" => crate::cmds2::evalplay(&f),
        "blend" => crate::cmds2::blend(&f),
        "see" => crate::cmds2::see_cmd(&f),
        "san" => crate::cmds2::san_cmd(&f),
        "picker" => crate::cmds2::picker(&f),
        "search" => crate::cmds2::search_cmd(&f),
        other => Err(format!("unknown request {other}")),
    }
}

fn answer_of(line: &str) -> String {
    let res = catch_unwind(AssertUnwindSafe(|| handle(line)));
    match res {
        Ok(Ok(s)) => s,
        Ok(Err(e)) => format!("bad-request {e}"),
        Err(_) => "panic".to_string(),
    }
}

/// Requests about the attack tables and the move generator are answered twice: on the thread that ran
/// `init()` and on a worker thread started afterwards (the engine searches on spawned threads); the two
/// answers must be the same.
fn two_threads(line: &str) -> bool {
    matches!(
        line.split('\t').next().unwrap_or(""),
        "rook" | "bishop" | "knight" | "king" | "pawn" | "between" | "moves"
    )
}

pub fn serve() {
    let stdin = std::io::stdin();
    let stdout = std::io::stdout();
    let mut out = std::io::BufWriter::new(stdout.lock());
    let (tx_req, rx_req) = std::sync::mpsc::channel::<String>();
    let (tx_ans, rx_ans) = std::sync::mpsc::channel::<String>();
    let worker = std::thread::spawn(move || {
        for line in rx_req {
            if tx_ans.send(answer_of(&line)).is_err() {
                break;
            }
        }
    });
    for line in stdin.lock().lines() {
        let Ok(line) = line else { break };
        if line.is_empty() {
            continue;
        }
        let mut answer = answer_of(&line);
        if two_threads(&line) {
            tx_req.send(line.clone()).unwrap();
            let other = rx_ans.recv().unwrap_or_else(|_| "worker-died".to_string());
            if other != answer {
                answer = format!("thread-mismatch init-thread=[{answer}] worker-thread=[{other}]");
            }
        }
        writeln!(out, "{answer}").unwrap();
    }
    drop(tx_req);
    let _ = worker.join();
    out.flush().unwrap();
}

/// The 781 Zobrist words, observed through the public toggles on `ZobristHash::uninit()`.
pub fn dump_zobrist() {
    use crate::chess::game::CastleRightsSide;
    use crate::chess::piece::{Piece, PieceKind};
    use crate::chess::zobrist::ZobristHash;
    for player in [Player::White, Player::Black] {
        for kind in PieceKind::ALL {
            for i in 0..64u8 {
                let mut z = ZobristHash::uninit();
                z.toggle_piece_on_square(Square::from_index(i), Piece::new(player, kind));
                println!("piece {} {} {} {:016x}", player.array_idx(), kind.array_idx(), i, z.0);
            }
        }
        for (si, side) in [CastleRightsSide::Kingside, CastleRightsSide::Queenside].into_iter().enumerate() {
            let mut z = ZobristHash::uninit();
            z.toggle_castle_rights(player, side);
            println!("castle {} {} {:016x}", player.array_idx(), si, z.0);
        }
    }
    // set_en_passant(prev, new) xors both words; (None, None) cancels, so observe (None, Some s)
    // and recover the `None` word through a second observation with the side word.
    let mut z0 = ZobristHash::uninit();
    z0.toggle_side_to_play();
    println!("side {:016x}", z0.0);
    // hash of a position with no men, white to move, no rights, no e.p. = the `no e.p.` word
    let empty: [Option<Piece>; 64] = [None; 64];
    let board = crate::chess::board::Board::try_from(empty).unwrap();
    let g = Game::from_state(
        board,
        Player::White,
        crate::chess::player::ByPlayer::new(
            crate::chess::game::CastleRights::none(),
            crate::chess::game::CastleRights::none(),
        ),
        None,
        0,
        0,
    );
    let no_ep = zobrist::hash(&g).0;
    println!("noep {no_ep:016x}");
    for i in 0..64u8 {
        let mut z = ZobristHash::uninit();
        z.set_en_passant(None, Some(Square::from_index(i)));
        println!("ep {} {:016x}", i, z.0 ^ no_ep);
    }
}

/// Piece-square contributions (material included) as the engine holds them after `init()`.
pub fn dump_eval() {
    use crate::chess::piece::{Piece, PieceKind};
    use crate::engine::eval::piece_square_tables::piece_contributions;
    for player in [Player::White, Player::Black] {
        for kind in PieceKind::ALL {
            for i in 0..64u8 {
                let v = piece_contributions(Square::from_index(i), Piece::new(player, kind));
                println!(
                    "pst {} {} {} {} {}",
                    player.array_idx(),
                    kind.array_idx(),
                    i,
                    v.midgame().0,
                    v.endgame().0
                );
            }
        }
    }
}

pub fn dump_misc() {
    use crate::engine::search::transposition::SearchTranspositionTableData;
    use crate::engine::transposition_table::TranspositionTableEntry;
    println!(
        "tt_entry_size {}",
        std::mem::size_of::<TranspositionTableEntry<SearchTranspositionTableData>>()
    );
}

/// The LMR table by the same `f32` expression as `lmr_table.rs::init` (that module is private);
/// base and factor are the source-text constants passed in by the translator.
pub fn dump_lmr(base: &str, factor: &str) {
    let base: f32 = base.parse().unwrap();
    let factor: f32 = factor.parse().unwrap();
    for depth in 0..64usize {
        let row: Vec<String> = (0..64usize)
            .map(|mc| {
                if depth == 0 || mc == 0 {
                    "0".to_string()
                } else {
                    ((base + f32::ln(depth as f32) * f32::ln(mc as f32) / factor) as u8).to_string()
                }
            })
            .collect();
        println!("{}", row.join(" "));
    }
}
