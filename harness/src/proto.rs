//! Protocol helpers: an independent, strict reader for canonical position text (so that a change
//! to the engine's own FEN reader is seen by the C06 check only), canonical state dumps, and move
//! construction from `src dst flag` without going through move generation.

use crate::chess::board::Board;
use crate::chess::game::{CastleRights, Game};
use crate::chess::moves::Move;
use crate::chess::piece::{Piece, PieceKind, PromotionPieceKind};
use crate::chess::player::{ByPlayer, Player};
use crate::chess::square::Square;
use crate::chess::zobrist;
use crate::engine::eval::IncrementalEvalFields;

pub fn piece_char(p: Piece) -> char {
    let c = match p.kind {
        PieceKind::Pawn => 'p',
        PieceKind::Knight => 'n',
        PieceKind::Bishop => 'b',
        PieceKind::Rook => 'r',
        PieceKind::Queen => 'q',
        PieceKind::King => 'k',
    };
    if p.player == Player::White {
        c.to_ascii_uppercase()
    } else {
        c
    }
}

pub fn char_piece(c: char) -> Option<Piece> {
    let kind = match c.to_ascii_lowercase() {
        'p' => PieceKind::Pawn,
        'n' => PieceKind::Knight,
        'b' => PieceKind::Bishop,
        'r' => PieceKind::Rook,
        'q' => PieceKind::Queen,
        'k' => PieceKind::King,
        _ => return None,
    };
    let player = if c.is_ascii_uppercase() {
        Player::White
    } else {
        Player::Black
    };
    Some(Piece::new(player, kind))
}

pub fn sq_name(s: Square) -> String {
    let i = s.idx();
    format!("{}{}", (b'a' + i % 8) as char, (b'1' + i / 8) as char)
}

pub fn parse_sq(s: &str) -> Option<Square> {
    let b = s.as_bytes();
    if b.len() != 2 || !(b'a'..=b'h').contains(&b[0]) || !(b'1'..=b'8').contains(&b[1]) {
        return None;
    }
    Some(Square::from_idxs(b[0] - b'a', b[1] - b'1'))
}

/// Strict reader of canonical FEN text; builds the game through `Game::from_state`.
pub fn read_position(text: &str) -> Result<Game, String> {
    let f: Vec<&str> = text.split(' ').collect();
    if f.len() != 6 {
        return Err(format!("position needs 6 fields: {text}"));
    }
    let mut squares: [Option<Piece>; 64] = [None; 64];
    let ranks: Vec<&str> = f[0].split('/').collect();
    if ranks.len() != 8 {
        return Err("8 ranks".into());
    }
    for (ri, rank_text) in ranks.iter().enumerate() {
        let rank = 7 - ri;
        let mut file = 0usize;
        for c in rank_text.chars() {
            if let Some(d) = c.to_digit(10) {
                file += d as usize;
            } else if let Some(p) = char_piece(c) {
                if file >= 8 {
                    return Err("rank too wide".into());
                }
                squares[rank * 8 + file] = Some(p);
                file += 1;
            } else {
                return Err("bad board char".into());
            }
        }
        if file != 8 {
            return Err("rank width".into());
        }
    }
    let player = match f[1] {
        "w" => Player::White,
        "b" => Player::Black,
        _ => return Err("side".into()),
    };
    let has = |c: char| f[2].contains(c);
    let rights = ByPlayer::new(
        CastleRights {
            king_side: has('K'),
            queen_side: has('Q'),
        },
        CastleRights {
            king_side: has('k'),
            queen_side: has('q'),
        },
    );
    let ep = if f[3] == "-" {
        None
    } else {
        Some(parse_sq(f[3]).ok_or("ep")?)
    };
    let halfmove: u32 = f[4].parse().map_err(|_| "halfmove")?;
    let fullmove: u32 = f[5].parse().map_err(|_| "fullmove")?;
    if fullmove == 0 {
        return Err("fullmove 0".into());
    }
    let plies = (fullmove - 1) * 2 + u32::from(player == Player::Black);
    let board: Board = Board::try_from(squares).map_err(|()| "board")?;
    Ok(Game::from_state(board, player, rights, ep, halfmove, plies))
}

pub fn move_from_parts(src: Square, dst: Square, code: u8) -> Option<Move> {
    use PromotionPieceKind::*;
    if code == 0 && src == dst && src == crate::chess::square::squares::all::A1 {
        // the quiet a1a1 would be the all-zero word, which `Move` (a NonZero) cannot hold
        return None;
    }
    Some(match code {
        0 => Move::quiet(src, dst),
        4 => Move::castles(src, dst),
        1 => Move::capture(src, dst),
        5 => Move::en_passant(src, dst),
        2 => Move::quiet_promotion(src, dst, Bishop),
        10 => Move::quiet_promotion(src, dst, Knight),
        6 => Move::quiet_promotion(src, dst, Rook),
        14 => Move::quiet_promotion(src, dst, Queen),
        3 => Move::capture_promotion(src, dst, Bishop),
        11 => Move::capture_promotion(src, dst, Knight),
        7 => Move::capture_promotion(src, dst, Rook),
        15 => Move::capture_promotion(src, dst, Queen),
        _ => return None,
    })
}

/// `e2e4:0`, `e7e8q:14` — the promotion letter is redundant with the flag and ignored on input
pub fn parse_move(text: &str) -> Option<Move> {
    let (mv, code) = text.split_once(':')?;
    if mv.len() < 4 {
        return None;
    }
    let src = parse_sq(&mv[0..2])?;
    let dst = parse_sq(&mv[2..4])?;
    move_from_parts(src, dst, code.parse().ok()?)
}

/// flag code reconstructed through the public predicates only
pub fn move_code(m: Move) -> u8 {
    use PromotionPieceKind::*;
    let cap = m.is_capture();
    match m.promotion() {
        Some(Bishop) => 2 + u8::from(cap),
        Some(Knight) => 10 + u8::from(cap),
        Some(Rook) => 6 + u8::from(cap),
        Some(Queen) => 14 + u8::from(cap),
        None => {
            if m.is_en_passant() {
                5
            } else if m.is_castling() {
                4
            } else if cap {
                1
            } else {
                0
            }
        }
    }
}

pub fn move_text(m: Move) -> String {
    format!("{m:?}:{}", move_code(m))
}

pub fn rights_text(g: &Game) -> String {
    let [w, b] = g.castle_rights.inner();
    let mut s = String::new();
    if w.king_side {
        s.push('K');
    }
    if w.queen_side {
        s.push('Q');
    }
    if b.king_side {
        s.push('k');
    }
    if b.queen_side {
        s.push('q');
    }
    if s.is_empty() {
        s.push('-');
    }
    s
}

pub fn mailbox_text(b: &Board) -> String {
    (0..64u8)
        .map(|i| match b.piece_at(Square::from_index(i)) {
            Some(p) => piece_char(p),
            None => '.',
        })
        .collect()
}

/// Everything observable about a `Game`, in one canonical line fragment.
pub fn dump_game(g: &Game) -> String {
    let b = &g.board;
    let inc = IncrementalEvalFields::init(b);
    format!(
        "B={} P={} R={} E={} H={} L={} K={:016x},{:016x},{:016x},{:016x},{:016x},{:016x} C={:016x},{:016x} Z={:016x} ZR={:016x} PH={} MG={} EG={} PHR={} MGR={} EGR={} REP={} F50={} INS={} HL={}",
        mailbox_text(b),
        if g.player == Player::White { "w" } else { "b" },
        rights_text(g),
        g.en_passant_target.map_or("-".to_string(), sq_name),
        g.halfmove_clock,
        g.plies,
        b.all_pawns().as_u64(),
        b.all_knights().as_u64(),
        b.all_bishops().as_u64(),
        b.all_rooks().as_u64(),
        b.all_queens().as_u64(),
        b.all_kings().as_u64(),
        b.occupancy_for(Player::White).as_u64(),
        b.occupancy_for(Player::Black).as_u64(),
        g.zobrist.0,
        zobrist::hash(g).0,
        g.incremental_eval.phase_value,
        g.incremental_eval.piece_square_tables.midgame().0,
        g.incremental_eval.piece_square_tables.endgame().0,
        inc.phase_value,
        inc.piece_square_tables.midgame().0,
        inc.piece_square_tables.endgame().0,
        u8::from(g.is_repeated_position()),
        // (needs the move generator, which needs the mover's king: a crash there is this verdict's, not the dump's)
        std::panic::catch_unwind(std::panic::AssertUnwindSafe(|| u8::from(g.is_stalemate_by_fifty_move_rule())))
            .map_or("panic".to_string(), |v| v.to_string()),
        u8::from(g.is_stalemate_by_insufficient_material()),
        g.history.len(),
    )
}
