// Compiles the vendored Fathom prober from /repo's current tree (same as /repo/build.rs).
fn main() {
    let repo = std::env::var("VERIF_REPO").unwrap_or_else(|_| "/repo".to_string());
    println!("cargo:rerun-if-changed={repo}/src/engine/tablebases/fathom/src");
    println!("cargo:rerun-if-env-changed=VERIF_REPO");
    cc::Build::new()
        .include(format!("{repo}/src/engine/tablebases/fathom/src"))
        .file(format!("{repo}/src/engine/tablebases/fathom/src/tbprobe.c"))
        .warnings(false)
        .compile("fathom");
}
