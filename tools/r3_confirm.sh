#!/bin/sh
# r3_confirm.sh <Cnn>: confirm the third-round seeded change in /tmp/seed-out/<Cnn>c in its scratch worktree
id=$1; tag=${id}c
if grep -q jgilchrist_tcheran_verif /tmp/seed-out/$tag/demo.diff 2>/dev/null; then export SEED_RUSTFLAGS='--cfg jgilchrist_tcheran_verif'; fi
if [ -f /tmp/seed-out/$tag/demo.sh ]; then sh /verif/tools/confirm_seed_sh.sh $tag /tmp/r3-$id; else sh /verif/tools/confirm_seed.sh $tag /tmp/r3-$id; fi
cat /tmp/seed-out/$tag/confirm.txt
