#!/bin/sh
# confirm_seed.sh <id> <worktree>: confirms a seeded change in a scratch worktree
#  (1) with patch: builds and the whole suite passes; (2) patch+demo: the demo fails;
#  (3) demo only: passes.  Output: /tmp/seed-out/<id>/confirm.txt
id=$1; wt=$2; out=/tmp/seed-out/$id/confirm.txt
export CARGO_TARGET_DIR=$wt/target CARGO_NET_OFFLINE=true
cd $wt || exit 1
git checkout -q -- . ; git clean -fdq -e target
{
echo "== base $(git rev-parse --short HEAD)"
git apply /tmp/seed-out/$id/patch.diff || echo "PATCH DOES NOT APPLY"
echo "== patch only"; cargo test --offline 2>&1 | grep "test result" 
git apply /tmp/seed-out/$id/demo.diff || echo "DEMO DOES NOT APPLY"
# a demonstration that needs the verification hooks is run with the guard cfg (SEED_RUSTFLAGS)
if [ -n "$SEED_RUSTFLAGS" ]; then export RUSTFLAGS="$SEED_RUSTFLAGS"; echo "== (RUSTFLAGS=$RUSTFLAGS for the demo runs)"; fi
echo "== patch + demo"; cargo test --offline 2>&1 | grep "test result\|^test .* FAILED"
git apply -R /tmp/seed-out/$id/patch.diff
echo "== demo only"; cargo test --offline 2>&1 | grep "test result"
} > $out 2>&1
git checkout -q -- . ; git clean -fdq -e target
rm -rf $wt/target
echo done >> $out
