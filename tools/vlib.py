"""Shared infrastructure for the checks: builds, translator, Lean obligations, protocol runs,
replays, known findings, evidence. Python 3 stdlib only."""
import fcntl
import json
import os
import re
import subprocess
import sys
import time

VERIF = os.path.dirname(os.path.dirname(os.path.abspath(__file__)))
REPO = os.environ.get("VERIF_REPO", "/repo")
BUILD = os.path.join(VERIF, ".build")
LEAN_DIR = os.path.join(VERIF, "lean")
HARNESS_DIR = os.path.join(VERIF, "harness")
REPLAYS = os.path.join(VERIF, "replays")
EVIDENCE = os.path.join(VERIF, "evidence")
CORPUS = os.path.join(VERIF, "corpus")
GUARD = "jgilchrist_tcheran_verif"
ALLOWED_AXIOMS = {"propext", "Classical.choice", "Quot.sound"}

ENV = dict(os.environ)
ENV["CARGO_NET_OFFLINE"] = "true"
ENV.setdefault("CARGO_TERM_COLOR", "never")


def log(*a):
    print("[vcheck]", *a, file=sys.stderr, flush=True)


class Lock:
    """serialises cargo / lake invocations between concurrently running checks"""

    def __init__(self, name):
        os.makedirs(BUILD, exist_ok=True)
        self.path = os.path.join(BUILD, name + ".lock")

    def __enter__(self):
        self.f = open(self.path, "w")
        fcntl.flock(self.f, fcntl.LOCK_EX)
        return self

    def __exit__(self, *a):
        fcntl.flock(self.f, fcntl.LOCK_UN)
        self.f.close()


def run(cmd, cwd=None, env=None, timeout=None, input_text=None):
    e = dict(ENV)
    if env:
        e.update(env)
    p = subprocess.run(cmd, cwd=cwd, env=e, capture_output=True, text=True, timeout=timeout, input=input_text)
    return p.returncode, p.stdout, p.stderr


# --------------------------------------------------------------------------------------------
# builds
# --------------------------------------------------------------------------------------------
def ensure_symlink():
    link = os.path.join(HARNESS_DIR, "repo_src")
    target = os.path.join(REPO, "src")
    if os.path.islink(link):
        if os.readlink(link) == target:
            return
        os.unlink(link)
    elif os.path.exists(link):
        raise RuntimeError(f"{link} exists and is not a symlink")
    os.symlink(target, link)


class BuildError(Exception):
    pass


def build_harness(profile="checked"):
    """compiles /repo's current sources into tvharness; returns the binary path"""
    ensure_symlink()
    # Cargo.lock: the harness resolves the same dependency versions as the crate under test
    lock_src = os.path.join(REPO, "Cargo.lock")
    lock_dst = os.path.join(HARNESS_DIR, "Cargo.lock")
    if os.path.exists(lock_src) and not os.path.exists(lock_dst):
        with open(lock_src) as f, open(lock_dst, "w") as g:
            g.write(f.read())
    target = os.path.join(BUILD, "harness")
    cmd = ["cargo", "build", "--offline", "--quiet"]
    if profile == "fast":
        cmd.append("--release")
    env = {"CARGO_TARGET_DIR": target, "RUSTFLAGS": f"--cfg {GUARD}", "VERIF_REPO": REPO}
    with Lock("cargo"):
        t0 = time.time()
        rc, out, err = run(cmd, cwd=HARNESS_DIR, env=env, timeout=1800)
        log(f"harness build ({profile}) rc={rc} {time.time() - t0:.1f}s")
    if rc != 0:
        raise BuildError("harness build failed:\n" + err[-4000:])
    return os.path.join(target, "release" if profile == "fast" else "debug", "tvharness")


def build_engine(profile="release"):
    """the real binary (for UCI-level properties), built from /repo into /verif/.build/repo"""
    target = os.path.join(BUILD, "repo")
    cmd = ["cargo", "build", "--offline", "--quiet", "--manifest-path", os.path.join(REPO, "Cargo.toml")]
    if profile == "release":
        cmd.append("--release")
    env = {"CARGO_TARGET_DIR": target, "RUSTFLAGS": f"--cfg {GUARD}"}
    with Lock("cargo"):
        t0 = time.time()
        rc, out, err = run(cmd, env=env, timeout=3600)
        log(f"engine build ({profile}) rc={rc} {time.time() - t0:.1f}s")
    if rc != 0:
        raise BuildError("engine build failed:\n" + err[-4000:])
    return os.path.join(target, "release" if profile == "release" else "debug", "engine")


def run_translator(harness_bin):
    sys.path.insert(0, os.path.join(VERIF, "tools"))
    import translate
    translate.HARNESS_BIN = harness_bin
    translate.REPO = REPO
    with Lock("lake"):
        changed, errors = translate.run()
    if changed:
        log("regenerated:", changed)
    return changed, errors


def lake_build(targets):
    with Lock("lake"):
        t0 = time.time()
        rc, out, err = run(["lake", "build"] + targets, cwd=LEAN_DIR, timeout=7200)
        log(f"lake build {' '.join(targets)} rc={rc} {time.time() - t0:.1f}s")
    return rc, out + err


def driver_bin():
    return os.path.join(LEAN_DIR, ".lake", "build", "bin", "tvdriver")


# --------------------------------------------------------------------------------------------
# Lean obligations
# --------------------------------------------------------------------------------------------
FORBIDDEN = re.compile(r"\b(sorry|admit|native_decide|bv_decide|implemented_by|unsafe)\b|^\s*axiom\s|maxHeartbeats\s+0")


def strip_lean_comments(src):
    # nested block comments
    out, depth, i = [], 0, 0
    while i < len(src):
        if src.startswith("/-", i):
            depth += 1
            i += 2
        elif src.startswith("-/", i) and depth > 0:
            depth -= 1
            i += 2
        elif depth > 0:
            if src[i] == "\n":
                out.append("\n")
            i += 1
        elif src.startswith("--", i):
            while i < len(src) and src[i] != "\n":
                i += 1
        else:
            out.append(src[i])
            i += 1
    return "".join(out)


def lean_sources(module):
    """the Props module and every TcheranVerif module it (transitively) imports"""
    seen, todo = [], [module]
    while todo:
        m = todo.pop()
        if m in seen:
            continue
        path = os.path.join(LEAN_DIR, m.replace(".", "/") + ".lean")
        if not os.path.exists(path):
            continue
        seen.append(m)
        with open(path, encoding="utf-8") as f:
            for line in f:
                mm = re.match(r"\s*import\s+(TcheranVerif\.[\w.]+)", line)
                if mm:
                    todo.append(mm.group(1))
    return seen


def check_obligations(module, allow_native=()):
    """Builds `module`; returns dict(obligations, discharged, theorems, axioms, problems, log).

    obligations = theorems in the Props module; discharged = those the kernel accepted with
    axioms within the allowed set. A build failure is re-run file-wise to see which theorems fail."""
    path = os.path.join(LEAN_DIR, module.replace(".", "/") + ".lean")
    res = {"module": module, "obligations": 0, "discharged": 0, "theorems": [], "axioms": {},
           "problems": [], "log": ""}
    if not os.path.exists(path):
        res["problems"].append(f"{module}: file missing")
        return res
    with open(path, encoding="utf-8") as f:
        src = f.read()
    code = strip_lean_comments(src)
    theorems = re.findall(r"^\s*theorem\s+([\w.'!?]+)", code, re.M)
    res["theorems"] = theorems
    res["obligations"] = len(theorems)
    # hygiene over the whole import closure
    for m in lean_sources(module):
        p = os.path.join(LEAN_DIR, m.replace(".", "/") + ".lean")
        with open(p, encoding="utf-8") as f:
            c = strip_lean_comments(f.read())
        for ln, line in enumerate(c.split("\n"), 1):
            mm = FORBIDDEN.search(line)
            if mm:
                tok = mm.group(0).strip()
                if tok in allow_native:
                    continue
                res["problems"].append(f"{m}:{ln}: forbidden token {tok!r}")
    rc, out = lake_build([module])
    res["log"] = out[-6000:]
    text = out
    if rc != 0:
        # elaborate the file alone to learn which theorems still check
        with Lock("lake"):
            rc2, o2, e2 = run(["lake", "env", "lean", path], cwd=LEAN_DIR, timeout=7200)
        text = o2 + e2
        res["log"] = (out[-3000:] + "\n---- file-wise ----\n" + text[-6000:])
    def parse_axioms(text):
        axioms = {}
        for mm in re.finditer(r"'([\w.'!?]+)' depends on axioms: \[([^\]]*)\]", text, re.S):
            axioms[mm.group(1)] = [a.strip() for a in mm.group(2).replace("\n", " ").split(",") if a.strip()]
        for mm in re.finditer(r"'([\w.'!?]+)' does not depend on any axioms", text):
            axioms[mm.group(1)] = []
        return axioms

    axioms = parse_axioms(text)
    if rc == 0 and theorems and not axioms:
        # a long first build has been seen to come back without the module's messages; the cached
        # build replays them
        rc, out = lake_build([module])
        text = out
        res["log"] = out[-6000:]
        axioms = parse_axioms(text)
    res["axioms"] = axioms
    short = {t.split(".")[-1]: t for t in theorems}
    ok = 0
    failed_lines = set()
    for mm in re.finditer(re.escape(os.path.basename(path)) + r":(\d+):\d+: error", text):
        failed_lines.add(int(mm.group(1)))
    # map error lines to enclosing theorem
    starts = [(mm.start(), mm.group(1)) for mm in re.finditer(r"^\s*theorem\s+([\w.'!?]+)", src, re.M)]
    line_of = lambda pos: src.count("\n", 0, pos) + 1
    spans = []
    for i, (pos, name) in enumerate(starts):
        end = starts[i + 1][0] if i + 1 < len(starts) else len(src)
        spans.append((line_of(pos), line_of(end), name))
    broken = set()
    for ln in failed_lines:
        for a, b, name in spans:
            if a <= ln < b or (ln == b and name == spans[-1][2]):
                broken.add(name)
    dep_failure = rc != 0 and not failed_lines
    for t in theorems:
        ax = None
        for k, v in axioms.items():
            if k == t or k.endswith("." + t):
                ax = v
        if dep_failure or t in broken:
            res["problems"].append(f"theorem {t} does not check")
            continue
        if ax is None:
            res["problems"].append(f"theorem {t}: no `#print axioms` output (must be listed at the end of the Props file)")
            continue
        extra = [a for a in ax if a not in ALLOWED_AXIOMS
                 and not ("native_decide" in allow_native and "._native.native_decide." in a)]
        if "sorryAx" in ax or extra:
            res["problems"].append(f"theorem {t}: axioms {ax}")
            continue
        ok += 1
    if rc != 0 and not res["problems"]:
        res["problems"].append(f"lake build {module} failed")
    res["discharged"] = ok
    return res


# --------------------------------------------------------------------------------------------
# protocol runs
# --------------------------------------------------------------------------------------------
def workdir(pid):
    d = os.path.join(BUILD, "work", pid)
    os.makedirs(d, exist_ok=True)
    return d


def gen_requests(args, out_path):
    with open(out_path, "w") as f:
        p = subprocess.run([driver_bin(), "gen"] + [str(a) for a in args], stdout=f, stderr=subprocess.PIPE, text=True, timeout=3600)
    if p.returncode != 0:
        raise RuntimeError(f"tvdriver gen {args} failed: {p.stderr[-500:]}")


# budget for answering one request stream (set per tier by checks.Check); a process that has not answered by then
# is stopped and its unanswered requests are marked `timeout` — a search that never returns must end the check,
# not hang it
STREAM_TIMEOUT = 6 * 3600


def serve(binary, req_path, out_path, timeout=None, extra_args=(), workers=None):
    """Answers every request line of `req_path` with `binary serve`, one answer line per request, into
    `out_path`. Request lines are independent of each other (every line carries its own state), so a long
    stream is dealt round-robin to several processes and the answers are put back in request order. A process
    that dies or is stopped leaves the requests it did not answer marked `crash` (as a single process would
    for the tail of its input)."""
    with open(req_path) as f:
        lines = [l for l in f.read().split("\n")]
    while lines and lines[-1] == "":
        lines.pop()
    n = len(lines)
    if timeout is None:
        timeout = STREAM_TIMEOUT
    if workers is None:
        workers = 1 if n < 4 else min(14, max(1, n // 2))
    if workers <= 1:
        with open(req_path) as fin, open(out_path, "w") as fout:
            try:
                p = subprocess.run([binary, "serve"] + list(extra_args), stdin=fin, stdout=fout,
                                   stderr=subprocess.PIPE, text=True, timeout=timeout, env=ENV)
                return p.returncode, p.stderr
            except subprocess.TimeoutExpired:
                pass
        got = read_lines(out_path)
        while got and got[-1] == "":
            got.pop()
        got = got[:-1] if got else got          # the line being written when the process was stopped
        with open(out_path, "w") as f:
            f.write("\n".join(got + ["timeout"] * (n - len(got))) + "\n")
        return 124, "timeout"
    parts = [[] for _ in range(workers)]
    for k, l in enumerate(lines):
        parts[k % workers].append(l)
    procs = []
    base = out_path + ".part"
    for w in range(workers):
        rp, op = f"{base}{w}.req", f"{base}{w}.out"
        with open(rp, "w") as f:
            f.write("\n".join(parts[w]) + "\n")
        fin, fout = open(rp), open(op, "w")
        procs.append((subprocess.Popen([binary, "serve"] + list(extra_args), stdin=fin, stdout=fout,
                                       stderr=subprocess.PIPE, text=True, env=ENV), fin, fout, op))
    rc, errs = 0, []
    deadline = time.time() + timeout
    answers = []
    timed_out = set()
    for w, (p, fin, fout, op) in enumerate(procs):
        try:
            _, err = p.communicate(timeout=max(1, deadline - time.time()))
        except subprocess.TimeoutExpired:
            p.kill()
            _, err = p.communicate()
            err = (err or "") + " timeout"
            timed_out.add(w)
        fin.close(); fout.close()
        if p.returncode != 0:
            rc = p.returncode
            errs.append((err or "")[-300:])
        with open(op, encoding="utf-8", errors="replace") as f:
            got = f.read().split("\n")
        if got and got[-1] == "":
            got.pop()
        answers.append(got)
    out = []
    for k in range(n):
        w, j = k % workers, k // workers
        a = answers[w]
        # the last line a dead process wrote may be cut short: believe it only if more follows or the process ended well
        if j < len(a) and (j < len(a) - 1 or procs[w][0].returncode == 0):
            out.append(a[j])
        else:
            out.append("timeout" if w in timed_out else "crash")
    with open(out_path, "w") as f:
        f.write("\n".join(out) + ("\n" if out else ""))
    for w in range(workers):
        for suffix in (".req", ".out"):
            try:
                os.remove(f"{base}{w}{suffix}")
            except OSError:
                pass
    return rc, " | ".join(errs)


def read_lines(path):
    with open(path, encoding="utf-8", errors="replace") as f:
        return f.read().split("\n")


def run_stream(pid, name, req_path, harness_bin):
    """returns list of (request, impl, model, spec); a crashed process leaves its tail as 'crash'"""
    wd = workdir(pid)
    ipath = os.path.join(wd, name + ".impl")
    dpath = os.path.join(wd, name + ".model")
    rc_i, err_i = serve(harness_bin, req_path, ipath)
    rc_d, err_d = serve(driver_bin(), req_path, dpath)
    reqs = [l for l in read_lines(req_path) if l]
    impl = read_lines(ipath)
    mod = read_lines(dpath)
    rows = []
    for k, r in enumerate(reqs):
        a = impl[k] if k < len(impl) and (impl[k] or k < len(impl) - 1) else "crash"
        if k < len(mod) and mod[k] and mod[k] != "crash":
            parts = mod[k].split("\t")
            m = parts[0]
            s = parts[1] if len(parts) > 1 else "-"
        else:
            m, s = "model-crash", "-"
        rows.append((r, a, m, s))
    if rc_d != 0:
        log(f"tvdriver exited rc={rc_d}: {err_d[-300:]}")
    return rows


FEN_RE = re.compile(r"([pnbrqkPNBRQK1-8]{1,8}(?:/[pnbrqkPNBRQK1-8]{1,8}){7}) ([wb]) (-|[KQkq]{1,4}) (-|[a-h][36])(?: (\d+) (\d+))?")


def collect_corpus():
    """corpus/*.fen plus every FEN literal found in /repo's sources (bench, perft, SEE, SAN, WAC …),
    read at run time; returns the path of the merged file"""
    seen, out = set(), []

    def add(text):
        for m in FEN_RE.finditer(text):
            fen = f"{m.group(1)} {m.group(2)} {m.group(3)} {m.group(4)} {m.group(5) or 0} {m.group(6) or 1}"
            if fen not in seen:
                seen.add(fen)
                out.append(fen)

    own = os.path.join(CORPUS, "positions.fen")
    if os.path.exists(own):
        with open(own) as f:
            add(f.read())
    for root in (os.path.join(REPO, "src"), os.path.join(REPO, "etc", "win_at_chess")):
        for dp, dn, fn in os.walk(root):
            if "fathom" in dp:
                continue
            for name in sorted(fn):
                if name.endswith((".rs", ".epd", ".txt")):
                    try:
                        with open(os.path.join(dp, name), encoding="utf-8", errors="replace") as f:
                            add(f.read())
                    except OSError:
                        pass
    path = os.path.join(BUILD, "work", "corpus.fen")
    os.makedirs(os.path.dirname(path), exist_ok=True)
    tmp = path + f".{os.getpid()}"
    with open(tmp, "w") as f:
        f.write("\n".join(out) + "\n")
    os.replace(tmp, path)
    return path, len(out)


def kv(text):
    """`A=x B=y` → dict (values without spaces)"""
    d = {}
    for tok in text.split(" "):
        if "=" in tok:
            k, v = tok.split("=", 1)
            d[k] = v
    return d


# --------------------------------------------------------------------------------------------
# findings, replays, evidence
# --------------------------------------------------------------------------------------------
def known_findings(pid):
    p = os.path.join(VERIF, "known_findings.json")
    if not os.path.exists(p):
        return []
    with open(p) as f:
        data = json.load(f)
    return [e for e in data if e.get("property") == pid and e.get("status") == "finding"]


def write_replay(pid, seed, n, payload):
    os.makedirs(REPLAYS, exist_ok=True)
    path = os.path.join(REPLAYS, f"{pid}-{seed}-{n}.json")
    payload = dict(payload)
    payload["property"] = pid
    with open(path, "w") as f:
        json.dump(payload, f, indent=1)
    return path


def write_evidence(pid, tier, seed, coverage, assumptions, wall_s, violations):
    os.makedirs(EVIDENCE, exist_ok=True)
    ev = {"property_id": pid, "tier": tier, "seed": int(seed), "level": "proof", "coverage": coverage,
          "assumptions": assumptions, "wall_s": round(wall_s, 2), "violations": int(violations)}
    path = os.path.join(EVIDENCE, pid + ".json")
    tmp = path + ".tmp"
    with open(tmp, "w") as f:
        json.dump(ev, f, indent=1)
    os.replace(tmp, path)
    return path
