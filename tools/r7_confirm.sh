#!/bin/sh
# r7_confirm.sh <Cnn>: copy the seventh-round seeded change out of /tmp/r7-<Cnn>/out and confirm it in its scratch worktree
id=$1; tag=${id}g
mkdir -p /tmp/seed-out/$tag
cp /tmp/r7-$id/out/* /tmp/seed-out/$tag/ || exit 1
if grep -q jgilchrist_tcheran_verif /tmp/seed-out/$tag/demo.diff 2>/dev/null; then export SEED_RUSTFLAGS='--cfg jgilchrist_tcheran_verif'; fi
if [ -f /tmp/seed-out/$tag/demo.sh ] || [ -f /tmp/seed-out/$tag/demo.py ]; then
  [ -f /tmp/seed-out/$tag/demo.py ] && [ ! -f /tmp/seed-out/$tag/demo.sh ] && cp /tmp/seed-out/$tag/demo.py /tmp/seed-out/$tag/demo.sh
  sh /verif/tools/confirm_seed_sh.sh $tag /tmp/r7-$id
else sh /verif/tools/confirm_seed.sh $tag /tmp/r7-$id; fi
cat /tmp/seed-out/$tag/confirm.txt
