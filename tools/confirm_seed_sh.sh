#!/bin/sh
# confirm_seed_sh.sh <id> <worktree>: like confirm_seed.sh for seeds whose demonstration is a script
# driving the release binary (demo.sh <binary>).
id=$1; wt=$2; out=/tmp/seed-out/$id/confirm.txt
export CARGO_TARGET_DIR=$wt/target CARGO_NET_OFFLINE=true
cd $wt || exit 1
git checkout -q -- . ; git clean -fdq -e target
demo=/tmp/seed-out/$id/demo.sh
run_demo() { if head -1 $demo | grep -q python; then python3 $demo "$1"; else sh $demo "$1"; fi; }
{
echo "== base $(git rev-parse --short HEAD)"
git apply /tmp/seed-out/$id/patch.diff || echo "PATCH DOES NOT APPLY"
echo "== patch only: suite"; cargo test --offline 2>&1 | grep "test result"
cargo build --release --offline 2>&1 | tail -1
echo "== patch: demo"; run_demo $wt/target/release/engine > /tmp/seed-out/$id/demo_with.log 2>&1; echo "exit $?"
git apply -R /tmp/seed-out/$id/patch.diff
cargo build --release --offline 2>&1 | tail -1
echo "== base: demo"; run_demo $wt/target/release/engine > /tmp/seed-out/$id/demo_without.log 2>&1; echo "exit $?"
} > $out 2>&1
git checkout -q -- . ; git clean -fdq -e target
rm -rf $wt/target
echo done >> $out
