"""Driving the real engine binary over pipes (UCI-level properties C05, C13, C17)."""
import os
import queue
import subprocess
import threading
import time


class Engine:
    def __init__(self, binary, delays=None):
        """delays: {'START'|'PRINTED'|'TAIL': ms} — scheduling hook H3 (holds the search thread at that step)"""
        env = dict(os.environ)
        for k in ("START", "PRINTED", "TAIL"):
            env.pop(f"TCHERAN_VERIF_DELAY_{k}_MS", None)
        for k, v in (delays or {}).items():
            env[f"TCHERAN_VERIF_DELAY_{k}_MS"] = str(v)
        self.p = subprocess.Popen([binary], stdin=subprocess.PIPE, stdout=subprocess.PIPE, stderr=subprocess.DEVNULL,
                                  text=True, bufsize=1, env=env)
        self.q = queue.Queue()
        self.lines = []
        self.t = threading.Thread(target=self._reader, daemon=True)
        self.t.start()

    def _reader(self):
        try:
            for line in self.p.stdout:
                self.q.put(line.rstrip("\n"))
        except Exception:
            pass
        self.q.put(None)

    def send(self, cmd):
        try:
            self.p.stdin.write(cmd + "\n")
            self.p.stdin.flush()
            return True
        except (BrokenPipeError, OSError, ValueError):
            return False

    def read_until(self, pred, timeout):
        """collects lines until pred(line) is true; returns (matched_line|None, lines_seen)"""
        end = time.time() + timeout
        seen = []
        while True:
            left = end - time.time()
            if left <= 0:
                return None, seen
            try:
                line = self.q.get(timeout=left)
            except queue.Empty:
                return None, seen
            if line is None:
                self.q.put(None)
                return None, seen
            self.lines.append(line)
            seen.append(line)
            if pred(line):
                return line, seen

    def drain(self, wait=0.0):
        out = []
        end = time.time() + wait
        while True:
            try:
                line = self.q.get(timeout=max(0.0, end - time.time()) if wait else 0)
            except queue.Empty:
                break
            if line is None:
                self.q.put(None)
                break
            self.lines.append(line)
            out.append(line)
        return out

    def alive(self):
        return self.p.poll() is None

    def wait_exit(self, timeout):
        try:
            self.p.wait(timeout=timeout)
            return True
        except subprocess.TimeoutExpired:
            return False

    def kill(self):
        try:
            self.p.kill()
            self.p.wait(timeout=5)
        except Exception:
            pass
