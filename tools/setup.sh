#!/bin/sh
# Builds the framework from files on disk only (offline): harness (both profiles), engine binary,
# translator output, Lean model + driver + every property module. Idempotent.
set -e
cd "$(dirname "$0")/.."
export CARGO_NET_OFFLINE=true
python3 - <<'PY'
import sys
sys.path.insert(0, "tools")
import vlib
h = vlib.build_harness("checked")
vlib.build_harness("fast")
vlib.build_engine("release")
changed, errs = vlib.run_translator(h)
print("translator:", changed, errs)
PY
cd lean
lake build TcheranVerif tvdriver $(ls TcheranVerif/Props/*.lean | sed 's#/#.#g; s#\.lean$##')
