#!/bin/sh
# r2_process.sh <Cnn> [check ids...]: confirm a third-round seeded change produced in /tmp/r3-<Cnn>/out
# in its scratch worktree, then run the quick checks against it on /repo (applied and reverted).
id=$1; shift
tag=${id}c
mkdir -p /tmp/seed-out/$tag
cp /tmp/r3-$id/out/patch.diff /tmp/r3-$id/out/demo.diff /tmp/r3-$id/out/meta.json /tmp/seed-out/$tag/ || exit 1
sh /verif/tools/confirm_seed.sh $tag /tmp/r3-$id
cat /tmp/seed-out/$tag/confirm.txt
( flock 9; sh /verif/tools/seedrun.sh /tmp/seed-out/$tag/patch.diff ${@:-$id} ) 9>/tmp/seedrun.lock > /tmp/seed-out/$tag/check.txt 2>&1
cat /tmp/seed-out/$tag/check.txt
