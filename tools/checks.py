"""Per-property checks. Each check = Lean obligations (theorems over the model) + correspondence
(model vs implementation on the same requests) + property oracle on the implementation (normally the
`Rules` specification evaluated by tvdriver), as laid out in DESIGN.md §2.5."""
import json
import os
import subprocess
import re
import time

import vlib
from vlib import log, kv
from uci import Engine


class Issue:
    def __init__(self, kind, request, impl, model, spec, detail, stream):
        self.kind = kind          # 'oracle' | 'corr'
        self.request, self.impl, self.model, self.spec = request, impl, model, spec
        self.detail, self.stream = detail, stream

    def payload(self):
        return {"kind": "counterexample" if self.kind == "oracle" else "broken-correspondence",
                "stream": self.stream, "request": self.request, "implementation_answer": self.impl[:4000],
                "model_answer": self.model[:4000], "spec_answer": self.spec[:4000], "detail": self.detail}


class Check:
    pid = "C00"
    title = ""
    props_module = None
    profile = "checked"
    gen_modules = ()          # Gen/* modules whose extraction failure breaks this property
    allow_native = ()
    assumptions = []
    rule = ""

    def __init__(self, tier, seed):
        self.tier, self.seed = tier, seed
        vlib.STREAM_TIMEOUT = 900 if tier == "quick" else 3 * 3600
        self.wd = vlib.workdir(self.pid)
        self.features = {}
        self.samples = []
        self.evaluations = 0
        self.distinct = set()
        self.exhaustive = False

    # -- to be provided by subclasses ---------------------------------------------------------
    def streams(self):
        """yield (name, request_file)"""
        return []

    def judge(self, req, impl, model, spec):
        """return (corr_detail|None, oracle_detail|None, features, nontrivial_key|None)"""
        raise NotImplementedError

    def extra_phase(self, harness_bin):
        """optional additional exploration (e.g. real binary); returns list of Issue"""
        return []

    # -- helpers ------------------------------------------------------------------------------
    def n(self, quick, thorough):
        return quick if self.tier == "quick" else thorough

    def corpus_file(self, name):
        if name == "positions.fen":
            path, n = vlib.collect_corpus()
            self.features["corpus-positions"] = n
            return path
        return os.path.join(vlib.CORPUS, name)

    def known(self, issue):
        for e in vlib.known_findings(self.pid):
            pat = e.get("match")
            if pat and re.search(pat, issue.request + " " + issue.detail):
                return e
        return None

    # -- main flow ----------------------------------------------------------------------------
    def run(self, replay=None):
        t0 = time.time()
        problems = []      # broken obligations / build problems (strings)
        issues = []
        harness_bin = None
        try:
            harness_bin = vlib.build_harness(self.profile)
        except vlib.BuildError as e:
            problems.append(str(e)[:2000])
        obl = {"obligations": 0, "discharged": 0, "axioms": {}, "problems": [], "theorems": []}
        if harness_bin:
            changed, terrs = vlib.run_translator(harness_bin)
            for m, msg in terrs.items():
                if not self.gen_modules or m in self.gen_modules:
                    problems.append(f"translator: Gen/{m}: {msg}")
            if self.props_module:
                obl = vlib.check_obligations(self.props_module, self.allow_native)
                problems += obl["problems"]
            rc, out = vlib.lake_build(["tvdriver"])
            if rc != 0:
                problems.append("model driver does not build against the regenerated constants:\n" + out[-1500:])
            else:
                if replay:
                    issues += self.run_replay(replay, harness_bin)
                else:
                    for name, req in self.streams():
                        issues += self.run_one_stream(name, req, harness_bin)
                    issues += self.extra_phase(harness_bin)
        return self.finish(t0, obl, problems, issues)

    def run_one_stream(self, name, req, harness_bin):
        rows = vlib.run_stream(self.pid, name, req, harness_bin)
        issues = []
        for (r, a, m, s) in rows:
            self.evaluations += 1
            try:
                corr, oracle, feats, key = self.judge(r, a, m, s)
            except Exception as e:  # malformed answer = disagreement, never a crash of the check
                corr, oracle, feats, key = f"unparseable answer: {e}", None, [], None
            for ft in feats:
                self.features[ft] = self.features.get(ft, 0) + 1
            if key is not None:
                self.distinct.add(key)
            if len(self.samples) < 3 and (self.evaluations % 997 == 1):
                self.samples.append({"request": r[:300], "implementation": a[:300], "spec": s[:300]})
            if oracle:
                issues.append(Issue("oracle", r, a, m, s, oracle, name))
            elif corr:
                issues.append(Issue("corr", r, a, m, s, corr, name))
        return issues

    def run_replay(self, path, harness_bin):
        with open(path) as f:
            rp = json.load(f)
        req = os.path.join(self.wd, "replay.req")
        with open(req, "w") as f:
            f.write(rp["request"] + "\n")
        return self.run_one_stream("replay", req, harness_bin)

    def finish(self, t0, obl, problems, issues):
        oracle = [i for i in issues if i.kind == "oracle"]
        corr = [i for i in issues if i.kind == "corr"]
        lines = []
        nviol = 0
        reported_known = set()
        new_oracle = []
        for i in oracle:
            k = self.known(i)
            if k:
                if k["id"] not in reported_known:
                    reported_known.add(k["id"])
                    lines.append(f"KNOWN-FINDING: property={self.pid} {k['id']}: {k.get('what', '')}")
            else:
                new_oracle.append(i)
        if new_oracle:
            # smallest request first: the most readable counterexample
            new_oracle.sort(key=lambda i: len(i.request))
            i = new_oracle[0]
            pl = i.payload()
            pl.update(getattr(i, "extra", {}))
            path = vlib.write_replay(self.pid, self.seed, 0, pl)
            lines.append(f"VIOLATION property={self.pid} replay={path} {i.detail[:300]}")
            nviol = len(new_oracle)
        elif corr or problems:
            payload = {"kind": "broken-correspondence" if corr else "broken-obligation",
                       "request": corr[0].request if corr else "",
                       "problems": problems[:20], "theorems": obl.get("theorems", []),
                       "lean_log": obl.get("log", "")[-3000:]}
            if corr:
                corr.sort(key=lambda i: len(i.request))
                payload.update(corr[0].payload())
                payload["kind"] = "broken-correspondence"
            path = vlib.write_replay(self.pid, self.seed, 1, payload)
            what = (f"model and implementation disagree on {len(corr)} request(s) of stream {corr[0].stream}: {corr[0].detail[:200]}"
                    if corr else f"proof obligation no longer checks: {problems[0][:200]}")
            lines.append(f"VIOLATION property={self.pid} replay={path} {what} no-failing-input-found")
            nviol = 1
        axioms = sorted({a for v in obl.get("axioms", {}).values() for a in v})
        coverage = {
            "obligations": obl["obligations"], "discharged": obl["discharged"],
            "checker_cmd": f"cd /verif/lean && lake build {self.props_module} tvdriver",
            "trusted_base": ["Lean 4.33 kernel", "axioms: " + (", ".join(axioms) if axioms else "none")] + list(self.trusted_extra()),
            "theorems": obl.get("theorems", []),
            "evaluations": self.evaluations, "distinct_nontrivial": len(self.distinct),
            "rule": self.rule, "samples": self.samples or [{"note": "no request stream ran"}],
            "traces_validated_against_impl": self.evaluations,
            "feature_histogram": dict(sorted(self.features.items())),
            "model_disagreements": len(corr), "oracle_failures": len(oracle),
            "known_findings_hit": sorted(reported_known),
            "obligation_problems": problems[:10],
            "exhaustive": bool(self.exhaustive),
        }
        vlib.write_evidence(self.pid, self.tier, self.seed, coverage, self.assumptions, time.time() - t0, nviol)
        for l in lines:
            print(l, flush=True)
        log(f"{self.pid} {self.tier}: obligations {obl['discharged']}/{obl['obligations']}, "
            f"{self.evaluations} evaluations, {len(corr)} model disagreements, {len(oracle)} oracle failures, "
            f"{time.time() - t0:.1f}s")
        return 1 if nviol else 0

    def trusted_extra(self):
        return ["translator tools/translate.py (Gen/* regenerated from /repo on this run)",
                "correspondence harness /verif/harness (compiles /repo's working tree in-process)"]


# =============================================================================================
# C07
# =============================================================================================
class C07(Check):
    pid = "C07"
    props_module = "TcheranVerif.Props.C07"
    gen_modules = ("Magics", "MagicCert")
    allow_native = ()   # no native_decide anywhere any more (kernel-only sweep, Proofs/Sweep)
    rule = ("exhaustive: every (kind, square, subset of the relevant-blocker mask) = 107,648 slider lookups, all 64 "
            "knight/king squares, 128 pawn entries, 4,096 square pairs; plus random full occupancies with "
            "irrelevant bits set. distinct = distinct requests; all are non-trivial (each is one table cell).")
    assumptions = ["Rust `get_unchecked` reads the slot whose index the model computes (index-in-range is a theorem; "
                   "the address computation itself is trusted)",
                   "the 107,648-case sweep is decided by the kernel alone (27 parts, Proofs/Sweep) against an untrusted "
                   "certificate of the table contents regenerated by the translator (Gen/MagicCert.lean); no native_decide"]

    def streams(self):
        req = os.path.join(self.wd, "c07.req")
        vlib.gen_requests(["c07", self.seed, self.n(20000, 400000)], req)
        self.exhaustive = True
        yield "c07", req

    def judge(self, req, impl, model, spec):
        kind = req.split("\t")[0]
        corr = None if impl == model else f"{req!r}: implementation {impl} model {model}"
        oracle = None if impl == spec else f"{req!r}: table gives {impl}, geometry gives {spec}"
        return corr, oracle, [kind], req

    def extra_phase(self, harness_bin):
        """the tables are built once, at start-up: whatever the machine looks like then (number of usable processors)
        must not matter — the same sample of lookups is answered by processes confined to 1, 2, 3, 5, 6 and 7
        processors and compared with the geometry"""
        issues = []
        if self._replay_cpus is None and not hasattr(os, "sched_setaffinity"):
            return issues
        avail = sorted(os.sched_getaffinity(0))
        rnd = random.Random(self.seed * 131 + 7)
        lines = []
        for sq in range(64):
            lines += [f"knight\t{sq}", f"king\t{sq}", f"pawn\t{sq}\tw", f"pawn\t{sq}\tb", f"rook\t{sq}\t{0:016x}",
                      f"bishop\t{sq}\t{0:016x}", f"rook\t{sq}\t{rnd.getrandbits(64) & rnd.getrandbits(64):016x}",
                      f"bishop\t{sq}\t{rnd.getrandbits(64) & rnd.getrandbits(64):016x}", f"between\t{sq}\t{63 - sq}",
                      f"between\t{sq}\t{sq}"]
        req = os.path.join(self.wd, "cpus.req")
        with open(req, "w") as f:
            f.write("\n".join(lines) + "\n")
        expect = os.path.join(self.wd, "cpus.model")
        vlib.serve(vlib.driver_bin(), req, expect, workers=1)
        want = [l.split("\t")[1] if "\t" in l else "" for l in vlib.read_lines(expect)]
        for ncpu in (1, 2, 3, 5, 6, 7):
            if ncpu > len(avail):
                continue
            cpus = set(avail[:ncpu])
            with open(req) as fin:
                p = subprocess.run([harness_bin, "serve"], stdin=fin, capture_output=True, text=True, timeout=300,
                                   env=vlib.ENV, preexec_fn=lambda: os.sched_setaffinity(0, cpus))
            got = p.stdout.split("\n")
            self.features[f"cpus={ncpu}"] = len(lines)
            for k, r in enumerate(lines):
                self.evaluations += 1
                a = got[k] if k < len(got) else "crash"
                if a != want[k]:
                    issues.append(Issue("oracle", r, a, want[k], want[k],
                                        f"{r!r} answered by a process confined to {ncpu} processor(s): table gives {a}, geometry gives {want[k]}",
                                        f"cpus-{ncpu}"))
                    break
        return issues

    _replay_cpus = None

    def run_replay(self, path, harness_bin):
        with open(path) as f:
            rp = json.load(f)
        if str(rp.get("stream", "")).startswith("cpus-"):
            ncpu = int(rp["stream"].split("-")[1])
            cpus = set(sorted(os.sched_getaffinity(0))[:ncpu])
            p = subprocess.run([harness_bin, "serve"], input=rp["request"] + "\n", capture_output=True, text=True,
                               timeout=300, env=vlib.ENV, preexec_fn=lambda: os.sched_setaffinity(0, cpus))
            a = p.stdout.split("\n")[0]
            self.evaluations += 1
            if a != rp["spec_answer"]:
                return [Issue("oracle", rp["request"], a, rp["spec_answer"], rp["spec_answer"],
                              f"{rp['request']!r} answered by a process confined to {ncpu} processor(s): table gives {a}, "
                              f"geometry gives {rp['spec_answer']}", rp["stream"])]
            return []
        return super().run_replay(path, harness_bin)


# =============================================================================================
# C01
# =============================================================================================
MOVES_RE = re.compile(r"check=(\w+) n=(\d+) ncaps=(\d+) staged=(\d) sorted=\[(.*?)\] order=\[(.*?)\]")
SPEC_MOVES_RE = re.compile(r"check=(\w+) n=(\d+) sorted=\[(.*?)\](?: F=(\S*))?")


class C01(Check):
    pid = "C01"
    props_module = "TcheranVerif.Props.C01"
    gen_modules = ("Magics", "MagicCert")
    # the `_tables` corollaries inherit the one native_decide of Props.C07 (magic-table sweep)
    allow_native = ()   # no native_decide anywhere any more (kernel-only sweep, Proofs/Sweep)
    rule = ("positions from the corpus (repo bench/perft/SEE/SAN/WAC FENs + past failures), Rules-chosen random "
            "playouts, random legal placements (sparse and dense) and e.p./pin/castling templates; distinct = "
            "distinct FEN; non-trivial = at least one of: in check, e.p. target set, pinned man, castling right, "
            "promotion available, no legal move")

    def streams(self):
        req = os.path.join(self.wd, "moves.req")
        vlib.gen_requests(["moves", self.seed, self.n(4000, 150000), self.corpus_file("positions.fen")], req)
        yield "moves", req
        req2 = os.path.join(self.wd, "templates.req")
        vlib.gen_requests(["templates", self.seed, self.n(3000, 200000)], req2)
        yield "templates", req2

    def judge(self, req, impl, model, spec):
        corr = None if impl == model else f"move generation differs from the model: impl {impl[:200]} model {model[:200]}"
        sm = SPEC_MOVES_RE.match(spec)
        feats = sm.group(4).split(",") if sm and sm.group(4) else []
        feats = [f for f in feats if f]
        key = req if feats else None
        if impl in ("panic", "crash", "timeout"):
            return corr, f"move generation crashes on {req.split(chr(9))[1]}", feats, key
        im = MOVES_RE.match(impl)
        if not im or not sm:
            return corr or "unparseable", None, feats, key
        oracle = None
        fen = req.split("\t")[1]
        imoves, smoves = im.group(5).split(), sm.group(3).split()
        if im.group(1) != sm.group(1):
            oracle = f"in-check verdict {im.group(1)} but rules say {sm.group(1)} in {fen}"
        elif len(set(imoves)) != len(imoves):
            dup = sorted(m for m in set(imoves) if imoves.count(m) > 1)
            oracle = f"move listed twice {dup} in {fen}"
        elif imoves != smoves:
            missing = sorted(set(smoves) - set(imoves))
            extra = sorted(set(imoves) - set(smoves))
            oracle = f"generated moves differ from the rules in {fen}: missing {missing} illegal-or-mislabelled {extra}"
        elif im.group(4) != "1":
            oracle = f"staged generation (captures then quiets) differs from one-shot generation in {fen}"
        return corr, oracle, feats, key


# =============================================================================================
# play-stream properties: C02, C03, C11, C15
# =============================================================================================
PIECE_KINDS = "pnbrqk"


def views_from_mailbox(b):
    kinds = [0] * 6
    cols = [0, 0]
    for i, c in enumerate(b):
        if c == ".":
            continue
        kinds[PIECE_KINDS.index(c.lower())] |= 1 << i
        cols[0 if c.isupper() else 1] |= 1 << i
    return ",".join(f"{k:016x}" for k in kinds), ",".join(f"{c:016x}" for c in cols)


class PlayCheck(Check):
    """shared machinery for the properties observed on make/unmake histories"""
    stream_args = ("play",)
    spec_keys = ()

    def streams(self):
        req = os.path.join(self.wd, "play.req")
        vlib.gen_requests(["play", self.seed + self.seed_offset, self.n(1200, 40000), self.corpus_file("positions.fen")], req)
        yield "play", req

    seed_offset = 0

    def oracle_states(self, req, ops, istates, sstates):
        raise NotImplementedError

    def judge(self, req, impl, model, spec):
        f = req.split("\t")
        ops = f[2].split() if len(f) > 2 else []
        corr = None if impl == model else self.first_diff(impl, model, self.corr_keys)
        feats = set()
        for o in ops:
            if o in ("null", "undo", "undonull"):
                feats.add(o)
            else:
                code = o.split(":")[1]
                feats.add({"0": "quiet", "1": "capture", "4": "castle", "5": "enpassant"}.get(code, "promotion"))
        if impl in ("panic", "crash", "timeout"):
            return corr, f"make/unmake crashes: {req[:300]}", feats, req
        istates = [kv(x) for x in impl.split(" ; ")]
        sstates = [kv(x) for x in spec.split(" ; ")]
        if len(istates) != len(ops) + 1 or len(sstates) != len(ops) + 1:
            return corr or "state count mismatch", None, feats, req
        oracle = self.oracle_states(req, ops, istates, sstates)
        return corr, oracle, feats, (req if ops else None)

    corr_keys = None   # fields of a state the correspondence compares (None = all)

    @staticmethod
    def first_diff(impl, model, only=None):
        a, b = impl.split(" ; "), model.split(" ; ")
        for k, (x, y) in enumerate(zip(a, b)):
            if x != y:
                dx, dy = kv(x), kv(y)
                keys = [key for key in dx if dx.get(key) != dy.get(key) and (only is None or key in only)]
                if keys:
                    return f"state {k} differs from the model in {keys}: impl {[dx.get(key) for key in keys]} model {[dy.get(key) for key in keys]}"
        if len(a) != len(b):
            return f"state lists differ in length ({len(a)} vs {len(b)})"
        return None


class C02(PlayCheck):
    pid = "C02"
    # the key and the evaluation accumulators are the business of C03 and C15
    corr_keys = ("B", "K", "C", "P", "R", "E", "H", "L")
    props_module = "TcheranVerif.Props.C02"
    seed_offset = 2
    rule = ("operation sequences (legal moves chosen by the Rules spec, nested null moves, take-backs) from corpus "
            "positions, playouts and random legal placements; every state after every op is compared; distinct = "
            "distinct (start, op sequence) with at least one op")

    def oracle_states(self, req, ops, istates, sstates):
        stack = []
        for k, (i, s) in enumerate(zip(istates, sstates)):
            where = f"after op {k} ({ops[k - 1] if k else 'start'}) of {req[:200]}"
            for key in ("B", "P", "R", "E", "H", "L"):
                if i.get(key) != s.get(key):
                    return f"{key} is {i.get(key)} but the rules prescribe {s.get(key)} {where}"
            kk, cc = views_from_mailbox(i["B"])
            if i["K"] != kk or i["C"] != cc:
                return f"board views disagree (by-kind/by-colour vs by-square) {where}"
            if k < len(ops):
                if ops[k] in ("undo", "undonull"):
                    pass
            # reversibility: a take-back restores the complete earlier dump
            if k > 0:
                op = ops[k - 1]
                if op in ("undo", "undonull"):
                    before = stack.pop()
                    if before != i:
                        keys = [key for key in before if before[key] != i.get(key)]
                        return f"take-back did not restore {keys} {where}"
                else:
                    stack.append(istates[k - 1])
        return None


class C03(PlayCheck):
    pid = "C03"
    corr_keys = ("B", "P", "R", "E", "Z", "ZR")
    props_module = "TcheranVerif.Props.C03"
    gen_modules = ("ZobristKeys",)
    seed_offset = 3
    rule = ("same op-sequence streams as C02; at every state the carried key must equal the from-scratch key, and over "
            "all states of the run the map canonical position -> key must be a function and injective; distinct = "
            "distinct canonical positions seen")

    def __init__(self, tier, seed):
        super().__init__(tier, seed)
        self.pos2key, self.key2pos = {}, {}

    def oracle_states(self, req, ops, istates, sstates):
        for k, i in enumerate(istates):
            where = f"after op {k} ({ops[k - 1] if k else 'start'}) of {req[:200]}"
            if i["Z"] != i["ZR"]:
                return f"carried key {i['Z']} differs from the recomputed key {i['ZR']} {where}"
            pos = (i["B"], i["P"], i["R"], i["E"])
            self.distinct.add(pos)
            z = i["Z"]
            if self.pos2key.setdefault(pos, z) != z:
                return f"one position has two keys {self.pos2key[pos]} and {z} {where}"
            if self.key2pos.setdefault(z, pos) != pos:
                return f"two different positions share key {z}: {self.key2pos[z]} and {pos}"
        return None

    def judge(self, req, impl, model, spec):
        c, o, f, _ = super().judge(req, impl, model, spec)
        return c, o, f, None


class C15(PlayCheck):
    pid = "C15"
    corr_keys = ("B", "P", "PH", "MG", "EG", "PHR", "MGR", "EGR")
    props_module = "TcheranVerif.Props.C15"
    gen_modules = ("EvalParams",)
    seed_offset = 15
    rule = ("same op-sequence streams as C02 (promotions, e.p., castling, nested null moves); at every state the three "
            "accumulators must equal their recomputation from the board; distinct = distinct op sequences")

    def oracle_states(self, req, ops, istates, sstates):
        for k, i in enumerate(istates):
            where = f"after op {k} ({ops[k - 1] if k else 'start'}) of {req[:200]}"
            for a, b in (("PH", "PHR"), ("MG", "MGR"), ("EG", "EGR")):
                if i[a] != i[b]:
                    return f"accumulator {a}={i[a]} but recomputation gives {i[b]} {where}"
        return None


def rook_tour(w, h):
    """K+R v K, rook on a1, kings h1 / h8: the rook walks a closed tour of the w x h rectangle at a1 twice (h even),
    the white king steps to h2 before the last move of the first lap and back to h1 at the very end, the black king
    shuffles h8-g8. No position recurs until the last move, which restores the start position after 4wh+4 plies."""
    cyc = [(c, 0) for c in range(w)]
    for r in range(1, h):
        cols = range(w - 1, 0, -1) if r % 2 == 1 else range(1, w)
        cyc += [(c, r) for c in cols]
    cyc += [(0, r) for r in range(h - 1, 0, -1)]
    assert len(cyc) == w * h and len(set(cyc)) == w * h
    name = lambda sq: "abcdefgh"[sq[0]] + str(sq[1] + 1)
    white = []
    for lap in range(2):
        for i in range(w * h):
            if lap == 0 and i == w * h - 1:
                white.append("h1h2")
            white.append(name(cyc[i]) + name(cyc[(i + 1) % (w * h)]))
    white.append("h2h1")
    ops = []
    for k, mv in enumerate(white):
        ops.append(mv + ":0")
        ops.append(("h8g8" if k % 2 == 0 else "g8h8") + ":0")
    return " ".join(ops)


class C11(PlayCheck):
    pid = "C11"
    props_module = "TcheranVerif.Props.C11"
    seed_offset = 11
    rule = ("game histories (no null moves) biased to shuffling so that repetitions and high clocks occur, FEN starts "
            "with non-zero clocks, plus sparse-material positions for the dead-material rule; every state compared with "
            "the Rules-side definitions; distinct = distinct histories in which a repetition, a clock >= 100 or <= 4 men occur")

    def streams(self):
        req = os.path.join(self.wd, "draws.req")
        vlib.gen_requests(["draws", self.seed + 11, self.n(1500, 40000), self.corpus_file("positions.fen")], req)
        # fixed games first: a position that recurs only after more than a hundred reversible plies
        tours = []
        with open(self.corpus_file("long_tours.txt")) as f:
            for line in f:
                if line.strip() and not line.startswith("#"):
                    fen, ops = line.rstrip("\n").split("\t")
                    tours.append(f"play\t{fen}\t{ops}\n")
        tours += [f"play\t7k/8/8/8/8/8/8/R6K w - - 0 1\t{rook_tour(w, h)}\n" for (w, h) in ((5, 6), (4, 6), (6, 4), (3, 6))]
        with open(req) as f:
            rest = f.read()
        with open(req, "w") as f:
            f.write("".join(tours) + rest)
        yield "draws", req

    def oracle_states(self, req, ops, istates, sstates):
        for k, (i, s) in enumerate(zip(istates, sstates)):
            where = f"after op {k} ({ops[k - 1] if k else 'start'}) of {req[:300]}"
            if s["REP"] != "*" and i["REP"] != s["REP"]:
                return f"repetition verdict {i['REP']} but the history says {s['REP']} {where}"
            if i["F50"] != s["F50"]:
                return f"fifty-move verdict {i['F50']} but the rules say {s['F50']} {where}"
            if s["INS"] != "*" and i["INS"] != s["INS"]:
                return f"insufficient-material verdict {i['INS']} but the property demands {s['INS']} {where}"
        return None

    def judge(self, req, impl, model, spec):
        c, o, f, key = super().judge(req, impl, model, spec)
        interesting = (" REP=1" in spec) or (" F50=1" in spec) or (" INS=1" in spec)
        if interesting:
            f = set(f) | {"draw-condition-met"}
        return c, o, f, (key if interesting else None)

    def extra_phase(self, harness_bin):
        """the same rule where the search applies it: after a game (the request's history) in which some legal move
        leads back to an earlier position, a depth-1 search must not score the position below a draw — the drawn
        position lies exactly at the horizon, where negamax hands over to quiescence; the search model must give
        the same lines"""
        issues = []
        req = os.path.join(self.wd, "drawsearch.req")
        vlib.gen_requests(["drawsearch", self.seed + 11, self.n(60, 1500), self.corpus_file("positions.fen")], req)
        hb = vlib.build_harness("fast")
        for (r, a, m, s) in vlib.run_stream(self.pid, "drawsearch", req, hb):
            self.evaluations += 1
            self.features["search-after-game"] = self.features.get("search-after-game", 0) + 1
            jobs = parse_jobs(a)
            oracle = None
            if a in ("crash", "panic", "timeout") or not jobs or "infos" not in jobs[0]:
                oracle = f"search crashes after the game {r[:300]}"
            elif jobs[0]["infos"]:
                sc = jobs[0]["infos"][-1]["s"]
                val = int(sc[2:]) if sc.startswith("cp") else (1 if not sc.startswith("mate-") else -1) * 30000
                self.distinct.add(r)
                if val < 0:
                    oracle = (f"a legal move repeats an earlier position of the game, yet the depth-1 search scores the "
                              f"position {sc} for the side to move (a draw is available): {r[:300]}")
            if oracle:
                issues.append(Issue("oracle", r, a, m, s, oracle, "drawsearch"))
            elif norm_hf(a) != norm_hf(m):
                issues.append(Issue("corr", r, a, m, s, "search after a game with a repetition in reach differs from the model", "drawsearch"))
        return issues


# =============================================================================================
# C06
# =============================================================================================
class C06(Check):
    pid = "C06"
    props_module = "TcheranVerif.Props.C06"
    rule = ("write/read round trips of legal positions (corpus, playouts, placements); canonical text re-written; "
            "malformed stream: systematic single-character edits, rank-width corruptions, counter overflows, missing and "
            "extra fields, non-ASCII; distinct = distinct texts; non-trivial = not the start position")

    def streams(self):
        req = os.path.join(self.wd, "fen.req")
        vlib.gen_requests(["fen", self.seed + 6, self.n(1500, 30000), self.corpus_file("positions.fen")], req)
        # hand-kept regression inputs run first
        extra = self.corpus_file("fen_malformed.txt")
        if os.path.exists(extra):
            with open(extra) as f:
                pre = [l.rstrip("\n") for l in f]
            with open(req) as g:
                body = g.read()
            with open(req, "w") as g:
                for line in pre:
                    if line and not line.startswith("#"):
                        g.write("fen\t" + line + "\n")
                g.write(body)
        yield "fen", req

    def judge(self, req, impl, model, spec):
        f = req.split("\t")
        text = "\t".join(f[1:])
        kind = f[0]
        corr = None if impl == model else f"reader/writer differs from the model on {text!r}: impl {impl[:160]} model {model[:160]}"
        feats = [kind]
        oracle = None
        if kind == "fen":
            if impl in ("panic", "crash", "timeout"):
                oracle = f"FEN reader crashes on {text!r}"
            elif impl.startswith("ok "):
                feats.append("accepted")
                d = kv(impl[3:].split(" W=")[0])
                # every accepted board field must describe 8 squares per rank
                board = text.strip().split(" ")[0].split("\t")[0]
                widths = []
                for rank in board.split("/"):
                    widths.append(sum(int(c) if c.isdigit() else 1 for c in rank))
                if widths != [8] * 8:
                    oracle = f"accepted a board field with rank widths {widths}: {text!r}"
                elif spec not in ("-", "") and spec.startswith("ok "):
                    # spec = the position the text denotes (for canonical texts of legal positions)
                    sd = kv(spec[3:])
                    for key in ("B", "P", "R", "E", "H", "L"):
                        if d.get(key) != sd.get(key):
                            oracle = f"read back {key}={d.get(key)} but wrote {sd.get(key)}: {text!r}"
                            break
                    if not oracle and d["Z"] != d["ZR"]:
                        oracle = f"key after reading differs from recomputation: {text!r}"
                    if not oracle and "canon=1" in spec:
                        w = impl.split(" W=")[1] if " W=" in impl else ""
                        if w != text:
                            oracle = f"canonical text not reproduced: read {text!r} wrote {w!r}"
            elif impl == "err":
                feats.append("rejected")
                if spec.startswith("ok "):
                    oracle = f"canonical FEN of a legal position rejected: {text!r}"
        elif kind == "fenrt":
            # text is the canonical FEN of a legal position (written by the rules-side writer);
            # impl: strict-reader(text) -> engine writer -> engine reader
            if impl in ("panic", "crash", "timeout"):
                oracle = f"FEN writer/reader crashes on {text!r}"
            else:
                m = re.match(r"W=(.*?) G0=(.*?) G1=(.*)$", impl)
                if not m:
                    corr = corr or "unparseable fenrt answer"
                else:
                    w, g0, g1 = m.group(1), kv(m.group(2)), m.group(3)
                    if w != text:
                        oracle = f"position {text!r} is written as {w!r}"
                    elif not g1.startswith("ok "):
                        oracle = f"the engine cannot read back its own FEN {w!r} ({g1[:20]})"
                    else:
                        d1 = kv(g1[3:].split(" W=")[0])
                        for key in ("B", "P", "R", "E", "H", "L", "Z", "PH", "MG", "EG"):
                            if d1.get(key) != g0.get(key):
                                oracle = f"write/read round trip changes {key}: {g0.get(key)} -> {d1.get(key)} for {text!r}"
                                break
                        if not oracle and d1["Z"] != d1["ZR"]:
                            oracle = f"key after reading differs from recomputation: {text!r}"
                        if not oracle and " W=" in g1 and g1.split(" W=")[1] != w:
                            oracle = f"reading {w!r} and writing it back gives {g1.split(' W=')[1]!r}"
        return corr, oracle, feats, (text if text != "rnbqkbnr/pppppppp/8/8/8/8/PPPPPPPP/RNBQKBNR w KQkq - 0 1" else None)



# =============================================================================================
# C19
# =============================================================================================
TT_TOK = re.compile(r"(\S+?)\[occ=(\d+),gen=(\d+),hf=(\d+)\]")


class C19(Check):
    pid = "C19"
    props_module = "TcheranVerif.Props.C19"
    rule = ("operation sequences insert/probe/new-search/reset/resize on tables of 0..3 MB (thorough: up to 1024 MB), "
            "keys forced to collide on a few slots (slot + k*n) plus wild 64-bit keys, ages current and stale, runs of "
            "300 new-search steps; every insert is followed by a probe of the same key so that admission is observable; "
            "distinct = distinct sequences; non-trivial = contains a slot collision or a stale age")

    def streams(self):
        req = os.path.join(self.wd, "tt.req")
        vlib.gen_requests(["tt", self.seed, self.n(400, 6000), "1" if self.tier == "thorough" else "0"], req)
        yield "tt", req

    @staticmethod
    def norm(ans):
        return re.sub(r",hf=\d+\]", "]", ans)

    def judge(self, req, impl, model, spec):
        f = req.split("\t")
        mb = int(f[1])
        ops = f[2].split() if len(f) > 2 else []
        corr = None
        if self.norm(impl) != self.norm(model):
            corr = "table behaviour differs from the model"
        else:
            for a, b in zip(TT_TOK.findall(impl), TT_TOK.findall(model)):
                if abs(int(a[3]) - int(b[3])) > 1:
                    corr = f"fill indicator {a[3]} vs exact {b[3]}"
        feats = set()
        if impl in ("panic", "crash", "timeout"):
            return corr, f"transposition table crashes: {req[:300]}", feats, req
        toks = TT_TOK.findall(impl)
        if len(toks) != len(ops):
            return corr or "token count", None, feats, req
        # property oracle, independent of the model
        n = mb * 1024 * 1024 // 16
        slots = {}      # slot -> (key, data tuple, age)
        gen = 0
        occ = 0
        last_insert = None
        oracle = None
        for op, (res, o_occ, o_gen, o_hf) in zip(ops, toks):
            p = op.split(":")
            o_occ, o_gen, o_hf = int(o_occ), int(o_gen), int(o_hf)
            if p[0] == "i":
                key = int(p[1], 16)
                age = gen if p[5] == "g" else int(p[5])
                if age != gen:
                    feats.add("stale-age")
                data = (p[2], p[3], p[4], str(age), "-" if p[6] == "-" else f"{p[6]}:{p[7]}")
                last_insert = (key, data)
            elif p[0] == "g":
                key = int(p[1], 16)
                slot = key % n if n else None
                known = slots.get(slot) if n else None
                if last_insert and last_insert[0] == key and n:
                    # admission becomes observable here
                    ikey, idata = last_insert
                    stored = res == "hit:" + ":".join(idata)
                    if known is None:
                        if not stored:
                            oracle = f"insert into an empty slot was not stored ({op})"
                        occ += 1
                    else:
                        feats.add("collision")
                        kkey, kdata = known
                        if kdata[3] != idata[3] and not stored:
                            oracle = f"entry from an earlier search did not give way ({op})"
                        elif kdata[3] == idata[3] and kdata[0] == "E" and idata[0] != "E" and int(idata[2]) <= int(kdata[2]) and stored:
                            oracle = f"an exact entry was displaced by a shallower non-exact one of the same search ({op})"
                    if stored:
                        slots[slot] = (ikey, idata)
                    known = slots.get(slot)
                last_insert = None
                if oracle:
                    break
                if res.startswith("hit:"):
                    if not n or known is None or known[0] != key:
                        oracle = f"probe {op} returned data although nothing is stored under exactly that key"
                    elif res != "hit:" + ":".join(known[1]):
                        oracle = f"probe {op} returned {res}, latest admitted entry is {known[1]}"
                elif known is not None and known[0] == key:
                    oracle = f"probe {op} missed although {known[1]} is stored under that key"
            elif p[0] == "f":
                # fill: consecutive keys; only the number of occupied slots is judged (whether a same-search
                # non-exact entry replaces another one in a shared slot is not something C19 speaks about)
                base, cnt = int(p[1], 16), int(p[2])
                feats.add("fill")
                if n:
                    for i in range(cnt):
                        key = (base + i) % (1 << 64)
                        slot = key % n
                        if slot not in slots:
                            occ += 1
                        slots[slot] = (key, ("U", "7", "2", str(gen), "-"))
                    if 1000 * occ // n >= 40:
                        feats.add("fill>=4%")
            elif p[0] == "n":
                gen = (gen + 1) % 256
                feats.add("new-search")
            elif p[0] == "r":
                slots, gen, occ = {}, 0, 0
                feats.add("reset")
            elif p[0] == "z":
                if int(p[1]) != mb:
                    mb = int(p[1])
                    n = mb * 1024 * 1024 // 16
                    slots, gen, occ = {}, 0, 0
                feats.add("resize")
            if oracle:
                break
            if p[0] != "i":   # after an insert the count is only known once admission was observed
                if o_gen != gen:
                    oracle = f"search counter is {o_gen}, expected {gen} after {op}"
                elif o_occ != occ:
                    oracle = f"occupied counter is {o_occ} but {occ} slots are occupied after {op}"
                elif n and abs(o_hf - (1000 * occ // n)) > 1:
                    oracle = f"fill indicator {o_hf} but {occ}/{n} slots are occupied"
                elif not n and o_hf != 0:
                    oracle = f"fill indicator {o_hf} on an empty table"
        if oracle:
            oracle += f" in {req[:200]}"
        key = req if ("collision" in feats or "stale-age" in feats) else None
        return corr, oracle, feats | {f"mb={f[1]}"}, key


# =============================================================================================
# C14
# =============================================================================================
class C14(Check):
    pid = "C14"
    props_module = "TcheranVerif.Props.C14"
    gen_modules = ("SearchParams",)
    rule = ("dense grid over (remaining, increment, moves-to-go, overhead, side) incl. 0 ms, sub-200 ms and day-long clocks, "
            "fixed move times, only-opponent-clock cases, plus random tuples; limits read through hook H2; distinct = "
            "distinct tuples; non-trivial = a clock is present for the side to move")
    assumptions = ["f32 rounding inside Duration::mul_f32 is bounded by relative 2^-23 per operation (model is exact; "
                   "comparison allows 1e-6 relative + 100 ns)",
                   "second sentence of C14 (returns before the flag falls) is wall-clock behaviour: sampled on the real "
                   "release binary through the UCI go handler (clocks of 400-1000 ms, both clocks / own clock only / with "
                   "increment / with movestogo; a late answer is retried once), not proved"]

    def streams(self):
        req = os.path.join(self.wd, "limits.req")
        vlib.gen_requests(["limits", self.seed, self.n(3000, 200000)], req)
        yield "limits", req

    def judge(self, req, impl, model, spec):
        f = req.split("\t")
        side = f[1]
        mine = f[2] if side == "w" else f[3]
        mtg, movetime, oh = f[6], f[7], int(f[8])
        feats = set()
        if impl in ("panic", "crash", "timeout"):
            return ("model does not panic" if model != "panic" else None), f"time allocation crashes on {req!r}", feats, req
        di, dm = kv(impl), kv(model)
        si, hi = int(di["soft"]), int(di["hard"])
        corr = None
        if model == "panic":
            corr = "model panics, implementation does not"
        else:
            for k in ("soft", "hard"):
                a, b = int(di[k]), int(dm[k])
                if abs(a - b) > 1e-6 * max(a, b) + 100:
                    corr = f"{k} limit {a} ns vs model {b} ns on {req!r}"
        oracle = None
        clocks = f[2] != "-" or f[3] != "-"
        key = None
        if clocks:
            if mine == "-":
                feats.add("own-clock-missing")
                if hi != 0 or si != 0:
                    oracle = f"limits {si}/{hi} although the side to move has no clock: {req!r}"
            else:
                rem = int(mine) * 1_000_000
                ohn = oh * 1_000_000
                feats.add("clock")
                key = req
                if si > hi:
                    oracle = f"soft limit {si} exceeds hard limit {hi}: {req!r}"
                elif 2 * ohn <= rem and (mtg == "-" or int(mtg) >= 1):
                    bound = (rem - ohn) / 2
                    if hi > bound * (1 + 1e-6) + 100:
                        oracle = f"hard limit {hi} ns exceeds half of the remaining time after overhead ({bound:.0f} ns): {req!r}"
                else:
                    feats.add("outside-precondition")
        elif movetime != "-":
            feats.add("movetime")
            mt = int(movetime) * 1_000_000
            if si != mt or hi != mt:
                oracle = f"fixed move time {mt} ns not used as given ({si}/{hi}): {req!r}"
        return corr, oracle, feats, key

    # -- the UCI glue and the wall-clock sentence: `go` with clocks on the real binary ------------------
    WALL_POSITIONS = ["position startpos", "position startpos moves e2e4",
                      "position fen r3k2r/p1ppqpb1/bn2pnp1/3PN3/1p2P3/2N2Q1p/PPPBBPPP/R3K2R w KQkq - 0 1",
                      "position fen 8/2p5/3p4/KP5r/1R3p1k/8/4P1P1/8 b - - 0 1"]

    def wall_cases(self):
        import random
        rnd = random.Random(self.seed * 7919 + 14)
        cases = []
        for pos in self.WALL_POSITIONS:
            white = (" b " not in pos) and not pos.endswith("e2e4")
            mine, theirs = ("wtime", "btime") if white else ("btime", "wtime")
            inc = "winc" if white else "binc"
            for shape in ("both", "own-only", "own+inc", "own+mtg"):
                ms = rnd.choice([400, 500, 700, 1000])
                if shape == "both":
                    go = f"go {mine} {ms} {theirs} {rnd.choice([1, 60000])}"
                elif shape == "own-only":
                    go = f"go {mine} {ms}"
                elif shape == "own+inc":
                    go = f"go {mine} {ms} {inc} {rnd.choice([0, 50, 1000])}"
                else:
                    go = f"go {mine} {ms} movestogo {rnd.choice([1, 2, 40])}"
                cases.append((pos, go, ms, shape))
        if self.tier == "quick":
            rnd.shuffle(cases)
            cases = cases[:8]
        else:
            cases = cases * 3
        # positions in which even the first iteration is expensive (the quiescence search under every root move):
        # the clock must be able to cut it short
        heavy = ["position fen qqqqkqqq/qqqqqqqq/8/8/8/8/QQQQQQQQ/QQQQKQQQ w - - 0 1",
                 "position fen q2k2q1/2nqn2b/1n1P1n1b/2rnr2Q/1NQ1QN1Q/3Q3B/2RQR2B/Q2K2Q1 w - - 0 1"]
        for pos in heavy:
            cases.append((pos, "go wtime 300 btime 300", 300, "heavy-first-iteration"))
        # time that passes between `go` and the moment the search thread gets going (a loaded machine, or the
        # previous search thread still in its tail) is gone from the GUI's clock: hook H3 holds the thread for more
        # than the hard limit (half the clock with one move to go) before it may take the state lock
        cases.append((self.WALL_POSITIONS[2], "go wtime 2000 btime 2000 movestogo 1", 2000, "late-start:1200"))
        # the first move of a new game on the largest table: whatever `ucinewgame` has to do must not be charged
        # to the mover's clock
        cases.append(("position startpos", "go wtime 200 btime 200", 200, "bighash-newgame"))
        return cases

    def extra_phase(self, harness_bin):
        """second sentence of C14, through the real `go` handler: with at least 200 ms on the clock of the side to
        move (and whatever else a GUI sends with it), bestmove arrives before that clock would have run out.
        A late answer is retried once before it is reported, so that one scheduling hiccup of a loaded machine is
        not reported as a violation; an engine that does not use the clock at all misses both times."""
        issues = []
        try:
            binary = vlib.build_engine("release")
        except vlib.BuildError as e:
            issues.append(Issue("corr", "engine build", "", "", "", str(e)[:500], "uci-clock"))
            return issues
        for (pos, go, ms, shape) in self.wall_cases():
            late = 0
            took = None
            # (the big-hash case sits right at the edge — clearing a gigabyte takes about as long as the clock allows —
            # so it is tried three times and reported when it is late at least twice)
            tries = 3 if shape == "bighash-newgame" else 2
            for attempt in range(tries):
                eng = Engine(binary, {"START": int(shape.split(":")[1])} if shape.startswith("late-start") else None)
                try:
                    eng.send("uci"); eng.read_until(lambda l: l == "uciok", 10)
                    eng.send("isready"); eng.read_until(lambda l: l == "readyok", 10)
                    if shape == "bighash-newgame":
                        eng.send("setoption name Hash value 1024")
                        eng.send("isready"); eng.read_until(lambda l: l == "readyok", 30)
                        eng.send("position startpos"); eng.send("go depth 3")
                        eng.read_until(lambda l: l.startswith("bestmove"), 30)
                        eng.send("ucinewgame")
                        eng.send("isready"); eng.read_until(lambda l: l == "readyok", 30)
                    eng.send(pos)
                    eng.send("isready"); eng.read_until(lambda l: l == "readyok", 10)
                    t0 = time.time()
                    eng.send(go)
                    line, _ = eng.read_until(lambda l: l.startswith("bestmove"), ms / 1000.0 + 3.0)
                    took = (time.time() - t0) * 1000.0
                    if line is None or took >= ms:
                        late += 1
                    elif tries == 2:
                        break
                finally:
                    eng.send("stop"); eng.send("quit")
                    if not eng.wait_exit(2):
                        eng.kill()
            self.evaluations += 1
            self.features["uci-clock:" + shape] = self.features.get("uci-clock:" + shape, 0) + 1
            self.distinct.add(pos + " | " + go)
            if late >= 2:
                req = f"uci\t{pos}\t{go}"
                detail = (f"no bestmove within the {ms} ms on the mover's clock after '{go}' in '{pos}' "
                          f"(twice; last answer after {took:.0f} ms or never)")
                issues.append(Issue("oracle", req, f"late {took:.0f}ms" if took else "none", "-", f"< {ms} ms", detail, "uci-clock"))
        return issues

    def run_replay(self, path, harness_bin):
        with open(path) as f:
            rp = json.load(f)
        if rp.get("stream") == "uci-clock":
            _, pos, go = rp["request"].split("\t")
            ms = int(re.search(r"time (\d+)", go).group(1))
            self.wall_cases = lambda: [(pos, go, ms, "replay")]
            return self.extra_phase(harness_bin)
        return super().run_replay(path, harness_bin)


# =============================================================================================
# C16
# =============================================================================================
class C16(Check):
    pid = "C16"
    props_module = "TcheranVerif.Props.C16"
    gen_modules = ("EvalParams",)
    rule = ("positions (corpus, playouts, placements, and 'heavy' ones with up to nine queens a side) each paired with its "
            "colour-mirrored twin; blend: grid + random (mg, eg, phase) with phase up to far beyond 24; distinct = distinct "
            "requests; non-trivial = position is not colour-symmetric to itself / phase not in {0, 24}")

    def streams(self):
        req = os.path.join(self.wd, "eval.req")
        vlib.gen_requests(["eval", self.seed, self.n(3000, 120000), self.corpus_file("positions.fen")], req)
        yield "eval", req

    def judge(self, req, impl, model, spec):
        f = req.split("\t")
        corr = None if impl == model else f"evaluation differs from the model on {req!r}: impl {impl} model {model}"
        feats = {f[0]}
        oracle = None
        key = None
        if impl in ("panic", "crash", "timeout"):
            return corr, f"evaluation crashes (overflow) on {req!r}", feats, req
        if f[0] == "evalplay":
            d = kv(impl)
            a, b = int(d["ev"]), int(d["evf"])
            feats.add("played-promotion" if re.search(r"[a-h][18][nbrq]:", req) else "played")
            if a != b:
                oracle = (f"after the moves {f[2] if len(f) > 2 else ''!r} from {f[1]} the evaluation is {a}, but {b} for the same "
                          f"position set up from scratch (the carried game phase / accumulators are off, so the blend weights are)")
            elif not (-31900 < a < 31900):
                oracle = f"evaluation {a} is outside the non-mate score range after {req!r}"
            return corr, oracle, feats, req
        if f[0] == "evalpair":
            if spec == "mirror=DIFF" and corr is None:
                corr = f"the second position of {req!r} is not Game.mirror (the transformation of theorem eval_mirror) of the first"
            d = kv(impl)
            a, b = int(d["a"]), int(d["b"])
            if a != b:
                oracle = f"evaluation {a} but colour-mirrored twin evaluates to {b}: {f[1]}"
            elif not (-31900 < a < 31900):
                oracle = f"evaluation {a} is outside the non-mate score range: {f[1]}"
            if f[1] != f[2]:
                key = f[1]
        else:
            mg, eg, ph = int(f[1]), int(f[2]), int(f[3])
            v = int(impl.split(" ")[0])
            if not (min(mg, eg) <= v <= max(mg, eg)):
                oracle = f"blend of mg={mg} eg={eg} at phase {ph} is {v}, outside [{min(mg, eg)}, {max(mg, eg)}]"
            if ph > 24:
                feats.add("phase>24")
            if ph not in (0, 24):
                key = req
        return corr, oracle, feats, key


# =============================================================================================
# C20
# =============================================================================================
class C20(Check):
    pid = "C20"
    props_module = "TcheranVerif.Props.C20"
    gen_modules = ("SearchParams",)
    rule = ("all non-e.p. captures of positions from the corpus (incl. the repo's own SEE test positions), playouts, "
            "placements and like-piece templates, each with its colour-mirrored twin; distinct = distinct (position, capture); "
            "non-trivial = target defended")

    def streams(self):
        req = os.path.join(self.wd, "see.req")
        vlib.gen_requests(["see", self.seed, self.n(30000, 120000), self.corpus_file("positions.fen")], req)
        yield "see", req

    def judge(self, req, impl, model, spec):
        f = req.split("\t")
        corr = None if impl == model else f"SEE differs from the model in {f[1]}"
        feats = set()
        if impl in ("panic", "crash", "timeout"):
            return corr, f"SEE crashes in {f[1]}", feats, None
        items = dict(x.split("=") for x in impl.split()) if impl else {}
        sp = dict(x.split("=") for x in spec.split()) if spec not in ("-", "") else {}
        mir = sp.pop("@mirror", None)
        sq = sp.pop("@seq", None)
        oracle = None
        if corr is None and model != impl:
            corr = "differs"
        if corr is None and mir == "DIFF":
            corr = f"the second position of the request is not Game.mirror (the transformation of theorem see_mirror) of {f[1]}"
        if corr is None and sq not in (None, "ok"):
            corr = (f"model-internal: for the tie-free capture {sq} the model's bitboard sequence of capturers (See.capturers, "
                    f"theorem see_swaplist) is not the mailbox sequence (See.seq, theorem spec_is_swaplist): {f[1]}")
        if sq == "ok":
            feats.add("sequences-agree")
        th = sp.pop("@thm", None)
        if corr is None and th not in (None, "ok"):
            corr = (f"model-internal: the statement of theorem see_swaplist evaluates to false for the capture {th} "
                    f"(a hypothesis of the theorem does not hold there): {f[1]}")
        if th == "ok":
            feats.add("see_swaplist-instance")
        for mv, v in items.items():
            a, b = v.split("/")
            self.distinct.add((f[1], mv)) if False else None
            if a != b and not oracle:
                oracle = f"SEE verdict for {mv} is {a} but {b} for the colour-mirrored position: {f[1]}"
            s = sp.get(mv)
            if not s or s == "?":
                continue
            sv, tie, undef, vga = s.split(":")
            if undef == "1":
                feats.add("undefended")
                if a != "1" and not oracle:
                    oracle = f"capture {mv} of an undefended man judged unfavourable: {f[1]}"
            else:
                feats.add("defended")
                self.distinct.add((f[1], mv))
            if vga == "1" and a != "1" and not oracle:
                oracle = f"capture {mv} of a man worth at least the capturer judged unfavourable: {f[1]}"
            if tie == "0":
                feats.add("tie-free")
                if a != sv and not oracle:
                    oracle = f"SEE verdict {a} for {mv} but the swap list gives {sv} (no tie among attackers): {f[1]}"
            else:
                feats.add("tie")
        if set(items) != set(sp) and sp and not oracle:
            corr = corr or "capture list differs from the rules"
        return corr, oracle, feats, None


# =============================================================================================
# C18
# =============================================================================================
class C18(Check):
    pid = "C18"
    props_module = "TcheranVerif.Props.C18"
    rule = ("every legal move of positions from the corpus, playouts, placements, e.p./castling/promotion templates and "
            "like-piece constellations (2-5 knights/rooks/queens/bishops of one colour); SAN written, compared with the "
            "FIDE specification, checked injective within the position and read back; distinct = distinct (position, move); "
            "non-trivial = move needs disambiguation, is a capture, promotion, castling or gives check")

    def streams(self):
        req = os.path.join(self.wd, "san.req")
        vlib.gen_requests(["san", self.seed, self.n(1500, 60000), self.corpus_file("positions.fen")], req)
        yield "san", req

    def judge(self, req, impl, model, spec):
        f = req.split("\t")
        fen = f[1]
        corr = None if impl == model else f"SAN differs from the model in {fen}"
        feats = set()
        if impl in ("panic", "crash", "timeout"):
            return corr, f"SAN crashes in {fen}", feats, None
        items = [x.split("=", 1) for x in impl.split()] if impl else []
        sp = dict(x.split("=", 1) for x in spec.split()) if spec not in ("-", "") else {}
        oracle = None
        seen = {}
        for mv, rest in items:
            text, back = rest.rsplit("=", 1) if rest.count("=") >= 1 else (rest, "")
            want = sp.get(mv)
            nontrivial = False
            if want is not None:
                if "x" in want or "=" in want or "O-O" in want or "+" in want:
                    nontrivial = True
                body = want.rstrip("+")
                if len(body) >= 4 and body[0] in "NBRQ" and not body.startswith("O"):
                    core = body.replace("x", "")
                    if len(core) >= 4:
                        feats.add("disambiguated")
                        nontrivial = True
            if nontrivial:
                self.distinct.add((fen, mv))
            if oracle:
                continue
            if text == "panic":
                oracle = f"SAN writer crashes on {mv} in {fen}"
            elif want is not None and text != want:
                oracle = f"SAN of {mv} is {text!r}, standard is {want!r}, in {fen}"
            elif text in seen:
                oracle = f"moves {seen[text]} and {mv} are both written {text!r} in {fen}"
            elif back != mv:
                oracle = f"reading {text!r} back gives {back} instead of {mv} in {fen}"
            seen[text] = mv
        if sp and set(m for m, _ in items) != set(sp) and not oracle:
            corr = corr or "move list differs from the rules"
        return corr, oracle, feats, None


# =============================================================================================
# C10
# =============================================================================================
class C10(Check):
    pid = "C10"
    props_module = "TcheranVerif.Props.C10"
    gen_modules = ("SearchParams",)
    rule = ("positions reached by a real previous move (so a counter move applies), hash move = a legal move or none, "
            "killers / counter move drawn from: legal quiets, legal captures, moves legal only in the parent position, "
            "junk, none, and deliberately equal to each other or to the hash move; history filled through add_bonus_for; "
            "every fourth request uses the captures-only picker; distinct = distinct requests; non-trivial = a remembered "
            "move is present")

    def streams(self):
        req = os.path.join(self.wd, "picker.req")
        vlib.gen_requests(["picker", self.seed, self.n(2500, 100000), self.corpus_file("positions.fen")], req)
        yield "picker", req

    def judge(self, req, impl, model, spec):
        f = req.split("\t")
        corr = None if impl == model else f"picker stream differs from the model (order included): impl {impl[:150]} model {model[:150]}"
        feats = set()
        loud = f[9] == "1"
        feats.add("loud" if loud else "full")
        if f[3] != "-":
            feats.add("hash")
        if f[4] != "-" or f[5] != "-":
            feats.add("killer")
        if f[4] != "-" and f[4] == f[5]:
            feats.add("equal-killers")
        if f[6] != "-":
            feats.add("counter")
        if f[3] != "-" and f[3] in (f[4], f[5], f[6]):
            feats.add("hash=remembered")
        if impl in ("panic", "crash", "timeout") or impl.startswith("runaway"):
            return corr, f"move picker crashes or does not terminate: {req[:300]}", feats, req
        m = re.match(r"legal=\[(.*?)\] must=\[(.*?)\]", spec)
        if not m:
            return corr or "no spec", None, feats, None
        legal, must = m.group(1).split(), m.group(2).split()
        stream = impl.split()
        oracle = None
        dup = sorted(x for x in set(stream) if stream.count(x) > 1)
        if dup:
            oracle = f"picker yields {dup} more than once"
        elif set(stream) - set(legal):
            oracle = f"picker yields moves that are not legal here: {sorted(set(stream) - set(legal))}"
        elif set(must) - set(stream):
            oracle = f"picker never yields {sorted(set(must) - set(stream))}"
        if oracle:
            oracle += f" for {req[:400]}"
        key = req if (feats - {"loud", "full"}) else None
        return corr, oracle, feats, key



# =============================================================================================
# search properties: C04, C08, C09, C12
# =============================================================================================
JOB_RE = re.compile(r"best=(\S+) polls=(\d+) untouched=(\d) gen=(\d+) occ=(\d+) infos=\[(.*?)\]$")
INFO_RE = re.compile(r"d=(\d+),sd=(\d+),s=([a-z]+-?\d+),n=(\d+),hf=(\d+),pv=(\S*)")


def parse_jobs(answer):
    """answer of a `search` request -> list of dicts (or {'panic': True} / {'marker': 'reset'})"""
    out = []
    for part in answer.split(" ; "):
        part = part.strip()
        if part in ("reset", "resize"):
            out.append({"marker": part})
            continue
        if part.startswith("panic") or part in ("crash",):
            out.append({"panic": True, "raw": part})
            continue
        m = JOB_RE.match(part)
        if not m:
            out.append({"bad": part})
            continue
        infos = [dict(zip(("d", "sd", "s", "n", "hf", "pv"), x)) for x in INFO_RE.findall(m.group(6))]
        out.append({"best": m.group(1), "polls": int(m.group(2)), "untouched": m.group(3), "gen": int(m.group(4)),
                    "occ": int(m.group(5)), "infos": infos})
    return out


def norm_hf(answer):
    return re.sub(r",hf=\d+,", ",", answer)


def hf_close(a, b):
    xa = [int(x) for x in re.findall(r",hf=(\d+),", a)]
    xb = [int(x) for x in re.findall(r",hf=(\d+),", b)]
    return len(xa) == len(xb) and all(abs(p - q) <= 1 for p, q in zip(xa, xb))


class SearchCheck(Check):
    profile = "fast"
    profiles = ("fast",)
    mode = "plain"
    max_depth_q, max_depth_t = 4, 6
    n_q, n_t = 24, 400
    seed_offset = 0

    def make_requests(self):
        req = os.path.join(self.wd, "search.req")
        vlib.gen_requests(["search", self.mode, self.seed + self.seed_offset, self.n(self.n_q, self.n_t),
                           self.n(self.max_depth_q, self.max_depth_t), self.corpus_file("positions.fen")], req)
        return req

    def run(self, replay=None):
        self._replay = replay
        return super().run(replay=None)

    def streams(self):
        return []

    def jobs_of(self, req):
        f = req.split("\t")
        return [j for j in f[2].split(";") if j]

    def verify_lines(self, req, impl):
        """verify-requests for every completed job of one implementation answer"""
        out = []
        jobs = [j for j in self.jobs_of(req) if j != "N" and not j.startswith("Z")]
        results = [r for r in parse_jobs(impl) if "marker" not in r]
        for j, r in zip(jobs, results):
            if "best" not in r:
                continue
            p = j.split("|")
            infos = ";".join(f"{i['s']},{i['pv']}" for i in r["infos"])
            out.append((j, r, f"verify\t{p[0]}\t{p[1]}\t{r['best']}\t{infos}"))
        return out

    def judge_job(self, req, job, result, verdict):
        """property-specific oracle on one job; returns detail or None"""
        raise NotImplementedError

    def judge_request(self, req, impl, model):
        """property-specific oracle on a whole request (crashes etc.)"""
        for r in parse_jobs(impl):
            if "panic" in r or "bad" in r:
                return f"search crashes: {req[:300]} -> {r.get('raw', r.get('bad', ''))[:200]}"
        if impl in ("crash", "panic"):
            return f"search crashes: {req[:300]}"
        if impl == "timeout":
            return f"search does not return within {vlib.STREAM_TIMEOUT} s (stream budget): {req[:300]}"
        return None

    def extra_requests(self, req_path, harness_bin):
        return req_path

    def extra_phase(self, harness_bin):
        issues = []
        if self._replay:
            with open(self._replay) as f:
                rp = json.load(f)
            req_path = os.path.join(self.wd, "replay.req")
            with open(req_path, "w") as f:
                f.write(rp["request"] + "\n")
        else:
            req_path = self.make_requests()
            req_path = self.extra_requests(req_path, harness_bin)
        for profile in self.profiles:
            hb = harness_bin if profile == self.profile else vlib.build_harness(profile)
            rows = vlib.run_stream(self.pid, f"search-{profile}", req_path, hb)
            vreqs = []
            for (r, a, m, s) in rows:
                self.evaluations += 1
                self.features[f"requests-{profile}"] = self.features.get(f"requests-{profile}", 0) + 1
                corr = None
                if norm_hf(a) != norm_hf(m) or not hf_close(a, m):
                    corr = self.describe_diff(a, m)
                o = self.judge_request(r, a, m)
                if o:
                    issues.append(Issue("oracle", r, a, m, s, f"[{profile}] " + o, f"search-{profile}"))
                elif corr:
                    issues.append(Issue("corr", r, a, m, s, f"[{profile}] " + corr, f"search-{profile}"))
                for (j, res, line) in self.verify_lines(r, a):
                    vreqs.append((r, a, m, j, res, line))
                if len(self.samples) < 2:
                    self.samples.append({"request": r[:300], "implementation": a[:400]})
            # second pass: the rules' verdict on everything the implementation reported
            vpath = os.path.join(self.wd, f"verify-{profile}.req")
            with open(vpath, "w") as f:
                for x in vreqs:
                    f.write(x[5] + "\n")
            vout = os.path.join(self.wd, f"verify-{profile}.out")
            vlib.serve(vlib.driver_bin(), vpath, vout)
            answers = vlib.read_lines(vout)
            for k, (r, a, m, j, res, line) in enumerate(vreqs):
                ans = answers[k].split("\t")[1] if k < len(answers) and "\t" in answers[k] else ""
                self.evaluations += 1
                self.distinct.add(j)
                mm = re.match(r"bestlegal=(\d) nlegal=(\d+) lines=\[(.*?)\]", ans)
                if not mm:
                    issues.append(Issue("corr", r, a, m, ans, "verifier gave no verdict", f"verify-{profile}"))
                    continue
                verdict = {"bestlegal": mm.group(1), "nlegal": int(mm.group(2)), "lines": mm.group(3).split()}
                for v in verdict["lines"]:
                    self.features["line-" + v.split("(")[0]] = self.features.get("line-" + v.split("(")[0], 0) + 1
                for i in res["infos"]:
                    if i["s"].startswith("mate"):
                        self.features["mate-announcement"] = self.features.get("mate-announcement", 0) + 1
                o = self.judge_job(r, j, res, verdict)
                if o:
                    issues.append(Issue("oracle", r, a, m, ans, f"[{profile}] " + o, f"verify-{profile}"))
        return issues

    @staticmethod
    def describe_diff(a, m):
        pa, pm = a.split(" ; "), m.split(" ; ")
        for k, (x, y) in enumerate(zip(pa, pm)):
            if norm_hf(x) != norm_hf(y) or not hf_close(x, y):
                # first differing token
                tx, ty = x.split(" "), y.split(" ")
                for u, v in zip(tx, ty):
                    if u != v:
                        return f"job {k}: implementation reports {u[:120]} where the model computes {v[:120]}"
                return f"job {k}: outputs differ in length"
        return f"job count differs ({len(pa)} vs {len(pm)})"


class C04(SearchCheck):
    pid = "C04"
    props_module = "TcheranVerif.Props.C04"
    profile = "checked"
    profiles = ("checked", "fast")
    mode = "plain"
    seed_offset = 4
    gen_modules = ("SearchParams", "Lmr", "EvalParams", "ZobristKeys", "Magics")
    rule = ("sequences of three fixed-depth searches sharing one PersistentState (hash 0 MB and 1 MB, a ucinewgame in some), "
            "positions from corpus/playouts/placements with at least one legal move; run in the checked (overflow-checking) "
            "and in the optimised harness profile, every job under catch_unwind; plus long runs of >255 searches and the "
            "aspiration edge positions of the corpus, and positions with 65-218 legal moves at depth >= 3 (move-count indexed "
            "tables); distinct = distinct jobs")
    assumptions = ["termination under a real clock and absence of undefined behaviour in optimised builds are runtime facts "
                   "outside the model (partial)", "64-bit key assumed injective on the positions one search history touches"]

    def extra_requests(self, req_path, harness_bin):
        # arithmetic edge cases first: aspiration widening with mate scores; more than 255 searches
        lines = []
        asp = "8/6k1/8/2R5/8/1K6/3Q1p2/8 w - - 1 25"
        lines.append(f"search\t1\t{asp}||{8 if self.tier == 'quick' else 10}|0|0")
        start = "rnbqkbnr/pppppppp/8/8/8/8/PPPPPPPP/RNBQKBNR w KQkq - 0 1"
        lines.append("search\t1\t" + ";".join([f"{start}||1|0|0"] * 260))
        # scores entering the mate range at aspiration depths (>= 5), for and against the side to move,
        # both colours: sparse endgames are cheap to search deep
        def mirror(fen):
            b, side, *_ = fen.split(" ")
            return "/".join(r.swapcase() for r in reversed(b.split("/"))) + (" b" if side == "w" else " w") + " - - 0 1"
        mates = ["8/8/8/8/8/2k5/7r/1K6 w - - 0 1", "8/8/8/8/8/3k4/7r/2K5 w - - 0 1", "8/8/8/8/3q4/2k5/8/K7 w - - 0 1",
                 "8/8/8/8/8/2K5/7R/1k6 w - - 0 1", "8/8/8/4k3/8/8/3QK3/8 w - - 0 1", "8/8/8/8/8/5k2/7q/4K3 w - - 0 1",
                 "5k2/8/8/8/8/8/5PPP/3R2K1 b - - 0 1", "8/8/1k6/8/8/2R5/3K4/8 w - - 0 1"]
        d = 6 if self.tier == "quick" else 9
        for f in mates:
            lines.append(f"search\t1\t{f}||{d}|0|0;{mirror(f)}||{d}|0|0")
        # nodes with more moves than any table indexed by the move count has columns (64): queens in the open
        wide = ["6k1/5ppp/8/8/2Q1Q3/8/1Q3PPP/6K1 w - - 0 1", "3Q4/1Q4Q1/4Q3/2Q4R/Q4Q2/3Q4/1Q4Rp/1K1BBNNk w - - 0 1",
                "4k3/8/8/3Q1Q2/8/2Q3Q1/8/4K3 w - - 0 1"]
        dw = 3 if self.tier == "quick" else 4
        for f in wide:
            lines.append(f"search\t1\t{f}||{dw}|0|0;{mirror(f)}||{dw}|0|0")
        # a limit so short that the stop is seen before a single root move has been scored (hook H1: every node polls,
        # the flag reads true at the k-th consultation): the fall-back move must be a legal move of the root
        for f in ["r3k2r/p1ppqpb1/bn2pnp1/3PN3/1p2P3/2N2Q1p/PPPBBPPP/R3K2R w KQkq - 0 1",
                  "1QqQqQq1/r6Q/Q6q/q6Q/B2q4/q6Q/k6K/1qQ1QqRb w - - 0 1", start]:
            for k in (1, 2, 3, 5, 9, 40):
                # (no follow-up search on the all-queens position: its quiescence trees are too large for the model)
                lines.append(f"search\t1\t{f}||3|{k}|1" + ("" if f.startswith("1QqQ") else f";{f}||2|0|0"))
        # a forced en-passant reply searched on the tables an earlier search of the game left (the e.p. capture is then
        # the hash move of the root)
        lines.append("search\t1\t4B3/8/7R/k7/2p5/P7/1P6/6K1 w - - 0 1||4|0|0;4B3/8/7R/k7/1Pp5/P7/8/6K1 b - b3 0 1||3|0|0")
        lines.append("search\t1\t6k1/1p6/p7/B1P5/KN6/PP6/8/8 b - - 0 1||5|0|0;6k1/8/p7/BpP5/KN6/PP6/8/8 w - b6 0 2||3|0|0")
        # the largest depth limit there is (u8::MAX, also the limit used when none is given): only dead-drawn
        # positions let all 255 iterations complete
        for f in ["8/8/8/4k3/8/4K3/8/8 w - - 0 1", "8/8/8/4k3/8/4KN2/8/8 b - - 0 1"]:
            lines.append(f"search\t1\t{f}||255|0|0")
        # … and a locked pawn chain, where the kings can only shuffle: a real tree at every remaining depth up to 254
        # (arithmetic in the remaining depth — margins, reductions — meets its largest arguments here)
        locked = "4k3/8/8/p1p1p1p1/PpPpPpPp/1P1P1P1P/8/4K3 w - - 0 1"
        lines.insert(0, f"search\t1\t{locked}||255|0|0")
        lines.insert(1, f"search\t1\t{mirror(locked)}||255|0|0")
        with open(req_path) as f:
            body = f.read()
        with open(req_path, "w") as f:
            f.write("\n".join(lines) + "\n" + body)
        return req_path

    def judge_job(self, req, job, res, verdict):
        if verdict["bestlegal"] != "1":
            return f"search answers {res['best']}, which is not a legal move in {job}"
        return None


class C08(SearchCheck):
    pid = "C08"
    props_module = "TcheranVerif.Props.C08"
    mode = "plain"
    seed_offset = 8
    max_depth_q, max_depth_t = 5, 7
    n_q, n_t = 30, 500
    rule = ("every info line of every iteration of fixed-depth searches (tables shared between three searches) over corpus "
            "positions (the Win-at-Chess set is mate-rich), playouts and placements: line replayed on the Rules spec "
            "(legality, length vs. mate announcement, final position checkmate), depth sequence checked; distinct = distinct jobs")

    def extra_requests(self, req_path, harness_bin):
        # mates that first show up at aspiration depths (>= 5) and far outside the window around the previous
        # score: sparse endgames searched deep, both colours
        def mirror(fen):
            b, side, *_ = fen.split(" ")
            return "/".join(r.swapcase() for r in reversed(b.split("/"))) + (" b" if side == "w" else " w") + " - - 0 1"
        # (the last two: a check whose only answer is an en-passant capture — not a mate)
        late = ["6k1/1p6/p7/B1P5/KN6/PP6/8/8 b - - 0 1", "4B3/8/7R/k7/2p5/P7/1P6/6K1 w - - 0 1",
                "8/6k1/8/2R5/8/1K6/3Q1p2/8 w - - 1 25", "8/8/8/4k3/8/8/3QK3/8 w - - 0 1", "8/8/1k6/8/8/2R5/3K4/8 w - - 0 1",
                "8/8/8/8/8/2k5/7r/1K6 w - - 0 1", "5k2/8/8/8/8/8/5PPP/3R2K1 b - - 0 1", "8/8/8/3k4/8/8/4PP2/4K2R w K - 0 1"]
        d = 8 if self.tier == "quick" else 11
        lines = [f"search\t1\t{f}||{d}|0|0;{mirror(f)}||{d}|0|0" for f in late]
        with open(req_path, "a") as f:
            f.write("\n".join(lines) + "\n")
        return req_path

    def judge_job(self, req, job, res, verdict):
        depth_limit = job.split("|")[2]
        depths = [int(i["d"]) for i in res["infos"]]
        if depths != list(range(1, len(depths) + 1)):
            return f"reported depths {depths} do not increase one by one in {job}"
        if depth_limit != "-" and depths and depths[-1] > int(depth_limit):
            return f"reported depth {depths[-1]} exceeds the requested limit {depth_limit} in {job}"
        for i, v in zip(res["infos"], verdict["lines"]):
            if v == "empty":
                return f"empty principal variation at depth {i['d']} in {job}"
            if v == "illegal":
                return f"reported line {i['pv']} is not playable in {job}"
            if v.startswith("mate-length"):
                return f"announces {i['s']} but the line {i['pv']} has the wrong length {v} in {job}"
            if v == "mate-not-mate":
                return f"announces {i['s']} but the line {i['pv']} does not end in checkmate in {job}"
            if v != "ok":
                return f"line verdict {v} for {i['pv']} in {job}"
        return None


class C09(SearchCheck):
    pid = "C09"
    props_module = "TcheranVerif.Props.C09"
    mode = "stop"
    seed_offset = 9
    max_depth_q, max_depth_t = 1, 3
    n_q, n_t = 4, 40
    rule = ("for each base search (every node a polling point, hook H1) the number P of polls of the unstopped run is "
            "measured, then the search is repeated with the stop flag first read true at poll k for every k = 1..P "
            "(quick: every k up to 120 polls then a stride; thorough: all k), each followed by a second, unstopped search on "
            "the same tables; both answers and all reported lines are replayed on the Rules spec; distinct = distinct (search, k)")

    def extra_requests(self, req_path, harness_bin):
        # tactical positions searched deep enough for null-move and late-move-reduction nodes with quiescence
        # below them: a stop first seen there unwinds through every kind of frame
        deep = ["r3k2r/p1ppqpb1/bn2pnp1/3PN3/1p2P3/2N2Q1p/PPPBBPPP/R3K2R w KQkq - 0 1",
                "r4rk1/1pp1qppp/p1np1n2/2b1p1B1/2B1P1b1/P1NP1N2/1PP1QPPP/R4RK1 w - - 0 10",
                "r3k2r/Pppp1ppp/1b3nbN/nP6/BBP1P3/q4N2/Pp1P2PP/R2Q1RK1 w kq - 0 1"]
        dd = 5 if self.tier == "quick" else 6
        with open(req_path, "a") as f:
            for fen in deep:
                f.write(f"search\t1\t{fen}||{dd}|0|1\n")
        # free runs on the implementation only: how many polls does the unstopped search make?
        ipath = os.path.join(self.wd, "free.impl")
        vlib.serve(harness_bin, req_path, ipath)
        reqs = [l for l in vlib.read_lines(req_path) if l]
        answers = vlib.read_lines(ipath)
        out = os.path.join(self.wd, "stop.req")
        n = 0
        # (thorough: every poll of the shallow base searches — a few thousand — and a sample of 3,000 of the deep ones)
        cap = 60 if self.tier == "quick" else 3000
        with open(out, "w") as f:
            for r, a in zip(reqs, answers):
                jobs = parse_jobs(a)
                if not jobs or "polls" not in jobs[0]:
                    f.write(r + "\n")
                    continue
                P = jobs[0]["polls"]
                self.features["polls-per-search-max"] = max(self.features.get("polls-per-search-max", 0), P)
                fields = r.split("\t")
                job = fields[2].split("|")
                ks = list(range(1, P + 1))
                if len(ks) > cap:
                    # the first polls, then a seeded random sample of the rest (a stride would always land on the
                    # same kind of node), then the last two
                    rnd = random.Random(self.seed * 7919 + P)
                    rest = list(range(cap // 3 + 1, P - 1))
                    ks = sorted(set(list(range(1, cap // 3 + 1)) + rnd.sample(rest, min(len(rest), cap - cap // 3)) + [P - 1, P]))
                for k in ks:
                    j = "|".join(job[:3] + [str(k), "1"])
                    f.write(f"search\t{fields[1]}\t{j};{'|'.join(job[:3] + ['0', '0'])}\n")
                    n += 1
        self.features["stop-points"] = n
        return out

    def judge_request(self, req, impl, model):
        o = super().judge_request(req, impl, model)
        if o:
            return o
        jobs = parse_jobs(impl)
        reqjobs = self.jobs_of(req)
        if jobs and "polls" in jobs[0]:
            k = int(reqjobs[0].split("|")[3])
            if k and jobs[0]["polls"] != k:
                return (f"stop seen at poll {k} but the search consulted the flag {jobs[0]['polls']} times: "
                        f"it went on examining positions ({req[:200]})")
            for j in jobs:
                if j.get("untouched") == "0":
                    return f"the position handed to the search was modified ({req[:200]})"
        return None

    def judge_job(self, req, job, res, verdict):
        if verdict["bestlegal"] != "1":
            return f"after a stop the search answers {res['best']}, not legal in {job}"
        for i, v in zip(res["infos"], verdict["lines"]):
            if v != "ok":
                return f"line {i['pv']} reported around a stopped search is {v} in {job}"
        return None


class C12(SearchCheck):
    pid = "C12"
    props_module = "TcheranVerif.Props.C12"
    mode = "repeat"
    seed_offset = 12
    max_depth_q, max_depth_t = 4, 6
    n_q, n_t = 16, 250
    rule = ("each request runs [search p, search q, ucinewgame, search p] on one state and, separately, [search p] on a "
            "fresh state: the post-ucinewgame search must reproduce the fresh one verbatim (best move, scores, lines, node "
            "counts, table fill); the whole stream is executed twice, the second time under CPU load, and must be "
            "identical; the search model must reproduce every info line verbatim; plus 30 implementation-only pairs with "
            "depth-6 (thorough 8) searches, which fill the killer / counter / history tables of both colours; "
            "distinct = distinct requests")
    assumptions = ["independence from wall-clock time and machine load is sampled (two runs, one under load), not proved"]

    def extra_phase(self, harness_bin):
        issues = super().extra_phase(harness_bin)
        req_path = os.path.join(self.wd, "search.req") if not self._replay else os.path.join(self.wd, "replay.req")
        # run the implementation again under load
        import subprocess
        burners = [subprocess.Popen(["sh", "-c", "while :; do :; done"]) for _ in range(12)]
        try:
            second = os.path.join(self.wd, "second.impl")
            vlib.serve(harness_bin, req_path, second)
        finally:
            for b in burners:
                b.kill()
        first = vlib.read_lines(os.path.join(self.wd, f"search-{self.profile}.impl"))
        again = vlib.read_lines(second)
        reqs = [l for l in vlib.read_lines(req_path) if l]
        for k, r in enumerate(reqs):
            a = first[k] if k < len(first) else ""
            b = again[k] if k < len(again) else ""
            self.evaluations += 1
            if a != b:
                issues.append(Issue("oracle", r, a, b, "", "the same search from the same state gave a different result on a second run (under load): "
                                    + self.describe_diff(a, b), "rerun"))
        # [p, q, N, p] vs fresh [p]
        for k in range(0, len(reqs) - 1, 2):
            ja, jb = parse_jobs(first[k]), parse_jobs(first[k + 1])
            ja = [j for j in ja if "marker" not in j]
            if len(ja) == 3 and len(jb) == 1 and "best" in ja[2] and "best" in jb[0]:
                x, y = dict(ja[2]), dict(jb[0])
                if x != y:
                    keys = [key for key in x if x[key] != y.get(key)]
                    issues.append(Issue("oracle", reqs[k], first[k], first[k + 1], "",
                                        f"after ucinewgame the search differs from a fresh engine in {keys}", "newgame"))
        if not self._replay:
            issues += self.deep_phase(harness_bin)
            issues += self.uci_newgame_phase()
        return issues

    @staticmethod
    def _norm_info(lines):
        out = []
        for l in lines:
            if l.startswith("info") and " pv " in l or l.startswith("bestmove"):
                toks = l.split()
                keep, skip = [], False
                for t in toks:
                    if skip:
                        skip = False
                        continue
                    if t in ("time", "nps"):
                        skip = True
                        continue
                    keep.append(t)
                out.append(" ".join(keep))
        return out

    def uci_newgame_phase(self):
        """the real binary: [position p, go depth d, bestmove, ucinewgame, isready, position q, go depth d] against a fresh
        process given only [position q, go depth d]; the `ucinewgame` is sent the moment `bestmove` arrives while the
        scheduling hook (H3) holds the search thread after it printed bestmove / after it set the latch, i.e. while it
        still owns the persistent state — the timing a fast GUI produces"""
        binary = vlib.build_engine("release")
        depth = 5 if self.tier == "quick" else 7
        issues = []

        def run(cmds, delays):
            e = ucimod.Engine(binary, delays)
            got = []
            try:
                e.send("uci")
                if e.read_until(lambda l: l == "uciok", 10)[0] is None:
                    return None
                for c in cmds:
                    if c == "@bestmove":
                        m, seen = e.read_until(lambda l: l.startswith("bestmove"), 60)
                        got = seen
                        if m is None:
                            return None
                    elif c == "@readyok":
                        if e.read_until(lambda l: l == "readyok", 60)[0] is None:
                            return None
                    elif c.startswith("@sleep:"):
                        time.sleep(int(c.split(":")[1]) / 1000.0)
                    else:
                        e.send(c)
                e.send("quit")
            finally:
                e.kill()
            return self._norm_info(got)

        jobs = []
        for k, q in enumerate(self.DEEP):
            p = self.DEEP[(k + 1) % len(self.DEEP)]
            for dl in ({"PRINTED": 40}, {"TAIL": 40}, None):
                jobs.append((p, q, dl))
            # a `stop` that arrives after the search has already answered (a race no GUI can avoid) must leave
            # nothing behind: neither for the next game nor for the next search of this one
            jobs.append((p, q, "late-stop"))
        # an option sent the moment `bestmove` arrives is refused while the search thread still owns the tables; the
        # GUI's next, identical setoption (engine idle) must take effect: compare with a fresh engine given that value
        jobs.append((self.DEEP[0], self.DEEP[2], "option-refused-then-resent"))
        jobs.append((self.DEEP[1], self.DEEP[0], "option-refused-then-resent"))

        def work(job):
            p, q, dl = job
            fresh = run([f"position fen {q}", f"go depth {depth}", "@bestmove"], None)
            if dl == "option-refused-then-resent":
                fresh = run(["setoption name Hash value 1", f"position fen {q}", f"go depth {depth + 2}", "@bestmove"], None)
                used = run([f"position fen {p}", "go depth 2", "@bestmove", "setoption name Hash value 1", "isready", "@readyok",
                            "@sleep:250", "setoption name Hash value 1", "ucinewgame", "isready", "@readyok",
                            f"position fen {q}", f"go depth {depth + 2}", "@bestmove"], {"TAIL": 120})
                return fresh, used
            if dl == "late-stop":
                used = run([f"position fen {p}", f"go depth {depth}", "@bestmove", "stop", "ucinewgame", "isready", "@readyok",
                            f"position fen {q}", f"go depth {depth}", "@bestmove"], None)
                return fresh, used
            used = run([f"position fen {p}", f"go depth {depth}", "@bestmove", "ucinewgame", "isready", "@readyok",
                        f"position fen {q}", f"go depth {depth}", "@bestmove"], dl)
            return fresh, used

        with ThreadPoolExecutor(max_workers=6) as ex:
            results = list(ex.map(work, jobs))
        for (p, q, dl), (fresh, used) in zip(jobs, results):
            self.evaluations += 1
            key = "uci-newgame:" + (dl if isinstance(dl, str) else "+".join(sorted(dl)) if dl else "no-hold")
            self.features[key] = self.features.get(key, 0) + 1
            req = f"uci-newgame\t{p}\t{q}\t{depth}\t{dl}"
            if fresh is None or used is None:
                issues.append(Issue("oracle", req, str(used), str(fresh), "", "the engine did not answer in the ucinewgame sequence", "uci-newgame"))
            elif fresh != used:
                diff = next((f"{a!r} vs fresh {b!r}" for a, b in zip(used, fresh) if a != b), f"{len(used)} vs {len(fresh)} lines")
                issues.append(Issue("oracle", req, "\n".join(used), "\n".join(fresh), "",
                                    f"after ucinewgame (sent on bestmove, search thread held at {dl}) the search of {q} differs from a fresh engine: {diff}",
                                    "uci-newgame"))
        return issues

    DEEP = ["rnbqkbnr/pppppppp/8/8/8/8/PPPPPPPP/RNBQKBNR w KQkq - 0 1",
            "r1bqkb1r/pppp1ppp/2n2n2/4p3/2B1P3/5N2/PPPP1PPP/RNBQK2R w KQkq - 4 4",
            "r3k2r/p1ppqpb1/bn2pnp1/3PN3/1p2P3/2N2Q1p/PPPBBPPP/R3K2R w KQkq - 0 1",
            "rnbqkb1r/pp2pppp/3p1n2/8/3NP3/8/PPP2PPP/RNBQKB1R w KQkq - 1 5",
            "r1bq1rk1/pp2bppp/2n1pn2/3p4/2PP4/2N1PN2/PP2BPPP/R1BQ1RK1 b - - 0 8",
            "8/2p5/3p4/KP5r/1R3p1k/8/4P1P1/8 w - - 0 1"]

    def deep_phase(self, harness_bin):
        """implementation only (the search model is ~300x slower): deeper first searches fill the killer / counter /
        history tables of both colours far more than the depth-4 jobs of the main stream; after ucinewgame the
        search must still equal a fresh engine's"""
        issues = []
        depth = 6 if self.tier == "quick" else 8
        lines = []
        n = 0
        for a in self.DEEP:
            for b in self.DEEP:
                if a == b:
                    continue
                n += 1
                lines.append(f"search\t1\t{a}||{depth}|0|0;{b}||{depth}|0|0;N;{b}||{depth}|0|0")
                lines.append(f"search\t1\t{b}||{depth}|0|0")
        req_path = os.path.join(self.wd, "deep.req")
        with open(req_path, "w") as f:
            f.write("\n".join(lines) + "\n")
        out = os.path.join(self.wd, "deep.impl")
        vlib.serve(harness_bin, req_path, out)
        ans = vlib.read_lines(out)
        for k in range(0, len(lines) - 1, 2):
            self.evaluations += 1
            self.features["deep-newgame-pairs"] = self.features.get("deep-newgame-pairs", 0) + 1
            if k + 1 >= len(ans):
                issues.append(Issue("oracle", lines[k], "", "", "", "no answer for a deep newgame pair", "deep-newgame"))
                continue
            ja = [j for j in parse_jobs(ans[k]) if "marker" not in j]
            jb = parse_jobs(ans[k + 1])
            if len(ja) == 3 and len(jb) == 1 and "best" in ja[2] and "best" in jb[0]:
                x, y = dict(ja[2]), dict(jb[0])
                if x != y:
                    keys = [key for key in x if x[key] != y.get(key)]
                    issues.append(Issue("oracle", lines[k], ans[k], ans[k + 1], "",
                                        f"after ucinewgame the depth-{depth} search differs from a fresh engine in {keys}",
                                        "deep-newgame"))
            else:
                issues.append(Issue("oracle", lines[k], ans[k][:300], ans[k + 1][:300], "",
                                    "a deep search did not complete (crash?)", "deep-newgame"))
        return issues

    def judge_job(self, req, job, res, verdict):
        return None



# =============================================================================================
# UCI-level properties on the real binary: C05, C13, C17
# =============================================================================================
import random
import uci as ucimod
from concurrent.futures import ThreadPoolExecutor

START = "rnbqkbnr/pppppppp/8/8/8/8/PPPPPPPP/RNBQKBNR w KQkq - 0 1"


class UciCheck(Check):
    engine_profile = "release"

    def run(self, replay=None):
        self._replay = replay
        return super().run(replay=None)

    def ask_driver(self, requests, tag="ask"):
        """returns list of (model, spec) answers of tvdriver for the request lines"""
        rp = os.path.join(self.wd, tag + ".req")
        op = os.path.join(self.wd, tag + ".out")
        with open(rp, "w") as f:
            f.write("\n".join(requests) + ("\n" if requests else ""))
        vlib.serve(vlib.driver_bin(), rp, op)
        out = []
        lines = vlib.read_lines(op)
        for k in range(len(requests)):
            parts = lines[k].split("\t") if k < len(lines) else ["model-crash", "-"]
            out.append((parts[0], parts[1] if len(parts) > 1 else "-"))
        return out


class C05(UciCheck):
    pid = "C05"
    props_module = "TcheranVerif.Props.C05"
    rule = ("command histories over {isready, ucinewgame, position, setoption, go depth/movetime/clock, go infinite, stop, "
            "quit} generated under the conformance rule (restricted commands only after the outstanding bestmove), with "
            "random sleeps of 0 / 1 / 20 ms around bestmove to steer the race between the input thread and the tail of the "
            "search thread; run against the real release binary over pipes; each isready must be answered within 10 s; the "
            "controller model predicts the counts of readyok / bestmove for the same history; distinct = distinct histories; "
            "non-trivial = contains a go")
    assumptions = ["real OS scheduling is sampled, not enumerated: the enumeration over interleavings is the theorem over "
                   "the controller model (all 9,248 states x 11 events decided by the kernel)"]
    TIMEOUT = 10.0

    def gen_history(self, rnd, length):
        """abstract history: list of (token, concrete command text, sleep_before_ms)"""
        h = []
        outstanding = None   # None | 'finite' | 'infinite'
        for _ in range(length):
            sleep = rnd.choice([0, 0, 0, 1, 20])
            c = rnd.random()
            if outstanding:
                # only stop / isready may be sent; a finite search may also simply be awaited
                if c < 0.35:
                    h.append(("isready", "isready", sleep))
                elif c < 0.8 or outstanding == "infinite":
                    h.append(("stop", "stop", sleep))
                    h.append(("await", "", 0))
                    outstanding = None
                else:
                    h.append(("await", "", 0))
                    outstanding = None
                continue
            if c < 0.2:
                h.append(("isready", "isready", sleep))
            elif c < 0.35:
                h.append(("ucinewgame", "ucinewgame", sleep))
            elif c < 0.45:
                h.append(("position", rnd.choice(["position startpos", "position startpos moves e2e4 e7e5",
                                                  "position fen r3k2r/p1ppqpb1/bn2pnp1/3PN3/1p2P3/2N2Q1p/PPPBBPPP/R3K2R w KQkq - 0 1",
                                                  # exactly one legal move; a mate in one; a dead draw
                                                  "position fen 8/8/8/8/8/2k5/8/K6r w - - 0 1",
                                                  "position fen 6k1/5ppp/8/8/8/8/8/R5K1 w - - 0 1",
                                                  "position fen 8/8/8/4k3/8/4K3/8/8 w - - 0 1"]), sleep))
            elif c < 0.52:
                h.append(("setoption", rnd.choice(["setoption name Hash value 1", "setoption name Hash value 4",
                                                   "setoption name Move Overhead value 10"]), sleep))
            elif c < 0.6:
                h.append(("stop", "stop", sleep))
            elif c < 0.85:
                h.append(("gofinite", rnd.choice(["go depth 1", "go depth 2", "go depth 4", "go movetime 30",
                                                   "go wtime 300 btime 300 winc 10 binc 10"]), sleep))
                outstanding = "finite"
            else:
                h.append(("goinfinite", "go infinite", sleep))
                outstanding = "infinite"
        if outstanding:
            h.append(("stop", "stop", 0))
            h.append(("await", "", 0))
        h.append(("isready", "isready", 0))
        h.append(("quit", "quit", 0))
        return h

    DELAYS = [None, {"START": 15}, {"PRINTED": 15}, {"TAIL": 15}, {"START": 8, "PRINTED": 8, "TAIL": 8}]

    def run_history(self, binary, h, delays=None):
        """returns (problem|None, counts)"""
        e = ucimod.Engine(binary, delays)
        counts = {"readyok": 0, "bestmove": 0}
        pending_best = 0
        problem = None
        try:
            e.send("uci")
            if e.read_until(lambda l: l == "uciok", self.TIMEOUT)[0] is None:
                return "no uciok", counts

            def absorb(lines):
                nonlocal pending_best
                for l in lines:
                    if l.startswith("bestmove"):
                        counts["bestmove"] += 1
                        pending_best -= 1

            for k, (tok, text, sleep) in enumerate(h):
                if sleep:
                    time.sleep(sleep / 1000.0)
                if tok == "await":
                    while pending_best > 0:
                        got, seen = e.read_until(lambda l: l.startswith("bestmove"), self.TIMEOUT)
                        if got is None:
                            absorb(seen)
                            return f"no bestmove within {self.TIMEOUT:.0f} s (step {k})", counts
                        absorb(seen)
                    continue
                if not e.send(text):
                    return f"engine process gone before step {k} ({text})", counts
                if tok in ("gofinite", "goinfinite"):
                    pending_best += 1
                if tok == "isready":
                    got, seen = e.read_until(lambda l: l == "readyok", self.TIMEOUT)
                    absorb(seen)
                    if got is None:
                        return f"isready not answered within {self.TIMEOUT:.0f} s at step {k}: the engine is blocked", counts
                    counts["readyok"] += 1
                if tok == "quit":
                    absorb(e.drain(0.05))
                    if not e.wait_exit(self.TIMEOUT):
                        return "quit did not end the process", counts
            absorb(e.drain(0.05))
        finally:
            e.kill()
        return problem, counts

    def extra_phase(self, harness_bin):
        binary = vlib.build_engine("release")
        rnd = random.Random(self.seed * 7919 + 5)
        histories = []
        # regression histories first (DESIGN §6 defect 4 and neighbours)
        fixed = [
            ["gofinite:go depth 2", "await", "ucinewgame", "stop", "isready", "quit"],
            ["gofinite:go depth 1", "await", "ucinewgame", "gofinite:go depth 1", "await", "stop", "isready", "quit"],
            ["goinfinite:go infinite", "isready", "stop", "await", "ucinewgame", "stop", "stop", "isready", "quit"],
            ["stop", "ucinewgame", "stop", "isready", "quit"],
            # a forced move answered on the clock as the very first search, then a late stop
            ["position:position fen 8/8/8/8/8/2k5/8/K6r w - - 0 1", "gofinite:go wtime 60000 btime 60000 winc 1000 binc 1000",
             "await", "stop", "isready", "gofinite:go depth 2", "await", "quit"],
            ["ucinewgame", "position:position fen 8/8/8/8/8/2k5/8/K6r w - - 0 1", "gofinite:go wtime 500 btime 500",
             "await", "stop", "stop", "isready", "quit"],
        ]
        for fx in fixed:
            for sleep in (0, 20):
                h = []
                for t in fx:
                    tok, _, text = t.partition(":")
                    h.append((tok, text or tok if tok != "await" else "", sleep if tok in ("ucinewgame", "stop") else 0))
                histories.append(h)
        if self._replay:
            with open(self._replay) as f:
                rp = json.load(f)
            histories = [[tuple(x) for x in rp["history"]]]
            self.DELAYS = [rp.get("delays")]
        else:
            for _ in range(self.n(40, 1500)):
                histories.append(self.gen_history(rnd, rnd.randint(3, 14)))
        # model predictions
        reqs = ["ctl\t" + " ".join(t for t, _, _ in h if t != "await") for h in histories]
        preds = self.ask_driver(reqs, "ctl")
        issues = []

        # every history runs under one configuration of the scheduling hook (H3): the search thread is held
        # before it takes the lock / after it printed bestmove / after it set the latch, so that the commands
        # that follow land at that step of the thread
        dcfg = [self.DELAYS[k % len(self.DELAYS)] for k in range(len(histories))]

        def work(hk):
            return self.run_history(binary, hk[0], hk[1])

        with ThreadPoolExecutor(max_workers=6) as ex:
            results = list(ex.map(work, list(zip(histories, dcfg))))
        for d in dcfg:
            key = "hold:" + ("+".join(sorted(d)) if d else "none")
            self.features[key] = self.features.get(key, 0) + 1
        for h, (problem, counts), (pred, _), req, dl in zip(histories, results, preds, reqs, dcfg):
            self.evaluations += 1
            toks = [t for t, _, _ in h]
            for t in set(toks):
                self.features[t] = self.features.get(t, 0) + 1
            if any(t.startswith("go") for t in toks):
                self.distinct.add(tuple((t, x) for t, x, _ in h))
            if len(self.samples) < 3:
                self.samples.append({"history": [x or t for t, x, _ in h], "observed": counts, "model": pred})
            hist_text = " | ".join(x or t for t, x, _ in h)
            d = kv(pred)
            if problem:
                i = Issue("oracle", req, str(counts), pred, "", f"{problem}; history: {hist_text}", "uci")
                i.extra = {"history": [list(x) for x in h], "delays": dl}
                issues.append(i)
                continue
            if d.get("stuck") != "0":
                issues.append(Issue("corr", req, str(counts), pred, "", "controller model says this conforming history can hang", "uci"))
            elif int(d["readyok"]) != counts["readyok"] or int(d["bestmove"]) != counts["bestmove"]:
                i = Issue("oracle", req, str(counts), pred, "",
                          f"observed {counts} but the history requires readyok={d['readyok']} bestmove={d['bestmove']}: {hist_text}", "uci")
                i.extra = {"history": [list(x) for x in h], "delays": dl}
                issues.append(i)
        return issues


class C13(UciCheck):
    pid = "C13"
    props_module = "TcheranVerif.Props.C13"
    gen_modules = ("SearchParams",)
    rule = ("for every advertised spin option (read from the binary's `option` lines and cross-checked against the "
            "regenerated Gen/SearchParams) the boundary values, neighbours and random interior values are set before and "
            "between searches on the real binary; after each: isready must be answered and `go depth 3` (for Move Overhead: with "
            "clocks, alternately longer and shorter than the overhead) must return a move "
            "that the Rules spec accepts as legal; the search model run with the same hash size must return the same move; "
            "distinct = distinct (option, value)")

    def extra_phase(self, harness_bin):
        binary = vlib.build_engine("release")
        issues = []
        e = ucimod.Engine(binary)
        e.send("uci")
        _, seen = e.read_until(lambda l: l == "uciok", 10)
        e.kill()
        opts = {}
        for l in seen:
            m = re.match(r"option name (.+?) type spin default (\d+) min (\d+) max (\d+)", l)
            if m:
                opts[m.group(1)] = (int(m.group(3)), int(m.group(2)), int(m.group(4)))
        self.features["spin-options-advertised"] = len(opts)
        if not opts:
            return [Issue("oracle", "uci", "\n".join(seen)[:500], "", "", "no spin option advertised / no uciok", "uci")]
        rnd = random.Random(self.seed * 104729 + 13)
        plans = []
        for name, (lo, dflt, hi) in sorted(opts.items()):
            vals = sorted({lo, min(lo + 1, hi), dflt, max(hi - 1, lo), hi} | {rnd.randint(lo, hi) for _ in range(self.n(3, 40))})
            if name == "Hash" and self.tier == "quick":
                vals = [v for v in vals if v <= 64 or v in (hi, hi - 1)]
            # … and down again: the smallest values once more, now that earlier searches have filled the tables
            vals = vals + [min(lo + 1, hi), lo]
            plans.append((name, vals))
        fens = [START, "r3k2r/p1ppqpb1/bn2pnp1/3PN3/1p2P3/2N2Q1p/PPPBBPPP/R3K2R w KQkq - 0 1"]
        records = []   # (name, value, fen, bestmove, hash_mb)
        for name, vals in plans:
            e = ucimod.Engine(binary)
            try:
                e.send("uci")
                e.read_until(lambda l: l == "uciok", 10)
                cur_hash = opts.get("Hash", (0, 256, 0))[1]
                first = True
                for v in vals:
                    self.evaluations += 1
                    self.distinct.add((name, v))
                    fen = fens[len(records) % 2]
                    if not e.send(f"setoption name {name} value {v}"):
                        issues.append(Issue("oracle", f"{name}={v}", "", "", "", f"engine died before setoption {name}={v}", "uci"))
                        break
                    if name == "Hash":
                        cur_hash = v
                    e.send("isready")
                    got, _ = e.read_until(lambda l: l == "readyok", 30)
                    if got is None:
                        issues.append(Issue("oracle", f"{name}={v}", "", "", "", f"isready not answered after setoption name {name} value {v}", "uci"))
                        break
                    # between searches the tables keep their content: start a new game only the first time
                    if first:
                        e.send("ucinewgame")
                        first = False
                    e.send(f"position fen {fen}")
                    if name != "Move Overhead":
                        go = "go depth 3"
                    elif len(records) % 2 == 0 or v < 2:
                        go = "go wtime 2000 btime 2000 depth 3"
                    else:
                        # a clock shorter than the configured overhead is something a GUI can send too
                        go = f"go wtime {max(1, v // 2)} btime {max(1, v // 2)} depth 3"
                    e.send(go)
                    got, _ = e.read_until(lambda l: l.startswith("bestmove"), 60)
                    if got is None:
                        alive = e.alive()
                        issues.append(Issue("oracle", f"{name}={v}", "", "", "",
                                            f"no bestmove after setoption name {name} value {v} ({'engine alive' if alive else 'engine process died'})", "uci"))
                        break
                    records.append((name, v, fen, got.split()[1], cur_hash, go))
            finally:
                e.kill()
        # "between searches" includes the moment right after `bestmove`: the search thread has answered but still
        # owns the shared state (hook H3 holds it there); whatever the engine does with the value then, it must
        # keep answering
        for name, (lo, dflt, hi) in sorted(opts.items()):
            for hold in ({"TAIL": 80}, {"PRINTED": 80}):
                e = ucimod.Engine(binary, hold)
                try:
                    e.send("uci")
                    e.read_until(lambda l: l == "uciok", 10)
                    ok = True
                    for v in (lo, min(lo + 1, hi), min(dflt, 16) if name == "Hash" else dflt):
                        self.evaluations += 1
                        self.features["set-right-after-bestmove"] = self.features.get("set-right-after-bestmove", 0) + 1
                        e.send(f"position fen {fens[0]}")
                        e.send("go depth 2")
                        got, _ = e.read_until(lambda l: l.startswith("bestmove"), 60)
                        e.send(f"setoption name {name} value {v}")
                        e.send("isready")
                        rd, _ = e.read_until(lambda l: l == "readyok", 30)
                        if got is None or rd is None:
                            issues.append(Issue("oracle", f"{name}={v} right after bestmove (search thread held at {hold})", "", "", "",
                                                f"setoption name {name} value {v} sent on bestmove: isready not answered "
                                                f"({'engine alive' if e.alive() else 'engine process died'})", "uci"))
                            ok = False
                            break
                        e.send(f"position fen {fens[1]}")
                        e.send("go depth 2")
                        got2, _ = e.read_until(lambda l: l.startswith("bestmove"), 60)
                        if got2 is None:
                            issues.append(Issue("oracle", f"{name}={v} right after bestmove (search thread held at {hold})", "", "", "",
                                                f"no bestmove in the search after setoption name {name} value {v} sent on bestmove", "uci"))
                            ok = False
                            break
                        records.append((name, v, fens[1], got2.split()[1], 0, "go depth 2"))
                    if not ok:
                        continue
                finally:
                    e.kill()
        # legality by the rules, and the model's own answer for Hash values (fresh table per plan is
        # not guaranteed, so the model comparison is restricted to the first search of each engine run)
        reqs = [f"verify\t{fen}\t\t{bm}:0\t" for (_, _, fen, bm, _, _) in records]
        # verify needs a flagged move: ask for the legal list instead
        reqs = [f"game\t{fen}" for (_, _, fen, _, _, _) in records]
        answers = self.ask_driver(reqs, "legal")
        for (name, v, fen, bm, mb, go), (_, spec) in zip(records, answers):
            legal = spec.split("|moves=")[1].split() if "|moves=" in spec else []
            if len(self.samples) < 3:
                self.samples.append({"option": name, "value": v, "bestmove": bm})
            self.features[f"opt:{name}"] = self.features.get(f"opt:{name}", 0) + 1
            if bm not in legal:
                issues.append(Issue("oracle", f"{name}={v}", bm, "", spec[:300], f"after setoption name {name} value {v} the search answers {bm}, not a legal move", "uci"))
        return issues


class C17(UciCheck):
    pid = "C17"
    props_module = "TcheranVerif.Props.C17"
    rule = ("legal games (moves chosen by the Rules spec, biased to castling / e.p. / promotions, up to 300 plies) from the "
            "start position, corpus FENs and e.p./castling/promotion templates, sent to the real binary as "
            "`position startpos|fen … moves …`; `d fen` and `d perftdiv 1` compared with the position and the replies the "
            "rules prescribe, and with the engine model's replay; distinct = distinct games; non-trivial = game contains "
            "castling, e.p. or a promotion")

    def streams(self):
        req = os.path.join(self.wd, "ucimoves.req")
        vlib.gen_requests(["ucimoves", self.seed + 17, self.n(600, 20000)], req)
        yield "ucimoves", req

    def judge(self, req, impl, model, spec):
        text = "\t".join(req.split("\t")[1:])
        corr = None if impl == model else f"move-list reader differs from the model on {text!r}: impl {impl[:120]} model {model[:120]}"
        oracle = None
        feats = ["ucimoves"]
        if impl in ("panic", "crash", "timeout"):
            oracle = f"move-list reader crashes on {text!r}"
        elif impl.startswith("ok ") and re.fullmatch(r"([a-h][1-8][a-h][1-8][nbrq]?)( [a-h][1-8][a-h][1-8][nbrq]?)*", text):
            feats.append("well-formed")
            m = re.match(r"ok \[(.*?)\] rest=\[(.*)\]$", impl)
            if not m or m.group(1) != text or m.group(2) != "":
                oracle = f"well-formed move list {text!r} is read as {impl[:200]}"
        return corr, oracle, feats, text

    def extra_phase(self, harness_bin):
        binary = vlib.build_engine("release")
        req_path = os.path.join(self.wd, "games.req")
        if self._replay:
            with open(self._replay) as f:
                rp = json.load(f)
            sess = rp.get("session")
            with open(req_path, "w") as f:
                f.write((sess[-1] if sess else rp["request"]) + "\n")
        else:
            sess = None
            vlib.gen_requests(["games", self.seed + 17, self.n(150, 6000), self.corpus_file("positions.fen")], req_path)
        reqs = [l for l in vlib.read_lines(req_path) if l]
        # a GUI sends the growing move list of one game again and again, sometimes with `ucinewgame` in between:
        # every second game is also sent up to a random earlier ply first, in the same engine process
        rnd17 = random.Random(self.seed * 31 + 17)
        prefix_of = {}
        for r in reqs[::2]:
            f = r.split("\t")
            mvs = f[2].split() if len(f) > 2 else []
            if len(mvs) >= 2 and not self._replay:
                k = rnd17.randint(1, len(mvs) - 1)
                pr = "\t".join([f[0], f[1], " ".join(mvs[:k])])
                prefix_of[r] = (pr, rnd17.random() < 0.5)
        if sess:
            prefix_of[sess[-1]] = (sess[0], "!ucinewgame" in sess)
        reqs = reqs + sorted({pr for pr, _ in prefix_of.values()} - set(reqs))
        answers = self.ask_driver(reqs, "games")
        issues = []

        def play(chunk0):
            chunk = []
            for r in chunk0:
                if r in prefix_of:
                    pr, newgame = prefix_of[r]
                    chunk.append(pr)
                    if newgame:
                        chunk.append("!ucinewgame")
                chunk.append(r)
            res = play_seq(chunk)
            return [o for r, o in zip(chunk, res) if not r.startswith("!")], [r for r in chunk if not r.startswith("!")]

        def play_seq(chunk):
            out = []
            e = None

            def fresh():
                eng = ucimod.Engine(binary)
                eng.send("uci")
                eng.read_until(lambda l: l == "uciok", 10)
                return eng

            try:
                e = fresh()
                for r in chunk:
                    if r.startswith("!"):
                        e.send(r[1:])
                        out.append(("cmd", []))
                        continue
                    f = r.split("\t")
                    fen = f[1]
                    moves = [m.split(":")[0] for m in (f[2].split() if len(f) > 2 else [])]
                    head = "position startpos" if fen == START else f"position fen {fen}"
                    cmd = head + (" moves " + " ".join(moves) if moves else "")
                    ok = e.send(cmd)
                    got = tot = None
                    seen = []
                    if ok:
                        e.send("d fen")
                        got, _ = e.read_until(lambda l: l.startswith("FEN: "), 10)
                        e.send("d perftdiv 1")
                        tot, seen = e.read_until(lambda l: l.startswith("total:"), 10)
                    if got is None or tot is None:
                        out.append(("dead" if not e.alive() else "silent", []))
                        # only this game is blamed: continue with a fresh process
                        e.kill()
                        e = fresh()
                        continue
                    replies = sorted(l.split(":")[0] for l in seen if re.match(r"^[a-h][1-8][a-h][1-8][nbrq]?: \d+$", l))
                    out.append((got[5:], replies))
            finally:
                if e:
                    e.kill()
            while len(out) < len(chunk):
                out.append(("dead", []))
            return out

        nchunks = 8
        primary = [r for r in reqs if r not in {pr for pr, _ in prefix_of.values()} or r in prefix_of]
        chunks = [primary[i::nchunks] for i in range(nchunks)]
        with ThreadPoolExecutor(max_workers=nchunks) as ex:
            res = list(ex.map(play, chunks))
        observed = {}
        for outs, rs in res:
            for r, o in zip(rs, outs):
                observed.setdefault(r, []).append(o)
        self.features["prefix-then-full"] = len(prefix_of)
        self.features["ucinewgame-between"] = sum(1 for _, ng in prefix_of.values() if ng)
        for r, (model, spec) in zip(reqs, answers):
            self.evaluations += 1
            f = r.split("\t")
            mvs = f[2].split() if len(f) > 2 else []
            feats = set()
            for m in mvs:
                code = m.split(":")[1]
                if code == "4":
                    feats.add("castling")
                elif code == "5":
                    feats.add("enpassant")
                elif code not in ("0", "1"):
                    feats.add("promotion-" + m.split(":")[0][-1])
            if f[1] != START:
                feats.add("from-fen")
            for ft in feats:
                self.features[ft] = self.features.get(ft, 0) + 1
            if feats - {"from-fen"}:
                self.distinct.add(r)
            # (a request may have been sent more than once: as an earlier ply of a longer game and on its own)
            for fen_i, replies_i in observed.get(r, [("dead", [])]):
                impl = f"fen={fen_i}|moves={' '.join(replies_i)}"
                if len(self.samples) < 2:
                    self.samples.append({"game": r[:200], "engine": impl[:200]})
                pre = prefix_of.get(r)
                ctx = (f" (sent after the same game up to ply {len(pre[0].split(chr(9))[2].split())}"
                       f"{' and ucinewgame' if pre[1] else ''} in the same process)") if pre else ""
                extra = {"session": [pre[0]] + (["!ucinewgame"] if pre[1] else []) + [r]} if pre else {}
                if fen_i in ("dead", "silent"):
                    i = Issue("oracle", r, impl, model, spec, f"engine {fen_i} on a legal game{ctx}: {r[:300]}", "uci")
                    i.extra = extra
                    issues.append(i)
                    break
                elif impl != spec:
                    sd = dict(x.split("=", 1) for x in spec.split("|"))
                    what = "position" if fen_i != sd.get("fen") else "set of replies"
                    i = Issue("oracle", r, impl, model, spec,
                              f"{what} after the position command differs from the rules{ctx}: engine {impl[:200]} rules {spec[:200]}", "uci")
                    i.extra = extra
                    issues.append(i)
                    break
                elif impl != model:
                    issues.append(Issue("corr", r, impl, model, spec, "engine model replays the game differently", "uci"))
                    break
        if not self._replay:
            issues += self.position_around_search(binary, reqs, answers)
        return issues

    def position_around_search(self, binary, reqs, answers):
        """the `position` command at the moments a GUI really sends it: right after `bestmove` (the search thread has
        answered but — held there by hook H3 — still owns the shared state), and in analysis mode (`stop`, `position`,
        `go`) on the second search of a session; the position shown afterwards must be the game's"""
        issues = []
        games = [(r, spec) for r, (_, spec) in zip(reqs, answers) if len(r.split("\t")) > 2 and r.split("\t")[2].split()][:6]

        def cmd_of(fen, moves):
            head = "position startpos" if fen == START else f"position fen {fen}"
            return head + (" moves " + " ".join(moves) if moves else "")

        def session(r, kind, hold):
            f = r.split("\t")
            fen = f[1]
            moves = [m.split(":")[0] for m in f[2].split()]
            e = ucimod.Engine(binary, hold)
            try:
                e.send("uci")
                e.read_until(lambda l: l == "uciok", 10)
                e.send(cmd_of(fen, moves[:-1]))
                if kind == "on-bestmove":
                    e.send("go depth 2")
                    e.read_until(lambda l: l.startswith("bestmove"), 30)
                    e.send(cmd_of(fen, moves))
                else:
                    # analysis mode: the second `stop` of a session does not wait for the search to end
                    e.send("go infinite"); time.sleep(0.05); e.send("stop")
                    e.read_until(lambda l: l.startswith("bestmove"), 30)
                    e.send(cmd_of(fen, moves[:-1]))
                    e.send("go infinite"); time.sleep(0.05); e.send("stop")
                    e.send(cmd_of(fen, moves))
                    e.read_until(lambda l: l.startswith("bestmove"), 30)
                e.send("d fen")
                got, _ = e.read_until(lambda l: l.startswith("FEN: "), 10)
                return got[5:] if got else ("dead" if not e.alive() else "silent")
            finally:
                e.kill()

        jobs = [(r, spec, kind, hold) for (r, spec) in games
                for (kind, hold) in (("on-bestmove", {"TAIL": 80}), ("on-bestmove", {"PRINTED": 80}), ("analysis", {"PRINTED": 80}))]
        with ThreadPoolExecutor(max_workers=6) as ex:
            got = list(ex.map(lambda j: session(j[0], j[2], j[3]), jobs))
        for (r, spec, kind, hold), fen_i in zip(jobs, got):
            self.evaluations += 1
            self.features["position-" + kind] = self.features.get("position-" + kind, 0) + 1
            want = dict(x.split("=", 1) for x in spec.split("|")).get("fen")
            if fen_i != want:
                issues.append(Issue("oracle", r, f"fen={fen_i}", "", spec,
                                    f"`position` sent {kind} (search thread held at {hold}): the engine shows {fen_i}, the game's "
                                    f"position is {want}: {r[:200]}", "uci"))
        return issues


REGISTRY = {c.pid: c for c in [C01, C02, C03, C04, C05, C06, C07, C08, C09, C10, C11, C12, C13, C14, C15, C16, C17, C18, C19, C20]}
