"""Per-property checks. Each check = Lean obligations (theorems over the model) + correspondence
(model vs implementation on the same requests) + property oracle on the implementation (normally the
`Rules` specification evaluated by tvdriver), as laid out in DESIGN.md §2.5."""
import json
import os
import re
import time

import vlib
from vlib import log, kv


class Issue:
    def __init__(self, kind, request, impl, model, spec, detail, stream):
        self.kind = kind          # 'oracle' | 'corr'
        self.request, self.impl, self.model, self.spec = request, impl, model, spec
        self.detail, self.stream = detail, stream

    def payload(self):
        return {"kind": "counterexample" if self.kind == "oracle" else "broken-correspondence",
                "stream": self.stream, "request": self.request, "implementation_answer": self.impl[:4000],
                "model_answer": self.model[:4000], "spec_answer": self.spec[:4000], "detail": self.detail}


class Check:
    pid = "C00"
    title = ""
    props_module = None
    profile = "checked"
    gen_modules = ()          # Gen/* modules whose extraction failure breaks this property
    allow_native = ()
    assumptions = []
    rule = ""

    def __init__(self, tier, seed):
        self.tier, self.seed = tier, seed
        self.wd = vlib.workdir(self.pid)
        self.features = {}
        self.samples = []
        self.evaluations = 0
        self.distinct = set()
        self.exhaustive = False

    # -- to be provided by subclasses ---------------------------------------------------------
    def streams(self):
        """yield (name, request_file)"""
        return []

    def judge(self, req, impl, model, spec):
        """return (corr_detail|None, oracle_detail|None, features, nontrivial_key|None)"""
        raise NotImplementedError

    def extra_phase(self, harness_bin):
        """optional additional exploration (e.g. real binary); returns list of Issue"""
        return []

    # -- helpers ------------------------------------------------------------------------------
    def n(self, quick, thorough):
        return quick if self.tier == "quick" else thorough

    def corpus_file(self, name):
        if name == "positions.fen":
            path, n = vlib.collect_corpus()
            self.features["corpus-positions"] = n
            return path
        return os.path.join(vlib.CORPUS, name)

    def known(self, issue):
        for e in vlib.known_findings(self.pid):
            pat = e.get("match")
            if pat and re.search(pat, issue.request + " " + issue.detail):
                return e
        return None

    # -- main flow ----------------------------------------------------------------------------
    def run(self, replay=None):
        t0 = time.time()
        problems = []      # broken obligations / build problems (strings)
        issues = []
        harness_bin = None
        try:
            harness_bin = vlib.build_harness(self.profile)
        except vlib.BuildError as e:
            problems.append(str(e)[:2000])
        obl = {"obligations": 0, "discharged": 0, "axioms": {}, "problems": [], "theorems": []}
        if harness_bin:
            changed, terrs = vlib.run_translator(harness_bin)
            for m, msg in terrs.items():
                if not self.gen_modules or m in self.gen_modules:
                    problems.append(f"translator: Gen/{m}: {msg}")
            if self.props_module:
                obl = vlib.check_obligations(self.props_module, self.allow_native)
                problems += obl["problems"]
            rc, out = vlib.lake_build(["tvdriver"])
            if rc != 0:
                problems.append("model driver does not build against the regenerated constants:\n" + out[-1500:])
            else:
                if replay:
                    issues += self.run_replay(replay, harness_bin)
                else:
                    for name, req in self.streams():
                        issues += self.run_one_stream(name, req, harness_bin)
                    issues += self.extra_phase(harness_bin)
        return self.finish(t0, obl, problems, issues)

    def run_one_stream(self, name, req, harness_bin):
        rows = vlib.run_stream(self.pid, name, req, harness_bin)
        issues = []
        for (r, a, m, s) in rows:
            self.evaluations += 1
            try:
                corr, oracle, feats, key = self.judge(r, a, m, s)
            except Exception as e:  # malformed answer = disagreement, never a crash of the check
                corr, oracle, feats, key = f"unparseable answer: {e}", None, [], None
            for ft in feats:
                self.features[ft] = self.features.get(ft, 0) + 1
            if key is not None:
                self.distinct.add(key)
            if len(self.samples) < 3 and (self.evaluations % 997 == 1):
                self.samples.append({"request": r[:300], "implementation": a[:300], "spec": s[:300]})
            if oracle:
                issues.append(Issue("oracle", r, a, m, s, oracle, name))
            elif corr:
                issues.append(Issue("corr", r, a, m, s, corr, name))
        return issues

    def run_replay(self, path, harness_bin):
        with open(path) as f:
            rp = json.load(f)
        req = os.path.join(self.wd, "replay.req")
        with open(req, "w") as f:
            f.write(rp["request"] + "\n")
        return self.run_one_stream("replay", req, harness_bin)

    def finish(self, t0, obl, problems, issues):
        oracle = [i for i in issues if i.kind == "oracle"]
        corr = [i for i in issues if i.kind == "corr"]
        lines = []
        nviol = 0
        reported_known = set()
        new_oracle = []
        for i in oracle:
            k = self.known(i)
            if k:
                if k["id"] not in reported_known:
                    reported_known.add(k["id"])
                    lines.append(f"KNOWN-FINDING: property={self.pid} {k['id']}: {k.get('what', '')}")
            else:
                new_oracle.append(i)
        if new_oracle:
            # smallest request first: the most readable counterexample
            new_oracle.sort(key=lambda i: len(i.request))
            i = new_oracle[0]
            path = vlib.write_replay(self.pid, self.seed, 0, i.payload())
            lines.append(f"VIOLATION property={self.pid} replay={path} {i.detail[:300]}")
            nviol = len(new_oracle)
        elif corr or problems:
            payload = {"kind": "broken-correspondence" if corr else "broken-obligation",
                       "request": corr[0].request if corr else "",
                       "problems": problems[:20], "theorems": obl.get("theorems", []),
                       "lean_log": obl.get("log", "")[-3000:]}
            if corr:
                corr.sort(key=lambda i: len(i.request))
                payload.update(corr[0].payload())
                payload["kind"] = "broken-correspondence"
            path = vlib.write_replay(self.pid, self.seed, 1, payload)
            what = (f"model and implementation disagree on {len(corr)} request(s) of stream {corr[0].stream}: {corr[0].detail[:200]}"
                    if corr else f"proof obligation no longer checks: {problems[0][:200]}")
            lines.append(f"VIOLATION property={self.pid} replay={path} {what} no-failing-input-found")
            nviol = 1
        axioms = sorted({a for v in obl.get("axioms", {}).values() for a in v})
        coverage = {
            "obligations": obl["obligations"], "discharged": obl["discharged"],
            "checker_cmd": f"cd /verif/lean && lake build {self.props_module} tvdriver",
            "trusted_base": ["Lean 4.33 kernel", "axioms: " + (", ".join(axioms) if axioms else "none")] + list(self.trusted_extra()),
            "theorems": obl.get("theorems", []),
            "evaluations": self.evaluations, "distinct_nontrivial": len(self.distinct),
            "rule": self.rule, "samples": self.samples or [{"note": "no request stream ran"}],
            "traces_validated_against_impl": self.evaluations,
            "feature_histogram": dict(sorted(self.features.items())),
            "model_disagreements": len(corr), "oracle_failures": len(oracle),
            "known_findings_hit": sorted(reported_known),
            "obligation_problems": problems[:10],
            "exhaustive": bool(self.exhaustive),
        }
        vlib.write_evidence(self.pid, self.tier, self.seed, coverage, self.assumptions, time.time() - t0, nviol)
        for l in lines:
            print(l, flush=True)
        log(f"{self.pid} {self.tier}: obligations {obl['discharged']}/{obl['obligations']}, "
            f"{self.evaluations} evaluations, {len(corr)} model disagreements, {len(oracle)} oracle failures, "
            f"{time.time() - t0:.1f}s")
        return 1 if nviol else 0

    def trusted_extra(self):
        return ["translator tools/translate.py (Gen/* regenerated from /repo on this run)",
                "correspondence harness /verif/harness (compiles /repo's working tree in-process)"]


# =============================================================================================
# C07
# =============================================================================================
class C07(Check):
    pid = "C07"
    props_module = "TcheranVerif.Props.C07"
    gen_modules = ("Magics",)
    rule = ("exhaustive: every (kind, square, subset of the relevant-blocker mask) = 107,648 slider lookups, all 64 "
            "knight/king squares, 128 pawn entries, 4,096 square pairs; plus random full occupancies with "
            "irrelevant bits set. distinct = distinct requests; all are non-trivial (each is one table cell).")
    assumptions = ["Rust `get_unchecked` reads the slot whose index the model computes (index-in-range is a theorem; "
                   "the address computation itself is trusted)"]

    def streams(self):
        req = os.path.join(self.wd, "c07.req")
        vlib.gen_requests(["c07", self.seed, self.n(20000, 400000)], req)
        self.exhaustive = True
        yield "c07", req

    def judge(self, req, impl, model, spec):
        kind = req.split("\t")[0]
        corr = None if impl == model else f"{req!r}: implementation {impl} model {model}"
        oracle = None if impl == spec else f"{req!r}: table gives {impl}, geometry gives {spec}"
        return corr, oracle, [kind], req


# =============================================================================================
# C01
# =============================================================================================
MOVES_RE = re.compile(r"check=(\w+) n=(\d+) ncaps=(\d+) staged=(\d) sorted=\[(.*?)\] order=\[(.*?)\]")
SPEC_MOVES_RE = re.compile(r"check=(\w+) n=(\d+) sorted=\[(.*?)\](?: F=(\S*))?")


class C01(Check):
    pid = "C01"
    props_module = "TcheranVerif.Props.C01"
    rule = ("positions from the corpus (repo bench/perft/SEE/SAN/WAC FENs + past failures), Rules-chosen random "
            "playouts, random legal placements (sparse and dense) and e.p./pin/castling templates; distinct = "
            "distinct FEN; non-trivial = at least one of: in check, e.p. target set, pinned man, castling right, "
            "promotion available, no legal move")

    def streams(self):
        req = os.path.join(self.wd, "moves.req")
        vlib.gen_requests(["moves", self.seed, self.n(4000, 150000), self.corpus_file("positions.fen")], req)
        yield "moves", req
        req2 = os.path.join(self.wd, "templates.req")
        vlib.gen_requests(["templates", self.seed, self.n(3000, 200000)], req2)
        yield "templates", req2

    def judge(self, req, impl, model, spec):
        corr = None if impl == model else f"move generation differs from the model: impl {impl[:200]} model {model[:200]}"
        sm = SPEC_MOVES_RE.match(spec)
        feats = sm.group(4).split(",") if sm and sm.group(4) else []
        feats = [f for f in feats if f]
        key = req if feats else None
        if impl in ("panic", "crash"):
            return corr, f"move generation crashes on {req.split(chr(9))[1]}", feats, key
        im = MOVES_RE.match(impl)
        if not im or not sm:
            return corr or "unparseable", None, feats, key
        oracle = None
        fen = req.split("\t")[1]
        imoves, smoves = im.group(5).split(), sm.group(3).split()
        if im.group(1) != sm.group(1):
            oracle = f"in-check verdict {im.group(1)} but rules say {sm.group(1)} in {fen}"
        elif len(set(imoves)) != len(imoves):
            dup = sorted(m for m in set(imoves) if imoves.count(m) > 1)
            oracle = f"move listed twice {dup} in {fen}"
        elif imoves != smoves:
            missing = sorted(set(smoves) - set(imoves))
            extra = sorted(set(imoves) - set(smoves))
            oracle = f"generated moves differ from the rules in {fen}: missing {missing} illegal-or-mislabelled {extra}"
        elif im.group(4) != "1":
            oracle = f"staged generation (captures then quiets) differs from one-shot generation in {fen}"
        return corr, oracle, feats, key


# =============================================================================================
# play-stream properties: C02, C03, C11, C15
# =============================================================================================
PIECE_KINDS = "pnbrqk"


def views_from_mailbox(b):
    kinds = [0] * 6
    cols = [0, 0]
    for i, c in enumerate(b):
        if c == ".":
            continue
        kinds[PIECE_KINDS.index(c.lower())] |= 1 << i
        cols[0 if c.isupper() else 1] |= 1 << i
    return ",".join(f"{k:016x}" for k in kinds), ",".join(f"{c:016x}" for c in cols)


class PlayCheck(Check):
    """shared machinery for the properties observed on make/unmake histories"""
    stream_args = ("play",)
    spec_keys = ()

    def streams(self):
        req = os.path.join(self.wd, "play.req")
        vlib.gen_requests(["play", self.seed + self.seed_offset, self.n(1200, 40000), self.corpus_file("positions.fen")], req)
        yield "play", req

    seed_offset = 0

    def oracle_states(self, req, ops, istates, sstates):
        raise NotImplementedError

    def judge(self, req, impl, model, spec):
        f = req.split("\t")
        ops = f[2].split() if len(f) > 2 else []
        corr = None if impl == model else self.first_diff(impl, model)
        feats = set()
        for o in ops:
            if o in ("null", "undo", "undonull"):
                feats.add(o)
            else:
                code = o.split(":")[1]
                feats.add({"0": "quiet", "1": "capture", "4": "castle", "5": "enpassant"}.get(code, "promotion"))
        if impl in ("panic", "crash"):
            return corr, f"make/unmake crashes: {req[:300]}", feats, req
        istates = [kv(x) for x in impl.split(" ; ")]
        sstates = [kv(x) for x in spec.split(" ; ")]
        if len(istates) != len(ops) + 1 or len(sstates) != len(ops) + 1:
            return corr or "state count mismatch", None, feats, req
        oracle = self.oracle_states(req, ops, istates, sstates)
        return corr, oracle, feats, (req if ops else None)

    @staticmethod
    def first_diff(impl, model):
        a, b = impl.split(" ; "), model.split(" ; ")
        for k, (x, y) in enumerate(zip(a, b)):
            if x != y:
                dx, dy = kv(x), kv(y)
                keys = [key for key in dx if dx.get(key) != dy.get(key)]
                return f"state {k} differs from the model in {keys}: impl {[dx.get(key) for key in keys]} model {[dy.get(key) for key in keys]}"
        return f"state lists differ in length ({len(a)} vs {len(b)})"


class C02(PlayCheck):
    pid = "C02"
    props_module = "TcheranVerif.Props.C02"
    seed_offset = 2
    rule = ("operation sequences (legal moves chosen by the Rules spec, nested null moves, take-backs) from corpus "
            "positions, playouts and random legal placements; every state after every op is compared; distinct = "
            "distinct (start, op sequence) with at least one op")

    def oracle_states(self, req, ops, istates, sstates):
        stack = []
        for k, (i, s) in enumerate(zip(istates, sstates)):
            where = f"after op {k} ({ops[k - 1] if k else 'start'}) of {req[:200]}"
            for key in ("B", "P", "R", "E", "H", "L"):
                if i.get(key) != s.get(key):
                    return f"{key} is {i.get(key)} but the rules prescribe {s.get(key)} {where}"
            kk, cc = views_from_mailbox(i["B"])
            if i["K"] != kk or i["C"] != cc:
                return f"board views disagree (by-kind/by-colour vs by-square) {where}"
            if k < len(ops):
                if ops[k] in ("undo", "undonull"):
                    pass
            # reversibility: a take-back restores the complete earlier dump
            if k > 0:
                op = ops[k - 1]
                if op in ("undo", "undonull"):
                    before = stack.pop()
                    if before != i:
                        keys = [key for key in before if before[key] != i.get(key)]
                        return f"take-back did not restore {keys} {where}"
                else:
                    stack.append(istates[k - 1])
        return None


class C03(PlayCheck):
    pid = "C03"
    props_module = "TcheranVerif.Props.C03"
    gen_modules = ("ZobristKeys",)
    seed_offset = 3
    rule = ("same op-sequence streams as C02; at every state the carried key must equal the from-scratch key, and over "
            "all states of the run the map canonical position -> key must be a function and injective; distinct = "
            "distinct canonical positions seen")

    def __init__(self, tier, seed):
        super().__init__(tier, seed)
        self.pos2key, self.key2pos = {}, {}

    def oracle_states(self, req, ops, istates, sstates):
        for k, i in enumerate(istates):
            where = f"after op {k} ({ops[k - 1] if k else 'start'}) of {req[:200]}"
            if i["Z"] != i["ZR"]:
                return f"carried key {i['Z']} differs from the recomputed key {i['ZR']} {where}"
            pos = (i["B"], i["P"], i["R"], i["E"])
            self.distinct.add(pos)
            z = i["Z"]
            if self.pos2key.setdefault(pos, z) != z:
                return f"one position has two keys {self.pos2key[pos]} and {z} {where}"
            if self.key2pos.setdefault(z, pos) != pos:
                return f"two different positions share key {z}: {self.key2pos[z]} and {pos}"
        return None

    def judge(self, req, impl, model, spec):
        c, o, f, _ = super().judge(req, impl, model, spec)
        return c, o, f, None


class C15(PlayCheck):
    pid = "C15"
    props_module = "TcheranVerif.Props.C15"
    gen_modules = ("EvalParams",)
    seed_offset = 15
    rule = ("same op-sequence streams as C02 (promotions, e.p., castling, nested null moves); at every state the three "
            "accumulators must equal their recomputation from the board; distinct = distinct op sequences")

    def oracle_states(self, req, ops, istates, sstates):
        for k, i in enumerate(istates):
            where = f"after op {k} ({ops[k - 1] if k else 'start'}) of {req[:200]}"
            for a, b in (("PH", "PHR"), ("MG", "MGR"), ("EG", "EGR")):
                if i[a] != i[b]:
                    return f"accumulator {a}={i[a]} but recomputation gives {i[b]} {where}"
        return None


class C11(PlayCheck):
    pid = "C11"
    props_module = "TcheranVerif.Props.C11"
    seed_offset = 11
    rule = ("game histories (no null moves) biased to shuffling so that repetitions and high clocks occur, FEN starts "
            "with non-zero clocks, plus sparse-material positions for the dead-material rule; every state compared with "
            "the Rules-side definitions; distinct = distinct histories in which a repetition, a clock >= 100 or <= 4 men occur")

    def streams(self):
        req = os.path.join(self.wd, "draws.req")
        vlib.gen_requests(["draws", self.seed + 11, self.n(1500, 40000), self.corpus_file("positions.fen")], req)
        yield "draws", req

    def oracle_states(self, req, ops, istates, sstates):
        for k, (i, s) in enumerate(zip(istates, sstates)):
            where = f"after op {k} ({ops[k - 1] if k else 'start'}) of {req[:300]}"
            if s["REP"] != "*" and i["REP"] != s["REP"]:
                return f"repetition verdict {i['REP']} but the history says {s['REP']} {where}"
            if i["F50"] != s["F50"]:
                return f"fifty-move verdict {i['F50']} but the rules say {s['F50']} {where}"
            if s["INS"] != "*" and i["INS"] != s["INS"]:
                return f"insufficient-material verdict {i['INS']} but the property demands {s['INS']} {where}"
        return None

    def judge(self, req, impl, model, spec):
        c, o, f, key = super().judge(req, impl, model, spec)
        interesting = (" REP=1" in spec) or (" F50=1" in spec) or (" INS=1" in spec)
        if interesting:
            f = set(f) | {"draw-condition-met"}
        return c, o, f, (key if interesting else None)


# =============================================================================================
# C06
# =============================================================================================
class C06(Check):
    pid = "C06"
    props_module = "TcheranVerif.Props.C06"
    rule = ("write/read round trips of legal positions (corpus, playouts, placements); canonical text re-written; "
            "malformed stream: systematic single-character edits, rank-width corruptions, counter overflows, missing and "
            "extra fields, non-ASCII; distinct = distinct texts; non-trivial = not the start position")

    def streams(self):
        req = os.path.join(self.wd, "fen.req")
        vlib.gen_requests(["fen", self.seed + 6, self.n(1500, 30000), self.corpus_file("positions.fen")], req)
        # hand-kept regression inputs run first
        extra = self.corpus_file("fen_malformed.txt")
        if os.path.exists(extra):
            with open(extra) as f:
                pre = [l.rstrip("\n") for l in f]
            with open(req) as g:
                body = g.read()
            with open(req, "w") as g:
                for line in pre:
                    if line and not line.startswith("#"):
                        g.write("fen\t" + line + "\n")
                g.write(body)
        yield "fen", req

    def judge(self, req, impl, model, spec):
        f = req.split("\t")
        text = "\t".join(f[1:])
        kind = f[0]
        corr = None if impl == model else f"reader/writer differs from the model on {text!r}: impl {impl[:160]} model {model[:160]}"
        feats = [kind]
        oracle = None
        if kind == "fen":
            if impl in ("panic", "crash"):
                oracle = f"FEN reader crashes on {text!r}"
            elif impl.startswith("ok "):
                feats.append("accepted")
                d = kv(impl[3:].split(" W=")[0])
                # every accepted board field must describe 8 squares per rank
                board = text.strip().split(" ")[0].split("\t")[0]
                widths = []
                for rank in board.split("/"):
                    widths.append(sum(int(c) if c.isdigit() else 1 for c in rank))
                if widths != [8] * 8:
                    oracle = f"accepted a board field with rank widths {widths}: {text!r}"
                elif spec not in ("-", "") and spec.startswith("ok "):
                    # spec = the position the text denotes (for canonical texts of legal positions)
                    sd = kv(spec[3:])
                    for key in ("B", "P", "R", "E", "H", "L"):
                        if d.get(key) != sd.get(key):
                            oracle = f"read back {key}={d.get(key)} but wrote {sd.get(key)}: {text!r}"
                            break
                    if not oracle and d["Z"] != d["ZR"]:
                        oracle = f"key after reading differs from recomputation: {text!r}"
                    if not oracle and "canon=1" in spec:
                        w = impl.split(" W=")[1] if " W=" in impl else ""
                        if w != text:
                            oracle = f"canonical text not reproduced: read {text!r} wrote {w!r}"
            elif impl == "err":
                feats.append("rejected")
                if spec.startswith("ok "):
                    oracle = f"canonical FEN of a legal position rejected: {text!r}"
        elif kind == "fenwrite":
            # spec = canonical text by the rules-side writer
            if impl in ("panic", "crash"):
                oracle = f"FEN writer crashes on {text!r}"
            elif impl != spec:
                oracle = f"wrote {impl!r} for position {spec!r}"
        return corr, oracle, feats, (text if text != "rnbqkbnr/pppppppp/8/8/8/8/PPPPPPPP/RNBQKBNR w KQkq - 0 1" else None)



# =============================================================================================
# C19
# =============================================================================================
TT_TOK = re.compile(r"(\S+?)\[occ=(\d+),gen=(\d+),hf=(\d+)\]")


class C19(Check):
    pid = "C19"
    props_module = "TcheranVerif.Props.C19"
    rule = ("operation sequences insert/probe/new-search/reset/resize on tables of 0..3 MB (thorough: up to 1024 MB), "
            "keys forced to collide on a few slots (slot + k*n) plus wild 64-bit keys, ages current and stale, runs of "
            "300 new-search steps; every insert is followed by a probe of the same key so that admission is observable; "
            "distinct = distinct sequences; non-trivial = contains a slot collision or a stale age")

    def streams(self):
        req = os.path.join(self.wd, "tt.req")
        vlib.gen_requests(["tt", self.seed, self.n(400, 6000), "1" if self.tier == "thorough" else "0"], req)
        yield "tt", req

    @staticmethod
    def norm(ans):
        return re.sub(r",hf=\d+\]", "]", ans)

    def judge(self, req, impl, model, spec):
        f = req.split("\t")
        mb = int(f[1])
        ops = f[2].split() if len(f) > 2 else []
        corr = None
        if self.norm(impl) != self.norm(model):
            corr = "table behaviour differs from the model"
        else:
            for a, b in zip(TT_TOK.findall(impl), TT_TOK.findall(model)):
                if abs(int(a[3]) - int(b[3])) > 1:
                    corr = f"fill indicator {a[3]} vs exact {b[3]}"
        feats = set()
        if impl in ("panic", "crash"):
            return corr, f"transposition table crashes: {req[:300]}", feats, req
        toks = TT_TOK.findall(impl)
        if len(toks) != len(ops):
            return corr or "token count", None, feats, req
        # property oracle, independent of the model
        n = mb * 1024 * 1024 // 16
        slots = {}      # slot -> (key, data tuple, age)
        gen = 0
        occ = 0
        last_insert = None
        oracle = None
        for op, (res, o_occ, o_gen, o_hf) in zip(ops, toks):
            p = op.split(":")
            o_occ, o_gen, o_hf = int(o_occ), int(o_gen), int(o_hf)
            if p[0] == "i":
                key = int(p[1], 16)
                age = gen if p[5] == "g" else int(p[5])
                if age != gen:
                    feats.add("stale-age")
                data = (p[2], p[3], p[4], str(age), "-" if p[6] == "-" else f"{p[6]}:{p[7]}")
                last_insert = (key, data)
            elif p[0] == "g":
                key = int(p[1], 16)
                slot = key % n if n else None
                known = slots.get(slot) if n else None
                if last_insert and last_insert[0] == key and n:
                    # admission becomes observable here
                    ikey, idata = last_insert
                    stored = res == "hit:" + ":".join(idata)
                    if known is None:
                        if not stored:
                            oracle = f"insert into an empty slot was not stored ({op})"
                        occ += 1
                    else:
                        feats.add("collision")
                        kkey, kdata = known
                        if kdata[3] != idata[3] and not stored:
                            oracle = f"entry from an earlier search did not give way ({op})"
                        elif kdata[3] == idata[3] and kdata[0] == "E" and idata[0] != "E" and int(idata[2]) <= int(kdata[2]) and stored:
                            oracle = f"an exact entry was displaced by a shallower non-exact one of the same search ({op})"
                    if stored:
                        slots[slot] = (ikey, idata)
                    known = slots.get(slot)
                last_insert = None
                if oracle:
                    break
                if res.startswith("hit:"):
                    if not n or known is None or known[0] != key:
                        oracle = f"probe {op} returned data although nothing is stored under exactly that key"
                    elif res != "hit:" + ":".join(known[1]):
                        oracle = f"probe {op} returned {res}, latest admitted entry is {known[1]}"
                elif known is not None and known[0] == key:
                    oracle = f"probe {op} missed although {known[1]} is stored under that key"
            elif p[0] == "n":
                gen = (gen + 1) % 256
                feats.add("new-search")
            elif p[0] == "r":
                slots, gen, occ = {}, 0, 0
                feats.add("reset")
            elif p[0] == "z":
                if int(p[1]) != mb:
                    mb = int(p[1])
                    n = mb * 1024 * 1024 // 16
                    slots, gen, occ = {}, 0, 0
                feats.add("resize")
            if oracle:
                break
            if p[0] != "i":   # after an insert the count is only known once admission was observed
                if o_gen != gen:
                    oracle = f"search counter is {o_gen}, expected {gen} after {op}"
                elif o_occ != occ:
                    oracle = f"occupied counter is {o_occ} but {occ} slots are occupied after {op}"
                elif n and abs(o_hf - (1000 * occ // n)) > 1:
                    oracle = f"fill indicator {o_hf} but {occ}/{n} slots are occupied"
                elif not n and o_hf != 0:
                    oracle = f"fill indicator {o_hf} on an empty table"
        if oracle:
            oracle += f" in {req[:200]}"
        key = req if ("collision" in feats or "stale-age" in feats) else None
        return corr, oracle, feats | {f"mb={f[1]}"}, key


# =============================================================================================
# C14
# =============================================================================================
class C14(Check):
    pid = "C14"
    props_module = "TcheranVerif.Props.C14"
    gen_modules = ("SearchParams",)
    rule = ("dense grid over (remaining, increment, moves-to-go, overhead, side) incl. 0 ms, sub-200 ms and day-long clocks, "
            "fixed move times, only-opponent-clock cases, plus random tuples; limits read through hook H2; distinct = "
            "distinct tuples; non-trivial = a clock is present for the side to move")
    assumptions = ["f32 rounding inside Duration::mul_f32 is bounded by relative 2^-23 per operation (model is exact; "
                   "comparison allows 1e-6 relative + 100 ns)",
                   "second sentence of C14 (returns before the flag falls) is wall-clock behaviour: sampled on the real "
                   "binary in the thorough tier, not proved"]

    def streams(self):
        req = os.path.join(self.wd, "limits.req")
        vlib.gen_requests(["limits", self.seed, self.n(3000, 200000)], req)
        yield "limits", req

    def judge(self, req, impl, model, spec):
        f = req.split("\t")
        side = f[1]
        mine = f[2] if side == "w" else f[3]
        mtg, movetime, oh = f[6], f[7], int(f[8])
        feats = set()
        if impl in ("panic", "crash"):
            return ("model does not panic" if model != "panic" else None), f"time allocation crashes on {req!r}", feats, req
        di, dm = kv(impl), kv(model)
        si, hi = int(di["soft"]), int(di["hard"])
        corr = None
        if model == "panic":
            corr = "model panics, implementation does not"
        else:
            for k in ("soft", "hard"):
                a, b = int(di[k]), int(dm[k])
                if abs(a - b) > 1e-6 * max(a, b) + 100:
                    corr = f"{k} limit {a} ns vs model {b} ns on {req!r}"
        oracle = None
        clocks = f[2] != "-" or f[3] != "-"
        key = None
        if clocks:
            if mine == "-":
                feats.add("own-clock-missing")
                if hi != 0 or si != 0:
                    oracle = f"limits {si}/{hi} although the side to move has no clock: {req!r}"
            else:
                rem = int(mine) * 1_000_000
                ohn = oh * 1_000_000
                feats.add("clock")
                key = req
                if si > hi:
                    oracle = f"soft limit {si} exceeds hard limit {hi}: {req!r}"
                elif 2 * ohn <= rem and (mtg == "-" or int(mtg) >= 1):
                    bound = (rem - ohn) / 2
                    if hi > bound * (1 + 1e-6) + 100:
                        oracle = f"hard limit {hi} ns exceeds half of the remaining time after overhead ({bound:.0f} ns): {req!r}"
                else:
                    feats.add("outside-precondition")
        elif movetime != "-":
            feats.add("movetime")
            mt = int(movetime) * 1_000_000
            if si != mt or hi != mt:
                oracle = f"fixed move time {mt} ns not used as given ({si}/{hi}): {req!r}"
        return corr, oracle, feats, key


# =============================================================================================
# C16
# =============================================================================================
class C16(Check):
    pid = "C16"
    props_module = "TcheranVerif.Props.C16"
    gen_modules = ("EvalParams",)
    rule = ("positions (corpus, playouts, placements, and 'heavy' ones with up to nine queens a side) each paired with its "
            "colour-mirrored twin; blend: grid + random (mg, eg, phase) with phase up to far beyond 24; distinct = distinct "
            "requests; non-trivial = position is not colour-symmetric to itself / phase not in {0, 24}")

    def streams(self):
        req = os.path.join(self.wd, "eval.req")
        vlib.gen_requests(["eval", self.seed, self.n(3000, 120000), self.corpus_file("positions.fen")], req)
        yield "eval", req

    def judge(self, req, impl, model, spec):
        f = req.split("\t")
        corr = None if impl == model else f"evaluation differs from the model on {req!r}: impl {impl} model {model}"
        feats = {f[0]}
        oracle = None
        key = None
        if impl in ("panic", "crash"):
            return corr, f"evaluation crashes (overflow) on {req!r}", feats, req
        if f[0] == "evalpair":
            d = kv(impl)
            a, b = int(d["a"]), int(d["b"])
            if a != b:
                oracle = f"evaluation {a} but colour-mirrored twin evaluates to {b}: {f[1]}"
            elif not (-31900 < a < 31900):
                oracle = f"evaluation {a} is outside the non-mate score range: {f[1]}"
            if f[1] != f[2]:
                key = f[1]
        else:
            mg, eg, ph = int(f[1]), int(f[2]), int(f[3])
            v = int(impl.split(" ")[0])
            if not (min(mg, eg) <= v <= max(mg, eg)):
                oracle = f"blend of mg={mg} eg={eg} at phase {ph} is {v}, outside [{min(mg, eg)}, {max(mg, eg)}]"
            if ph > 24:
                feats.add("phase>24")
            if ph not in (0, 24):
                key = req
        return corr, oracle, feats, key


# =============================================================================================
# C20
# =============================================================================================
class C20(Check):
    pid = "C20"
    props_module = "TcheranVerif.Props.C20"
    gen_modules = ("SearchParams",)
    rule = ("all non-e.p. captures of positions from the corpus (incl. the repo's own SEE test positions), playouts, "
            "placements and like-piece templates, each with its colour-mirrored twin; distinct = distinct (position, capture); "
            "non-trivial = target defended")

    def streams(self):
        req = os.path.join(self.wd, "see.req")
        vlib.gen_requests(["see", self.seed, self.n(1500, 60000), self.corpus_file("positions.fen")], req)
        yield "see", req

    def judge(self, req, impl, model, spec):
        f = req.split("\t")
        corr = None if impl == model else f"SEE differs from the model in {f[1]}"
        feats = set()
        if impl in ("panic", "crash"):
            return corr, f"SEE crashes in {f[1]}", feats, None
        items = dict(x.split("=") for x in impl.split()) if impl else {}
        sp = dict(x.split("=") for x in spec.split()) if spec not in ("-", "") else {}
        oracle = None
        if corr is None and model != impl:
            corr = "differs"
        for mv, v in items.items():
            a, b = v.split("/")
            self.distinct.add((f[1], mv)) if False else None
            if a != b and not oracle:
                oracle = f"SEE verdict for {mv} is {a} but {b} for the colour-mirrored position: {f[1]}"
            s = sp.get(mv)
            if not s or s == "?":
                continue
            sv, tie, undef, vga = s.split(":")
            if undef == "1":
                feats.add("undefended")
                if a != "1" and not oracle:
                    oracle = f"capture {mv} of an undefended man judged unfavourable: {f[1]}"
            else:
                feats.add("defended")
                self.distinct.add((f[1], mv))
            if vga == "1" and a != "1" and not oracle:
                oracle = f"capture {mv} of a man worth at least the capturer judged unfavourable: {f[1]}"
            if tie == "0":
                feats.add("tie-free")
                if a != sv and not oracle:
                    oracle = f"SEE verdict {a} for {mv} but the swap list gives {sv} (no tie among attackers): {f[1]}"
            else:
                feats.add("tie")
        if set(items) != set(sp) and sp and not oracle:
            corr = corr or "capture list differs from the rules"
        return corr, oracle, feats, None


# =============================================================================================
# C18
# =============================================================================================
class C18(Check):
    pid = "C18"
    props_module = "TcheranVerif.Props.C18"
    rule = ("every legal move of positions from the corpus, playouts, placements, e.p./castling/promotion templates and "
            "like-piece constellations (2-5 knights/rooks/queens/bishops of one colour); SAN written, compared with the "
            "FIDE specification, checked injective within the position and read back; distinct = distinct (position, move); "
            "non-trivial = move needs disambiguation, is a capture, promotion, castling or gives check")

    def streams(self):
        req = os.path.join(self.wd, "san.req")
        vlib.gen_requests(["san", self.seed, self.n(1500, 60000), self.corpus_file("positions.fen")], req)
        yield "san", req

    def judge(self, req, impl, model, spec):
        f = req.split("\t")
        fen = f[1]
        corr = None if impl == model else f"SAN differs from the model in {fen}"
        feats = set()
        if impl in ("panic", "crash"):
            return corr, f"SAN crashes in {fen}", feats, None
        items = [x.split("=", 1) for x in impl.split()] if impl else []
        sp = dict(x.split("=", 1) for x in spec.split()) if spec not in ("-", "") else {}
        oracle = None
        seen = {}
        for mv, rest in items:
            text, back = rest.rsplit("=", 1) if rest.count("=") >= 1 else (rest, "")
            want = sp.get(mv)
            nontrivial = False
            if want is not None:
                if "x" in want or "=" in want or "O-O" in want or "+" in want:
                    nontrivial = True
                body = want.rstrip("+")
                if len(body) >= 4 and body[0] in "NBRQ" and not body.startswith("O"):
                    core = body.replace("x", "")
                    if len(core) >= 4:
                        feats.add("disambiguated")
                        nontrivial = True
            if nontrivial:
                self.distinct.add((fen, mv))
            if oracle:
                continue
            if text == "panic":
                oracle = f"SAN writer crashes on {mv} in {fen}"
            elif want is not None and text != want:
                oracle = f"SAN of {mv} is {text!r}, standard is {want!r}, in {fen}"
            elif text in seen:
                oracle = f"moves {seen[text]} and {mv} are both written {text!r} in {fen}"
            elif back != mv:
                oracle = f"reading {text!r} back gives {back} instead of {mv} in {fen}"
            seen[text] = mv
        if sp and set(m for m, _ in items) != set(sp) and not oracle:
            corr = corr or "move list differs from the rules"
        return corr, oracle, feats, None


# =============================================================================================
# C10
# =============================================================================================
class C10(Check):
    pid = "C10"
    props_module = "TcheranVerif.Props.C10"
    gen_modules = ("SearchParams",)
    rule = ("positions reached by a real previous move (so a counter move applies), hash move = a legal move or none, "
            "killers / counter move drawn from: legal quiets, legal captures, moves legal only in the parent position, "
            "junk, none, and deliberately equal to each other or to the hash move; history filled through add_bonus_for; "
            "every fourth request uses the captures-only picker; distinct = distinct requests; non-trivial = a remembered "
            "move is present")

    def streams(self):
        req = os.path.join(self.wd, "picker.req")
        vlib.gen_requests(["picker", self.seed, self.n(2500, 100000), self.corpus_file("positions.fen")], req)
        yield "picker", req

    def judge(self, req, impl, model, spec):
        f = req.split("\t")
        corr = None if impl == model else f"picker stream differs from the model (order included): impl {impl[:150]} model {model[:150]}"
        feats = set()
        loud = f[9] == "1"
        feats.add("loud" if loud else "full")
        if f[3] != "-":
            feats.add("hash")
        if f[4] != "-" or f[5] != "-":
            feats.add("killer")
        if f[4] != "-" and f[4] == f[5]:
            feats.add("equal-killers")
        if f[6] != "-":
            feats.add("counter")
        if f[3] != "-" and f[3] in (f[4], f[5], f[6]):
            feats.add("hash=remembered")
        if impl in ("panic", "crash") or impl.startswith("runaway"):
            return corr, f"move picker crashes or does not terminate: {req[:300]}", feats, req
        m = re.match(r"legal=\[(.*?)\] must=\[(.*?)\]", spec)
        if not m:
            return corr or "no spec", None, feats, None
        legal, must = m.group(1).split(), m.group(2).split()
        stream = impl.split()
        oracle = None
        dup = sorted(x for x in set(stream) if stream.count(x) > 1)
        if dup:
            oracle = f"picker yields {dup} more than once"
        elif set(stream) - set(legal):
            oracle = f"picker yields moves that are not legal here: {sorted(set(stream) - set(legal))}"
        elif set(must) - set(stream):
            oracle = f"picker never yields {sorted(set(must) - set(stream))}"
        if oracle:
            oracle += f" for {req[:400]}"
        key = req if (feats - {"loud", "full"}) else None
        return corr, oracle, feats, key


REGISTRY = {c.pid: c for c in [C01, C02, C03, C06, C07, C10, C11, C14, C15, C16, C18, C19, C20]}
