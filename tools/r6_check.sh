#!/bin/sh
# r4_check.sh <Cnn> [check ids...]: run the quick checks against the confirmed sixth-round change (applied to /repo and reverted)
id=$1; shift; tag=${id}f
( flock 9; sh /verif/tools/seedrun.sh /tmp/seed-out/$tag/patch.diff ${@:-$id} ) 9>/tmp/seedrun.lock > /tmp/seed-out/$tag/check.txt 2>&1
cat /tmp/seed-out/$tag/check.txt
