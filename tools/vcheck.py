#!/usr/bin/env python3
"""vcheck.py <property id> [--tier quick|thorough] [--replay file]

Decides one property on /repo's current working tree (see DESIGN.md §2.5): exit 0 if it held on
everything explored, exit 1 with `VIOLATION property=<id> replay=<path>` otherwise."""
import argparse
import os
import sys

sys.path.insert(0, os.path.dirname(os.path.abspath(__file__)))
import checks  # noqa: E402


def main():
    ap = argparse.ArgumentParser()
    ap.add_argument("pid")
    ap.add_argument("--tier", default=os.environ.get("VERIF_TIER", "quick"), choices=["quick", "thorough"])
    ap.add_argument("--replay")
    a = ap.parse_args()
    seed = int(os.environ.get("VERIF_SEED", "1") or 1)
    cls = checks.REGISTRY.get(a.pid)
    if not cls:
        print(f"unknown property {a.pid}", file=sys.stderr)
        return 2
    return cls(a.tier, seed).run(replay=a.replay)


if __name__ == "__main__":
    sys.exit(main())
