#!/bin/sh
# r7_check.sh <Cnn> [check ids...]: run the quick checks against the confirmed seventh-round change (applied to /repo and reverted)
id=$1; shift; tag=${id}g
( flock 9; sh /verif/tools/seedrun.sh /tmp/seed-out/$tag/patch.diff ${@:-$id} ) 9>/tmp/seedrun.lock > /tmp/seed-out/$tag/check.txt 2>&1
cat /tmp/seed-out/$tag/check.txt
