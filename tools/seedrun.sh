#!/bin/sh
# seedrun.sh <patch.diff> <property ids...>: applies a seeded change to /repo, runs the quick checks,
# and always restores /repo afterwards.
patch=$1; shift
git -C /repo apply "$patch" || { echo "patch does not apply"; exit 2; }
for pid in "$@"; do
  echo "=== $pid against $patch"
  python3 /verif/tools/vcheck.py $pid --tier quick 2>&1 | grep -E "VIOLATION|KNOWN|quick:" | cut -c1-700
done
git -C /repo checkout -- .
git -C /repo status --short | head -3
