import TcheranVerif.Model.UciMove
import TcheranVerif.Model.Movegen
import TcheranVerif.Model.Eval
/-!
# The `position` command — model of `UciCommand::Position` in `src/engine/uci/mod.rs`

From the base position, for every move text: generate the legal moves (`game.moves()`, capacity 218),
take the first whose (source, destination, promotion) matches (`expect_matching`, which panics when there
is none) and make it. `none` = the engine panics.
-/
namespace Tcheran
namespace UciMove

def applyText (g : Game) (t : Text) : Option Game := do
  let ms ← generateLegal g
  let m ← ms.find? (fun m => m.src = t.src ∧ m.dst = t.dst ∧ m.promotion = t.promotion)
  Game.makeMove theCfg g m

def positionCmd : Game → List Text → Option Game
  | g, [] => some g
  | g, t :: ts => (applyText g t).bind fun g' => positionCmd g' ts

def keyOf (m : Move) : Text := ⟨m.src, m.dst, m.promotion⟩

end UciMove
end Tcheran
