import TcheranVerif.Model.Magic
/-!
# Board and moves — model of `src/chess/board.rs` and `src/chess/moves.rs`

The three redundant views are modelled separately (by kind, by colour, mailbox) exactly because
property C02 is about their agreement; `setAt`/`removeAt` are transliterated, including that
`set_at` ORs into the bitboards without clearing any previous occupant and that `remove_at` XORs
the kind board.
-/

namespace Tcheran

structure Board where
  pawns : BB
  knights : BB
  bishops : BB
  rooks : BB
  queens : BB
  kings : BB
  white : BB
  black : BB
  squares : Vector (Option Piece) 64
  deriving DecidableEq

namespace Board

def empty : Board :=
  { pawns := 0, knights := 0, bishops := 0, rooks := 0, queens := 0, kings := 0,
    white := 0, black := 0, squares := Vector.replicate 64 none }

def byKind (b : Board) : PieceKind → BB
  | .pawn => b.pawns | .knight => b.knights | .bishop => b.bishops
  | .rook => b.rooks | .queen => b.queens | .king => b.kings

def setKind (b : Board) (k : PieceKind) (v : BB) : Board :=
  match k with
  | .pawn => { b with pawns := v } | .knight => { b with knights := v }
  | .bishop => { b with bishops := v } | .rook => { b with rooks := v }
  | .queen => { b with queens := v } | .king => { b with kings := v }

def occFor (b : Board) : Player → BB
  | .white => b.white
  | .black => b.black

def setOcc (b : Board) (p : Player) (v : BB) : Board :=
  match p with
  | .white => { b with white := v }
  | .black => { b with black := v }

def occupancy (b : Board) : BB := b.white ||| b.black

def piecesOf (b : Board) (k : PieceKind) (p : Player) : BB := b.byKind k &&& b.occFor p

def pawnsOf (b : Board) (p : Player) : BB := b.pawns &&& b.occFor p
def knightsOf (b : Board) (p : Player) : BB := b.knights &&& b.occFor p
def bishopsOf (b : Board) (p : Player) : BB := b.bishops &&& b.occFor p
def rooksOf (b : Board) (p : Player) : BB := b.rooks &&& b.occFor p
def queensOf (b : Board) (p : Player) : BB := b.queens &&& b.occFor p
def kingOf (b : Board) (p : Player) : BB := b.kings &&& b.occFor p
def diagSliders (b : Board) (p : Player) : BB := b.bishopsOf p ||| b.queensOf p
def orthSliders (b : Board) (p : Player) : BB := b.rooksOf p ||| b.queensOf p
def allDiagSliders (b : Board) : BB := b.bishops ||| b.queens
def allOrthSliders (b : Board) : BB := b.rooks ||| b.queens

def pieceAt (b : Board) (s : Sq) : Option Piece := b.squares[s.val]

/-- `Board::remove_at` -/
def removeAt (b : Board) (s : Sq) : Board :=
  match b.pieceAt s with
  | none => b
  | some pc =>
    let b1 := b.setKind pc.kind (b.byKind pc.kind ^^^ bb s)
    let b2 := b1.setOcc pc.player (b1.occFor pc.player &&& ~~~(bb s))
    { b2 with squares := b2.squares.set s.val none }

/-- `Board::set_at` -/
def setAt (b : Board) (s : Sq) (pc : Piece) : Board :=
  let b1 := b.setKind pc.kind (b.byKind pc.kind ||| bb s)
  let b2 := b1.setOcc pc.player (b1.occFor pc.player ||| bb s)
  { b2 with squares := b2.squares.set s.val (some pc) }

/-- `impl TryFrom<[Option<Piece>; 64]> for Board` -/
def ofSquares (sq : Vector (Option Piece) 64) : Board :=
  let collect (k : PieceKind) (p : Player) : BB :=
    (List.finRange 64).foldl (fun acc s => if sq[s.val] = some ⟨k, p⟩ then acc ||| bb s else acc) 0#64
  let wp := collect .pawn .white; let wn := collect .knight .white; let wb := collect .bishop .white
  let wr := collect .rook .white; let wq := collect .queen .white; let wk := collect .king .white
  let bp := collect .pawn .black; let bn := collect .knight .black; let bbi := collect .bishop .black
  let br := collect .rook .black; let bq := collect .queen .black; let bk := collect .king .black
  { pawns := wp ||| bp, knights := wn ||| bn, bishops := wb ||| bbi, rooks := wr ||| br,
    queens := wq ||| bq, kings := wk ||| bk,
    white := wp ||| wn ||| wb ||| wr ||| wq ||| wk,
    black := bp ||| bn ||| bbi ||| br ||| bq ||| bk,
    squares := sq }

end Board

/-- the twelve values of `moves.rs::Flags` with their 4-bit codes -/
inductive MoveFlag
  | quiet | castle | capture | enPassant
  | promoB | promoN | promoR | promoQ
  | capPromoB | capPromoN | capPromoR | capPromoQ
  deriving DecidableEq, Repr, Inhabited

def MoveFlag.code : MoveFlag → Nat
  | .quiet => 0 | .castle => 4 | .capture => 1 | .enPassant => 5
  | .promoB => 2 | .promoN => 10 | .promoR => 6 | .promoQ => 14
  | .capPromoB => 3 | .capPromoN => 11 | .capPromoR => 7 | .capPromoQ => 15

def MoveFlag.all : List MoveFlag :=
  [.quiet, .castle, .capture, .enPassant, .promoB, .promoN, .promoR, .promoQ,
   .capPromoB, .capPromoN, .capPromoR, .capPromoQ]

def MoveFlag.ofCode? (c : Nat) : Option MoveFlag := MoveFlag.all.find? (fun f => f.code == c)

inductive Promo | knight | bishop | rook | queen
  deriving DecidableEq, Repr, Inhabited

def Promo.piece : Promo → PieceKind
  | .knight => .knight | .bishop => .bishop | .rook => .rook | .queen => .queen

def Promo.char : Promo → Char
  | .knight => 'n' | .bishop => 'b' | .rook => 'r' | .queen => 'q'

structure Move where
  src : Sq
  dst : Sq
  flag : MoveFlag
  deriving DecidableEq, Repr, Inhabited

namespace Move

def quiet (s d : Sq) : Move := ⟨s, d, .quiet⟩
def capture (s d : Sq) : Move := ⟨s, d, .capture⟩
def castles (s d : Sq) : Move := ⟨s, d, .castle⟩
def enPassant (s d : Sq) : Move := ⟨s, d, .enPassant⟩
def quietPromotion (s d : Sq) : Promo → Move
  | .bishop => ⟨s, d, .promoB⟩ | .knight => ⟨s, d, .promoN⟩
  | .rook => ⟨s, d, .promoR⟩ | .queen => ⟨s, d, .promoQ⟩
def capturePromotion (s d : Sq) : Promo → Move
  | .bishop => ⟨s, d, .capPromoB⟩ | .knight => ⟨s, d, .capPromoN⟩
  | .rook => ⟨s, d, .capPromoR⟩ | .queen => ⟨s, d, .capPromoQ⟩

/-- the packed `u16` -/
def data (m : Move) : Nat := m.src.val ||| (m.dst.val <<< 6) ||| (m.flag.code <<< 12)

def isCapture (m : Move) : Bool := m.flag.code &&& 1 == 1
def isPromotion (m : Move) : Bool := m.flag.code &&& 2 == 2
def isEnPassant (m : Move) : Bool := m.flag == .enPassant
def isCastling (m : Move) : Bool := m.flag == .castle

def promotion (m : Move) : Option Promo :=
  match m.flag with
  | .promoB | .capPromoB => some .bishop
  | .promoN | .capPromoN => some .knight
  | .promoR | .capPromoR => some .rook
  | .promoQ | .capPromoQ => some .queen
  | _ => none

/-- `impl Debug for Move` (long algebraic) -/
def uci (m : Move) : String :=
  m.src.notation ++ m.dst.notation ++
    (match m.promotion with | some p => String.ofList [p.char] | none => "")

/-- protocol form: long algebraic plus the flag code -/
def text (m : Move) : String := m.uci ++ ":" ++ toString m.flag.code

end Move

end Tcheran
