/-!
# UCI controller — model of the thread protocol in `src/engine/uci/mod.rs` + `util/sync.rs`
(`Uci::execute` for `go` / `stop` / `ucinewgame` / `isready` / `quit`, the search-thread closure,
`LockLatch`, the `Mutex<PersistentState>`), as a finite transition system.

A search thread runs: lock the mutex → search → print `bestmove` → set the latch → release the
mutex (guard dropped at the end of the closure). The main thread can block in two places only:
`stop` (`is_stopped.wait()` when `control` is `Some`) and `ucinewgame` (`persistent_state.lock()`).
At most two search threads are alive at once (one in its tail after `bestmove`, one new); that is
part of the invariant. Import-free; all types are finite enumerations so that the invariant and the
progress property are decided by the kernel over the whole state space.
-/

namespace Tcheran
namespace UciCtl

inductive PC | waitLock | searching | printed | latchSet
  deriving DecidableEq, Repr, Inhabited

structure Thread where
  pc : PC
  infinite : Bool
  stopFlag : Bool
  deriving DecidableEq, Repr, Inhabited

inductive Main | idle | waitLatch | waitMutex | exited
  deriving DecidableEq, Repr, Inhabited

/-- which live thread the `Control` held by the main thread refers to -/
inductive Target | none | dead | t0 | t1
  deriving DecidableEq, Repr, Inhabited

structure State where
  main : Main
  control : Target          -- `none` = `self.control == None`; `dead` = `Some` of a finished thread
  latch : Bool
  t0 : Option Thread
  t1 : Option Thread
  deriving DecidableEq, Repr, Inhabited

def init : State := ⟨.idle, .none, false, none, none⟩

inductive Cmd | isready | ucinewgame | position | setoption | goFinite | goInfinite | stop | quit
  deriving DecidableEq, Repr, Inhabited

inductive Event
  | cmd (c : Cmd)        -- the main thread reads and executes the next command
  | thread (i : Bool)    -- thread 0 / 1 performs its next step
  | mainResume           -- the blocked main thread re-tests what it waits for
  deriving DecidableEq, Repr

def holdsMutex (t : Option Thread) : Bool :=
  match t with
  | some th => th.pc != .waitLock
  | none => false

def mutexFree (s : State) : Bool := !holdsMutex s.t0 && !holdsMutex s.t1

/-- a `bestmove` is outstanding while some thread has not printed yet -/
def outstanding (t : Option Thread) : Bool :=
  match t with
  | some th => th.pc == .waitLock || th.pc == .searching
  | none => false

def anyOutstanding (s : State) : Bool := outstanding s.t0 || outstanding s.t1

/-- the conformance rule of C05: these commands are only sent while no `bestmove` is outstanding -/
def conforming (s : State) : Cmd → Bool
  | .goFinite | .goInfinite | .ucinewgame | .position | .setoption => !anyOutstanding s
  | _ => true

def setStop (t : Option Thread) : Option Thread := t.map fun th => { th with stopFlag := true }

/-- one step of a search thread; `none` = not enabled -/
def threadStep (s : State) (i : Bool) : Option State :=
  let t := if i then s.t1 else s.t0
  let put (s : State) (v : Option Thread) : State := if i then { s with t1 := v } else { s with t0 := v }
  match t with
  | none => none
  | some th =>
    match th.pc with
    | .waitLock => if mutexFree s then some (put s (some { th with pc := .searching })) else none
    | .searching =>
      -- a finite search ends by itself; an infinite one only once its stop flag is set
      if !th.infinite || th.stopFlag then some (put s (some { th with pc := .printed })) else none
    | .printed => some { put s (some { th with pc := .latchSet }) with latch := true }
    | .latchSet =>
      -- the closure returns: guard dropped, thread gone; a control pointing at it now dangles
      let s := put s none
      let me : Target := if i then .t1 else .t0
      some (if s.control = me then { s with control := .dead } else s)

/-- execution of one command by the (idle) main thread; `none` = not enabled -/
def cmdStep (s : State) (c : Cmd) : Option State :=
  if s.main ≠ .idle || !conforming s c then none else
  match c with
  | .isready | .position | .setoption => some s      -- `setoption Hash` uses `try_lock`: never blocks
  | .quit => some { s with main := .exited }
  | .goFinite | .goInfinite =>
    let th : Thread := ⟨.waitLock, c == .goInfinite, false⟩
    match s.t0, s.t1 with
    | none, _ => some { s with t0 := some th, control := .t0 }
    | some _, none => some { s with t1 := some th, control := .t1 }
    | some _, some _ => none     -- excluded by the invariant (never more than one tail thread)
  | .stop =>
    match s.control with
    | .none => some s
    | .dead => if s.latch then some { s with control := .none } else some { s with main := .waitLatch }
    | .t0 =>
      let s := { s with t0 := setStop s.t0 }
      if s.latch then some { s with control := .none } else some { s with main := .waitLatch }
    | .t1 =>
      let s := { s with t1 := setStop s.t1 }
      if s.latch then some { s with control := .none } else some { s with main := .waitLatch }
  | .ucinewgame =>
    -- `is_stopped.reset()`, `control = None` (the `fix:`), then `persistent_state.lock()`
    let s := { s with latch := false, control := .none }
    if mutexFree s then some s else some { s with main := .waitMutex }

def mainResume (s : State) : Option State :=
  match s.main with
  | .waitLatch => if s.latch then some { s with main := .idle, control := .none } else none
  | .waitMutex => if mutexFree s then some { s with main := .idle } else none
  | _ => none

def step (s : State) : Event → Option State
  | .cmd c => cmdStep s c
  | .thread i => threadStep s i
  | .mainResume => mainResume s

/-! ### the invariant and the progress measure -/

def threadOk (t : Option Thread) : Bool :=
  match t with
  | some th => th.pc != .waitLock || true
  | none => true

def live (t : Option Thread) : Bool := t.isSome

/-- remaining steps of a thread that it can take on its own account once it holds what it needs -/
def remaining (t : Option Thread) : Nat :=
  match t with
  | none => 0
  | some th => match th.pc with
    | .waitLock => 4 | .searching => 3 | .printed => 2 | .latchSet => 1

def rank (s : State) : Nat := remaining s.t0 + remaining s.t1

/-- reachable-state invariant -/
def Inv (s : State) : Bool :=
  -- mutual exclusion on the mutex
  !(holdsMutex s.t0 && holdsMutex s.t1) &&
  -- at most one thread has not yet printed
  !(outstanding s.t0 && outstanding s.t1) &&
  -- a control that names a thread names a live one
  (match s.control with
   | .t0 => s.t0.isSome
   | .t1 => s.t1.isSome
   | _ => true) &&
  -- while the main thread waits for the latch, either it is already set or the thread named by the
  -- control is alive and will get there: its search is finite, or stopped, or already over
  (match s.main with
   | .waitLatch =>
     s.latch ||
     (match s.control with
      | .t0 => (s.t0.map fun th => th.stopFlag || !th.infinite || th.pc == .printed || th.pc == .latchSet).getD false
      | .t1 => (s.t1.map fun th => th.stopFlag || !th.infinite || th.pc == .printed || th.pc == .latchSet).getD false
      | _ => false)
   | .waitMutex => !anyOutstanding s
   | _ => true) &&
  -- a dangling control means its thread already set the latch after the last reset; likewise a
  -- control whose thread is past `is_stopped.set()`
  (match s.control with
   | .dead => s.latch
   | .t0 => (s.t0.map fun th => th.pc != .latchSet || s.latch).getD true
   | .t1 => (s.t1.map fun th => th.pc != .latchSet || s.latch).getD true
   | .none => true)

/-! ### enumeration of the (finite) state space -/

def allPC : List PC := [.waitLock, .searching, .printed, .latchSet]
def allBool : List Bool := [false, true]
def allThreads : List (Option Thread) :=
  none :: (allPC.flatMap fun pc => allBool.flatMap fun i => allBool.map fun f => some ⟨pc, i, f⟩)
def allMain : List Main := [.idle, .waitLatch, .waitMutex, .exited]
def allTarget : List Target := [.none, .dead, .t0, .t1]
def allStates : List State :=
  allMain.flatMap fun m => allTarget.flatMap fun c => allBool.flatMap fun l =>
    allThreads.flatMap fun a => allThreads.map fun b => ⟨m, c, l, a, b⟩
def allCmds : List Cmd := [.isready, .ucinewgame, .position, .setoption, .goFinite, .goInfinite, .stop, .quit]
def allEvents : List Event := allCmds.map .cmd ++ [.thread false, .thread true, .mainResume]

/-- the step relation preserves the invariant (checked over every state and event) -/
def invPreserved : Bool :=
  allStates.all fun s => !Inv s || allEvents.all fun e =>
    match step s e with
    | some s' => Inv s'
    | none => true

/-- a thread that can run: enabled thread step -/
def someThreadEnabled (s : State) : Bool := (threadStep s false).isSome || (threadStep s true).isSome

/-- progress: in every invariant state in which the main thread is blocked, either it can resume
    or some thread step is enabled; thread steps strictly decrease `rank` and never disable the
    resumption of the main thread -/
def noDeadlock : Bool :=
  allStates.all fun s => !Inv s ||
    (match s.main with
     | .waitLatch | .waitMutex => (mainResume s).isSome || someThreadEnabled s
     | _ => true)

def threadStepsDecrease : Bool :=
  allStates.all fun s => allBool.all fun i =>
    match threadStep s i with
    | some s' => rank s' < rank s && s'.main == s.main
    | none => true

/-- while nothing is outstanding-forever: a blocked main thread with `rank = 0` can resume -/
def blockedWithNoThreadsResumes : Bool :=
  allStates.all fun s => !Inv s || !(rank s == 0) ||
    (match s.main with
     | .waitLatch | .waitMutex => (mainResume s).isSome
     | _ => true)

/-- `isready` and `quit` are accepted in every invariant state where the main thread is idle -/
def isreadyAlwaysServed : Bool :=
  allStates.all fun s => !Inv s || s.main != .idle ||
    ((cmdStep s .isready).isSome && (cmdStep s .quit).isSome && (cmdStep s .stop).isSome)

/-- every `go` is answered: a thread that has not printed can always move on once its stop flag is
    set or its search is finite, and the mutex it waits for is held only by a thread that can run -/
def goAnswered : Bool :=
  allStates.all fun s => !Inv s || allBool.all fun i =>
    let t := if i then s.t1 else s.t0
    match t with
    | some th =>
      if th.pc == .waitLock then mutexFree s || someThreadEnabled s
      else if th.pc == .searching then (!th.infinite || th.stopFlag) → (threadStep s i).isSome
      else (threadStep s i).isSome
    | none => true

/-! ### bounded exploration used by the driver for the correspondence answer -/

/-- all states reachable by executing the command list in order under every interleaving with thread
    steps; returns (can the run get stuck before consuming all commands?, number of states seen) -/
def explore (cmds : List Cmd) : Bool × Nat := Id.run do
  -- configurations: (remaining commands count, state)
  let total := cmds.length
  let mut frontier : List (Nat × State) := [(0, init)]
  let mut seen : List (Nat × State) := [(0, init)]
  let mut stuck := false
  let mut fuel := 200000
  while !frontier.isEmpty && fuel > 0 do
    fuel := fuel - 1
    match frontier with
    | [] => pure ()
    | (k, s) :: rest =>
      frontier := rest
      let mut succs : List (Nat × State) := []
      if k < total then
        match cmdStep s (cmds.getD k .isready) with
        | some s' => succs := (k + 1, s') :: succs
        | none => pure ()
      for i in allBool do
        match threadStep s i with
        | some s' => succs := (k, s') :: succs
        | none => pure ()
      match mainResume s with
      | some s' => succs := (k, s') :: succs
      | none => pure ()
      -- stuck: commands remain (or main blocked) and nothing at all is enabled, and main has not exited
      if succs.isEmpty && s.main != .exited && (k < total || s.main != .idle) then
        -- an unstopped infinite search with all commands consumed is not a hang of the engine
        stuck := true
      for c in succs do
        if !seen.contains c then
          seen := c :: seen
          frontier := c :: frontier
  return (stuck, seen.length)

end UciCtl
end Tcheran
