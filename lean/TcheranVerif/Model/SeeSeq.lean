import TcheranVerif.Model.See
/-!
# The exchange as a sequence of capturers (C20) — executable definitions

`loopAbs` / `swapAbs`: the engine's one-score loop and the classical swap list, both over a given sequence of
capturer values.  `trace` / `capturers`: the sequence the model's own loop (`See.loop`) would use if nobody stopped
early.  `seq`: the sequence the independent mailbox computation (`See.swap`) uses.  Theorems: `Proofs/SeeSwap`.
-/

namespace Tcheran
namespace See

/-- the loop of `see` over a given sequence of capturer values (`opp`: the opponent of the mover is to capture) -/
def loopAbs : List Int → Bool → Int → Int → Int
  | [], _, s, _ => s
  | v :: rest, opp, s, victim =>
    if (opp = false ∧ s ≥ 0) ∨ (opp = true ∧ s ≤ 0) then s
    else loopAbs rest (!opp) (if opp then s - victim else s + victim) v

/-- the swap list folded from the back: value, for the side to capture next, of the man on the square (`onT`)
    when the remaining capturers are `vs`; standing pat is always allowed -/
def swapAbs : List Int → Int → Int
  | [], _ => 0
  | v :: rest, onT => max 0 (onT - swapAbs rest v)

/-- every man that is actually captured is worth an odd multiple of 100 -/
def Good : List Int → Int → Prop
  | [], _ => True
  | v :: rest, onT => onT % 200 = 100 ∧ Good rest v

/-- the successive capturers of the model's loop when nobody stops early (the state is advanced exactly as in
    `loop`, score included) -/
def trace (b : Board) (mover : Player) (to : Sq) : Nat → St → List Int
  | 0, _ => []
  | fuel+1, st =>
    let color := st.color.other
    let mine := st.attackers &&& b.occFor color
    if mine = 0#64 then [] else
    match PieceKind.all.find? (fun k => (mine &&& b.piecesOf k color) ≠ 0#64) with
    | none => []
    | some k =>
      match pickSquare color (mine &&& b.piecesOf k color) with
      | none => []
      | some asq =>
        match b.pieceAt asq with
        | none => []
        | some apc =>
          let attacker := apc.kind
          if attacker = .king ∧ (st.attackers &&& b.occFor color.other) ≠ 0#64 then [] else
          let occupied := st.occupied ^^^ bb asq
          let attackers := st.attackers &&& occupied
          let diag := st.diag &&& occupied
          let orth := st.orth &&& occupied
          let attackers :=
            if attacker = .pawn ∨ attacker = .bishop ∨ attacker = .queen then
              attackers ||| (bishopAttacks to occupied &&& diag) else attackers
          let attackers :=
            if attacker = .rook ∨ attacker = .queen then
              attackers ||| (rookAttacks to occupied &&& orth) else attackers
          let score := if color = mover then st.score + pieceValue st.victim else st.score - pieceValue st.victim
          pieceValue attacker :: trace b mover to fuel { score, victim := attacker, occupied, attackers, diag, orth, color }

/-- the occupancy after the first capture (`none`: an e.p. move without an e.p. square — `unwrap` panics) -/
def occAfter (g : Game) (mv : Move) : Option BB :=
  let occupied := (g.board.occupancy ^^^ bb mv.src) ||| bb mv.dst
  if mv.isEnPassant then g.ep.map (fun e => occupied ^^^ bb e) else some occupied

/-- what the mover has won by the first capture: the man taken plus the promotion surplus -/
def gain (g : Game) (mv : Move) : Int :=
  (match g.board.pieceAt mv.dst with
    | some pc => pieceValue pc.kind
    | none => if mv.isEnPassant then pieceValue .pawn else 0) +
  (match mv.promotion with
    | some pr => pieceValue pr.piece - pieceValue .pawn
    | none => 0)

/-- the man that stands on the target square after the first capture -/
def placed (moved : Piece) (mv : Move) : PieceKind :=
  match mv.promotion with
  | some pr => pr.piece
  | none => moved.kind

/-- the loop's first state -/
def initSt (g : Game) (mv : Move) (moved : Piece) (occupied : BB) : St :=
  { score := gain g mv, victim := placed moved mv, occupied,
    attackers := allAttackersOf g.board mv.dst occupied &&& occupied,
    diag := g.board.allDiagSliders &&& occupied, orth := g.board.allOrthSliders &&& occupied, color := g.player }

/-- the capturers that follow the first capture, as the model's loop would choose them -/
def capturers (g : Game) (mv : Move) (moved : Piece) (occupied : BB) : List Int :=
  trace g.board g.player mv.dst 64 (initSt g mv moved occupied)

/-- the least valuable of a list of attackers (first among equals), as `swap` chooses it -/
def pickLeast (atts : List (Sq × PieceKind)) : Option (Sq × PieceKind) :=
  atts.foldl (fun (best : Option (Sq × PieceKind)) a =>
      match best with
      | none => some a
      | some x => if valueOrder a.2 < valueOrder x.2 then some a else best) none

/-- the successive capturers the mailbox computation `swap` uses -/
def seq (t : Sq) : Nat → Rules.RBoard → Player → List Int
  | 0, _, _ => []
  | fuel+1, b, c =>
    match pickLeast (attackersOn b c t) with
    | none => []
    | some (s, k) =>
      if k == .king && !(attackersOn b c.other t).isEmpty then []
      else pieceValue k :: seq t fuel (Rules.setSq (Rules.setSq b s none) t (some ⟨k, c⟩)) c.other

end See
end Tcheran
