import TcheranVerif.Model.Movegen
import TcheranVerif.Model.Rules
/-!
# SAN writer and reader — model of `src/chess/san/{san_writer,san_parser}.rs` (as repaired by the
`fix:` commits for C18), and the FIDE specification of SAN text.

Both are functions of the legal-move list of the position, the kind of man on each square and
whether a move gives check; that is all the Rust code consults.
-/

namespace Tcheran
namespace San

structure Ctx where
  player : Player
  legal : List Move
  kindAt : Sq → Option PieceKind
  givesCheck : Move → Bool

def pieceLetter : PieceKind → String
  | .pawn => "" | .knight => "N" | .bishop => "B" | .rook => "R" | .queen => "Q" | .king => "K"

def promoLetter : Promo → String
  | .knight => "N" | .bishop => "B" | .rook => "R" | .queen => "Q"

def fileStr (s : Sq) : String := String.ofList [fileChar s.file]
def rankStr (s : Sq) : String := String.ofList [rankChar s.rank]

inductive Ambiguity | none | file | rank | exact
  deriving DecidableEq, Repr

/-- `required_ambiguity_resolution` -/
def requiredAmbiguity (c : Ctx) (mv : Move) : Option Ambiguity :=
  match c.kindAt mv.src with
  | none => Option.none   -- `piece_at(from).unwrap()`
  | some k =>
    if k = .pawn ∨ k = .king then some .none else
    let cands := c.legal.filter fun m => m.dst = mv.dst ∧ c.kindAt m.src = some k ∧ m ≠ mv
    if cands.isEmpty then some .none else
    let byFile := cands.any fun m => m.src.file = mv.src.file
    let byRank := cands.any fun m => m.src.rank = mv.src.rank
    some (match byFile, byRank with
      | false, _ => .file
      | true, false => .rank
      | true, true => .exact)

/-- `format_move`; `none` = panic -/
def format (c : Ctx) (mv : Move) : Option String := do
  let k ← c.kindAt mv.src
  let check := if c.givesCheck mv then "+" else ""
  if k = .king ∧ mv.src = Game.kingStart c.player ∧ mv.dst = Game.kingsideCastleDest c.player then
    pure ("O-O" ++ check)
  else if k = .king ∧ mv.src = Game.kingStart c.player ∧ mv.dst = Game.queensideCastleDest c.player then
    pure ("O-O-O" ++ check)
  else
    let amb ← requiredAmbiguity c mv
    let ident := match k with
      | .pawn => if mv.isCapture then fileStr mv.src else ""
      | k => pieceLetter k
    let ambText := match amb with
      | .none => "" | .file => fileStr mv.src | .rank => rankStr mv.src | .exact => mv.src.notation
    let x := if mv.isCapture then "x" else ""
    let promo := match mv.promotion with
      | some p => "=" ++ promoLetter p
      | none => ""
    pure (ident ++ ambText ++ x ++ mv.dst.notation ++ promo ++ check)

/-! ### reader -/

inductive Outcome | ok (m : Move) | err | panic
  deriving DecidableEq, Repr

def parseFile? (ch : Char) : Option Nat := if 'a' ≤ ch ∧ ch ≤ 'h' then some (ch.toNat - 97) else none
def parseRank? (ch : Char) : Option Nat := if '1' ≤ ch ∧ ch ≤ '8' then some (ch.toNat - 49) else none

inductive Resolution | none | file (f : Nat) | rank (r : Nat) | exact (f r : Nat)

def Resolution.satisfied (r : Resolution) (m : Move) : Bool :=
  match r with
  | .none => true
  | .file f => m.src.file == f
  | .rank rk => m.src.rank == rk
  | .exact f rk => m.src.file == f && m.src.rank == rk

/-- `parse_ambiguity_resolution`; `none` = `Err` -/
def parseResolution : List Char → Option Resolution
  | [] => some .none
  | [ch] =>
    match parseFile? ch with
    | some f => some (.file f)
    | none => (parseRank? ch).map .rank
  | [f, r] => do
    let f ← parseFile? f
    let r ← parseRank? r
    pure (.exact f r)
  | _ => Option.none

def parsePiece? : Char → Option PieceKind
  | 'K' => some .king | 'Q' => some .queen | 'R' => some .rook | 'B' => some .bishop
  | 'N' => some .knight | 'P' => some .pawn | _ => none

def dedup (l : List Sq) : List Sq := l.foldl (fun acc s => if acc.contains s then acc else acc ++ [s]) []

inductive SrcResult | ok (s : Sq) | err | panic

/-- `parse_source_square` -/
def parseSource (c : Ctx) (src : List Char) (dst : Sq) : SrcResult :=
  let kinded := c.legal.filterMap fun m => (c.kindAt m.src).map fun k => (k, m)
  if kinded.length ≠ c.legal.length then .panic else   -- `piece_at(..).unwrap()`
  let unique (l : List Sq) : SrcResult := match l with
    | [s] => .ok s
    | _ => .panic    -- `assert_eq!(len, 1)`
  match src with
  | [] =>
    unique (dedup ((kinded.filter fun (k, m) => k = .pawn ∧ m.dst = dst).map (·.2.src)))
  | first :: rest =>
    match parsePiece? first with
    | some pk =>
      match parseResolution rest with
      | none => .err
      | some res =>
        unique ((kinded.filter fun (k, m) => k = pk ∧ m.dst = dst ∧ res.satisfied m).map (·.2.src))
    | none =>
      match parseResolution src with
      | none => .err
      | some res =>
        unique (dedup ((kinded.filter fun (k, m) => k = .pawn ∧ m.dst = dst ∧ res.satisfied m).map (·.2.src)))

/-- `MoveListExt::expect_matching` (panics when nothing matches) -/
def expectMatching (c : Ctx) (src dst : Sq) (promo : Option Promo) : Outcome :=
  match c.legal.find? (fun m => m.src = src ∧ m.dst = dst ∧ m.promotion = promo) with
  | some m => .ok m
  | none => .panic

def dropSuffixChars (l : List Char) (ch : Char) : List Char := (l.reverse.dropWhile (· == ch)).reverse

def splitOnce (l : List Char) (ch : Char) : Option (List Char × List Char) :=
  if l.contains ch then some (l.takeWhile (· != ch), (l.dropWhile (· != ch)).drop 1) else none

/-- `parse_destination_square` (`assert_eq!(sq.len(), 2)` on the *byte* length) -/
def parseDest (l : List Char) : Option (Option Sq) :=
  if (String.ofList l).utf8ByteSize ≠ 2 then none   -- panic
  else match l with
    | [f, r] => some (do
        let f ← parseFile? f
        let r ← parseRank? r
        Sq.mk? f r)
    | _ => some none

/-- the `=X` promotion suffix: `none` = `Err` (unknown promotion letter) -/
def promoSplit (l : List Char) : Option (List Char × Option Promo) :=
  match splitOnce l '=' with
  | some (rest, p) =>
    match p with
    | ['Q'] => some (rest, some .queen)
    | ['R'] => some (rest, some .rook)
    | ['N'] => some (rest, some .knight)
    | ['B'] => some (rest, some .bishop)
    | _ => none
  | none => some (l, none)

/-- source part and destination part: at the `x`, else before the last two characters; `none` = panic
    (`split_at(len - 2)` underflow) -/
def splitSrcDst (body : List Char) : Option (List Char × List Char) :=
  match splitOnce body 'x' with
  | some (s, d) => some (s, d)
  | none => if body.length < 2 then none else some (body.take (body.length - 2), body.drop (body.length - 2))

/-- everything after the castling test and the promotion split -/
def parseBody (c : Ctx) (body : List Char) (promo : Option Promo) : Outcome :=
  match splitSrcDst body with
  | none => .panic
  | some (srcT, dstT) =>
    match parseDest dstT with
    | none => .panic
    | some none => .err
    | some (some dst) =>
      match parseSource c srcT dst with
      | .panic => .panic
      | .err => .err
      | .ok src => expectMatching c src dst promo

/-- `parse_move` (after the `fix:` that trims the check suffix before testing for castling) -/
def parse (c : Ctx) (text : String) : Outcome :=
  let l := dropSuffixChars (dropSuffixChars text.toList '+') '#'
  if l = "O-O".toList then
    expectMatching c (Game.kingStart c.player) (Game.kingsideCastleDest c.player) none
  else if l = "O-O-O".toList then
    expectMatching c (Game.kingStart c.player) (Game.queensideCastleDest c.player) none
  else
    match promoSplit l with
    | none => .err
    | some (body, promo) => parseBody c body promo

/-! ### specification (FIDE Handbook C.2–C.13; suffix `+` for check and for mate) -/

def spec (p : Rules.Pos) (mv : Move) : String :=
  let legal := Rules.legalMoves p
  let kind := (Rules.at' p.board mv.src).map (·.kind)
  let after := Rules.apply p mv
  let suffix := if Rules.inCheck after.board after.player then "+" else ""
  if mv.isCastling then
    (if mv.dst.file = 6 then "O-O" else "O-O-O") ++ suffix
  else
    let capture := (Rules.at' p.board mv.dst).isSome || mv.isEnPassant
    let dst := mv.dst.notation
    let promo := match mv.promotion with
      | some pr => "=" ++ promoLetter pr
      | none => ""
    match kind with
    | some .pawn => (if capture then fileStr mv.src ++ "x" else "") ++ dst ++ promo ++ suffix
    | some k =>
      let others := legal.filter fun m =>
        m.dst = mv.dst ∧ m.src ≠ mv.src ∧ (Rules.at' p.board m.src).map (·.kind) = some k
      let dis :=
        if others.isEmpty then ""
        else if others.all (fun m => m.src.file ≠ mv.src.file) then fileStr mv.src
        else if others.all (fun m => m.src.rank ≠ mv.src.rank) then rankStr mv.src
        else mv.src.notation
      pieceLetter k ++ dis ++ (if capture then "x" else "") ++ dst ++ suffix
    | none => "?"

end San
end Tcheran
