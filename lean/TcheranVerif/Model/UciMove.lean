import TcheranVerif.Model.Board
/-!
# Long-algebraic move text — model of `uci_move` / `uci_moves` in `src/engine/uci/parser.rs` and of
`UciMove::notation` in `src/engine/uci/move.rs`
-/

namespace Tcheran
namespace UciMove

structure Text where
  src : Sq
  dst : Sq
  promotion : Option Promo
  deriving DecidableEq, Repr

def promoOfChar? : Char → Option Promo
  | 'n' => some .knight | 'b' => some .bishop | 'r' => some .rook | 'q' => some .queen | _ => none

/-- `uci_square` -/
def parseSquare : List Char → Option (Sq × List Char)
  | f :: r :: rest => (Sq.ofNotation? f r).map (·, rest)
  | _ => none

/-- `uci_move`: two squares and an optional promotion letter -/
def parseMove (inp : List Char) : Option (Text × List Char) := do
  let (src, r1) ← parseSquare inp
  let (dst, r2) ← parseSquare r1
  match r2 with
  | c :: r3 =>
    match promoOfChar? c with
    | some p => pure (⟨src, dst, some p⟩, r3)
    | none => pure (⟨src, dst, none⟩, r2)
  | [] => pure (⟨src, dst, none⟩, [])

def isSpace (c : Char) : Bool := c == ' ' || c == '\t'

/-- `separated_list1(space1, uci_move)`; returns the moves and the unconsumed rest -/
def parseMoves : Nat → List Char → Option (List Text × List Char)
  | 0, _ => none
  | fuel+1, inp =>
    match parseMove inp with
    | none => none
    | some (m, rest) =>
      match rest with
      | c :: _ =>
        if isSpace c then
          match parseMoves fuel (rest.dropWhile isSpace) with
          | some (ms, r) => some (m :: ms, r)
          | none => some ([m], rest)     -- separator consumed only if another move follows
        else some ([m], rest)
      | [] => some ([m], [])

/-- `UciMove::notation` -/
def text (t : Text) : List Char :=
  [fileChar t.src.file, rankChar t.src.rank, fileChar t.dst.file, rankChar t.dst.rank] ++
    (match t.promotion with | some p => [p.char] | none => [])

def allPromos : List (Option Promo) := [none, some .knight, some .bishop, some .rook, some .queen]

end UciMove
end Tcheran
