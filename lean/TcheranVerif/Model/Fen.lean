import TcheranVerif.Model.Game
/-!
# FEN codec — model of `src/chess/fen/{fen_parser,fen_writer}.rs`

The reader mirrors the `nom` grammar over `List Char`: `many1(alt(piece, digit))` per rank, seven
`/`, `space1`-separated fields, optional clock and move number (`opt(preceded(space1, u32))`, so a
number that overflows `u32` makes the `opt` yield `None` and the trailing `space0 eof` fail),
`terminated(.., (space0, eof))`. Outcomes: `ok g`, `err` (a reported `Invalid FEN`), `panic`.
-/

namespace Tcheran
namespace Fen

inductive Outcome (α : Type) | ok (a : α) | err | panic
  deriving Repr

def pieceOfChar? : Char → Option Piece
  | 'R' => some ⟨.rook, .white⟩ | 'N' => some ⟨.knight, .white⟩ | 'B' => some ⟨.bishop, .white⟩
  | 'Q' => some ⟨.queen, .white⟩ | 'K' => some ⟨.king, .white⟩ | 'P' => some ⟨.pawn, .white⟩
  | 'r' => some ⟨.rook, .black⟩ | 'n' => some ⟨.knight, .black⟩ | 'b' => some ⟨.bishop, .black⟩
  | 'q' => some ⟨.queen, .black⟩ | 'k' => some ⟨.king, .black⟩ | 'p' => some ⟨.pawn, .black⟩
  | _ => none

def charOfPiece : Piece → Char
  | ⟨.rook, .white⟩ => 'R' | ⟨.knight, .white⟩ => 'N' | ⟨.bishop, .white⟩ => 'B'
  | ⟨.queen, .white⟩ => 'Q' | ⟨.king, .white⟩ => 'K' | ⟨.pawn, .white⟩ => 'P'
  | ⟨.rook, .black⟩ => 'r' | ⟨.knight, .black⟩ => 'n' | ⟨.bishop, .black⟩ => 'b'
  | ⟨.queen, .black⟩ => 'q' | ⟨.king, .black⟩ => 'k' | ⟨.pawn, .black⟩ => 'p'

/-- `one_of("12345678")` -/
def emptyCount? (c : Char) : Option Nat :=
  if '1' ≤ c ∧ c ≤ '8' then some (c.toNat - 48) else none

/-- `fen_line` without the width check: `many1(alt((piece, empties)))`, squares concatenated.
    Returns the squares and the rest of the input; `none` if not even one item matched. -/
def lineItems : List Char → List (Option Piece) × List Char
  | [] => ([], [])
  | c :: cs =>
    match pieceOfChar? c with
    | some p => let (sq, rest) := lineItems cs; (some p :: sq, rest)
    | none =>
      match emptyCount? c with
      | some n => let (sq, rest) := lineItems cs; (List.replicate n none ++ sq, rest)
      | none => ([], c :: cs)

/-- `fen_line` as repaired (`fix:` rank width): exactly eight squares or a `nom` error -/
def fenLine (inp : List Char) : Option (List (Option Piece) × List Char) :=
  match inp with
  | [] => none
  | c :: _ =>
    if (pieceOfChar? c).isNone ∧ (emptyCount? c).isNone then none
    else
      let (sq, rest) := lineItems inp
      if sq.length ≠ 8 then none else some (sq, rest)

/-- `fen_position`: eight lines separated by `/`, listed from rank 8 down to rank 1 -/
def fenPosition (inp : List Char) : Option (List (List (Option Piece)) × List Char) := do
  let (l8, r) ← fenLine inp
  let rec more : Nat → List Char → List (List (Option Piece)) → Option (List (List (Option Piece)) × List Char)
    | 0, r, acc => some (acc, r)
    | n+1, r, acc =>
      match r with
      | '/' :: r' => do
        let (l, r'') ← fenLine r'
        more n r'' (l :: acc)
      | _ => none
  -- `acc` ends up as [rank1, rank2, …, rank8]
  more 7 r [l8]

def isSpace (c : Char) : Bool := c == ' ' || c == '\t'

/-- `space1` -/
def space1 (inp : List Char) : Option (List Char) :=
  match inp with
  | c :: _ => if isSpace c then some (inp.dropWhile isSpace) else none
  | [] => none

def space0 (inp : List Char) : List Char := inp.dropWhile isSpace

def fenColor : List Char → Option (Player × List Char)
  | 'w' :: r => some (.white, r)
  | 'b' :: r => some (.black, r)
  | _ => none

def isCastleChar (c : Char) : Bool := c == 'K' || c == 'Q' || c == 'k' || c == 'q'

/-- `fen_castling`: `-`, or `many1(one_of("KQkq"))` read as a set -/
def fenCastling : List Char → Option (Rights × List Char)
  | '-' :: r => some (Rights.none, r)
  | inp =>
    let cs := inp.takeWhile isCastleChar
    if cs.isEmpty then none
    else some (⟨⟨cs.contains 'K', cs.contains 'Q'⟩, ⟨cs.contains 'k', cs.contains 'q'⟩⟩, inp.dropWhile isCastleChar)

def fenEp : List Char → Option (Option Sq × List Char)
  | '-' :: r => some (none, r)
  | f :: rk :: r =>
    match Sq.ofNotation? f rk with
    | some s => some (some s, r)
    | none => none
  | _ => none

/-- `nom::character::complete::u32`: at least one ASCII digit; overflow is an error -/
def natU32 (inp : List Char) : Option (Nat × List Char) :=
  let ds := inp.takeWhile Char.isDigit
  if ds.isEmpty then none
  else
    let v := ds.foldl (fun acc c => acc * 10 + (c.toNat - 48)) 0
    if v ≥ 4294967296 then none else some (v, inp.dropWhile Char.isDigit)

/-- `opt(preceded(space1, u32))` -/
def optNumber (inp : List Char) : Option Nat × List Char :=
  match space1 inp with
  | none => (none, inp)
  | some r =>
    match natU32 r with
    | some (v, r') => (some v, r')
    | none => (none, inp)

def u32Max : Nat := 4294967295

/-- `plies_from_fullmove_number` as repaired (`fix:` saturating arithmetic) -/
def pliesFromFullmove (fm : Nat) (p : Player) : Nat :=
  min u32Max (min u32Max ((fm - 1) * 2) + (if p = .black then 1 else 0))

/-- squares of the eight ranks (rank 1 first) as the mailbox, `none` unless exactly 64 -/
def toVector (ranks : List (List (Option Piece))) : Option (Vector (Option Piece) 64) :=
  let flat := ranks.flatten
  if h : flat.length = 64 then some ⟨flat.toArray, by simpa using h⟩ else none

structure Fields where
  squares : Vector (Option Piece) 64
  player : Player
  rights : Rights
  ep : Option Sq
  halfmove : Nat
  plies : Nat

/-- `fen_parser` up to (not including) `Game::from_state` -/
def parseFields (inp : List Char) : Outcome Fields :=
  match fenPosition inp with
  | none => .err
  | some (ranks, r) =>
    match toVector ranks with
    | none => .panic   -- `assert_eq!(all_pieces.len(), 64)`; unreachable after the rank-width fix
    | some sq =>
      match space1 r >>= fenColor with
      | none => .err
      | some (player, r) =>
        match space1 r >>= fenCastling with
        | none => .err
        | some (rights, r) =>
          match space1 r >>= fenEp with
          | none => .err
          | some (ep, r) =>
            let (hm, r) := optNumber r
            let (fm, r) := optNumber r
            if space0 r ≠ [] then .err
            else
              .ok { squares := sq, player, rights, ep, halfmove := hm.getD 0,
                    plies := pliesFromFullmove (fm.getD 1) player }

/-- men of one colour on a mailbox -/
def menOf (sq : Vector (Option Piece) 64) (pl : Player) : Nat :=
  ((List.finRange 64).filter fun (s : Fin 64) => (sq[s.val]).any (fun pc => pc.player == pl)).length

/-- more than sixteen men of one colour: not a position; the reader reports it as an error (after the `fix:` —
    before it such a board overflowed the evaluation accumulators built by `Game::from_state`) -/
def tooManyMen (sq : Vector (Option Piece) 64) : Bool := menOf sq .white > 16 || menOf sq .black > 16

/-- `fen::parse` -/
def parse (c : Cfg) (s : String) : Outcome Game :=
  match parseFields s.toList with
  | .ok f =>
    if tooManyMen f.squares then .err
    else .ok (Game.fromState c (Board.ofSquares f.squares) f.player f.rights f.ep f.halfmove f.plies)
  | .err => .err
  | .panic => .panic

/-- `format_rank`: run-length encoding of empties -/
def formatRank (rank : List (Option Piece)) : List Char :=
  let (acc, n) := rank.foldl (fun (st : List Char × Nat) sq =>
    match sq with
    | some p => (st.1 ++ (if st.2 > 0 then (toString st.2).toList else []) ++ [charOfPiece p], 0)
    | none => (st.1, st.2 + 1)) ([], 0)
  acc ++ (if n > 0 then (toString n).toList else [])

def rankSquares (sq : Vector (Option Piece) 64) (r : Fin 8) : List (Option Piece) :=
  (List.finRange 8).map fun f => sq[r.val * 8 + f.val]'(by omega)

def formatBoard (sq : Vector (Option Piece) 64) : List Char :=
  let ranks := (List.finRange 8).reverse.map fun r => formatRank (rankSquares sq r)
  List.intercalate ['/'] ranks

def formatCastling (r : Rights) : List Char :=
  if !r.white.kingSide && !r.white.queenSide && !r.black.kingSide && !r.black.queenSide then ['-']
  else (if r.white.kingSide then ['K'] else []) ++ (if r.white.queenSide then ['Q'] else []) ++
       (if r.black.kingSide then ['k'] else []) ++ (if r.black.queenSide then ['q'] else [])

def formatEp : Option Sq → List Char
  | some s => s.notation.toList
  | none => ['-']

/-- `fen::write` given the observable fields -/
def writeFields (sq : Vector (Option Piece) 64) (p : Player) (r : Rights) (ep : Option Sq)
    (halfmove plies : Nat) : String :=
  String.ofList (formatBoard sq ++ [' '] ++ [if p = .white then 'w' else 'b'] ++ [' '] ++
    formatCastling r ++ [' '] ++ formatEp ep ++ [' '] ++ (toString halfmove).toList ++ [' '] ++
    (toString (plies / 2 + 1)).toList)

def write (g : Game) : String :=
  writeFields g.board.squares g.player g.rights g.ep g.halfmove g.plies

end Fen
end Tcheran
