import TcheranVerif.Model.Board
/-!
# Game state, make / unmake — model of `src/chess/game.rs`, `src/chess/zobrist.rs` and the
incremental part of `src/engine/eval/mod.rs`.

The Zobrist words and the piece-square contributions are *parameters* (`Cfg`): the history
theorems (C03, C15) hold for any table; the concrete tables are regenerated into `Gen/*`.
A Rust panic (`unwrap` on `None`, the `assert!` in `undo_null_move`, `u8`/`u32` underflow in
`Square::backward`) is the outcome `none`.
-/

namespace Tcheran

structure CastleRights where
  kingSide : Bool
  queenSide : Bool
  deriving DecidableEq, Repr, Inhabited

structure Rights where
  white : CastleRights
  black : CastleRights
  deriving DecidableEq, Repr, Inhabited

def Rights.forP (r : Rights) : Player → CastleRights
  | .white => r.white
  | .black => r.black

def Rights.none : Rights := ⟨⟨false, false⟩, ⟨false, false⟩⟩

inductive Side | king | queen
  deriving DecidableEq, Repr

/-- model parameters: Zobrist words and evaluation contributions -/
structure Cfg where
  zPiece : Player → PieceKind → Sq → BB
  zCastle : Player → Side → BB
  zEp : Sq → BB
  zNoEp : BB
  zSide : BB
  /-- `piece_square_tables::piece_contributions` as the packed `i32` (`eg * 65536 + mg`) -/
  pst : Player → PieceKind → Sq → Int
  /-- `phased_eval::piece_phase_value_contribution` -/
  phase : PieceKind → Int

def Cfg.zEpOpt (c : Cfg) : Option Sq → BB
  | some s => c.zEp s
  | none => c.zNoEp

/-- `IncrementalEvalFields` -/
structure Inc where
  phase : Int
  pst : Int
  deriving DecidableEq, Repr, Inhabited

structure History where
  mv : Option Move
  captured : Option Piece
  rights : Rights
  ep : Option Sq
  halfmove : Nat
  zobrist : BB
  inc : Inc
  deriving DecidableEq

structure Game where
  player : Player
  board : Board
  rights : Rights
  ep : Option Sq
  halfmove : Nat
  plies : Nat
  zobrist : BB
  inc : Inc
  history : List History
  deriving DecidableEq

namespace Game

def kingStart : Player → Sq
  | .white => E1
  | .black => E8
def kingsideRookStart : Player → Sq
  | .white => H1
  | .black => H8
def queensideRookStart : Player → Sq
  | .white => A1
  | .black => A8
def kingsideCastleDest : Player → Sq
  | .white => G1
  | .black => G8
def queensideCastleDest : Player → Sq
  | .white => C1
  | .black => C8
def kingsideRookEnd : Player → Sq
  | .white => F1
  | .black => F8
def queensideRookEnd : Player → Sq
  | .white => D1
  | .black => D8

/-- `squares::castle_squares` -/
def castleSquares (p : Player) (kingTo : Sq) : Option (Sq × Sq) :=
  if kingTo = kingsideCastleDest p then some (kingsideRookStart p, kingsideRookEnd p)
  else if kingTo = queensideCastleDest p then some (queensideRookStart p, queensideRookEnd p)
  else none

def pawnBackRank : Player → BB
  | .white => BB.rank2
  | .black => BB.rank7
def pawnDoublePushRank : Player → BB
  | .white => BB.rank4
  | .black => BB.rank5
def backRank : Player → BB
  | .white => BB.rank1
  | .black => BB.rank8

/-- `IncrementalEvalFields::init` (`phase_value(board)`, `piece_square_tables::eval(board)`) -/
def incInit (c : Cfg) (b : Board) : Inc :=
  (List.finRange 64).foldl (fun acc s =>
    match b.pieceAt s with
    | some pc => { phase := acc.phase + c.phase pc.kind, pst := acc.pst + c.pst pc.player pc.kind s }
    | none => acc) ⟨0, 0⟩

/-- `zobrist::hash` -/
def hash (c : Cfg) (b : Board) (player : Player) (r : Rights) (ep : Option Sq) : BB :=
  let pieces (h : BB) (p : Player) (k : PieceKind) : BB :=
    (BB.toList (b.piecesOf k p)).foldl (fun h s => h ^^^ c.zPiece p k s) h
  let h := PieceKind.all.foldl (fun h k => pieces h .white k) 0#64
  let h := PieceKind.all.foldl (fun h k => pieces h .black k) h
  let h := if r.white.kingSide then h ^^^ c.zCastle .white .king else h
  let h := if r.white.queenSide then h ^^^ c.zCastle .white .queen else h
  let h := if r.black.kingSide then h ^^^ c.zCastle .black .king else h
  let h := if r.black.queenSide then h ^^^ c.zCastle .black .queen else h
  let h := h ^^^ c.zEpOpt ep
  if player = .black then h ^^^ c.zSide else h

/-- `Game::from_state` -/
def fromState (c : Cfg) (b : Board) (player : Player) (r : Rights) (ep : Option Sq)
    (halfmove plies : Nat) : Game :=
  { player, board := b, rights := r, ep, halfmove, plies,
    zobrist := hash c b player r ep, inc := incInit c b, history := [] }

/-- `Game::set_at` (board + key + accumulators) -/
def setAt (c : Cfg) (g : Game) (s : Sq) (pc : Piece) : Game :=
  { g with board := g.board.setAt s pc,
           zobrist := g.zobrist ^^^ c.zPiece pc.player pc.kind s,
           inc := { phase := g.inc.phase + c.phase pc.kind,
                    pst := g.inc.pst + c.pst pc.player pc.kind s } }

/-- `Game::remove_at` (`piece_at(sq).unwrap()` ⇒ `none` when the square is empty) -/
def removeAt (c : Cfg) (g : Game) (s : Sq) : Option (Game × Piece) :=
  match g.board.pieceAt s with
  | none => none
  | some pc =>
    some ({ g with board := g.board.removeAt s,
                   zobrist := g.zobrist ^^^ c.zPiece pc.player pc.kind s,
                   inc := { phase := g.inc.phase - c.phase pc.kind,
                            pst := g.inc.pst - c.pst pc.player pc.kind s } }, pc)

def Rights.remove (r : Rights) (p : Player) (side : Side) : Rights :=
  match p, side with
  | .white, .king => { r with white := { r.white with kingSide := false } }
  | .white, .queen => { r with white := { r.white with queenSide := false } }
  | .black, .king => { r with black := { r.black with kingSide := false } }
  | .black, .queen => { r with black := { r.black with queenSide := false } }

def Rights.has (r : Rights) (p : Player) (side : Side) : Bool :=
  match side with
  | .king => (r.forP p).kingSide
  | .queen => (r.forP p).queenSide

/-- `Game::try_remove_castle_rights` -/
def tryRemoveRights (c : Cfg) (g : Game) (p : Player) (side : Side) : Game :=
  if !(Rights.has g.rights p side) then g
  else { g with rights := Rights.remove g.rights p side, zobrist := g.zobrist ^^^ c.zCastle p side }

/-- the man that lands on the destination square: the promoted piece or the mover itself -/
def placedPiece (mv : Move) (player : Player) (moved : Piece) : Piece :=
  match mv.promotion with
  | some pr => ⟨pr.piece, player⟩
  | none => moved

/-- `make_move`, part 1: history entry, lift the mover, remove a captured man, put the mover (or the
    promoted piece) down, remove the pawn taken en passant. Returns the moved and captured men. -/
def mmPieces (c : Cfg) (g : Game) (mv : Move) : Option (Game × Piece × Option Piece) := do
  let captured := g.board.pieceAt mv.dst
  let hist : History :=
    { mv := some mv, captured, rights := g.rights, ep := g.ep, halfmove := g.halfmove,
      zobrist := g.zobrist, inc := g.inc }
  let g := { g with history := hist :: g.history }
  let (g, moved) ← removeAt c g mv.src
  let g ← (if captured.isSome then (removeAt c g mv.dst).map (·.1) else some g)
  let g := setAt c g mv.dst (placedPiece mv g.player moved)
  let g ← (if mv.isEnPassant then do
              let capSq ← mv.dst.backward g.player
              (removeAt c g capSq).map (·.1)
            else some g)
  pure (g, moved, captured)

/-- `make_move`, part 2: the new en-passant target (only with an enemy pawn beside the pushed pawn) -/
def mmNewEp (g : Game) (mv : Move) (moved : Piece) : Option (Option Sq) :=
  let player := g.player
  if moved.kind = .pawn ∧ mem (pawnBackRank player) mv.src ∧ mem (pawnDoublePushRank player) mv.dst then
    let toBB := bb mv.dst
    let attackers := BB.west toBB ||| BB.east toBB
    if (attackers &&& g.board.pawnsOf player.other) ≠ 0#64 then (mv.src.forward player).map some else some none
  else some none

def mmSetEp (c : Cfg) (g : Game) (newEp : Option Sq) : Game :=
  { g with zobrist := g.zobrist ^^^ c.zEpOpt g.ep ^^^ c.zEpOpt newEp, ep := newEp }

/-- `make_move`, part 3: the castling rook -/
def mmCastle (c : Cfg) (g : Game) (mv : Move) : Option Game :=
  if mv.isCastling then
    match castleSquares g.player mv.dst with
    | some (rf, rt) => do
      let (g, rook) ← removeAt c g rf
      some (setAt c g rt rook)
    | none => some g
  else some g

/-- `make_move`, part 4: castling rights lost by the mover and by a captured rook -/
def mmRights (c : Cfg) (g : Game) (mv : Move) (moved : Piece) (captured : Option Piece) : Game :=
  let player := g.player
  let other := player.other
  let g :=
    if moved.kind = .king ∧ mv.src = kingStart player then
      tryRemoveRights c (tryRemoveRights c g player .king) player .queen
    else if moved.kind = .rook then
      if mv.src = kingsideRookStart player then tryRemoveRights c g player .king
      else if mv.src = queensideRookStart player then tryRemoveRights c g player .queen
      else g
    else g
  if captured.isSome then
    if mv.dst = kingsideRookStart other then tryRemoveRights c g other .king
    else if mv.dst = queensideRookStart other then tryRemoveRights c g other .queen
    else g
  else g

/-- `make_move`, part 5: clocks and side to move -/
def mmFinish (c : Cfg) (g : Game) (moved : Piece) (captured : Option Piece) : Game :=
  let halfmove := if captured.isSome ∨ moved.kind = .pawn then 0 else g.halfmove + 1
  { g with halfmove, plies := g.plies + 1, player := g.player.other, zobrist := g.zobrist ^^^ c.zSide }

/-- `Game::make_move` -/
def makeMove (c : Cfg) (g : Game) (mv : Move) : Option Game := do
  let (g, moved, captured) ← mmPieces c g mv
  let newEp ← mmNewEp g mv moved
  let g := mmSetEp c g newEp
  let g ← mmCastle c g mv
  let g := mmRights c g mv moved captured
  some (mmFinish c g moved captured)

/-- `Game::make_null_move` -/
def makeNull (c : Cfg) (g : Game) : Game :=
  let hist : History :=
    { mv := none, captured := none, rights := g.rights, ep := g.ep, halfmove := g.halfmove,
      zobrist := g.zobrist, inc := g.inc }
  { g with history := hist :: g.history,
           zobrist := g.zobrist ^^^ c.zEpOpt g.ep ^^^ c.zEpOpt none ^^^ c.zSide,
           ep := none, plies := g.plies + 1, player := g.player.other }

/-- `Game::undo_move` (board edits are on `Board` directly: key and accumulators are restored
    from the history entry) -/
def undoMove (g : Game) : Option Game := do
  let (h, rest) ← (match g.history with | [] => none | h :: rest => some (h, rest))
  let mv ← h.mv
  let src := mv.src
  let dst := mv.dst
  let player := g.player.other
  let other := g.player
  if g.plies = 0 then none
  let b := g.board
  let b := if mv.isCastling then
      match castleSquares player dst with
      | some (rf, rt) => (b.removeAt rt).setAt rf ⟨.rook, player⟩
      | none => b
    else b
  let b ← (if mv.isEnPassant then do
              let capSq ← dst.backward player
              some (b.setAt capSq ⟨.pawn, other⟩)
            else some b)
  let moved ← b.pieceAt dst
  let b := b.removeAt dst
  let b := match h.captured with
    | some cp => b.setAt dst cp
    | none => b
  let b := if mv.promotion.isSome then b.setAt src ⟨.pawn, player⟩ else b.setAt src moved
  some { g with history := rest, plies := g.plies - 1, player, zobrist := h.zobrist,
                halfmove := h.halfmove, rights := h.rights, ep := h.ep, inc := h.inc, board := b }

/-- `Game::undo_null_move` (does not restore castling rights; a null move never changes them) -/
def undoNull (g : Game) : Option Game := do
  let (h, rest) ← (match g.history with | [] => none | h :: rest => some (h, rest))
  if h.mv.isSome then none
  if g.plies = 0 then none
  some { g with history := rest, plies := g.plies - 1, player := g.player.other, zobrist := h.zobrist,
                ep := h.ep, halfmove := h.halfmove, inc := h.inc }

end Game
end Tcheran
