import TcheranVerif.Gen.SearchParams
/-!
# Time allocation — model of `TimeStrategy::new` in `src/engine/search/time_control.rs`

Durations are natural numbers of nanoseconds. `Duration::mul_f32` goes through `f32` in the Rust;
the model multiplies exactly (floor to the nanosecond), so model and implementation may differ by
the `f32` rounding (relative 2⁻²³ per operation); the correspondence compares within that ε and the
theorems are about the exact model (DESIGN §5 C14).
-/

namespace Tcheran
namespace Time

structure Clocks where
  wtime : Option Nat
  btime : Option Nat
  winc : Option Nat
  binc : Option Nat
  movestogo : Option Nat

inductive Control
  | infinite
  | exact (ns : Nat)
  | clocks (c : Clocks)

def mulFrac (ns : Nat) (f : Nat × Nat) : Nat := ns * f.1 / f.2

/-- `(soft_stop, hard_stop)`; `none` = panic (`Duration / 0`) -/
def limits (whiteToMove : Bool) (tc : Control) (overheadMs : Nat) : Option (Nat × Nat) :=
  let overhead := overheadMs * 1000000
  match tc with
  | .infinite => some (0, 0)
  | .exact t => some (t, t)
  | .clocks c =>
    let remaining := (if whiteToMove then c.wtime else c.btime).getD 0
    let increment := (if whiteToMove then c.winc else c.binc).getD 0
    let remaining := max (remaining - overhead) overhead
    let maxPerMove := mulFrac remaining Gen.p_max_time_per_move
    let base? : Option Nat := match c.movestogo with
      | some 0 => none
      | some m => some (remaining / m)
      | none => some (mulFrac remaining Gen.p_base_time_per_move)
    match base? with
    | none => none
    | some base =>
      let base := base + mulFrac increment Gen.p_increment_to_use
      some (min (mulFrac base Gen.p_soft_time_multiplier) maxPerMove,
            min (mulFrac base Gen.p_hard_time_multiplier) maxPerMove)

end Time
end Tcheran
