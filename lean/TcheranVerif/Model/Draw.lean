import TcheranVerif.Model.Movegen
import TcheranVerif.Model.Rules
/-!
# Draw detection — model of `Game::{is_repeated_position, is_stalemate_by_fifty_move_rule,
is_stalemate_by_insufficient_material}` and the `Rules`-side definitions they are compared with.
-/

namespace Tcheran

namespace Game

/-- `history.iter().rev().take(halfmove_clock).any(|h| h.zobrist == self.zobrist)`;
    the model's history list has the most recent entry first -/
def isRepeated (g : Game) : Bool :=
  (g.history.take g.halfmove).any (fun h => h.zobrist == g.zobrist)

/-- `none` = panic inside move generation -/
def isFifty (g : Game) : Option Bool :=
  if g.halfmove ≥ 100 then (generateLegal g).map (fun ms => !ms.isEmpty) else some false

def isInsufficient (g : Game) : Bool :=
  let b := g.board
  let n := BB.count b.occupancy
  if n == 2 then true
  else if n == 3 then (b.knights ||| b.bishops) != 0#64
  else if n == 4 then
    let playerPieces := b.occFor g.player
    let oneEach := BB.count playerPieces == 2
    let nk := BB.count b.knights
    let nb := BB.count b.bishops
    let kingInCorner := (b.kings &&& BB.corners) != 0#64
    let kingOnEdge := (b.kings &&& BB.edges) != 0#64
    (nk == 2 && !kingOnEdge)
      || (nb == 2 && (BB.count (b.bishops &&& BB.lightSquares) != 1 || (oneEach && !kingInCorner)))
      || (nk == 1 && nb == 1 && oneEach && !kingInCorner)
  else false

end Game

namespace Rules

/-- the part of a position that identifies it for repetition -/
def samePosition (a b : Pos) : Bool :=
  a.board == b.board && a.player == b.player && a.rights == b.rights && a.ep == b.ep

/-- `earlier` = the positions before the current one, most recent first (game moves only).
    Repeated iff one of the positions since the last capture or pawn move equals the current one. -/
def isRepeated (cur : Pos) (earlier : List Pos) : Bool :=
  (earlier.take cur.halfmove).any (samePosition cur)

def isFifty (cur : Pos) : Bool := cur.halfmove ≥ 100 && !(legalMoves cur).isEmpty

/-- what C11 demands of the material rule: `some true` / `some false` where it speaks, `none`
    where it leaves the verdict open (exactly two minor pieces and nothing else) -/
def insufficientDemand (cur : Pos) : Option Bool :=
  let b := cur.board
  let heavy := count b (fun pc => pc.kind == .pawn || pc.kind == .rook || pc.kind == .queen)
  let minors := count b (fun pc => pc.kind == .knight || pc.kind == .bishop)
  if heavy > 0 || minors > 2 then some false
  else if minors ≤ 1 then some true
  else none

end Rules
end Tcheran
