import TcheranVerif.Model.Rules
/-!
# First-principles geometry — the specification side of C07

Coordinates only: a square is `(file, rank)`, a ray is walked square by square, leapers are
coordinate offsets, "between" is defined by alignment. No shifts, masks, magics or tables.
-/

namespace Tcheran
namespace Geometry

def setOf (l : List Sq) : BB := l.foldl (fun a t => a ||| bb t) 0#64

/-- squares seen along one ray: up to and including the first occupied square -/
def seen (occ : Sq → Bool) : List Sq → List Sq
  | [] => []
  | t :: ts => if occ t then [t] else t :: seen occ ts

def slideSpec (dirs : List Dir) (s : Sq) (occ : BB) : BB :=
  setOf (dirs.flatMap fun d => seen (mem occ) (Rules.ray d s))

def rookSpec (s : Sq) (occ : BB) : BB := slideSpec Dir.cardinal s occ
def bishopSpec (s : Sq) (occ : BB) : BB := slideSpec Dir.diagonal s occ

def knightSpec (s : Sq) : BB := setOf (Rules.knightDeltas.filterMap fun d => Rules.offset s d.1 d.2)
def kingSpec (s : Sq) : BB := setOf (Rules.kingDeltas.filterMap fun d => Rules.offset s d.1 d.2)
def pawnSpec (s : Sq) (p : Player) : BB :=
  setOf (([-1, 1] : List Int).filterMap fun df => Rules.offset s df (Rules.fwd p))

def absDiff (a b : Nat) : Nat := if a ≤ b then b - a else a - b

/-- `t` lies strictly between `a` and `b` on a common rank, file or diagonal -/
def isBetween (a b t : Sq) : Bool :=
  let aligned := a.rank = b.rank ∨ a.file = b.file ∨ absDiff a.file b.file = absDiff a.rank b.rank
  let onLine :=
    (a.rank = b.rank ∧ t.rank = a.rank) ∨ (a.file = b.file ∧ t.file = a.file) ∨
    (absDiff a.file b.file = absDiff a.rank b.rank ∧ absDiff a.file t.file = absDiff a.rank t.rank
      ∧ absDiff b.file t.file = absDiff b.rank t.rank)
  let strictly :=
    (min a.file b.file ≤ t.file ∧ t.file ≤ max a.file b.file) ∧
    (min a.rank b.rank ≤ t.rank ∧ t.rank ≤ max a.rank b.rank) ∧ t ≠ a ∧ t ≠ b
  a ≠ b && decide aligned && decide onLine && decide strictly

def betweenSpec (a b : Sq) : BB := setOf ((List.finRange 64).filter (isBetween a b))

end Geometry
end Tcheran
