import TcheranVerif.Model.Bits
/-!
# Attack generation — model of `src/chess/movegen/tables/{attacks,between,king,knights,pawns}.rs`
and the mask / subset / index part of `magics.rs` (the constants come from `Gen/Magics.lean`).
-/

namespace Tcheran
open BB

/-- `generate_pawn_attacks` -/
def genPawnAttacks (s : Sq) (p : Player) : BB :=
  let sq := bb s
  west (forward p sq) ||| east (forward p sq)

/-- `generate_knight_attacks` (clockwise from 12) -/
def genKnightAttacks (s : Sq) : BB :=
  let sq := bb s
  northEast (north sq) ||| northEast (east sq) ||| southEast (east sq) ||| southEast (south sq) |||
  southWest (south sq) ||| southWest (west sq) ||| northWest (west sq) ||| northWest (north sq)

/-- `generate_king_attacks` -/
def genKingAttacks (s : Sq) : BB :=
  Dir.all.foldl (fun acc d => acc ||| inDir d (bb s)) 0#64

/-- one direction of the `while` loop in `generate_sliding_attacks`; `fuel` bounds the iterations
    (8 suffices: after at most 7 shifts the bit has left the board) -/
def walk (d : Dir) (occ : BB) : Nat → BB → BB → BB
  | 0, _, acc => acc
  | fuel+1, cur, acc =>
    if cur = 0#64 then acc else
    let c := inDir d cur
    let acc := acc ||| c
    if occ &&& c ≠ 0#64 then acc else walk d occ fuel c acc

/-- `generate_sliding_attacks` -/
def slide (dirs : List Dir) (s : Sq) (occ : BB) : BB :=
  dirs.foldl (fun acc d => walk d occ 8 (bb s) acc) 0#64

def genRookAttacks (s : Sq) (occ : BB) : BB := slide Dir.cardinal s occ
def genBishopAttacks (s : Sq) (occ : BB) : BB := slide Dir.diagonal s occ

/-- the three `while current != end` loops of `generate_squares_between` -/
def betweenLoop (d : Dir) (stop : BB) : Nat → BB → BB → BB
  | 0, _, acc => acc
  | fuel+1, cur, acc => if cur = stop then acc else betweenLoop d stop fuel (inDir d cur) (acc ||| cur)

/-- `generate_squares_between(..).unwrap_or(EMPTY)`; `min_by_key`/`max_by_key` return the first
    argument on ties for `min` and the second for `max`, irrelevant here because ties are excluded
    by the preceding tests. The loop fuel is 8; a loop that would not terminate in Rust (it cannot,
    see `Proofs/Between`) would show up as a correspondence failure. -/
def genBetween (s1 s2 : Sq) : BB :=
  if s1 = s2 then 0#64
  else if s1.rank = s2.rank then
    let lo := if s2.file < s1.file then s2 else s1
    let hi := if s2.file < s1.file then s1 else s2
    betweenLoop .E (bb hi) 8 (east (bb lo)) 0#64
  else if s1.file = s2.file then
    let lo := if s2.rank < s1.rank then s2 else s1
    let hi := if s2.rank < s1.rank then s1 else s2
    betweenLoop .N (bb hi) 8 (north (bb lo)) 0#64
  else if (if s1.file ≤ s2.file then s2.file - s1.file else s1.file - s2.file)
        = (if s1.rank ≤ s2.rank then s2.rank - s1.rank else s1.rank - s2.rank) then
    let start := if s2.file < s1.file then s2 else s1
    let stop := if s2.file < s1.file then s1 else s2
    let d := if start.rank < stop.rank then Dir.NE else Dir.SE
    betweenLoop d (bb stop) 8 (inDir d (bb start)) 0#64
  else 0#64

/-- `generate_sliding_occupancies`: relevant-blocker mask -/
def maskLoop (d : Dir) (endMask : BB) : Nat → BB → BB → BB
  | 0, _, acc => acc
  | fuel+1, sq, acc =>
    if sq = 0#64 then acc else
    let sq' := inDir d sq &&& ~~~endMask
    maskLoop d endMask fuel sq' (acc ||| sq')

def slidingMask (dirs : List Dir) (s : Sq) : BB :=
  let e0 : BB := 0#64
  let e1 := if !(mem aFile s) then e0 ||| aFile else e0
  let e2 := if !(mem hFile s) then e1 ||| hFile else e1
  let e3 := if !(mem rank1 s) then e2 ||| rank1 else e2
  let e4 := if !(mem rank8 s) then e3 ||| rank8 else e3
  dirs.foldl (fun acc d => maskLoop d e4 8 (bb s) acc) 0#64

def rookMask (s : Sq) : BB := slidingMask Dir.cardinal s
def bishopMask (s : Sq) : BB := slidingMask Dir.diagonal s

/-- `SubsetsOf` (carry-rippler); yields in the iterator's order, the empty set last -/
def subsetsLoop (mask : BB) : Nat → BB → List BB
  | 0, _ => []
  | fuel+1, state =>
    let state' := (state - mask) &&& mask
    if state' = 0#64 then [state'] else state' :: subsetsLoop mask fuel state'

def subsetsOf (mask : BB) : List BB := subsetsLoop mask 4096 0#64

/-- `table_index_{rook,bishop}`: `index + (((blockers | not_mask) * magic) >> (64 - shift))` -/
def tableIndex (magic : BB) (offset : Nat) (shift : Nat) (mask : BB) (blockers : BB) : Nat :=
  offset + (((blockers ||| ~~~mask) * magic) >>> (64 - shift)).toNat

end Tcheran
