import TcheranVerif.Model.Attacks
/-!
# Coordinates, rays and leaper offsets of the rules specification

Kept apart from `Model/Rules.lean` (and free of any regenerated constant) so that the finite geometric
facts decided by the kernel in `Proofs/Geo*.lean` are not re-proved when a `Gen/*` file changes.
-/

namespace Tcheran
namespace Rules

def offset (s : Sq) (df dr : Int) : Option Sq := Sq.mk? (s.file + df) (s.rank + dr)

/-- squares from `s` in direction `d`, nearest first, `s` excluded -/
def ray (d : Dir) (s : Sq) : List Sq :=
  let rec go : Nat → Sq → List Sq
    | 0, _ => []
    | n+1, c => match c.step d with
      | none => []
      | some t => t :: go n t
  go 7 s

def knightDeltas : List (Int × Int) :=
  [(1, 2), (2, 1), (2, -1), (1, -2), (-1, -2), (-2, -1), (-2, 1), (-1, 2)]

def kingDeltas : List (Int × Int) := Dir.all.map Dir.delta

def fwd : Player → Int
  | .white => 1
  | .black => -1

def promoRank : Player → Nat
  | .white => 7
  | .black => 0

def startRank : Player → Nat
  | .white => 1
  | .black => 6

/-- direction of a pawn push -/
def fdir : Player → Dir
  | .white => .N
  | .black => .S

/-- the rank a side's pawns start from, as a bitboard (`Game.pawnBackRank`) -/
def pawnHome : Player → BB
  | .white => BB.rank2
  | .black => BB.rank7

/-- the rank a double step ends on, as a bitboard (`Game.pawnDoublePushRank`) -/
def pawnDouble : Player → BB
  | .white => BB.rank4
  | .black => BB.rank5

/-- squares strictly between `k` and `q` when `q` lies on a ray from `k` (nearest to `k` first);
empty when `q` is not aligned with `k` -/
def betweenList (k q : Sq) : List Sq :=
  Dir.all.flatMap fun dir => if q ∈ ray dir k then (ray dir k).takeWhile (fun x => x != q) else []

end Rules
end Tcheran
