import TcheranVerif.Model.Movegen
import TcheranVerif.Model.Rules
import TcheranVerif.Gen.SearchParams
/-!
# Static exchange evaluation — model of `src/engine/see.rs` (exact, including the choice of the
least-significant square among equally valued attackers, colour-relative after the `fix:`),
and an independent swap-list specification.
-/

namespace Tcheran
namespace See

/-- `see::piece_value` (regenerated constants) -/
def pieceValue (k : PieceKind) : Int := Gen.seeValues.getD k.idx 0

/-- choice among equally valued attackers: least significant bit for White; for Black the least
    significant bit of the vertically flipped board (after `fix:` see tie-break) -/
def pickSquare (color : Player) (b : BB) : Option Sq :=
  match color with
  | .white => BB.lsbSq? b
  | .black => (BB.lsbSq? (BB.flipV b)).map Sq.flip

structure St where
  score : Int
  victim : PieceKind
  occupied : BB
  attackers : BB
  diag : BB
  orth : BB
  color : Player

/-- the `loop` of `see`; `fuel` bounds the iterations (each removes one man from `occupied`) -/
def loop (b : Board) (mover : Player) (to : Sq) : Nat → St → Option Int
  | 0, st => some st.score
  | fuel+1, st =>
    let color := st.color.other
    if (color = mover ∧ st.score ≥ 0) ∨ (color ≠ mover ∧ st.score ≤ 0) then some st.score else
    let mine := st.attackers &&& b.occFor color
    if mine = 0#64 then some st.score else
    -- least valuable attacker
    match PieceKind.all.find? (fun k => (mine &&& b.piecesOf k color) ≠ 0#64) with
    | none => none   -- `attacker_sq.unwrap()` on `None`
    | some k =>
      match pickSquare color (mine &&& b.piecesOf k color) with
      | none => none
      | some asq =>
        match b.pieceAt asq with
        | none => none
        | some apc =>
          let attacker := apc.kind
          if attacker = .king ∧ (st.attackers &&& b.occFor color.other) ≠ 0#64 then some st.score else
          let occupied := st.occupied ^^^ bb asq
          let attackers := st.attackers &&& occupied
          let diag := st.diag &&& occupied
          let orth := st.orth &&& occupied
          let attackers :=
            if attacker = .pawn ∨ attacker = .bishop ∨ attacker = .queen then
              attackers ||| (bishopAttacks to occupied &&& diag) else attackers
          let attackers :=
            if attacker = .rook ∨ attacker = .queen then
              attackers ||| (rookAttacks to occupied &&& orth) else attackers
          let score := if color = mover then st.score + pieceValue st.victim else st.score - pieceValue st.victim
          loop b mover to fuel { score, victim := attacker, occupied, attackers, diag, orth, color }

/-- `see(game, mv, threshold)`; `none` = panic (`unwrap`) -/
def see (g : Game) (mv : Move) (threshold : Int) : Option Bool := do
  let b := g.board
  let moved ← b.pieceAt mv.src
  let score := -threshold
  let score := score + (match b.pieceAt mv.dst with
    | some pc => pieceValue pc.kind
    | none => if mv.isEnPassant then pieceValue .pawn else 0)
  let score := match mv.promotion with
    | some pr => score - pieceValue .pawn + pieceValue pr.piece
    | none => score
  let victim := match mv.promotion with
    | some pr => pr.piece
    | none => moved.kind
  let occupied := (b.occupancy ^^^ bb mv.src) ||| bb mv.dst
  let occupied ← (if mv.isEnPassant then g.ep.map (fun e => occupied ^^^ bb e) else some occupied)
  let diag := b.allDiagSliders &&& occupied
  let orth := b.allOrthSliders &&& occupied
  let attackers := allAttackersOf b mv.dst occupied &&& occupied
  let final ← loop b g.player mv.dst 64
    { score, victim, occupied, attackers, diag, orth, color := g.player }
  pure (final ≥ 0)

/-! ## Specification: classical swap list on the mailbox board -/

/-- does a slider on `s` moving along `dirs` reach `t` with nothing in between? -/
def sliderHits (b : Rules.RBoard) (dirs : List Dir) (s t : Sq) : Bool :=
  dirs.any fun d =>
    let r := Rules.ray d s
    r.contains t && (r.takeWhile (· != t)).all (fun x => (Rules.at' b x).isNone)

/-- men of colour `c` that attack `t` on board `b` (x-rays appear as pieces are removed) -/
def attackersOn (b : Rules.RBoard) (c : Player) (t : Sq) : List (Sq × PieceKind) :=
  (List.finRange 64).filterMap fun (s : Sq) =>
    match Rules.at' b s with
    | some pc =>
      if pc.player = c ∧ s ≠ t then
        let attacks : Bool := match pc.kind with
          | .pawn => Rules.offset s (-1) (Rules.fwd c) == some t || Rules.offset s 1 (Rules.fwd c) == some t
          | .knight => Rules.knightDeltas.any (fun d => Rules.offset s d.1 d.2 == some t)
          | .king => Rules.kingDeltas.any (fun d => Rules.offset s d.1 d.2 == some t)
          | .bishop => sliderHits b Dir.diagonal s t
          | .rook => sliderHits b Dir.cardinal s t
          | .queen => sliderHits b Dir.all s t
        if attacks then some (s, pc.kind) else none
      else none
    | none => none

def valueOrder (k : PieceKind) : Nat := k.idx

/-- Minimax value (for the side to capture next) of continuing the exchange on `t`, where `onT` is
    the value of the man currently standing on `t`. A king may capture only if the square is then
    not attacked. Also reports whether a choice among several least-valuable attackers of one kind
    was ever faced (`tie`), in which case agreement with the engine is not demanded. -/
def swap (t : Sq) : Nat → Rules.RBoard → Player → Int → Int × Bool
  | 0, _, _, _ => (0, false)
  | fuel+1, b, c, onT =>
    let atts := attackersOn b c t
    match atts.foldl (fun (best : Option (Sq × PieceKind)) a =>
        match best with
        | none => some a
        | some x => if valueOrder a.2 < valueOrder x.2 then some a else best) none with
    | none => (0, false)
    | some (s, k) =>
      let tie := (atts.filter (fun a => a.2 == k)).length > 1
      let b' := (Rules.setSq (Rules.setSq b s none) t (some ⟨k, c⟩))
      if k == .king && !(attackersOn b c.other t).isEmpty then (0, tie)
      else
        let (reply, tie') := swap t fuel b' c.other (pieceValue k)
        -- capturing is optional: stand pat with 0 if the continuation loses material
        (max 0 (onT - reply), tie || tie')

/-- swap-list value of a capture (non e.p.) for the mover, and whether a tie was met -/
def swapValue (p : Rules.Pos) (m : Move) : Option (Int × Bool) :=
  match Rules.at' p.board m.src with
  | none => none
  | some moved =>
    let captured := (Rules.at' p.board m.dst).map (fun pc => pieceValue pc.kind) |>.getD 0
    let placed : PieceKind := match m.promotion with | some pr => pr.piece | none => moved.kind
    let gain := captured + (match m.promotion with | some pr => pieceValue pr.piece - pieceValue .pawn | none => 0)
    let b' := Rules.setSq (Rules.setSq p.board m.src none) m.dst (some ⟨placed, p.player⟩)
    let (reply, tie) := swap m.dst 40 b' p.player.other (pieceValue placed)
    some (gain - reply, tie)

end See
end Tcheran
