import TcheranVerif.Model.Game
/-!
# Legal move generation — model of `src/chess/movegen/{attackers,pins,gen}.rs`

Transliteration, loop for loop, of the staged generator (captures, then quiets sharing a cache).
Iteration over a bitboard is ascending square index (`BB.toList`), as the Rust iterator pops the
least significant bit. `Square::forward/backward` are partial (`u8` arithmetic); `none` = panic.
-/

namespace Tcheran
open Board

/-- `generate_attackers_of(board, player, square)`: pieces of `player.other()` attacking `square` -/
def attackersOf (b : Board) (player : Player) (s : Sq) : BB :=
  let them := player.other
  let occ := b.occupancy
  (pawnAttacks s player &&& b.pawnsOf them) |||
  (knightAttacks s &&& b.knightsOf them) |||
  (bishopAttacks s occ &&& b.diagSliders them) |||
  (rookAttacks s occ &&& b.orthSliders them) |||
  (kingAttacks s &&& b.kingOf them)

/-- `all_attackers_of(board, square, occupied)` -/
def allAttackersOf (b : Board) (s : Sq) (occupied : BB) : BB :=
  (pawnAttacks s .white &&& b.pawnsOf .black) |||
  (pawnAttacks s .black &&& b.pawnsOf .white) |||
  (knightAttacks s &&& b.knights) |||
  (bishopAttacks s occupied &&& b.allDiagSliders) |||
  (rookAttacks s occupied &&& b.allOrthSliders) |||
  (kingAttacks s &&& b.kings)

/-- `Board::king_in_check` (`single()` on an empty king board is a debug assertion; `none`) -/
def kingInCheck (b : Board) (player : Player) : Option Bool :=
  match BB.lsbSq? (b.kingOf player) with
  | none => none
  | some k => some (attackersOf b player k != 0#64)

/-- `pins::get_pins` -/
def getPins (b : Board) (player : Player) (king : Sq) : BB × BB :=
  let all := b.occupancy
  let ours := b.occFor player
  let them := player.other
  let potOrth := rookAttacks king all &&& ours
  let orthPinners := rookAttacks king (all &&& ~~~potOrth) &&& b.orthSliders them
  let potDiag := bishopAttacks king all &&& ours
  let diagPinners := bishopAttacks king (all &&& ~~~potDiag) &&& b.diagSliders them
  let orth := (BB.toList orthPinners).foldl (fun acc p => acc ||| bb p ||| between king p) 0#64
  let diag := (BB.toList diagPinners).foldl (fun acc p => acc ||| bb p ||| between king p) 0#64
  (orth, diag)

structure MovegenCache where
  checkers : BB := 0#64
  checkMask : BB := 0#64
  orthPins : BB := 0#64
  diagPins : BB := 0#64

/-- outcome of a generator stage: the moves pushed so far, or a panic -/
abbrev Moves := Option (List Move)

namespace Gen

def promoOrderCaptures : List Promo := [.queen, .rook, .knight, .bishop]
def promoOrderQuietUnder : List Promo := [.rook, .knight, .bishop]

/-- promotion captures of `generate_pawn_captures` -/
def pawnPromoCaptures (player : Player) (pawns theirs checkMask orthPins diagPins : BB) : List Move :=
  let canCapture := pawns &&& ~~~orthPins
  let targets := theirs &&& checkMask
  let willPromote := Game.pawnBackRank player.other
  (BB.toList (canCapture &&& willPromote)).flatMap fun pawn =>
    let attacks := pawnAttacks pawn player
    let attacks := if mem diagPins pawn then attacks &&& diagPins else attacks
    (BB.toList (attacks &&& targets)).flatMap fun t =>
      promoOrderCaptures.map fun pr => Move.capturePromotion pawn t pr

/-- squares from which a pawn can step one square forward: not diagonally pinned, target empty and in
the check mask -/
def pawnCanPushOnce (player : Player) (pawns all checkMask diagPins : BB) : BB :=
  let canMove := pawns &&& ~~~diagPins
  let available := ~~~all &&& checkMask
  canMove &&& BB.backward player available

/-- promotion pushes (`which` = the promotion kinds of this stage) -/
def pawnPromoPushes (player : Player) (which : List Promo) (pawns all checkMask orthPins diagPins : BB) :
    Option (List (List Move)) :=
  let willPromote := Game.pawnBackRank player.other
  (BB.toList (pawnCanPushOnce player pawns all checkMask diagPins &&& willPromote)).mapM fun pawn => do
    let t ← pawn.forward player
    pure (if !(mem orthPins pawn) then which.map (Move.quietPromotion pawn t) else [])

/-- ordinary captures of `generate_pawn_captures` -/
def pawnPlainCaptures (player : Player) (pawns theirs checkMask orthPins diagPins : BB) : List Move :=
  let canCapture := pawns &&& ~~~orthPins
  let targets := theirs &&& checkMask
  let willPromote := Game.pawnBackRank player.other
  (BB.toList (canCapture &&& ~~~willPromote)).flatMap fun pawn =>
    let attacks := pawnAttacks pawn player
    let attacks := if mem diagPins pawn then attacks &&& diagPins else attacks
    (BB.toList (attacks &&& targets)).map fun t => Move.capture pawn t

/-- the en-passant block of `generate_pawn_captures` -/
def pawnEnPassant (g : Game) (pawns : BB) (king : Sq) (checkMask orthPins diagPins : BB) : Moves :=
  let player := g.player
  let canCapture := pawns &&& ~~~orthPins
  match g.ep with
  | none => some []
  | some epT => do
    let capturedPawn ← epT.backward player
    if (checkMask &&& (bb epT ||| bb capturedPawn)) ≠ 0#64 then
      let capturers := canCapture &&& pawnAttacks epT player.other
      pure ((BB.toList capturers).flatMap fun start =>
        if !(mem diagPins start) || mem diagPins epT then
          let b' := ((g.board.removeAt start).removeAt capturedPawn).setAt epT ⟨.pawn, player⟩
          let inCheck := attackersOf b' player king != 0#64
          if !inCheck then [Move.enPassant start epT] else []
        else [])
    else pure []

/-- `generate_pawn_captures` (includes queen promotion pushes and en passant) -/
def pawnCaptures (g : Game) (pawns : BB) (king : Sq) (theirs all checkMask orthPins diagPins : BB) :
    Moves := do
  let m1 := pawnPromoCaptures g.player pawns theirs checkMask orthPins diagPins
  let m2 ← pawnPromoPushes g.player [.queen] pawns all checkMask orthPins diagPins
  let m3 := pawnPlainCaptures g.player pawns theirs checkMask orthPins diagPins
  let m4 ← pawnEnPassant g pawns king checkMask orthPins diagPins
  pure (m1 ++ m2.flatten ++ m3 ++ m4)

/-- single pushes of `generate_pawn_quiets` -/
def pawnSinglePushes (player : Player) (pawns all checkMask orthPins diagPins : BB) : Option (List (List Move)) :=
  let willPromote := Game.pawnBackRank player.other
  (BB.toList (pawnCanPushOnce player pawns all checkMask diagPins &&& ~~~willPromote)).mapM fun pawn => do
    let f1 ← pawn.forward player
    pure (if !(mem orthPins pawn) || mem orthPins f1 then [Move.quiet pawn f1] else [])

/-- double pushes of `generate_pawn_quiets` -/
def pawnDoublePushes (player : Player) (pawns all checkMask orthPins diagPins : BB) : Option (List (List Move)) :=
  let canMove := pawns &&& ~~~diagPins
  let available := ~~~all &&& checkMask
  let singlePushAvail := BB.backward player available
  let backRank := Game.pawnBackRank player
  let doubleBlockers := BB.backward player all
  let canPushTwice := canMove &&& backRank &&& ~~~doubleBlockers &&& BB.backward player singlePushAvail
  (BB.toList canPushTwice).mapM fun pawn => do
    let f1 ← pawn.forward player
    let f2 ← f1.forward player
    pure (if !(mem orthPins pawn) || mem orthPins f2 then [Move.quiet pawn f2] else [])

/-- `generate_pawn_quiets` -/
def pawnQuiets (g : Game) (pawns : BB) (all checkMask orthPins diagPins : BB) : Moves := do
  let m1 ← pawnPromoPushes g.player promoOrderQuietUnder pawns all checkMask orthPins diagPins
  let m2 ← pawnSinglePushes g.player pawns all checkMask orthPins diagPins
  let m3 ← pawnDoublePushes g.player pawns all checkMask orthPins diagPins
  pure (m1.flatten ++ m2.flatten ++ m3.flatten)

def knightCaptures (knights theirs checkMask orthPins diagPins : BB) : List Move :=
  (BB.toList (knights &&& ~~~(orthPins ||| diagPins))).flatMap fun n =>
    (BB.toList (knightAttacks n &&& checkMask &&& theirs)).map fun d => Move.capture n d

def knightQuiets (knights all checkMask orthPins diagPins : BB) : List Move :=
  (BB.toList (knights &&& ~~~(orthPins ||| diagPins))).flatMap fun n =>
    (BB.toList (knightAttacks n &&& checkMask &&& ~~~all)).map fun d => Move.quiet n d

def diagSliderDests (s : Sq) (all checkMask diagPins : BB) : BB :=
  let d := bishopAttacks s all &&& checkMask
  if mem diagPins s then d &&& diagPins else d

def orthSliderDests (s : Sq) (all checkMask orthPins : BB) : BB :=
  let d := rookAttacks s all &&& checkMask
  if mem orthPins s then d &&& orthPins else d

def diagSliderCaptures (sliders theirs all checkMask orthPins diagPins : BB) : List Move :=
  (BB.toList (sliders &&& ~~~orthPins)).flatMap fun s =>
    (BB.toList (diagSliderDests s all checkMask diagPins &&& theirs)).map fun d => Move.capture s d

def diagSliderQuiets (sliders all checkMask orthPins diagPins : BB) : List Move :=
  (BB.toList (sliders &&& ~~~orthPins)).flatMap fun s =>
    (BB.toList (diagSliderDests s all checkMask diagPins &&& ~~~all)).map fun d => Move.quiet s d

def orthSliderCaptures (sliders theirs all checkMask orthPins diagPins : BB) : List Move :=
  (BB.toList (sliders &&& ~~~diagPins)).flatMap fun s =>
    (BB.toList (orthSliderDests s all checkMask orthPins &&& theirs)).map fun d => Move.capture s d

def orthSliderQuiets (sliders all checkMask orthPins diagPins : BB) : List Move :=
  (BB.toList (sliders &&& ~~~diagPins)).flatMap fun s =>
    (BB.toList (orthSliderDests s all checkMask orthPins &&& ~~~all)).map fun d => Move.quiet s d

/-- `generate_king_captures` (attacks tested on the board with the king lifted) -/
def kingCaptures (g : Game) (king : Sq) (theirs : BB) : List Move :=
  let b' := g.board.removeAt king
  (BB.toList (kingAttacks king &&& theirs)).flatMap fun d =>
    if attackersOf b' g.player d == 0#64 then [Move.capture king d] else []

def kingQuiets (g : Game) (king : Sq) (all : BB) : List Move :=
  let b' := g.board.removeAt king
  (BB.toList (kingAttacks king &&& ~~~all)).flatMap fun d =>
    if attackersOf b' g.player d == 0#64 then [Move.quiet king d] else []

/-- `bitboards::castle_squares::<KINGSIDE>(player)`: (required empty, target, middle) -/
def castleGeom (kingside : Bool) (p : Player) : BB × Sq × Sq :=
  match kingside, p with
  | true, .white => (bb F1 ||| bb G1, G1, F1)
  | true, .black => (bb F8 ||| bb G8, G8, F8)
  | false, .white => (bb B1 ||| bb C1 ||| bb D1, C1, D1)
  | false, .black => (bb B8 ||| bb C8 ||| bb D8, C8, D8)

def castleFor (g : Game) (kingside : Bool) (all : BB) : List Move :=
  let (reqEmpty, target, middle) := castleGeom kingside g.player
  if (reqEmpty &&& all) == 0#64
      && attackersOf g.board g.player middle == 0#64
      && attackersOf g.board g.player target == 0#64 then
    [Move.castles (Game.kingStart g.player) target]
  else []

def castles (g : Game) (all : BB) : List Move :=
  let r := g.rights.forP g.player
  (if r.kingSide then castleFor g true all else []) ++
  (if r.queenSide then castleFor g false all else [])

end Gen

/-- the check mask of `generate_captures`: everything when not in check, otherwise the checker and the
squares between it and the king -/
def checkMaskFor (checkers : BB) (king : Sq) (n : Nat) : Option BB :=
  if n == 1 then do
    let c ← BB.lsbSq? checkers
    pure (between c king ||| checkers)
  else pure BB.full

/-- `generate_captures` once king, checkers and check mask are known (at most one checker) -/
def capturesWith (g : Game) (king : Sq) (checkers checkMask : BB) : Option (List Move × MovegenCache) := do
  let all := g.board.occupancy
  let theirs := g.board.occFor g.player.other
  let (orthPins, diagPins) := getPins g.board g.player king
  let cache : MovegenCache := { checkers, checkMask, orthPins, diagPins }
  let p ← Gen.pawnCaptures g (g.board.pawnsOf g.player) king theirs all checkMask orthPins diagPins
  let ms := p
    ++ Gen.knightCaptures (g.board.knightsOf g.player) theirs checkMask orthPins diagPins
    ++ Gen.diagSliderCaptures (g.board.diagSliders g.player) theirs all checkMask orthPins diagPins
    ++ Gen.orthSliderCaptures (g.board.orthSliders g.player) theirs all checkMask orthPins diagPins
    ++ Gen.kingCaptures g king theirs
  pure (ms, cache)

/-- `generate_captures` (`king(..).single()` on a board without a king ⇒ `none`) -/
def generateCaptures (g : Game) : Option (List Move × MovegenCache) := do
  let theirs := g.board.occFor g.player.other
  let king ← BB.lsbSq? (g.board.kingOf g.player)
  let checkers := attackersOf g.board g.player king
  let n := BB.count checkers
  if n > 1 then
    pure (Gen.kingCaptures g king theirs, { checkers })
  else do
    let checkMask ← checkMaskFor checkers king n
    capturesWith g king checkers checkMask

/-- `generate_quiets` with at most one checker -/
def quietsWith (g : Game) (king : Sq) (cache : MovegenCache) : Moves := do
  let all := g.board.occupancy
  let checkMask := cache.checkMask
  let orthPins := cache.orthPins
  let diagPins := cache.diagPins
  let p ← Gen.pawnQuiets g (g.board.pawnsOf g.player) all checkMask orthPins diagPins
  let ms := p
    ++ Gen.knightQuiets (g.board.knightsOf g.player) all checkMask orthPins diagPins
    ++ Gen.diagSliderQuiets (g.board.diagSliders g.player) all checkMask orthPins diagPins
    ++ Gen.orthSliderQuiets (g.board.orthSliders g.player) all checkMask orthPins diagPins
    ++ Gen.kingQuiets g king all
  pure (ms ++ (if cache.checkers == 0#64 then Gen.castles g all else []))

/-- `generate_quiets` -/
def generateQuiets (g : Game) (cache : MovegenCache) : Moves := do
  let all := g.board.occupancy
  let king ← BB.lsbSq? (g.board.kingOf g.player)
  let n := BB.count cache.checkers
  if n > 1 then
    pure (Gen.kingQuiets g king all)
  else quietsWith g king cache

/-- `generate_legal_moves` (`MoveList` holds at most 218 moves; pushing more panics) -/
def generateLegal (g : Game) : Moves := do
  let (caps, cache) ← generateCaptures g
  let quiets ← generateQuiets g cache
  let ms := caps ++ quiets
  if ms.length > 218 then none else pure ms

end Tcheran
