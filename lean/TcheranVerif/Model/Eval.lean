import TcheranVerif.Model.Movegen
import TcheranVerif.Gen.EvalParams
import TcheranVerif.Gen.ZobristKeys
/-!
# Static evaluation — model of `src/engine/eval/*.rs`

A `PhasedEval` (packed `i32 = (eg << 16) + mg`) is modelled by the pair-preserving integer
`eg * 65536 + mg` in `Int`; `midgame`/`endgame` extract exactly as the Rust does
(`v as i16`, `(v + 0x8000) >> 16`). Range facts (no `i16`/`i32` overflow) are theorems in
`Props/C16.lean`, not assumptions of the model: `forPhase` returns `none` where
`i16::try_from(..).unwrap()` would panic.
-/

namespace Tcheran
namespace Eval

def pack (mg eg : Int) : Int := eg * 65536 + mg
def packP (p : Int × Int) : Int := pack p.1 p.2

/-- `PhasedEval::midgame`: the low 16 bits, sign-extended -/
def midgame (v : Int) : Int := (v + 32768) % 65536 - 32768
/-- `PhasedEval::endgame`: `(v + 0x8000) >> 16` (arithmetic shift = floor division) -/
def endgame (v : Int) : Int := (v + 32768) / 65536

def inI16 (v : Int) : Bool := -32768 ≤ v && v ≤ 32767

def material (k : PieceKind) : Int := packP (Gen.pieceValues.getD k.idx (0, 0))

def pstDef : PieceKind → Array (Int × Int)
  | .pawn => Gen.pawnsDef | .knight => Gen.knightsDef | .bishop => Gen.bishopsDef
  | .rook => Gen.rooksDef | .queen => Gen.queensDef | .king => Gen.kingDef

/-- `flatten(flip(def))[i]` = `def[7 - i/8][i%8]` (definitions are written rank 8 first) -/
def whiteIdx (s : Sq) : Nat := (7 - s.val / 8) * 8 + s.val % 8
/-- `flatten(def)[i]` = `def[i/8][i%8]` -/
def blackIdx (s : Sq) : Nat := s.val

/-- `piece_square_tables::TABLES[player][kind][square]` after `init()` -/
def pst (pl : Player) (k : PieceKind) (s : Sq) : Int :=
  match pl with
  | .white => packP ((pstDef k).getD (whiteIdx s) (0, 0)) + material k
  | .black => -(packP ((pstDef k).getD (blackIdx s) (0, 0)) + material k)

def phaseOf (k : PieceKind) : Int := Gen.phaseContribution.getD k.idx 0

/-- `PhasedEval::for_phase` (after `fix:` clamp of the endgame weight) -/
def forPhase (v : Int) (phase : Int) : Option Int :=
  let mgPhase := min phase Gen.phaseCountMax
  let egPhase := Gen.phaseCountMax - mgPhase
  let e := Int.tdiv (midgame v * mgPhase + endgame v * egPhase) 24
  if inI16 e then some e else none

/-- `generate_passed_pawn_mask` -/
def passedMask (pl : Player) (s : Sq) : BB :=
  if (bb s &&& Game.backRank pl) != 0#64 then 0#64
  else if (bb s &&& Game.pawnBackRank pl.other) != 0#64 then 0#64
  else
    let fileBB : BB := BB.aFile <<< s.file
    let files := BB.west fileBB ||| fileBB ||| BB.east fileBB
    let dist := match pl with
      | .white => s.rank
      | .black => 7 - s.rank
    let ranks := (List.range (dist + 1)).foldl (fun r _ => BB.forward pl r) BB.full
    files &&& ranks

def passedPst (pl : Player) (s : Sq) : Int :=
  match pl with
  | .white => packP (Gen.passedPawnsDef.getD (whiteIdx s) (0, 0))
  | .black => -(packP (Gen.passedPawnsDef.getD (blackIdx s) (0, 0)))

def passedBonus (b : Board) (pl : Player) : Int :=
  (BB.toList (b.pawnsOf pl)).foldl (fun acc s =>
    if (passedMask pl s &&& b.pawnsOf pl.other) == 0#64 then acc + passedPst pl s else acc) 0

def pawnStructure (b : Board) : Int := passedBonus b .white + passedBonus b .black

def bishopPair (b : Board) : Int :=
  let bonus := packP (Gen.bishopPairBonus.getD 0 (0, 0))
  (if BB.count (b.bishopsOf .white) > 1 then bonus else 0) -
  (if BB.count (b.bishopsOf .black) > 1 then bonus else 0)

/-- one piece of the mobility loops: the table entry for the number of safe squares it attacks is
    added, its attack set is collected (`none`: the table index would be out of bounds) -/
def mobStep (safe : BB) (tbl : Array (Int × Int)) (moves : Sq → BB) (st : Option (Int × BB)) (p : Sq) :
    Option (Int × BB) := do
  let (e, att) ← st
  let m := moves p
  let v ← tbl[BB.count (m &&& safe)]?
  pure (e + packP v, att ||| m)

/-- squares not attacked by an enemy pawn -/
def safeSquares (b : Board) (pl : Player) : BB :=
  let theirPawns := BB.forward pl.other (b.pawnsOf pl.other)
  ~~~(BB.west theirPawns ||| BB.east theirPawns)

/-- `mobility_and_opp_king_safety_for`; `none` when an array index would be out of bounds or the
    enemy king is missing -/
def mobilityFor (b : Board) (pl : Player) : Option Int := do
  let blockers := b.occupancy
  let safe := safeSquares b pl
  let st := (BB.toList (b.knightsOf pl)).foldl (mobStep safe Gen.knightMobility knightAttacks) (some (0, 0#64))
  let st := (BB.toList (b.bishopsOf pl)).foldl (mobStep safe Gen.bishopMobility (fun p => bishopAttacks p blockers)) st
  let st := (BB.toList (b.rooksOf pl)).foldl (mobStep safe Gen.rookMobility (fun p => rookAttacks p blockers)) st
  let st := (BB.toList (b.queensOf pl)).foldl
    (mobStep safe Gen.queenMobility (fun p => bishopAttacks p blockers ||| rookAttacks p blockers)) st
  let (e, att) ← st
  let ek ← BB.lsbSq? (b.kingOf pl.other)
  let v ← Gen.attackedKingSquares[BB.count (att &&& kingAttacks ek)]?
  pure (e - packP v)

def mobility (b : Board) : Option Int := do
  let w ← mobilityFor b .white
  let bl ← mobilityFor b .black
  pure (w - bl)

/-- `absolute_eval`: white's point of view -/
def absoluteEval (g : Game) : Option Int := do
  let m ← mobility g.board
  let total := g.inc.pst + bishopPair g.board + m + pawnStructure g.board
  forPhase total g.inc.phase

/-- `eval`: side to move's point of view (`-x` is `saturating_neg` on `i16`) -/
def eval (g : Game) : Option Int := do
  let a ← absoluteEval g
  pure (match g.player with
    | .white => a
    | .black => if a = -32768 then 32767 else -a)

end Eval

/-- the concrete model parameters, regenerated from /repo on every run -/
def theCfg : Cfg where
  zPiece := fun pl k s => Gen.zPiece.getD (pl.idx * 384 + k.idx * 64 + s.val) 0#64
  zCastle := fun pl side => Gen.zCastle.getD (pl.idx * 2 + (match side with | .king => 0 | .queen => 1)) 0#64
  zEp := fun s => Gen.zEp.getD s.val 0#64
  zNoEp := Gen.zNoEp
  zSide := Gen.zSide
  pst := Eval.pst
  phase := Eval.phaseOf

end Tcheran
