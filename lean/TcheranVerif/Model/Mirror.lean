import TcheranVerif.Model.Eval
/-!
# Colour swap + rank flip of a position (the transformation C16 and C20 quantify over)

`Board.mirror`: every man moves to the rank-flipped square and changes colour, in all three views.
`Game.mirror`: the mirrored board with the other side to move, rights swapped, e.p. target flipped,
the same counters, key and accumulators recomputed (`Game::from_state`).
-/

namespace Tcheran

def Piece.swap (pc : Piece) : Piece := ⟨pc.kind, pc.player.other⟩

def Board.mirror (b : Board) : Board :=
  { pawns := BB.flipV b.pawns, knights := BB.flipV b.knights, bishops := BB.flipV b.bishops,
    rooks := BB.flipV b.rooks, queens := BB.flipV b.queens, kings := BB.flipV b.kings,
    white := BB.flipV b.black, black := BB.flipV b.white,
    squares := Vector.ofFn fun (s : Fin 64) => (b.squares[(Sq.flip s).val]).map Piece.swap }

def Rights.mirror (r : Rights) : Rights := ⟨r.black, r.white⟩

def Game.mirror (c : Cfg) (g : Game) : Game :=
  Game.fromState c g.board.mirror g.player.other g.rights.mirror (g.ep.map Sq.flip) g.halfmove g.plies

def Move.mirror (m : Move) : Move := ⟨m.src.flip, m.dst.flip, m.flag⟩

end Tcheran
