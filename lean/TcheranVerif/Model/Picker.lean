import TcheranVerif.Model.Board
import TcheranVerif.Gen.SearchParams
/-!
# Staged move picker — model of `src/engine/search/move_picker.rs`

The generator outputs, the scoring functions and the remembered moves (hash move, killers,
counter move) are *parameters* (`Env`): theorem `Props.C10.picker_perm` holds for any of them.
`next` follows the Rust control flow block by block; an early `return` is `Except.error`.
-/

namespace Tcheran
namespace Picker

inductive Stage
  | bestMove | genCaptures | goodCaptures | genQuiets | killer1 | killer2 | counterMove
  | badCaptures | scoreQuiets | quiets | done
  deriving DecidableEq, Repr, Inhabited

structure Env where
  captures : List Move
  quiets : List Move
  scoreTactical : Move → Int
  scoreQuiet : Move → Int
  killer1 : Option Move
  killer2 : Option Move
  counter : Option Move

def goodCaptureScore : Int := Gen.goodCaptureScore

structure State where
  moves : Array Move := #[]
  scores : Array Int := #[]
  hash : Option Move := none
  onlyCaptures : Bool := false
  stage : Stage := .bestMove
  idx : Nat := 0
  capturesEnd : Nat := 0
  firstBadCapture : Option Nat := none
  firstQuiet : Nat := 0

def new (hash : Option Move) : State := { hash }
def newLoud : State := { onlyCaptures := true }

def swapAt {α} (a : Array α) (i j : Nat) : Array α :=
  if h : i < a.size ∧ j < a.size then a.swap i j h.1 h.2 else a

/-- index of the first maximum of `scores[lo..hi)` (strict `>` keeps the earliest) -/
def argmax (scores : Array Int) (lo hi : Nat) : Nat :=
  (List.range' (lo + 1) (hi - (lo + 1))).foldl
    (fun best i => if scores.getD i 0 > scores.getD best 0 then i else best) lo

/-- `next_best_move(limit)`; fuel = remaining slots + 1 -/
def nextBest (limit : Nat) : Nat → State → Option (Move × Int) × State
  | 0, st => (none, st)
  | fuel+1, st =>
    if st.idx = limit then (none, st) else
    let bi := argmax st.scores st.idx limit
    let bs := st.scores.getD bi 0
    match st.moves[bi]? with
    | none => (none, st)   -- `.get(i).unwrap()`; unreachable while `limit ≤ moves.len()`
    | some bm =>
      let st := { st with moves := swapAt st.moves st.idx bi, scores := swapAt st.scores st.idx bi,
                          idx := st.idx + 1 }
      if some bm = st.hash then nextBest limit fuel st else (some (bm, bs), st)

/-- the `for i in first_quiet..len` scan of the killer / counter stages -/
def promoteLoop (target : Move) (hi : Nat) : Nat → Nat → State → Option Move × State
  | 0, _, st => (none, st)
  | fuel+1, i, st =>
    if i ≥ hi then (none, st) else
    if st.moves[i]? = some target then
      let st := { st with moves := swapAt st.moves st.firstQuiet i, firstQuiet := st.firstQuiet + 1 }
      if some target ≠ st.hash then (some target, st) else promoteLoop target hi fuel (i + 1) st
    else promoteLoop target hi fuel (i + 1) st

def promote (target : Option Move) (st : State) : Option Move × State :=
  match target with
  | none => (none, st)
  | some t => promoteLoop t st.moves.size (st.moves.size + 1) st.firstQuiet st

abbrev Step := Except (Option Move × State) State

def setScores (scores : Array Int) (moves : Array Move) (f : Move → Int) (lo hi : Nat) : Array Int :=
  (List.range' lo (hi - lo)).foldl (fun sc i =>
    match moves[i]? with
    | some m => if i < sc.size then sc.setIfInBounds i (f m) else sc
    | none => sc) scores

/-- `scores` is a fixed `[i32; 255]` in Rust; here it is grown with zeros alongside `moves` -/
def pushMoves (st : State) (ms : List Move) : State :=
  { st with moves := st.moves ++ ms.toArray, scores := st.scores ++ (ms.map fun _ => (0 : Int)).toArray }

def sBest (st : State) : Step :=
  if st.stage = .bestMove then
    let st := { st with stage := .genCaptures }
    match st.hash with
    | some h => .error (some h, st)
    | none => .ok st
  else .ok st

def sGenCaptures (env : Env) (st : State) : Step :=
  if st.stage = .genCaptures then
    let st := pushMoves { st with stage := .goodCaptures } env.captures
    let st := { st with capturesEnd := st.moves.size, firstQuiet := st.moves.size }
    .ok { st with scores := setScores st.scores st.moves env.scoreTactical 0 st.moves.size }
  else .ok st

def sGoodCaptures (st : State) : Step :=
  if st.stage = .goodCaptures then
    let (r, st) := nextBest st.capturesEnd (st.capturesEnd + 1 - st.idx) st
    let cont (st : State) : Step :=
      if st.onlyCaptures then
        match st.firstBadCapture with
        | none => .ok { st with stage := .done }
        | some i => .ok { st with idx := i, stage := .badCaptures }
      else .ok { st with stage := .genQuiets }
    match r with
    | some (mv, score) =>
      if score < goodCaptureScore then
        cont { st with firstBadCapture := some (st.idx - 1), idx := st.capturesEnd }
      else .error (some mv, st)
    | none => cont st
  else .ok st

def sGenQuiets (env : Env) (st : State) : Step :=
  if st.stage = .genQuiets then .ok (pushMoves { st with stage := .killer1 } env.quiets) else .ok st

def sKiller1 (env : Env) (st : State) : Step :=
  if st.stage = .killer1 then
    let (r, st) := promote env.killer1 { st with stage := .killer2 }
    match r with
    | some m => .error (some m, st)
    | none => .ok st
  else .ok st

def sKiller2 (env : Env) (st : State) : Step :=
  if st.stage = .killer2 then
    let (r, st) := promote env.killer2 { st with stage := .counterMove }
    match r with
    | some m => .error (some m, st)
    | none => .ok st
  else .ok st

def sCounter (env : Env) (st : State) : Step :=
  if st.stage = .counterMove then
    let st := match st.firstBadCapture with
      | none => { st with stage := .scoreQuiets }
      | some i => { st with idx := i, stage := .badCaptures }
    let (r, st) := promote env.counter st
    match r with
    | some m => .error (some m, st)
    | none => .ok st
  else .ok st

def sBadCaptures (st : State) : Step :=
  if st.stage = .badCaptures then
    let (r, st) := nextBest st.capturesEnd (st.capturesEnd + 1 - st.idx) st
    match r with
    | some (mv, _) => .error (some mv, st)
    | none => .ok { st with stage := if st.onlyCaptures then .done else .scoreQuiets }
  else .ok st

def sScoreQuiets (env : Env) (st : State) : Step :=
  if st.stage = .scoreQuiets then
    let st := { st with stage := .quiets, idx := st.firstQuiet }
    .ok { st with scores := setScores st.scores st.moves env.scoreQuiet st.idx st.moves.size }
  else .ok st

def sQuiets (st : State) : Step :=
  if st.stage = .quiets then
    let (r, st) := nextBest st.moves.size (st.moves.size + 1 - st.idx) st
    match r with
    | some (mv, _) => .error (some mv, st)
    | none => .ok { st with stage := .done }
  else .ok st

/-- `MovePicker::next` -/
def next (env : Env) (st : State) : Option Move × State :=
  let r : Step := do
    let st ← sBest st
    let st ← sGenCaptures env st
    let st ← sGoodCaptures st
    let st ← sGenQuiets env st
    let st ← sKiller1 env st
    let st ← sKiller2 env st
    let st ← sCounter env st
    let st ← sBadCaptures st
    let st ← sScoreQuiets env st
    sQuiets st
  match r with
  | .error res => res
  | .ok st => (none, st)    -- stage = done (the Rust `unreachable!()` is not reachable)

/-- all moves the picker yields with a fixed environment -/
def drain (env : Env) : Nat → State → List Move
  | 0, _ => []
  | fuel+1, st =>
    match next env st with
    | (some m, st') => m :: drain env fuel st'
    | (none, _) => []

end Picker
end Tcheran
