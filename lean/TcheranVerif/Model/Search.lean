import TcheranVerif.Model.Eval
import TcheranVerif.Model.Draw
import TcheranVerif.Model.See
import TcheranVerif.Model.Picker
import TcheranVerif.Model.TT
import TcheranVerif.Gen.SearchParams
import TcheranVerif.Gen.Lmr
/-!
# Search — model of `src/engine/search/{mod,iterative_deepening,aspiration,negamax,quiescence,
move_ordering,tables}.rs` and the score arithmetic of `eval/player_eval.rs`

Control flow is transliterated; `i16` arithmetic is checked (an overflow is the outcome `panic`, as
in the checked build). The stop flag and the clock are the oracle `stopAt` (the k-th consultation of
the flag reads true, and every later one); the harness realises the same oracle through hook H1.
The Syzygy prober is disabled (the only state reachable without tablebase files).
-/

namespace Tcheran
namespace Search

inductive Res (α : Type)
  | ok (a : α)
  | abort
  | panic (why : String)
  deriving Repr

def i16Min : Int := -32768
def i16Max : Int := 32767
def inI16 (v : Int) : Bool := i16Min ≤ v && v ≤ i16Max

/-- `Neg for Eval`: `saturating_neg` -/
def neg (v : Int) : Int := if v = i16Min then i16Max else -v

def mateIn (ply : Nat) : Int := Gen.mate - ply
def matedIn (ply : Nat) : Int := -Gen.mate + ply

/-- `Eval::is_mate_in_moves` -/
def isMateInMoves (v : Int) : Option Int :=
  if v > Gen.mateThreshold then some (Int.tdiv (Gen.mate - v + 1) 2)
  else if v < -Gen.mateThreshold then some (Int.tdiv (-Gen.mate - v) 2)
  else none

/-- `with_mate_distance_from_position` (both tests are applied in sequence, as in the Rust) -/
def fromPosition (v : Int) (plies : Nat) : Int :=
  let v := if v > Gen.mateThreshold then v + plies else v
  if v < -Gen.mateThreshold then v - plies else v

/-- `with_mate_distance_from_root` -/
def fromRoot (v : Int) (plies : Nat) : Int :=
  let v := if v > Gen.mateThreshold then v - plies else v
  if v < -Gen.mateThreshold then v + plies else v

structure Ctx where
  tt : TT.Table
  history : Array Int            -- [player][src][dst] flattened
  killers : Array (Option Move × Option Move)
  counter : Array (Option Move)  -- [player][src][dst] flattened
  nodes : Nat := 0
  seldepth : Nat := 0
  nextCheckAt : Nat := Gen.p_check_termination_node_frequency
  polls : Nat := 0
  stopAt : Nat := 0              -- 0 = the flag never reads true
  everyNode : Bool := false
  /-- ghost (read by no code): the node count at the consultation that first read true -/
  stoppedNodes : Option Nat := none

def tblIdx (p : Player) (src dst : Sq) : Nat := p.idx * 4096 + src.val * 64 + dst.val

def historyGet (h : Array Int) (p : Player) (m : Move) : Int := h.getD (tblIdx p m.src m.dst) 0

/-- `HistoryTable::add_bonus_for` -/
def historyAdd (h : Array Int) (p : Player) (m : Move) (depth : Nat) : Array Int :=
  let i := tblIdx p m.src m.dst
  h.setIfInBounds i (min (h.getD i 0 + (depth : Int) * depth) Gen.historyMaxScore)

def historyDecay (h : Array Int) : Array Int := h.map fun v => Int.tdiv v Gen.p_history_decay_factor

/-- `KillersTable::try_push` (`none` = index out of range: `plies = 255` on 255 rows) -/
def killersPush (k : Array (Option Move × Option Move)) (plies : Nat) (m : Move) :
    Option (Array (Option Move × Option Move)) :=
  match k[plies]? with
  | none => none
  | some (k0, _) => if k0 = some m then some k else some (k.setIfInBounds plies (some m, k0))

def newKillers : Array (Option Move × Option Move) := Array.replicate Gen.maxSearchDepth (none, none)
def newCounter : Array (Option Move) := Array.replicate 8192 none
def newHistory : Array Int := Array.replicate 8192 0

/-- the flag is consulted: true from the `stopAt`-th consultation on -/
def poll (c : Ctx) : Ctx × Bool :=
  let n := c.polls + 1
  let stop := c.stopAt ≠ 0 && n ≥ c.stopAt
  ({ c with polls := n,
            stoppedNodes := if stop && c.stoppedNodes.isNone then some c.nodes else c.stoppedNodes }, stop)

/-- `TimeStrategy::should_stop` under `TimeControl::Infinite` (+ hook H1) -/
def shouldStop (c : Ctx) : Ctx × Bool :=
  let (c, early) : Ctx × Bool := if c.everyNode then poll c else (c, false)
  if early then (c, true) else
  if c.nodes < c.nextCheckAt then (c, false) else
  let (c, stop) := poll c
  if stop then (c, true) else ({ c with nextCheckAt := c.nodes + Gen.p_check_termination_node_frequency }, false)

/-- `should_start_new_search` under `TimeControl::Infinite` -/
def shouldStartNewSearch (c : Ctx) (depth : Nat) : Ctx × Bool :=
  if depth = 1 then (c, true) else
  let (c, stop) := poll c
  (c, !stop)

/-- `move_ordering::score_tactical`; the `unwrap`s cannot fail on generated moves (model: 0) -/
def scoreTactical (g : Game) (m : Move) : Int :=
  let movedIdx := match g.board.pieceAt m.src with | some pc => pc.kind.idx | none => 0
  if m.isCapture then
    if m.isEnPassant then Gen.goodCaptureScore + Gen.mvvOrder.getD 0 0 + Gen.lvaOrder.getD 0 0
    else
      let capIdx := match g.board.pieceAt m.dst with | some pc => pc.kind.idx | none => 0
      let mvvLva := Gen.mvvOrder.getD capIdx 0 + Gen.lvaOrder.getD movedIdx 0
      (if See.see g m 0 = some true then Gen.goodCaptureScore else Gen.badCaptureScore) + mvvLva
  else Gen.historyMaxScore - Gen.lvaOrder.getD movedIdx 0

def scoreQuiet (g : Game) (h : Array Int) (m : Move) : Int := Gen.quietScore + historyGet h g.player m

def lastMove (g : Game) : Option Move := g.history.head?.bind (·.mv)

structure NodeMoves where
  captures : List Move
  quiets : List Move

/-- the two generator stages, computed once per node (pure in the position) -/
def nodeMoves (g : Game) : Option NodeMoves := do
  let (caps, cache) ← generateCaptures g
  let quiets ← generateQuiets g cache
  pure ⟨caps, quiets⟩

/-- picker environment read from the *current* context (killers, counter move and history can
    change between two `next` calls of the same node) -/
def pickerEnv (g : Game) (nm : NodeMoves) (c : Ctx) (plies : Nat) : Picker.Env :=
  let ks := c.killers.getD plies (none, none)
  { captures := nm.captures, quiets := nm.quiets,
    scoreTactical := scoreTactical g, scoreQuiet := scoreQuiet g c.history,
    killer1 := ks.1, killer2 := ks.2,
    counter := (lastMove g).bind fun pm => c.counter.getD (tblIdx g.player pm.src pm.dst) none }

def lmrReduction (depth count : Nat) : Nat :=
  (Gen.lmrTable.getD (min depth 63) #[]).getD (min count 63) 0

/-- `quiescence` -/
def quiescence : Nat → Game → Int → Int → Nat → Ctx → Res Int × Ctx
  | 0, _, _, _, _, c => (.panic "out of fuel", c)
  | fuel+1, g, alpha, beta, plies, c =>
    let c := { c with seldepth := max c.seldepth plies, nodes := c.nodes + 1 }
    if plies = Gen.maxSearchDepth then
      match Eval.eval g with
      | some e => (.ok e, c)
      | none => (.panic "eval", c)
    else
    match g.isFifty with
    | none => (.panic "movegen", c)
    | some fifty =>
    if g.isRepeated || fifty || g.isInsufficient then (.ok 0, c) else
    let (c, stop) := shouldStop c
    if stop then (.abort, c) else
    match Eval.eval g with
    | none => (.panic "eval", c)
    | some e =>
    if e ≥ beta then (.ok e, c) else
    let alpha := if e > alpha then e else alpha
    match nodeMoves g with
    | none => (.panic "movegen", c)
    | some nm =>
    let rec loop (lf : Nat) (st : Picker.State) (alpha best : Int) (c : Ctx) : Res Int × Ctx :=
      match lf with
      | 0 => (.panic "out of loop fuel", c)
      | lf+1 =>
        match Picker.next (pickerEnv g nm c plies) st with
        | (none, _) => (.ok best, c)
        | (some mv, st) =>
          match Game.makeMove theCfg g mv with
          | none => (.panic "make_move", c)
          | some g' =>
            match quiescence fuel g' (neg beta) (neg alpha) (plies + 1) c with
            | (.ok v, c) =>
              let score := neg v
              let best := if score > best then score else best
              if score ≥ beta then (.ok best, c)
              else loop lf st (if score > alpha then score else alpha) best c
            | (r, c) => (r, c)
    termination_by (fuel, lf + 1)
    loop 300 Picker.newLoud alpha e c
termination_by fuel _ _ _ _ _ => (fuel, 0)

structure NodeOut where
  res : Res Int
  pv : List Move
  ctx : Ctx

/-- null-move pruning (`child` = the reduced zero-window search of the position after the null move):
    `some out` = the node returns `out`; otherwise the move loop runs, with the context the child left -/
def nullMovePhase (child : Ctx → NodeOut) (doNull : Bool) (beta : Int) (pv : List Move) (c : Ctx) :
    Option NodeOut × Ctx :=
  if doNull then
    let ch := child c
    match ch.res with
    | .ok v =>
      let ns := neg v
      if ns ≥ beta then (some ⟨.ok ns, pv, ch.ctx⟩, ch.ctx) else (none, ch.ctx)
    | r => (some ⟨r, pv, ch.ctx⟩, ch.ctx)
  else (none, c)

/-- principal-variation search of one child (`search α β depth pv ctx` = `negamax` on the position after
    the move): the first move with the full window, later ones with a reduced zero window and a
    full-window re-search when the probe lands inside `(alpha, beta)`; the re-search receives the
    probe's PV buffer, as the Rust does -/
def pvsChild (search : Int → Int → Nat → List Move → Ctx → NodeOut) (alpha beta : Int) (depth count : Nat)
    (inCheck : Bool) (c : Ctx) : NodeOut :=
  let full (c : Ctx) (nodePv : List Move) : NodeOut := search (neg beta) (neg alpha) (depth - 1) nodePv c
  if count = 1 then full c []
  else
    let reduction :=
      if depth ≥ Gen.p_lmr_depth && count ≥ Gen.p_lmr_move_threshold then
        let r := lmrReduction depth count
        let r := if inCheck then r - 1 else r
        max 1 r
      else 1
    let zw := search (neg alpha - 1) (neg alpha) (depth - reduction) [] c
    match zw.res with
    | .ok v =>
      let s := neg v
      if s > alpha && s < beta then full zw.ctx zw.pv else zw
    | _ => zw

/-- the end of `negamax` after the move loop: mate / stalemate, killers + counter move + history on a
    quiet beta cutoff, and the table entry -/
def finishNode (g : Game) (depth plies : Nat) (inCheck : Bool) (bound : TT.Bound) (bestMove : Option Move)
    (bestEval : Int) (count : Nat) (pv : List Move) (c : Ctx) : NodeOut :=
  if count = 0 then ⟨.ok (if inCheck then matedIn plies else 0), pv, c⟩ else
  let upd : Option Ctx :=
    if bound = .lower then
      match bestMove with
      | none => none
      | some mv =>
        if !mv.isCapture then
          match killersPush c.killers plies mv with
          | none => none
          | some ks =>
            let counter := match lastMove g with
              | some pm => c.counter.setIfInBounds (tblIdx g.player pm.src pm.dst) (some mv)
              | none => c.counter
            some { c with killers := ks, counter, history := historyAdd c.history g.player mv depth }
        else some c
    else some c
  match upd with
  | none => ⟨.panic "killers index", pv, c⟩
  | some c =>
    let data : TT.Data :=
      { bound, eval := fromPosition bestEval plies, best := bestMove, age := c.tt.generation, depth }
    ⟨.ok bestEval, pv, { c with tt := c.tt.insert g.zobrist data }⟩

/-- the transposition-table cut-off of a non-root, non-PV node -/
def ttCutoff (entry : Option TT.Data) (allowed : Bool) (depth : Nat) (alpha beta : Int) (plies : Nat) : Option Int :=
  match entry with
  | some e =>
    if allowed && e.depth ≥ depth then
      let s := fromRoot e.eval plies
      match e.bound with
      | .exact => some s
      | .upper => if e.eval ≤ alpha then some s else none
      | .lower => if e.eval ≥ beta then some s else none
    else none
  | none => none

/-- no two null moves in a row: the previous move (if any) was a real one -/
def prevNotNull (g : Game) : Bool :=
  match g.history.head? with | none => true | some h => h.mv.isSome

/-- `negamax` -/
def negamax : Nat → Game → Int → Int → Nat → Nat → List Move → Ctx → NodeOut
  | 0, _, _, _, _, _, pv, c => ⟨.panic "out of fuel", pv, c⟩
  | fuel+1, g, alpha, beta, depth, plies, pv, c =>
    let isRoot := plies = 0
    if !(inI16 (beta - 1)) then ⟨.panic "beta - 1 overflows", pv, c⟩ else
    let isPv := alpha ≠ beta - 1
    let (c, stop) := shouldStop c
    if stop then ⟨.abort, pv, c⟩ else
    let c := { c with seldepth := max c.seldepth plies }
    match g.isFifty with
    | none => ⟨.panic "movegen", pv, c⟩
    | some fifty =>
    if !isRoot && (g.isRepeated || fifty || g.isInsufficient) then ⟨.ok 0, pv, c⟩ else
    match kingInCheck g.board g.player with
    | none => ⟨.panic "no king", pv, c⟩
    | some inCheck =>
    let depth := if inCheck && depth < Gen.maxSearchDepth then depth + 1 else depth
    if depth = 0 then
      let (r, c) := quiescence (fuel + 400) g alpha beta plies c
      ⟨r, pv, c⟩
    else
    let c := if !isRoot then { c with nodes := c.nodes + 1 } else c
    -- transposition table
    let ttEntry := c.tt.get g.zobrist
    let ttCut : Option Int := ttCutoff ttEntry (!isRoot && !isPv) depth alpha beta plies
    match ttCut with
    | some s => ⟨.ok s, pv, c⟩
    | none =>
    let prevBest : Option Move := ttEntry.bind (·.best)
    match Eval.eval g with
    | none => ⟨.panic "eval", pv, c⟩
    | some ev =>
    -- reverse futility pruning
    let prunable := !isRoot && !isPv && !inCheck
    let rfpVal := ev - Gen.p_reverse_futility_prune_margin_per_ply * depth
    if prunable && depth ≤ Gen.p_reverse_futility_prune_depth && !(inI16 rfpVal) then
      ⟨.panic "rfp overflow", pv, c⟩ else
    if prunable && depth ≤ Gen.p_reverse_futility_prune_depth && rfpVal > beta then ⟨.ok beta, pv, c⟩ else
    -- null move pruning
    let doNull := prunable && depth ≥ Gen.p_null_move_pruning_depth_limit && ev ≥ beta
      && prevNotNull g
    let (earlyOut, c) := nullMovePhase
      (fun c => negamax fuel (Game.makeNull theCfg g) (neg beta) (neg beta + 1)
        (depth - 1 - Gen.p_null_move_pruning_depth_reduction) (plies + 1) [] c) doNull beta pv c
    match earlyOut with
    | some o => o
    | none =>
    match nodeMoves g with
    | none => ⟨.panic "movegen", pv, c⟩
    | some nm =>
    -- move loop
    let rec loop (lf : Nat) (st : Picker.State) (alpha : Int) (bound : TT.Bound) (bestMove : Option Move)
        (bestEval : Int) (count : Nat) (pv : List Move) (c : Ctx) :
        Res (TT.Bound × Option Move × Int × Nat) × List Move × Ctx :=
      match lf with
      | 0 => (.panic "out of loop fuel", pv, c)
      | lf+1 =>
        match Picker.next (pickerEnv g nm c plies) st with
        | (none, _) => (.ok (bound, bestMove, bestEval, count), pv, c)
        | (some mv, st) =>
          -- futility pruning
          if count > 0 && !isPv && !mv.isCapture && !inCheck && depth ≤ Gen.p_futility_prune_depth
              && ev + Gen.p_futility_prune_max_move_value < alpha then
            loop lf st alpha bound bestMove bestEval count pv c
          else
          match Game.makeMove theCfg g mv with
          | none => (.panic "make_move", pv, c)
          | some g' =>
            let count := count + 1
            let out : NodeOut := pvsChild
              (fun a b d nodePv c => negamax fuel g' a b d (plies + 1) nodePv c) alpha beta depth count inCheck c
            match out.res with
            | .ok v =>
              let score := neg v
              let c := out.ctx
              let (bestMove, bestEval) := if score > bestEval then (some mv, score) else (bestMove, bestEval)
              if score ≥ beta then (.ok (.lower, bestMove, bestEval, count), pv, c)
              else if score > alpha then
                if 1 + out.pv.length > Gen.maxSearchDepth then (.panic "Could not construct PV", pv, c)
                else loop lf st score .exact bestMove bestEval count (mv :: out.pv) c
              else loop lf st alpha bound bestMove bestEval count pv c
            | .abort => (.abort, pv, out.ctx)
            | .panic w => (.panic w, pv, out.ctx)
    termination_by (fuel, lf + 1)
    match loop 300 (Picker.new prevBest) alpha .upper none i16Min 0 pv c with
    | (.abort, pv, c) => ⟨.abort, pv, c⟩
    | (.panic w, pv, c) => ⟨.panic w, pv, c⟩
    | (.ok (bound, bestMove, bestEval, count), pv, c) =>
      finishNode g depth plies inCheck bound bestMove bestEval count pv c
termination_by fuel _ _ _ _ _ _ _ => (fuel, 0)

structure Window where
  alpha : Int
  beta : Int
  width : Int

def clampAlpha (v : Int) : Int := max i16Min v
def clampBeta (v : Int) : Int := min i16Max v
/-- `i16::saturating_add/sub` (after the `fix:` for the aspiration overflow) -/
def sat (v : Int) : Int := max i16Min (min i16Max v)

/-- `aspiration_search` -/
def aspiration (fuel : Nat) (g : Game) (depth : Nat) (prev : Option Int) (pv : List Move) (c : Ctx) : NodeOut :=
  let w0 : Option Window :=
    if depth < Gen.p_aspiration_min_depth then some ⟨i16Min, i16Max, 0⟩
    else prev.map fun e =>
      ⟨clampAlpha (sat (e - Gen.p_aspiration_window_size)), clampBeta (sat (e + Gen.p_aspiration_window_size)),
       Gen.p_aspiration_window_size⟩
  match w0 with
  | none => ⟨.panic "eval.unwrap()", pv, c⟩
  | some w =>
    let rec loop (n : Nat) (w : Window) (pv : List Move) (c : Ctx) : NodeOut :=
      match n with
      | 0 => ⟨.panic "aspiration does not converge", pv, c⟩
      | n+1 =>
        let out := negamax fuel g w.alpha w.beta depth 0 pv c
        match out.res with
        | .ok e =>
          if e ≤ w.alpha then
            let width := sat (w.width + Int.tdiv w.width 2)
            loop n { w with width, alpha := clampAlpha (sat (w.alpha - width)) } out.pv out.ctx
          else if e ≥ w.beta then
            let width := sat (w.width + Int.tdiv w.width 2)
            loop n { w with width, beta := clampBeta (sat (w.beta + width)) } out.pv out.ctx
          else out
        | _ => out
    loop 64 w pv c

structure Info where
  depth : Nat
  seldepth : Nat
  score : Int
  nodes : Nat
  hashfullExact : Nat
  pv : List Move

structure SearchOut where
  best : Option Move          -- `none` = panic
  panic : Option String
  infos : List Info
  ctx : Ctx

/-- `iterative_deepening::search` + `search::search` (tablebase disabled) -/
def search (fuel : Nat) (g : Game) (tt : TT.Table) (history : Array Int) (depthLimit : Option Nat)
    (stopAt : Nat) (everyNode : Bool) : SearchOut :=
  let c : Ctx := { tt := tt.newGeneration, history := historyDecay history, killers := newKillers,
                   counter := newCounter, stopAt, everyNode }
  let maxDepth := depthLimit.getD Gen.maxSearchDepth
  let rec iter (d : Nat) (n : Nat) (prev : Option Int) (pv : List Move) (infos : List Info) (c : Ctx) :
      Option String × List Move × List Info × Ctx :=
    match n with
    | 0 => (none, pv, infos, c)
    | n+1 =>
      if d > maxDepth then (none, pv, infos, c) else
      let (c, go) := shouldStartNewSearch c d
      if !go then (none, pv, infos, c) else
      let out := aspiration fuel g d prev pv c
      match out.res with
      | .ok e =>
        match out.pv with
        | [] => (some "pv.first().unwrap()", out.pv, infos, out.ctx)
        | _ =>
          let info : Info := ⟨d, out.ctx.seldepth, e, out.ctx.nodes, out.ctx.tt.hashfullExact, out.pv⟩
          iter (d + 1) n (some e) out.pv (infos ++ [info]) out.ctx
      | .abort => (none, out.pv, infos, out.ctx)
      | .panic w => (some w, out.pv, infos, out.ctx)
  let (pan, pv, infos, c) := iter 1 256 none [] [] c
  match pan with
  | some w => ⟨none, some w, infos, c⟩
  | none =>
    match pv with
    | m :: _ => ⟨some m, none, infos, c⟩
    | [] =>
      -- `panic_move`: first move of a fresh picker at ply 0
      match nodeMoves g with
      | none => ⟨none, some "movegen", infos, c⟩
      | some nm =>
        match Picker.next (pickerEnv g nm c 0) (Picker.new none) with
        | (some m, _) => ⟨some m, none, infos, c⟩
        | (none, _) => ⟨none, some "panic_move: no legal move", infos, c⟩

end Search
end Tcheran
