import TcheranVerif.Model.Game
import TcheranVerif.Model.RayBase
/-!
# `Rules` — the specification: chess by the FIDE rules on a mailbox board

Deliberately written without bitboards, tables, pins or check masks: attacks walk the ray square by
square; a move is legal iff it is pseudo-legal and the mover's king is not attacked afterwards.
This is the oracle the implementation is compared against (C01, C02, C11, C17, C18, …) and the
right-hand side of the refinement theorems.
-/

namespace Tcheran
namespace Rules

abbrev RBoard := Vector (Option Piece) 64

structure Pos where
  board : RBoard
  player : Player
  rights : Rights
  ep : Option Sq
  halfmove : Nat
  plies : Nat
  deriving DecidableEq

def at' (b : RBoard) (s : Sq) : Option Piece := b[s.val]

/-- the rules' view of an engine position: the mailbox and the scalar fields -/
def ofGame (g : Game) : Pos :=
  { board := g.board.squares, player := g.player, rights := g.rights, ep := g.ep,
    halfmove := g.halfmove, plies := g.plies }

/-- first occupied square along a list of squares -/
def firstOccupied (b : RBoard) : List Sq → Option (Sq × Piece)
  | [] => none
  | t :: ts => match at' b t with
    | some pc => some (t, pc)
    | none => firstOccupied b ts

def isPiece (b : RBoard) (s : Option Sq) (k : PieceKind) (p : Player) : Bool :=
  match s with
  | none => false
  | some s => at' b s == some ⟨k, p⟩

/-- along direction `d` from `t`, the first man met is a `by'` slider of kind `k1` or a queen -/
def sliderHit (b : RBoard) (by' : Player) (t : Sq) (k1 : PieceKind) (d : Dir) : Bool :=
  match firstOccupied b (ray d t) with
  | some (_, pc) => pc.player == by' && (pc.kind == k1 || pc.kind == .queen)
  | none => false

/-- is square `t` attacked by a man of colour `by`? -/
def attacked (b : RBoard) (by' : Player) (t : Sq) : Bool :=
  -- pawns: a pawn of `by'` stands one rank *behind* t (from its own point of view) on an adjacent file
  isPiece b (offset t (-1) (-(fwd by'))) .pawn by' ||
  isPiece b (offset t 1 (-(fwd by'))) .pawn by' ||
  knightDeltas.any (fun d => isPiece b (offset t d.1 d.2) .knight by') ||
  kingDeltas.any (fun d => isPiece b (offset t d.1 d.2) .king by') ||
  Dir.diagonal.any (sliderHit b by' t .bishop) ||
  Dir.cardinal.any (sliderHit b by' t .rook)

def kingSq (b : RBoard) (p : Player) : Option Sq :=
  (List.finRange 64).find? (fun s => at' b s == some ⟨.king, p⟩)

def inCheck (b : RBoard) (p : Player) : Bool :=
  match kingSq b p with
  | some k => attacked b p.other k
  | none => false

def allPromos : List Promo := [.queen, .rook, .bishop, .knight]

/-- slider destinations along one ray: empty squares, then possibly one capture -/
def slideMoves (b : RBoard) (p : Player) (src : Sq) : List Sq → List Move
  | [] => []
  | t :: ts => match at' b t with
    | none => Move.quiet src t :: slideMoves b p src ts
    | some pc => if pc.player ≠ p then [Move.capture src t] else []

def stepMoves (b : RBoard) (p : Player) (src : Sq) (deltas : List (Int × Int)) : List Move :=
  deltas.filterMap fun d =>
    match offset src d.1 d.2 with
    | none => none
    | some t => match at' b t with
      | none => some (Move.quiet src t)
      | some pc => if pc.player ≠ p then some (Move.capture src t) else none

def pawnMoves (pos : Pos) (src : Sq) : List Move :=
  let b := pos.board
  let p := pos.player
  let f := fwd p
  let pushes : List Move :=
    match offset src 0 f with
    | none => []
    | some t1 =>
      if (at' b t1).isSome then [] else
      let single :=
        if t1.rank = promoRank p then allPromos.map (Move.quietPromotion src t1)
        else [Move.quiet src t1]
      let double :=
        if src.rank = startRank p then
          match offset src 0 (2 * f) with
          | some t2 => if (at' b t2).isNone then [Move.quiet src t2] else []
          | none => []
        else []
      single ++ double
  let caps : List Move := ([-1, 1] : List Int).flatMap fun df =>
    match offset src df f with
    | none => []
    | some t =>
      match at' b t with
      | some pc =>
        if pc.player ≠ p then
          if t.rank = promoRank p then allPromos.map (Move.capturePromotion src t)
          else [Move.capture src t]
        else []
      | none => if pos.ep = some t then [Move.enPassant src t] else []
  pushes ++ caps

def pieceMoves (pos : Pos) (src : Sq) (pc : Piece) : List Move :=
  let b := pos.board
  let p := pos.player
  match pc.kind with
  | .pawn => pawnMoves pos src
  | .knight => stepMoves b p src knightDeltas
  | .king => stepMoves b p src kingDeltas
  | .bishop => Dir.diagonal.flatMap fun d => slideMoves b p src (ray d src)
  | .rook => Dir.cardinal.flatMap fun d => slideMoves b p src (ray d src)
  | .queen => Dir.all.flatMap fun d => slideMoves b p src (ray d src)

/-- castling: right held, king and rook at home, squares between empty, king not in check and
    neither crossing nor landing on an attacked square -/
def castleMoves (pos : Pos) : List Move :=
  let b := pos.board
  let p := pos.player
  let r := pos.rights.forP p
  let ks := Game.kingStart p
  let home := at' b ks == some ⟨.king, p⟩
  let mk (right : Bool) (rookSq : Sq) (empties : List Sq) (path : List Sq) (dst : Sq) : List Move :=
    if right && home && at' b rookSq == some ⟨.rook, p⟩
        && empties.all (fun s => (at' b s).isNone)
        && !(attacked b p.other ks)
        && path.all (fun s => !(attacked b p.other s)) then
      [Move.castles ks dst]
    else []
  match p with
  | .white => mk r.kingSide H1 [F1, G1] [F1, G1] G1 ++ mk r.queenSide A1 [B1, C1, D1] [D1, C1] C1
  | .black => mk r.kingSide H8 [F8, G8] [F8, G8] G8 ++ mk r.queenSide A8 [B8, C8, D8] [D8, C8] C8

def pseudoMoves (pos : Pos) : List Move :=
  ((List.finRange 64).flatMap fun s =>
    match at' pos.board s with
    | some pc => if pc.player = pos.player then pieceMoves pos s pc else []
    | none => []) ++ castleMoves pos

def setSq (b : RBoard) (s : Sq) (v : Option Piece) : RBoard := b.set s.val v

/-- placement after a (pseudo-legal) move -/
def applyBoard (b : RBoard) (p : Player) (m : Move) : RBoard :=
  match at' b m.src with
  | none => b
  | some moved =>
    let b1 := setSq b m.src none
    let placed : Piece := match m.promotion with
      | some pr => ⟨pr.piece, p⟩
      | none => moved
    let b2 := setSq b1 m.dst (some placed)
    let b3 := if m.isEnPassant then
        match offset m.dst 0 (-(fwd p)) with
        | some v => setSq b2 v none
        | none => b2
      else b2
    if m.isCastling then
      match Game.castleSquares p m.dst with
      | some (rf, rt) => setSq (setSq b3 rf none) rt (some ⟨.rook, p⟩)
      | none => b3
    else b3

def dropRight (r : Rights) (p : Player) (side : Side) : Rights := Game.Rights.remove r p side

/-- the position the rules prescribe after move `m` -/
def apply (pos : Pos) (m : Move) : Pos :=
  let b := pos.board
  let p := pos.player
  let o := p.other
  let moved := at' b m.src
  let captured := at' b m.dst
  let nb := applyBoard b p m
  let isPawn := moved.any (fun pc => pc.kind == .pawn)
  -- rights: lost by moving the king or a rook from its home square, or by capturing a rook at home
  let r := pos.rights
  let r := if moved == some ⟨.king, p⟩ && m.src == Game.kingStart p then
      dropRight (dropRight r p .king) p .queen else r
  let r := if moved == some ⟨.rook, p⟩ && m.src == Game.kingsideRookStart p then dropRight r p .king else r
  let r := if moved == some ⟨.rook, p⟩ && m.src == Game.queensideRookStart p then dropRight r p .queen else r
  let r := if captured.isSome && m.dst == Game.kingsideRookStart o then dropRight r o .king else r
  let r := if captured.isSome && m.dst == Game.queensideRookStart o then dropRight r o .queen else r
  -- en-passant target: after a double push, and (engine convention) only if an enemy pawn stands
  -- beside the pushed pawn
  let ep : Option Sq :=
    if isPawn && m.src.rank = startRank p && (m.dst.rank : Int) = m.src.rank + 2 * fwd p then
      if isPiece nb (offset m.dst (-1) 0) .pawn o || isPiece nb (offset m.dst 1 0) .pawn o then
        offset m.src 0 (fwd p)
      else none
    else none
  { board := nb, player := o, rights := r, ep,
    halfmove := if captured.isSome || isPawn then 0 else pos.halfmove + 1,
    plies := pos.plies + 1 }

def legalMoves (pos : Pos) : List Move :=
  (pseudoMoves pos).filter fun m => !(inCheck (applyBoard pos.board pos.player m) pos.player)

def isCheckmate (pos : Pos) : Bool := inCheck pos.board pos.player && (legalMoves pos).isEmpty
def isStalemate (pos : Pos) : Bool := !(inCheck pos.board pos.player) && (legalMoves pos).isEmpty

def count (b : RBoard) (f : Piece → Bool) : Nat :=
  ((List.finRange 64).filter fun s => (at' b s).any f).length

/-- the `Legal` predicate of DESIGN §4 (the quantifier of C01) as a decidable `Bool` -/
def legalPos (pos : Pos) : Bool :=
  let b := pos.board
  let p := pos.player
  let kingsOk := count b (· == ⟨.king, .white⟩) == 1 && count b (· == ⟨.king, .black⟩) == 1
  let pawnsOk := (List.finRange 64).all fun (s : Sq) =>
    !((s.rank == 0 || s.rank == 7) && (at' b s).any (fun pc => pc.kind == .pawn))
  let notInCheck := !(inCheck b p.other)
  let rightOk (pl : Player) (side : Side) : Bool :=
    !(Game.Rights.has pos.rights pl side) ||
      (at' b (Game.kingStart pl) == some ⟨.king, pl⟩ &&
       at' b (match side with | .king => Game.kingsideRookStart pl | .queen => Game.queensideRookStart pl)
         == some ⟨.rook, pl⟩)
  let rightsOk := rightOk .white .king && rightOk .white .queen && rightOk .black .king && rightOk .black .queen
  let epOk := match pos.ep with
    | none => true
    | some t =>
      t.rank == (match p with | .white => 5 | .black => 2) &&
      (at' b t).isNone &&
      isPiece b (offset t 0 (-(fwd p))) .pawn p.other &&
      (match offset t 0 (fwd p) with | some s => (at' b s).isNone | none => false)
  let menOk (pl : Player) : Bool :=
    let n (k : PieceKind) := count b (· == ⟨k, pl⟩)
    let excess := (n .knight - 2) + (n .bishop - 2) + (n .rook - 2) + (n .queen - 1)
    count b (fun pc => pc.player == pl) ≤ 16 && n .pawn + excess ≤ 8
  kingsOk && pawnsOk && notInCheck && rightsOk && epOk && menOk .white && menOk .black
    && pos.halfmove < 1000000 && pos.plies < 1000000

end Rules
end Tcheran
