/-!
# Bitboards, squares, directions — model of `src/chess/{bitboard,square,direction,player,piece}.rs`

Import-free (core only) so that the driver links as a `lean_exe`.
Conventions: `Sq = Fin 64` with `idx = 8*rank + file` (as `Square::from_idxs`), `BB = BitVec 64`.
Every shift is written exactly as in `bitboard.rs` (`east = (<<< 1) &&& NOT_A_FILE`, …).
-/

namespace Tcheran

abbrev BB := BitVec 64
abbrev Sq := Fin 64

inductive Player | white | black
  deriving DecidableEq, Repr, Inhabited

def Player.other : Player → Player
  | .white => .black
  | .black => .white

def Player.idx : Player → Nat
  | .white => 0
  | .black => 1

inductive PieceKind | pawn | knight | bishop | rook | queen | king
  deriving DecidableEq, Repr, Inhabited

def PieceKind.idx : PieceKind → Nat
  | .pawn => 0 | .knight => 1 | .bishop => 2 | .rook => 3 | .queen => 4 | .king => 5

def PieceKind.all : List PieceKind := [.pawn, .knight, .bishop, .rook, .queen, .king]

structure Piece where
  kind : PieceKind
  player : Player
  deriving DecidableEq, Repr, Inhabited

inductive Dir | N | NE | E | SE | S | SW | W | NW
  deriving DecidableEq, Repr

def Dir.all : List Dir := [.N, .NE, .E, .SE, .S, .SW, .W, .NW]
def Dir.cardinal : List Dir := [.N, .E, .S, .W]
def Dir.diagonal : List Dir := [.NE, .SE, .SW, .NW]

def Dir.opp : Dir → Dir
  | .N => .S | .NE => .SW | .E => .W | .SE => .NW | .S => .N | .SW => .NE | .W => .E | .NW => .SE

/-- (file delta, rank delta) of one step -/
def Dir.delta : Dir → Int × Int
  | .N => (0, 1) | .NE => (1, 1) | .E => (1, 0) | .SE => (1, -1)
  | .S => (0, -1) | .SW => (-1, -1) | .W => (-1, 0) | .NW => (-1, 1)

namespace BB

def empty : BB := 0#64
def full : BB := 0xFFFFFFFFFFFFFFFF#64

def aFile : BB := 0x0101010101010101#64
def hFile : BB := 0x8080808080808080#64
def notA : BB := 0xFEFEFEFEFEFEFEFE#64
def notH : BB := 0x7F7F7F7F7F7F7F7F#64
def rank1 : BB := 0x00000000000000FF#64
def rank2 : BB := 0x000000000000FF00#64
def rank4 : BB := 0x00000000FF000000#64
def rank5 : BB := 0x000000FF00000000#64
def rank7 : BB := 0x00FF000000000000#64
def rank8 : BB := 0xFF00000000000000#64
def corners : BB := 0x8100000000000081#64
def edges : BB := 0xFF818181818181FF#64
def lightSquares : BB := 0x55AA55AA55AA55AA#64

def north (b : BB) : BB := b <<< 8
def south (b : BB) : BB := b >>> 8
def east (b : BB) : BB := (b <<< 1) &&& notA
def northEast (b : BB) : BB := (b <<< 9) &&& notA
def southEast (b : BB) : BB := (b >>> 7) &&& notA
def west (b : BB) : BB := (b >>> 1) &&& notH
def southWest (b : BB) : BB := (b >>> 9) &&& notH
def northWest (b : BB) : BB := (b <<< 7) &&& notH

def inDir (d : Dir) (b : BB) : BB :=
  match d with
  | .N => north b | .NE => northEast b | .E => east b | .SE => southEast b
  | .S => south b | .SW => southWest b | .W => west b | .NW => northWest b

def forward (p : Player) (b : BB) : BB :=
  match p with | .white => north b | .black => south b

def backward (p : Player) (b : BB) : BB :=
  match p with | .white => south b | .black => north b

/-- `u64::swap_bytes` -/
def flipV (b : BB) : BB :=
  (b <<< 56) |||
  ((b <<< 40) &&& 0x00FF000000000000#64) |||
  ((b <<< 24) &&& 0x0000FF0000000000#64) |||
  ((b <<< 8)  &&& 0x000000FF00000000#64) |||
  ((b >>> 8)  &&& 0x00000000FF000000#64) |||
  ((b >>> 24) &&& 0x0000000000FF0000#64) |||
  ((b >>> 40) &&& 0x000000000000FF00#64) |||
  (b >>> 56)

end BB

/-- `Square::bb` -/
def bb (s : Sq) : BB := 1#64 <<< s.val

/-- membership wrapper (kept opaque to `simp`; see `Proofs/Bits.lean`) -/
def mem (b : BB) (t : Sq) : Bool := b.getLsbD t.val

/-- iteration order of `impl IntoIterator for Bitboard` (pop-lsb: ascending square index) -/
def BB.toList (b : BB) : List Sq := (List.finRange 64).filter (mem b)

def BB.count (b : BB) : Nat := (BB.toList b).length

def BB.any (b : BB) : Bool := b != 0#64
def BB.isEmpty (b : BB) : Bool := b == 0#64

/-- `Bitboard::single` / `Square::from_bitboard`: trailing zeros (64 for the empty board ⇒ not a
    square; the Rust `debug_assert`s `count == 1`). -/
def BB.lsbSq? (b : BB) : Option Sq := (BB.toList b).head?

def Sq.file (s : Sq) : Nat := s.val % 8
def Sq.rank (s : Sq) : Nat := s.val / 8

def Sq.mk? (file rank : Int) : Option Sq :=
  if h : 0 ≤ file ∧ file < 8 ∧ 0 ≤ rank ∧ rank < 8 then
    some ⟨(rank * 8 + file).toNat, by omega⟩
  else none

def Sq.ofFR (file rank : Nat) (hf : file < 8 := by decide) (hr : rank < 8 := by decide) : Sq :=
  ⟨rank * 8 + file, by omega⟩

/-- one square-level step in a direction; `none` off the board -/
def Sq.step (d : Dir) (s : Sq) : Option Sq :=
  Sq.mk? (s.file + d.delta.1) (s.rank + d.delta.2)

/-- rank flip (`Square::relative_for(Black)`) -/
def Sq.flip (s : Sq) : Sq := ⟨s.val ^^^ 56, by
  have h : s.val < 64 := s.isLt
  have : s.val ^^^ 56 < 2 ^ 6 := Nat.xor_lt_two_pow (by omega) (by omega)
  omega⟩

def Sq.forward (p : Player) (s : Sq) : Option Sq :=
  match p with | .white => s.step .N | .black => s.step .S

def Sq.backward (p : Player) (s : Sq) : Option Sq :=
  match p with | .white => s.step .S | .black => s.step .N

def fileChar (f : Nat) : Char := Char.ofNat (97 + f)
def rankChar (r : Nat) : Char := Char.ofNat (49 + r)

def Sq.notation (s : Sq) : String := String.ofList [fileChar s.file, rankChar s.rank]

def Sq.ofNotation? (f r : Char) : Option Sq :=
  let fi := f.toNat - 97
  let ri := r.toNat - 49
  if 97 ≤ f.toNat ∧ f.toNat ≤ 104 ∧ 49 ≤ r.toNat ∧ r.toNat ≤ 56 then Sq.mk? fi ri else none

-- named squares used by castling code
def A1 : Sq := 0
def B1 : Sq := 1
def C1 : Sq := 2
def D1 : Sq := 3
def E1 : Sq := 4
def F1 : Sq := 5
def G1 : Sq := 6
def H1 : Sq := 7
def A8 : Sq := 56
def B8 : Sq := 57
def C8 : Sq := 58
def D8 : Sq := 59
def E8 : Sq := 60
def F8 : Sq := 61
def G8 : Sq := 62
def H8 : Sq := 63

def hex (b : BB) : String :=
  let digits := (List.range 16).reverse.map fun i =>
    let d := (b.toNat >>> (4 * i)) % 16
    if d < 10 then Char.ofNat (48 + d) else Char.ofNat (87 + d)
  String.ofList digits

end Tcheran
