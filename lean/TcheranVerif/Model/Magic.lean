import TcheranVerif.Model.Attacks
import TcheranVerif.Gen.Magics
/-!
# Magic-bitboard tables — model of `magics.rs::{init, rook_attacks, bishop_attacks}` and of the
per-square tables in `king.rs`, `knights.rs`, `pawns.rs`, `between.rs`.

The Rust tables are `static mut` arrays filled by `init()`; here they are closed terms (compiled code
evaluates them once). `rookAttacks`/`bishopAttacks` read the shared table through `getD`; the
theorem `Props.C07.index_in_range` shows the default is never used (Rust uses `get_unchecked`).
-/

namespace Tcheran

def rookMagic (s : Sq) : BB × Nat := Gen.rookMagics.getD s.val (0#64, 0)
def bishopMagic (s : Sq) : BB × Nat := Gen.bishopMagics.getD s.val (0#64, 0)

def rookIndex (s : Sq) (occ : BB) : Nat :=
  tableIndex (rookMagic s).1 (rookMagic s).2 Gen.rookShift (rookMask s) occ

def bishopIndex (s : Sq) (occ : BB) : Nat :=
  tableIndex (bishopMagic s).1 (bishopMagic s).2 Gen.bishopShift (bishopMask s) occ

/-- the list of `(index, value)` writes performed by `initialise_rook_attacks` -/
def rookWrites : List (Nat × BB) :=
  (List.finRange 64).flatMap fun s =>
    (subsetsOf (rookMask s)).map fun b => (rookIndex s b, genRookAttacks s b)

def bishopWrites : List (Nat × BB) :=
  (List.finRange 64).flatMap fun s =>
    (subsetsOf (bishopMask s)).map fun b => (bishopIndex s b, genBishopAttacks s b)

/-- all writes in the order `magics::init` performs them -/
def allWrites : List (Nat × BB) :=
  if Gen.rookFirst then rookWrites ++ bishopWrites else bishopWrites ++ rookWrites

/-- `ATTACKS_TABLE[idx] = v` is a checked index in Rust: an out-of-range write panics in `init`.
    `setIfInBounds` drops it instead; `Props.C07.writes_in_range` shows that never happens. -/
def applyWrites (t : Array BB) (ws : List (Nat × BB)) : Array BB :=
  ws.foldl (fun t w => t.setIfInBounds w.1 w.2) t

def attackTable : Array BB := applyWrites (Array.replicate Gen.tableSize 0#64) allWrites

def rookAttacks (s : Sq) (occ : BB) : BB := attackTable.getD (rookIndex s occ) 0#64
def bishopAttacks (s : Sq) (occ : BB) : BB := attackTable.getD (bishopIndex s occ) 0#64

def kingTable : Array BB := Array.ofFn (n := 64) fun s => genKingAttacks s
def knightTable : Array BB := Array.ofFn (n := 64) fun s => genKnightAttacks s
def pawnTableW : Array BB := Array.ofFn (n := 64) fun s => genPawnAttacks s .white
def pawnTableB : Array BB := Array.ofFn (n := 64) fun s => genPawnAttacks s .black
def betweenTable : Array BB := Array.ofFn (n := 4096) fun i =>
  genBetween ⟨i.val / 64, by omega⟩ ⟨i.val % 64, by omega⟩

def kingAttacks (s : Sq) : BB := kingTable.getD s.val 0#64
def knightAttacks (s : Sq) : BB := knightTable.getD s.val 0#64
def pawnAttacks (s : Sq) (p : Player) : BB :=
  match p with
  | .white => pawnTableW.getD s.val 0#64
  | .black => pawnTableB.getD s.val 0#64
def between (s1 s2 : Sq) : BB := betweenTable.getD (s1.val * 64 + s2.val) 0#64

end Tcheran
