import TcheranVerif.Model.Board
import Std.Data.HashMap
/-!
# Transposition table — model of `src/engine/transposition_table.rs` and
`src/engine/search/transposition.rs`

Slots are a finite map from slot index to entry (absent = `None`); `generation` is the `u8` counter (wrapping
after the `fix:`); `occupied` the fill counter. `insert`/`get` on a table with zero entries are
no-ops (after the `fix:` for `Hash 0`); before it they divided by zero.
-/

namespace Tcheran
namespace TT

inductive Bound | exact | upper | lower
  deriving DecidableEq, Repr, Inhabited

/-- `SearchTranspositionTableData` -/
structure Data where
  bound : Bound
  eval : Int
  depth : Nat
  age : Nat
  best : Option Move
  deriving DecidableEq, Inhabited

structure Entry where
  key : BB
  data : Data
  deriving DecidableEq, Inhabited

/-- `should_overwrite_with` -/
def shouldOverwrite (old new : Data) : Bool :=
  if new.age ≠ old.age then true
  else if new.depth > old.depth then true
  else if new.bound = .exact then true
  else old.bound ≠ .exact

structure Table where
  n : Nat
  slots : Std.HashMap Nat Entry
  generation : Nat
  occupied : Nat
  sizeMb : Nat

def entrySize : Nat := 16

/-- `calculate_number_of_entries` -/
def entriesFor (mb : Nat) : Nat := mb * 1024 * 1024 / entrySize

def empty (mb : Nat) : Table :=
  { n := entriesFor mb, slots := {}, generation := 0, occupied := 0, sizeMb := mb }

/-- `TranspositionTable::new` = zero-sized table then `resize` (which returns early when the size
    is unchanged, i.e. for `new(0)`) -/
def new (mb : Nat) : Table := empty mb

def Table.reset (t : Table) : Table :=
  { t with slots := {}, generation := 0, occupied := 0 }

def Table.resize (t : Table) (mb : Nat) : Table :=
  if t.sizeMb = mb then t else empty mb

def Table.newGeneration (t : Table) : Table :=
  { t with generation := (t.generation + 1) % 256 }

def Table.idx (t : Table) (key : BB) : Nat := key.toNat % t.n

def Table.insert (t : Table) (key : BB) (d : Data) : Table :=
  if t.n = 0 then t else
  let i := t.idx key
  match t.slots[i]? with
  | some old =>
    if shouldOverwrite old.data d then { t with slots := t.slots.insert i ⟨key, d⟩ } else t
  | none => { t with slots := t.slots.insert i ⟨key, d⟩, occupied := t.occupied + 1 }

def Table.get (t : Table) (key : BB) : Option Data :=
  if t.n = 0 then none else
  match t.slots[t.idx key]? with
  | some e => if e.key = key then some e.data else none
  | none => none

/-- exact value of the fill indicator, `⌊1000 · occupied / n⌋` (the Rust computes it in `f32`;
    `0/0` is NaN, which casts to 0) -/
def Table.hashfullExact (t : Table) : Nat := if t.n = 0 then 0 else 1000 * t.occupied / t.n

end TT
end Tcheran
