import TcheranVerif.Proofs.SearchSound
/-!
# Stopping (C09): once the flag has read true nothing more is examined

`stoppedNodes` is a ghost field of the search context, written by `poll` at the consultation that first
reads true and read by no code. `NotYet c` : the flag has not read true; `Stopped c` : it read true at the
**last** consultation made and the node counter still has the value it had then. Every function of the
search keeps `NotYet` until it returns `abort`, and returns `abort` only in a `Stopped` context which every
caller hands up unchanged (`negamax_ab`, by the same double induction as soundness). `search_quiet` is the
statement for a whole search.
-/

namespace Tcheran
namespace Search
open Board Game Rules

/-- the flag has not read true yet -/
def NotYet (c : Ctx) : Prop := c.stoppedNodes = none ∧ (c.stopAt = 0 ∨ c.polls < c.stopAt)
/-- the flag has read true, at the last consultation made, and no node has been counted since -/
def Stopped (c : Ctx) : Prop := c.stoppedNodes = some c.nodes ∧ c.stopAt ≠ 0 ∧ c.polls = c.stopAt

def AbPost {α} (res : Res α) (c : Ctx) : Prop :=
  match res with
  | .abort => Stopped c
  | _ => NotYet c

theorem notYet_congr (c c' : Ctx) (h1 : c'.stoppedNodes = c.stoppedNodes) (h2 : c'.stopAt = c.stopAt)
    (h3 : c'.polls = c.polls) (h : NotYet c) : NotYet c' := by
  unfold NotYet at *; rw [h1, h2, h3]; exact h

theorem poll_cases (c : Ctx) (h : NotYet c) :
    ((poll c).2 = false ∧ NotYet (poll c).1) ∨ ((poll c).2 = true ∧ Stopped (poll c).1) := by
  obtain ⟨h1, h2⟩ := h
  unfold poll NotYet Stopped
  simp only [h1, Option.isNone_none, Bool.and_true]
  by_cases hs : c.stopAt = 0
  · left; simp [hs]
  · by_cases hp : c.polls + 1 ≥ c.stopAt
    · right
      have : c.polls + 1 = c.stopAt := by omega
      simp [hs, hp, this]
    · left
      simp [hs, hp]
      omega

theorem shouldStop_cases (c : Ctx) (h : NotYet c) :
    ((shouldStop c).2 = false ∧ NotYet (shouldStop c).1) ∨ ((shouldStop c).2 = true ∧ Stopped (shouldStop c).1) := by
  unfold shouldStop
  by_cases he : c.everyNode = true
  · simp only [he, if_true]
    rcases poll_cases c h with ⟨p1, p2⟩ | ⟨p1, p2⟩
    · rw [p1]
      simp only [Bool.false_eq_true, if_false]
      have hn : (poll c).1.nodes = c.nodes := rfl
      have hc : (poll c).1.nextCheckAt = c.nextCheckAt := rfl
      by_cases hlt : (poll c).1.nodes < (poll c).1.nextCheckAt
      · rw [if_pos hlt]; exact Or.inl ⟨rfl, p2⟩
      · rw [if_neg hlt]
        rcases poll_cases (poll c).1 p2 with ⟨q1, q2⟩ | ⟨q1, q2⟩
        · rw [q1]; simp only [Bool.false_eq_true, if_false]
          exact Or.inl ⟨trivial, notYet_congr _ _ rfl rfl rfl q2⟩
        · rw [q1]; simp only [if_true]
          exact Or.inr ⟨trivial, q2⟩
    · rw [p1]; simp only [if_true]
      exact Or.inr ⟨trivial, p2⟩
  · simp only [he, Bool.false_eq_true, if_false]
    by_cases hlt : c.nodes < c.nextCheckAt
    · rw [if_pos hlt]; exact Or.inl ⟨rfl, h⟩
    · rw [if_neg hlt]
      rcases poll_cases c h with ⟨q1, q2⟩ | ⟨q1, q2⟩
      · rw [q1]; simp only [Bool.false_eq_true, if_false]
        exact Or.inl ⟨trivial, notYet_congr _ _ rfl rfl rfl q2⟩
      · rw [q1]; simp only [if_true]
        exact Or.inr ⟨trivial, q2⟩

theorem shouldStart_cases (c : Ctx) (d : Nat) (h : NotYet c) :
    ((shouldStartNewSearch c d).2 = true ∧ NotYet (shouldStartNewSearch c d).1) ∨
    ((shouldStartNewSearch c d).2 = false ∧ Stopped (shouldStartNewSearch c d).1) := by
  unfold shouldStartNewSearch
  split
  · exact Or.inl ⟨rfl, h⟩
  · rcases poll_cases c h with ⟨q1, q2⟩ | ⟨q1, q2⟩
    · left; simp only [q1, Bool.not_false]; exact ⟨trivial, q2⟩
    · right; simp only [q1, Bool.not_true]; exact ⟨trivial, q2⟩

theorem abPost_ok {α} (v : α) (c : Ctx) : AbPost (.ok v) c = NotYet c := rfl
theorem abPost_panic {α} (w : String) (c : Ctx) : AbPost (.panic w : Res α) c = NotYet c := rfl
theorem abPost_abort {α} (c : Ctx) : AbPost (.abort : Res α) c = Stopped c := rfl

theorem ab_of_eq {α} {x : Res α × Ctx} {r : Res α} {c' : Ctx} (hq : x = (r, c')) (h : AbPost x.1 x.2) :
    AbPost r c' := by rw [hq] at h; exact h

theorem qloop_ab (fuel : Nat)
    (ih : ∀ g a b p c, NotYet c → AbPost (quiescence fuel g a b p c).1 (quiescence fuel g a b p c).2)
    (g : Game) (beta : Int) (plies : Nat) (nm : NodeMoves) :
    ∀ lf st alpha best c, NotYet c →
      AbPost (quiescence.loop fuel g beta plies nm lf st alpha best c).1
        (quiescence.loop fuel g beta plies nm lf st alpha best c).2 := by
  intro lf
  induction lf with
  | zero => intro st alpha best c h; rw [quiescence.loop.eq_def]; exact h
  | succ n ihn =>
    intro st alpha best c h
    rw [quiescence.loop.eq_def]
    simp only
    split
    · exact h
    · split
      · exact h
      · split
        · rename_i v c' hq
          have hc' : NotYet c' := ab_of_eq hq (ih _ _ _ _ c h)
          split
          · exact hc'
          · exact ihn _ _ _ c' hc'
        · rename_i r c' _ hq
          exact ab_of_eq hq (ih _ _ _ _ c h)

theorem quiescence_ab : ∀ fuel g a b p c, NotYet c →
    AbPost (quiescence fuel g a b p c).1 (quiescence fuel g a b p c).2 := by
  intro fuel
  induction fuel with
  | zero => intro g a b p c h; rw [quiescence.eq_def]; exact h
  | succ n ih =>
    intro g a b p c h
    rw [quiescence.eq_def]
    simp only
    have h0 : NotYet { c with seldepth := max c.seldepth p, nodes := c.nodes + 1 } :=
      notYet_congr c _ rfl rfl rfl h
    have hs := shouldStop_cases _ h0
    generalize shouldStop { c with seldepth := max c.seldepth p, nodes := c.nodes + 1 } = ss at hs ⊢
    obtain ⟨c1, stop⟩ := ss
    simp only at hs ⊢
    split
    · split <;> exact h0
    · split
      · exact h0
      · split
        · exact h0
        · split
          · rename_i hst
            rcases hs with ⟨e, _⟩ | ⟨_, hS⟩
            · rw [hst] at e; cases e
            · exact hS
          · rename_i hst
            have hc1 : NotYet c1 := by
              rcases hs with ⟨_, hN⟩ | ⟨e, _⟩
              · exact hN
              · exact absurd e hst
            split
            · exact hc1
            · split
              · exact hc1
              · split
                · exact hc1
                · exact qloop_ab n ih _ _ _ _ _ _ _ _ c1 hc1

theorem pvsChild_ab (search : Int → Int → Nat → List Move → Ctx → NodeOut)
    (hs : ∀ a b d pv c, NotYet c → AbPost (search a b d pv c).res (search a b d pv c).ctx)
    (alpha beta : Int) (depth count : Nat) (inCheck : Bool) (c : Ctx) (h : NotYet c) :
    AbPost (pvsChild search alpha beta depth count inCheck c).res (pvsChild search alpha beta depth count inCheck c).ctx := by
  unfold pvsChild
  simp only
  split
  · exact hs _ _ _ _ _ h
  · have hz := hs (neg alpha - 1) (neg alpha)
      (depth - (if (decide (depth ≥ Gen.p_lmr_depth) && decide (count ≥ Gen.p_lmr_move_threshold)) = true then
        max 1 (if inCheck = true then lmrReduction depth count - 1 else lmrReduction depth count) else 1)) [] c h
    split
    · rename_i v hv
      rw [hv] at hz
      split
      · exact hs _ _ _ _ _ hz
      · rw [hv]; exact hz
    · exact hz

theorem nullMovePhase_ab (child : Ctx → NodeOut) (doNull : Bool)
    (hch : ∀ c, NotYet c → AbPost (child c).res (child c).ctx) (beta : Int) (pv : List Move) (c : Ctx) (h : NotYet c) :
    (∀ o, (nullMovePhase child doNull beta pv c).1 = some o → AbPost o.res o.ctx) ∧
    ((nullMovePhase child doNull beta pv c).1 = none → NotYet (nullMovePhase child doNull beta pv c).2) := by
  unfold nullMovePhase
  split
  · have := hch c h
    simp only
    split
    · rename_i v hv
      rw [hv] at this
      split
      · exact ⟨fun o ho => (by cases ho; exact this), fun hn => (by cases hn)⟩
      · exact ⟨fun o ho => (by cases ho), fun _ => this⟩
    · exact ⟨fun o ho => (by cases ho; exact this), fun hn => (by cases hn)⟩
  · exact ⟨fun o ho => (by cases ho), fun _ => h⟩

theorem finishNode_ab (g : Game) (depth plies : Nat) (inCheck : Bool) (bound : TT.Bound)
    (bestMove : Option Move) (bestEval : Int) (count : Nat) (pv : List Move) (c : Ctx) (h : NotYet c) :
    AbPost (finishNode g depth plies inCheck bound bestMove bestEval count pv c).res
      (finishNode g depth plies inCheck bound bestMove bestEval count pv c).ctx := by
  unfold finishNode
  split
  · exact h
  · simp only
    split
    · exact h
    · rename_i c' hupd
      have hc' : NotYet c' := by
        split at hupd
        · split at hupd
          · cases hupd
          · split at hupd
            · split at hupd
              · cases hupd
              · cases hupd; exact notYet_congr c _ rfl rfl rfl h
            · cases hupd; exact h
        · cases hupd; exact h
      exact notYet_congr c' _ rfl rfl rfl hc'

theorem nloop_ab (fuel : Nat)
    (ih : ∀ g a b d p pv c, NotYet c → AbPost (negamax fuel g a b d p pv c).res (negamax fuel g a b d p pv c).ctx)
    (g : Game) (alpha0 beta : Int) (plies : Nat) (inCheck : Bool) (depth : Nat) (ev : Int) (nm : NodeMoves) :
    ∀ lf st alpha bound bestMove bestEval count pv c, NotYet c →
      AbPost (negamax.loop fuel g alpha0 beta plies inCheck depth ev nm lf st alpha bound bestMove bestEval count pv c).1
        (negamax.loop fuel g alpha0 beta plies inCheck depth ev nm lf st alpha bound bestMove bestEval count pv c).2.2 := by
  intro lf
  induction lf with
  | zero => intro st alpha bound bestMove bestEval count pv c h; rw [negamax.loop.eq_def]; exact h
  | succ n ihn =>
    intro st alpha bound bestMove bestEval count pv c h
    rw [negamax.loop.eq_def]
    simp only
    split
    · exact h
    · split
      · exact ihn _ _ _ _ _ _ _ c h
      · split
        · exact h
        · rename_i g' hmake
          have hout := pvsChild_ab (fun a b d nodePv c => negamax fuel g' a b d (plies + 1) nodePv c)
            (fun a b d pv c h => ih g' a b d (plies + 1) pv c h) alpha beta depth (count + 1) inCheck c h
          generalize pvsChild (fun a b d nodePv c => negamax fuel g' a b d (plies + 1) nodePv c) alpha beta depth
            (count + 1) inCheck c = out at hout ⊢
          split
          · rename_i v hres
            rw [hres] at hout
            generalize (if neg v > bestEval then (some _, neg v) else (bestMove, bestEval)) = bb
            split
            · exact hout
            · split
              · split
                · exact hout
                · exact ihn _ _ _ _ _ _ _ out.ctx hout
              · exact ihn _ _ _ _ _ _ _ out.ctx hout
          · rename_i hres; rw [hres] at hout; exact hout
          · rename_i w hres; rw [hres] at hout; exact hout

theorem negamax_ab : ∀ fuel g a b d p pv c, NotYet c →
    AbPost (negamax fuel g a b d p pv c).res (negamax fuel g a b d p pv c).ctx := by
  intro fuel
  induction fuel with
  | zero => intro g a b d p pv c h; rw [negamax.eq_def]; exact h
  | succ n ih =>
    intro g a b d p pv c h
    rw [negamax.eq_def]
    simp only
    split
    · exact h
    have hs := shouldStop_cases c h
    generalize shouldStop c = ss at hs ⊢
    obtain ⟨c1, stop⟩ := ss
    simp only at hs ⊢
    split
    · rename_i hst
      rcases hs with ⟨e, _⟩ | ⟨_, hS⟩
      · rw [hst] at e; cases e
      · exact hS
    rename_i hst
    have hc1 : NotYet c1 := by
      rcases hs with ⟨_, hN⟩ | ⟨e, _⟩
      · exact hN
      · exact absurd e hst
    have early : ∀ (x : Ctx), x.stoppedNodes = c1.stoppedNodes → x.stopAt = c1.stopAt → x.polls = c1.polls → NotYet x :=
      fun x h1 h2 h3 => notYet_congr c1 x h1 h2 h3 hc1
    split
    · exact early _ rfl rfl rfl
    split
    · exact early _ rfl rfl rfl
    split
    · exact early _ rfl rfl rfl
    rename_i inCheck hchk
    generalize (if (inCheck && decide (d < Gen.maxSearchDepth)) = true then d + 1 else d) = d'
    split
    · exact quiescence_ab _ _ _ _ _ _ (early _ rfl rfl rfl)
    generalize hc3 : (if (!decide (p = 0)) = true then
        ({ tt := c1.tt, history := c1.history, killers := c1.killers, counter := c1.counter, nodes := c1.nodes + 1,
           seldepth := max c1.seldepth p, nextCheckAt := c1.nextCheckAt, polls := c1.polls, stopAt := c1.stopAt,
           everyNode := c1.everyNode, stoppedNodes := c1.stoppedNodes } : Ctx) else
        { tt := c1.tt, history := c1.history, killers := c1.killers, counter := c1.counter, nodes := c1.nodes,
           seldepth := max c1.seldepth p, nextCheckAt := c1.nextCheckAt, polls := c1.polls, stopAt := c1.stopAt,
           everyNode := c1.everyNode, stoppedNodes := c1.stoppedNodes }) = c3
    have h3 : NotYet c3 := by rw [← hc3]; split <;> exact early _ rfl rfl rfl
    clear hc3
    split
    · exact h3
    split
    · exact h3
    rename_i ev hev
    split
    · exact h3
    split
    · exact h3
    have hnull := nullMovePhase_ab
      (fun c => negamax n (makeNull theCfg g) (neg b) (neg b + 1) (d' - 1 - Gen.p_null_move_pruning_depth_reduction) (p + 1) [] c)
      (!decide (p = 0) && !decide (a ≠ b - 1) && !inCheck && decide (d' ≥ Gen.p_null_move_pruning_depth_limit) &&
              decide (ev ≥ b) && prevNotNull g)
      (fun c hc => ih _ _ _ _ _ [] c hc) b pv c3 h3
    generalize (nullMovePhase
      (fun c => negamax n (makeNull theCfg g) (neg b) (neg b + 1) (d' - 1 - Gen.p_null_move_pruning_depth_reduction) (p + 1) [] c)
      (!decide (p = 0) && !decide (a ≠ b - 1) && !inCheck && decide (d' ≥ Gen.p_null_move_pruning_depth_limit) &&
              decide (ev ≥ b) && prevNotNull g) b pv c3) = np at hnull ⊢
    obtain ⟨hearly, hcont⟩ := hnull
    split
    · rename_i o ho
      exact hearly o ho
    rename_i hnone
    have h4 : NotYet np.2 := hcont hnone
    split
    · exact h4
    rename_i nm hnm
    have hloop := nloop_ab n ih g a b p inCheck d' ev nm 300
      (Picker.new ((c3.tt.get g.zobrist).bind fun x => x.best)) a TT.Bound.upper none i16Min 0 pv np.2 h4
    generalize negamax.loop n g a b p inCheck d' ev nm 300 (Picker.new ((c3.tt.get g.zobrist).bind fun x => x.best)) a
      TT.Bound.upper none i16Min 0 pv np.2 = lr at hloop ⊢
    split
    · exact hloop
    · exact hloop
    · exact finishNode_ab _ _ _ _ _ _ _ _ _ _ hloop

theorem aspLoop_ab (fuel : Nat) (g : Game) (depth : Nat) :
    ∀ n w pv c, NotYet c → AbPost (aspiration.loop fuel g depth n w pv c).res (aspiration.loop fuel g depth n w pv c).ctx := by
  intro n
  induction n with
  | zero => intro w pv c h; rw [aspiration.loop.eq_def]; exact h
  | succ k ih =>
    intro w pv c h
    rw [aspiration.loop.eq_def]
    simp only
    have ho := negamax_ab fuel g w.alpha w.beta depth 0 pv c h
    generalize negamax fuel g w.alpha w.beta depth 0 pv c = out at ho ⊢
    split
    · rename_i e he
      rw [he] at ho
      split
      · exact ih _ _ _ ho
      · split
        · exact ih _ _ _ ho
        · rw [he]; exact ho
    · exact ho

theorem aspiration_ab (fuel : Nat) (g : Game) (depth : Nat) (prev : Option Int) (pv : List Move) (c : Ctx)
    (h : NotYet c) : AbPost (aspiration fuel g depth prev pv c).res (aspiration fuel g depth prev pv c).ctx := by
  unfold aspiration
  simp only
  split
  · exact h
  · exact aspLoop_ab fuel g depth _ _ _ _ h

/-- the stop has either not been observed, or it was observed at the last consultation and not a node
has been counted since -/
def Quiet (c : Ctx) : Prop := NotYet c ∨ Stopped c

theorem iter_quiet (fuel : Nat) (g : Game) (maxDepth : Nat) :
    ∀ n d prev pv infos c, NotYet c → Quiet (search.iter fuel g maxDepth d n prev pv infos c).2.2.2 := by
  intro n
  induction n with
  | zero => intro d prev pv infos c h; rw [search.iter.eq_def]; exact Or.inl h
  | succ k ih =>
    intro d prev pv infos c h
    rw [search.iter.eq_def]
    simp only
    split
    · exact Or.inl h
    · have h1 := shouldStart_cases c d h
      generalize shouldStartNewSearch c d = sn at h1 ⊢
      obtain ⟨c1, go⟩ := sn
      simp only at h1 ⊢
      split
      · rename_i hgo
        rcases h1 with ⟨e, _⟩ | ⟨_, hS⟩
        · rw [e] at hgo; cases hgo
        · exact Or.inr hS
      · rename_i hgo
        have hc1 : NotYet c1 := by
          rcases h1 with ⟨_, hN⟩ | ⟨e, _⟩
          · exact hN
          · rw [e] at hgo; exact absurd rfl hgo
        have ho := aspiration_ab fuel g d prev pv c1 hc1
        generalize aspiration fuel g d prev pv c1 = out at ho ⊢
        split
        · rename_i e he
          rw [he] at ho
          split
          · exact Or.inl ho
          · exact ih _ _ _ _ out.ctx ho
        · rename_i he; rw [he] at ho; exact Or.inr ho
        · rename_i w he; rw [he] at ho; exact Or.inl ho

/-- **after the stop is observed nothing more is examined**: in the context a search ends with, either the
flag never read true, or it read true at the very last consultation made and the node counter still has
the value it had at that consultation -/
theorem search_quiet (fuel : Nat) (g : Game) (tt : TT.Table) (history : Array Int)
    (depthLimit : Option Nat) (stopAt : Nat) (everyNode : Bool) :
    Quiet (search fuel g tt history depthLimit stopAt everyNode).ctx := by
  have hq := iter_quiet fuel g (depthLimit.getD Gen.maxSearchDepth) 256 1 none [] []
    { tt := tt.newGeneration, history := historyDecay history, killers := newKillers, counter := newCounter,
      stopAt := stopAt, everyNode := everyNode }
    ⟨rfl, by show stopAt = 0 ∨ 0 < stopAt; omega⟩
  unfold search
  simp only
  generalize search.iter fuel g (depthLimit.getD Gen.maxSearchDepth) 1 256 none [] []
    { tt := tt.newGeneration, history := historyDecay history, killers := newKillers, counter := newCounter,
      stopAt := stopAt, everyNode := everyNode } = r at hq ⊢
  obtain ⟨pan, pv, infos, c⟩ := r
  simp only at hq ⊢
  repeat' split
  all_goals exact hq


end Search
end Tcheran
