import TcheranVerif.Proofs.Magic
import TcheranVerif.Proofs.Board
import TcheranVerif.Model.Movegen
/-!
# The engine's attacker sets equal the rules' attack relation (first half of C01)

`AttacksFrom b by q t` : on mailbox `b` the man on `q` (of colour `by`) attacks `t`, in the rules' own
terms (offsets, ray walks). `attacked_iff` relates it to `Rules.attacked`; `mem_attackersOf` to the
bitboard expression of `generate_attackers_of`, for every `Consistent` board. The slider tables enter
through the hypothesis `SliderTables` (discharged by `Props.C07`).
-/

namespace Tcheran
open Board Geometry Rules

/-- the two magic-table lookups equal the ray walk (proved in `Props.C07`) -/
structure SliderTables : Prop where
  rook : ∀ (s : Sq) (occ : BB), rookAttacks s occ = rookSpec s occ
  bishop : ∀ (s : Sq) (occ : BB), bishopAttacks s occ = bishopSpec s occ

def occOf (b : RBoard) (s : Sq) : Bool := (at' b s).isSome

/-- `q` is the first occupied square of the list -/
theorem firstOccupied_iff (b : RBoard) (l : List Sq) (q : Sq) (pc : Piece) :
    firstOccupied b l = some (q, pc) ↔ (q ∈ seen (occOf b) l ∧ at' b q = some pc) := by
  induction l with
  | nil => simp [firstOccupied, seen]
  | cons x xs ih =>
    unfold firstOccupied seen
    cases hx : at' b x with
    | some px =>
      have ho : occOf b x = true := by simp [occOf, hx]
      simp only [ho, if_true, List.mem_singleton]
      constructor
      · intro e
        simp only [Option.some.injEq, Prod.mk.injEq] at e
        obtain ⟨e1, e2⟩ := e
        subst e1; subst e2
        exact ⟨rfl, hx⟩
      · rintro ⟨e, hq⟩
        subst e
        rw [hx] at hq
        cases hq
        rfl
    | none =>
      have ho : occOf b x = false := by simp [occOf, hx]
      simp only [ho, Bool.false_eq_true, if_false, List.mem_cons]
      rw [ih]
      constructor
      · rintro ⟨a, c⟩; exact ⟨Or.inr a, c⟩
      · rintro ⟨a | a, c⟩
        · subst a; rw [hx] at c; cases c
        · exact ⟨a, c⟩

/-- the man on `q`, of colour `by'`, attacks `t` -/
def AttacksFrom (b : RBoard) (by' : Player) (q t : Sq) : Prop :=
  ∃ k, at' b q = some ⟨k, by'⟩ ∧
    ((k = .pawn ∧ (offset t (-1) (-(fwd by')) = some q ∨ offset t 1 (-(fwd by')) = some q)) ∨
     (k = .knight ∧ ∃ d ∈ knightDeltas, offset t d.1 d.2 = some q) ∨
     (k = .king ∧ ∃ d ∈ kingDeltas, offset t d.1 d.2 = some q) ∨
     ((k = .bishop ∨ k = .queen) ∧ ∃ d ∈ Dir.diagonal, q ∈ seen (occOf b) (ray d t)) ∨
     ((k = .rook ∨ k = .queen) ∧ ∃ d ∈ Dir.cardinal, q ∈ seen (occOf b) (ray d t)))

theorem isPiece_iff (b : RBoard) (o : Option Sq) (k : PieceKind) (p : Player) :
    isPiece b o k p = true ↔ ∃ q, o = some q ∧ at' b q = some ⟨k, p⟩ := by
  unfold isPiece
  cases o with
  | none => simp
  | some s => simp

theorem sliderAny_iff (b : RBoard) (by' : Player) (t : Sq) (dirs : List Dir) (k1 : PieceKind) :
    (dirs.any (sliderHit b by' t k1)) = true ↔
    ∃ q k, at' b q = some ⟨k, by'⟩ ∧ (k = k1 ∨ k = .queen) ∧ ∃ d ∈ dirs, q ∈ seen (occOf b) (ray d t) := by
  rw [List.any_eq_true]
  constructor
  · rintro ⟨d, hd, h⟩
    unfold sliderHit at h
    cases hf : firstOccupied b (ray d t) with
    | none => rw [hf] at h; cases h
    | some qp =>
      obtain ⟨q, pc⟩ := qp
      rw [hf] at h
      simp only [Bool.and_eq_true, Bool.or_eq_true, beq_iff_eq] at h
      obtain ⟨hs, ha⟩ := (firstOccupied_iff b _ q pc).1 hf
      obtain ⟨kk, pl⟩ := pc
      simp only at h
      obtain ⟨h1, h2⟩ := h
      subst h1
      exact ⟨q, kk, ha, h2, d, hd, hs⟩
  · rintro ⟨q, k, ha, hk, d, hd, hs⟩
    refine ⟨d, hd, ?_⟩
    unfold sliderHit
    rw [(firstOccupied_iff b _ q ⟨k, by'⟩).2 ⟨hs, ha⟩]
    simp only [Bool.and_eq_true, Bool.or_eq_true, beq_iff_eq]
    exact ⟨trivial, hk⟩

/-- `Rules.attacked` in terms of the per-man relation -/
theorem attacked_iff (b : RBoard) (by' : Player) (t : Sq) :
    attacked b by' t = true ↔ ∃ q, AttacksFrom b by' q t := by
  unfold attacked
  simp only [Bool.or_eq_true]
  rw [sliderAny_iff, sliderAny_iff, isPiece_iff, isPiece_iff, List.any_eq_true, List.any_eq_true]
  constructor
  · rintro (((((⟨q, e, a⟩ | ⟨q, e, a⟩) | ⟨d, hd, h⟩) | ⟨d, hd, h⟩) | ⟨q, k, a, hk, h⟩) | ⟨q, k, a, hk, h⟩)
    · exact ⟨q, .pawn, a, Or.inl ⟨rfl, Or.inl e⟩⟩
    · exact ⟨q, .pawn, a, Or.inl ⟨rfl, Or.inr e⟩⟩
    · obtain ⟨q, e, a⟩ := (isPiece_iff _ _ _ _).1 h
      exact ⟨q, .knight, a, Or.inr (Or.inl ⟨rfl, d, hd, e⟩)⟩
    · obtain ⟨q, e, a⟩ := (isPiece_iff _ _ _ _).1 h
      exact ⟨q, .king, a, Or.inr (Or.inr (Or.inl ⟨rfl, d, hd, e⟩))⟩
    · exact ⟨q, k, a, Or.inr (Or.inr (Or.inr (Or.inl ⟨hk, h⟩)))⟩
    · exact ⟨q, k, a, Or.inr (Or.inr (Or.inr (Or.inr ⟨hk, h⟩)))⟩
  · rintro ⟨q, k, a, h⟩
    rcases h with ⟨hk, e | e⟩ | ⟨hk, d, hd, e⟩ | ⟨hk, d, hd, e⟩ | ⟨hk, h⟩ | ⟨hk, h⟩
    · subst hk; exact Or.inl (Or.inl (Or.inl (Or.inl (Or.inl ⟨q, e, a⟩))))
    · subst hk; exact Or.inl (Or.inl (Or.inl (Or.inl (Or.inr ⟨q, e, a⟩))))
    · subst hk; exact Or.inl (Or.inl (Or.inl (Or.inr ⟨d, hd, (isPiece_iff _ _ _ _).2 ⟨q, e, a⟩⟩)))
    · subst hk; exact Or.inl (Or.inl (Or.inr ⟨d, hd, (isPiece_iff _ _ _ _).2 ⟨q, e, a⟩⟩))
    · exact Or.inl (Or.inr ⟨q, k, a, hk, h⟩)
    · exact Or.inr ⟨q, k, a, hk, h⟩

/-! ### the bitboard side -/

theorem mem_kindOf (b : Board) (hc : Consistent b) (k : PieceKind) (p : Player) (s : Sq) :
    mem (b.byKind k &&& b.occFor p) s = true ↔ b.pieceAt s = some ⟨k, p⟩ := by
  rw [mem_and, hc.1 k s, hc.2 p s]
  cases h : b.pieceAt s with
  | none => simp
  | some pc =>
    obtain ⟨kk, pl⟩ := pc
    simp only [Option.map_some, Option.some.injEq, Bool.and_eq_true, decide_eq_true_eq, Piece.mk.injEq]

theorem mem_occupancy (b : Board) (hc : Consistent b) (s : Sq) :
    mem b.occupancy s = occOf b.squares s := by
  unfold occupancy occOf
  rw [mem_or]
  have hw := hc.2 .white s
  have hb := hc.2 .black s
  unfold occFor at hw hb
  simp only at hw hb
  rw [hw, hb]
  show _ = (b.pieceAt s).isSome
  cases h : b.pieceAt s with
  | none => simp
  | some pc =>
    obtain ⟨kk, pl⟩ := pc
    cases pl <;> simp

theorem mem_filterMap_offset (t q : Sq) (l : List (Int × Int)) :
    q ∈ l.filterMap (fun d => offset t d.1 d.2) ↔ ∃ d ∈ l, offset t d.1 d.2 = some q := by
  simp [List.mem_filterMap]

theorem mem_knightAttacks (t q : Sq) :
    mem (knightAttacks t) q = true ↔ ∃ d ∈ knightDeltas, offset t d.1 d.2 = some q := by
  rw [knightAttacks_eq, genKnight_geometric, knightSpec, mem_setOf, mem_filterMap_offset]

theorem mem_kingAttacks (t q : Sq) :
    mem (kingAttacks t) q = true ↔ ∃ d ∈ kingDeltas, offset t d.1 d.2 = some q := by
  rw [kingAttacks_eq, genKing_geometric, kingSpec, mem_setOf, mem_filterMap_offset]

theorem mem_pawnAttacks (t q : Sq) (p : Player) :
    mem (pawnAttacks t p) q = true ↔ (offset t (-1) (fwd p) = some q ∨ offset t 1 (fwd p) = some q) := by
  rw [pawnAttacks_eq, genPawn_geometric t p (by cases p <;> simp), pawnSpec, mem_setOf]
  simp [List.mem_filterMap]

theorem fwd_other (p : Player) : fwd p = -(fwd p.other) := by cases p <;> rfl

theorem seen_occ_congr (b : Board) (hc : Consistent b) (l : List Sq) :
    seen (mem b.occupancy) l = seen (occOf b.squares) l :=
  seen_congr _ _ l (fun t _ => mem_occupancy b hc t)

/-- **attackers_exact**: bit `q` of `generate_attackers_of(board, player, t)` is set exactly when the
man on `q` is an enemy man attacking `t` under the rules -/
theorem mem_attackersOf (T : SliderTables) (b : Board) (hc : Consistent b) (p : Player) (t q : Sq) :
    mem (attackersOf b p t) q = true ↔ AttacksFrom b.squares p.other q t := by
  unfold attackersOf
  simp only [mem_or, Bool.or_eq_true]
  have hat : ∀ s, at' b.squares s = b.pieceAt s := fun _ => rfl
  have hP : mem (pawnAttacks t p &&& b.pawnsOf p.other) q = true ↔
      (b.pieceAt q = some ⟨.pawn, p.other⟩ ∧
        (offset t (-1) (-(fwd p.other)) = some q ∨ offset t 1 (-(fwd p.other)) = some q)) := by
    rw [mem_and, Bool.and_eq_true, mem_pawnAttacks, ← fwd_other]
    have := mem_kindOf b hc .pawn p.other q
    unfold pawnsOf; rw [show b.pawns = b.byKind .pawn from rfl, this]
    exact And.comm
  have hN : mem (knightAttacks t &&& b.knightsOf p.other) q = true ↔
      (b.pieceAt q = some ⟨.knight, p.other⟩ ∧ ∃ d ∈ knightDeltas, offset t d.1 d.2 = some q) := by
    rw [mem_and, Bool.and_eq_true, mem_knightAttacks]
    have := mem_kindOf b hc .knight p.other q
    unfold knightsOf; rw [show b.knights = b.byKind .knight from rfl, this]
    exact And.comm
  have hK : mem (kingAttacks t &&& b.kingOf p.other) q = true ↔
      (b.pieceAt q = some ⟨.king, p.other⟩ ∧ ∃ d ∈ kingDeltas, offset t d.1 d.2 = some q) := by
    rw [mem_and, Bool.and_eq_true, mem_kingAttacks]
    have := mem_kindOf b hc .king p.other q
    unfold kingOf; rw [show b.kings = b.byKind .king from rfl, this]
    exact And.comm
  have hB : mem (bishopAttacks t b.occupancy &&& b.diagSliders p.other) q = true ↔
      ((b.pieceAt q = some ⟨.bishop, p.other⟩ ∨ b.pieceAt q = some ⟨.queen, p.other⟩) ∧
        ∃ d ∈ Dir.diagonal, q ∈ seen (occOf b.squares) (ray d t)) := by
    rw [mem_and, Bool.and_eq_true, T.bishop, bishopSpec, slideSpec, mem_setOf]
    unfold diagSliders bishopsOf queensOf
    rw [mem_or, Bool.or_eq_true, show b.bishops = b.byKind .bishop from rfl,
      show b.queens = b.byKind .queen from rfl, mem_kindOf b hc, mem_kindOf b hc]
    simp only [List.mem_flatMap, seen_occ_congr b hc]
    exact And.comm
  have hR : mem (rookAttacks t b.occupancy &&& b.orthSliders p.other) q = true ↔
      ((b.pieceAt q = some ⟨.rook, p.other⟩ ∨ b.pieceAt q = some ⟨.queen, p.other⟩) ∧
        ∃ d ∈ Dir.cardinal, q ∈ seen (occOf b.squares) (ray d t)) := by
    rw [mem_and, Bool.and_eq_true, T.rook, rookSpec, slideSpec, mem_setOf]
    unfold orthSliders rooksOf queensOf
    rw [mem_or, Bool.or_eq_true, show b.rooks = b.byKind .rook from rfl,
      show b.queens = b.byKind .queen from rfl, mem_kindOf b hc, mem_kindOf b hc]
    simp only [List.mem_flatMap, seen_occ_congr b hc]
    exact And.comm
  rw [hP, hN, hK, hB, hR]
  unfold AttacksFrom
  simp only [hat]
  constructor
  · rintro ((((⟨a, h⟩ | ⟨a, h⟩) | ⟨a | a, h⟩) | ⟨a | a, h⟩) | ⟨a, h⟩)
    · exact ⟨_, a, Or.inl ⟨rfl, h⟩⟩
    · exact ⟨_, a, Or.inr (Or.inl ⟨rfl, h⟩)⟩
    · exact ⟨_, a, Or.inr (Or.inr (Or.inr (Or.inl ⟨Or.inl rfl, h⟩)))⟩
    · exact ⟨_, a, Or.inr (Or.inr (Or.inr (Or.inl ⟨Or.inr rfl, h⟩)))⟩
    · exact ⟨_, a, Or.inr (Or.inr (Or.inr (Or.inr ⟨Or.inl rfl, h⟩)))⟩
    · exact ⟨_, a, Or.inr (Or.inr (Or.inr (Or.inr ⟨Or.inr rfl, h⟩)))⟩
    · exact ⟨_, a, Or.inr (Or.inr (Or.inl ⟨rfl, h⟩))⟩
  · rintro ⟨k, a, h⟩
    rcases h with ⟨hk, h⟩ | ⟨hk, h⟩ | ⟨hk, h⟩ | ⟨hk | hk, h⟩ | ⟨hk | hk, h⟩ <;> subst hk
    · exact Or.inl (Or.inl (Or.inl (Or.inl ⟨a, h⟩)))
    · exact Or.inl (Or.inl (Or.inl (Or.inr ⟨a, h⟩)))
    · exact Or.inr ⟨a, h⟩
    · exact Or.inl (Or.inl (Or.inr ⟨Or.inl a, h⟩))
    · exact Or.inl (Or.inl (Or.inr ⟨Or.inr a, h⟩))
    · exact Or.inl (Or.inr ⟨Or.inl a, h⟩)
    · exact Or.inl (Or.inr ⟨Or.inr a, h⟩)

theorem bb_ne_zero_iff (a : BB) : a ≠ 0#64 ↔ ∃ q, mem a q = true := by
  constructor
  · intro h
    apply Decidable.byContradiction
    intro hn
    apply h
    apply ext_mem
    intro t
    rw [mem_zero]
    cases hm : mem a t with
    | false => rfl
    | true => exact absurd ⟨t, hm⟩ hn
  · rintro ⟨q, hq⟩ e
    rw [e, mem_zero] at hq
    cases hq

/-- the attacker set is non-empty exactly when the rules call the square attacked -/
theorem attackersOf_ne_zero (T : SliderTables) (b : Board) (hc : Consistent b) (p : Player) (t : Sq) :
    attackersOf b p t ≠ 0#64 ↔ attacked b.squares p.other t = true := by
  rw [bb_ne_zero_iff, attacked_iff]
  constructor
  · rintro ⟨q, h⟩; exact ⟨q, (mem_attackersOf T b hc p t q).1 h⟩
  · rintro ⟨q, h⟩; exact ⟨q, (mem_attackersOf T b hc p t q).2 h⟩

/-! ### the king square and the check verdict -/

theorem lsbSq_kingOf (b : Board) (hc : Consistent b) (p : Player) :
    BB.lsbSq? (b.kingOf p) = kingSq b.squares p := by
  unfold BB.lsbSq? BB.toList kingSq
  rw [List.head?_filter]
  congr 1
  funext s
  have h := mem_kindOf b hc .king p s
  have hat : at' b.squares s = b.pieceAt s := rfl
  rw [hat]
  unfold kingOf
  rw [show b.kings = b.byKind .king from rfl]
  cases hm : mem (b.byKind .king &&& b.occFor p) s with
  | true => rw [h.1 hm]; simp
  | false =>
    cases hd : (b.pieceAt s == some ⟨.king, p⟩) with
    | false => rfl
    | true =>
      rw [h.2 (by simpa using hd)] at hm
      cases hm

theorem ne_zero_bne (a : BB) : (a != 0#64) = true ↔ a ≠ 0#64 := by simp

/-- **check_verdict**: whenever the side has a king, `Board::king_in_check` answers, and its answer is
the rules' verdict -/
theorem kingInCheck_agrees (T : SliderTables) (b : Board) (hc : Consistent b) (p : Player) (k : Sq)
    (hk : kingSq b.squares p = some k) :
    kingInCheck b p = some (inCheck b.squares p) := by
  unfold kingInCheck inCheck
  rw [lsbSq_kingOf b hc p, hk]
  simp only
  congr 1
  cases ha : attacked b.squares p.other k with
  | true =>
    rw [(ne_zero_bne _).2 ((attackersOf_ne_zero T b hc p k).2 ha)]
  | false =>
    cases hb : (attackersOf b p k != 0#64) with
    | false => rfl
    | true =>
      rw [(attackersOf_ne_zero T b hc p k).1 ((ne_zero_bne _).1 hb)] at ha
      cases ha

end Tcheran
