import TcheranVerif.Proofs.Classes
/-!
# Sliders: the generated bishop / rook / queen moves are exactly the legal ones (C01)
-/

namespace Tcheran
open Board Geometry Rules

theorem mem_slideMoves (b : RBoard) (p : Player) (src : Sq) (R : List Sq) (m : Move) :
    m ∈ slideMoves b p src R ↔ ∃ t ∈ seen (occOf b) R,
      ((at' b t = none ∧ m = Move.quiet src t) ∨
       (∃ pc, at' b t = some pc ∧ pc.player ≠ p ∧ m = Move.capture src t)) := by
  induction R with
  | nil => simp [slideMoves, seen]
  | cons t ts ih =>
    unfold slideMoves seen
    cases ht : at' b t with
    | none =>
      have ho : occOf b t = false := by unfold occOf; rw [ht]; rfl
      simp only [ho, Bool.false_eq_true, if_false, List.mem_cons, ih]
      constructor
      · rintro (e | ⟨u, hu, h⟩)
        · exact ⟨t, Or.inl rfl, Or.inl ⟨ht, e⟩⟩
        · exact ⟨u, Or.inr hu, h⟩
      · rintro ⟨u, hu | hu, h⟩
        · subst hu
          rcases h with ⟨_, e⟩ | ⟨pc, hpc, _⟩
          · exact Or.inl e
          · rw [ht] at hpc; cases hpc
        · exact Or.inr ⟨u, hu, h⟩
    | some pc =>
      have ho : occOf b t = true := by unfold occOf; rw [ht]; rfl
      simp only [ho, if_true, List.mem_singleton]
      constructor
      · intro h
        split at h
        · rename_i hp
          exact ⟨t, rfl, Or.inr ⟨pc, ht, hp, List.mem_singleton.1 h⟩⟩
        · cases h
      · rintro ⟨u, hu, h⟩
        subst hu
        rcases h with ⟨e, _⟩ | ⟨pc', hpc', hp, e⟩
        · rw [ht] at e; cases e
        · rw [ht] at hpc'
          have := Option.some.inj hpc'
          subst this
          rw [if_pos hp]
          exact List.mem_singleton.2 e

/-- generic form of `generate_{diagonal,orthogonal}_slider_{captures,quiets}` -/
def sliderDests (att : Sq → BB → BB) (s : Sq) (all cm PS : BB) : BB :=
  let d := att s all &&& cm
  if mem PS s then d &&& PS else d

def sliderCaps (att : Sq → BB → BB) (sliders theirs all cm PS PO : BB) : List Move :=
  (BB.toList (sliders &&& ~~~PO)).flatMap fun s =>
    (BB.toList (sliderDests att s all cm PS &&& theirs)).map fun d => Move.capture s d

def sliderQuiets (att : Sq → BB → BB) (sliders all cm PS PO : BB) : List Move :=
  (BB.toList (sliders &&& ~~~PO)).flatMap fun s =>
    (BB.toList (sliderDests att s all cm PS &&& ~~~all)).map fun d => Move.quiet s d

theorem diagCaps_eq (sl th all cm op dp : BB) :
    Gen.diagSliderCaptures sl th all cm op dp = sliderCaps bishopAttacks sl th all cm dp op := rfl
theorem diagQuiets_eq (sl all cm op dp : BB) :
    Gen.diagSliderQuiets sl all cm op dp = sliderQuiets bishopAttacks sl all cm dp op := rfl
theorem orthCaps_eq (sl th all cm op dp : BB) :
    Gen.orthSliderCaptures sl th all cm op dp = sliderCaps rookAttacks sl th all cm op dp := rfl
theorem orthQuiets_eq (sl all cm op dp : BB) :
    Gen.orthSliderQuiets sl all cm op dp = sliderQuiets rookAttacks sl all cm op dp := rfl

theorem slider_moves_exact_gen (bd : Board) (p : Player) (k : Sq) (c : Ctx bd p k)
    (F Fo : List Dir) (kF kFo : PieceKind)
    (hfam : (F = Dir.cardinal ∧ Fo = Dir.diagonal ∧ kF = .rook ∧ kFo = .bishop) ∨
            (F = Dir.diagonal ∧ Fo = Dir.cardinal ∧ kF = .bishop ∧ kFo = .rook))
    (att : Sq → BB → BB) (hatt : ∀ s occ, att s occ = slideSpec F s occ)
    (sliders : BB) (hsl : ∀ s, mem sliders s = true ↔
      (at' bd.squares s = some ⟨kF, p⟩ ∨ at' bd.squares s = some ⟨.queen, p⟩))
    (cm PS PO : BB) (hcheck : ∀ d, mem cm d = true ↔ CheckOK bd.squares p.other k d)
    (hPS : ∀ x, mem PS x = true ↔ ∃ q, SliderGeo bd.squares p.other kF F k q ∧ XR bd.squares p k q ∧
      (x = q ∨ x ∈ betweenList k q))
    (hPO : ∀ x, mem PO x = true ↔ ∃ q, SliderGeo bd.squares p.other kFo Fo k q ∧ XR bd.squares p k q ∧
      (x = q ∨ x ∈ betweenList k q))
    (m : Move) :
    (m ∈ sliderCaps att sliders (bd.occFor p.other) bd.occupancy cm PS PO ++
         sliderQuiets att sliders bd.occupancy cm PS PO) ↔
    ∃ s, (at' bd.squares s = some ⟨kF, p⟩ ∨ at' bd.squares s = some ⟨.queen, p⟩) ∧
      ∃ dir ∈ F, m ∈ slideMoves bd.squares p s (ray dir s) ∧
        inCheck (applyBoard bd.squares p m) p = false := by
  have hc := c.cons
  have hFsub : ∀ x ∈ F, x ∈ Dir.all := by
    rcases hfam with ⟨e, _⟩ | ⟨e, _⟩ <;> rw [e]
    · exact cardinal_sub
    · exact diagonal_sub
  have hkF : kF ≠ .king := by rcases hfam with ⟨_, _, e, _⟩ | ⟨_, _, e, _⟩ <;> rw [e] <;> simp
  have hatt' : ∀ s d, mem (att s bd.occupancy) d = true ↔ ∃ dir ∈ F, d ∈ seen (occOf bd.squares) (ray dir s) := by
    intro s d
    rw [hatt, slideSpec, mem_setOf, List.mem_flatMap]
    simp only [seen_occ_congr bd hc]
  have hdests : ∀ s d, mem (sliderDests att s bd.occupancy cm PS) d = true ↔
      (mem (att s bd.occupancy) d = true ∧ mem cm d = true ∧ (mem PS s = true → mem PS d = true)) := by
    intro s d
    unfold sliderDests
    simp only
    by_cases h : mem PS s = true
    · rw [if_pos h, mem_and, mem_and, Bool.and_eq_true, Bool.and_eq_true]
      constructor
      · rintro ⟨⟨a, b⟩, e⟩; exact ⟨a, b, fun _ => e⟩
      · rintro ⟨a, b, e⟩; exact ⟨⟨a, b⟩, e h⟩
    · rw [if_neg h, mem_and, Bool.and_eq_true]
      constructor
      · rintro ⟨a, b⟩; exact ⟨a, b, fun e => absurd e h⟩
      · rintro ⟨a, b, _⟩; exact ⟨a, b⟩
  -- legality of one slide
  have hlegal : ∀ (s t : Sq) (dir : Dir) (X : Piece) (m : Move),
      (X = ⟨kF, p⟩ ∨ X = ⟨.queen, p⟩) → at' bd.squares s = some X →
      dir ∈ F → t ∈ seen (occOf bd.squares) (ray dir s) →
      (at' bd.squares t = none ∨ ∃ pc, at' bd.squares t = some pc ∧ pc.player ≠ p) →
      (m = Move.quiet s t ∨ m = Move.capture s t) →
      (inCheck (applyBoard bd.squares p m) p = false ↔
        (mem cm t = true ∧ mem PO s = false ∧ (mem PS s = true → mem PS t = true))) := by
    intro s t dir X m hX hs hdir hseen hte hm
    have hsrc : m.src = s := by rcases hm with e | e <;> rw [e] <;> rfl
    have hdst : m.dst = t := by rcases hm with e | e <;> rw [e] <;> rfl
    have hfl : m.flag ≠ .enPassant ∧ m.flag ≠ .castle := by
      rcases hm with e | e <;> rw [e] <;> exact ⟨by simp [Move.quiet, Move.capture], by simp [Move.quiet, Move.capture]⟩
    obtain ⟨htr, hpath⟩ := (mem_seen_ray _ s t dir (hFsub dir hdir)).1 hseen
    have hst : s ≠ t := fun e => self_not_mem_ray dir (hFsub dir hdir) s (e ▸ htr)
    have hXp : X.player = p := by rcases hX with e | e <;> rw [e]
    have hXk : X.kind ≠ .king := by
      rcases hX with e | e <;> rw [e]
      · exact hkF
      · simp
    rw [plain_move_legal bd.squares p k c.king m X (hsrc ▸ hs) hXp hXk hfl
      (hdst ▸ c.dst_ne_king t hte) (by rw [hsrc, hdst]; exact hst), hsrc, hdst, ← hcheck t,
      pin_generic bd.squares p k s t c.king_occ ⟨X, hs, hXp⟩ F Fo kF kFo hfam PS PO hPS hPO dir hdir htr hpath]
  rw [List.mem_append]
  unfold sliderCaps sliderQuiets
  simp only [List.mem_flatMap, List.mem_map, mem_toList, mem_and, mem_not, Bool.and_eq_true, Bool.not_eq_true']
  constructor
  · rintro (⟨s, ⟨hs, hp⟩, t, ⟨hd, hth⟩, hm⟩ | ⟨s, ⟨hs, hp⟩, t, ⟨hd, hemp⟩, hm⟩)
    · obtain ⟨ha, hcm, himp⟩ := (hdests s t).1 hd
      obtain ⟨dir, hdir, hseen⟩ := (hatt' s t).1 ha
      have hs' := (hsl s).1 hs
      obtain ⟨pc, hpc, hpl⟩ := (mem_theirs bd hc p t).1 hth
      refine ⟨s, hs', dir, hdir, (mem_slideMoves _ _ _ _ _).2 ⟨t, hseen, Or.inr ⟨pc, hpc, hpl, hm.symm⟩⟩, ?_⟩
      rcases hs' with e | e
      · exact (hlegal s t dir _ m (Or.inl rfl) e hdir hseen (Or.inr ⟨pc, hpc, hpl⟩) (Or.inr hm.symm)).2 ⟨hcm, hp, himp⟩
      · exact (hlegal s t dir _ m (Or.inr rfl) e hdir hseen (Or.inr ⟨pc, hpc, hpl⟩) (Or.inr hm.symm)).2 ⟨hcm, hp, himp⟩
    · obtain ⟨ha, hcm, himp⟩ := (hdests s t).1 hd
      obtain ⟨dir, hdir, hseen⟩ := (hatt' s t).1 ha
      have hs' := (hsl s).1 hs
      have he : at' bd.squares t = none := (mem_empty bd hc t).1 (by rw [mem_not]; exact hemp ▸ rfl)
      refine ⟨s, hs', dir, hdir, (mem_slideMoves _ _ _ _ _).2 ⟨t, hseen, Or.inl ⟨he, hm.symm⟩⟩, ?_⟩
      rcases hs' with e | e
      · exact (hlegal s t dir _ m (Or.inl rfl) e hdir hseen (Or.inl he) (Or.inl hm.symm)).2 ⟨hcm, hp, himp⟩
      · exact (hlegal s t dir _ m (Or.inr rfl) e hdir hseen (Or.inl he) (Or.inl hm.symm)).2 ⟨hcm, hp, himp⟩
  · rintro ⟨s, hs, dir, hdir, hslide, hl⟩
    obtain ⟨t, hseen, h⟩ := (mem_slideMoves _ _ _ _ _).1 hslide
    have ha : mem (att s bd.occupancy) t = true := (hatt' s t).2 ⟨dir, hdir, hseen⟩
    rcases h with ⟨he, hm⟩ | ⟨pc, hpc, hpl, hm⟩
    · right
      have : mem cm t = true ∧ mem PO s = false ∧ (mem PS s = true → mem PS t = true) := by
        rcases hs with e | e
        · exact (hlegal s t dir _ m (Or.inl rfl) e hdir hseen (Or.inl he) (Or.inl hm)).1 hl
        · exact (hlegal s t dir _ m (Or.inr rfl) e hdir hseen (Or.inl he) (Or.inl hm)).1 hl
      obtain ⟨a, b, cc⟩ := this
      refine ⟨s, ⟨(hsl s).2 hs, b⟩, t, ⟨(hdests s t).2 ⟨ha, a, cc⟩, ?_⟩, hm.symm⟩
      have := (mem_empty bd hc t).2 he
      rw [mem_not] at this
      simpa using this
    · left
      have : mem cm t = true ∧ mem PO s = false ∧ (mem PS s = true → mem PS t = true) := by
        rcases hs with e | e
        · exact (hlegal s t dir _ m (Or.inl rfl) e hdir hseen (Or.inr ⟨pc, hpc, hpl⟩) (Or.inr hm)).1 hl
        · exact (hlegal s t dir _ m (Or.inr rfl) e hdir hseen (Or.inr ⟨pc, hpc, hpl⟩) (Or.inr hm)).1 hl
      obtain ⟨a, b, cc⟩ := this
      exact ⟨s, ⟨(hsl s).2 hs, b⟩, t, ⟨(hdests s t).2 ⟨ha, a, cc⟩, (mem_theirs bd hc p t).2 ⟨pc, hpc, hpl⟩⟩, hm.symm⟩

end Tcheran
