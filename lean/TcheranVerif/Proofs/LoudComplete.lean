import TcheranVerif.Proofs.GenerateExact
/-!
# The capture stage contains every legal capture and every queen promotion (C10, second clause)

`quiets_quietish`: whatever `generate_quiets` emits carries one of the flags quiet / castle / under-promotion push —
never a capture flag, never a queen promotion.  With C01 (`generate_exact`: the two stages together are exactly
the legal moves) every legal capture (en passant and capturing promotions included) and every queen promotion is
therefore in the output of `generate_captures`, which the captures-only picker hands out (`loud_perm`).
-/

namespace Tcheran
open Board Game Rules

def Quietish (m : Move) : Prop := m.isCapture = false ∧ m.flag ≠ .promoQ

theorem quietish_quiet (a b : Sq) : Quietish (Move.quiet a b) := by
  unfold Quietish Move.quiet Move.isCapture; simp [MoveFlag.code]
theorem quietish_castle (a b : Sq) : Quietish (Move.castles a b) := by
  unfold Quietish Move.castles Move.isCapture; simp [MoveFlag.code]
theorem quietish_under (a b : Sq) (pr : Promo) (h : pr ∈ Gen.promoOrderQuietUnder) :
    Quietish (Move.quietPromotion a b pr) := by
  unfold Gen.promoOrderQuietUnder at h
  simp only [List.mem_cons, List.not_mem_nil, or_false] at h
  rcases h with h | h | h <;> subst h <;>
    (unfold Quietish Move.quietPromotion Move.isCapture; simp [MoveFlag.code])

theorem mem_flatten_mapM {α β} (l : List α) (f : α → Option (List β)) (L : List (List β)) (h : l.mapM f = some L)
    (m : β) (hm : m ∈ L.flatten) : ∃ x ∈ l, ∃ ys, f x = some ys ∧ m ∈ ys := by
  induction l generalizing L with
  | nil =>
    rw [List.mapM_nil] at h
    cases h
    cases hm
  | cons x xs ih =>
    rw [List.mapM_cons] at h
    cases hx : f x with
    | none => rw [hx] at h; cases h
    | some ys =>
      rw [hx] at h
      cases hxs : xs.mapM f with
      | none => rw [hxs] at h; cases h
      | some L' =>
        rw [hxs] at h
        cases h
        rw [List.flatten_cons, List.mem_append] at hm
        rcases hm with hm | hm
        · exact ⟨x, List.mem_cons_self, ys, hx, hm⟩
        · obtain ⟨y, hy, zs, hz, hmz⟩ := ih L' hxs hm
          exact ⟨y, List.mem_cons_of_mem _ hy, zs, hz, hmz⟩

theorem pawnQuiets_quietish (g : Game) (pawns all cm op dp : BB) (L : List Move)
    (h : Gen.pawnQuiets g pawns all cm op dp = some L) : ∀ m ∈ L, Quietish m := by
  unfold Gen.pawnQuiets at h
  cases h1 : Gen.pawnPromoPushes g.player Gen.promoOrderQuietUnder pawns all cm op dp with
  | none => rw [h1] at h; cases h
  | some m1 =>
    cases h2 : Gen.pawnSinglePushes g.player pawns all cm op dp with
    | none => rw [h1, h2] at h; cases h
    | some m2 =>
      cases h3 : Gen.pawnDoublePushes g.player pawns all cm op dp with
      | none => rw [h1, h2, h3] at h; cases h
      | some m3 =>
        rw [h1, h2, h3] at h
        have e : L = m1.flatten ++ m2.flatten ++ m3.flatten := (Option.some.inj h).symm
        subst e
        intro m hm
        rcases List.mem_append.1 hm with hm | hm
        · rcases List.mem_append.1 hm with hm | hm
          · obtain ⟨pawn, _, ys, hy, hmy⟩ := mem_flatten_mapM _ _ _ h1 m hm
            cases hf : pawn.forward g.player with
            | none => simp [hf] at hy
            | some t =>
              simp only [hf, Option.bind_eq_bind, Option.bind_some, Option.pure_def, Option.some.injEq] at hy
              subst hy
              split at hmy
              · obtain ⟨pr, hpr, e⟩ := List.mem_map.1 hmy
                subst e; exact quietish_under _ _ _ hpr
              · cases hmy
          · obtain ⟨pawn, _, ys, hy, hmy⟩ := mem_flatten_mapM _ _ _ h2 m hm
            cases hf : pawn.forward g.player with
            | none => simp [hf] at hy
            | some t =>
              simp only [hf, Option.bind_eq_bind, Option.bind_some, Option.pure_def, Option.some.injEq] at hy
              subst hy
              split at hmy
              · rw [List.mem_singleton.1 hmy]; exact quietish_quiet _ _
              · cases hmy
        · obtain ⟨pawn, _, ys, hy, hmy⟩ := mem_flatten_mapM _ _ _ h3 m hm
          cases hf : pawn.forward g.player with
          | none => simp [hf] at hy
          | some t =>
            cases hf2 : t.forward g.player with
            | none => simp [hf, hf2] at hy
            | some t2 =>
              simp only [hf, hf2, Option.bind_eq_bind, Option.bind_some, Option.pure_def, Option.some.injEq] at hy
              subst hy
              split at hmy
              · rw [List.mem_singleton.1 hmy]; exact quietish_quiet _ _
              · cases hmy

theorem flatMap_map_quiet (A : List Sq) (B : Sq → List Sq) (m : Move)
    (h : m ∈ A.flatMap fun s => (B s).map fun d => Move.quiet s d) : Quietish m := by
  obtain ⟨s, _, hs⟩ := List.mem_flatMap.1 h
  obtain ⟨d, _, e⟩ := List.mem_map.1 hs
  subst e; exact quietish_quiet _ _

theorem kingQuiets_quietish (g : Game) (k : Sq) (all : BB) : ∀ m ∈ Gen.kingQuiets g k all, Quietish m := by
  intro m hm
  unfold Gen.kingQuiets at hm
  obtain ⟨d, _, hd⟩ := List.mem_flatMap.1 hm
  split at hd
  · rw [List.mem_singleton.1 hd]; exact quietish_quiet _ _
  · cases hd

theorem castles_quietish (g : Game) (all : BB) : ∀ m ∈ Gen.castles g all, Quietish m := by
  intro m hm
  unfold Gen.castles at hm
  have one : ∀ ks, m ∈ Gen.castleFor g ks all → Quietish m := by
    intro ks h
    unfold Gen.castleFor at h
    simp only at h
    split at h
    · rw [List.mem_singleton.1 h]; exact quietish_castle _ _
    · cases h
  rcases List.mem_append.1 hm with h | h
  · split at h
    · exact one _ h
    · cases h
  · split at h
    · exact one _ h
    · cases h

/-- **quiets_quietish** -/
theorem quiets_quietish (g : Game) (cache : MovegenCache) (quiets : List Move)
    (h : generateQuiets g cache = some quiets) : ∀ m ∈ quiets, Quietish m := by
  unfold generateQuiets at h
  cases hk : BB.lsbSq? (g.board.kingOf g.player) with
  | none => rw [hk] at h; cases h
  | some king =>
    rw [hk] at h
    simp only [Option.bind_eq_bind, Option.bind_some] at h
    split at h
    · have e := Option.some.inj h
      subst e
      exact kingQuiets_quietish g king _
    · unfold quietsWith at h
      cases hp : Gen.pawnQuiets g (g.board.pawnsOf g.player) g.board.occupancy cache.checkMask cache.orthPins cache.diagPins with
      | none => simp [hp] at h
      | some P =>
        simp only [hp, Option.bind_eq_bind, Option.bind_some, Option.pure_def, Option.some.injEq] at h
        subst h
        intro m hm
        rcases List.mem_append.1 hm with hm | hm
        · rcases List.mem_append.1 hm with hm | hm
          · rcases List.mem_append.1 hm with hm | hm
            · rcases List.mem_append.1 hm with hm | hm
              · rcases List.mem_append.1 hm with hm | hm
                · exact pawnQuiets_quietish g _ _ _ _ _ P hp m hm
                · exact flatMap_map_quiet _ _ m hm
              · exact flatMap_map_quiet _ _ m hm
            · exact flatMap_map_quiet _ _ m hm
          · exact kingQuiets_quietish g king _ m hm
        · split at hm
          · exact castles_quietish g _ m hm
          · cases hm

/-- **loud_complete**: every legal capture and every queen promotion is generated by the capture stage -/
theorem loud_complete (T : SliderTables) (g : Game) (k : Sq) (hk : PosH g k) :
    ∃ caps cache quiets, generateCaptures g = some (caps, cache) ∧ generateQuiets g cache = some quiets ∧
      (∀ m ∈ legalMoves (ofGame g), (m.isCapture = true ∨ m.flag = .promoQ) → m ∈ caps) ∧
      (∀ m ∈ caps, m ∈ legalMoves (ofGame g)) := by
  obtain ⟨caps, cache, quiets, h1, h2, h3⟩ := generate_exact T g k hk
  refine ⟨caps, cache, quiets, h1, h2, ?_, fun m hm => (h3 m).1 (List.mem_append_left _ hm)⟩
  intro m hm hl
  rcases List.mem_append.1 ((h3 m).2 hm) with h | h
  · exact h
  · obtain ⟨q1, q2⟩ := quiets_quietish g cache quiets h2 m h
    rcases hl with hl | hl
    · rw [q1] at hl; cases hl
    · exact absurd hl q2

end Tcheran
