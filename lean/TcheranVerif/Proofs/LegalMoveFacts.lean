import TcheranVerif.Proofs.MakeRefines
import TcheranVerif.Proofs.RulesSplit
/-!
# What every legal move provides to `make_refines` (C02)
-/

namespace Tcheran
open Board Game Rules

theorem quiet_nc (a b : Sq) : (Move.quiet a b).isCastling = false := rfl
theorem capture_nc (a b : Sq) : (Move.capture a b).isCastling = false := rfl
theorem ep_nc (a b : Sq) : (Move.enPassant a b).isCastling = false := rfl
theorem qp_nc (a b : Sq) (pr : Promo) : (Move.quietPromotion a b pr).isCastling = false := by cases pr <;> rfl
theorem cp_nc (a b : Sq) (pr : Promo) : (Move.capturePromotion a b pr).isCastling = false := by cases pr <;> rfl

/-- a pseudo-legal move of a man: its source holds that man, and it is not a castling move -/
theorem piece_move_src (pos : Pos) (s : Sq) (pc : Piece) (m : Move) (ha : at' pos.board s = some pc)
    (hm : m ∈ pieceMoves pos s pc) : m.src = s ∧ m.isCastling = false := by
  have hstep : ∀ deltas, m ∈ stepMoves pos.board pos.player s deltas → m.src = s ∧ m.isCastling = false := by
    intro deltas h
    obtain ⟨d, _, t, _, h⟩ := (mem_stepMoves _ _ _ _ _).1 h
    rcases h with ⟨_, e⟩ | ⟨_, _, _, e⟩ <;> rw [e] <;> exact ⟨rfl, rfl⟩
  have hslide : ∀ R, m ∈ slideMoves pos.board pos.player s R → m.src = s ∧ m.isCastling = false := by
    intro R h
    obtain ⟨t, _, h⟩ := (mem_slideMoves _ _ _ _ _).1 h
    rcases h with ⟨_, e⟩ | ⟨_, _, _, e⟩ <;> rw [e] <;> exact ⟨rfl, rfl⟩
  unfold pieceMoves at hm
  obtain ⟨kk, pl⟩ := pc
  cases kk <;> simp only at hm
  · rcases (mem_pawnMoves pos s m).1 hm with ⟨t1, _, _, h⟩ | ⟨df, _, t, _, h⟩
    · rcases h with ⟨_, pr, _, e⟩ | ⟨_, e⟩ | ⟨_, t2, _, _, e⟩
      · rw [e]; exact ⟨qp_src _ _ _, qp_nc _ _ _⟩
      · rw [e]; exact ⟨rfl, rfl⟩
      · rw [e]; exact ⟨rfl, rfl⟩
    · rcases h with ⟨pc', _, _, ⟨_, pr, _, e⟩ | ⟨_, e⟩⟩ | ⟨_, _, e⟩
      · rw [e]; exact ⟨cp_src _ _ _, cp_nc _ _ _⟩
      · rw [e]; exact ⟨rfl, rfl⟩
      · rw [e]; exact ⟨rfl, rfl⟩
  · exact hstep _ hm
  · obtain ⟨dir, _, h⟩ := List.mem_flatMap.1 hm; exact hslide _ h
  · obtain ⟨dir, _, h⟩ := List.mem_flatMap.1 hm; exact hslide _ h
  · obtain ⟨dir, _, h⟩ := List.mem_flatMap.1 hm; exact hslide _ h
  · exact hstep _ hm

theorem castleMk_facts (b : RBoard) (p : Player) (ks : Sq) (right : Bool) (rf : Sq) (emp path : List Sq) (dst : Sq)
    (m : Move) (h : m ∈ castleMk b p ks right rf emp path dst) :
    m = Move.castles ks dst ∧ at' b ks = some ⟨.king, p⟩ ∧ at' b rf = some ⟨.rook, p⟩ := by
  unfold castleMk at h
  split at h
  · rename_i hc
    simp only [Bool.and_eq_true, beq_iff_eq] at hc
    exact ⟨List.mem_singleton.1 h, hc.1.1.1.1.2, hc.1.1.1.2⟩
  · cases h

/-- a castling move of the rules: king and rook at home, and the rook squares as the engine has them -/
theorem castle_move_facts (pos : Pos) (m : Move) (h : m ∈ castleMoves pos) :
    m.isCastling = true ∧ at' pos.board m.src = some ⟨.king, pos.player⟩ ∧
    ∃ rf rt, castleSquares pos.player m.dst = some (rf, rt) ∧ at' pos.board rf = some ⟨.rook, pos.player⟩ ∧
      rf ≠ m.src ∧ rf ≠ m.dst := by
  rw [castleMoves_eq] at h
  cases hp : pos.player with
  | white =>
    rw [hp] at h
    simp only [List.mem_append] at h
    rcases h with h | h
    · obtain ⟨e, hk, hrk⟩ := castleMk_facts _ _ _ _ _ _ _ _ _ h
      subst e
      exact ⟨rfl, hk, H1, F1, by decide, hrk, by decide, by decide⟩
    · obtain ⟨e, hk, hrk⟩ := castleMk_facts _ _ _ _ _ _ _ _ _ h
      subst e
      exact ⟨rfl, hk, A1, D1, by decide, hrk, by decide, by decide⟩
  | black =>
    rw [hp] at h
    simp only [List.mem_append] at h
    rcases h with h | h
    · obtain ⟨e, hk, hrk⟩ := castleMk_facts _ _ _ _ _ _ _ _ _ h
      subst e
      exact ⟨rfl, hk, H8, F8, by decide, hrk, by decide, by decide⟩
    · obtain ⟨e, hk, hrk⟩ := castleMk_facts _ _ _ _ _ _ _ _ _ h
      subst e
      exact ⟨rfl, hk, A8, D8, by decide, hrk, by decide, by decide⟩

/-- **make_refines_legal**: for every legal move of the rules for which `make_move` answers, the answer is
the position the rules prescribe -/
theorem make_refines_legal (c : Cfg) (g g' : Game) (mv : Move) (hc : Consistent g.board)
    (hl : mv ∈ legalMoves (ofGame g)) (hr : makeMove c g mv = some g') :
    ofGame g' = Rules.apply (ofGame g) mv := by
  obtain ⟨hps, _⟩ := (mem_legalMoves_iff (ofGame g) mv).1 hl
  rcases hps with ⟨s, pc, ha, hp, hm⟩ | hcs
  · obtain ⟨hsrc, hnc⟩ := piece_move_src (ofGame g) s pc mv ha hm
    refine make_refines c g g' mv hc hr ?_ ?_
    · intro M hM
      rw [hsrc] at hM
      have : at' (ofGame g).board s = some M := hM
      rw [ha] at this
      rw [← Option.some.inj this]; exact hp
    · intro h; rw [hnc] at h; cases h
  · obtain ⟨hcst, hk, rf, rt, hsq, hrook, hn1, hn2⟩ := castle_move_facts (ofGame g) mv hcs
    refine make_refines c g g' mv hc hr ?_ ?_
    · intro M hM
      have : at' (ofGame g).board mv.src = some M := hM
      rw [hk] at this
      rw [← Option.some.inj this]; rfl
    · intro _
      refine ⟨?_, rf, rt, hsq, hrook, hn1, hn2⟩
      intro M hM
      have : at' (ofGame g).board mv.src = some M := hM
      rw [hk] at this
      rw [← Option.some.inj this]

end Tcheran
