import TcheranVerif.Model.Search
import TcheranVerif.Proofs.GameInv
import TcheranVerif.Proofs.PickerMain
import TcheranVerif.Props.C19
/-!
# Search — the vocabulary of the soundness proof (C04 / C08 / C09)

* `SInv g` — the node invariant: the three board views agree and the position is a legal one (`GInv`);
  kept by `make_move` on every legal move (`sinv_make`) and by a null move when the mover is not in check
  (`sinv_null`).
* `LegalLine g pv` — `pv` can be played from `g` move by move, every move legal under the rules.
* `Universe` — the positions a search may touch, indexed by distance from the root: closed under legal
  moves and under null moves out of check, and **the 64-bit key does not confuse two of them that have
  different legal moves** (`inj`). That last field is the one assumption every engine that plays its hash
  move unverified rests on; it cannot be discharged (pigeonhole), it is stated, not hidden.
* `TTGood U tt` — every best move stored in the table is legal in every position of the universe that
  probes it.
-/

namespace Tcheran
namespace Search
open Board Game Rules

def SInv (g : Game) : Prop := Consistent g.board ∧ GInv (ofGame g)

theorem sinv_make (g g' : Game) (m : Move) (h : SInv g) (hl : m ∈ legalMoves (ofGame g))
    (hm : makeMove theCfg g m = some g') : SInv g' ∧ ofGame g' = Rules.apply (ofGame g) m := by
  obtain ⟨hc, hi⟩ := h
  obtain ⟨k, hk⟩ := posH_of_ginv g hc hi
  obtain ⟨g1, hg1, hr⟩ := make_move_legal_total theCfg g k hk m hl
  rw [hm] at hg1
  cases hg1
  refine ⟨⟨makeMove_consistent theCfg g g' m hc hm (castle_hyp_of_legal g m hl), ?_⟩, hr⟩
  rw [hr]; exact ginv_apply _ m hi hl

theorem make_total_legal (g : Game) (m : Move) (h : SInv g) (hl : m ∈ legalMoves (ofGame g)) :
    ∃ g', makeMove theCfg g m = some g' := by
  obtain ⟨hc, hi⟩ := h
  obtain ⟨k, hk⟩ := posH_of_ginv g hc hi
  obtain ⟨g1, hg1, _⟩ := make_move_legal_total theCfg g k hk m hl
  exact ⟨g1, hg1⟩

theorem ofGame_null (g : Game) : ofGame (makeNull theCfg g) =
    { ofGame g with player := g.player.other, ep := none, plies := g.plies + 1 } := rfl

theorem sinv_null (g : Game) (h : SInv g) (hchk : inCheck g.board.squares g.player = false) :
    SInv (makeNull theCfg g) := by
  obtain ⟨hc, hi⟩ := h
  refine ⟨hc, ?_⟩
  rw [ofGame_null]
  refine ⟨hi.king, ?_, epOk_none _ _, hi.rightK, hi.rightQ⟩
  show inCheck g.board.squares g.player.other.other = false
  rw [other_other]; exact hchk

def LegalLine : Game → List Move → Prop
  | _, [] => True
  | g, m :: rest => m ∈ legalMoves (ofGame g) ∧ ∃ g', makeMove theCfg g m = some g' ∧ LegalLine g' rest

theorem legalLine_nil (g : Game) : LegalLine g [] := trivial

theorem legalLine_cons (g g' : Game) (m : Move) (rest : List Move) (hl : m ∈ legalMoves (ofGame g))
    (hm : makeMove theCfg g m = some g') (hr : LegalLine g' rest) : LegalLine g (m :: rest) :=
  ⟨hl, g', hm, hr⟩

structure Universe where
  R : Nat → Game → Prop
  inv : ∀ n g, R n g → SInv g
  step : ∀ n g m g', R n g → m ∈ legalMoves (ofGame g) → makeMove theCfg g m = some g' → R (n + 1) g'
  null : ∀ n g, R n g → inCheck g.board.squares g.player = false → R (n + 1) (makeNull theCfg g)
  inj : ∀ n1 n2 g1 g2, R n1 g1 → R n2 g2 → g1.zobrist = g2.zobrist →
    ∀ m, m ∈ legalMoves (ofGame g1) ↔ m ∈ legalMoves (ofGame g2)

def TTGood (U : Universe) (tt : TT.Table) : Prop :=
  ∀ n g d m, U.R n g → tt.get g.zobrist = some d → d.best = some m → m ∈ legalMoves (ofGame g)

theorem ttGood_newGeneration (U : Universe) (tt : TT.Table) (h : TTGood U tt) : TTGood U tt.newGeneration :=
  fun n g d m hr hg hb => h n g d m hr hg hb

theorem get_insert_cases (t : TT.Table) (k k' : BB) (d x : TT.Data) (hg : (t.insert k d).get k' = some x) :
    (k' = k ∧ x = d) ∨ t.get k' = some x := by
  by_cases hk : k' = k
  · subst hk
    by_cases hn : t.n = 0
    · right
      have e : t.insert k' d = t := by unfold TT.Table.insert; rw [if_pos hn]
      rwa [e] at hg
    · cases hs : t.slots[t.idx k']? with
      | none =>
        left
        have := Props.C19.get_insert_admitted t k' d ⟨hn, Or.inl hs⟩
        rw [this] at hg
        exact ⟨rfl, (Option.some.inj hg).symm⟩
      | some old =>
        by_cases hov : TT.shouldOverwrite old.data d = true
        · left
          have := Props.C19.get_insert_admitted t k' d ⟨hn, Or.inr ⟨old, hs, hov⟩⟩
          rw [this] at hg
          exact ⟨rfl, (Option.some.inj hg).symm⟩
        · right
          have e := Props.C19.get_insert_rejected t k' d old hs (by simpa using hov)
          rwa [e] at hg
  · right
    exact Props.C19.insert_other_key t k k' d x hk hg

/-- storing a best move that is legal where it was found keeps the table good -/
theorem ttGood_insert (U : Universe) (tt : TT.Table) (n : Nat) (g : Game) (d : TT.Data) (h : TTGood U tt)
    (hr : U.R n g) (hb : ∀ m, d.best = some m → m ∈ legalMoves (ofGame g)) :
    TTGood U (tt.insert g.zobrist d) := by
  intro n2 g2 x m hr2 hg hbx
  rcases get_insert_cases tt g.zobrist g2.zobrist d x hg with ⟨hk, hx⟩ | hold
  · subst hx
    exact (U.inj n n2 g g2 hr hr2 hk.symm m).1 (hb m hbx)
  · exact h n2 g2 x m hr2 hold hbx

theorem ttGood_new (U : Universe) (mb : Nat) : TTGood U (TT.new mb) := by
  intro n g d m _ hg _
  have : (TT.new mb).get g.zobrist = none := by
    unfold TT.new TT.empty TT.Table.get
    split
    · rfl
    · simp
  rw [this] at hg; cases hg

theorem ttGood_reset (U : Universe) (tt : TT.Table) : TTGood U tt.reset := by
  intro n g d m _ hg _
  rw [Props.C19.reset_empty] at hg; cases hg

/-! ### the stop oracle never touches the tables -/

theorem poll_tt (c : Ctx) : (poll c).1.tt = c.tt := rfl

theorem shouldStop_tt (c : Ctx) : (shouldStop c).1.tt = c.tt := by
  unfold shouldStop
  simp only
  split <;> (repeat' split) <;> rfl

theorem shouldStart_tt (c : Ctx) (d : Nat) : (shouldStartNewSearch c d).1.tt = c.tt := by
  unfold shouldStartNewSearch
  split <;> rfl

end Search
end Tcheran
