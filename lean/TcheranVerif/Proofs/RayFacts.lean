import TcheranVerif.Proofs.Rays
import TcheranVerif.Proofs.Geo.B
import TcheranVerif.Proofs.Geo.C
/-!
# Facts about rays and the squares between two squares, re-exported from `Proofs/Geo/*`
-/

namespace Tcheran
open Board Geometry Rules

theorem betweenList_ray : ∀ k : Sq, ∀ dir ∈ Dir.all, ∀ q ∈ ray dir k,
    betweenList k q = (ray dir k).takeWhile (fun x => x != q) := Geo.betweenList_ray

theorem genBetween_list (k q : Sq) : genBetween k q = setOf (betweenList k q) := Geo.genBetween_list k q

theorem genBetween_symm : ∀ a b : Sq, genBetween a b = genBetween b a := Geo.genBetween_symm

theorem betweenList_knight : ∀ k : Sq, ∀ δ ∈ knightDeltas,
    (match offset k δ.1 δ.2 with | some q => (betweenList k q).isEmpty | none => true) = true :=
  Geo.betweenList_knight

theorem betweenList_king : ∀ k : Sq, ∀ δ ∈ kingDeltas,
    (match offset k δ.1 δ.2 with | some q => (betweenList k q).isEmpty | none => true) = true :=
  Geo.betweenList_king

theorem pawn_delta_king : ∀ p ∈ [Player.white, Player.black], ∀ df ∈ ([-1, 1] : List Int),
    (df, -(fwd p)) ∈ kingDeltas := Geo.pawn_delta_king

theorem mem_between (k q d : Sq) : mem (between k q) d = true ↔ d ∈ betweenList k q := by
  rw [between_eq, genBetween_list, mem_setOf]

theorem between_comm (a b : Sq) : between a b = between b a := by
  rw [between_eq, between_eq, genBetween_symm]

end Tcheran
