import TcheranVerif.Proofs.AttackSpec
import TcheranVerif.Proofs.Geo.A
/-!
# Rays, occupancy and what a move changes (geometry layer of C01)

Finite facts about the 64 squares are decided by the kernel (`Proofs/Geo/*`); everything that depends on the
occupancy is proved by induction over the ray lists.
-/

namespace Tcheran
open Board Geometry Rules

/-! ### finite geometry -/

theorem ray_nodup : ∀ d ∈ Dir.all, ∀ s : Sq, (ray d s).Nodup := Geo.ray_nodup
theorem self_not_mem_ray : ∀ d ∈ Dir.all, ∀ s : Sq, s ∉ ray d s := Geo.self_not_mem_ray
theorem ray_disjoint : ∀ s : Sq, ∀ d1 ∈ Dir.all, ∀ d2 ∈ Dir.all, d1 ≠ d2 → ∀ x ∈ ray d1 s, x ∉ ray d2 s :=
  Geo.ray_disjoint
theorem knight_offset_ne : ∀ t : Sq, ∀ d ∈ knightDeltas, offset t d.1 d.2 ≠ some t := Geo.knight_offset_ne
theorem king_offset_ne : ∀ t : Sq, ∀ d ∈ kingDeltas, offset t d.1 d.2 ≠ some t := Geo.king_offset_ne
theorem pawn_offset_ne : ∀ t : Sq, ∀ p ∈ [Player.white, Player.black], ∀ df ∈ ([-1, 1] : List Int),
    offset t df (-(fwd p)) ≠ some t := Geo.pawn_offset_ne

theorem cardinal_sub : ∀ d ∈ Dir.cardinal, d ∈ Dir.all := Geo.cardinal_sub
theorem diagonal_sub : ∀ d ∈ Dir.diagonal, d ∈ Dir.all := Geo.diagonal_sub

/-! ### `seen` -/

theorem seen_sublist (occ : Sq → Bool) (l : List Sq) : ∀ x ∈ seen occ l, x ∈ l := by
  induction l with
  | nil => intro x h; cases h
  | cons y ys ih =>
    intro x h
    unfold seen at h
    split at h
    · simp only [List.mem_singleton] at h; rw [h]; exact List.mem_cons_self
    · rcases List.mem_cons.1 h with e | e
      · rw [e]; exact List.mem_cons_self
      · exact List.mem_cons_of_mem _ (ih x e)

/-- `q` is seen iff everything strictly before it is empty -/
theorem mem_seen_iff (occ : Sq → Bool) (l : List Sq) (q : Sq) :
    q ∈ seen occ l ↔ ∃ pre post, l = pre ++ q :: post ∧ ∀ x ∈ pre, occ x = false := by
  induction l with
  | nil => simp [seen]
  | cons y ys ih =>
    unfold seen
    by_cases hy : occ y = true
    · rw [if_pos hy]
      simp only [List.mem_singleton]
      constructor
      · intro e; subst e; exact ⟨[], ys, rfl, fun _ h => by cases h⟩
      · rintro ⟨pre, post, e, hp⟩
        cases pre with
        | nil => simp only [List.nil_append, List.cons.injEq] at e; exact e.1.symm
        | cons z zs =>
          simp only [List.cons_append, List.cons.injEq] at e
          have := hp z List.mem_cons_self
          rw [← e.1, hy] at this; cases this
    · rw [if_neg hy]
      have hy' : occ y = false := by simpa using hy
      rw [List.mem_cons, ih]
      constructor
      · rintro (e | ⟨pre, post, e, hp⟩)
        · subst e; exact ⟨[], ys, rfl, fun _ h => by cases h⟩
        · refine ⟨y :: pre, post, by rw [e]; rfl, ?_⟩
          intro x hx
          rcases List.mem_cons.1 hx with e' | e'
          · rw [e']; exact hy'
          · exact hp x e'
      · rintro ⟨pre, post, e, hp⟩
        cases pre with
        | nil => simp only [List.nil_append, List.cons.injEq] at e; exact Or.inl e.1.symm
        | cons z zs =>
          simp only [List.cons_append, List.cons.injEq] at e
          exact Or.inr ⟨zs, post, e.2, fun x hx => hp x (List.mem_cons_of_mem _ hx)⟩

theorem seen_congr_all (o1 o2 : Sq → Bool) (l : List Sq) (h : ∀ t ∈ l, o1 t = o2 t) :
    seen o1 l = seen o2 l :=
  seen_congr o1 o2 l (fun t ht => h t (List.dropLast_subset l ht))

/-! ### an attack on `t` does not depend on what stands on `t` -/

theorem attacksFrom_ne (b : RBoard) (by' : Player) (q t : Sq) (h : AttacksFrom b by' q t) : q ≠ t := by
  obtain ⟨k, _, h⟩ := h
  intro e
  subst e
  rcases h with ⟨_, h | h⟩ | ⟨_, d, hd, h⟩ | ⟨_, d, hd, h⟩ | ⟨_, d, hd, h⟩ | ⟨_, d, hd, h⟩
  · exact pawn_offset_ne q by' (by cases by' <;> simp) (-1) (by simp) h
  · exact pawn_offset_ne q by' (by cases by' <;> simp) 1 (by simp) h
  · exact knight_offset_ne q d hd h
  · exact king_offset_ne q d hd h
  · exact self_not_mem_ray d (diagonal_sub d hd) q (seen_sublist _ _ q h)
  · exact self_not_mem_ray d (cardinal_sub d hd) q (seen_sublist _ _ q h)

theorem seen_off_target (b1 b2 : RBoard) (t : Sq) (h : ∀ s, s ≠ t → at' b1 s = at' b2 s) (d : Dir) (hd : d ∈ Dir.all) :
    seen (occOf b1) (ray d t) = seen (occOf b2) (ray d t) := by
  apply seen_congr_all
  intro x hx
  have : x ≠ t := fun e => self_not_mem_ray d hd t (e ▸ hx)
  unfold occOf; rw [h x this]

theorem attacksFrom_off_target (b1 b2 : RBoard) (by' : Player) (q t : Sq)
    (h : ∀ s, s ≠ t → at' b1 s = at' b2 s) (ha : AttacksFrom b1 by' q t) : AttacksFrom b2 by' q t := by
  have hne := attacksFrom_ne b1 by' q t ha
  obtain ⟨k, a, hk⟩ := ha
  refine ⟨k, by rw [← h q hne]; exact a, ?_⟩
  rcases hk with hk | hk | hk | ⟨kk, d, hd, hs⟩ | ⟨kk, d, hd, hs⟩
  · exact Or.inl hk
  · exact Or.inr (Or.inl hk)
  · exact Or.inr (Or.inr (Or.inl hk))
  · exact Or.inr (Or.inr (Or.inr (Or.inl ⟨kk, d, hd, by
      rw [← seen_off_target b1 b2 t h d (diagonal_sub d hd)]; exact hs⟩)))
  · exact Or.inr (Or.inr (Or.inr (Or.inr ⟨kk, d, hd, by
      rw [← seen_off_target b1 b2 t h d (cardinal_sub d hd)]; exact hs⟩)))

/-- **target_irrelevant**: whether `t` is attacked does not depend on the content of `t` -/
theorem attacked_off_target (b1 b2 : RBoard) (by' : Player) (t : Sq)
    (h : ∀ s, s ≠ t → at' b1 s = at' b2 s) : attacked b1 by' t = attacked b2 by' t := by
  have key : ∀ c1 c2 : RBoard, (∀ s, s ≠ t → at' c1 s = at' c2 s) →
      attacked c1 by' t = true → attacked c2 by' t = true := by
    intro c1 c2 hc ha
    obtain ⟨q, hq⟩ := (attacked_iff c1 by' t).1 ha
    exact (attacked_iff c2 by' t).2 ⟨q, attacksFrom_off_target c1 c2 by' q t hc hq⟩
  cases h1 : attacked b1 by' t with
  | true => exact (key b1 b2 h h1).symm
  | false =>
    cases h2 : attacked b2 by' t with
    | false => rfl
    | true =>
      rw [key b2 b1 (fun s hs => (h s hs).symm) h2] at h1
      cases h1

end Tcheran
