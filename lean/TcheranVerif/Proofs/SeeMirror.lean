import TcheranVerif.Model.See
import TcheranVerif.Proofs.Mirror
/-!
# The exchange evaluator is invariant under colour swap + rank flip (C20 `see_mirror`)

By simulation: the state of the mirrored run is the flipped state of the original run at every iteration
of the loop (`loop_mirror`); the choice among equally valued attackers commutes with the flip because it
is colour-relative (`pickSquare_mirror` — exactly what the `fix:` of the tie-break made true).
-/

namespace Tcheran
open Board Geometry
namespace See

def St.mirror (st : St) : St :=
  { score := st.score, victim := st.victim, occupied := BB.flipV st.occupied,
    attackers := BB.flipV st.attackers, diag := BB.flipV st.diag, orth := BB.flipV st.orth,
    color := st.color.other }

theorem flipV_xor (a b : BB) : BB.flipV (a ^^^ b) = BB.flipV a ^^^ BB.flipV b := by
  apply ext_mem; intro t
  simp only [mem_flipV, mem_xor]

theorem flipV_ne_zero (a : BB) : BB.flipV a ≠ 0#64 ↔ a ≠ 0#64 := not_congr (flipV_eq_zero a)

theorem other_eq_other (a b : Player) : a.other = b.other ↔ a = b := by
  cases a <;> cases b <;> simp [Player.other]

theorem other_ne_other (a b : Player) : a.other ≠ b.other ↔ a ≠ b := not_congr (other_eq_other a b)

theorem map_flip_flip (o : Option Sq) : (o.map Sq.flip).map Sq.flip = o := by
  cases o with
  | none => rfl
  | some s => simp only [Option.map_some, flip_flip]

/-- the colour-relative choice commutes with the mirror -/
theorem pickSquare_mirror (color : Player) (X : BB) :
    pickSquare color.other (BB.flipV X) = (pickSquare color X).map Sq.flip := by
  cases color
  · show (BB.lsbSq? (BB.flipV (BB.flipV X))).map Sq.flip = (BB.lsbSq? X).map Sq.flip
    rw [flipV_flipV]
  · show BB.lsbSq? (BB.flipV X) = ((BB.lsbSq? (BB.flipV X)).map Sq.flip).map Sq.flip
    rw [map_flip_flip]

theorem mirror_allDiag (b : Board) : b.mirror.allDiagSliders = BB.flipV b.allDiagSliders := by
  show BB.flipV b.bishops ||| BB.flipV b.queens = BB.flipV (b.bishops ||| b.queens)
  rw [flipV_or]

theorem mirror_allOrth (b : Board) : b.mirror.allOrthSliders = BB.flipV b.allOrthSliders := by
  show BB.flipV b.rooks ||| BB.flipV b.queens = BB.flipV (b.rooks ||| b.queens)
  rw [flipV_or]

theorem find_kind_mirror (b : Board) (color : Player) (mine : BB) :
    PieceKind.all.find? (fun k => decide ¬ (BB.flipV mine &&& b.mirror.piecesOf k color.other) = 0#64) =
    PieceKind.all.find? (fun k => decide ¬ (mine &&& b.piecesOf k color) = 0#64) := by
  congr 1
  funext k
  rw [mirror_piecesOf, ← flipV_and]
  by_cases h : (mine &&& b.piecesOf k color) = 0#64
  · simp [h, flipV_zero]
  · have := (flipV_ne_zero _).2 h
    simp [h, this]

theorem match_congr' {α β : Type} (o : Option α) (f g : α → Option β) (h : ∀ k, f k = g k) :
    (match o with | none => none | some k => f k) = (match o with | none => none | some k => g k) := by
  cases o with
  | none => rfl
  | some k => exact h k

theorem match_flip_congr {β : Type} (o : Option Sq) (f g : Sq → Option β) (h : ∀ s, f s.flip = g s) :
    (match o.map Sq.flip with | none => none | some s => f s) = (match o with | none => none | some s => g s) := by
  cases o with
  | none => rfl
  | some k => exact h k

theorem match_swap_congr {β : Type} (o : Option Piece) (f g : Piece → Option β) (h : ∀ pc, f pc.swap = g pc) :
    (match o.map Piece.swap with | none => none | some s => f s) = (match o with | none => none | some s => g s) := by
  cases o with
  | none => rfl
  | some k => exact h k

/-- **loop_mirror** -/
theorem loop_mirror (T : SliderTables) (b : Board) (mover : Player) (to : Sq) (fuel : Nat) (st : St) :
    loop b.mirror mover.other to.flip fuel st.mirror = loop b mover to fuel st := by
  induction fuel generalizing st with
  | zero => rfl
  | succ fuel ih =>
    unfold loop
    simp only [St.mirror]
    simp only [ne_eq, other_eq_other]
    by_cases h1 : (st.color.other = mover ∧ st.score ≥ 0) ∨ (¬ st.color.other = mover ∧ st.score ≤ 0)
    · simp only [if_pos h1]
    · simp only [if_neg h1]
      have e0 : b.mirror.occFor st.color.other.other = BB.flipV (b.occFor st.color.other) :=
        mirror_occFor b st.color.other
      have e1 : BB.flipV st.attackers &&& BB.flipV (b.occFor st.color.other) =
          BB.flipV (st.attackers &&& b.occFor st.color.other) := (flipV_and _ _).symm
      simp only [e0, e1]
      by_cases hm : st.attackers &&& b.occFor st.color.other = 0#64
      · simp only [if_pos ((flipV_eq_zero _).2 hm), if_pos hm]
      · simp only [if_neg (fun e => hm ((flipV_eq_zero _).1 e)), if_neg hm]
        rw [find_kind_mirror]
        generalize List.find? (fun k => decide ¬st.attackers &&& b.occFor st.color.other &&& b.piecesOf k st.color.other = 0#64)
          PieceKind.all = fk
        cases fk with
        | none => rfl
        | some k =>
          simp only []
          have e2 : BB.flipV (st.attackers &&& b.occFor st.color.other) &&& b.mirror.piecesOf k st.color.other.other =
              BB.flipV (st.attackers &&& b.occFor st.color.other &&& b.piecesOf k st.color.other) := by
            rw [mirror_piecesOf, ← flipV_and]
          simp only [e2, pickSquare_mirror]
          generalize pickSquare st.color.other (st.attackers &&& b.occFor st.color.other &&& b.piecesOf k st.color.other) = ps
          cases ps with
          | none => rfl
          | some asq =>
            simp only [Option.map_some, mirror_pieceAt_flip]
            generalize b.pieceAt asq = pa
            cases pa with
            | none => rfl
            | some apc =>
              simp only [Option.map_some]
              have ek : apc.swap.kind = apc.kind := rfl
              have e3 : BB.flipV st.attackers &&& b.mirror.occFor st.color.other.other.other =
                  BB.flipV (st.attackers &&& b.occFor st.color.other.other) := by
                rw [mirror_occFor b st.color.other.other, ← flipV_and]
              have e4 : BB.flipV st.occupied ^^^ bb asq.flip = BB.flipV (st.occupied ^^^ bb asq) := by
                rw [flipV_xor, flipV_bb]
              simp only [ek, e3, e4, flipV_eq_zero]
              by_cases hk : apc.kind = PieceKind.king ∧ ¬st.attackers &&& b.occFor st.color.other.other = 0#64
              · simp only [if_pos hk]
              · simp only [if_neg hk]
                rw [← ih]
                congr 1
                simp only [St.mirror, St.mk.injEq, true_and, ← flipV_and, bishopAttacks_flip T, rookAttacks_flip T]
                refine ⟨?_, trivial⟩
                by_cases hr : apc.kind = PieceKind.rook ∨ apc.kind = PieceKind.queen <;>
                  by_cases hb : apc.kind = PieceKind.pawn ∨ apc.kind = PieceKind.bishop ∨ apc.kind = PieceKind.queen <;>
                  simp only [hr, hb, if_true, if_false, flipV_or]

theorem pawnAttacks_flip : ∀ s : Sq, pawnAttacks s.flip .white = BB.flipV (pawnAttacks s .black) ∧
    pawnAttacks s.flip .black = BB.flipV (pawnAttacks s .white) := by decide +kernel

theorem allAttackersOf_mirror (T : SliderTables) (b : Board) (s : Sq) (occ : BB) :
    allAttackersOf b.mirror s.flip (BB.flipV occ) = BB.flipV (allAttackersOf b s occ) := by
  unfold allAttackersOf
  have p1 : pawnAttacks s.flip .white &&& b.mirror.pawnsOf .black =
      BB.flipV (pawnAttacks s .black &&& b.pawnsOf .white) := by
    rw [(pawnAttacks_flip s).1, show b.mirror.pawnsOf .black = BB.flipV (b.pawnsOf .white) from mirror_pawnsOf b .white,
      flipV_and]
  have p2 : pawnAttacks s.flip .black &&& b.mirror.pawnsOf .white =
      BB.flipV (pawnAttacks s .white &&& b.pawnsOf .black) := by
    rw [(pawnAttacks_flip s).2, show b.mirror.pawnsOf .white = BB.flipV (b.pawnsOf .black) from mirror_pawnsOf b .black,
      flipV_and]
  have p3 : knightAttacks s.flip &&& b.mirror.knights = BB.flipV (knightAttacks s &&& b.knights) := by
    rw [knightAttacks_flip, flipV_and]; rfl
  have p4 : bishopAttacks s.flip (BB.flipV occ) &&& b.mirror.allDiagSliders =
      BB.flipV (bishopAttacks s occ &&& b.allDiagSliders) := by
    rw [bishopAttacks_flip T, mirror_allDiag, flipV_and]
  have p5 : rookAttacks s.flip (BB.flipV occ) &&& b.mirror.allOrthSliders =
      BB.flipV (rookAttacks s occ &&& b.allOrthSliders) := by
    rw [rookAttacks_flip T, mirror_allOrth, flipV_and]
  have p6 : kingAttacks s.flip &&& b.mirror.kings = BB.flipV (kingAttacks s &&& b.kings) := by
    rw [kingAttacks_flip, flipV_and]; rfl
  rw [p1, p2, p3, p4, p5, p6]
  simp only [flipV_or]
  rw [BitVec.or_comm (BB.flipV (pawnAttacks s .black &&& b.pawnsOf .white))]

theorem swap_kind (pc : Piece) : pc.swap.kind = pc.kind := rfl

/-- **see_mirror**: the verdict on the mirrored capture in the mirrored position is the verdict on the
capture, at every threshold -/
theorem see_mirror (T : SliderTables) (c : Cfg) (g : Game) (mv : Move) (thr : Int) :
    see (Game.mirror c g) mv.mirror thr = see g mv thr := by
  have g1 : (Game.mirror c g).board = g.board.mirror := rfl
  have g2 : (Game.mirror c g).player = g.player.other := rfl
  have g3 : (Game.mirror c g).ep = g.ep.map Sq.flip := rfl
  have m1 : mv.mirror.src = mv.src.flip := rfl
  have m2 : mv.mirror.dst = mv.dst.flip := rfl
  have m3 : mv.mirror.isEnPassant = mv.isEnPassant := rfl
  have m4 : mv.mirror.promotion = mv.promotion := rfl
  unfold see
  simp only [g1, g2, g3, m1, m2, m3, m4]
  rw [mirror_pieceAt_flip, mirror_pieceAt_flip, mirror_occupancy, mirror_allDiag, mirror_allOrth]
  cases g.board.pieceAt mv.src with
  | none => simp only [Option.map_none, Option.bind_eq_bind, Option.bind_none]
  | some moved =>
    simp only [Option.map_some, Option.bind_eq_bind, Option.bind_some, swap_kind]
    have hocc : (BB.flipV g.board.occupancy ^^^ bb mv.src.flip) ||| bb mv.dst.flip =
        BB.flipV ((g.board.occupancy ^^^ bb mv.src) ||| bb mv.dst) := by
      rw [flipV_or, flipV_xor, flipV_bb, flipV_bb]
    rw [hocc]
    have hep : (if mv.isEnPassant then (g.ep.map Sq.flip).map
          (fun e => BB.flipV ((g.board.occupancy ^^^ bb mv.src) ||| bb mv.dst) ^^^ bb e)
        else some (BB.flipV ((g.board.occupancy ^^^ bb mv.src) ||| bb mv.dst))) =
        (if mv.isEnPassant then g.ep.map (fun e => ((g.board.occupancy ^^^ bb mv.src) ||| bb mv.dst) ^^^ bb e)
        else some ((g.board.occupancy ^^^ bb mv.src) ||| bb mv.dst)).map BB.flipV := by
      split
      · cases g.ep with
        | none => rfl
        | some e => simp only [Option.map_some, flipV_xor, flipV_bb]
      · rfl
    rw [hep]
    generalize (if mv.isEnPassant then g.ep.map (fun e => ((g.board.occupancy ^^^ bb mv.src) ||| bb mv.dst) ^^^ bb e)
        else some ((g.board.occupancy ^^^ bb mv.src) ||| bb mv.dst)) = oo
    cases oo with
    | none => simp only [Option.map_none, Option.bind_none]
    | some occ =>
      simp only [Option.map_some, Option.bind_some]
      conv => rhs; rw [← loop_mirror T]
      generalize g.board.pieceAt mv.dst = pd
      cases pd <;>
        simp only [St.mirror, allAttackersOf_mirror T, flipV_and, Option.map_some, Option.map_none, swap_kind]

end See
end Tcheran
