import TcheranVerif.Proofs.MakeTotal
import TcheranVerif.Proofs.Geo.H
import TcheranVerif.Proofs.Geo.I
import TcheranVerif.Proofs.GenerateNodup
/-!
# Legal positions are closed under legal moves (C01 / C02 along every game)

`GInv pos` : each side has exactly one king, the side that is *not* to move is not in check, the e.p.
target and the castling rights are consistent with the placement. `ginv_apply` : it is kept by every
legal move of the rules. Hence the hypotheses of `generate_exact` and `make_move_legal_total` hold at
every position of every game that starts from a position satisfying them.
-/

namespace Tcheran
open Board Game Rules

structure GInv (pos : Pos) : Prop where
  king : ∀ pl, ∃ k, ∀ s, at' pos.board s = some ⟨.king, pl⟩ ↔ s = k
  safe : inCheck pos.board pos.player.other = false
  ep : EpOk pos.board pos.player pos.ep
  rightK : ∀ pl, (pos.rights.forP pl).kingSide = true →
    at' pos.board (kingStart pl) = some ⟨.king, pl⟩ ∧ at' pos.board (kingsideRookStart pl) = some ⟨.rook, pl⟩
  rightQ : ∀ pl, (pos.rights.forP pl).queenSide = true →
    at' pos.board (kingStart pl) = some ⟨.king, pl⟩ ∧ at' pos.board (queensideRookStart pl) = some ⟨.rook, pl⟩

theorem posH_of_ginv (g : Game) (hc : Consistent g.board) (h : GInv (ofGame g)) : ∃ k, PosH g k := by
  obtain ⟨k, hk⟩ := h.king g.player
  refine ⟨k, ⟨hc, hk⟩, h.ep, ?_, ?_⟩
  · intro hr
    obtain ⟨a, b⟩ := h.rightK g.player hr
    exact ⟨((hk _).1 a).symm, b⟩
  · intro hr
    obtain ⟨a, b⟩ := h.rightQ g.player hr
    exact ⟨((hk _).1 a).symm, b⟩

theorem bl_symm_mem (s t x : Sq) : x ∈ betweenList t s ↔ x ∈ betweenList s t := by
  rw [← mem_between, ← mem_between, between_comm]

/-- a pseudo-legal capture attacks its target -/
theorem capture_attacks (pos : Pos) (s : Sq) (pc : Piece) (m : Move) (ha : at' pos.board s = some pc)
    (hp : pc.player = pos.player) (hm : m ∈ pieceMoves pos s pc)
    (hcap : ∃ X, at' pos.board m.dst = some X) : AttacksFrom pos.board pos.player s m.dst := by
  obtain ⟨kk, pl⟩ := pc
  simp only at hp
  subst hp
  have hstep : ∀ (deltas : List (Int × Int)) (k1 : PieceKind),
      (∀ s' : Sq, ∀ δ ∈ deltas, (match offset s' δ.1 δ.2 with
        | some t => deltas.any fun δ' => offset t δ'.1 δ'.2 == some s' | none => true) = true) →
      m ∈ stepMoves pos.board pos.player s deltas → ∃ δ' ∈ deltas, offset m.dst δ'.1 δ'.2 = some s := by
    intro deltas k1 hsym h
    obtain ⟨d, hd, t, ho, h⟩ := (mem_stepMoves _ _ _ _ _).1 h
    have hdst : m.dst = t := by rcases h with ⟨_, e⟩ | ⟨_, _, _, e⟩ <;> rw [e] <;> rfl
    have := hsym s d hd
    rw [ho] at this
    simp only [List.any_eq_true, beq_iff_eq] at this
    obtain ⟨δ', hδ', e⟩ := this
    exact ⟨δ', hδ', by rw [hdst]; exact e⟩
  have hslide : ∀ (F : List Dir), (F = Dir.cardinal ∨ F = Dir.diagonal) →
      (∃ dir ∈ F, m ∈ slideMoves pos.board pos.player s (ray dir s)) →
      (∃ d ∈ F, s ∈ Geometry.seen (occOf pos.board) (ray d m.dst)) := by
    rintro F hF ⟨dir, hdir, h⟩
    have hFa : dir ∈ Dir.all := by
      rcases hF with e | e <;> subst e
      · exact cardinal_sub dir hdir
      · exact diagonal_sub dir hdir
    obtain ⟨t, ht, h⟩ := (mem_slideMoves _ _ _ _ _).1 h
    have hdst : m.dst = t := by rcases h with ⟨_, e⟩ | ⟨_, _, _, e⟩ <;> rw [e] <;> rfl
    obtain ⟨htr, hemp⟩ := (mem_seen_ray _ s t dir hFa).1 ht
    have hopp : dir.opp ∈ F := by
      rcases hF with e | e <;> subst e
      · exact (Geo.opp_family dir hFa).1 hdir
      · exact (Geo.opp_family dir hFa).2 hdir
    have hoppa : dir.opp ∈ Dir.all := dir_mem_all _
    refine ⟨dir.opp, hopp, ?_⟩
    rw [hdst]
    exact (mem_seen_ray _ t s dir.opp hoppa).2 ⟨Geo.ray_symm s dir hFa t htr,
      fun x hx => hemp x ((bl_symm_mem s t x).1 hx)⟩
  unfold pieceMoves at hm
  cases kk <;> simp only at hm
  · -- pawn
    rcases (mem_pawnMoves pos s m).1 hm with ⟨t1, ho, he, h⟩ | ⟨df, hdf, t, ho, h⟩
    · exfalso
      obtain ⟨X, hX⟩ := hcap
      rcases h with ⟨_, pr, _, e⟩ | ⟨_, e⟩ | ⟨_, t2, _, he2, e⟩
      · rw [e, qp_dst, he] at hX; cases hX
      · rw [e] at hX; rw [show (Move.quiet s t1).dst = t1 from rfl, he] at hX; cases hX
      · rw [e] at hX; rw [show (Move.quiet s t2).dst = t2 from rfl, he2] at hX; cases hX
    · have hdst : m.dst = t := by
        rcases h with ⟨pc', _, _, ⟨_, pr, _, e⟩ | ⟨_, e⟩⟩ | ⟨_, _, e⟩
        · rw [e, cp_dst]
        · rw [e]; rfl
        · rw [e]; rfl
      have hsym := (Geo.pawn_attack_symm s t pos.player (Geo.mem_players' _) df hdf).1 ho
      rw [Geo.fwd_other' pos.player (Geo.mem_players' _)] at hsym
      refine ⟨.pawn, ha, Or.inl ⟨rfl, ?_⟩⟩
      rw [hdst]
      simp only [List.mem_cons, List.mem_nil_iff, or_false] at hdf
      rcases hdf with e | e <;> subst e
      · right; simpa using hsym
      · left; simpa using hsym
  · obtain ⟨δ', hδ', e⟩ := hstep knightDeltas .knight Geo.knight_symm hm
    exact ⟨.knight, ha, Or.inr (Or.inl ⟨rfl, δ', hδ', e⟩)⟩
  · obtain ⟨d, hd, e⟩ := hslide Dir.diagonal (Or.inr rfl) (List.mem_flatMap.1 hm)
    exact ⟨.bishop, ha, Or.inr (Or.inr (Or.inr (Or.inl ⟨Or.inl rfl, d, hd, e⟩)))⟩
  · obtain ⟨d, hd, e⟩ := hslide Dir.cardinal (Or.inl rfl) (List.mem_flatMap.1 hm)
    exact ⟨.rook, ha, Or.inr (Or.inr (Or.inr (Or.inr ⟨Or.inl rfl, d, hd, e⟩)))⟩
  · obtain ⟨dir, hdir, h⟩ := List.mem_flatMap.1 hm
    rcases Geo.dir_family dir hdir with ⟨hc, _⟩ | ⟨hdg, _⟩
    · obtain ⟨d, hd, e⟩ := hslide Dir.cardinal (Or.inl rfl) ⟨dir, hc, h⟩
      exact ⟨.queen, ha, Or.inr (Or.inr (Or.inr (Or.inr ⟨Or.inr rfl, d, hd, e⟩)))⟩
    · obtain ⟨d, hd, e⟩ := hslide Dir.diagonal (Or.inr rfl) ⟨dir, hdg, h⟩
      exact ⟨.queen, ha, Or.inr (Or.inr (Or.inr (Or.inl ⟨Or.inr rfl, d, hd, e⟩)))⟩
  · obtain ⟨δ', hδ', e⟩ := hstep kingDeltas .king Geo.king_symm hm
    exact ⟨.king, ha, Or.inr (Or.inr (Or.inl ⟨rfl, δ', hδ', e⟩))⟩

end Tcheran

namespace Tcheran
open Board Game Rules

theorem inCheck_of_attacked (b : RBoard) (pl : Player) (k : Sq)
    (hk : ∀ s, at' b s = some ⟨.king, pl⟩ ↔ s = k) : inCheck b pl = attacked b pl.other k := by
  unfold inCheck
  rw [kingSq_unique b pl k hk]

/-- no pseudo-legal move of a man captures the enemy king (the side not to move is not in check) -/
theorem dst_not_enemy_king (pos : Pos) (h : GInv pos) (s : Sq) (pc : Piece) (m : Move)
    (ha : at' pos.board s = some pc) (hp : pc.player = pos.player) (hm : m ∈ pieceMoves pos s pc) :
    at' pos.board m.dst ≠ some ⟨.king, pos.player.other⟩ := by
  intro hk
  obtain ⟨kE, hkE⟩ := h.king pos.player.other
  have hat := capture_attacks pos s pc m ha hp hm ⟨_, hk⟩
  have hatt : attacked pos.board pos.player m.dst = true := (attacked_iff _ _ _).2 ⟨s, hat⟩
  have hs := h.safe
  rw [inCheck_of_attacked _ _ kE hkE, other_other] at hs
  have : m.dst = kE := (hkE _).1 hk
  rw [this] at hatt
  rw [hatt] at hs; cases hs

/-- the home square of the rook of one castling right -/
def rookHome (pl : Player) : Side → Sq
  | .king => kingsideRookStart pl
  | .queen => queensideRookStart pl

theorem has_remove (r : Rights) (a pl : Player) (s sd : Side) :
    Rights.has (Rights.remove r a s) pl sd = (Rights.has r pl sd && !(decide (a = pl) && decide (s = sd))) := by
  obtain ⟨⟨w1, w2⟩, ⟨b1, b2⟩⟩ := r
  cases a <;> cases pl <;> cases s <;> cases sd <;> simp [Rights.has, Rights.remove, Rights.forP]

theorem captured_other (r : Rights) (o pl : Player) (m : Move) (cap : Option Piece) (sd : Side) (hne : o ≠ pl) :
    Rights.has (capturedRights r o m cap) pl sd = Rights.has r pl sd := by
  unfold capturedRights
  split
  · split
    · rw [has_remove]; simp [hne]
    · split
      · rw [has_remove]; simp [hne]
      · rfl
  · rfl

theorem mover_other (r : Rights) (p pl : Player) (m : Move) (M : Piece) (sd : Side) (hne : p ≠ pl) :
    Rights.has (moverRights r p m M) pl sd = Rights.has r pl sd := by
  unfold moverRights
  split
  · rw [has_remove, has_remove]; simp [hne]
  · split
    · split
      · rw [has_remove]; simp [hne]
      · split
        · rw [has_remove]; simp [hne]
        · rfl
    · rfl

/-- a right of the mover survives only if neither the king nor that rook left its home square -/
theorem mover_right_kept (r : Rights) (p : Player) (m : Move) (M : Piece) (cap : Option Piece) (sd : Side)
    (h : Rights.has (rightsAfter' r p m M cap) p sd = true) :
    Rights.has r p sd = true ∧ ¬ (M.kind = .king ∧ m.src = kingStart p) ∧
    ¬ (M.kind = .rook ∧ m.src = rookHome p sd) := by
  unfold rightsAfter' at h
  have hpo : p.other ≠ p := by cases p <;> simp [Player.other]
  rw [captured_other _ _ _ _ _ _ hpo] at h
  unfold moverRights at h
  have hne := rook_starts_ne p
  by_cases h1 : M.kind = .king ∧ m.src = kingStart p
  · rw [if_pos h1, has_remove, has_remove] at h
    cases sd <;> simp at h
  · rw [if_neg h1] at h
    refine ⟨?_, h1, ?_⟩
    · by_cases h2 : M.kind = .rook
      · rw [if_pos h2] at h
        by_cases h3 : m.src = kingsideRookStart p
        · rw [if_pos h3, has_remove] at h
          simp only [Bool.and_eq_true] at h; exact h.1
        · rw [if_neg h3] at h
          by_cases h4 : m.src = queensideRookStart p
          · rw [if_pos h4, has_remove] at h
            simp only [Bool.and_eq_true] at h; exact h.1
          · rw [if_neg h4] at h; exact h
      · rw [if_neg h2] at h; exact h
    · rintro ⟨h2, h3⟩
      rw [if_pos h2] at h
      cases sd
      · simp only [rookHome] at h3
        rw [if_pos h3, has_remove] at h
        simp at h
      · simp only [rookHome] at h3
        have h3' : ¬ m.src = kingsideRookStart p := fun e => hne (e.symm.trans h3)
        rw [if_neg h3', if_pos h3, has_remove] at h
        simp at h

/-- a right of the opponent survives only if that rook was not captured on its home square -/
theorem other_right_kept (r : Rights) (p : Player) (m : Move) (M : Piece) (cap : Option Piece) (sd : Side)
    (h : Rights.has (rightsAfter' r p m M cap) p.other sd = true) :
    Rights.has r p.other sd = true ∧
    ¬ (cap.isSome = true ∧ m.dst = rookHome p.other sd) := by
  unfold rightsAfter' at h
  have hpo : p ≠ p.other := by cases p <;> simp [Player.other]
  have hne := rook_starts_ne p.other
  have hm := mover_other r p p.other m M sd hpo
  unfold capturedRights at h
  by_cases h5 : cap.isSome = true
  · rw [if_pos h5] at h
    by_cases h6 : m.dst = kingsideRookStart p.other
    · rw [if_pos h6, has_remove] at h
      simp only [Bool.and_eq_true] at h
      refine ⟨hm ▸ h.1, ?_⟩
      rintro ⟨_, h7⟩
      cases sd
      · simp at h
      · simp only [rookHome] at h7
        exact hne (h6.symm.trans h7)
    · rw [if_neg h6] at h
      by_cases h7 : m.dst = queensideRookStart p.other
      · rw [if_pos h7, has_remove] at h
        simp only [Bool.and_eq_true] at h
        refine ⟨hm ▸ h.1, ?_⟩
        rintro ⟨_, h8⟩
        cases sd
        · simp only [rookHome] at h8; exact h6 h8
        · simp at h
      · rw [if_neg h7] at h
        refine ⟨hm ▸ h, ?_⟩
        rintro ⟨_, h8⟩
        cases sd
        · exact h6 h8
        · exact h7 h8
  · rw [if_neg h5] at h
    exact ⟨hm ▸ h, fun e => h5 e.1⟩

theorem apply_rights (pos : Pos) (m : Move) (M : Piece) (hsrc : at' pos.board m.src = some M)
    (hM : M.player = pos.player) :
    (Rules.apply pos m).rights = rightsAfter' pos.rights pos.player m M (at' pos.board m.dst) := by
  rw [← rules_rights pos.rights pos.player m M (at' pos.board m.dst) hM]
  simp only [Rules.apply, hsrc]

end Tcheran

namespace Tcheran
open Board Game Rules

/-- what a legal move changes on the board, in the form the invariant needs -/
structure Change (b nb : RBoard) (p : Player) (M : Piece) (src dst : Sq) (Ext : Sq → Prop) : Prop where
  hsrc : at' b src = some M
  hMp : M.player = p
  hne : src ≠ dst
  old_dst : ∀ X, at' b dst = some X → X.player = p.other ∧ X.kind ≠ .king
  new_src : at' nb src = none
  new_dst : ∃ Y, at' nb dst = some Y ∧ Y.player = p ∧ (Y.kind = .king ↔ M.kind = .king)
  ext_ne : ∀ x, Ext x → x ≠ src ∧ x ≠ dst
  ext_old : ∀ x, Ext x → (at' b x = some ⟨.rook, p⟩ ∧ M.kind = .king ∧ src = kingStart p) ∨
      (at' b x = none ∧ M.kind = .king ∧ src = kingStart p) ∨ at' b x = some ⟨.pawn, p.other⟩
  ext_new : ∀ x, Ext x → at' nb x = none ∨ at' nb x = some ⟨.rook, p⟩
  off : ∀ x, x ≠ src → x ≠ dst → ¬ Ext x → at' nb x = at' b x

theorem player_ne_other (p : Player) : p ≠ p.other := by cases p <;> simp [Player.other]

/-- the opponent's king is where it was -/
theorem Change.enemy_king {b nb : RBoard} {p : Player} {M : Piece} {src dst : Sq} {Ext : Sq → Prop}
    (c : Change b nb p M src dst Ext) [DecidablePred Ext] (x : Sq) :
    at' nb x = some ⟨.king, p.other⟩ ↔ at' b x = some ⟨.king, p.other⟩ := by
  by_cases h1 : x = src
  · subst h1
    rw [c.new_src, c.hsrc]
    constructor
    · intro e; cases e
    · intro e
      have := Option.some.inj e
      rw [this] at c
      exact absurd c.hMp (player_ne_other p).symm
  · by_cases h2 : x = dst
    · subst h2
      obtain ⟨Y, hY, hYp, _⟩ := c.new_dst
      rw [hY]
      constructor
      · intro e
        have := Option.some.inj e
        rw [this] at hYp
        exact absurd hYp (player_ne_other p).symm
      · intro e
        exact absurd rfl (c.old_dst _ e).2
    · by_cases h3 : Ext x
      · rcases c.ext_new x h3 with e | e <;> rcases c.ext_old x h3 with ⟨o, _⟩ | ⟨o, _⟩ | o <;> rw [e, o] <;>
          constructor <;> intro h <;> cases h
      · rw [c.off x h1 h2 h3]

/-- the mover's king: where it was, or on the destination if it is the king that moved -/
theorem Change.own_king {b nb : RBoard} {p : Player} {M : Piece} {src dst : Sq} {Ext : Sq → Prop}
    (c : Change b nb p M src dst Ext) [DecidablePred Ext] (k : Sq)
    (hk : ∀ s, at' b s = some ⟨.king, p⟩ ↔ s = k) :
    ∀ x, at' nb x = some ⟨.king, p⟩ ↔ x = (if M.kind = .king then dst else k) := by
  intro x
  obtain ⟨Y, hY, hYp, hYk⟩ := c.new_dst
  have hpo := player_ne_other p
  by_cases hM : M.kind = .king
  · rw [if_pos hM]
    have hMk : M = ⟨.king, p⟩ := by
      obtain ⟨kk, pl⟩ := M
      simp only at hM
      have := c.hMp
      simp only at this
      subst hM; subst this; rfl
    have hsk : src = k := (hk src).1 (by rw [c.hsrc, hMk])
    by_cases h2 : x = dst
    · subst h2
      rw [hY]
      have : Y = ⟨.king, p⟩ := by
        obtain ⟨kk, pl⟩ := Y
        simp only at hYp hYk
        have := hYk.2 hM
        subst this; subst hYp; rfl
      rw [this]
      exact ⟨fun _ => rfl, fun _ => rfl⟩
    · by_cases h1 : x = src
      · subst h1
        rw [c.new_src]
        exact ⟨fun e => (by cases e), fun e => absurd e h2⟩
      · by_cases h3 : Ext x
        · rcases c.ext_new x h3 with e | e <;> rw [e] <;> constructor <;> intro h
          · cases h
          · exact absurd h h2
          · cases h
          · exact absurd h h2
        · rw [c.off x h1 h2 h3, hk x]
          constructor
          · intro e; exact absurd (e.trans hsk.symm) h1
          · intro e; exact absurd e h2
  · rw [if_neg hM, ← hk x]
    by_cases h1 : x = src
    · subst h1
      rw [c.new_src, c.hsrc]
      constructor
      · intro e; cases e
      · intro e
        have := Option.some.inj e
        rw [this] at hM
        exact absurd rfl hM
    · by_cases h2 : x = dst
      · subst h2
        rw [hY]
        constructor
        · intro e
          have := Option.some.inj e
          rw [this] at hYk
          exact absurd (hYk.1 rfl) hM
        · intro e
          have := (c.old_dst _ e).1
          exact absurd this hpo
      · by_cases h3 : Ext x
        · rcases c.ext_new x h3 with e | e <;> rcases c.ext_old x h3 with ⟨o, _⟩ | ⟨o, _⟩ | o <;> rw [e, o] <;>
            constructor <;> intro h <;> cases h
        · rw [c.off x h1 h2 h3]

end Tcheran

namespace Tcheran
open Board Game Rules

theorem Change.home_kept {b nb : RBoard} {p : Player} {M : Piece} {src dst : Sq} {Ext : Sq → Prop}
    (c : Change b nb p M src dst Ext) [DecidablePred Ext] (pl : Player) (K : PieceKind) (hK : K = .king ∨ K = .rook)
    (hsq : Sq) (hat : at' b hsq = some ⟨K, pl⟩)
    (hown : pl = p → ¬ (M.kind = .king ∧ src = kingStart p) ∧ ¬ (M.kind = K ∧ src = hsq))
    (hoth : pl = p.other → K = .rook → ¬ ((at' b dst).isSome = true ∧ dst = hsq)) :
    at' nb hsq = some ⟨K, pl⟩ := by
  have hpo := player_ne_other p
  by_cases h1 : hsq = src
  · exfalso
    rw [h1, c.hsrc] at hat
    have hM := Option.some.inj hat
    have hpl : pl = p := by rw [← c.hMp, hM]
    have := (hown hpl).2
    exact this ⟨by rw [hM], h1.symm⟩
  · by_cases h2 : hsq = dst
    · exfalso
      rw [h2] at hat
      obtain ⟨hXp, hXk⟩ := c.old_dst _ hat
      simp only at hXp hXk
      rcases hK with e | e
      · exact hXk e
      · exact hoth hXp e ⟨by rw [hat]; rfl, h2.symm⟩
    · by_cases h3 : Ext hsq
      · exfalso
        rcases c.ext_old hsq h3 with ⟨o, hk, hs⟩ | ⟨o, _⟩ | o
        · rw [o] at hat
          have := Option.some.inj hat
          simp only [Piece.mk.injEq] at this
          exact (hown this.2.symm).1 ⟨hk, hs⟩
        · rw [o] at hat; cases hat
        · rw [o] at hat
          have := Option.some.inj hat
          simp only [Piece.mk.injEq] at this
          rcases hK with e | e <;> rw [e] at this <;> cases this.1
      · rw [c.off hsq h1 h2 h3]; exact hat

/-- the castling rights that survive the move are still backed by king and rook on their home squares -/
theorem Change.rights {b nb : RBoard} {p : Player} {M : Piece} {m : Move} {Ext : Sq → Prop}
    (c : Change b nb p M m.src m.dst Ext) [DecidablePred Ext] (r : Rights)
    (hK : ∀ pl, (r.forP pl).kingSide = true →
      at' b (kingStart pl) = some ⟨.king, pl⟩ ∧ at' b (kingsideRookStart pl) = some ⟨.rook, pl⟩)
    (hQ : ∀ pl, (r.forP pl).queenSide = true →
      at' b (kingStart pl) = some ⟨.king, pl⟩ ∧ at' b (queensideRookStart pl) = some ⟨.rook, pl⟩)
    (pl : Player) (sd : Side) (h : Rights.has (rightsAfter' r p m M (at' b m.dst)) pl sd = true) :
    at' nb (kingStart pl) = some ⟨.king, pl⟩ ∧
    at' nb (rookHome pl sd) = some ⟨.rook, pl⟩ := by
  have hpo := player_ne_other p
  have hpl : pl = p ∨ pl = p.other := by cases pl <;> cases p <;> simp [Player.other]
  rcases hpl with e | e
  · subst e
    obtain ⟨hr, hk, hrk⟩ := mover_right_kept r pl m M (at' b m.dst) sd h
    have hold : at' b (kingStart pl) = some ⟨.king, pl⟩ ∧
        at' b (rookHome pl sd) = some ⟨.rook, pl⟩ := by
      cases sd
      · exact hK pl hr
      · exact hQ pl hr
    refine ⟨c.home_kept pl .king (Or.inl rfl) _ hold.1 (fun _ => ⟨hk, hk⟩) (fun e => absurd e hpo), ?_⟩
    exact c.home_kept pl .rook (Or.inr rfl) _ hold.2 (fun _ => ⟨hk, hrk⟩) (fun e => absurd e hpo)
  · subst e
    obtain ⟨hr, hcap⟩ := other_right_kept r p m M (at' b m.dst) sd h
    have hold : at' b (kingStart p.other) = some ⟨.king, p.other⟩ ∧
        at' b (rookHome p.other sd) = some ⟨.rook, p.other⟩ := by
      cases sd
      · exact hK p.other hr
      · exact hQ p.other hr
    refine ⟨c.home_kept p.other .king (Or.inl rfl) _ hold.1 (fun e => absurd e.symm hpo) (fun _ e => by cases e), ?_⟩
    exact c.home_kept p.other .rook (Or.inr rfl) _ hold.2 (fun e => absurd e.symm hpo) (fun _ _ => hcap)

end Tcheran

namespace Tcheran
open Board Game Rules

/-- the destination of a pseudo-legal move of a man never holds a man of the mover; a promotion is a pawn's -/
theorem piece_move_dst (pos : Pos) (s : Sq) (pc : Piece) (m : Move) (hm : m ∈ pieceMoves pos s pc) :
    (∀ X, at' pos.board m.dst = some X → X.player ≠ pos.player) ∧ (m.promotion.isSome = true → pc.kind = .pawn) := by
  have hq : ∀ a b : Sq, (Move.quiet a b).promotion = none := fun _ _ => rfl
  have hcp : ∀ a b : Sq, (Move.capture a b).promotion = none := fun _ _ => rfl
  have hstep : ∀ deltas, m ∈ stepMoves pos.board pos.player s deltas →
      (∀ X, at' pos.board m.dst = some X → X.player ≠ pos.player) ∧ m.promotion = none := by
    intro deltas h
    obtain ⟨d, _, t, _, h⟩ := (mem_stepMoves _ _ _ _ _).1 h
    rcases h with ⟨he, e⟩ | ⟨X, hX, hp, e⟩
    · rw [e]; exact ⟨fun X hX' => (by rw [show (Move.quiet s t).dst = t from rfl, he] at hX'; cases hX'), rfl⟩
    · rw [e]
      refine ⟨fun X' hX' => ?_, rfl⟩
      rw [show (Move.capture s t).dst = t from rfl, hX] at hX'
      rw [← Option.some.inj hX']; exact hp
  have hslide : ∀ R, m ∈ slideMoves pos.board pos.player s R →
      (∀ X, at' pos.board m.dst = some X → X.player ≠ pos.player) ∧ m.promotion = none := by
    intro R h
    obtain ⟨t, _, h⟩ := (mem_slideMoves _ _ _ _ _).1 h
    rcases h with ⟨he, e⟩ | ⟨X, hX, hp, e⟩
    · rw [e]; exact ⟨fun X hX' => (by rw [show (Move.quiet s t).dst = t from rfl, he] at hX'; cases hX'), rfl⟩
    · rw [e]
      refine ⟨fun X' hX' => ?_, rfl⟩
      rw [show (Move.capture s t).dst = t from rfl, hX] at hX'
      rw [← Option.some.inj hX']; exact hp
  unfold pieceMoves at hm
  obtain ⟨kk, pl⟩ := pc
  cases kk <;> simp only at hm
  · refine ⟨?_, fun _ => rfl⟩
    rcases (mem_pawnMoves pos s m).1 hm with ⟨t1, _, he, h⟩ | ⟨df, _, t, _, h⟩
    · rcases h with ⟨_, pr, _, e⟩ | ⟨_, e⟩ | ⟨_, t2, _, he2, e⟩
      · rw [e, qp_dst]; intro X hX; rw [he] at hX; cases hX
      · rw [e]; intro X hX; rw [show (Move.quiet s t1).dst = t1 from rfl, he] at hX; cases hX
      · rw [e]; intro X hX; rw [show (Move.quiet s t2).dst = t2 from rfl, he2] at hX; cases hX
    · rcases h with ⟨X, hX, hp, ⟨_, pr, _, e⟩ | ⟨_, e⟩⟩ | ⟨he, _, e⟩
      · rw [e, cp_dst]; intro X' hX'; rw [hX] at hX'; rw [← Option.some.inj hX']; exact hp
      · rw [e]; intro X' hX'
        rw [show (Move.capture s t).dst = t from rfl, hX] at hX'; rw [← Option.some.inj hX']; exact hp
      · rw [e]; intro X' hX'; rw [show (Move.enPassant s t).dst = t from rfl, he] at hX'; cases hX'
  · obtain ⟨a, b⟩ := hstep _ hm; exact ⟨a, fun h => by rw [b] at h; cases h⟩
  · obtain ⟨dir, _, h⟩ := List.mem_flatMap.1 hm
    obtain ⟨a, b⟩ := hslide _ h; exact ⟨a, fun h => by rw [b] at h; cases h⟩
  · obtain ⟨dir, _, h⟩ := List.mem_flatMap.1 hm
    obtain ⟨a, b⟩ := hslide _ h; exact ⟨a, fun h => by rw [b] at h; cases h⟩
  · obtain ⟨dir, _, h⟩ := List.mem_flatMap.1 hm
    obtain ⟨a, b⟩ := hslide _ h; exact ⟨a, fun h => by rw [b] at h; cases h⟩
  · obtain ⟨a, b⟩ := hstep _ hm; exact ⟨a, fun h => by rw [b] at h; cases h⟩

end Tcheran

namespace Tcheran
open Board Game Rules

theorem has_king (r : Rights) (pl : Player) : Rights.has r pl .king = (r.forP pl).kingSide := rfl
theorem has_queen (r : Rights) (pl : Player) : Rights.has r pl .queen = (r.forP pl).queenSide := rfl

/-- the invariant after a move, from the description of what the move changes -/
theorem ginv_of_change (pos : Pos) (m : Move) (M : Piece) (Ext : Sq → Prop) [DecidablePred Ext] (h : GInv pos)
    (c : Change pos.board (applyBoard pos.board pos.player m) pos.player M m.src m.dst Ext)
    (hlegal : inCheck (applyBoard pos.board pos.player m) pos.player = false)
    (hep : EpOk (applyBoard pos.board pos.player m) pos.player.other (Rules.apply pos m).ep) :
    GInv (Rules.apply pos m) := by
  have hb : (Rules.apply pos m).board = applyBoard pos.board pos.player m := rfl
  have hp : (Rules.apply pos m).player = pos.player.other := rfl
  have hr := apply_rights pos m M c.hsrc c.hMp
  refine ⟨?_, ?_, ?_, ?_, ?_⟩
  · intro pl
    rw [hb]
    have hpl : pl = pos.player ∨ pl = pos.player.other := by
      cases pl <;> cases pos.player <;> simp [Player.other]
    rcases hpl with e | e
    · subst e
      obtain ⟨k, hk⟩ := h.king pos.player
      exact ⟨_, c.own_king k hk⟩
    · subst e
      obtain ⟨k, hk⟩ := h.king pos.player.other
      exact ⟨k, fun s => (c.enemy_king s).trans (hk s)⟩
  · rw [hb, hp, other_other]; exact hlegal
  · rw [hb, hp]; exact hep
  · intro pl hk
    rw [hb]
    rw [hr, ← has_king] at hk
    exact c.rights pos.rights h.rightK h.rightQ pl .king hk
  · intro pl hk
    rw [hb]
    rw [hr, ← has_queen] at hk
    exact c.rights pos.rights h.rightK h.rightQ pl .queen hk

end Tcheran

namespace Tcheran
open Board Game Rules

theorem epOk_none (sq : RBoard) (p : Player) : EpOk sq p none := fun _ h => by cases h

theorem castleMk_empties (b : RBoard) (p : Player) (ks : Sq) (right : Bool) (rf : Sq) (emp path : List Sq) (dst : Sq)
    (m : Move) (h : m ∈ castleMk b p ks right rf emp path dst) : ∀ x ∈ emp, at' b x = none := by
  unfold castleMk at h
  split at h
  · rename_i hc
    simp only [Bool.and_eq_true, List.all_eq_true] at hc
    intro x hx
    have := hc.1.1.2 x hx
    cases hh : at' b x with
    | none => rfl
    | some y => rw [hh] at this; cases this
  · cases h

/-- everything the invariant needs to know about a castling move of the rules -/
theorem castle_move_facts2 (pos : Pos) (m : Move) (h : m ∈ castleMoves pos) :
    ∃ rf rt, m = Move.castles (kingStart pos.player) m.dst ∧
      at' pos.board (kingStart pos.player) = some ⟨.king, pos.player⟩ ∧
      castleSquares pos.player m.dst = some (rf, rt) ∧ at' pos.board rf = some ⟨.rook, pos.player⟩ ∧
      at' pos.board m.dst = none ∧ at' pos.board rt = none ∧
      kingStart pos.player ≠ m.dst ∧ rf ≠ kingStart pos.player ∧ rf ≠ m.dst ∧ rt ≠ kingStart pos.player ∧
      rt ≠ m.dst ∧ rf ≠ rt := by
  rw [castleMoves_eq] at h
  cases hp : pos.player with
  | white =>
    rw [hp] at h
    simp only [List.mem_append] at h
    rcases h with h | h
    · obtain ⟨e, hk, hrk⟩ := castleMk_facts _ _ _ _ _ _ _ _ _ h
      have hemp := castleMk_empties _ _ _ _ _ _ _ _ _ h
      subst e
      exact ⟨H1, F1, rfl, hk, by decide, hrk, hemp G1 (by simp), hemp F1 (by simp), by decide, by decide, by decide,
        by decide, by decide, by decide⟩
    · obtain ⟨e, hk, hrk⟩ := castleMk_facts _ _ _ _ _ _ _ _ _ h
      have hemp := castleMk_empties _ _ _ _ _ _ _ _ _ h
      subst e
      exact ⟨A1, D1, rfl, hk, by decide, hrk, hemp C1 (by simp), hemp D1 (by simp), by decide, by decide, by decide,
        by decide, by decide, by decide⟩
  | black =>
    rw [hp] at h
    simp only [List.mem_append] at h
    rcases h with h | h
    · obtain ⟨e, hk, hrk⟩ := castleMk_facts _ _ _ _ _ _ _ _ _ h
      have hemp := castleMk_empties _ _ _ _ _ _ _ _ _ h
      subst e
      exact ⟨H8, F8, rfl, hk, by decide, hrk, hemp G8 (by simp), hemp F8 (by simp), by decide, by decide, by decide,
        by decide, by decide, by decide⟩
    · obtain ⟨e, hk, hrk⟩ := castleMk_facts _ _ _ _ _ _ _ _ _ h
      have hemp := castleMk_empties _ _ _ _ _ _ _ _ _ h
      subst e
      exact ⟨A8, D8, rfl, hk, by decide, hrk, hemp C8 (by simp), hemp D8 (by simp), by decide, by decide, by decide,
        by decide, by decide, by decide⟩

theorem apply_ep_eq (pos : Pos) (m : Move) :
    (Rules.apply pos m).ep =
      (if ((at' pos.board m.src).any (fun pc => pc.kind == .pawn) && decide (m.src.rank = startRank pos.player) &&
            decide ((m.dst.rank : Int) = m.src.rank + 2 * fwd pos.player)) = true then
        (if (isPiece (applyBoard pos.board pos.player m) (offset m.dst (-1) 0) .pawn pos.player.other ||
             isPiece (applyBoard pos.board pos.player m) (offset m.dst 1 0) .pawn pos.player.other) = true then
          offset m.src 0 (fwd pos.player) else none)
      else none) := rfl

/-- no new e.p. target unless a pawn advanced two ranks -/
theorem apply_ep_none (pos : Pos) (m : Move)
    (h : ¬ ((at' pos.board m.src).any (fun pc => pc.kind == .pawn) = true ∧
          (m.dst.rank : Int) = m.src.rank + 2 * fwd pos.player)) : (Rules.apply pos m).ep = none := by
  rw [apply_ep_eq]
  split
  · rename_i hc
    simp only [Bool.and_eq_true, decide_eq_true_eq] at hc
    exact absurd ⟨hc.1.1, hc.2⟩ h
  · rfl

end Tcheran

namespace Tcheran
open Board Game Rules

/-- **ginv_apply**: legal positions are closed under the legal moves of the rules -/
theorem ginv_apply (pos : Pos) (m : Move) (h : GInv pos) (hl : m ∈ legalMoves pos) : GInv (Rules.apply pos m) := by
  obtain ⟨hps, hlegal⟩ := (mem_legalMoves_iff pos m).1 hl
  have hpo := player_ne_other pos.player
  rcases hps with ⟨s, pc, ha, hp, hm⟩ | hcs
  · obtain ⟨hsrc, hnc⟩ := piece_move_src pos s pc m ha hm
    have hne := piece_move_ne pos s pc m hm
    obtain ⟨hdst, hpromo⟩ := piece_move_dst pos s pc m hm
    have hsrc' : at' pos.board m.src = some pc := by rw [hsrc]; exact ha
    by_cases hep : m.isEnPassant = true
    · -- en passant
      obtain ⟨df, hdf, ho, hepv, _⟩ := ep_flag_move pos s pc m hm hep
      obtain ⟨htemp, v, hv, hvp⟩ := h.ep m.dst hepv
      have hsq := Geo.ep_squares s pos.player (Geo.mem_players' _) df hdf
      rw [ho] at hsq
      simp only at hsq
      rw [hv] at hsq
      simp only [decide_eq_true_eq] at hsq
      have hmv : m = Move.enPassant m.src m.dst := by
        obtain ⟨a, b, f⟩ := m
        have : f = .enPassant := by simpa [Move.isEnPassant] using hep
        subst this; rfl
      have hat : ∀ x, at' (applyBoard pos.board pos.player m) x =
          if x = v then none else if x = m.dst then some pc else if x = m.src then none else at' pos.board x := by
        intro x
        rw [hmv]
        exact applyBoard_ep pos.board pos.player m.src m.dst v pc hsrc' hv x
      have hpk : pc.kind = .pawn := by
        -- only pawns capture en passant
        obtain ⟨kk, pl⟩ := pc
        unfold pieceMoves at hm
        have hstepF : ∀ deltas, m ∈ stepMoves pos.board pos.player s deltas → False := by
          intro deltas hh
          obtain ⟨d, _, t, _, hh⟩ := (mem_stepMoves _ _ _ _ _).1 hh
          rcases hh with ⟨_, e⟩ | ⟨_, _, _, e⟩ <;> rw [e] at hep <;> cases hep
        have hslideF : ∀ R, m ∈ slideMoves pos.board pos.player s R → False := by
          intro R hh
          obtain ⟨t, _, hh⟩ := (mem_slideMoves _ _ _ _ _).1 hh
          rcases hh with ⟨_, e⟩ | ⟨_, _, _, e⟩ <;> rw [e] at hep <;> cases hep
        cases kk <;> simp only at hm
        · rfl
        · exact (hstepF _ hm).elim
        · obtain ⟨dir, _, hh⟩ := List.mem_flatMap.1 hm; exact (hslideF _ hh).elim
        · obtain ⟨dir, _, hh⟩ := List.mem_flatMap.1 hm; exact (hslideF _ hh).elim
        · obtain ⟨dir, _, hh⟩ := List.mem_flatMap.1 hm; exact (hslideF _ hh).elim
        · exact (hstepF _ hm).elim
      have hvs : v ≠ m.src := by rw [hsrc]; exact hsq.2.1
      have c : Change pos.board (applyBoard pos.board pos.player m) pos.player pc m.src m.dst (fun x => x = v) :=
        { hsrc := hsrc', hMp := hp, hne := hne
          old_dst := fun X hX => by rw [htemp] at hX; cases hX
          new_src := by rw [hat, if_neg (Ne.symm hvs), if_neg hne, if_pos rfl]
          new_dst := ⟨pc, by rw [hat, if_neg (Ne.symm hsq.1), if_pos rfl], hp, by rw [hpk]⟩
          ext_ne := fun x hx => by rw [hx]; exact ⟨hvs, hsq.1⟩
          ext_old := fun x hx => Or.inr (Or.inr (by rw [hx]; exact hvp))
          ext_new := fun x hx => Or.inl (by rw [hx, hat, if_pos rfl])
          off := fun x h1 h2 h3 => by rw [hat, if_neg h3, if_neg h2, if_neg h1] }
      refine ginv_of_change pos m pc (fun x => x = v) h c hlegal ?_
      rw [apply_ep_none pos m ?_]
      · exact epOk_none _ _
      · rintro ⟨_, hr⟩
        have hf := Geo.single_step_rank s pos.player (Geo.mem_players' _) df (by
          simp only [List.mem_cons, List.mem_nil_iff, or_false] at hdf ⊢
          rcases hdf with e | e <;> simp [e])
        rw [ho] at hf
        simp only [decide_eq_true_eq] at hf
        rw [hsrc] at hr
        exact hf hr
    · -- plain move
      have hepf : m.isEnPassant = false := by simpa using hep
      have hfl : m.flag ≠ .enPassant ∧ m.flag ≠ .castle := by
        constructor
        · intro e; rw [Move.isEnPassant, e] at hepf; cases hepf
        · intro e; rw [Move.isCastling, e] at hnc; cases hnc
      have hat := applyBoard_plain pos.board pos.player m pc hfl hsrc'
      have hplk : (placedPiece pos.player m pc).player = pos.player ∧
          ((placedPiece pos.player m pc).kind = .king ↔ pc.kind = .king) := by
        unfold placedPiece
        cases hpr : m.promotion with
        | none => exact ⟨hp, Iff.rfl⟩
        | some pr =>
          refine ⟨rfl, ?_⟩
          have hk := hpromo (by rw [hpr]; rfl)
          constructor
          · intro e; exact absurd e (promo_piece_ne_king pr)
          · intro e; rw [hk] at e; cases e
      have c : Change pos.board (applyBoard pos.board pos.player m) pos.player pc m.src m.dst (fun _ => False) :=
        { hsrc := hsrc', hMp := hp, hne := hne
          old_dst := fun X hX => by
            have h1 := hdst X hX
            have hXo : X.player = pos.player.other := by
              cases hx : X.player <;> cases hq : pos.player <;> simp_all [Player.other]
            refine ⟨hXo, fun hk => ?_⟩
            have : X = ⟨.king, pos.player.other⟩ := by
              obtain ⟨kk, pl⟩ := X
              simp only at hXo hk
              subst hXo; subst hk; rfl
            exact dst_not_enemy_king pos h s pc m ha hp hm (this ▸ hX)
          new_src := by rw [hat, if_neg hne, if_pos rfl]
          new_dst := ⟨_, by rw [hat, if_pos rfl], hplk.1, hplk.2⟩
          ext_ne := fun x hx => hx.elim
          ext_old := fun x hx => hx.elim
          ext_new := fun x hx => hx.elim
          off := fun x h1 h2 _ => by rw [hat, if_neg h2, if_neg h1] }
      refine ginv_of_change pos m pc (fun _ => False) h c hlegal ?_
      -- the new e.p. target
      intro t het
      rw [apply_ep_eq] at het
      split at het
      · rename_i hc
        simp only [Bool.and_eq_true, decide_eq_true_eq] at hc
        obtain ⟨⟨hpawn, hsr⟩, hrk⟩ := hc
        rw [hsrc'] at hpawn
        have hpk : pc.kind = .pawn := by simpa using hpawn
        split at het
        · -- a pawn move that advances two ranks is a double step
          obtain ⟨kk, pl⟩ := pc
          simp only at hpk hp
          subst hpk
          unfold pieceMoves at hm
          simp only at hm
          have hpl' := Geo.mem_players' pos.player
          rcases (mem_pawnMoves pos s m).1 hm with ⟨t1, ho1, he1, hh⟩ | ⟨df, hdf, t', ho', hh⟩
          · rcases hh with ⟨_, pr, _, e⟩ | ⟨_, e⟩ | ⟨_, t2, ho2, he2, e⟩
            · exfalso
              have hf := Geo.single_step_rank s pos.player hpl' 0 (by simp)
              rw [ho1] at hf
              simp only [decide_eq_true_eq] at hf
              rw [e, qp_src, qp_dst] at hrk
              exact hf hrk
            · exfalso
              have hf := Geo.single_step_rank s pos.player hpl' 0 (by simp)
              rw [ho1] at hf
              simp only [decide_eq_true_eq] at hf
              rw [e] at hrk
              exact hf hrk
            · have hd := Geo.double_step_squares s pos.player hpl'
              rw [ho1, ho2] at hd
              simp only [Bool.and_eq_true, beq_iff_eq, decide_eq_true_eq] at hd
              obtain ⟨hvv, h1s, h12, hs2⟩ := hd
              have hms : m.src = s := by rw [e]; rfl
              have hmd : m.dst = t2 := by rw [e]; rfl
              rw [hms, ho1] at het
              have htt : t = t1 := (Option.some.inj het).symm
              subst htt
              refine ⟨?_, t2, hvv, ?_⟩
              · rw [hat, hmd, hms, if_neg h12, if_neg h1s]; exact he1
              · rw [hat, hmd, if_pos rfl]
                have : m.promotion = none := by rw [e]; rfl
                unfold placedPiece
                rw [this]
                simp only
                rw [other_other]
                exact congrArg (fun q => some (Piece.mk .pawn q)) hp
          · exfalso
            have hf := Geo.single_step_rank s pos.player hpl' df (by
              simp only [List.mem_cons, List.mem_nil_iff, or_false] at hdf ⊢
              rcases hdf with e | e <;> simp [e])
            rw [ho'] at hf
            simp only [decide_eq_true_eq] at hf
            have hmd : m.dst = t' := by
              rcases hh with ⟨_, _, _, ⟨_, pr, _, e⟩ | ⟨_, e⟩⟩ | ⟨_, _, e⟩
              · rw [e, cp_dst]
              · rw [e]; rfl
              · rw [e]; rfl
            rw [hsrc, hmd] at hrk
            exact hf hrk
        · cases het
      · cases het
  · -- castling
    obtain ⟨rf, rt, hmv, hk, hsq, hrook, hde, hrte, n1, n2, n3, n4, n5, n6⟩ := castle_move_facts2 pos m hcs
    have hms : m.src = kingStart pos.player := by rw [hmv]; rfl
    have hat : ∀ x, at' (applyBoard pos.board pos.player m) x =
        if x = rt then some ⟨.rook, pos.player⟩ else if x = rf then none else
        if x = m.dst then some ⟨.king, pos.player⟩ else if x = kingStart pos.player then none else at' pos.board x := by
      intro x
      rw [hmv]
      exact applyBoard_castle pos.board pos.player (kingStart pos.player) m.dst rf rt hk hsq x
    have c : Change pos.board (applyBoard pos.board pos.player m) pos.player ⟨.king, pos.player⟩ m.src m.dst
        (fun x => x = rf ∨ x = rt) :=
      { hsrc := by rw [hms]; exact hk
        hMp := rfl
        hne := by rw [hms]; exact n1
        old_dst := fun X hX => by rw [hde] at hX; cases hX
        new_src := by rw [hat, hms, if_neg (Ne.symm n4), if_neg (Ne.symm n2), if_neg n1, if_pos rfl]
        new_dst := ⟨⟨.king, pos.player⟩, by rw [hat, if_neg (Ne.symm n5), if_neg (Ne.symm n3), if_pos rfl], rfl, Iff.rfl⟩
        ext_ne := fun x hx => by
          rw [hms]
          rcases hx with e | e <;> rw [e]
          · exact ⟨n2, n3⟩
          · exact ⟨n4, n5⟩
        ext_old := fun x hx => by
          rcases hx with e | e <;> rw [e]
          · exact Or.inl ⟨hrook, rfl, hms⟩
          · exact Or.inr (Or.inl ⟨hrte, rfl, hms⟩)
        ext_new := fun x hx => by
          rcases hx with e | e <;> rw [e]
          · left; rw [hat, if_neg n6, if_pos rfl]
          · right; rw [hat, if_pos rfl]
        off := fun x h1 h2 h3 => by
          rw [hms] at h1
          rw [hat, if_neg (fun e => h3 (Or.inr e)), if_neg (fun e => h3 (Or.inl e)), if_neg h2, if_neg h1] }
    refine ginv_of_change pos m ⟨.king, pos.player⟩ (fun x => x = rf ∨ x = rt) h c hlegal ?_
    rw [apply_ep_none pos m ?_]
    · exact epOk_none _ _
    · rintro ⟨hpawn, _⟩
      rw [hms, hk] at hpawn
      simp at hpawn

end Tcheran

namespace Tcheran
open Board Game Rules

/-- a game of legal moves under the rules -/
inductive LegalPath : Pos → List Move → Pos → Prop
  | nil (pos : Pos) : LegalPath pos [] pos
  | cons (pos : Pos) (m : Move) (ms : List Move) (pos' : Pos) :
      m ∈ legalMoves pos → LegalPath (Rules.apply pos m) ms pos' → LegalPath pos (m :: ms) pos'

theorem ginv_path (pos pos' : Pos) (ms : List Move) (h : GInv pos) (hp : LegalPath pos ms pos') : GInv pos' := by
  induction hp with
  | nil _ => exact h
  | cons pos m ms pos' hl _ ih => exact ih (ginv_apply pos m h hl)

/-- `make_move` iterated -/
def makeMoves (c : Cfg) : Game → List Move → Option Game
  | g, [] => some g
  | g, m :: ms => (makeMove c g m).bind fun g' => makeMoves c g' ms

/-- the side condition of `makeMove_consistent` / `sync_makeMove` holds for every legal move -/
theorem castle_hyp_of_legal (g : Game) (m : Move) (hl : m ∈ legalMoves (ofGame g)) :
    m.isCastling = true → ∀ rf rt, castleSquares g.player m.dst = some (rf, rt) →
      rt ≠ rf ∧ rt ≠ m.dst ∧ rt ≠ m.src ∧ g.board.pieceAt rt = none := by
  intro hcs rf rt hsq
  obtain ⟨hps, _⟩ := (mem_legalMoves_iff (ofGame g) m).1 hl
  rcases hps with ⟨s, pc, ha, _, hm⟩ | hcm
  · rw [(piece_move_src (ofGame g) s pc m ha hm).2] at hcs; cases hcs
  · obtain ⟨rf', rt', hmv, _, hsq', _, _, hrte, _, _, _, n4, n5, n6⟩ := castle_move_facts2 (ofGame g) m hcm
    have hsq0 : castleSquares g.player m.dst = some (rf', rt') := hsq'
    rw [hsq0] at hsq
    have := Option.some.inj hsq
    simp only [Prod.mk.injEq] at this
    obtain ⟨e1, e2⟩ := this
    subst e1; subst e2
    have hms : m.src = kingStart g.player := by rw [hmv]; rfl
    exact ⟨Ne.symm n6, n5, by rw [hms]; exact n4, hrte⟩

/-- **game_refines**: along every game of legal moves from a position that satisfies the invariant (and
whose board views agree), `make_move` answers at every step, the engine's position is the rules'
position, the views keep agreeing and the invariant keeps holding -/
theorem game_refines (c : Cfg) (g : Game) (ms : List Move) (pos' : Pos) (hc : Consistent g.board)
    (h : GInv (ofGame g)) (hp : LegalPath (ofGame g) ms pos') :
    ∃ g', makeMoves c g ms = some g' ∧ ofGame g' = pos' ∧ Consistent g'.board ∧ GInv (ofGame g') := by
  generalize hpos : ofGame g = pos at hp
  induction hp generalizing g with
  | nil _ => exact ⟨g, rfl, hpos, hc, h⟩
  | cons pos m ms pos' hl _ ih =>
    subst hpos
    obtain ⟨k, hk⟩ := posH_of_ginv g hc h
    obtain ⟨g1, hg1, hr⟩ := make_move_legal_total c g k hk m hl
    have hc1 : Consistent g1.board := by
      refine makeMove_consistent c g g1 m hc hg1 ?_
      intro hcs rf rt hsq
      obtain ⟨hps, _⟩ := (mem_legalMoves_iff (ofGame g) m).1 hl
      rcases hps with ⟨s, pc, ha, _, hm⟩ | hcm
      · rw [(piece_move_src (ofGame g) s pc m ha hm).2] at hcs; cases hcs
      · obtain ⟨rf', rt', hmv, _, hsq', _, _, hrte, _, _, _, n4, n5, n6⟩ := castle_move_facts2 (ofGame g) m hcm
        have hsq0 : castleSquares g.player m.dst = some (rf', rt') := hsq'
        rw [hsq0] at hsq
        have := Option.some.inj hsq
        simp only [Prod.mk.injEq] at this
        obtain ⟨e1, e2⟩ := this
        subst e1; subst e2
        have hms : m.src = kingStart g.player := by rw [hmv]; rfl
        exact ⟨Ne.symm n6, n5, by rw [hms]; exact n4, hrte⟩
    have hi1 : GInv (ofGame g1) := by rw [hr]; exact ginv_apply _ m h hl
    obtain ⟨g', hg', e, hc', hi'⟩ := ih g1 hc1 hi1 hr
    refine ⟨g', ?_, e, hc', hi'⟩
    show (makeMove c g m).bind _ = some g'
    rw [hg1]
    exact hg'

end Tcheran

namespace Tcheran
open Board Game Rules

/-- the decidable `Legal` predicate of the quantifier implies the invariant -/
theorem ginv_of_legal (pos : Pos) (hl : legalPos pos = true) : GInv pos := by
  unfold legalPos at hl
  simp only [Bool.and_eq_true] at hl
  obtain ⟨⟨⟨⟨⟨⟨⟨⟨hkings, _⟩, hsafe⟩, hrights⟩, hep⟩, _⟩, _⟩, _⟩, _⟩ := hl
  simp only [Bool.and_eq_true, beq_iff_eq] at hkings hrights
  refine ⟨?_, ?_, ?_, ?_, ?_⟩
  · intro pl
    cases pl
    · exact king_of_count _ _ hkings.1
    · exact king_of_count _ _ hkings.2
  · simpa using hsafe
  · intro t het
    rw [het] at hep
    simp only [Bool.and_eq_true] at hep
    obtain ⟨⟨⟨_, hemp⟩, hpawn⟩, _⟩ := hep
    refine ⟨?_, ?_⟩
    · cases ha : at' pos.board t with
      | none => rfl
      | some x => rw [ha] at hemp; simp at hemp
    · obtain ⟨v, hv, hvp⟩ := (isPiece_iff _ _ _ _).1 hpawn
      exact ⟨v, hv, hvp⟩
  · intro pl hr
    have : (!(Game.Rights.has pos.rights pl .king) ||
        (at' pos.board (Game.kingStart pl) == some ⟨.king, pl⟩ &&
         at' pos.board (Game.kingsideRookStart pl) == some ⟨.rook, pl⟩)) = true := by
      cases pl
      · exact hrights.1.1.1
      · exact hrights.1.2
    unfold Game.Rights.has at this
    simp only [hr, Bool.not_true, Bool.false_or, Bool.and_eq_true, beq_iff_eq] at this
    exact this
  · intro pl hr
    have : (!(Game.Rights.has pos.rights pl .queen) ||
        (at' pos.board (Game.kingStart pl) == some ⟨.king, pl⟩ &&
         at' pos.board (Game.queensideRookStart pl) == some ⟨.rook, pl⟩)) = true := by
      cases pl
      · exact hrights.1.1.2
      · exact hrights.2
    unfold Game.Rights.has at this
    simp only [hr, Bool.not_true, Bool.false_or, Bool.and_eq_true, beq_iff_eq] at this
    exact this

/-- **game_generate_exact**: at every position of every game of legal moves from a legal start, both
generator stages answer and list exactly the rules' legal moves, none twice -/
theorem game_generate_exact (T : SliderTables) (c : Cfg) (g : Game) (ms : List Move) (pos' : Pos)
    (hc : Consistent g.board) (hl : legalPos (ofGame g) = true) (hp : LegalPath (ofGame g) ms pos') :
    ∃ g', makeMoves c g ms = some g' ∧ ofGame g' = pos' ∧
      ∃ caps cache quiets, generateCaptures g' = some (caps, cache) ∧ generateQuiets g' cache = some quiets ∧
        (caps ++ quiets).Nodup ∧ ∀ m, m ∈ caps ++ quiets ↔ m ∈ legalMoves pos' := by
  obtain ⟨g', hg', e, hc', hi'⟩ := game_refines c g ms pos' hc (ginv_of_legal _ hl) hp
  obtain ⟨k, hk⟩ := posH_of_ginv g' hc' hi'
  obtain ⟨caps, cache, quiets, h1, h2, h3⟩ := generate_exact T g' k hk
  refine ⟨g', hg', e, caps, cache, quiets, h1, h2, generate_nodup T g' k hk caps cache quiets h1 h2, ?_⟩
  rw [← e]; exact h3

end Tcheran

namespace Tcheran
open Board Game Rules

/-- **game_sync**: along every game of legal moves from a position whose key and accumulators are in step
with its board, they stay in step: the carried key is the key computed from scratch and the incremental
evaluation state is the recomputation, at every reached position (C03 / C15 along games) -/
theorem game_sync (c : Cfg) (g : Game) (ms : List Move) (pos' : Pos) (hs : Sync c g)
    (h : GInv (ofGame g)) (hp : LegalPath (ofGame g) ms pos') :
    ∃ g', makeMoves c g ms = some g' ∧ ofGame g' = pos' ∧ Sync c g' := by
  generalize hpos : ofGame g = pos at hp
  induction hp generalizing g with
  | nil _ => exact ⟨g, rfl, hpos, hs⟩
  | cons pos m ms pos' hl _ ih =>
    subst hpos
    obtain ⟨k, hk⟩ := posH_of_ginv g hs.cons h
    obtain ⟨g1, hg1, hr⟩ := make_move_legal_total c g k hk m hl
    have hs1 : Sync c g1 := sync_makeMove c g g1 m hs hg1 (castle_hyp_of_legal g m hl)
    have hi1 : GInv (ofGame g1) := by rw [hr]; exact ginv_apply _ m h hl
    obtain ⟨g', hg', e, hs'⟩ := ih g1 hs1 hi1 hr
    refine ⟨g', ?_, e, hs'⟩
    show (makeMove c g m).bind _ = some g'
    rw [hg1]
    exact hg'

end Tcheran
