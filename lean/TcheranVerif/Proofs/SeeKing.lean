import TcheranVerif.Proofs.Board
import TcheranVerif.Proofs.Bits
import TcheranVerif.Model.SeeSeq
/-!
# A king that captures legally cannot be retaken (C20, hypothesis `hking` of `see_swaplist`)

The generator admits a king capture `king → d` only when `attackersOf (board without the king) player d` is empty
(`Gen.kingCaptures`).  `king_capture_safe` turns that into the statement the exchange evaluator needs: with the
occupancy `see` uses after the capture, no man of the opponent is among the attackers of `d`.
-/

namespace Tcheran
open Board

theorem mem_byKind_removeAt (b : Board) (hc : Consistent b) (s q : Sq) (hq : q ≠ s) (k : PieceKind) :
    mem ((b.removeAt s).byKind k) q = mem (b.byKind k) q := by
  rw [(consistent_removeAt b s hc).1 k q, hc.1 k q, pieceAt_removeAt, if_neg hq]

theorem mem_occFor_removeAt (b : Board) (hc : Consistent b) (s q : Sq) (hq : q ≠ s) (p : Player) :
    mem ((b.removeAt s).occFor p) q = mem (b.occFor p) q := by
  rw [(consistent_removeAt b s hc).2 p q, hc.2 p q, pieceAt_removeAt, if_neg hq]

theorem mem_occupancy' (b : Board) (hc : Consistent b) (t : Sq) : mem b.occupancy t = (b.pieceAt t).isSome := by
  unfold occupancy
  rw [mem_or]
  have hw := hc.2 .white t
  have hb := hc.2 .black t
  simp only [occFor] at hw hb
  rw [hw, hb]
  cases h : b.pieceAt t with
  | none => simp
  | some pc => cases pc with | mk k pl => cases pl <;> simp

/-- the occupancy `see` uses after a king has captured on an occupied square is the occupancy of the board with
the king lifted -/
theorem occ_after_king (b : Board) (hc : Consistent b) (king d : Sq) (pk pd : Piece)
    (hk : b.pieceAt king = some pk) (hd : b.pieceAt d = some pd) (hne : d ≠ king) :
    (b.occupancy ^^^ bb king) ||| bb d = (b.removeAt king).occupancy := by
  apply ext_mem
  intro t
  rw [mem_or, mem_xor, mem_bb, mem_bb, mem_occupancy' b hc, mem_occupancy' _ (consistent_removeAt b king hc),
    pieceAt_removeAt]
  by_cases h1 : t = king
  · subst h1
    have : ¬ t = d := fun e => hne e.symm
    simp [hk, this]
  · by_cases h2 : t = d
    · subst h2; simp [hd, h1]
    · simp [h1, h2]

/-- **king_capture_safe** -/
theorem king_capture_safe (b : Board) (hc : Consistent b) (p : Player) (king d : Sq) (pd : Piece)
    (hk : b.pieceAt king = some ⟨.king, p⟩) (hd : b.pieceAt d = some pd) (hpd : pd.player = p.other)
    (hsafe : attackersOf (b.removeAt king) p d = 0#64) :
    (allAttackersOf b d ((b.occupancy ^^^ bb king) ||| bb d) &&& ((b.occupancy ^^^ bb king) ||| bb d)) &&&
      b.occFor p.other = 0#64 := by
  have hne : d ≠ king := by
    intro e
    rw [e, hk] at hd
    have := Option.some.inj hd
    rw [← this] at hpd
    cases p <;> cases hpd
  rw [occ_after_king b hc king d _ pd hk hd hne]
  apply ext_mem
  intro q
  rw [mem_zero]
  cases hq : mem ((allAttackersOf b d (b.removeAt king).occupancy &&& (b.removeAt king).occupancy) &&&
      b.occFor p.other) q with
  | false => rfl
  | true =>
    exfalso
    rw [mem_and, mem_and, Bool.and_eq_true, Bool.and_eq_true] at hq
    obtain ⟨⟨hatt, _⟩, hopp⟩ := hq
    -- `q` holds a man of the opponent, so it is not the king's square
    have hqk : q ≠ king := by
      intro e
      rw [e, hc.2 p.other king, hk] at hopp
      cases p <;> simp [Player.other] at hopp
    have hK : ∀ k, mem ((b.removeAt king).byKind k) q = mem (b.byKind k) q :=
      mem_byKind_removeAt b hc king q hqk
    have hO : ∀ pl, mem ((b.removeAt king).occFor pl) q = mem (b.occFor pl) q :=
      mem_occFor_removeAt b hc king q hqk
    have hnot : mem (b.occFor p) q = false := by
      rw [hc.2 p q]
      rw [hc.2 p.other q] at hopp
      cases h : b.pieceAt q with
      | none => simp
      | some pc =>
        rw [h] at hopp
        cases p <;> cases pc with | mk k pl => cases pl <;> simp [Player.other] at hopp ⊢
    -- hence it is among the attackers the generator looked at
    have hin : mem (attackersOf (b.removeAt king) p d) q = true := by
      unfold attackersOf
      unfold allAttackersOf at hatt
      simp only [mem_or, mem_and, Bool.or_eq_true, Bool.and_eq_true, pawnsOf, knightsOf, kingOf, diagSliders,
        orthSliders, bishopsOf, rooksOf, queensOf, allDiagSliders, allOrthSliders] at hatt ⊢
      have hKp := hK .pawn; have hKn := hK .knight; have hKb := hK .bishop
      have hKr := hK .rook; have hKq := hK .queen; have hKk := hK .king
      simp only [byKind] at hKp hKn hKb hKr hKq hKk
      rw [hKp, hKn, hKb, hKr, hKq, hKk, hO]
      rcases hatt with ((((⟨h1, h2, h3⟩ | ⟨h1, h2, h3⟩) | ⟨h1, h2⟩) | ⟨h1, h2⟩) | ⟨h1, h2⟩) | ⟨h1, h2⟩
      · -- a black pawn attacking as seen from a white man on `d`
        cases p with
        | white => exact Or.inl (Or.inl (Or.inl (Or.inl ⟨h1, h2, hopp⟩)))
        | black =>
          simp only [occFor] at h3 hnot
          rw [h3] at hnot; cases hnot
      · cases p with
        | black => exact Or.inl (Or.inl (Or.inl (Or.inl ⟨h1, h2, hopp⟩)))
        | white =>
          simp only [occFor] at h3 hnot
          rw [h3] at hnot; cases hnot
      · exact Or.inl (Or.inl (Or.inl (Or.inr ⟨h1, h2, hopp⟩)))
      · refine Or.inl (Or.inl (Or.inr ⟨h1, ?_⟩))
        rcases h2 with h2 | h2
        · exact Or.inl ⟨h2, hopp⟩
        · exact Or.inr ⟨h2, hopp⟩
      · refine Or.inl (Or.inr ⟨h1, ?_⟩)
        rcases h2 with h2 | h2
        · exact Or.inl ⟨h2, hopp⟩
        · exact Or.inr ⟨h2, hopp⟩
      · exact Or.inr ⟨h1, h2, hopp⟩
    rw [hsafe, mem_zero] at hin
    cases hin

end Tcheran
