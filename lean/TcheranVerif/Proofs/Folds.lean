import TcheranVerif.Proofs.Bits
/-!
# XOR- and sum-folds over the 64 squares with point updates (used by C03 and C15)
-/

namespace Tcheran

/-- XOR of `f s` over a list of squares -/
def xsum (l : List Sq) (f : Sq → BB) : BB := l.foldl (fun h s => h ^^^ f s) 0#64

theorem foldl_xor_init (l : List Sq) (f : Sq → BB) (h0 : BB) :
    l.foldl (fun h s => h ^^^ f s) h0 = h0 ^^^ xsum l f := by
  unfold xsum
  induction l generalizing h0 with
  | nil => simp
  | cons x xs ih =>
    simp only [List.foldl_cons]
    rw [ih (h0 ^^^ f x), ih (0#64 ^^^ f x)]
    simp [BitVec.xor_assoc]

theorem xsum_nil (f : Sq → BB) : xsum [] f = 0#64 := rfl

theorem xsum_cons (x : Sq) (xs : List Sq) (f : Sq → BB) : xsum (x :: xs) f = f x ^^^ xsum xs f := by
  unfold xsum
  simp only [List.foldl_cons]
  rw [foldl_xor_init]
  simp [xsum]

theorem xsum_congr (l : List Sq) (f g : Sq → BB) (h : ∀ s ∈ l, f s = g s) : xsum l f = xsum l g := by
  induction l with
  | nil => rfl
  | cons x xs ih =>
    rw [xsum_cons, xsum_cons, h x (by simp), ih (fun s hs => h s (by simp [hs]))]

theorem xsum_xor (l : List Sq) (f g : Sq → BB) :
    xsum l (fun s => f s ^^^ g s) = xsum l f ^^^ xsum l g := by
  induction l with
  | nil => simp [xsum_nil]
  | cons x xs ih =>
    rw [xsum_cons, xsum_cons, xsum_cons, ih]
    ac_rfl

theorem xsum_zero (l : List Sq) : xsum l (fun _ => 0#64) = 0#64 := by
  induction l with
  | nil => rfl
  | cons x xs ih => rw [xsum_cons, ih]; simp

/-- folding over the squares of a bitboard = folding over all squares with a membership test -/
theorem foldl_toList (B : BB) (f : Sq → BB) (h0 : BB) :
    (BB.toList B).foldl (fun h s => h ^^^ f s) h0
      = h0 ^^^ xsum (List.finRange 64) (fun s => if mem B s then f s else 0#64) := by
  unfold BB.toList
  rw [foldl_xor_init]
  congr 1
  generalize List.finRange 64 = l
  induction l with
  | nil => rfl
  | cons x xs ih =>
    rw [List.filter_cons, xsum_cons]
    cases hm : mem B x with
    | true => simp only [if_true]; rw [xsum_cons, ih]
    | false => simp only [Bool.false_eq_true, if_false]; rw [ih]; simp

/-- point update: if `g` differs from `f` only at `s0`, the XOR-sum changes by `f s0 ^^^ g s0` -/
theorem xsum_update (l : List Sq) (hn : l.Nodup) (f g : Sq → BB) (s0 : Sq) (hin : s0 ∈ l)
    (hd : ∀ s, s ≠ s0 → g s = f s) : xsum l g = xsum l f ^^^ f s0 ^^^ g s0 := by
  induction l with
  | nil => cases hin
  | cons x xs ih =>
    rw [xsum_cons, xsum_cons]
    have hn' := List.nodup_cons.1 hn
    by_cases hx : x = s0
    · subst hx
      have : xsum xs g = xsum xs f := xsum_congr xs g f (fun s hs => hd s (fun e => hn'.1 (e ▸ hs)))
      rw [this]
      have e : f x ^^^ xsum xs f ^^^ f x ^^^ g x = (f x ^^^ f x) ^^^ (g x ^^^ xsum xs f) := by ac_rfl
      rw [e, BitVec.xor_self]
      simp
    · have hin' : s0 ∈ xs := by
        cases List.mem_cons.1 hin with
        | inl e => exact absurd e.symm hx
        | inr h => exact h
      rw [ih hn'.2 hin', hd x hx]
      ac_rfl

/-! ### integer sums -/

def isum (l : List Sq) (f : Sq → Int) : Int := l.foldl (fun a s => a + f s) 0

theorem foldl_add_init (l : List Sq) (f : Sq → Int) (a0 : Int) :
    l.foldl (fun a s => a + f s) a0 = a0 + isum l f := by
  unfold isum
  induction l generalizing a0 with
  | nil => simp
  | cons x xs ih =>
    simp only [List.foldl_cons]
    rw [ih (a0 + f x), ih (0 + f x)]
    omega

theorem isum_cons (x : Sq) (xs : List Sq) (f : Sq → Int) : isum (x :: xs) f = f x + isum xs f := by
  unfold isum
  simp only [List.foldl_cons]
  rw [foldl_add_init]
  simp [isum]

theorem isum_congr (l : List Sq) (f g : Sq → Int) (h : ∀ s ∈ l, f s = g s) : isum l f = isum l g := by
  induction l with
  | nil => rfl
  | cons x xs ih =>
    rw [isum_cons, isum_cons, h x (by simp), ih (fun s hs => h s (by simp [hs]))]

theorem isum_update (l : List Sq) (hn : l.Nodup) (f g : Sq → Int) (s0 : Sq) (hin : s0 ∈ l)
    (hd : ∀ s, s ≠ s0 → g s = f s) : isum l g = isum l f - f s0 + g s0 := by
  induction l with
  | nil => cases hin
  | cons x xs ih =>
    rw [isum_cons, isum_cons]
    have hn' := List.nodup_cons.1 hn
    by_cases hx : x = s0
    · subst hx
      have : isum xs g = isum xs f := isum_congr xs g f (fun s hs => hd s (fun e => hn'.1 (e ▸ hs)))
      rw [this]; omega
    · have hin' : s0 ∈ xs := by
        cases List.mem_cons.1 hin with
        | inl e => exact absurd e.symm hx
        | inr h => exact h
      rw [ih hn'.2 hin', hd x hx]; omega

end Tcheran
