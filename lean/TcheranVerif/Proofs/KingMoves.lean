import TcheranVerif.Proofs.Rays
/-!
# King steps: the generated king moves are exactly the legal king steps (C01, king class)
-/

namespace Tcheran
open Board Geometry Rules

theorem at_setSq (b : RBoard) (s t : Sq) (v : Option Piece) :
    at' (setSq b s v) t = if t = s then v else at' b t := by
  unfold at' setSq
  rw [Vector.getElem_set]
  by_cases h : t = s
  · subst h; simp
  · have : ¬ s.val = t.val := fun e => h (Fin.ext e.symm)
    simp [h, this]

/-- placement after a plain move (flag `quiet` or `capture`) -/
theorem applyBoard_simple (b : RBoard) (p : Player) (m : Move) (X : Piece)
    (hf : m.flag = .quiet ∨ m.flag = .capture) (hsrc : at' b m.src = some X) (s : Sq) :
    at' (applyBoard b p m) s = if s = m.dst then some X else if s = m.src then none else at' b s := by
  unfold applyBoard
  rw [hsrc]
  have hp : m.promotion = none := by
    unfold Move.promotion; rcases hf with h | h <;> rw [h]
  have he : m.isEnPassant = false := by
    unfold Move.isEnPassant; rcases hf with h | h <;> rw [h] <;> rfl
  have hcs : m.isCastling = false := by
    unfold Move.isCastling; rcases hf with h | h <;> rw [h] <;> rfl
  simp only [hp, he, hcs, Bool.false_eq_true, if_false]
  rw [at_setSq, at_setSq]

theorem kingSq_unique (b : RBoard) (p : Player) (k : Sq)
    (hk : ∀ s, at' b s = some ⟨.king, p⟩ ↔ s = k) : kingSq b p = some k := by
  unfold kingSq
  cases h : (List.finRange 64).find? (fun s => at' b s == some ⟨.king, p⟩) with
  | none =>
    rw [List.find?_eq_none] at h
    have := h k (List.mem_finRange k)
    rw [(hk k).2 rfl] at this
    simp at this
  | some x =>
    have := List.find?_some h
    simp only [beq_iff_eq] at this
    rw [(hk x).1 this]

theorem mem_stepMoves (b : RBoard) (p : Player) (src : Sq) (deltas : List (Int × Int)) (m : Move) :
    m ∈ stepMoves b p src deltas ↔ ∃ d ∈ deltas, ∃ t, offset src d.1 d.2 = some t ∧
      ((at' b t = none ∧ m = Move.quiet src t) ∨
       (∃ pc, at' b t = some pc ∧ pc.player ≠ p ∧ m = Move.capture src t)) := by
  unfold stepMoves
  rw [List.mem_filterMap]
  constructor
  · rintro ⟨d, hd, h⟩
    refine ⟨d, hd, ?_⟩
    cases ho : offset src d.1 d.2 with
    | none => rw [ho] at h; cases h
    | some t =>
      rw [ho] at h
      simp only at h
      refine ⟨t, rfl, ?_⟩
      cases ha : at' b t with
      | none => rw [ha] at h; simp only [Option.some.injEq] at h; exact Or.inl ⟨rfl, h.symm⟩
      | some pc =>
        rw [ha] at h
        simp only at h
        split at h
        · simp only [Option.some.injEq] at h; exact Or.inr ⟨pc, rfl, by assumption, h.symm⟩
        · cases h
  · rintro ⟨d, hd, t, ho, h⟩
    refine ⟨d, hd, ?_⟩
    rw [ho]
    simp only
    rcases h with ⟨ha, e⟩ | ⟨pc, ha, hp, e⟩
    · rw [ha, e]
    · rw [ha]; simp only; rw [if_pos hp, e]

theorem beq_zero_iff (a : BB) : (a == 0#64) = true ↔ a = 0#64 := by simp

/-- legality of a king step in the engine's terms: the destination is not attacked once the king is
lifted off the board -/
theorem king_step_legal (T : SliderTables) (bd : Board) (hc : Consistent bd) (p : Player) (k t : Sq)
    (hk : ∀ s, bd.pieceAt s = some ⟨.king, p⟩ ↔ s = k) (hne : t ≠ k) (m : Move)
    (hm : m = Move.quiet k t ∨ m = Move.capture k t) :
    inCheck (applyBoard bd.squares p m) p = false ↔ attackersOf (bd.removeAt k) p t = 0#64 := by
  have hsrc : at' bd.squares m.src = some ⟨.king, p⟩ := by
    have : m.src = k := by rcases hm with h | h <;> rw [h] <;> rfl
    rw [this]; exact (hk k).2 rfl
  have hdst : m.dst = t := by rcases hm with h | h <;> rw [h] <;> rfl
  have hsrc' : m.src = k := by rcases hm with h | h <;> rw [h] <;> rfl
  have hf : m.flag = .quiet ∨ m.flag = .capture := by
    rcases hm with h | h <;> rw [h]
    · exact Or.inl rfl
    · exact Or.inr rfl
  have hat := applyBoard_simple bd.squares p m ⟨.king, p⟩ hf hsrc
  -- the king now stands on t, and only there
  have hk2 : ∀ s, at' (applyBoard bd.squares p m) s = some ⟨.king, p⟩ ↔ s = t := by
    intro s
    rw [hat s, hdst, hsrc']
    by_cases h1 : s = t
    · simp [h1]
    · rw [if_neg h1]
      by_cases h2 : s = k
      · rw [if_pos h2]; simp [h1]
      · rw [if_neg h2]
        constructor
        · intro h; exact absurd ((hk s).1 h) h2
        · intro h; exact absurd h h1
  unfold inCheck
  rw [kingSq_unique _ p t hk2]
  simp only
  -- off t the new board is the board with the king lifted
  have hoff : ∀ s, s ≠ t → at' (applyBoard bd.squares p m) s = at' (bd.removeAt k).squares s := by
    intro s hs
    rw [hat s, hdst, hsrc', if_neg hs]
    show _ = (bd.removeAt k).pieceAt s
    rw [pieceAt_removeAt]
    rfl
  rw [attacked_off_target _ _ p.other t hoff]
  have := attackersOf_ne_zero T (bd.removeAt k) (consistent_removeAt bd k hc) p t
  constructor
  · intro h
    apply Decidable.byContradiction
    intro hn
    rw [this.1 hn] at h; cases h
  · intro h
    cases ha : attacked (bd.removeAt k).squares p.other t with
    | false => rfl
    | true => exact absurd h (this.2 ha)

theorem offset_king_ne (k t : Sq) (d : Int × Int) (hd : d ∈ kingDeltas) (h : offset k d.1 d.2 = some t) : t ≠ k :=
  fun e => king_offset_ne k d hd (e ▸ h)

/-- **king_moves_exact**: the engine's king captures and king quiets are exactly the rules' king
steps that do not leave the king attacked, with the rules' capture / quiet label -/
theorem king_moves_exact (T : SliderTables) (g : Game) (hc : Consistent g.board) (k : Sq)
    (hk : ∀ s, g.board.pieceAt s = some ⟨.king, g.player⟩ ↔ s = k) (m : Move) :
    (m ∈ Gen.kingCaptures g k (g.board.occFor g.player.other) ++ Gen.kingQuiets g k g.board.occupancy) ↔
    (m ∈ stepMoves g.board.squares g.player k kingDeltas ∧
      inCheck (applyBoard g.board.squares g.player m) g.player = false) := by
  rw [List.mem_append, mem_stepMoves]
  unfold Gen.kingCaptures Gen.kingQuiets
  simp only [List.mem_flatMap, mem_toList, mem_and, mem_not, Bool.and_eq_true, mem_kingAttacks]
  have hat : ∀ s, at' g.board.squares s = g.board.pieceAt s := fun _ => rfl
  have hocc : ∀ t, mem g.board.occupancy t = (g.board.pieceAt t).isSome := fun t => mem_occupancy g.board hc t
  have htheirs : ∀ t, mem (g.board.occFor g.player.other) t = true ↔
      ∃ pc, g.board.pieceAt t = some pc ∧ pc.player ≠ g.player := by
    intro t
    rw [hc.2 g.player.other t]
    cases h : g.board.pieceAt t with
    | none => simp
    | some pc =>
      obtain ⟨kk, pl⟩ := pc
      cases pl <;> cases hp : g.player <;> simp [Player.other]
  constructor
  · rintro (⟨t, ⟨⟨d, hd, ho⟩, hth⟩, hm⟩ | ⟨t, ⟨⟨d, hd, ho⟩, hemp⟩, hm⟩)
    · split at hm
      · rename_i hz
        simp only [List.mem_singleton] at hm
        obtain ⟨pc, hpc, hpl⟩ := (htheirs t).1 hth
        refine ⟨⟨d, hd, t, ho, Or.inr ⟨pc, (hat t).trans hpc, hpl, hm⟩⟩, ?_⟩
        exact (king_step_legal T g.board hc g.player k t hk (offset_king_ne k t d hd ho) m (Or.inr hm)).2
          ((beq_zero_iff _).1 hz)
      · cases hm
    · split at hm
      · rename_i hz
        simp only [List.mem_singleton] at hm
        have he : g.board.pieceAt t = none := by
          rw [hocc t] at hemp
          cases h : g.board.pieceAt t with
          | none => rfl
          | some pc => rw [h] at hemp; simp at hemp
        refine ⟨⟨d, hd, t, ho, Or.inl ⟨(hat t).trans he, hm⟩⟩, ?_⟩
        exact (king_step_legal T g.board hc g.player k t hk (offset_king_ne k t d hd ho) m (Or.inl hm)).2
          ((beq_zero_iff _).1 hz)
      · cases hm
  · rintro ⟨⟨d, hd, t, ho, h⟩, hl⟩
    have hne := offset_king_ne k t d hd ho
    rcases h with ⟨he, hm⟩ | ⟨pc, hpc, hpl, hm⟩
    · right
      refine ⟨t, ⟨⟨d, hd, ho⟩, ?_⟩, ?_⟩
      · rw [hocc t, ← hat t, he]; rfl
      · have := (king_step_legal T g.board hc g.player k t hk hne m (Or.inl hm)).1 hl
        rw [if_pos ((beq_zero_iff _).2 this)]
        exact List.mem_singleton.2 hm
    · left
      refine ⟨t, ⟨⟨d, hd, ho⟩, (htheirs t).2 ⟨pc, (hat t).symm.trans hpc, hpl⟩⟩, ?_⟩
      have := (king_step_legal T g.board hc g.player k t hk hne m (Or.inr hm)).1 hl
      rw [if_pos ((beq_zero_iff _).2 this)]
      exact List.mem_singleton.2 hm

end Tcheran
