import TcheranVerif.Proofs.Attacks
import TcheranVerif.Model.Magic
/-!
# Magic lookup = ray walk (the finite part of C07 and its lifting to every occupancy)
-/

namespace Tcheran
open Geometry

/-! ### per-square tables -/

theorem getD_ofFn {α} (n : Nat) (f : Fin n → α) (i : Fin n) (d : α) :
    (Array.ofFn f).getD i.val d = f i := by
  simp [Array.getD, i.isLt]

theorem kingAttacks_eq (s : Sq) : kingAttacks s = genKingAttacks s := by
  unfold kingAttacks kingTable; rw [getD_ofFn]
theorem knightAttacks_eq (s : Sq) : knightAttacks s = genKnightAttacks s := by
  unfold knightAttacks knightTable; rw [getD_ofFn]
theorem pawnAttacks_eq (s : Sq) (p : Player) : pawnAttacks s p = genPawnAttacks s p := by
  cases p
  · unfold pawnAttacks pawnTableW; simp only; rw [getD_ofFn]
  · unfold pawnAttacks pawnTableB; simp only; rw [getD_ofFn]

theorem between_eq (a b : Sq) : between a b = genBetween a b := by
  unfold between betweenTable
  have h : a.val * 64 + b.val < 4096 := by omega
  have e : a.val * 64 + b.val = (⟨a.val * 64 + b.val, h⟩ : Fin 4096).val := rfl
  rw [e, getD_ofFn]
  have h1 : (a.val * 64 + b.val) / 64 = a.val := by omega
  have h2 : (a.val * 64 + b.val) % 64 = b.val := by omega
  congr 1 <;> apply Fin.ext <;> simp only [h1, h2]

/-! ### geometry of the generated leaper sets (64 / 64 / 128 / 4,096 closed cases) -/

theorem genKnight_geometric : ∀ s : Sq, genKnightAttacks s = knightSpec s := by decide +kernel
theorem genKing_geometric : ∀ s : Sq, genKingAttacks s = kingSpec s := by decide +kernel
theorem genPawn_geometric : ∀ s : Sq, ∀ p ∈ [Player.white, Player.black], genPawnAttacks s p = pawnSpec s p := by
  decide +kernel
theorem genBetween_geometric : ∀ a b : Sq, genBetween a b = betweenSpec a b := by decide +kernel

/-! ### relevance: index and ray walk depend on the occupancy only through the mask -/

theorem tableIndex_relevant (magic : BB) (offset shift : Nat) (mask occ : BB) :
    tableIndex magic offset shift mask occ = tableIndex magic offset shift mask (occ &&& mask) := by
  unfold tableIndex
  have : occ ||| ~~~mask = (occ &&& mask) ||| ~~~mask := by
    apply ext_mem; intro t
    simp only [mem_or, mem_and, mem_not]
    cases mem occ t <;> cases mem mask t <;> rfl
  rw [this]

/-- every ray square that has a further square behind it belongs to the relevant-blocker mask -/
theorem rookMask_covers : ∀ s : Sq, ∀ d ∈ Dir.cardinal, ∀ t ∈ (Rules.ray d s).dropLast, mem (rookMask s) t = true := by
  decide +kernel
theorem bishopMask_covers : ∀ s : Sq, ∀ d ∈ Dir.diagonal, ∀ t ∈ (Rules.ray d s).dropLast, mem (bishopMask s) t = true := by
  decide +kernel

theorem flatMap_congr' {α β} (l : List α) (f g : α → List β) (h : ∀ x ∈ l, f x = g x) :
    l.flatMap f = l.flatMap g := by
  induction l with
  | nil => rfl
  | cons x xs ih =>
    simp only [List.flatMap_cons]
    rw [h x (by simp), ih (fun y hy => h y (by simp [hy]))]

theorem slide_relevant (dirs : List Dir) (s : Sq) (occ mask : BB)
    (hcov : ∀ d ∈ dirs, ∀ t ∈ (Rules.ray d s).dropLast, mem mask t = true) :
    slide dirs s occ = slide dirs s (occ &&& mask) := by
  rw [slide_eq_spec, slide_eq_spec]
  unfold slideSpec
  congr 1
  apply flatMap_congr'
  intro d hd
  apply seen_congr
  intro t ht
  rw [mem_and, hcov d hd t ht]
  simp

theorem genRook_relevant (s : Sq) (occ : BB) : genRookAttacks s occ = genRookAttacks s (occ &&& rookMask s) :=
  slide_relevant _ s occ _ (rookMask_covers s)
theorem genBishop_relevant (s : Sq) (occ : BB) : genBishopAttacks s occ = genBishopAttacks s (occ &&& bishopMask s) :=
  slide_relevant _ s occ _ (bishopMask_covers s)

theorem rookIndex_relevant (s : Sq) (occ : BB) : rookIndex s occ = rookIndex s (occ &&& rookMask s) :=
  tableIndex_relevant _ _ _ _ _
theorem bishopIndex_relevant (s : Sq) (occ : BB) : bishopIndex s occ = bishopIndex s (occ &&& bishopMask s) :=
  tableIndex_relevant _ _ _ _ _

/-! ### every subset of a mask is enumerated: `occ &&& mask` is a deposit of `extract occ` -/

/-- bit `i` of `k` decides whether the `i`-th listed square is in the deposit -/
def deposit : List Sq → Nat → BB
  | [], _ => 0#64
  | p :: ps, k => (if k % 2 = 1 then bb p else 0#64) ||| deposit ps (k / 2)

def extract (occ : BB) : List Sq → Nat
  | [] => 0
  | p :: ps => (if mem occ p then 1 else 0) + 2 * extract occ ps

theorem extract_lt (occ : BB) (ps : List Sq) : extract occ ps < 2 ^ ps.length := by
  induction ps with
  | nil => simp [extract]
  | cons p ps ih =>
    simp only [extract, List.length_cons, Nat.pow_succ]
    split <;> omega

theorem deposit_extract (occ : BB) (ps : List Sq) : deposit ps (extract occ ps) = occ &&& setOf ps := by
  induction ps with
  | nil => simp [deposit, setOf_nil]
  | cons p ps ih =>
    rw [setOf_cons]
    cases hm : mem occ p with
    | true =>
      have e : extract occ (p :: ps) = 1 + 2 * extract occ ps := by simp [extract, hm]
      have hdiv : (1 + 2 * extract occ ps) / 2 = extract occ ps := by omega
      have hmod : (1 + 2 * extract occ ps) % 2 = 1 := by omega
      rw [e]
      simp only [deposit, hdiv, hmod, if_true, ih]
      apply ext_mem; intro t
      simp only [mem_or, mem_and, mem_bb]
      by_cases ht : t = p
      · subst ht; simp [hm]
      · simp [ht]
    | false =>
      have e : extract occ (p :: ps) = 0 + 2 * extract occ ps := by simp [extract, hm]
      have hdiv : (0 + 2 * extract occ ps) / 2 = extract occ ps := by omega
      have hmod : (0 + 2 * extract occ ps) % 2 = 0 := by omega
      rw [e]
      simp only [deposit, hdiv, hmod, ih]
      apply ext_mem; intro t
      simp only [mem_or, mem_and, mem_bb]
      by_cases ht : t = p
      · subst ht; simp [hm, mem_zero]
      · simp [ht, mem_zero]

theorem setOf_toList (m : BB) : setOf (BB.toList m) = m := by
  apply ext_mem; intro t
  cases h : mem m t with
  | true => exact (mem_setOf _ _).2 ((mem_toList m t).2 h)
  | false =>
    cases h2 : mem (setOf (BB.toList m)) t with
    | false => rfl
    | true =>
      have := (mem_toList m t).1 ((mem_setOf _ _).1 h2)
      rw [h] at this; cases this

/-- the deposits in the rippler's order: 1, 2, …, 2^n − 1, 0 -/
def depositList (m : BB) : List BB :=
  let ps := BB.toList m
  (List.range (2 ^ ps.length)).map fun k => deposit ps ((k + 1) % 2 ^ ps.length)

theorem mem_depositList (m occ : BB) : (occ &&& m) ∈ depositList m := by
  unfold depositList
  simp only [List.mem_map, List.mem_range]
  have he : extract occ (BB.toList m) < 2 ^ (BB.toList m).length := extract_lt occ _
  have hp : 0 < 2 ^ (BB.toList m).length := Nat.two_pow_pos _
  have hval : deposit (BB.toList m) (extract occ (BB.toList m)) = occ &&& m := by
    rw [deposit_extract, setOf_toList]
  by_cases h0 : extract occ (BB.toList m) = 0
  · refine ⟨2 ^ (BB.toList m).length - 1, by omega, ?_⟩
    have : 2 ^ (BB.toList m).length - 1 + 1 = 2 ^ (BB.toList m).length := by omega
    rw [this, Nat.mod_self, ← h0, hval]
  · refine ⟨extract occ (BB.toList m) - 1, by omega, ?_⟩
    have : extract occ (BB.toList m) - 1 + 1 = extract occ (BB.toList m) := by omega
    rw [this, Nat.mod_eq_of_lt he, hval]

end Tcheran
