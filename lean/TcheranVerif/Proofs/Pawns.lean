import TcheranVerif.Proofs.Sliders
import TcheranVerif.Proofs.Geo.D
/-!
# Pawns: pushes, double pushes, captures and promotions (C01; en passant is in `EnPassant.lean`)
-/

namespace Tcheran
open Board Geometry Rules

/-! ### one-rank shifts -/

theorem mem_backward (p : Player) (X : BB) (s : Sq) :
    mem (BB.backward p X) s = true ↔ ∃ t, s.forward p = some t ∧ mem X t = true := by
  have hst := Geo.step_NS s
  cases p with
  | white =>
    show mem (X >>> 8) s = true ↔ ∃ t, s.step .N = some t ∧ mem X t = true
    rw [hst.1]
    unfold mem
    rw [BitVec.getLsbD_ushiftRight]
    by_cases h : s.val + 8 < 64
    · rw [dif_pos h]
      constructor
      · intro e; exact ⟨⟨s.val + 8, h⟩, rfl, by simpa [Nat.add_comm] using e⟩
      · rintro ⟨t, e, ht⟩
        have := Option.some.inj e
        subst this
        simpa [Nat.add_comm] using ht
    · rw [dif_neg h, BitVec.getLsbD_of_ge _ _ (by omega)]
      simp
  | black =>
    show mem (X <<< 8) s = true ↔ ∃ t, s.step .S = some t ∧ mem X t = true
    rw [hst.2]
    unfold mem
    rw [BitVec.getLsbD_shiftLeft]
    by_cases h : 8 ≤ s.val
    · rw [dif_pos h]
      have h1 : s.val < 64 := s.isLt
      have h2 : ¬ s.val < 8 := by omega
      simp only [h1, h2, decide_true, decide_false, Bool.not_false, Bool.true_and]
      constructor
      · intro e; exact ⟨⟨s.val - 8, by omega⟩, rfl, e⟩
      · rintro ⟨t, e, ht⟩
        have := Option.some.inj e
        subst this
        exact ht
    · rw [dif_neg h]
      have h2 : s.val < 8 := by omega
      simp [h2]

theorem mapM_some_of_forall {α β} (l : List α) (f : α → Option β) (g : α → β)
    (h : ∀ x ∈ l, f x = some (g x)) : l.mapM f = some (l.map g) := by
  induction l with
  | nil => rfl
  | cons x xs ih =>
    rw [List.mapM_cons, h x List.mem_cons_self, ih (fun y hy => h y (List.mem_cons_of_mem _ hy))]
    rfl

theorem pawnHome_eq (p : Player) : Game.pawnBackRank p = pawnHome p := by cases p <;> rfl

/-! ### the rules' pawn moves, unfolded -/

theorem mem_pawnMoves (pos : Pos) (s : Sq) (m : Move) :
    m ∈ pawnMoves pos s ↔
      ((∃ t1, offset s 0 (fwd pos.player) = some t1 ∧ at' pos.board t1 = none ∧
          ((t1.rank = promoRank pos.player ∧ ∃ pr ∈ allPromos, m = Move.quietPromotion s t1 pr) ∨
           (t1.rank ≠ promoRank pos.player ∧ m = Move.quiet s t1) ∨
           (s.rank = startRank pos.player ∧ ∃ t2, offset s 0 (2 * fwd pos.player) = some t2 ∧
              at' pos.board t2 = none ∧ m = Move.quiet s t2))) ∨
       (∃ df ∈ ([-1, 1] : List Int), ∃ t, offset s df (fwd pos.player) = some t ∧
          ((∃ pc, at' pos.board t = some pc ∧ pc.player ≠ pos.player ∧
              ((t.rank = promoRank pos.player ∧ ∃ pr ∈ allPromos, m = Move.capturePromotion s t pr) ∨
               (t.rank ≠ promoRank pos.player ∧ m = Move.capture s t))) ∨
           (at' pos.board t = none ∧ pos.ep = some t ∧ m = Move.enPassant s t)))) := by
  unfold pawnMoves
  simp only [List.mem_append]
  constructor
  · rintro (h | h)
    · left
      cases ho : offset s 0 (fwd pos.player) with
      | none => rw [ho] at h; cases h
      | some t1 =>
        rw [ho] at h
        simp only at h
        split at h
        · cases h
        · rename_i hne
          have he : at' pos.board t1 = none := by
            cases hh : at' pos.board t1 with
            | none => rfl
            | some x => rw [hh] at hne; simp at hne
          refine ⟨t1, rfl, he, ?_⟩
          rcases List.mem_append.1 h with h1 | h2
          · split at h1
            · rename_i hr
              obtain ⟨pr, hpr, e⟩ := List.mem_map.1 h1
              exact Or.inl ⟨hr, pr, hpr, e.symm⟩
            · rename_i hr
              exact Or.inr (Or.inl ⟨hr, List.mem_singleton.1 h1⟩)
          · split at h2
            · rename_i hsr
              cases ho2 : offset s 0 (2 * fwd pos.player) with
              | none => rw [ho2] at h2; cases h2
              | some t2 =>
                rw [ho2] at h2
                simp only at h2
                split at h2
                · rename_i hn2
                  have he2 : at' pos.board t2 = none := by
                    cases hh : at' pos.board t2 with
                    | none => rfl
                    | some x => rw [hh] at hn2; simp at hn2
                  exact Or.inr (Or.inr ⟨hsr, t2, rfl, he2, List.mem_singleton.1 h2⟩)
                · cases h2
            · cases h2
    · right
      obtain ⟨df, hdf, h⟩ := List.mem_flatMap.1 h
      refine ⟨df, hdf, ?_⟩
      cases ho : offset s df (fwd pos.player) with
      | none => rw [ho] at h; cases h
      | some t =>
        rw [ho] at h
        simp only at h
        refine ⟨t, rfl, ?_⟩
        cases ha : at' pos.board t with
        | none =>
          rw [ha] at h
          simp only at h
          split at h
          · rename_i hep
            exact Or.inr ⟨rfl, hep, List.mem_singleton.1 h⟩
          · cases h
        | some pc =>
          rw [ha] at h
          simp only at h
          split at h
          · rename_i hp
            left
            refine ⟨pc, rfl, hp, ?_⟩
            split at h
            · rename_i hr
              obtain ⟨pr, hpr, e⟩ := List.mem_map.1 h
              exact Or.inl ⟨hr, pr, hpr, e.symm⟩
            · rename_i hr
              exact Or.inr ⟨hr, List.mem_singleton.1 h⟩
          · cases h
  · rintro (⟨t1, ho, he, h⟩ | ⟨df, hdf, t, ho, h⟩)
    · left
      rw [ho]
      simp only
      rw [he]
      simp only [Option.isSome_none, Bool.false_eq_true, if_false, List.mem_append]
      rcases h with ⟨hr, pr, hpr, e⟩ | ⟨hr, e⟩ | ⟨hsr, t2, ho2, he2, e⟩
      · left; rw [if_pos hr]; exact List.mem_map.2 ⟨pr, hpr, e.symm⟩
      · left; rw [if_neg hr]; exact List.mem_singleton.2 e
      · right
        rw [if_pos hsr, ho2]
        simp only
        rw [he2]
        simp only [Option.isNone_none, if_true]
        exact List.mem_singleton.2 e
    · right
      refine List.mem_flatMap.2 ⟨df, hdf, ?_⟩
      rw [ho]
      simp only
      rcases h with ⟨pc, ha, hp, h⟩ | ⟨ha, hep, e⟩
      · rw [ha]
        simp only
        rw [if_pos hp]
        rcases h with ⟨hr, pr, hpr, e⟩ | ⟨hr, e⟩
        · rw [if_pos hr]; exact List.mem_map.2 ⟨pr, hpr, e.symm⟩
        · rw [if_neg hr]; exact List.mem_singleton.2 e
      · rw [ha]
        simp only
        rw [if_pos hep]
        exact List.mem_singleton.2 e

/-! ### legality of the three kinds of pawn move -/

theorem contains_mem {l : List Sq} {x : Sq} (h : l.contains x = true) : x ∈ l := List.contains_iff_mem.1 h

/-- a single step forward onto an empty square (plain or promoting) -/
theorem pawn_push_legal (bd : Board) (p : Player) (k : Sq) (c : Ctx bd p k) (cm op dp : BB)
    (ms : MaskSpec bd p k cm op dp) (s t : Sq) (m : Move)
    (hs : at' bd.squares s = some ⟨.pawn, p⟩) (hf : s.forward p = some t) (he : at' bd.squares t = none)
    (hsrc : m.src = s) (hdst : m.dst = t) (hfl : m.flag ≠ .enPassant ∧ m.flag ≠ .castle) :
    inCheck (applyBoard bd.squares p m) p = false ↔
      (mem cm t = true ∧ mem dp s = false ∧ (mem op s = true → mem op t = true)) := by
  have hr := Geo.forward_ray s p (Geo.mem_players p)
  rw [hf] at hr
  simp only [Bool.and_eq_true, List.isEmpty_iff] at hr
  have htr : t ∈ ray (fdir p) s := contains_mem hr.1
  have hdir := Geo.fdir_cardinal p (Geo.mem_players p)
  have hst : s ≠ t := fun e => self_not_mem_ray (fdir p) (cardinal_sub _ hdir) s (e ▸ htr)
  rw [plain_move_legal bd.squares p k c.king m ⟨.pawn, p⟩ (hsrc ▸ hs) rfl (by simp) hfl
    (hdst ▸ c.dst_ne_king t (Or.inl he)) (by rw [hsrc, hdst]; exact hst), hsrc, hdst, ← ms.check t,
    pin_generic bd.squares p k s t c.king_occ ⟨_, hs, rfl⟩ Dir.cardinal Dir.diagonal .rook .bishop
      (Or.inl ⟨rfl, rfl, rfl, rfl⟩) op dp ms.orth ms.diag (fdir p) hdir htr
      (by rw [hr.2]; intro x hx; cases hx)]

/-- two steps forward over an empty square onto an empty square -/
theorem pawn_double_legal (bd : Board) (p : Player) (k : Sq) (c : Ctx bd p k) (cm op dp : BB)
    (ms : MaskSpec bd p k cm op dp) (s f1 t : Sq) (m : Move)
    (hs : at' bd.squares s = some ⟨.pawn, p⟩) (hf1 : s.forward p = some f1) (hf2 : f1.forward p = some t)
    (he1 : at' bd.squares f1 = none) (he : at' bd.squares t = none)
    (hsrc : m.src = s) (hdst : m.dst = t) (hfl : m.flag ≠ .enPassant ∧ m.flag ≠ .castle) :
    inCheck (applyBoard bd.squares p m) p = false ↔
      (mem cm t = true ∧ mem dp s = false ∧ (mem op s = true → mem op t = true)) := by
  have hr := Geo.double_ray s p (Geo.mem_players p)
  rw [hf1] at hr
  simp only at hr
  rw [hf2] at hr
  simp only [Bool.and_eq_true, beq_iff_eq] at hr
  have htr : t ∈ ray (fdir p) s := contains_mem hr.1
  have hdir := Geo.fdir_cardinal p (Geo.mem_players p)
  have hst : s ≠ t := fun e => self_not_mem_ray (fdir p) (cardinal_sub _ hdir) s (e ▸ htr)
  rw [plain_move_legal bd.squares p k c.king m ⟨.pawn, p⟩ (hsrc ▸ hs) rfl (by simp) hfl
    (hdst ▸ c.dst_ne_king t (Or.inl he)) (by rw [hsrc, hdst]; exact hst), hsrc, hdst, ← ms.check t,
    pin_generic bd.squares p k s t c.king_occ ⟨_, hs, rfl⟩ Dir.cardinal Dir.diagonal .rook .bishop
      (Or.inl ⟨rfl, rfl, rfl, rfl⟩) op dp ms.orth ms.diag (fdir p) hdir htr
      (by
        rw [hr.2]; intro x hx
        rw [List.mem_singleton.1 hx]
        unfold occOf; rw [he1]; rfl)]

/-- a capture (plain or promoting) -/
theorem pawn_capture_legal (bd : Board) (p : Player) (k : Sq) (c : Ctx bd p k) (cm op dp : BB)
    (ms : MaskSpec bd p k cm op dp) (s t : Sq) (m : Move) (df : Int) (hdf : df ∈ ([-1, 1] : List Int))
    (hs : at' bd.squares s = some ⟨.pawn, p⟩) (ho : offset s df (fwd p) = some t)
    (hte : ∃ pc, at' bd.squares t = some pc ∧ pc.player ≠ p)
    (hsrc : m.src = s) (hdst : m.dst = t) (hfl : m.flag ≠ .enPassant ∧ m.flag ≠ .castle) :
    inCheck (applyBoard bd.squares p m) p = false ↔
      (mem cm t = true ∧ mem op s = false ∧ (mem dp s = true → mem dp t = true)) := by
  have hr := Geo.capture_ray s p (Geo.mem_players p) df hdf
  rw [ho] at hr
  simp only [Bool.and_eq_true, List.isEmpty_iff, List.any_eq_true] at hr
  obtain ⟨⟨dir, hdir, hcon⟩, hbl⟩ := hr
  have htr : t ∈ ray dir s := contains_mem hcon
  have hst : s ≠ t := fun e => self_not_mem_ray dir (diagonal_sub _ hdir) s (e ▸ htr)
  rw [plain_move_legal bd.squares p k c.king m ⟨.pawn, p⟩ (hsrc ▸ hs) rfl (by simp) hfl
    (hdst ▸ c.dst_ne_king t (Or.inr hte)) (by rw [hsrc, hdst]; exact hst), hsrc, hdst, ← ms.check t,
    pin_generic bd.squares p k s t c.king_occ ⟨_, hs, rfl⟩ Dir.diagonal Dir.cardinal .bishop .rook
      (Or.inr ⟨rfl, rfl, rfl, rfl⟩) dp op ms.diag ms.orth dir hdir htr
      (by rw [hbl]; intro x hx; cases hx)]

/-- on a promoting push the file-pin exception cannot apply: an orthogonally pinned pawn never promotes
by a push -/
theorem promo_push_pin (bd : Board) (p : Player) (k : Sq) (c : Ctx bd p k) (cm op dp : BB)
    (ms : MaskSpec bd p k cm op dp) (s t : Sq)
    (hs : at' bd.squares s = some ⟨.pawn, p⟩) (hf : s.forward p = some t) (he : at' bd.squares t = none)
    (hrank : t.rank = promoRank p) (hdp : mem dp s = false) :
    (mem op s = true → mem op t = true) ↔ mem op s = false := by
  constructor
  · intro himp
    cases hm : mem op s with
    | false => rfl
    | true =>
      exfalso
      have hr := Geo.forward_ray s p (Geo.mem_players p)
      rw [hf] at hr
      simp only [Bool.and_eq_true, List.isEmpty_iff] at hr
      have htr : t ∈ ray (fdir p) s := contains_mem hr.1
      have hdir := Geo.fdir_cardinal p (Geo.mem_players p)
      have hpin := (pin_generic bd.squares p k s t c.king_occ ⟨_, hs, rfl⟩ Dir.cardinal Dir.diagonal .rook .bishop
        (Or.inl ⟨rfl, rfl, rfl, rfl⟩) op dp ms.orth ms.diag (fdir p) hdir htr
        (by rw [hr.2]; intro x hx; cases hx)).2 ⟨hdp, himp⟩
      obtain ⟨q, hq, hx, hsq⟩ := (ms.orth s).1 hm
      have hsown : ∃ X, at' bd.squares s = some X ∧ X.player = p := ⟨_, hs, rfl⟩
      have hsb : s ∈ betweenList k q := by
        rcases hsq with e | e
        · exact absurd e (own_ne_enemy hsown (sliderGeo_enemy hq))
        · exact e
      have hqocc := occ_of_piece (sliderGeo_enemy hq)
      obtain ⟨_, dir, hd, hqr⟩ := hq
      rcases hpin q (geo_of_orth _ _ q k ⟨by assumption, dir, hd, hqr⟩) hsb (through_of_xr hsown hsb hx) with e | e
      · rw [e] at hqocc
        unfold occOf at hqocc
        rw [he] at hqocc; cases hqocc
      · exact Geo.promo_pin k dir hd q hqr s hsb p t hf e hrank
  · intro h e; rw [h] at e; cases e

/-! ### the engine's pawn stages, stage by stage -/

theorem qp_src (s t : Sq) (pr : Promo) : (Move.quietPromotion s t pr).src = s := by cases pr <;> rfl
theorem qp_dst (s t : Sq) (pr : Promo) : (Move.quietPromotion s t pr).dst = t := by cases pr <;> rfl
theorem qp_flag (s t : Sq) (pr : Promo) :
    (Move.quietPromotion s t pr).flag ≠ .enPassant ∧ (Move.quietPromotion s t pr).flag ≠ .castle := by
  cases pr <;> exact ⟨by simp [Move.quietPromotion], by simp [Move.quietPromotion]⟩
theorem cp_src (s t : Sq) (pr : Promo) : (Move.capturePromotion s t pr).src = s := by cases pr <;> rfl
theorem cp_dst (s t : Sq) (pr : Promo) : (Move.capturePromotion s t pr).dst = t := by cases pr <;> rfl
theorem cp_flag (s t : Sq) (pr : Promo) :
    (Move.capturePromotion s t pr).flag ≠ .enPassant ∧ (Move.capturePromotion s t pr).flag ≠ .castle := by
  cases pr <;> exact ⟨by simp [Move.capturePromotion], by simp [Move.capturePromotion]⟩

theorem mem_pawnsOf (bd : Board) (hc : Consistent bd) (p : Player) (s : Sq) :
    mem (bd.pawnsOf p) s = true ↔ at' bd.squares s = some ⟨.pawn, p⟩ := mem_kindOf bd hc .pawn p s

theorem mem_available (bd : Board) (hc : Consistent bd) (cm : BB) (t : Sq) :
    mem (~~~bd.occupancy &&& cm) t = true ↔ (at' bd.squares t = none ∧ mem cm t = true) := by
  rw [mem_and, Bool.and_eq_true, mem_empty bd hc t]

theorem mem_canPushOnce (bd : Board) (hc : Consistent bd) (p : Player) (cm dp : BB) (s : Sq) :
    mem (Gen.pawnCanPushOnce p (bd.pawnsOf p) bd.occupancy cm dp) s = true ↔
      (at' bd.squares s = some ⟨.pawn, p⟩ ∧ mem dp s = false ∧
        ∃ t, s.forward p = some t ∧ at' bd.squares t = none ∧ mem cm t = true) := by
  unfold Gen.pawnCanPushOnce
  simp only
  rw [mem_and, mem_and, mem_not, Bool.and_eq_true, Bool.and_eq_true, mem_pawnsOf bd hc, mem_backward]
  simp only [mem_available bd hc, Bool.not_eq_true']
  constructor
  · rintro ⟨⟨a, b⟩, t, e, h⟩; exact ⟨a, b, t, e, h⟩
  · rintro ⟨a, b, t, e, h⟩; exact ⟨⟨a, b⟩, t, e, h⟩

theorem mem_flatten_map {α} (l : List α) (g : α → List Move) (m : Move) :
    m ∈ (l.map g).flatten ↔ ∃ x ∈ l, m ∈ g x := by
  rw [List.mem_flatten]
  constructor
  · rintro ⟨l1, h1, h2⟩
    obtain ⟨a, ha, e⟩ := List.mem_map.1 h1
    exact ⟨a, ha, e ▸ h2⟩
  · rintro ⟨x, hx, h⟩
    exact ⟨g x, List.mem_map.2 ⟨x, hx, rfl⟩, h⟩

/-- promotion pushes (queen in the capture stage, the others in the quiet stage) -/
theorem promoPushes_spec (bd : Board) (p : Player) (k : Sq) (c : Ctx bd p k) (cm op dp : BB)
    (ms : MaskSpec bd p k cm op dp) (which : List Promo) :
    ∃ L, Gen.pawnPromoPushes p which (bd.pawnsOf p) bd.occupancy cm op dp = some L ∧
      ∀ m, m ∈ L.flatten ↔ ∃ s t1, at' bd.squares s = some ⟨.pawn, p⟩ ∧ offset s 0 (fwd p) = some t1 ∧
        at' bd.squares t1 = none ∧ t1.rank = promoRank p ∧ (∃ pr ∈ which, m = Move.quietPromotion s t1 pr) ∧
        inCheck (applyBoard bd.squares p m) p = false := by
  have hc := c.cons
  let fw : Sq → Sq := fun s => (s.forward p).getD s
  let g : Sq → List Move := fun pawn =>
    if !(mem op pawn) then which.map (Move.quietPromotion pawn (fw pawn)) else []
  refine ⟨(BB.toList (Gen.pawnCanPushOnce p (bd.pawnsOf p) bd.occupancy cm dp &&&
    Game.pawnBackRank p.other)).map g, ?_, ?_⟩
  · unfold Gen.pawnPromoPushes
    simp only
    apply mapM_some_of_forall _ _ g
    intro x hx
    rw [mem_toList, mem_and, Bool.and_eq_true, mem_canPushOnce bd hc] at hx
    obtain ⟨⟨_, _, t, e, _⟩, _⟩ := hx
    show (do let t ← x.forward p; pure (if !(mem op x) then which.map (Move.quietPromotion x t) else [])) = _
    rw [e]
    show some _ = some (g x)
    simp only [g, fw, e, Option.getD_some]
  · intro m
    rw [mem_flatten_map]
    simp only [mem_toList, mem_and, Bool.and_eq_true, mem_canPushOnce bd hc, pawnHome_eq]
    constructor
    · rintro ⟨s, ⟨⟨hs, hdp, t, hf, he, hcm⟩, hwp⟩, hm⟩
      simp only [g, fw, hf, Option.getD_some] at hm
      split at hm
      · rename_i hop
        have hop' : mem op s = false := by simpa using hop
        obtain ⟨pr, hpr, e⟩ := List.mem_map.1 hm
        have hrk := Geo.promo_rank_push s p (Geo.mem_players p)
        rw [hf] at hrk
        simp only [beq_iff_eq] at hrk
        have hrank : t.rank = promoRank p := by rw [hwp] at hrk; simpa using hrk.symm
        refine ⟨s, t, hs, by rw [(Geo.offset_forward s p (Geo.mem_players p)).1]; exact hf, he, hrank,
          ⟨pr, hpr, e.symm⟩, ?_⟩
        rw [← e]
        exact (pawn_push_legal bd p k c cm op dp ms s t _ hs hf he (qp_src _ _ _) (qp_dst _ _ _) (qp_flag _ _ _)).2
          ⟨hcm, hdp, fun h => by rw [hop'] at h; cases h⟩
      · cases hm
    · rintro ⟨s, t, hs, ho, he, hrank, ⟨pr, hpr, e⟩, hl⟩
      have hf : s.forward p = some t := by rw [← (Geo.offset_forward s p (Geo.mem_players p)).1]; exact ho
      rw [e] at hl
      obtain ⟨hcm, hdp, himp⟩ := (pawn_push_legal bd p k c cm op dp ms s t _ hs hf he (qp_src _ _ _) (qp_dst _ _ _)
        (qp_flag _ _ _)).1 hl
      have hop := (promo_push_pin bd p k c cm op dp ms s t hs hf he hrank hdp).1 himp
      have hrk := Geo.promo_rank_push s p (Geo.mem_players p)
      rw [hf] at hrk
      simp only [beq_iff_eq] at hrk
      refine ⟨s, ⟨⟨hs, hdp, t, hf, he, hcm⟩, by rw [hrk]; simpa using hrank⟩, ?_⟩
      simp only [g, fw, hf, Option.getD_some, hop, Bool.not_false, if_true]
      exact List.mem_map.2 ⟨pr, hpr, e.symm⟩

/-- single pushes that do not promote -/
theorem singlePushes_spec (bd : Board) (p : Player) (k : Sq) (c : Ctx bd p k) (cm op dp : BB)
    (ms : MaskSpec bd p k cm op dp) :
    ∃ L, Gen.pawnSinglePushes p (bd.pawnsOf p) bd.occupancy cm op dp = some L ∧
      ∀ m, m ∈ L.flatten ↔ ∃ s t1, at' bd.squares s = some ⟨.pawn, p⟩ ∧ offset s 0 (fwd p) = some t1 ∧
        at' bd.squares t1 = none ∧ t1.rank ≠ promoRank p ∧ m = Move.quiet s t1 ∧
        inCheck (applyBoard bd.squares p m) p = false := by
  have hc := c.cons
  let fw : Sq → Sq := fun s => (s.forward p).getD s
  let g : Sq → List Move := fun pawn =>
    if !(mem op pawn) || mem op (fw pawn) then [Move.quiet pawn (fw pawn)] else []
  refine ⟨(BB.toList (Gen.pawnCanPushOnce p (bd.pawnsOf p) bd.occupancy cm dp &&&
    ~~~Game.pawnBackRank p.other)).map g, ?_, ?_⟩
  · unfold Gen.pawnSinglePushes
    simp only
    apply mapM_some_of_forall _ _ g
    intro x hx
    rw [mem_toList, mem_and, Bool.and_eq_true, mem_canPushOnce bd hc] at hx
    obtain ⟨⟨_, _, t, e, _⟩, _⟩ := hx
    show (do let f1 ← x.forward p; pure (if !(mem op x) || mem op f1 then [Move.quiet x f1] else [])) = _
    rw [e]
    show some _ = some (g x)
    simp only [g, fw, e, Option.getD_some]
  · intro m
    rw [mem_flatten_map]
    simp only [mem_toList, mem_and, mem_not, Bool.and_eq_true, mem_canPushOnce bd hc, pawnHome_eq,
      Bool.not_eq_true']
    have hflq : ∀ a b : Sq, (Move.quiet a b).flag ≠ .enPassant ∧ (Move.quiet a b).flag ≠ .castle :=
      fun a b => ⟨by simp [Move.quiet], by simp [Move.quiet]⟩
    constructor
    · rintro ⟨s, ⟨⟨hs, hdp, t, hf, he, hcm⟩, hwp⟩, hm⟩
      simp only [g, fw, hf, Option.getD_some] at hm
      split at hm
      · rename_i hop
        have e := List.mem_singleton.1 hm
        have hrk := Geo.promo_rank_push s p (Geo.mem_players p)
        rw [hf] at hrk
        simp only [beq_iff_eq] at hrk
        have hrank : t.rank ≠ promoRank p := by rw [hwp] at hrk; simpa using hrk.symm
        refine ⟨s, t, hs, by rw [(Geo.offset_forward s p (Geo.mem_players p)).1]; exact hf, he, hrank, e, ?_⟩
        rw [e]
        refine (pawn_push_legal bd p k c cm op dp ms s t _ hs hf he rfl rfl (hflq s t)).2 ⟨hcm, hdp, ?_⟩
        intro h
        rw [Bool.or_eq_true] at hop
        rcases hop with h' | h'
        · rw [h] at h'; simp at h'
        · exact h'
      · cases hm
    · rintro ⟨s, t, hs, ho, he, hrank, e, hl⟩
      have hf : s.forward p = some t := by rw [← (Geo.offset_forward s p (Geo.mem_players p)).1]; exact ho
      rw [e] at hl
      obtain ⟨hcm, hdp, himp⟩ := (pawn_push_legal bd p k c cm op dp ms s t _ hs hf he rfl rfl (hflq s t)).1 hl
      have hrk := Geo.promo_rank_push s p (Geo.mem_players p)
      rw [hf] at hrk
      simp only [beq_iff_eq] at hrk
      refine ⟨s, ⟨⟨hs, hdp, t, hf, he, hcm⟩, by rw [hrk]; simpa using hrank⟩, ?_⟩
      simp only [g, fw, hf, Option.getD_some]
      have : (!(mem op s) || mem op t) = true := by
        cases h1 : mem op s with
        | false => rfl
        | true => rw [himp h1]; rfl
      rw [if_pos this]
      exact List.mem_singleton.2 e

/-- double pushes -/
theorem doublePushes_spec (bd : Board) (p : Player) (k : Sq) (c : Ctx bd p k) (cm op dp : BB)
    (ms : MaskSpec bd p k cm op dp) :
    ∃ L, Gen.pawnDoublePushes p (bd.pawnsOf p) bd.occupancy cm op dp = some L ∧
      ∀ m, m ∈ L.flatten ↔ ∃ s t1 t2, at' bd.squares s = some ⟨.pawn, p⟩ ∧ offset s 0 (fwd p) = some t1 ∧
        at' bd.squares t1 = none ∧ s.rank = startRank p ∧ offset s 0 (2 * fwd p) = some t2 ∧
        at' bd.squares t2 = none ∧ m = Move.quiet s t2 ∧
        inCheck (applyBoard bd.squares p m) p = false := by
  have hc := c.cons
  let fw2 : Sq → Sq := fun s => ((s.forward p).bind fun t => t.forward p).getD s
  let g : Sq → List Move := fun pawn =>
    if !(mem op pawn) || mem op (fw2 pawn) then [Move.quiet pawn (fw2 pawn)] else []
  -- membership in `canPushTwice`
  have hmem : ∀ s, mem (bd.pawnsOf p &&& ~~~dp &&& Game.pawnBackRank p &&& ~~~BB.backward p bd.occupancy &&&
      BB.backward p (BB.backward p (~~~bd.occupancy &&& cm))) s = true ↔
      (at' bd.squares s = some ⟨.pawn, p⟩ ∧ mem dp s = false ∧ s.rank = startRank p ∧
        ∃ f1 f2, s.forward p = some f1 ∧ f1.forward p = some f2 ∧ at' bd.squares f1 = none ∧
          at' bd.squares f2 = none ∧ mem cm f2 = true) := by
    intro s
    simp only [mem_and, mem_not, Bool.and_eq_true, Bool.not_eq_true', mem_pawnsOf bd hc, pawnHome_eq]
    rw [Geo.start_rank s p (Geo.mem_players p), decide_eq_true_eq, mem_backward]
    simp only [mem_backward, mem_available bd hc]
    constructor
    · rintro ⟨⟨⟨⟨a, b⟩, r⟩, nb⟩, f1, e1, f2, e2, he2, hcm⟩
      refine ⟨a, b, r, f1, f2, e1, e2, ?_, he2, hcm⟩
      cases hh : at' bd.squares f1 with
      | none => rfl
      | some x =>
        exfalso
        have : mem (BB.backward p bd.occupancy) s = true :=
          (mem_backward p _ s).2 ⟨f1, e1, by rw [mem_occupancy bd hc]; unfold occOf; rw [hh]; rfl⟩
        rw [this] at nb; cases nb
    · rintro ⟨a, b, r, f1, f2, e1, e2, he1, he2, hcm⟩
      refine ⟨⟨⟨⟨a, b⟩, r⟩, ?_⟩, f1, e1, f2, e2, he2, hcm⟩
      cases hh : mem (BB.backward p bd.occupancy) s with
      | false => rfl
      | true =>
        exfalso
        obtain ⟨t, et, ht⟩ := (mem_backward p _ s).1 hh
        rw [e1] at et
        have := Option.some.inj et
        subst this
        rw [mem_occupancy bd hc] at ht
        unfold occOf at ht
        rw [he1] at ht; cases ht
  refine ⟨(BB.toList (bd.pawnsOf p &&& ~~~dp &&& Game.pawnBackRank p &&& ~~~BB.backward p bd.occupancy &&&
      BB.backward p (BB.backward p (~~~bd.occupancy &&& cm)))).map g, ?_, ?_⟩
  · unfold Gen.pawnDoublePushes
    simp only
    apply mapM_some_of_forall _ _ g
    intro x hx
    rw [mem_toList, hmem] at hx
    obtain ⟨_, _, _, f1, f2, e1, e2, _⟩ := hx
    show (do let f1 ← x.forward p; let f2 ← f1.forward p;
             pure (if !(mem op x) || mem op f2 then [Move.quiet x f2] else [])) = _
    rw [e1]
    show (do let f2 ← f1.forward p; pure (if !(mem op x) || mem op f2 then [Move.quiet x f2] else [])) = _
    rw [e2]
    show some _ = some (g x)
    simp only [g, fw2, e1, e2, Option.bind_some, Option.getD_some]
  · intro m
    rw [mem_flatten_map]
    simp only [mem_toList, hmem]
    have hflq : ∀ a b : Sq, (Move.quiet a b).flag ≠ .enPassant ∧ (Move.quiet a b).flag ≠ .castle :=
      fun a b => ⟨by simp [Move.quiet], by simp [Move.quiet]⟩
    constructor
    · rintro ⟨s, ⟨hs, hdp, hr, f1, f2, e1, e2, he1, he2, hcm⟩, hm⟩
      simp only [g, fw2, e1, e2, Option.bind_some, Option.getD_some] at hm
      split at hm
      · rename_i hop
        have e := List.mem_singleton.1 hm
        have ho := Geo.offset_forward s p (Geo.mem_players p)
        refine ⟨s, f1, f2, hs, by rw [ho.1]; exact e1, he1, hr, by rw [ho.2, e1]; exact e2, he2, e, ?_⟩
        rw [e]
        refine (pawn_double_legal bd p k c cm op dp ms s f1 f2 _ hs e1 e2 he1 he2 rfl rfl (hflq s f2)).2
          ⟨hcm, hdp, ?_⟩
        intro h
        rw [Bool.or_eq_true] at hop
        rcases hop with h' | h'
        · rw [h] at h'; simp at h'
        · exact h'
      · cases hm
    · rintro ⟨s, t1, t2, hs, ho1, he1, hr, ho2, he2, e, hl⟩
      have ho := Geo.offset_forward s p (Geo.mem_players p)
      have e1 : s.forward p = some t1 := by rw [← ho.1]; exact ho1
      have e2 : t1.forward p = some t2 := by
        have := ho.2
        rw [ho2, e1] at this
        exact this.symm
      rw [e] at hl
      obtain ⟨hcm, hdp, himp⟩ := (pawn_double_legal bd p k c cm op dp ms s t1 t2 _ hs e1 e2 he1 he2 rfl rfl
        (hflq s t2)).1 hl
      refine ⟨s, ⟨hs, hdp, hr, t1, t2, e1, e2, he1, he2, hcm⟩, ?_⟩
      simp only [g, fw2, e1, e2, Option.bind_some, Option.getD_some]
      have : (!(mem op s) || mem op t2) = true := by
        cases h1 : mem op s with
        | false => rfl
        | true => rw [himp h1]; rfl
      rw [if_pos this]
      exact List.mem_singleton.2 e

theorem mem_capTargets (bd : Board) (hc : Consistent bd) (p : Player) (cm dp : BB) (s t : Sq) :
    mem ((if mem dp s then pawnAttacks s p &&& dp else pawnAttacks s p) &&& (bd.occFor p.other &&& cm)) t = true ↔
      ((offset s (-1) (fwd p) = some t ∨ offset s 1 (fwd p) = some t) ∧
        (mem dp s = true → mem dp t = true) ∧
        (∃ pc, at' bd.squares t = some pc ∧ pc.player ≠ p) ∧ mem cm t = true) := by
  rw [mem_and, mem_and, Bool.and_eq_true, Bool.and_eq_true, mem_theirs bd hc]
  by_cases h : mem dp s = true
  · rw [if_pos h, mem_and, Bool.and_eq_true, mem_pawnAttacks]
    constructor
    · rintro ⟨⟨a, b⟩, cc, d⟩; exact ⟨a, fun _ => b, cc, d⟩
    · rintro ⟨a, b, cc, d⟩; exact ⟨⟨a, b h⟩, cc, d⟩
  · rw [if_neg h, mem_pawnAttacks]
    constructor
    · rintro ⟨a, cc, d⟩; exact ⟨a, fun e => absurd e h, cc, d⟩
    · rintro ⟨a, _, cc, d⟩; exact ⟨a, cc, d⟩

theorem df_of_offset {s t : Sq} {f : Int} (h : offset s (-1) f = some t ∨ offset s 1 f = some t) :
    ∃ df ∈ ([-1, 1] : List Int), offset s df f = some t := by
  rcases h with h | h
  · exact ⟨-1, by simp, h⟩
  · exact ⟨1, by simp, h⟩

theorem offset_of_df {s t : Sq} {f df : Int} (hdf : df ∈ ([-1, 1] : List Int)) (h : offset s df f = some t) :
    offset s (-1) f = some t ∨ offset s 1 f = some t := by
  simp only [List.mem_cons, List.mem_nil_iff, or_false] at hdf
  rcases hdf with e | e <;> subst e
  · exact Or.inl h
  · exact Or.inr h

theorem all_promos (pr : Promo) : pr ∈ Gen.promoOrderCaptures ∧ pr ∈ allPromos := by
  cases pr <;> simp [Gen.promoOrderCaptures, allPromos]

/-- capturing promotions -/
theorem promoCaptures_spec (bd : Board) (p : Player) (k : Sq) (c : Ctx bd p k) (cm op dp : BB)
    (ms : MaskSpec bd p k cm op dp) (m : Move) :
    m ∈ Gen.pawnPromoCaptures p (bd.pawnsOf p) (bd.occFor p.other) cm op dp ↔
      ∃ s df t, at' bd.squares s = some ⟨.pawn, p⟩ ∧ df ∈ ([-1, 1] : List Int) ∧
        offset s df (fwd p) = some t ∧ (∃ pc, at' bd.squares t = some pc ∧ pc.player ≠ p) ∧
        t.rank = promoRank p ∧ (∃ pr ∈ allPromos, m = Move.capturePromotion s t pr) ∧
        inCheck (applyBoard bd.squares p m) p = false := by
  have hc := c.cons
  unfold Gen.pawnPromoCaptures
  simp only [List.mem_flatMap, List.mem_map, mem_toList]
  simp only [mem_capTargets bd hc]
  simp only [mem_and, mem_not, Bool.and_eq_true, Bool.not_eq_true', mem_pawnsOf bd hc, pawnHome_eq]
  constructor
  · rintro ⟨s, ⟨⟨hs, hop⟩, hwp⟩, t, ⟨ho, himp, hte, hcm⟩, pr, _, e⟩
    obtain ⟨df, hdf, ho'⟩ := df_of_offset ho
    have hrk := Geo.promo_rank_capture s p (Geo.mem_players p) df hdf
    rw [ho'] at hrk
    simp only [beq_iff_eq] at hrk
    have hrank : t.rank = promoRank p := by rw [hwp] at hrk; simpa using hrk.symm
    refine ⟨s, df, t, hs, hdf, ho', hte, hrank, ⟨pr, (all_promos pr).2, e.symm⟩, ?_⟩
    rw [← e]
    exact (pawn_capture_legal bd p k c cm op dp ms s t _ df hdf hs ho' hte (cp_src _ _ _) (cp_dst _ _ _)
      (cp_flag _ _ _)).2 ⟨hcm, hop, himp⟩
  · rintro ⟨s, df, t, hs, hdf, ho, hte, hrank, ⟨pr, _, e⟩, hl⟩
    rw [e] at hl
    obtain ⟨hcm, hop, himp⟩ := (pawn_capture_legal bd p k c cm op dp ms s t _ df hdf hs ho hte (cp_src _ _ _)
      (cp_dst _ _ _) (cp_flag _ _ _)).1 hl
    have hrk := Geo.promo_rank_capture s p (Geo.mem_players p) df hdf
    rw [ho] at hrk
    simp only [beq_iff_eq] at hrk
    exact ⟨s, ⟨⟨hs, hop⟩, by rw [hrk]; simpa using hrank⟩, t, ⟨offset_of_df hdf ho, himp, hte, hcm⟩, pr,
      (all_promos pr).1, e.symm⟩

/-- ordinary captures -/
theorem plainCaptures_spec (bd : Board) (p : Player) (k : Sq) (c : Ctx bd p k) (cm op dp : BB)
    (ms : MaskSpec bd p k cm op dp) (m : Move) :
    m ∈ Gen.pawnPlainCaptures p (bd.pawnsOf p) (bd.occFor p.other) cm op dp ↔
      ∃ s df t, at' bd.squares s = some ⟨.pawn, p⟩ ∧ df ∈ ([-1, 1] : List Int) ∧
        offset s df (fwd p) = some t ∧ (∃ pc, at' bd.squares t = some pc ∧ pc.player ≠ p) ∧
        t.rank ≠ promoRank p ∧ m = Move.capture s t ∧
        inCheck (applyBoard bd.squares p m) p = false := by
  have hc := c.cons
  have hflc : ∀ a b : Sq, (Move.capture a b).flag ≠ .enPassant ∧ (Move.capture a b).flag ≠ .castle :=
    fun a b => ⟨by simp [Move.capture], by simp [Move.capture]⟩
  unfold Gen.pawnPlainCaptures
  simp only [List.mem_flatMap, List.mem_map, mem_toList]
  simp only [mem_capTargets bd hc]
  simp only [mem_and, mem_not, Bool.and_eq_true, Bool.not_eq_true', mem_pawnsOf bd hc, pawnHome_eq]
  constructor
  · rintro ⟨s, ⟨⟨hs, hop⟩, hwp⟩, t, ⟨ho, himp, hte, hcm⟩, e⟩
    obtain ⟨df, hdf, ho'⟩ := df_of_offset ho
    have hrk := Geo.promo_rank_capture s p (Geo.mem_players p) df hdf
    rw [ho'] at hrk
    simp only [beq_iff_eq] at hrk
    have hrank : t.rank ≠ promoRank p := by rw [hwp] at hrk; simpa using hrk.symm
    refine ⟨s, df, t, hs, hdf, ho', hte, hrank, e.symm, ?_⟩
    rw [← e]
    exact (pawn_capture_legal bd p k c cm op dp ms s t _ df hdf hs ho' hte rfl rfl (hflc s t)).2 ⟨hcm, hop, himp⟩
  · rintro ⟨s, df, t, hs, hdf, ho, hte, hrank, e, hl⟩
    rw [e] at hl
    obtain ⟨hcm, hop, himp⟩ := (pawn_capture_legal bd p k c cm op dp ms s t _ df hdf hs ho hte rfl rfl
      (hflc s t)).1 hl
    have hrk := Geo.promo_rank_capture s p (Geo.mem_players p) df hdf
    rw [ho] at hrk
    simp only [beq_iff_eq] at hrk
    exact ⟨s, ⟨⟨hs, hop⟩, by rw [hrk]; simpa using hrank⟩, t, ⟨offset_of_df hdf ho, himp, hte, hcm⟩, e.symm⟩

end Tcheran
