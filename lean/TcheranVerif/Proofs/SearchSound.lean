import TcheranVerif.Proofs.SearchBasics
import TcheranVerif.Props.C10
/-!
# Search soundness (C04 / C08 / C09): every move and every line the search hands out is legal

Induction over the fuel of `negamax` (outer) and of its move loop (inner). What is carried:
the table stays `TTGood`, the PV buffer stays a `LegalLine` of the node's position, the picker state
stays inside the invariant of C10 for every content of the killer / counter / history tables (they may
change between two `next` calls of the same node), so every move tried is a legal move.
-/

namespace Tcheran
namespace Search
open Board Game Rules

theorem snd_eq {α β} {x : α × β} {a : α} {b : β} (h : x = (a, b)) : b = x.2 := by rw [h]
theorem fst_eq {α β} {x : α × β} {a : α} {b : β} (h : x = (a, b)) : a = x.1 := by rw [h]

/-! ### quiescence never writes the table -/

theorem qloop_tt (fuel : Nat) (ih : ∀ g a b p c, (quiescence fuel g a b p c).2.tt = c.tt)
    (g : Game) (beta : Int) (plies : Nat) (nm : NodeMoves) :
    ∀ lf st alpha best c, (quiescence.loop fuel g beta plies nm lf st alpha best c).2.tt = c.tt := by
  intro lf
  induction lf with
  | zero => intro st alpha best c; rw [quiescence.loop.eq_def]
  | succ n ihn =>
    intro st alpha best c
    rw [quiescence.loop.eq_def]
    simp only
    split
    · rfl
    · split
      · rfl
      · split
        · rename_i v c' hq
          have : c'.tt = c.tt := by rw [snd_eq hq]; exact ih _ _ _ _ c
          split
          · exact this
          · rw [ihn]; exact this
        · rename_i r c' _ hq
          rw [snd_eq hq]; exact ih _ _ _ _ c

theorem quiescence_tt : ∀ fuel g a b p c, (quiescence fuel g a b p c).2.tt = c.tt := by
  intro fuel
  induction fuel with
  | zero => intro g a b p c; rw [quiescence.eq_def]
  | succ n ih =>
    intro g a b p c
    rw [quiescence.eq_def]
    simp only
    have hs := shouldStop_tt { c with seldepth := max c.seldepth p, nodes := c.nodes + 1 }
    repeat' split
    all_goals first | rfl | exact hs | (rw [qloop_tt n ih]; exact hs)

/-! ### the picker under a changing environment -/

open Picker in
theorem inv_congr (e1 e2 : Env) (st : State) (hc : e1.captures = e2.captures) (hq : e1.quiets = e2.quiets)
    (h : Inv e1 st) : Inv e2 st := by
  obtain ⟨c1, q1, a1, b1, k1, k2, cm⟩ := e1
  obtain ⟨c2, q2, a2, b2, k3, k4, cm2⟩ := e2
  simp only at hc hq
  subst hc; subst hq
  exact ⟨h.inj, h.ssize, h.hashOk, h.loudHash, h.loudStage, h.pre, h.caps, h.noQuietsYet, h.loudBad, h.good,
    h.fbOk, h.quiets, h.badIdx, h.quietIdx⟩

open Picker in
theorem inP_congr (e1 e2 : Env) (st : State) (hc : e1.captures = e2.captures) (hq : e1.quiets = e2.quiets)
    (x : Move) : InP e1 st x ↔ InP e2 st x := by
  obtain ⟨c1, q1, a1, b1, k1, k2, cm⟩ := e1
  obtain ⟨c2, q2, a2, b2, k3, k4, cm2⟩ := e2
  simp only at hc hq
  subst hc; subst hq
  exact Iff.rfl

/-- the picker of a node, whatever the tables hold at the moment of each call -/
structure PLoop (nm : NodeMoves) (st : Picker.State) : Prop where
  inv : ∀ e : Picker.Env, e.captures = nm.captures → e.quiets = nm.quiets → Picker.Inv e st
  sub : ∀ e : Picker.Env, e.captures = nm.captures → e.quiets = nm.quiets →
    ∀ x, Picker.InP e st x → x ∈ nm.captures ∨ x ∈ nm.quiets

theorem ploop_new (nm : NodeMoves) (hash : Option Move)
    (hh : ∀ h, hash = some h → h ∈ nm.captures ∨ h ∈ nm.quiets) : PLoop nm (Picker.new hash) := by
  refine ⟨fun e hc hq => Props.C10.inv_new e hash (by rw [hc, hq]; exact hh), fun e hc hq x hx => ?_⟩
  unfold Picker.InP Picker.qs at hx
  simp only [Picker.new] at hx
  rw [hc, hq] at hx
  simpa using hx

theorem ploop_newLoud (nm : NodeMoves) : PLoop nm Picker.newLoud := by
  refine ⟨fun e _ _ => Props.C10.inv_newLoud e, fun e hc hq x hx => ?_⟩
  unfold Picker.InP Picker.qs at hx
  simp only [Picker.newLoud] at hx
  rw [hc] at hx
  left
  simpa using hx

theorem ploop_step (nm : NodeMoves) (st st' : Picker.State) (e : Picker.Env) (mv : Move)
    (hc : e.captures = nm.captures) (hq : e.quiets = nm.quiets) (hE : Picker.EnvOk e) (h : PLoop nm st)
    (hn : Picker.next e st = (some mv, st')) : (mv ∈ nm.captures ∨ mv ∈ nm.quiets) ∧ PLoop nm st' := by
  have hk := Picker.next_ok e hE st (h.inv e hc hq)
  rw [hn] at hk
  simp only at hk
  refine ⟨h.sub e hc hq mv hk.mem, fun e2 hc2 hq2 => inv_congr e e2 st' (hc.trans hc2.symm) (hq.trans hq2.symm) hk.inv,
    fun e2 hc2 hq2 x hx => ?_⟩
  have hx' := (inP_congr e2 e st' (hc2.trans hc.symm) (hq2.trans hq.symm) x).1 hx
  exact h.sub e hc hq x ((hk.rest x).1 hx').1

/-- the generator at a node that satisfies the invariant: exactly the legal moves, none twice -/
theorem nodeMoves_spec (T : SliderTables) (g : Game) (h : SInv g) (nm : NodeMoves) (hnm : nodeMoves g = some nm) :
    (∀ (c : Ctx) (plies : Nat), Picker.EnvOk (pickerEnv g nm c plies)) ∧
    ∀ m, (m ∈ nm.captures ∨ m ∈ nm.quiets) ↔ m ∈ legalMoves (ofGame g) := by
  obtain ⟨k, hk⟩ := posH_of_ginv g h.1 h.2
  refine ⟨fun c plies => Props.C10.envOk_of_generate T g k hk nm hnm c plies, ?_⟩
  obtain ⟨caps, cache, quiets, h1, h2, h3⟩ := generate_exact T g k hk
  unfold nodeMoves at hnm
  rw [h1] at hnm
  change (do let quiets ← generateQuiets g cache; pure (⟨caps, quiets⟩ : NodeMoves)) = some nm at hnm
  rw [h2] at hnm
  have e : nm = ⟨caps, quiets⟩ := (Option.some.inj hnm).symm
  subst e
  intro m
  rw [← h3 m, List.mem_append]

theorem nodeMoves_total (T : SliderTables) (g : Game) (h : SInv g) : ∃ nm, nodeMoves g = some nm := by
  obtain ⟨k, hk⟩ := posH_of_ginv g h.1 h.2
  obtain ⟨caps, cache, quiets, h1, h2, _⟩ := generate_exact T g k hk
  refine ⟨⟨caps, quiets⟩, ?_⟩
  unfold nodeMoves
  rw [h1]
  change (do let quiets ← generateQuiets g cache; pure (⟨caps, quiets⟩ : NodeMoves)) = _
  rw [h2]
  rfl

/-! ### the three phases around the move loop -/

def NodePost (U : Universe) (g : Game) (out : NodeOut) : Prop := TTGood U out.ctx.tt ∧ LegalLine g out.pv

theorem pvsChild_sound (U : Universe) (g' : Game) (search : Int → Int → Nat → List Move → Ctx → NodeOut)
    (hs : ∀ a b d pv c, TTGood U c.tt → LegalLine g' pv → NodePost U g' (search a b d pv c))
    (alpha beta : Int) (depth count : Nat) (inCheck : Bool) (c : Ctx) (htt : TTGood U c.tt) :
    NodePost U g' (pvsChild search alpha beta depth count inCheck c) := by
  unfold pvsChild
  simp only
  split
  · exact hs _ _ _ _ _ htt trivial
  · have hz := hs (neg alpha - 1) (neg alpha)
      (depth - (if (decide (depth ≥ Gen.p_lmr_depth) && decide (count ≥ Gen.p_lmr_move_threshold)) = true then
        max 1 (if inCheck = true then lmrReduction depth count - 1 else lmrReduction depth count) else 1)) [] c htt trivial
    split
    · split
      · exact hs _ _ _ _ _ hz.1 hz.2
      · exact hz
    · exact hz

theorem nullMovePhase_sound (U : Universe) (child : Ctx → NodeOut) (doNull : Bool)
    (hch : doNull = true → ∀ c, TTGood U c.tt → TTGood U (child c).ctx.tt) (beta : Int) (pv : List Move) (c : Ctx)
    (htt : TTGood U c.tt) :
    TTGood U (nullMovePhase child doNull beta pv c).2.tt ∧
    ∀ o, (nullMovePhase child doNull beta pv c).1 = some o → o.pv = pv ∧ TTGood U o.ctx.tt := by
  unfold nullMovePhase
  split
  · rename_i hd
    have := hch hd c htt
    simp only
    split
    · split
      · exact ⟨this, fun o ho => by cases ho; exact ⟨rfl, this⟩⟩
      · exact ⟨this, fun o ho => by cases ho⟩
    · exact ⟨this, fun o ho => by cases ho; exact ⟨rfl, this⟩⟩
  · exact ⟨htt, fun o ho => by cases ho⟩

theorem finishNode_sound (U : Universe) (g : Game) (depth plies : Nat) (inCheck : Bool) (bound : TT.Bound)
    (bestMove : Option Move) (bestEval : Int) (count : Nat) (pv : List Move) (c : Ctx) (hr : U.R plies g)
    (htt : TTGood U c.tt) (hb : ∀ m, bestMove = some m → m ∈ legalMoves (ofGame g)) :
    (finishNode g depth plies inCheck bound bestMove bestEval count pv c).pv = pv ∧
    TTGood U (finishNode g depth plies inCheck bound bestMove bestEval count pv c).ctx.tt := by
  unfold finishNode
  split
  · exact ⟨rfl, htt⟩
  · simp only
    split
    · exact ⟨rfl, htt⟩
    · rename_i c' hupd
      have hc' : c'.tt = c.tt := by
        split at hupd
        · split at hupd
          · cases hupd
          · split at hupd
            · split at hupd
              · cases hupd
              · cases hupd; rfl
            · cases hupd; rfl
        · cases hupd; rfl
      refine ⟨rfl, ?_⟩
      show TTGood U (c'.tt.insert g.zobrist _)
      rw [hc']
      exact ttGood_insert U c.tt plies g _ htt hr hb

/-! ### the move loop and the node -/

def LoopPost (U : Universe) (g : Game)
    (r : Res (TT.Bound × Option Move × Int × Nat) × List Move × Ctx) : Prop :=
  TTGood U r.2.2.tt ∧ LegalLine g r.2.1 ∧
  ∀ b bm be cnt, r.1 = .ok (b, bm, be, cnt) → ∀ m, bm = some m → m ∈ legalMoves (ofGame g)

theorem nloop_sound (T : SliderTables) (U : Universe) (fuel : Nat)
    (ih : ∀ g a b d p pv c, U.R p g → TTGood U c.tt → LegalLine g pv → NodePost U g (negamax fuel g a b d p pv c))
    (g : Game) (alpha0 beta : Int) (plies : Nat) (inCheck : Bool) (depth : Nat) (ev : Int) (nm : NodeMoves)
    (hr : U.R plies g) (hnm : nodeMoves g = some nm) :
    ∀ lf st alpha bound bestMove bestEval count pv c, PLoop nm st → TTGood U c.tt → LegalLine g pv →
      (∀ m, bestMove = some m → m ∈ legalMoves (ofGame g)) →
      LoopPost U g (negamax.loop fuel g alpha0 beta plies inCheck depth ev nm lf st alpha bound bestMove bestEval count pv c) := by
  have hsi := U.inv plies g hr
  obtain ⟨hEnv, hmem⟩ := nodeMoves_spec T g hsi nm hnm
  intro lf
  induction lf with
  | zero =>
    intro st alpha bound bestMove bestEval count pv c hp htt hpv hb
    rw [negamax.loop.eq_def]
    exact ⟨htt, hpv, fun _ _ _ _ h => by cases h⟩
  | succ n ihn =>
    intro st alpha bound bestMove bestEval count pv c hp htt hpv hb
    rw [negamax.loop.eq_def]
    simp only
    split
    · -- picker exhausted
      refine ⟨htt, hpv, fun b bm be cnt h m hm => ?_⟩
      cases h
      exact hb m hm
    · rename_i mv st' hnext
      obtain ⟨hmv, hp'⟩ := ploop_step nm st st' (pickerEnv g nm c plies) mv rfl rfl (hEnv c plies) hp hnext
      have hlegal : mv ∈ legalMoves (ofGame g) := (hmem mv).1 hmv
      split
      · exact ihn st' alpha bound bestMove bestEval count pv c hp' htt hpv hb
      · split
        · exact ⟨htt, hpv, fun _ _ _ _ h => by cases h⟩
        · rename_i g' hmake
          have hr' : U.R (plies + 1) g' := U.step plies g mv g' hr hlegal hmake
          have hout := pvsChild_sound U g' (fun a b d nodePv c => negamax fuel g' a b d (plies + 1) nodePv c)
            (fun a b d pv c h1 h2 => ih g' a b d (plies + 1) pv c hr' h1 h2) alpha beta depth (count + 1) inCheck c htt
          generalize pvsChild (fun a b d nodePv c => negamax fuel g' a b d (plies + 1) nodePv c) alpha beta depth
            (count + 1) inCheck c = out at hout ⊢
          split
          · -- ok v
            rename_i v hres
            have hb' : ∀ m, (if neg v > bestEval then (some mv, neg v) else (bestMove, bestEval)).1 = some m →
                m ∈ legalMoves (ofGame g) := by
              intro m hm
              split at hm
              · cases hm; exact hlegal
              · exact hb m hm
            generalize (if neg v > bestEval then (some mv, neg v) else (bestMove, bestEval)) = bb at hb' ⊢
            split
            · refine ⟨hout.1, hpv, fun b bm2 be2 cnt h m hm => ?_⟩
              cases h
              exact hb' m hm
            · split
              · split
                · exact ⟨hout.1, hpv, fun _ _ _ _ h => by cases h⟩
                · exact ihn st' _ _ bb.1 bb.2 _ _ out.ctx hp' hout.1 (legalLine_cons g g' mv out.pv hlegal hmake hout.2) hb'
              · exact ihn st' _ _ bb.1 bb.2 _ _ out.ctx hp' hout.1 hpv hb'
          · exact ⟨hout.1, hpv, fun _ _ _ _ h => by cases h⟩
          · exact ⟨hout.1, hpv, fun _ _ _ _ h => by cases h⟩

theorem ctx_if_tt (b : Prop) [Decidable b] (x y : Ctx) : (if b then x else y).tt = if b then x.tt else y.tt := by
  split <;> rfl

theorem negamax_sound (T : SliderTables) (U : Universe) : ∀ fuel g a b d p pv c,
    U.R p g → TTGood U c.tt → LegalLine g pv → NodePost U g (negamax fuel g a b d p pv c) := by
  intro fuel
  induction fuel with
  | zero => intro g a b d p pv c hr htt hpv; rw [negamax.eq_def]; exact ⟨htt, hpv⟩
  | succ n ih =>
    intro g a b d p pv c hr htt hpv
    rw [negamax.eq_def]
    simp only
    have h1 := shouldStop_tt c
    generalize (shouldStop c).fst = c1 at h1 ⊢
    have htt1 : TTGood U c1.tt := h1 ▸ htt
    clear h1
    have early : ∀ (r : Res Int) (x : Ctx), x.tt = c1.tt → NodePost U g ⟨r, pv, x⟩ :=
      fun r x hx => ⟨by show TTGood U x.tt; rw [hx]; exact htt1, hpv⟩
    split
    · exact ⟨htt, hpv⟩
    split
    · exact early _ _ rfl
    split
    · exact early _ _ rfl
    split
    · exact early _ _ rfl
    split
    · exact early _ _ rfl
    rename_i inCheck hchk
    generalize (if (inCheck && decide (d < Gen.maxSearchDepth)) = true then d + 1 else d) = d'
    split
    · exact early _ _ (by rw [quiescence_tt])
    generalize hc3 : (if (!decide (p = 0)) = true then
        ({ tt := c1.tt, history := c1.history, killers := c1.killers, counter := c1.counter, nodes := c1.nodes + 1,
           seldepth := max c1.seldepth p, nextCheckAt := c1.nextCheckAt, polls := c1.polls, stopAt := c1.stopAt,
           everyNode := c1.everyNode, stoppedNodes := c1.stoppedNodes } : Ctx) else
        { tt := c1.tt, history := c1.history, killers := c1.killers, counter := c1.counter, nodes := c1.nodes,
           seldepth := max c1.seldepth p, nextCheckAt := c1.nextCheckAt, polls := c1.polls, stopAt := c1.stopAt,
           everyNode := c1.everyNode, stoppedNodes := c1.stoppedNodes }) = c3
    have h3 : c3.tt = c1.tt := by rw [← hc3]; split <;> rfl
    clear hc3
    have htt3 : TTGood U c3.tt := h3 ▸ htt1
    have early3 : ∀ (r : Res Int), NodePost U g ⟨r, pv, c3⟩ := fun r => ⟨htt3, hpv⟩
    split
    · exact early3 _
    split
    · exact early3 _
    rename_i ev hev
    split
    · exact early3 _
    split
    · exact early3 _
    have hsi := U.inv p g hr
    obtain ⟨kk, hkk⟩ := hsi.2.king g.player
    have hchk' : inCheck = Rules.inCheck g.board.squares g.player := by
      have := kingInCheck_agrees T g.board hsi.1 g.player kk (kingSq_unique _ _ kk hkk)
      rw [hchk] at this
      exact Option.some.inj this
    have hnull := nullMovePhase_sound U
      (fun c => negamax n (makeNull theCfg g) (neg b) (neg b + 1) (d' - 1 - Gen.p_null_move_pruning_depth_reduction) (p + 1) [] c)
      (!decide (p = 0) && !decide (a ≠ b - 1) && !inCheck && decide (d' ≥ Gen.p_null_move_pruning_depth_limit) &&
              decide (ev ≥ b) && prevNotNull g)
      (fun hd c htt => by
        have hic : inCheck = false := by
          simp only [Bool.and_eq_true, Bool.not_eq_true'] at hd
          exact hd.1.1.1.2
        exact (ih _ _ _ _ _ [] c (U.null p g hr (by rw [← hchk']; exact hic)) htt trivial).1)
      b pv c3 htt3
    generalize (nullMovePhase
      (fun c => negamax n (makeNull theCfg g) (neg b) (neg b + 1) (d' - 1 - Gen.p_null_move_pruning_depth_reduction) (p + 1) [] c)
      (!decide (p = 0) && !decide (a ≠ b - 1) && !inCheck && decide (d' ≥ Gen.p_null_move_pruning_depth_limit) &&
              decide (ev ≥ b) && prevNotNull g) b pv c3) = np at hnull ⊢
    obtain ⟨htt4, hearly⟩ := hnull
    split
    · rename_i o ho
      obtain ⟨h1, h2⟩ := hearly o ho
      exact ⟨h2, h1 ▸ hpv⟩
    split
    · exact ⟨htt4, hpv⟩
    rename_i nm hnm
    obtain ⟨_, hmem⟩ := nodeMoves_spec T g hsi nm hnm
    have hloop := nloop_sound T U n ih g a b p inCheck d' ev nm hr hnm 300
      (Picker.new ((c3.tt.get g.zobrist).bind fun x => x.best)) a TT.Bound.upper none i16Min 0 pv np.2
      (ploop_new nm _ (fun h hh => by
        cases hget : c3.tt.get g.zobrist with
        | none => rw [hget] at hh; cases hh
        | some e =>
          rw [hget] at hh
          exact (hmem h).2 (htt3 p g e h hr hget hh)))
      htt4 hpv (fun m hm => by cases hm)
    generalize negamax.loop n g a b p inCheck d' ev nm 300 (Picker.new ((c3.tt.get g.zobrist).bind fun x => x.best)) a
      TT.Bound.upper none i16Min 0 pv np.2 = lr at hloop ⊢
    obtain ⟨l1, l2, l3⟩ := hloop
    split
    · exact ⟨l1, l2⟩
    · exact ⟨l1, l2⟩
    · rename_i bound bestMove bestEval count pv' c'
      have hf := finishNode_sound U g d' p inCheck bound bestMove bestEval count pv' c' hr l1 (l3 _ _ _ _ rfl)
      refine ⟨hf.2, ?_⟩
      rw [hf.1]; exact l2


/-! ### aspiration, iterative deepening, the whole search -/

theorem aspLoop_sound (T : SliderTables) (U : Universe) (fuel : Nat) (g : Game) (depth : Nat) (hr : U.R 0 g) :
    ∀ n w pv c, TTGood U c.tt → LegalLine g pv → NodePost U g (aspiration.loop fuel g depth n w pv c) := by
  intro n
  induction n with
  | zero => intro w pv c htt hpv; rw [aspiration.loop.eq_def]; exact ⟨htt, hpv⟩
  | succ k ih =>
    intro w pv c htt hpv
    rw [aspiration.loop.eq_def]
    simp only
    have ho := negamax_sound T U fuel g w.alpha w.beta depth 0 pv c hr htt hpv
    generalize negamax fuel g w.alpha w.beta depth 0 pv c = out at ho ⊢
    split
    · split
      · exact ih _ _ _ ho.1 ho.2
      · split
        · exact ih _ _ _ ho.1 ho.2
        · exact ho
    · exact ho

theorem aspiration_sound (T : SliderTables) (U : Universe) (fuel : Nat) (g : Game) (depth : Nat) (prev : Option Int)
    (pv : List Move) (c : Ctx) (hr : U.R 0 g) (htt : TTGood U c.tt) (hpv : LegalLine g pv) :
    NodePost U g (aspiration fuel g depth prev pv c) := by
  unfold aspiration
  simp only
  split
  · exact ⟨htt, hpv⟩
  · exact aspLoop_sound T U fuel g depth hr _ _ _ _ htt hpv

/-- what the iterative-deepening loop keeps: good table, the PV buffer and every reported line are legal
lines of the root, and reported lines are non-empty -/
def IterPost (U : Universe) (g : Game) (r : Option String × List Move × List Info × Ctx) : Prop :=
  TTGood U r.2.2.2.tt ∧ LegalLine g r.2.1 ∧ ∀ i ∈ r.2.2.1, i.pv ≠ [] ∧ LegalLine g i.pv

theorem iter_sound (T : SliderTables) (U : Universe) (fuel : Nat) (g : Game) (maxDepth : Nat) (hr : U.R 0 g) :
    ∀ n d prev pv infos c, TTGood U c.tt → LegalLine g pv → (∀ i ∈ infos, i.pv ≠ [] ∧ LegalLine g i.pv) →
      IterPost U g (search.iter fuel g maxDepth d n prev pv infos c) := by
  intro n
  induction n with
  | zero => intro d prev pv infos c htt hpv hi; rw [search.iter.eq_def]; exact ⟨htt, hpv, hi⟩
  | succ k ih =>
    intro d prev pv infos c htt hpv hi
    rw [search.iter.eq_def]
    simp only
    split
    · exact ⟨htt, hpv, hi⟩
    · have h1 := shouldStart_tt c d
      generalize shouldStartNewSearch c d = sn at h1 ⊢
      obtain ⟨c1, go⟩ := sn
      simp only at h1 ⊢
      have htt1 : TTGood U c1.tt := h1 ▸ htt
      split
      · exact ⟨htt1, hpv, hi⟩
      · have ho := aspiration_sound T U fuel g d prev pv c1 hr htt1 hpv
        generalize aspiration fuel g d prev pv c1 = out at ho ⊢
        split
        · split
          · exact ⟨ho.1, ho.2, hi⟩
          · rename_i hne
            refine ih _ _ _ _ _ ho.1 ho.2 (fun i hi' => ?_)
            rw [List.mem_append] at hi'
            rcases hi' with h | h
            · exact hi i h
            · simp only [List.mem_singleton] at h
              subst h
              exact ⟨fun e => hne e, ho.2⟩
        · exact ⟨ho.1, ho.2, hi⟩
        · exact ⟨ho.1, ho.2, hi⟩

/-- **search_sound** -/
theorem search_sound (T : SliderTables) (U : Universe) (fuel : Nat) (g : Game) (tt : TT.Table) (history : Array Int)
    (depthLimit : Option Nat) (stopAt : Nat) (everyNode : Bool) (hr : U.R 0 g) (htt : TTGood U tt) :
    let out := search fuel g tt history depthLimit stopAt everyNode
    (∀ m, out.best = some m → m ∈ legalMoves (ofGame g)) ∧
    (∀ i ∈ out.infos, i.pv ≠ [] ∧ LegalLine g i.pv) ∧
    TTGood U out.ctx.tt := by
  intro out
  have hout : out = search fuel g tt history depthLimit stopAt everyNode := rfl
  unfold search at hout
  simp only at hout
  have hit := iter_sound T U fuel g (depthLimit.getD Gen.maxSearchDepth) hr 256 1 none [] []
    { tt := tt.newGeneration, history := historyDecay history, killers := newKillers, counter := newCounter,
      stopAt := stopAt, everyNode := everyNode }
    (ttGood_newGeneration U tt htt) trivial (fun i hi => by cases hi)
  generalize search.iter fuel g (depthLimit.getD Gen.maxSearchDepth) 1 256 none [] []
    { tt := tt.newGeneration, history := historyDecay history, killers := newKillers, counter := newCounter,
      stopAt := stopAt, everyNode := everyNode } = r at hit hout
  obtain ⟨pan, pv, infos, c⟩ := r
  obtain ⟨h1, h2, h3⟩ := hit
  simp only at h1 h2 h3 hout
  split at hout
  · rw [hout]; exact ⟨fun m hm => (by cases hm), h3, h1⟩
  · split at hout
    · rename_i m rest
      rw [hout]
      exact ⟨fun m' hm => (by cases hm; exact h2.1), h3, h1⟩
    · split at hout
      · rw [hout]; exact ⟨fun m hm => (by cases hm), h3, h1⟩
      · rename_i nm hnm
        obtain ⟨hEnv, hmem⟩ := nodeMoves_spec T g (U.inv 0 g hr) nm hnm
        split at hout
        · rename_i m st' hnext
          rw [hout]
          refine ⟨fun m' hm => ?_, h3, h1⟩
          cases hm
          have := ploop_step nm _ st' (pickerEnv g nm c 0) m rfl rfl (hEnv c 0)
            (ploop_new nm none (fun h hh => by cases hh)) hnext
          exact (hmem m).1 this.1
        · rw [hout]; exact ⟨fun m hm => (by cases hm), h3, h1⟩


/-! ### the canonical universe of a root position, shifting, chaining -/

/-- positions reachable from `root` in exactly `n` plies of legal moves and of null moves out of check -/
inductive ReachN (root : Game) : Nat → Game → Prop
  | root : ReachN root 0 root
  | move (n : Nat) (g g' : Game) (m : Move) : ReachN root n g → m ∈ legalMoves (ofGame g) →
      makeMove theCfg g m = some g' → ReachN root (n + 1) g'
  | null (n : Nat) (g : Game) : ReachN root n g → inCheck g.board.squares g.player = false →
      ReachN root (n + 1) (makeNull theCfg g)

theorem reachN_sinv (root : Game) (h : SInv root) : ∀ n g, ReachN root n g → SInv g := by
  intro n g hr
  induction hr with
  | root => exact h
  | move n g g' m _ hl hm ih => exact (sinv_make g g' m ih hl hm).1
  | null n g _ hc ih => exact sinv_null g ih hc

/-- the 64-bit key does not confuse two positions reachable from `root` that have different legal moves -/
def KeyFaithful (root : Game) : Prop :=
  ∀ n1 n2 g1 g2, ReachN root n1 g1 → ReachN root n2 g2 → g1.zobrist = g2.zobrist →
    ∀ m, m ∈ legalMoves (ofGame g1) ↔ m ∈ legalMoves (ofGame g2)

def Universe.ofRoot (root : Game) (h : SInv root) (hk : KeyFaithful root) : Universe where
  R := ReachN root
  inv := reachN_sinv root h
  step := fun n g m g' hr hl hm => ReachN.move n g g' m hr hl hm
  null := fun n g hr hc => ReachN.null n g hr hc
  inj := hk

/-- the universe seen from a position `k` plies below its root -/
def Universe.shift (U : Universe) (k : Nat) : Universe where
  R := fun n g => U.R (k + n) g
  inv := fun n g h => U.inv _ g h
  step := fun n g m g' hr hl hm => U.step (k + n) g m g' hr hl hm
  null := fun n g hr hc => U.null (k + n) g hr hc
  inj := fun n1 n2 g1 g2 h1 h2 => U.inj _ _ g1 g2 h1 h2

theorem ttGood_shift (U : Universe) (k k' : Nat) (hk : k ≤ k') (tt : TT.Table) (h : TTGood (U.shift k) tt) :
    TTGood (U.shift k') tt := by
  intro n g d m hr hg hb
  refine h (k' - k + n) g d m ?_ hg hb
  show U.R (k + (k' - k + n)) g
  have : k + (k' - k + n) = k' + n := by omega
  rw [this]; exact hr

/-! ### the sequence of reported depths -/

/-- reported depths: consecutive from the depth the loop starts at, never above the limit -/
theorem iter_depths (fuel : Nat) (g : Game) (maxDepth : Nat) :
    ∀ n d prev pv infos c, ∃ extra : List Info,
      (search.iter fuel g maxDepth d n prev pv infos c).2.2.1 = infos ++ extra ∧
      extra.map (·.depth) = List.range' d extra.length ∧ (extra ≠ [] → d + extra.length ≤ maxDepth + 1) := by
  intro n
  induction n with
  | zero => intro d prev pv infos c; rw [search.iter.eq_def]; exact ⟨[], by simp, by simp, by simp⟩
  | succ k ih =>
    intro d prev pv infos c
    rw [search.iter.eq_def]
    simp only
    split
    · exact ⟨[], by simp, by simp, by simp⟩
    · rename_i hd
      generalize shouldStartNewSearch c d = sn
      obtain ⟨c1, go⟩ := sn
      simp only
      split
      · exact ⟨[], by simp, by simp, by simp⟩
      · generalize aspiration fuel g d prev pv c1 = out
        split
        · split
          · exact ⟨[], by simp, by simp, by simp⟩
          · rename_i e _ _ _
            obtain ⟨extra, h1, h2, h3⟩ := ih (d + 1) (some e) out.pv
              (infos ++ [⟨d, out.ctx.seldepth, e, out.ctx.nodes, out.ctx.tt.hashfullExact, out.pv⟩]) out.ctx
            refine ⟨⟨d, out.ctx.seldepth, e, out.ctx.nodes, out.ctx.tt.hashfullExact, out.pv⟩ :: extra, ?_, ?_, ?_⟩
            · rw [h1]; simp
            · simp only [List.map_cons, List.length_cons, List.range'_succ]
              rw [h2]
            · intro _
              by_cases he : extra = []
              · subst he; simp only [List.length_cons, List.length_nil]; omega
              · have := h3 he
                simp only [List.length_cons]; omega
        · exact ⟨[], by simp, by simp, by simp⟩
        · exact ⟨[], by simp, by simp, by simp⟩

theorem search_depths (fuel : Nat) (g : Game) (tt : TT.Table) (history : Array Int)
    (depthLimit : Option Nat) (stopAt : Nat) (everyNode : Bool) :
    let out := search fuel g tt history depthLimit stopAt everyNode
    out.infos.map (·.depth) = List.range' 1 out.infos.length ∧
    out.infos.length ≤ depthLimit.getD Gen.maxSearchDepth := by
  intro out
  have hout : out = search fuel g tt history depthLimit stopAt everyNode := rfl
  unfold search at hout
  simp only at hout
  obtain ⟨extra, h1, h2, h3⟩ := iter_depths fuel g (depthLimit.getD Gen.maxSearchDepth) 256 1 none [] []
    { tt := tt.newGeneration, history := historyDecay history, killers := newKillers, counter := newCounter,
      stopAt := stopAt, everyNode := everyNode }
  generalize search.iter fuel g (depthLimit.getD Gen.maxSearchDepth) 1 256 none [] []
    { tt := tt.newGeneration, history := historyDecay history, killers := newKillers, counter := newCounter,
      stopAt := stopAt, everyNode := everyNode } = r at h1 hout
  obtain ⟨pan, pv, infos, c⟩ := r
  simp only [List.nil_append] at h1
  subst h1
  have hinf : out.infos = infos := by
    rw [hout]
    repeat' split
    all_goals rfl
  rw [hinf]
  refine ⟨h2, ?_⟩
  by_cases he : infos = []
  · subst he; simp
  · have := h3 he; omega


end Search
end Tcheran
