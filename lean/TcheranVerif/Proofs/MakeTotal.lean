import TcheranVerif.Proofs.LegalMoveFacts
import TcheranVerif.Proofs.LegalPos
/-!
# `make_move` answers for every legal move (C02)
-/

namespace Tcheran
open Board Game Rules

theorem removeAt_some (c : Cfg) (g : Game) (s : Sq) (pc : Piece) (h : g.board.pieceAt s = some pc) :
    ∃ g', Game.removeAt c g s = some (g', pc) ∧ g'.board = g.board.removeAt s ∧ g'.player = g.player := by
  unfold Game.removeAt
  rw [h]
  exact ⟨_, rfl, rfl, rfl⟩

/-- what `make_move` needs in order to answer -/
structure MakeOk (g : Game) (mv : Move) : Prop where
  src : ∃ M, g.board.pieceAt mv.src = some M
  ne : mv.src ≠ mv.dst
  ep : mv.isEnPassant = true → ∃ v X, mv.dst.backward g.player = some v ∧ g.board.pieceAt v = some X ∧
    v ≠ mv.src ∧ v ≠ mv.dst
  dbl : mem (pawnBackRank g.player) mv.src = true → ∃ t, mv.src.forward g.player = some t
  castle : mv.isCastling = true → ∀ rf rt, castleSquares g.player mv.dst = some (rf, rt) →
    ∃ R, g.board.pieceAt rf = some R ∧ rf ≠ mv.src ∧ rf ≠ mv.dst

theorem make_total (c : Cfg) (g : Game) (mv : Move) (h : MakeOk g mv) : ∃ g', makeMove c g mv = some g' := by
  obtain ⟨M, hM⟩ := h.src
  -- part 1
  have h1 : ∃ g1, mmPieces c g mv = some (g1, M, g.board.pieceAt mv.dst) ∧ g1.player = g.player ∧
      (∀ x, x ≠ mv.src → x ≠ mv.dst →
        (mv.isEnPassant = true → mv.dst.backward g.player ≠ some x) → g1.board.pieceAt x = g.board.pieceAt x) := by
    unfold mmPieces
    simp only [bind, pure]
    obtain ⟨ga, hga, hgab, hgap⟩ := removeAt_some c { g with history := _ :: g.history } mv.src M hM
    rw [hga]
    simp only [Option.bind_some]
    -- captured man
    have hstep2 : ∃ gb, (if (g.board.pieceAt mv.dst).isSome then (Game.removeAt c ga mv.dst).map (·.1) else some ga) = some gb ∧
        gb.player = g.player ∧ ∀ x, x ≠ mv.src → x ≠ mv.dst → gb.board.pieceAt x = g.board.pieceAt x := by
      cases hcap : g.board.pieceAt mv.dst with
      | none =>
        refine ⟨ga, by simp, hgap, fun x hx _ => ?_⟩
        rw [hgab, pieceAt_removeAt, if_neg hx]
      | some cp =>
        have : ga.board.pieceAt mv.dst = some cp := by
          rw [hgab, pieceAt_removeAt, if_neg (Ne.symm h.ne)]; exact hcap
        obtain ⟨gb, hgb, hgbb, hgbp⟩ := removeAt_some c ga mv.dst cp this
        refine ⟨gb, by simp [hgb], hgbp.trans hgap, fun x hx hx2 => ?_⟩
        rw [hgbb, pieceAt_removeAt, if_neg hx2, hgab, pieceAt_removeAt, if_neg hx]
    obtain ⟨gb, hgb, hgbp, hgbo⟩ := hstep2
    rw [hgb]
    simp only [Option.bind_some]
    by_cases he : mv.isEnPassant = true
    · obtain ⟨v, X, hv, hX, hv1, hv2⟩ := h.ep he
      rw [if_pos he]
      have hpl : (Game.setAt c gb mv.dst (Game.placedPiece mv gb.player M)).player = g.player := hgbp
      rw [hpl, hv]
      simp only [Option.bind_some]
      have hXv : (Game.setAt c gb mv.dst (Game.placedPiece mv gb.player M)).board.pieceAt v = some X := by
        show (gb.board.setAt mv.dst _).pieceAt v = some X
        rw [pieceAt_setAt, if_neg hv2, hgbo v hv1 hv2]; exact hX
      obtain ⟨gc, hgc, hgcb, hgcp⟩ := removeAt_some c _ v X hXv
      rw [hgc]
      refine ⟨gc, rfl, hgcp.trans hpl, fun x hx hx2 hx3 => ?_⟩
      have hxv : x ≠ v := fun e => hx3 he (by rw [e])
      rw [hgcb, pieceAt_removeAt, if_neg hxv]
      show (gb.board.setAt mv.dst _).pieceAt x = _
      rw [pieceAt_setAt, if_neg hx2, hgbo x hx hx2]
    · rw [if_neg he]
      refine ⟨_, rfl, hgbp, fun x hx hx2 _ => ?_⟩
      show (gb.board.setAt mv.dst _).pieceAt x = _
      rw [pieceAt_setAt, if_neg hx2, hgbo x hx hx2]
  obtain ⟨g1, hg1, hg1p, hg1o⟩ := h1
  -- part 2
  have h2 : ∃ ne, mmNewEp g1 mv M = some ne := by
    unfold mmNewEp
    simp only
    split
    · rename_i hc
      split
      · rw [hg1p] at hc ⊢
        obtain ⟨t, ht⟩ := h.dbl hc.2.1
        rw [ht]; exact ⟨_, rfl⟩
      · exact ⟨_, rfl⟩
    · exact ⟨_, rfl⟩
  obtain ⟨ne, hne⟩ := h2
  -- part 3
  have h3 : ∃ g3, mmCastle c (mmSetEp c g1 ne) mv = some g3 := by
    unfold mmCastle
    by_cases hcs : mv.isCastling = true
    · rw [if_pos hcs]
      have hpl : (mmSetEp c g1 ne).player = g.player := hg1p
      rw [hpl]
      cases hsq : castleSquares g.player mv.dst with
      | none => exact ⟨_, rfl⟩
      | some rr =>
        obtain ⟨rf, rt⟩ := rr
        obtain ⟨R, hR, hn1, hn2⟩ := h.castle hcs rf rt hsq
        have he : mv.isEnPassant = false := by
          have : mv.flag = .castle := by simpa [Move.isCastling] using hcs
          simp [Move.isEnPassant, this]
        have : (mmSetEp c g1 ne).board.pieceAt rf = some R := by
          show g1.board.pieceAt rf = some R
          rw [hg1o rf hn1 hn2 (fun e => by rw [he] at e; cases e)]; exact hR
        obtain ⟨gd, hgd, _, _⟩ := removeAt_some c _ rf R this
        simp only [bind]
        rw [hgd]
        exact ⟨_, rfl⟩
    · rw [if_neg hcs]; exact ⟨_, rfl⟩
  obtain ⟨g3, hg3⟩ := h3
  refine ⟨mmFinish c (mmRights c g3 mv M (g.board.pieceAt mv.dst)) M (g.board.pieceAt mv.dst), ?_⟩
  unfold makeMove
  simp only [bind]
  rw [hg1]
  simp only [Option.bind_some]
  rw [hne]
  simp only [Option.bind_some]
  rw [hg3]
  rfl

end Tcheran

namespace Tcheran
open Board Game Rules

theorem ne_of_mem_ray {dir : Dir} {s t : Sq} (h : t ∈ ray dir s) : s ≠ t := by
  intro e
  subst e
  exact self_not_mem_ray dir (dir_mem_all dir) s h

/-- source and destination of a pseudo-legal move of a man differ -/
theorem piece_move_ne (pos : Pos) (s : Sq) (pc : Piece) (m : Move) (hm : m ∈ pieceMoves pos s pc) :
    m.src ≠ m.dst := by
  have hstepK : m ∈ stepMoves pos.board pos.player s kingDeltas → m.src ≠ m.dst := by
    intro h
    obtain ⟨d, hd, t, ho, h⟩ := (mem_stepMoves _ _ _ _ _).1 h
    have : s ≠ t := fun e => king_offset_ne s d hd (e ▸ ho)
    rcases h with ⟨_, e⟩ | ⟨_, _, _, e⟩ <;> rw [e] <;> exact this
  have hstepN : m ∈ stepMoves pos.board pos.player s knightDeltas → m.src ≠ m.dst := by
    intro h
    obtain ⟨d, hd, t, ho, h⟩ := (mem_stepMoves _ _ _ _ _).1 h
    have : s ≠ t := fun e => knight_offset_ne s d hd (e ▸ ho)
    rcases h with ⟨_, e⟩ | ⟨_, _, _, e⟩ <;> rw [e] <;> exact this
  have hslide : ∀ dir, m ∈ slideMoves pos.board pos.player s (ray dir s) → m.src ≠ m.dst := by
    intro dir h
    obtain ⟨t, ht, h⟩ := (mem_slideMoves _ _ _ _ _).1 h
    have : s ≠ t := ne_of_mem_ray (seen_sublist _ _ t ht)
    rcases h with ⟨_, e⟩ | ⟨_, _, _, e⟩ <;> rw [e] <;> exact this
  unfold pieceMoves at hm
  obtain ⟨kk, pl⟩ := pc
  cases kk <;> simp only at hm
  · have hpl := Geo.mem_players pos.player
    have hfwd : ∀ t, offset s 0 (fwd pos.player) = some t → s ≠ t := by
      intro t ho
      have hf : s.forward pos.player = some t := by rw [← (Geo.offset_forward s pos.player hpl).1]; exact ho
      have hr := Geo.forward_ray s pos.player hpl
      rw [hf] at hr
      simp only [Bool.and_eq_true] at hr
      exact ne_of_mem_ray (contains_mem hr.1)
    have hcap : ∀ df ∈ ([-1, 1] : List Int), ∀ t, offset s df (fwd pos.player) = some t → s ≠ t := by
      intro df hdf t ho
      have hr := Geo.capture_ray s pos.player hpl df hdf
      rw [ho] at hr
      simp only [Bool.and_eq_true, List.any_eq_true] at hr
      obtain ⟨⟨dir, _, hcon⟩, _⟩ := hr
      exact ne_of_mem_ray (contains_mem hcon)
    rcases (mem_pawnMoves pos s m).1 hm with ⟨t1, ho, _, h⟩ | ⟨df, hdf, t, ho, h⟩
    · rcases h with ⟨_, pr, _, e⟩ | ⟨_, e⟩ | ⟨_, t2, ho2, _, e⟩
      · rw [e, qp_src, qp_dst]; exact hfwd t1 ho
      · rw [e]; exact hfwd t1 ho
      · rw [e]
        show s ≠ t2
        have hoo := Geo.offset_forward s pos.player hpl
        have e1 : s.forward pos.player = some t1 := by rw [← hoo.1]; exact ho
        have e2 : t1.forward pos.player = some t2 := by
          have := hoo.2
          rw [ho2, e1] at this
          exact this.symm
        have hr := Geo.double_ray s pos.player hpl
        rw [e1] at hr
        simp only at hr
        rw [e2] at hr
        simp only [Bool.and_eq_true] at hr
        exact ne_of_mem_ray (contains_mem hr.1)
    · rcases h with ⟨pc', _, _, ⟨_, pr, _, e⟩ | ⟨_, e⟩⟩ | ⟨_, _, e⟩
      · rw [e, cp_src, cp_dst]; exact hcap df hdf t ho
      · rw [e]; exact hcap df hdf t ho
      · rw [e]; exact hcap df hdf t ho
  · exact hstepN hm
  · obtain ⟨dir, _, h⟩ := List.mem_flatMap.1 hm; exact hslide dir h
  · obtain ⟨dir, _, h⟩ := List.mem_flatMap.1 hm; exact hslide dir h
  · obtain ⟨dir, _, h⟩ := List.mem_flatMap.1 hm; exact hslide dir h
  · exact hstepK hm

/-- an e.p.-flagged move of the rules captures on the e.p. target -/
theorem ep_flag_move (pos : Pos) (s : Sq) (pc : Piece) (m : Move) (hm : m ∈ pieceMoves pos s pc)
    (he : m.isEnPassant = true) :
    ∃ df ∈ ([-1, 1] : List Int), offset s df (fwd pos.player) = some m.dst ∧ pos.ep = some m.dst ∧ m.src = s := by
  have hq : ∀ a b : Sq, (Move.quiet a b).isEnPassant = false := fun _ _ => rfl
  have hc : ∀ a b : Sq, (Move.capture a b).isEnPassant = false := fun _ _ => rfl
  have hstep : ∀ deltas, m ∈ stepMoves pos.board pos.player s deltas → False := by
    intro deltas h
    obtain ⟨d, _, t, _, h⟩ := (mem_stepMoves _ _ _ _ _).1 h
    rcases h with ⟨_, e⟩ | ⟨_, _, _, e⟩ <;> rw [e] at he <;> cases he
  have hslide : ∀ R, m ∈ slideMoves pos.board pos.player s R → False := by
    intro R h
    obtain ⟨t, _, h⟩ := (mem_slideMoves _ _ _ _ _).1 h
    rcases h with ⟨_, e⟩ | ⟨_, _, _, e⟩ <;> rw [e] at he <;> cases he
  unfold pieceMoves at hm
  obtain ⟨kk, pl⟩ := pc
  cases kk <;> simp only at hm
  · rcases (mem_pawnMoves pos s m).1 hm with ⟨t1, _, _, h⟩ | ⟨df, hdf, t, ho, h⟩
    · rcases h with ⟨_, pr, _, e⟩ | ⟨_, e⟩ | ⟨_, t2, _, _, e⟩
      · rw [e] at he; cases pr <;> cases he
      · rw [e] at he; cases he
      · rw [e] at he; cases he
    · rcases h with ⟨pc', _, _, ⟨_, pr, _, e⟩ | ⟨_, e⟩⟩ | ⟨_, hep, e⟩
      · rw [e] at he; cases pr <;> cases he
      · rw [e] at he; cases he
      · rw [e]; exact ⟨df, hdf, ho, hep, rfl⟩
  · exact (hstep _ hm).elim
  · obtain ⟨dir, _, h⟩ := List.mem_flatMap.1 hm; exact (hslide _ h).elim
  · obtain ⟨dir, _, h⟩ := List.mem_flatMap.1 hm; exact (hslide _ h).elim
  · obtain ⟨dir, _, h⟩ := List.mem_flatMap.1 hm; exact (hslide _ h).elim
  · exact (hstep _ hm).elim

theorem home_forward (s : Sq) (p : Player) (h : mem (pawnBackRank p) s = true) : ∃ t, s.forward p = some t := by
  rw [pawnHome_eq, Geo.start_rank s p (Geo.mem_players p), decide_eq_true_eq] at h
  have := Geo.double_some s p (Geo.mem_players p) h
  cases hf : s.forward p with
  | none => rw [hf] at this; cases this
  | some t => exact ⟨t, rfl⟩

/-- every legal move of a position meeting `PosH` lets `make_move` answer -/
theorem makeOk_of_legal (g : Game) (k : Sq) (h : PosH g k) (mv : Move) (hl : mv ∈ legalMoves (ofGame g)) :
    MakeOk g mv := by
  obtain ⟨hps, _⟩ := (mem_legalMoves_iff (ofGame g) mv).1 hl
  rcases hps with ⟨s, pc, ha, hp, hm⟩ | hcs
  · obtain ⟨hsrc, hnc⟩ := piece_move_src (ofGame g) s pc mv ha hm
    refine ⟨⟨pc, by rw [hsrc]; exact ha⟩, piece_move_ne (ofGame g) s pc mv hm, ?_, fun hh => home_forward _ _ hh, ?_⟩
    · intro he
      obtain ⟨df, hdf, ho, hep, _⟩ := ep_flag_move (ofGame g) s pc mv hm he
      obtain ⟨_, v, hv, hvp⟩ := h.ep mv.dst hep
      have hsq := Geo.ep_squares s g.player (Geo.mem_players' _) df hdf
      have ho' : offset s df (fwd g.player) = some mv.dst := ho
      rw [ho'] at hsq
      simp only at hsq
      rw [hv] at hsq
      simp only [decide_eq_true_eq] at hsq
      refine ⟨v, _, by rw [Geo.backward_offset mv.dst g.player (Geo.mem_players' _)]; exact hv, hvp, ?_, hsq.1⟩
      rw [hsrc]; exact hsq.2.1
    · intro hc; rw [hnc] at hc; cases hc
  · obtain ⟨hcst, hk, rf, rt, hsq, hrook, hn1, hn2⟩ := castle_move_facts (ofGame g) mv hcs
    refine ⟨⟨_, hk⟩, ?_, ?_, fun hh => home_forward _ _ hh, ?_⟩
    · -- king start and target differ
      have hsq' : castleSquares g.player mv.dst = some (rf, rt) := hsq
      rw [castleMoves_eq] at hcs
      cases hp : g.player with
      | white =>
        have hp' : (ofGame g).player = .white := hp
        rw [hp'] at hcs
        simp only [List.mem_append] at hcs
        rcases hcs with c | c <;> (obtain ⟨e, _, _⟩ := castleMk_facts _ _ _ _ _ _ _ _ _ c; rw [e]; decide)
      | black =>
        have hp' : (ofGame g).player = .black := hp
        rw [hp'] at hcs
        simp only [List.mem_append] at hcs
        rcases hcs with c | c <;> (obtain ⟨e, _, _⟩ := castleMk_facts _ _ _ _ _ _ _ _ _ c; rw [e]; decide)
    · intro he
      have : mv.flag = .castle := by simpa [Move.isCastling] using hcst
      simp [Move.isEnPassant, this] at he
    · intro _ rf' rt' hsq'
      have hsq0 : castleSquares g.player mv.dst = some (rf, rt) := hsq
      rw [hsq0] at hsq'
      have := Option.some.inj hsq'
      simp only [Prod.mk.injEq] at this
      obtain ⟨e1, _⟩ := this
      subst e1
      exact ⟨_, hrook, hn1, hn2⟩

/-- **make_move_legal_total**: in every position meeting `PosH`, for every legal move, `make_move`
answers with the position the rules prescribe -/
theorem make_move_legal_total (c : Cfg) (g : Game) (k : Sq) (h : PosH g k) (mv : Move)
    (hl : mv ∈ legalMoves (ofGame g)) :
    ∃ g', makeMove c g mv = some g' ∧ ofGame g' = Rules.apply (ofGame g) mv := by
  obtain ⟨g', hg'⟩ := make_total c g mv (makeOk_of_legal g k h mv hl)
  exact ⟨g', hg', make_refines_legal c g g' mv h.ctx.cons hl hg'⟩

end Tcheran
