import TcheranVerif.Proofs.RulesSplit
/-!
# The rules' pawn moves regrouped as the generator's seven pawn stages (C01)
-/

namespace Tcheran
open Board Geometry Rules

/-- right-hand sides of the stage specifications -/
def RPromoPush (sq : RBoard) (p : Player) (which : List Promo) (m : Move) : Prop :=
  ∃ s t1, at' sq s = some ⟨.pawn, p⟩ ∧ offset s 0 (fwd p) = some t1 ∧ at' sq t1 = none ∧ t1.rank = promoRank p ∧
    (∃ pr ∈ which, m = Move.quietPromotion s t1 pr) ∧ inCheck (applyBoard sq p m) p = false

def RSingle (sq : RBoard) (p : Player) (m : Move) : Prop :=
  ∃ s t1, at' sq s = some ⟨.pawn, p⟩ ∧ offset s 0 (fwd p) = some t1 ∧ at' sq t1 = none ∧ t1.rank ≠ promoRank p ∧
    m = Move.quiet s t1 ∧ inCheck (applyBoard sq p m) p = false

def RDouble (sq : RBoard) (p : Player) (m : Move) : Prop :=
  ∃ s t1 t2, at' sq s = some ⟨.pawn, p⟩ ∧ offset s 0 (fwd p) = some t1 ∧ at' sq t1 = none ∧
    s.rank = startRank p ∧ offset s 0 (2 * fwd p) = some t2 ∧ at' sq t2 = none ∧ m = Move.quiet s t2 ∧
    inCheck (applyBoard sq p m) p = false

def RPromoCap (sq : RBoard) (p : Player) (m : Move) : Prop :=
  ∃ s df t, at' sq s = some ⟨.pawn, p⟩ ∧ df ∈ ([-1, 1] : List Int) ∧ offset s df (fwd p) = some t ∧
    (∃ pc, at' sq t = some pc ∧ pc.player ≠ p) ∧ t.rank = promoRank p ∧
    (∃ pr ∈ allPromos, m = Move.capturePromotion s t pr) ∧ inCheck (applyBoard sq p m) p = false

def RPlainCap (sq : RBoard) (p : Player) (m : Move) : Prop :=
  ∃ s df t, at' sq s = some ⟨.pawn, p⟩ ∧ df ∈ ([-1, 1] : List Int) ∧ offset s df (fwd p) = some t ∧
    (∃ pc, at' sq t = some pc ∧ pc.player ≠ p) ∧ t.rank ≠ promoRank p ∧ m = Move.capture s t ∧
    inCheck (applyBoard sq p m) p = false

def REp (sq : RBoard) (p : Player) (ep : Option Sq) (m : Move) : Prop :=
  ∃ s df t, at' sq s = some ⟨.pawn, p⟩ ∧ df ∈ ([-1, 1] : List Int) ∧ offset s df (fwd p) = some t ∧
    at' sq t = none ∧ ep = some t ∧ m = Move.enPassant s t ∧ inCheck (applyBoard sq p m) p = false

theorem promo_split (pr : Promo) : pr ∈ allPromos ↔ (pr ∈ [Promo.queen] ∨ pr ∈ Gen.promoOrderQuietUnder) := by
  cases pr <;> simp [allPromos, Gen.promoOrderQuietUnder]

theorem pawn_class (pos : Pos) (m : Move) :
    ((∃ s, at' pos.board s = some ⟨.pawn, pos.player⟩ ∧ m ∈ pawnMoves pos s) ∧
        inCheck (applyBoard pos.board pos.player m) pos.player = false) ↔
      (RPromoCap pos.board pos.player m ∨ RPromoPush pos.board pos.player [.queen] m ∨
       RPlainCap pos.board pos.player m ∨ REp pos.board pos.player pos.ep m ∨
       RPromoPush pos.board pos.player Gen.promoOrderQuietUnder m ∨ RSingle pos.board pos.player m ∨
       RDouble pos.board pos.player m) := by
  constructor
  · rintro ⟨⟨s, hs, hm⟩, hl⟩
    rcases (mem_pawnMoves pos s m).1 hm with ⟨t1, ho, he, h⟩ | ⟨df, hdf, t, ho, h⟩
    · rcases h with ⟨hr, pr, hpr, e⟩ | ⟨hr, e⟩ | ⟨hsr, t2, ho2, he2, e⟩
      · rcases (promo_split pr).1 hpr with h1 | h1
        · exact Or.inr (Or.inl ⟨s, t1, hs, ho, he, hr, ⟨pr, h1, e⟩, hl⟩)
        · exact Or.inr (Or.inr (Or.inr (Or.inr (Or.inl ⟨s, t1, hs, ho, he, hr, ⟨pr, h1, e⟩, hl⟩))))
      · exact Or.inr (Or.inr (Or.inr (Or.inr (Or.inr (Or.inl ⟨s, t1, hs, ho, he, hr, e, hl⟩)))))
      · exact Or.inr (Or.inr (Or.inr (Or.inr (Or.inr (Or.inr ⟨s, t1, t2, hs, ho, he, hsr, ho2, he2, e, hl⟩)))))
    · rcases h with ⟨pc, ha, hp, ⟨hr, pr, hpr, e⟩ | ⟨hr, e⟩⟩ | ⟨ha, hep, e⟩
      · exact Or.inl ⟨s, df, t, hs, hdf, ho, ⟨pc, ha, hp⟩, hr, ⟨pr, hpr, e⟩, hl⟩
      · exact Or.inr (Or.inr (Or.inl ⟨s, df, t, hs, hdf, ho, ⟨pc, ha, hp⟩, hr, e, hl⟩))
      · exact Or.inr (Or.inr (Or.inr (Or.inl ⟨s, df, t, hs, hdf, ho, ha, hep, e, hl⟩)))
  · rintro (⟨s, df, t, hs, hdf, ho, ⟨pc, ha, hp⟩, hr, ⟨pr, hpr, e⟩, hl⟩ |
            ⟨s, t1, hs, ho, he, hr, ⟨pr, hpr, e⟩, hl⟩ |
            ⟨s, df, t, hs, hdf, ho, ⟨pc, ha, hp⟩, hr, e, hl⟩ |
            ⟨s, df, t, hs, hdf, ho, ha, hep, e, hl⟩ |
            ⟨s, t1, hs, ho, he, hr, ⟨pr, hpr, e⟩, hl⟩ |
            ⟨s, t1, hs, ho, he, hr, e, hl⟩ |
            ⟨s, t1, t2, hs, ho, he, hsr, ho2, he2, e, hl⟩)
    · exact ⟨⟨s, hs, (mem_pawnMoves pos s m).2 (Or.inr ⟨df, hdf, t, ho, Or.inl ⟨pc, ha, hp, Or.inl ⟨hr, pr, hpr, e⟩⟩⟩)⟩, hl⟩
    · exact ⟨⟨s, hs, (mem_pawnMoves pos s m).2 (Or.inl ⟨t1, ho, he, Or.inl ⟨hr, pr,
        (promo_split pr).2 (Or.inl hpr), e⟩⟩)⟩, hl⟩
    · exact ⟨⟨s, hs, (mem_pawnMoves pos s m).2 (Or.inr ⟨df, hdf, t, ho, Or.inl ⟨pc, ha, hp, Or.inr ⟨hr, e⟩⟩⟩)⟩, hl⟩
    · exact ⟨⟨s, hs, (mem_pawnMoves pos s m).2 (Or.inr ⟨df, hdf, t, ho, Or.inr ⟨ha, hep, e⟩⟩)⟩, hl⟩
    · exact ⟨⟨s, hs, (mem_pawnMoves pos s m).2 (Or.inl ⟨t1, ho, he, Or.inl ⟨hr, pr,
        (promo_split pr).2 (Or.inr hpr), e⟩⟩)⟩, hl⟩
    · exact ⟨⟨s, hs, (mem_pawnMoves pos s m).2 (Or.inl ⟨t1, ho, he, Or.inr (Or.inl ⟨hr, e⟩)⟩)⟩, hl⟩
    · exact ⟨⟨s, hs, (mem_pawnMoves pos s m).2 (Or.inl ⟨t1, ho, he, Or.inr (Or.inr ⟨hsr, t2, ho2, he2, e⟩)⟩)⟩, hl⟩

end Tcheran
