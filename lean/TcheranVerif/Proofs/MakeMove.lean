import TcheranVerif.Proofs.Game
/-!
# `make_move` / `make_null_move` preserve `Sync`; what `make_move` does to the mailbox
-/

namespace Tcheran
open Board Game

/-- fields that a `Game.removeAt` / `Game.setAt` leave alone -/
theorem removeAt_fields (c : Cfg) (g g' : Game) (s : Sq) (pc : Piece) (hr : Game.removeAt c g s = some (g', pc)) :
    g'.player = g.player ∧ g'.rights = g.rights ∧ g'.ep = g.ep ∧ g'.halfmove = g.halfmove ∧
    g'.plies = g.plies ∧ g'.history = g.history ∧ g'.board = g.board.removeAt s ∧
    g.board.pieceAt s = some pc := by
  obtain ⟨hp, e⟩ := removeAt_spec c g g' s pc hr
  subst e
  exact ⟨rfl, rfl, rfl, rfl, rfl, rfl, rfl, hp⟩

theorem setAt_fields (c : Cfg) (g : Game) (s : Sq) (pc : Piece) :
    (Game.setAt c g s pc).player = g.player ∧ (Game.setAt c g s pc).rights = g.rights ∧
    (Game.setAt c g s pc).ep = g.ep ∧ (Game.setAt c g s pc).halfmove = g.halfmove ∧
    (Game.setAt c g s pc).plies = g.plies ∧ (Game.setAt c g s pc).history = g.history ∧
    (Game.setAt c g s pc).board = g.board.setAt s pc := ⟨rfl, rfl, rfl, rfl, rfl, rfl, rfl⟩

/-- everything `mmPieces` establishes -/
structure PiecesSpec (c : Cfg) (g : Game) (mv : Move) (g1 : Game) (moved : Piece) (cap : Option Piece) : Prop where
  sync : Sync c g → Sync c g1
  cons : g.board.Consistent → g1.board.Consistent
  player : g1.player = g.player
  rights : g1.rights = g.rights
  ep : g1.ep = g.ep
  halfmove : g1.halfmove = g.halfmove
  plies : g1.plies = g.plies
  history : g1.history =
    { mv := some mv, captured := cap, rights := g.rights, ep := g.ep, halfmove := g.halfmove,
      zobrist := g.zobrist, inc := g.inc } :: g.history
  cap_eq : cap = g.board.pieceAt mv.dst
  moved_eq : g.board.pieceAt mv.src = some moved
  src_ne_dst : mv.src ≠ mv.dst
  /-- the mailbox after the piece shuffling -/
  mailbox : ∀ t, g1.board.pieceAt t =
    if mv.isEnPassant = true ∧ mv.dst.backward g.player = some t then none
    else if t = mv.dst then some (placedPiece mv g.player moved)
    else if t = mv.src then none
    else g.board.pieceAt t

theorem mmPieces_spec (c : Cfg) (g : Game) (mv : Move) (g1 : Game) (moved : Piece) (cap : Option Piece)
    (hr : mmPieces c g mv = some (g1, moved, cap)) : PiecesSpec c g mv g1 moved cap := by
  unfold mmPieces at hr
  simp only [bind, Option.bind_eq_some_iff, pure] at hr
  obtain ⟨⟨ga, mvd⟩, hA, hr⟩ := hr
  obtain ⟨gb, hB, hr⟩ := hr
  obtain ⟨gd, hD, hr⟩ := hr
  simp only [Option.some.injEq, Prod.mk.injEq] at hr
  obtain ⟨e1, e2, e3⟩ := hr
  subst e1 e2 e3
  -- stage A: history pushed, mover lifted
  have fa := removeAt_fields c _ ga mv.src mvd hA
  simp only at fa
  obtain ⟨pa, ra, epa, hma, pla, hia, ba, mva⟩ := fa
  have hsrc : g.board.pieceAt mv.src = some mvd := mva
  -- stage B: captured man removed
  have hbspec : gb.player = g.player ∧ gb.rights = g.rights ∧ gb.ep = g.ep ∧ gb.halfmove = g.halfmove ∧
      gb.plies = g.plies ∧ gb.history = ga.history ∧
      gb.board = (if (g.board.pieceAt mv.dst).isSome then ga.board.removeAt mv.dst else ga.board) ∧
      ((g.board.pieceAt mv.dst).isSome → ∃ pc, ga.board.pieceAt mv.dst = some pc) := by
    split at hB
    · rename_i hc
      simp only [Option.map_eq_some_iff] at hB
      obtain ⟨⟨gb', pcb⟩, hB1, hB2⟩ := hB
      simp only at hB2
      subst hB2
      have fb := removeAt_fields c ga gb' mv.dst pcb hB1
      obtain ⟨pb, rb, epb, hmb, plb, hib, bb', mvb⟩ := fb
      refine ⟨pb.trans pa, rb.trans ra, epb.trans epa, hmb.trans hma, plb.trans pla, hib, ?_, fun _ => ⟨pcb, mvb⟩⟩
      rw [bb', if_pos hc]
    · rename_i hc
      cases hB
      refine ⟨pa, ra, epa, hma, pla, rfl, ?_, fun h => absurd h hc⟩
      rw [if_neg hc]
  obtain ⟨pb, rb, epb, hmb, plb, hib, bbd, capsome⟩ := hbspec
  -- src ≠ dst
  have hne : mv.src ≠ mv.dst := by
    intro e
    by_cases hc : (g.board.pieceAt mv.dst).isSome
    · obtain ⟨pc, hpc⟩ := capsome hc
      rw [ba, pieceAt_removeAt, ← e] at hpc
      simp at hpc
    · rw [← e, hsrc] at hc
      simp at hc
  -- dst is empty in gb
  have hdst : gb.board.pieceAt mv.dst = none := by
    rw [bbd]
    by_cases hc : (g.board.pieceAt mv.dst).isSome
    · rw [if_pos hc, pieceAt_removeAt]; simp
    · rw [if_neg hc, ba, pieceAt_removeAt]
      have : g.board.pieceAt mv.dst = none := by simpa using hc
      simp [this, Ne.symm hne]
  -- mailbox of gb
  have hgb : ∀ t, gb.board.pieceAt t = if t = mv.dst then none else if t = mv.src then none else g.board.pieceAt t := by
    intro t
    rw [bbd]
    by_cases hc : (g.board.pieceAt mv.dst).isSome
    · rw [if_pos hc, pieceAt_removeAt, ba, pieceAt_removeAt]
    · rw [if_neg hc, ba, pieceAt_removeAt]
      have : g.board.pieceAt mv.dst = none := by simpa using hc
      by_cases ht : t = mv.dst
      · subst ht; simp [this]
      · simp [ht]
  -- stage C: placed piece
  have fc := setAt_fields c gb mv.dst (placedPiece mv gb.player mvd)
  obtain ⟨pc', rc, epc, hmc, plc, hic, bc⟩ := fc
  have hplaced : placedPiece mv gb.player mvd = placedPiece mv g.player mvd := by rw [pb]
  -- stage D: en passant victim
  have hsyncC : Sync c g → Sync c (Game.setAt c gb mv.dst (placedPiece mv gb.player mvd)) := by
    intro h
    have sa := sync_removeAt c _ ga mv.src mvd (sync_history c g _ h) hA
    have sb : Sync c gb := by
      split at hB
      · simp only [Option.map_eq_some_iff] at hB
        obtain ⟨⟨gb', pcb⟩, hB1, hB2⟩ := hB
        simp only at hB2; subst hB2
        exact sync_removeAt c ga gb' mv.dst pcb sa hB1
      · cases hB; exact sa
    exact sync_setAt c gb mv.dst _ sb hdst
  have hconsC : g.board.Consistent → (Game.setAt c gb mv.dst (placedPiece mv gb.player mvd)).board.Consistent := by
    intro h
    have ca : ga.board.Consistent := by rw [ba]; exact consistent_removeAt _ _ h
    have cb : gb.board.Consistent := by
      rw [bbd]
      split
      · exact consistent_removeAt _ _ ca
      · exact ca
    rw [bc]
    exact consistent_setAt _ _ _ cb hdst
  split at hD
  · rename_i hep
    simp only [bind, Option.bind_eq_some_iff, Option.map_eq_some_iff] at hD
    obtain ⟨capSq, hcs, ⟨gd', pcd⟩, hD1, hD2⟩ := hD
    simp only at hD2
    subst hD2
    have fd := removeAt_fields c _ gd' capSq pcd hD1
    obtain ⟨pd, rd, epd, hmd, pld, hid, bd, mvd'⟩ := fd
    have hcs' : mv.dst.backward g.player = some capSq := by rw [← pb, ← pc']; exact hcs
    refine ⟨fun h => sync_removeAt c _ gd' capSq pcd (hsyncC h) hD1,
      fun h => by rw [bd]; exact consistent_removeAt _ _ (hconsC h), ?_, ?_, ?_, ?_, ?_, ?_, rfl, hsrc, hne, ?_⟩
    · rw [pd, pc', pb]
    · rw [rd, rc, rb]
    · rw [epd, epc, epb]
    · rw [hmd, hmc, hmb]
    · rw [pld, plc, plb]
    · rw [hid, hic, hib, hia]
    · intro t
      rw [bd, pieceAt_removeAt, bc, pieceAt_setAt, hgb, hplaced]
      by_cases ht : t = capSq
      · subst ht; simp [hep, hcs']
      · have : ¬ (mv.isEnPassant = true ∧ mv.dst.backward g.player = some t) := by
          rintro ⟨_, h2⟩
          rw [hcs'] at h2
          exact ht (Option.some.inj h2).symm
        simp only [ht, if_false, this]
        by_cases hd : t = mv.dst <;> simp [hd]
  · rename_i hep
    cases hD
    refine ⟨hsyncC, hconsC, ?_, ?_, ?_, ?_, ?_, ?_, rfl, hsrc, hne, ?_⟩
    · rw [pc', pb]
    · rw [rc, rb]
    · rw [epc, epb]
    · rw [hmc, hmb]
    · rw [plc, plb]
    · rw [hic, hib, hia]
    · intro t
      rw [bc, pieceAt_setAt, hgb, hplaced]
      have : ¬ (mv.isEnPassant = true ∧ mv.dst.backward g.player = some t) := fun h => hep h.1
      simp only [this, if_false]
      by_cases hd : t = mv.dst <;> simp [hd]

/-- the castling stage keeps `Sync` when the rook's destination is empty once the rook is lifted -/
theorem sync_mmCastle (c : Cfg) (g g' : Game) (mv : Move) (h : Sync c g)
    (hr : mmCastle c g mv = some g')
    (hrt : mv.isCastling = true → ∀ rf rt, castleSquares g.player mv.dst = some (rf, rt) →
        rt ≠ rf ∧ g.board.pieceAt rt = none) : Sync c g' := by
  unfold mmCastle at hr
  split at hr
  · rename_i hc
    split at hr
    · rename_i rf rt hcs
      simp only [bind, Option.bind_eq_some_iff] at hr
      obtain ⟨⟨g1, rook⟩, h1, h2⟩ := hr
      simp only [Option.some.injEq] at h2
      subst h2
      have s1 := sync_removeAt c g g1 rf rook h h1
      obtain ⟨_, _, _, _, _, _, hb, _⟩ := removeAt_fields c g g1 rf rook h1
      obtain ⟨hne, hemp⟩ := hrt hc rf rt hcs
      apply sync_setAt c g1 rt rook s1
      rw [hb, pieceAt_removeAt, hemp]
      simp
    · cases hr; exact h
  · cases hr; exact h

/-- **make_move keeps the key and the accumulators in sync** (C03, C15), for any key / parameter
    table, under the only side condition a legal castling move guarantees: the rook's destination
    square is empty -/
theorem sync_makeMove (c : Cfg) (g g' : Game) (mv : Move) (h : Sync c g) (hr : makeMove c g mv = some g')
    (hcastle : mv.isCastling = true → ∀ rf rt, castleSquares g.player mv.dst = some (rf, rt) →
        rt ≠ rf ∧ rt ≠ mv.dst ∧ rt ≠ mv.src ∧ g.board.pieceAt rt = none) : Sync c g' := by
  unfold makeMove at hr
  simp only [bind, Option.bind_eq_some_iff] at hr
  obtain ⟨⟨g1, moved, cap⟩, h1, newEp, h2, g3, h3, h4⟩ := hr
  simp only [Option.some.injEq] at h4
  subst h4
  have sp := mmPieces_spec c g mv g1 moved cap h1
  have s1 := sp.sync h
  have s2 := sync_mmSetEp c g1 newEp s1
  have s3 : Sync c g3 := by
    apply sync_mmCastle c _ g3 mv s2 h3
    intro hc rf rt hcs
    have hpl : (mmSetEp c g1 newEp).player = g.player := sp.player
    rw [hpl] at hcs
    obtain ⟨a, b, d, e⟩ := hcastle hc rf rt hcs
    refine ⟨a, ?_⟩
    show g1.board.pieceAt rt = none
    rw [sp.mailbox rt]
    have hnep : mv.isEnPassant = false := by
      unfold Move.isCastling at hc
      unfold Move.isEnPassant
      have : mv.flag = .castle := by simpa using hc
      rw [this]; rfl
    simp [hnep, b, d, e]
  exact sync_mmFinish c _ moved cap (sync_mmRights c g3 mv moved cap s3)

theorem sync_makeNull (c : Cfg) (g : Game) (h : Sync c g) : Sync c (makeNull c g) := by
  refine ⟨h.cons, ?_, h.inc⟩
  simp only [makeNull]
  rw [h.key]
  unfold fullHash
  rw [sideHash_other]
  have xx : ∀ x : BB, x ^^^ x = 0#64 := fun x => BitVec.xor_self
  have e : pieceHash c g.board ^^^ rightsHash c g.rights ^^^ c.zEpOpt g.ep ^^^ sideHash c g.player ^^^ c.zEpOpt g.ep
        ^^^ c.zEpOpt none ^^^ c.zSide
      = (c.zEpOpt g.ep ^^^ c.zEpOpt g.ep) ^^^ (pieceHash c g.board ^^^ rightsHash c g.rights ^^^ c.zEpOpt none
        ^^^ (sideHash c g.player ^^^ c.zSide)) := by ac_rfl
  rw [e, xx]
  simp

end Tcheran
