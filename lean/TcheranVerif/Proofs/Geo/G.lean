import TcheranVerif.Model.RayBase
/-!
# Finite geometry, part G — the double step
-/

namespace Tcheran
namespace Geo
open Rules

theorem double_step_ranks : ∀ s d : Sq, ∀ p ∈ [Player.white, Player.black],
    (mem (pawnHome p) s && mem (pawnDouble p) d) =
      (decide (s.rank = startRank p) && decide ((d.rank : Int) = s.rank + 2 * fwd p)) := by decide +kernel

end Geo
end Tcheran
