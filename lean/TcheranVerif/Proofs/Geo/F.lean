import TcheranVerif.Model.RayBase
/-!
# Finite geometry, part F — shape of a move (used to tell the generator's stages apart)
-/

namespace Tcheran
namespace Geo
open Rules

/-- source and destination differ in file and in rank -/
def diagMove (s d : Sq) : Bool := s.file != d.file && s.rank != d.rank

def rankDist (s d : Sq) : Nat := if s.rank ≤ d.rank then d.rank - s.rank else s.rank - d.rank

theorem ray_diag_shape : ∀ s : Sq, ∀ dir ∈ Dir.diagonal, ∀ d ∈ ray dir s, diagMove s d = true := by decide +kernel
theorem ray_card_shape : ∀ s : Sq, ∀ dir ∈ Dir.cardinal, ∀ d ∈ ray dir s, diagMove s d = false := by decide +kernel

theorem forward_dist : ∀ s : Sq, ∀ p ∈ [Player.white, Player.black],
    (match s.forward p with
     | some t => rankDist s t == 1 && (match t.forward p with | some u => rankDist s u == 2 | none => true)
     | none => true) = true := by decide +kernel

end Geo
end Tcheran
