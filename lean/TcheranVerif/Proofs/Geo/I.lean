import TcheranVerif.Model.RayBase
/-!
# Finite geometry, part I — only a double step changes the rank by two
-/

namespace Tcheran
namespace Geo
open Rules

theorem single_step_rank : ∀ s : Sq, ∀ p ∈ [Player.white, Player.black], ∀ df ∈ ([-1, 0, 1] : List Int),
    (match offset s df (fwd p) with
     | some t => decide ((t.rank : Int) ≠ s.rank + 2 * fwd p)
     | none => true) = true := by decide +kernel

end Geo
end Tcheran
