import TcheranVerif.Model.RayBase
/-!
# Finite geometry, part A — rays, offsets, squares between (decided by the kernel)

These files import nothing regenerated: they are proved once per checkout.
-/

namespace Tcheran
namespace Geo
open Rules

theorem ray_nodup : ∀ d ∈ Dir.all, ∀ s : Sq, (ray d s).Nodup := by decide +kernel
theorem self_not_mem_ray : ∀ d ∈ Dir.all, ∀ s : Sq, s ∉ ray d s := by decide +kernel
theorem ray_disjoint : ∀ s : Sq, ∀ d1 ∈ Dir.all, ∀ d2 ∈ Dir.all, d1 ≠ d2 → ∀ x ∈ ray d1 s, x ∉ ray d2 s := by
  decide +kernel
theorem knight_offset_ne : ∀ t : Sq, ∀ d ∈ knightDeltas, offset t d.1 d.2 ≠ some t := by decide +kernel
theorem king_offset_ne : ∀ t : Sq, ∀ d ∈ kingDeltas, offset t d.1 d.2 ≠ some t := by decide +kernel
theorem pawn_offset_ne : ∀ t : Sq, ∀ p ∈ [Player.white, Player.black], ∀ df ∈ ([-1, 1] : List Int),
    offset t df (-(fwd p)) ≠ some t := by decide +kernel

theorem cardinal_sub : ∀ d ∈ Dir.cardinal, d ∈ Dir.all := by decide
theorem diagonal_sub : ∀ d ∈ Dir.diagonal, d ∈ Dir.all := by decide
theorem dir_family : ∀ d ∈ Dir.all, (d ∈ Dir.cardinal ∧ d ∉ Dir.diagonal) ∨ (d ∈ Dir.diagonal ∧ d ∉ Dir.cardinal) := by
  decide

theorem betweenList_ray : ∀ k : Sq, ∀ dir ∈ Dir.all, ∀ q ∈ ray dir k,
    betweenList k q = (ray dir k).takeWhile (fun x => x != q) := by decide +kernel

theorem genBetween_list : ∀ k q : Sq,
    genBetween k q = (betweenList k q).foldl (fun a t => a ||| bb t) 0#64 := by decide +kernel

theorem genBetween_symm : ∀ a b : Sq, genBetween a b = genBetween b a := by decide +kernel

theorem betweenList_knight : ∀ k : Sq, ∀ δ ∈ knightDeltas,
    (match offset k δ.1 δ.2 with | some q => (betweenList k q).isEmpty | none => true) = true := by
  decide +kernel

theorem betweenList_king : ∀ k : Sq, ∀ δ ∈ kingDeltas,
    (match offset k δ.1 δ.2 with | some q => (betweenList k q).isEmpty | none => true) = true := by
  decide +kernel

theorem pawn_delta_king : ∀ p ∈ [Player.white, Player.black], ∀ df ∈ ([-1, 1] : List Int),
    (df, -(fwd p)) ∈ kingDeltas := by decide

end Geo
end Tcheran
