import TcheranVerif.Model.RayBase
/-!
# Finite geometry, part H — symmetry of the attack relations
-/

namespace Tcheran
namespace Geo
open Rules

theorem knight_symm : ∀ s : Sq, ∀ δ ∈ knightDeltas,
    (match offset s δ.1 δ.2 with
     | some t => knightDeltas.any fun δ' => offset t δ'.1 δ'.2 == some s
     | none => true) = true := by decide +kernel

theorem king_symm : ∀ s : Sq, ∀ δ ∈ kingDeltas,
    (match offset s δ.1 δ.2 with
     | some t => kingDeltas.any fun δ' => offset t δ'.1 δ'.2 == some s
     | none => true) = true := by decide +kernel

/-- if `t` is on the ray from `s` in direction `dir`, then `s` is on the opposite ray from `t` -/
theorem ray_symm : ∀ s : Sq, ∀ dir ∈ Dir.all, ∀ t ∈ ray dir s, s ∈ ray dir.opp t := by decide +kernel

theorem opp_family : ∀ dir ∈ Dir.all, (dir ∈ Dir.cardinal → dir.opp ∈ Dir.cardinal) ∧
    (dir ∈ Dir.diagonal → dir.opp ∈ Dir.diagonal) := by decide

/-- the square passed over by a double step, and the square the pawn lands on -/
theorem double_step_squares : ∀ s : Sq, ∀ p ∈ [Player.white, Player.black],
    (match offset s 0 (fwd p), offset s 0 (2 * fwd p) with
     | some t1, some t2 => (offset t1 0 (-(fwd p.other)) == some t2) && decide (t1 ≠ s ∧ t1 ≠ t2 ∧ s ≠ t2)
     | _, _ => true) = true := by decide +kernel

end Geo
end Tcheran
