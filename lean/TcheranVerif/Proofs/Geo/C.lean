import TcheranVerif.Model.RayBase
/-!
# Finite geometry, part C — two squares on one ray of the king
-/

namespace Tcheran
namespace Geo
open Rules

def isCard (d : Dir) : Bool := Dir.cardinal.contains d

def chkFamily : Bool :=
  (List.finRange 64).all fun k => Dir.all.all fun dirO =>
    (ray dirO k).all fun s => (ray dirO k).all fun d => Dir.all.all fun dir2 =>
      !((ray dir2 s).contains d) || (isCard dir2 == isCard dirO)

theorem chkFamily_ok : chkFamily = true := by decide +kernel

/-- two squares on one ray from `k` are joined by a direction of the same family as that ray -/
theorem same_ray_family (k : Sq) (dirO : Dir) (hO : dirO ∈ Dir.all) (s : Sq) (hs : s ∈ ray dirO k)
    (d : Sq) (hd : d ∈ ray dirO k) (dir2 : Dir) (h2 : dir2 ∈ Dir.all) (h : d ∈ ray dir2 s) :
    (dir2 ∈ Dir.cardinal ↔ dirO ∈ Dir.cardinal) := by
  have c := chkFamily_ok
  unfold chkFamily at c
  rw [List.all_eq_true] at c
  have c1 := c k (List.mem_finRange k)
  rw [List.all_eq_true] at c1
  have c2 := c1 dirO hO
  rw [List.all_eq_true] at c2
  have c3 := c2 s hs
  rw [List.all_eq_true] at c3
  have c4 := c3 d hd
  rw [List.all_eq_true] at c4
  have c5 := c4 dir2 h2
  rw [Bool.or_eq_true] at c5
  rcases c5 with c5 | c5
  · rw [Bool.not_eq_true', ← Bool.not_eq_true] at c5
    exact absurd (List.contains_iff_mem.2 h) c5
  · have e : isCard dir2 = isCard dirO := by simpa using c5
    unfold isCard at e
    constructor
    · intro m; exact List.contains_iff_mem.1 (e ▸ List.contains_iff_mem.2 m)
    · intro m; exact List.contains_iff_mem.1 (e.symm ▸ List.contains_iff_mem.2 m)

def chkKnight : Bool :=
  (List.finRange 64).all fun k => Dir.all.all fun dirO =>
    let R := ray dirO k
    R.all fun s => knightDeltas.all fun δ =>
      match offset s δ.1 δ.2 with | some d => !(R.contains d) | none => true

theorem chkKnight_ok : chkKnight = true := by decide +kernel

/-- two squares on one ray from `k` are never a knight's move apart -/
theorem same_ray_no_knight (k : Sq) (dirO : Dir) (hO : dirO ∈ Dir.all) (s : Sq) (hs : s ∈ ray dirO k)
    (δ : Int × Int) (hδ : δ ∈ knightDeltas) (d : Sq) (ho : offset s δ.1 δ.2 = some d) : d ∉ ray dirO k := by
  have c := chkKnight_ok
  unfold chkKnight at c
  rw [List.all_eq_true] at c
  have c1 := c k (List.mem_finRange k)
  rw [List.all_eq_true] at c1
  have c2 := c1 dirO hO
  simp only at c2
  rw [List.all_eq_true] at c2
  have c3 := c2 s hs
  rw [List.all_eq_true] at c3
  have c4 := c3 δ hδ
  rw [ho] at c4
  simp only at c4
  intro hm
  rw [List.contains_iff_mem.2 hm] at c4
  cases c4

end Geo
end Tcheran
