import TcheranVerif.Model.RayBase
/-!
# Finite geometry, part E — en passant and castling squares
-/

namespace Tcheran
namespace Geo
open Rules

def players' : List Player := [.white, .black]
theorem mem_players' (p : Player) : p ∈ players' := by cases p <;> simp [players']

/-- a pawn on `s` attacks `t` iff a pawn of the other colour on `t` attacks `s` -/
theorem pawn_attack_symm : ∀ s t : Sq, ∀ p ∈ players', ∀ df ∈ ([-1, 1] : List Int),
    (offset s df (fwd p) = some t ↔ offset t (-df) (fwd p.other) = some s) := by decide +kernel

theorem backward_offset : ∀ t : Sq, ∀ p ∈ players', t.backward p = offset t 0 (-(fwd p)) := by decide +kernel

/-- the capturing pawn's target is diagonal from it: same ray family facts are in part C; here: the
square of the captured pawn differs from the target and from the capturer -/
theorem ep_squares : ∀ s : Sq, ∀ p ∈ players', ∀ df ∈ ([-1, 1] : List Int),
    (match offset s df (fwd p) with
     | some t => (match offset t 0 (-(fwd p)) with
        | some v => decide (v ≠ t ∧ v ≠ s ∧ s ≠ t)
        | none => true)
     | none => true) = true := by decide +kernel

/-- a pawn that has just made a double step and gives check: its e.p. square is not on a ray from the
checked king -/
theorem ep_check_square : ∀ k : Sq, ∀ p ∈ players', ∀ df ∈ ([-1, 1] : List Int),
    (match offset k df (fwd p) with            -- square of an enemy pawn attacking `k`
     | some v => (match offset v 0 (fwd p) with  -- the square it passed over
        | some t => Dir.all.all fun dir => !((ray dir k).contains t)
        | none => true)
     | none => true) = true := by decide +kernel

theorem vertical_symm : ∀ t v : Sq, ∀ p ∈ players',
    (offset t 0 (-(fwd p)) = some v ↔ offset v 0 (fwd p) = some t) := by decide +kernel

theorem fwd_other' : ∀ p ∈ players', fwd p.other = -(fwd p) := by decide

/-- (king start, king target, rook start, rook target) of the four castling moves -/
def castleConfigs : List (Sq × Sq × Sq × Sq) :=
  [(E1, G1, H1, F1), (E1, C1, A1, D1), (E8, G8, H8, F8), (E8, C8, A8, D8)]

/-- seen from the king's target, the king's start square is hidden behind the rook's target, and nothing
lies beyond the rook's start square -/
theorem castle_xray : ∀ cfg ∈ castleConfigs, ∀ q : Sq,
    (cfg.1 ∈ betweenList cfg.2.1 q → cfg.2.2.2 ∈ betweenList cfg.2.1 q) ∧
    cfg.2.2.1 ∉ betweenList cfg.2.1 q := by decide +kernel

end Geo
end Tcheran
