import TcheranVerif.Model.RayBase
/-!
# Finite geometry, part B — crossing from one ray of the king to another
-/

namespace Tcheran
namespace Geo
open Rules

def chkCross : Bool :=
  (List.finRange 64).all fun k => [Dir.cardinal, Dir.diagonal].all fun F => F.all fun dir => F.all fun dir' =>
    dir == dir' || (ray dir k).all fun s => (ray dir' k).all fun d => F.all fun dir2 =>
      !((ray dir2 s).contains d) || (betweenList s d).contains k

theorem chkCross_ok : chkCross = true := by decide +kernel

/-- `s` on one ray from `k`, `d` on a different ray of the same family, and `d` reached from `s` along a
direction of that family: then `k` lies strictly between `s` and `d` -/
theorem cross_ray (k : Sq) (F : List Dir) (hF : F = Dir.cardinal ∨ F = Dir.diagonal) (dir dir' : Dir)
    (hd : dir ∈ F) (hd' : dir' ∈ F) (hne : dir ≠ dir') (s : Sq) (hs : s ∈ ray dir k) (dir2 : Dir) (hd2 : dir2 ∈ F)
    (d : Sq) (h2 : d ∈ ray dir2 s) (h3 : d ∈ ray dir' k) : k ∈ betweenList s d := by
  have h := chkCross_ok
  unfold chkCross at h
  rw [List.all_eq_true] at h
  have h1 := h k (List.mem_finRange k)
  rw [List.all_eq_true] at h1
  have h2' := h1 F (by rcases hF with e | e <;> simp [e])
  rw [List.all_eq_true] at h2'
  have h3' := h2' dir hd
  rw [List.all_eq_true] at h3'
  have h4 := h3' dir' hd'
  rw [Bool.or_eq_true] at h4
  rcases h4 with h4 | h4
  · exact absurd (by simpa using h4) hne
  · rw [List.all_eq_true] at h4
    have h5 := h4 s hs
    rw [List.all_eq_true] at h5
    have h6 := h5 d h3
    rw [List.all_eq_true] at h6
    have h7 := h6 dir2 hd2
    rw [Bool.or_eq_true] at h7
    rcases h7 with h7 | h7
    · rw [Bool.not_eq_true', ← Bool.not_eq_true] at h7
      exact absurd (List.contains_iff_mem.2 h2) h7
    · exact List.contains_iff_mem.1 h7

end Geo
end Tcheran
