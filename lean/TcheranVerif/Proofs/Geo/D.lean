import TcheranVerif.Model.RayBase
/-!
# Finite geometry, part D — pawn steps
-/

namespace Tcheran
namespace Geo
open Rules

def players : List Player := [.white, .black]
theorem mem_players (p : Player) : p ∈ players := by cases p <;> simp [players]

theorem offset_forward : ∀ s : Sq, ∀ p ∈ players,
    offset s 0 (fwd p) = s.forward p ∧
    offset s 0 (2 * fwd p) = (s.forward p).bind (fun t => t.forward p) := by decide +kernel

theorem forward_ray : ∀ s : Sq, ∀ p ∈ players,
    (match s.forward p with
     | some t => (ray (fdir p) s).contains t && (betweenList s t).isEmpty
     | none => true) = true := by decide +kernel

theorem double_ray : ∀ s : Sq, ∀ p ∈ players,
    (match s.forward p with
     | some f1 => (match f1.forward p with
        | some f2 => (ray (fdir p) s).contains f2 && (betweenList s f2 == [f1])
        | none => true)
     | none => true) = true := by decide +kernel

theorem capture_ray : ∀ s : Sq, ∀ p ∈ players, ∀ df ∈ ([-1, 1] : List Int),
    (match offset s df (fwd p) with
     | some t => (Dir.diagonal.any fun dir => (ray dir s).contains t) && (betweenList s t).isEmpty
     | none => true) = true := by decide +kernel

theorem promo_rank_push : ∀ s : Sq, ∀ p ∈ players,
    (match s.forward p with
     | some t => mem (pawnHome p.other) s == decide (t.rank = promoRank p)
     | none => true) = true := by decide +kernel

theorem promo_rank_capture : ∀ s : Sq, ∀ p ∈ players, ∀ df ∈ ([-1, 1] : List Int),
    (match offset s df (fwd p) with
     | some t => mem (pawnHome p.other) s == decide (t.rank = promoRank p)
     | none => true) = true := by decide +kernel

theorem start_rank : ∀ s : Sq, ∀ p ∈ players, mem (pawnHome p) s = decide (s.rank = startRank p) := by
  decide +kernel

theorem forward_some : ∀ s : Sq, ∀ p ∈ players, s.rank ≠ 0 → s.rank ≠ 7 → (s.forward p).isSome = true := by
  decide +kernel

theorem double_some : ∀ s : Sq, ∀ p ∈ players, s.rank = startRank p →
    ((s.forward p).bind (fun t => t.forward p)).isSome = true := by decide +kernel

theorem fdir_cardinal : ∀ p ∈ players, fdir p ∈ Dir.cardinal := by decide

/-- a pawn between the king and a rook-like man on a file cannot be stepping onto the last rank -/
def chkPromoPin : Bool :=
  (List.finRange 64).all fun k => Dir.cardinal.all fun dir => (ray dir k).all fun q =>
    (betweenList k q).all fun s => players.all fun p =>
      match s.forward p with
      | some t => !((betweenList k q).contains t) || !(decide (t.rank = promoRank p))
      | none => true

theorem chkPromoPin_ok : chkPromoPin = true := by decide +kernel

theorem promo_pin (k : Sq) (dir : Dir) (hd : dir ∈ Dir.cardinal) (q : Sq) (hq : q ∈ ray dir k) (s : Sq)
    (hs : s ∈ betweenList k q) (p : Player) (t : Sq) (hf : s.forward p = some t) (ht : t ∈ betweenList k q) :
    t.rank ≠ promoRank p := by
  have c := chkPromoPin_ok
  unfold chkPromoPin at c
  rw [List.all_eq_true] at c
  have c1 := c k (List.mem_finRange k)
  rw [List.all_eq_true] at c1
  have c2 := c1 dir hd
  rw [List.all_eq_true] at c2
  have c3 := c2 q hq
  rw [List.all_eq_true] at c3
  have c4 := c3 s hs
  rw [List.all_eq_true] at c4
  have c5 := c4 p (mem_players p)
  rw [hf] at c5
  simp only at c5
  rw [List.contains_iff_mem.2 ht] at c5
  simpa using c5

/-- bit shifts by one rank, square by square -/
theorem step_NS : ∀ s : Sq,
    s.step .N = (if h : s.val + 8 < 64 then some ⟨s.val + 8, h⟩ else none) ∧
    s.step .S = (if h : 8 ≤ s.val then some ⟨s.val - 8, by omega⟩ else none) := by decide +kernel

end Geo
end Tcheran
