import TcheranVerif.Model.Mirror
import TcheranVerif.Proofs.MirrorBits
import TcheranVerif.Proofs.EvalBound
/-!
# Colour swap + rank flip: the board, the attack sets, and the static evaluation (C16 `eval_mirror`)

`eval_mirror`: on every consistent board with at most one king a side … the evaluation of the mirrored
position, seen from its side to move, equals the evaluation of the position.  Each term of the evaluation
is shown to change sign (mobility / king safety, bishop pair, passed pawns, piece-square accumulators);
the iteration order over a flipped bitboard differs from the flipped iteration order, so every fold is
first shown independent of the order (`List.Perm.foldl_eq'`).
-/

namespace Tcheran
open Board Geometry Eval

theorem other_other (p : Player) : p.other.other = p := by cases p <;> rfl

/-! ### the mirrored board -/

theorem mirror_byKind (b : Board) (k : PieceKind) : b.mirror.byKind k = BB.flipV (b.byKind k) := by
  cases k <;> rfl

theorem mirror_occFor (b : Board) (p : Player) : b.mirror.occFor p.other = BB.flipV (b.occFor p) := by
  cases p <;> rfl

theorem mirror_occFor' (b : Board) (p : Player) : b.mirror.occFor p = BB.flipV (b.occFor p.other) := by
  cases p <;> rfl

theorem mirror_occupancy (b : Board) : b.mirror.occupancy = BB.flipV b.occupancy := by
  show BB.flipV b.black ||| BB.flipV b.white = BB.flipV (b.white ||| b.black)
  rw [flipV_or, BitVec.or_comm]

theorem mirror_piecesOf (b : Board) (k : PieceKind) (p : Player) :
    b.mirror.piecesOf k p.other = BB.flipV (b.piecesOf k p) := by
  unfold Board.piecesOf
  rw [mirror_byKind, mirror_occFor, flipV_and]

theorem mirror_pawnsOf (b : Board) (p : Player) : b.mirror.pawnsOf p.other = BB.flipV (b.pawnsOf p) :=
  mirror_piecesOf b .pawn p
theorem mirror_knightsOf (b : Board) (p : Player) : b.mirror.knightsOf p.other = BB.flipV (b.knightsOf p) :=
  mirror_piecesOf b .knight p
theorem mirror_bishopsOf (b : Board) (p : Player) : b.mirror.bishopsOf p.other = BB.flipV (b.bishopsOf p) :=
  mirror_piecesOf b .bishop p
theorem mirror_rooksOf (b : Board) (p : Player) : b.mirror.rooksOf p.other = BB.flipV (b.rooksOf p) :=
  mirror_piecesOf b .rook p
theorem mirror_queensOf (b : Board) (p : Player) : b.mirror.queensOf p.other = BB.flipV (b.queensOf p) :=
  mirror_piecesOf b .queen p
theorem mirror_kingOf (b : Board) (p : Player) : b.mirror.kingOf p.other = BB.flipV (b.kingOf p) :=
  mirror_piecesOf b .king p

theorem mirror_pieceAt (b : Board) (s : Sq) : b.mirror.pieceAt s = (b.pieceAt s.flip).map Piece.swap := by
  unfold Board.pieceAt Board.mirror
  simp only [Vector.getElem_ofFn]

theorem mirror_pieceAt_flip (b : Board) (s : Sq) : b.mirror.pieceAt s.flip = (b.pieceAt s).map Piece.swap := by
  rw [mirror_pieceAt, flip_flip]

theorem mirror_consistent (b : Board) (hc : Consistent b) : Consistent b.mirror := by
  constructor
  · intro k s
    rw [mirror_byKind, mem_flipV, hc.1 k s.flip, mirror_pieceAt]
    cases b.pieceAt s.flip <;> simp [Piece.swap]
  · intro p s
    rw [mirror_occFor', mem_flipV, hc.2 p.other s.flip, mirror_pieceAt]
    cases h : b.pieceAt s.flip with
    | none => simp
    | some pc =>
      obtain ⟨k, q⟩ := pc
      cases p <;> cases q <;> simp [Piece.swap, Player.other]

theorem swap_swap (pc : Piece) : pc.swap.swap = pc := by
  obtain ⟨k, q⟩ := pc; cases q <;> rfl

theorem mirror_mirror (b : Board) : b.mirror.mirror = b := by
  have hsq : b.mirror.mirror.squares = b.squares := by
    apply squares_ext
    intro s
    have h1 : b.mirror.mirror.pieceAt s = b.pieceAt s := by
      rw [mirror_pieceAt, mirror_pieceAt, flip_flip]
      cases b.pieceAt s with
      | none => rfl
      | some pc => simp only [Option.map_some, swap_swap]
    exact h1
  obtain ⟨p, n, bi, r, q, k, w, bl, sq⟩ := b
  simp only [Board.mirror, flipV_flipV, Board.mk.injEq, true_and]
  exact hsq

/-! ### attack sets -/

def Dir.flipV : Dir → Dir
  | .N => .S | .S => .N | .NE => .SE | .SE => .NE | .NW => .SW | .SW => .NW | .E => .E | .W => .W

theorem Dir.flipV_flipV (d : Dir) : d.flipV.flipV = d := by cases d <;> rfl
theorem Dir.flipV_cardinal {d : Dir} (h : d ∈ Dir.cardinal) : d.flipV ∈ Dir.cardinal := by
  cases d <;> simp [Dir.cardinal, Dir.flipV] at h ⊢
theorem Dir.flipV_diagonal {d : Dir} (h : d ∈ Dir.diagonal) : d.flipV ∈ Dir.diagonal := by
  cases d <;> simp [Dir.diagonal, Dir.flipV] at h ⊢

theorem ray_flip : ∀ d ∈ Dir.all, ∀ s : Sq, Rules.ray d.flipV s.flip = (Rules.ray d s).map Sq.flip := by
  decide +kernel

theorem seen_map_flip (occ : Sq → Bool) (l : List Sq) :
    seen (fun t => occ t.flip) (l.map Sq.flip) = (seen occ l).map Sq.flip := by
  induction l with
  | nil => rfl
  | cons x xs ih =>
    simp only [List.map_cons, seen, flip_flip]
    split
    · rfl
    · rw [ih]; rfl

theorem mem_slideSpec_flip (dirs : List Dir) (hcl : ∀ d ∈ dirs, d.flipV ∈ dirs) (s : Sq) (occ : BB) (t : Sq) :
    mem (slideSpec dirs s.flip (BB.flipV occ)) t = mem (slideSpec dirs s occ) t.flip := by
  have hocc : mem (BB.flipV occ) = fun t => mem occ t.flip := funext (mem_flipV occ)
  have key : ∀ d, seen (mem (BB.flipV occ)) (Rules.ray d.flipV s.flip) = (seen (mem occ) (Rules.ray d s)).map Sq.flip := by
    intro d
    rw [ray_flip d (dir_mem_all d) s, hocc, seen_map_flip]
  apply Bool.eq_iff_iff.2
  unfold slideSpec
  rw [mem_setOf, mem_setOf, List.mem_flatMap, List.mem_flatMap]
  constructor
  · rintro ⟨d, hd, ht⟩
    refine ⟨d.flipV, hcl d hd, ?_⟩
    have := key d.flipV
    rw [Dir.flipV_flipV] at this
    rw [this, List.mem_map] at ht
    obtain ⟨u, hu, e⟩ := ht
    rw [← e, flip_flip]; exact hu
  · rintro ⟨d, hd, ht⟩
    refine ⟨d.flipV, hcl d hd, ?_⟩
    rw [key d, List.mem_map]
    exact ⟨t.flip, ht, flip_flip t⟩

theorem rookAttacks_flip (T : SliderTables) (s : Sq) (occ : BB) :
    rookAttacks s.flip (BB.flipV occ) = BB.flipV (rookAttacks s occ) := by
  rw [T.rook, T.rook]
  apply ext_mem; intro t
  rw [mem_flipV]
  exact mem_slideSpec_flip Dir.cardinal (fun _ h => Dir.flipV_cardinal h) s occ t

theorem bishopAttacks_flip (T : SliderTables) (s : Sq) (occ : BB) :
    bishopAttacks s.flip (BB.flipV occ) = BB.flipV (bishopAttacks s occ) := by
  rw [T.bishop, T.bishop]
  apply ext_mem; intro t
  rw [mem_flipV]
  exact mem_slideSpec_flip Dir.diagonal (fun _ h => Dir.flipV_diagonal h) s occ t

theorem knightAttacks_flip : ∀ s : Sq, knightAttacks s.flip = BB.flipV (knightAttacks s) := by decide +kernel
theorem kingAttacks_flip : ∀ s : Sq, kingAttacks s.flip = BB.flipV (kingAttacks s) := by decide +kernel

/-! ### order-independent folds -/

theorem foldl_flip_sim {σ : Type} (f f' : σ → Sq → σ) (R : σ → σ) (h : ∀ st p, f' (R st) p.flip = R (f st p))
    (l : List Sq) (st : σ) : (l.map Sq.flip).foldl f' (R st) = R (l.foldl f st) := by
  induction l generalizing st with
  | nil => rfl
  | cons x xs ih => simp only [List.map_cons, List.foldl_cons]; rw [h, ih]

theorem fold_flipV {σ : Type} (f f' : σ → Sq → σ) (R : σ → σ) (h : ∀ st p, f' (R st) p.flip = R (f st p))
    (comm : ∀ st x y, f' (f' st x) y = f' (f' st y) x) (X : BB) (st : σ) :
    (BB.toList (BB.flipV X)).foldl f' (R st) = R ((BB.toList X).foldl f st) := by
  rw [List.Perm.foldl_eq' (toList_flipV_perm X) (fun x _ y _ z => comm z x y)]
  exact foldl_flip_sim f f' R h _ st

/-! ### mobility and king safety -/

def flipSt (st : Option (Int × BB)) : Option (Int × BB) := st.map fun p => (p.1, BB.flipV p.2)

theorem bv_or_right_comm (a b c : BB) : a ||| b ||| c = a ||| c ||| b := by
  apply ext_mem; intro t
  simp only [mem_or]
  cases mem a t <;> cases mem b t <;> cases mem c t <;> rfl

theorem mobStep_comm (safe : BB) (tbl : Array (Int × Int)) (moves : Sq → BB) (st : Option (Int × BB)) (x y : Sq) :
    mobStep safe tbl moves (mobStep safe tbl moves st x) y = mobStep safe tbl moves (mobStep safe tbl moves st y) x := by
  unfold mobStep
  cases st with
  | none => rfl
  | some p =>
    obtain ⟨e, att⟩ := p
    simp only [Option.bind_eq_bind, Option.pure_def, Option.bind_some]
    cases hx : tbl[BB.count (moves x &&& safe)]? <;> cases hy : tbl[BB.count (moves y &&& safe)]? <;>
      simp only [Option.bind_some, Option.bind_none]
    rw [bv_or_right_comm, Int.add_right_comm]

theorem mobStep_flip (safe : BB) (tbl : Array (Int × Int)) (moves moves' : Sq → BB)
    (h : ∀ p : Sq, moves' p.flip = BB.flipV (moves p)) (st : Option (Int × BB)) (p : Sq) :
    mobStep (BB.flipV safe) tbl moves' (flipSt st) p.flip = flipSt (mobStep safe tbl moves st p) := by
  unfold mobStep flipSt
  cases st with
  | none => rfl
  | some q =>
    obtain ⟨e, att⟩ := q
    simp only [Option.map_some, Option.bind_eq_bind, Option.pure_def, Option.bind_some]
    rw [h p, ← flipV_and, count_flipV]
    cases tbl[BB.count (moves p &&& safe)]? with
    | none => rfl
    | some v => simp only [Option.bind_some, Option.map_some, flipV_or]

theorem mobFold_flip (safe : BB) (tbl : Array (Int × Int)) (moves moves' : Sq → BB)
    (h : ∀ p : Sq, moves' p.flip = BB.flipV (moves p)) (X : BB) (st : Option (Int × BB)) :
    (BB.toList (BB.flipV X)).foldl (mobStep (BB.flipV safe) tbl moves') (flipSt st) =
      flipSt ((BB.toList X).foldl (mobStep safe tbl moves) st) :=
  fold_flipV _ _ flipSt (mobStep_flip safe tbl moves moves' h) (mobStep_comm _ tbl moves') X st

theorem safeSquares_mirror (b : Board) (pl : Player) :
    safeSquares b.mirror pl.other = BB.flipV (safeSquares b pl) := by
  unfold safeSquares
  simp only []
  rw [mirror_pawnsOf b pl.other, ← flipV_forward, flipV_not, flipV_or, flipV_west, flipV_east]

theorem lsbSq_flipV (K : BB) (h : BB.count K ≤ 1) : BB.lsbSq? (BB.flipV K) = (BB.lsbSq? K).map Sq.flip := by
  unfold BB.lsbSq?
  have hp := toList_flipV_perm K
  unfold BB.count at h
  match hl : BB.toList K, h with
  | [], _ =>
    rw [hl] at hp
    have e : BB.toList (BB.flipV K) = [] := List.Perm.eq_nil (by simpa using hp)
    rw [e]
    rfl
  | [k], _ =>
    rw [hl] at hp
    have := List.perm_singleton.1 (by simpa using hp)
    rw [this]; rfl
  | _ :: _ :: _, h => simp at h

theorem mobilityFor_mirror (T : SliderTables) (b : Board) (pl : Player) (hk : BB.count (b.kingOf pl.other) ≤ 1) :
    mobilityFor b.mirror pl.other = mobilityFor b pl := by
  unfold mobilityFor
  simp only [Option.bind_eq_bind, Option.pure_def]
  rw [mirror_occupancy, safeSquares_mirror, mirror_knightsOf, mirror_bishopsOf, mirror_rooksOf, mirror_queensOf]
  have h0 : (some ((0 : Int), 0#64) : Option (Int × BB)) = flipSt (some (0, 0#64)) := by
    simp [flipSt, flipV_zero]
  rw [h0]
  rw [mobFold_flip _ _ knightAttacks knightAttacks knightAttacks_flip,
    mobFold_flip _ _ (fun p => bishopAttacks p b.occupancy) (fun p => bishopAttacks p (BB.flipV b.occupancy))
      (fun p => bishopAttacks_flip T p _),
    mobFold_flip _ _ (fun p => rookAttacks p b.occupancy) (fun p => rookAttacks p (BB.flipV b.occupancy))
      (fun p => rookAttacks_flip T p _),
    mobFold_flip _ _ (fun p => bishopAttacks p b.occupancy ||| rookAttacks p b.occupancy)
      (fun p => bishopAttacks p (BB.flipV b.occupancy) ||| rookAttacks p (BB.flipV b.occupancy))
      (fun p => by simp only [bishopAttacks_flip T, rookAttacks_flip T, flipV_or])]
  rw [← h0]
  generalize (BB.toList (b.queensOf pl)).foldl _ _ = st
  cases st with
  | none => rfl
  | some q =>
    obtain ⟨e, att⟩ := q
    simp only [flipSt, Option.map_some, Option.bind_some]
    rw [show b.mirror.kingOf pl.other.other = BB.flipV (b.kingOf pl.other) from mirror_kingOf b pl.other,
      lsbSq_flipV _ hk]
    cases BB.lsbSq? (b.kingOf pl.other) with
    | none => rfl
    | some ek =>
      simp only [Option.map_some, Option.bind_some]
      rw [kingAttacks_flip, ← flipV_and, count_flipV]

theorem mobility_mirror (T : SliderTables) (b : Board) (hw : BB.count (b.kingOf .white) ≤ 1)
    (hb : BB.count (b.kingOf .black) ≤ 1) : mobility b.mirror = (mobility b).map (fun x => -x) := by
  unfold mobility
  simp only [Option.bind_eq_bind, Option.pure_def]
  rw [show mobilityFor b.mirror .white = mobilityFor b .black from mobilityFor_mirror T b .black hw,
    show mobilityFor b.mirror .black = mobilityFor b .white from mobilityFor_mirror T b .white hb]
  cases mobilityFor b .white <;> cases mobilityFor b .black <;> simp
  omega

/-! ### bishop pair, passed pawns -/

theorem bishopPair_mirror (b : Board) : bishopPair b.mirror = -(bishopPair b) := by
  unfold bishopPair
  simp only []
  rw [show b.mirror.bishopsOf .white = BB.flipV (b.bishopsOf .black) from mirror_bishopsOf b .black,
    show b.mirror.bishopsOf .black = BB.flipV (b.bishopsOf .white) from mirror_bishopsOf b .white,
    count_flipV, count_flipV]
  omega

theorem passedMask_flip (pl : Player) : ∀ s : Sq, passedMask pl.other s.flip = BB.flipV (passedMask pl s) := by
  cases pl
  · show ∀ s : Sq, passedMask .black s.flip = BB.flipV (passedMask .white s); decide +kernel
  · show ∀ s : Sq, passedMask .white s.flip = BB.flipV (passedMask .black s); decide +kernel

theorem passedPst_flip (pl : Player) : ∀ s : Sq, passedPst pl.other s.flip = -(passedPst pl s) := by
  cases pl
  · show ∀ s : Sq, passedPst .black s.flip = -(passedPst .white s); decide +kernel
  · show ∀ s : Sq, passedPst .white s.flip = -(passedPst .black s); decide +kernel

theorem passedBonus_mirror (b : Board) (pl : Player) : passedBonus b.mirror pl.other = -(passedBonus b pl) := by
  unfold passedBonus
  rw [show b.mirror.pawnsOf pl.other.other = BB.flipV (b.pawnsOf pl.other) from mirror_pawnsOf b pl.other,
    mirror_pawnsOf b pl]
  have := fold_flipV
    (fun (acc : Int) s => if (passedMask pl s &&& b.pawnsOf pl.other) == 0#64 then acc + passedPst pl s else acc)
    (fun (acc : Int) s => if (passedMask pl.other s &&& BB.flipV (b.pawnsOf pl.other)) == 0#64
      then acc + passedPst pl.other s else acc)
    (fun x => -x)
    (fun st p => by
      show (if (passedMask pl.other p.flip &&& BB.flipV (b.pawnsOf pl.other)) == 0#64
          then -st + passedPst pl.other p.flip else -st) =
        -(if (passedMask pl p &&& b.pawnsOf pl.other) == 0#64 then st + passedPst pl p else st)
      rw [passedMask_flip, passedPst_flip, ← flipV_and]
      by_cases hz : (passedMask pl p &&& b.pawnsOf pl.other) = 0#64
      · rw [hz, flipV_zero]; simp only [beq_self_eq_true, if_true]; omega
      · have hz' : BB.flipV (passedMask pl p &&& b.pawnsOf pl.other) ≠ 0#64 := fun e => hz ((flipV_eq_zero _).1 e)
        rw [if_neg (by simpa using hz'), if_neg (by simpa using hz)])
    (fun st x y => by
      show (if _ then (if _ then st + _ else st) + _ else (if _ then st + _ else st)) =
        (if _ then (if _ then st + _ else st) + _ else (if _ then st + _ else st))
      split <;> split <;> first | rfl | exact Int.add_right_comm _ _ _)
    (b.pawnsOf pl) 0
  simpa using this

theorem pawnStructure_mirror (b : Board) : pawnStructure b.mirror = -(pawnStructure b) := by
  unfold pawnStructure
  rw [show passedBonus b.mirror .white = -(passedBonus b .black) from passedBonus_mirror b .black,
    show passedBonus b.mirror .black = -(passedBonus b .white) from passedBonus_mirror b .white]
  omega

/-! ### the accumulators -/

theorem pst_flip (pl : Player) (k : PieceKind) : ∀ s : Sq, pst pl.other k s.flip = -(pst pl k s) := by
  cases pl <;> cases k
  all_goals first
    | (show ∀ s : Sq, pst .black _ s.flip = -(pst .white _ s); decide +kernel)
    | (show ∀ s : Sq, pst .white _ s.flip = -(pst .black _ s); decide +kernel)

def negInc (a : Inc) : Inc := ⟨a.phase, -a.pst⟩

theorem finRange_flip_perm : (List.finRange 64).Perm ((List.finRange 64).map Sq.flip) := by
  apply (List.perm_ext_iff_of_nodup (List.nodup_finRange 64) ?_).2
  · intro t
    simp only [List.mem_finRange, List.mem_map, true_and, true_iff]
    exact ⟨Sq.flip t, flip_flip t⟩
  · exact nodup_map_flip _ (List.nodup_finRange 64)

theorem incStep_comm (b : Board) (acc : Inc) (x y : Sq) :
    incStep b (incStep b acc x) y = incStep b (incStep b acc y) x := by
  unfold incStep
  cases b.pieceAt x <;> cases b.pieceAt y <;> simp only []
  congr 1 <;> omega

theorem incStep_flip (b : Board) (acc : Inc) (s : Sq) :
    incStep b.mirror (negInc acc) s.flip = negInc (incStep b acc s) := by
  unfold incStep
  rw [mirror_pieceAt_flip]
  cases b.pieceAt s with
  | none => rfl
  | some pc =>
    simp only [Option.map_some, Piece.swap, negInc, pst_flip]
    congr 1
    omega

theorem incInit_mirror (b : Board) : Game.incInit theCfg b.mirror = negInc (Game.incInit theCfg b) := by
  rw [incInit_eq, incInit_eq]
  rw [List.Perm.foldl_eq' finRange_flip_perm (fun x _ y _ z => incStep_comm b.mirror z x y)]
  have : (⟨0, 0⟩ : Inc) = negInc ⟨0, 0⟩ := by simp [negInc]
  rw [this]
  exact foldl_flip_sim (incStep b) (incStep b.mirror) negInc (incStep_flip b) _ _

/-! ### the blend is odd -/

theorem tdiv_neg' (a b : Int) : Int.tdiv (-a) b = -(Int.tdiv a b) := Int.neg_tdiv ..

theorem forPhase_neg (mg eg phase : Int) (h1 : -32767 ≤ mg ∧ mg ≤ 32767) (h2 : -32767 ≤ eg ∧ eg ≤ 32767)
    (hph : 0 ≤ phase) :
    ∃ v, forPhase (pack mg eg) phase = some v ∧ forPhase (-(pack mg eg)) phase = some (-v) ∧
      -32767 ≤ v ∧ v ≤ 32767 := by
  obtain ⟨v, hv, b1, b2⟩ := forPhase_in mg eg phase (-32767) 32767 (by omega) (by omega) h1 h2 hph
  refine ⟨v, hv, ?_, b1, b2⟩
  rw [pack_neg]
  unfold forPhase at hv ⊢
  rw [midgame_of_pack mg eg (by omega) (by omega), endgame_of_pack mg eg (by omega) (by omega)] at hv
  rw [midgame_of_pack (-mg) (-eg) (by omega) (by omega), endgame_of_pack (-mg) (-eg) (by omega) (by omega)]
  simp only [] at hv ⊢
  have : -mg * min phase Gen.phaseCountMax + -eg * (Gen.phaseCountMax - min phase Gen.phaseCountMax) =
      -(mg * min phase Gen.phaseCountMax + eg * (Gen.phaseCountMax - min phase Gen.phaseCountMax)) := by
    rw [Int.neg_mul, Int.neg_mul, Int.neg_add]
  rw [this, tdiv_neg']
  obtain ⟨t, ht⟩ : ∃ t, t = Int.tdiv (mg * min phase Gen.phaseCountMax + eg * (Gen.phaseCountMax - min phase Gen.phaseCountMax)) 24 :=
    ⟨_, rfl⟩
  rw [← ht] at hv ⊢
  split at hv
  · have e : t = v := Option.some.inj hv
    rw [e]
    have : inI16 (-v) = true := by
      unfold inI16; simp only [Bool.and_eq_true, decide_eq_true_eq]; omega
    rw [if_pos this]
  · cases hv

/-! ### the whole evaluation -/

namespace Eval

/-- the sum the evaluation blends is a packed pair well inside `i16` (the argument of `eval_total_bounded`) -/
theorem total_pack (T : SliderTables) (g : Game) (hc : Consistent g.board)
    (hinc : g.inc = Game.incInit theCfg g.board)
    (hKw : cnt g.board (isK .white) sqs = 1) (hKb : cnt g.board (isK .black) sqs = 1)
    (hW : cnt g.board (isP .white) sqs + cnt g.board (isO .white) sqs + cnt g.board (isK .white) sqs ≤ 16)
    (hB : cnt g.board (isP .black) sqs + cnt g.board (isO .black) sqs + cnt g.board (isK .black) sqs ≤ 16) :
    ∃ M E mob, mobility g.board = some mob ∧
      g.inc.pst + bishopPair g.board + mob + pawnStructure g.board = pack M E ∧
      -31130 ≤ M ∧ M ≤ 31130 ∧ -31130 ≤ E ∧ E ≤ 31130 ∧ 0 ≤ g.inc.phase := by
  obtain ⟨pm, pe, ph, hpst, hph, p1, p2, p3, p4⟩ := pstFold g.board sqs 0 0 0
  obtain ⟨wm, we, hwm, w1, w2, w3, w4⟩ := mobility_side T g.board hc .white hKb
  obtain ⟨bm, be, hbm, k1, k2, k3, k4⟩ := mobility_side T g.board hc .black hKw
  obtain ⟨qm, qe, hq, q1, q2, q3, q4⟩ := bishopPair_bounds g.board
  obtain ⟨um, ue, hu, u1, u2, u3, u4⟩ := passed_side g.board hc .white (-80) 200 (by omega) (by omega)
    (fun s => (passedPair_in s).1)
  obtain ⟨vm, ve, hv, v1, v2, v3, v4⟩ := passed_side g.board hc .black (-200) 80 (by omega) (by omega)
    (fun s => (passedPair_in s).2)
  have hincv : g.inc = ⟨ph, pack pm pe⟩ := by
    rw [hinc, incInit_eq, ← pack_zero]; exact hpst
  have hmob : mobility g.board = some (pack (wm - bm) (we - be)) := by
    unfold mobility
    simp only [Option.bind_eq_bind, Option.pure_def]
    rw [hwm, hbm]
    simp only [Option.bind_some]
    rw [pack_sub]
  have htotal : g.inc.pst + bishopPair g.board + pack (wm - bm) (we - be) + pawnStructure g.board =
      pack (pm + qm + (wm - bm) + (um + vm)) (pe + qe + (we - be) + (ue + ve)) := by
    unfold pawnStructure
    rw [hincv, hq, hu, hv]
    simp only [pack_add]
  refine ⟨_, _, _, hmob, htotal, ?_, ?_, ?_, ?_, by rw [hincv]; exact hph⟩
  all_goals (simp only [Int.zero_add] at p1 p2 p3 p4; omega)

theorem kingCount_le (b : Board) (hc : Consistent b) (pl : Player) (h : cnt b (isK pl) sqs = 1) :
    BB.count (b.kingOf pl) ≤ 1 := by
  have := count_piecesOf b hc .king pl
  rw [← cnt_isK, h] at this
  show BB.count (b.byKind .king &&& b.occFor pl) ≤ 1
  omega

/-- **eval_mirror**: swapping the colours and flipping the board leaves the evaluation, seen from the side
to move, unchanged — for every consistent board with one king and at most sixteen men a side -/
theorem eval_mirror_counts (T : SliderTables) (g : Game) (hc : Consistent g.board)
    (hinc : g.inc = Game.incInit theCfg g.board)
    (hKw : cnt g.board (isK .white) sqs = 1) (hKb : cnt g.board (isK .black) sqs = 1)
    (hW : cnt g.board (isP .white) sqs + cnt g.board (isO .white) sqs + cnt g.board (isK .white) sqs ≤ 16)
    (hB : cnt g.board (isP .black) sqs + cnt g.board (isO .black) sqs + cnt g.board (isK .black) sqs ≤ 16) :
    eval (Game.mirror theCfg g) = eval g := by
  obtain ⟨M, E, mob, hmob, htot, m1, m2, e1, e2, hph⟩ := total_pack T g hc hinc hKw hKb hW hB
  obtain ⟨v, hv, hnv, v1, v2⟩ := forPhase_neg M E g.inc.phase (by omega) (by omega) hph
  have hmob' : mobility g.board.mirror = some (-mob) := by
    rw [mobility_mirror T g.board (kingCount_le _ hc .white hKw) (kingCount_le _ hc .black hKb), hmob]
    rfl
  have habs : absoluteEval g = some v := by
    unfold absoluteEval
    simp only [Option.bind_eq_bind, Option.pure_def]
    rw [hmob]
    simp only [Option.bind_some]
    rw [htot]; exact hv
  have habs' : absoluteEval (Game.mirror theCfg g) = some (-v) := by
    unfold absoluteEval
    simp only [Option.bind_eq_bind, Option.pure_def]
    show (mobility g.board.mirror).bind _ = _
    rw [hmob']
    simp only [Option.bind_some]
    show forPhase ((Game.incInit theCfg g.board.mirror).pst + bishopPair g.board.mirror + -mob
      + pawnStructure g.board.mirror) (Game.incInit theCfg g.board.mirror).phase = some (-v)
    rw [incInit_mirror, ← hinc, bishopPair_mirror, pawnStructure_mirror]
    have : (negInc g.inc).pst + -bishopPair g.board + -mob + -pawnStructure g.board = -(pack M E) := by
      rw [← htot]; simp only [negInc]; omega
    rw [this]
    exact hnv
  unfold eval
  simp only [Option.bind_eq_bind, Option.pure_def]
  rw [habs, habs']
  simp only [Option.bind_some]
  show some (match g.player.other with | .white => -v | .black => if -v = -32768 then 32767 else - -v) = _
  cases g.player
  · simp only [Player.other]
    rw [if_neg (by omega)]
    congr 1; omega
  · simp only [Player.other]
    rw [if_neg (by omega)]

open Rules in
/-- **eval_mirror** for the decidable `Legal` predicate -/
theorem eval_mirror_legal (T : SliderTables) (g : Game) (hc : Consistent g.board)
    (hl : legalPos (ofGame g) = true) (hinc : g.inc = Game.incInit theCfg g.board) :
    eval (Game.mirror theCfg g) = eval g := by
  unfold legalPos at hl
  simp only [Bool.and_eq_true] at hl
  obtain ⟨⟨⟨⟨⟨⟨⟨⟨hkings, _⟩, _⟩, _⟩, _⟩, hmw⟩, hmb⟩, _⟩, _⟩ := hl
  simp only [Bool.and_eq_true, beq_iff_eq, decide_eq_true_eq] at hkings hmw hmb
  have hKw : cnt g.board (isK .white) sqs = 1 := by rw [cnt_isK]; exact hkings.1
  have hKb : cnt g.board (isK .black) sqs = 1 := by rw [cnt_isK]; exact hkings.2
  have hW := cnt_player g.board .white sqs
  have hB := cnt_player g.board .black sqs
  have h16w : cnt g.board (fun pc => pc.player == .white) sqs ≤ 16 := hmw.1
  have h16b : cnt g.board (fun pc => pc.player == .black) sqs ≤ 16 := hmb.1
  exact eval_mirror_counts T g hc hinc hKw hKb (by omega) (by omega)

end Eval

end Tcheran
