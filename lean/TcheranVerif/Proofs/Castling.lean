import TcheranVerif.Proofs.EnPassant
/-!
# Castling (C01)
-/

namespace Tcheran
open Board Geometry Rules

/-- the local `mk` of `Rules.castleMoves` -/
def castleMk (b : RBoard) (p : Player) (ks : Sq) (right : Bool) (rookSq : Sq) (empties path : List Sq)
    (dst : Sq) : List Move :=
  if right && (at' b ks == some ⟨.king, p⟩) && at' b rookSq == some ⟨.rook, p⟩
      && empties.all (fun s => (at' b s).isNone)
      && !(attacked b p.other ks)
      && path.all (fun s => !(attacked b p.other s)) then
    [Move.castles ks dst]
  else []

theorem castleMoves_eq (pos : Pos) :
    castleMoves pos = match pos.player with
      | .white => castleMk pos.board .white E1 (pos.rights.forP .white).kingSide H1 [F1, G1] [F1, G1] G1 ++
                  castleMk pos.board .white E1 (pos.rights.forP .white).queenSide A1 [B1, C1, D1] [D1, C1] C1
      | .black => castleMk pos.board .black E8 (pos.rights.forP .black).kingSide H8 [F8, G8] [F8, G8] G8 ++
                  castleMk pos.board .black E8 (pos.rights.forP .black).queenSide A8 [B8, C8, D8] [D8, C8] C8 := by
  unfold castleMoves castleMk
  cases h : pos.player <;> rfl

theorem applyBoard_castle (b : RBoard) (p : Player) (ks dst rf rt : Sq)
    (hk : at' b ks = some ⟨.king, p⟩) (hcs : Game.castleSquares p dst = some (rf, rt)) (x : Sq) :
    at' (applyBoard b p (Move.castles ks dst)) x =
      if x = rt then some ⟨.rook, p⟩ else if x = rf then none else
      if x = dst then some ⟨.king, p⟩ else if x = ks then none else at' b x := by
  unfold applyBoard
  show at' (match at' b ks with
    | none => b
    | some moved => _) x = _
  rw [hk]
  simp only [Move.castles, Move.promotion, Move.isEnPassant, Move.isCastling, beq_self_eq_true, if_true,
    show (MoveFlag.castle == MoveFlag.enPassant) = false from rfl, Bool.false_eq_true, if_false]
  rw [hcs]
  simp only
  rw [at_setSq, at_setSq, at_setSq, at_setSq]

/-- after castling the king's new square is attacked only if it was attacked before -/
theorem castle_after_safe (b b' : RBoard) (p : Player) (ks dst rf rt : Sq)
    (hcfg : (ks, dst, rf, rt) ∈ Geo.castleConfigs)
    (hks : ∃ X, at' b ks = some X ∧ X.player = p) (hrf : ∃ X, at' b rf = some X ∧ X.player = p)
    (hrt' : ∃ X, at' b' rt = some X ∧ X.player = p) (hks' : at' b' ks = none) (hrf' : at' b' rf = none)
    (hdst' : ∃ X, at' b' dst = some X ∧ X.player = p)
    (hoff : ∀ x, x ≠ ks → x ≠ dst → x ≠ rf → x ≠ rt → at' b' x = at' b x)
    (hsafe : attacked b p.other dst = false) : attacked b' p.other dst = false := by
  cases ha : attacked b' p.other dst with
  | false => rfl
  | true =>
    exfalso
    obtain ⟨q, hq⟩ := (attacked_iff b' p.other dst).1 ha
    obtain ⟨hg, he⟩ := (attacksFrom_iff_geo b' p.other q dst).1 hq
    have hqe : ∃ Y, at' b' q = some Y ∧ Y.player = p.other := by
      obtain ⟨kk, a, _⟩ := hg; exact ⟨_, a, rfl⟩
    have hq1 : q ≠ ks := by intro e; obtain ⟨Y, hY, _⟩ := hqe; rw [e, hks'] at hY; cases hY
    have hq2 : q ≠ rf := by intro e; obtain ⟨Y, hY, _⟩ := hqe; rw [e, hrf'] at hY; cases hY
    have hq3 : q ≠ rt := fun e => own_ne_enemy hrt' (e ▸ hqe) rfl
    have hq4 : q ≠ dst := fun e => own_ne_enemy hdst' (e ▸ hqe) rfl
    have hfact := Geo.castle_xray _ hcfg q
    simp only at hfact
    have hgb : Geo b p.other q dst := (geo_congr b' b p.other q dst (hoff q hq1 hq4 hq2 hq3)).1 hg
    have hempty : ∀ x ∈ betweenList dst q, occOf b x = false := by
      intro x hx
      have hx' := he x hx
      have hrt_occ : occOf b' rt = true := occ_of_piece hrt'
      by_cases h1 : x = ks
      · subst h1
        have := he rt (hfact.1 hx)
        rw [hrt_occ] at this; cases this
      · by_cases h2 : x = rf
        · subst h2; exact absurd hx hfact.2
        · by_cases h3 : x = rt
          · subst h3; rw [hrt_occ] at hx'; cases hx'
          · by_cases h4 : x = dst
            · subst h4
              obtain ⟨dir, hd, _, hxr, _⟩ := bl_on_ray hx
              exact absurd hxr (self_not_mem_ray dir hd x)
            · unfold occOf at hx' ⊢
              rw [← hoff x h1 h4 h2 h3]; exact hx'
    have : attacked b p.other dst = true :=
      (attacked_iff b p.other dst).2 ⟨q, (attacksFrom_iff_geo b p.other q dst).2 ⟨hgb, hempty⟩⟩
    rw [this] at hsafe; cases hsafe

theorem and_zero_iff (a b : BB) : (a &&& b) = 0#64 ↔ ∀ x, mem a x = true → mem b x = false := by
  constructor
  · intro h x hx
    have : mem (a &&& b) x = false := by rw [h, mem_zero]
    rw [mem_and, hx] at this
    simpa using this
  · intro h
    apply ext_mem
    intro x
    rw [mem_and, mem_zero]
    cases hx : mem a x with
    | false => rfl
    | true => rw [h x hx]; rfl

/-- one castling move: the engine's conditions are the rules' -/
theorem castle_one (T : SliderTables) (bd : Board) (p : Player) (ks : Sq) (c : Ctx bd p ks)
    (dst mid rf rt : Sq) (empties : List Sq) (reqEmpty : BB)
    (hcfg : (ks, dst, rf, rt) ∈ Geo.castleConfigs)
    (hreq : ∀ x, mem reqEmpty x = true ↔ x ∈ empties)
    (hcs : Game.castleSquares p dst = some (rf, rt))
    (hmid : mid ∈ empties) (hdst : dst ∈ empties) (hrtmid : rt = mid)
    (hne : ks ≠ dst ∧ ks ≠ rf ∧ ks ≠ rt ∧ dst ≠ rf ∧ dst ≠ rt ∧ rf ≠ rt)
    (right : Bool) (hrook : right = true → at' bd.squares rf = some ⟨.rook, p⟩) (m : Move) :
    (m ∈ (if attackersOf bd p ks == 0#64 then
            (if right then
              (if (reqEmpty &&& bd.occupancy) == 0#64 && attackersOf bd p mid == 0#64
                  && attackersOf bd p dst == 0#64 then [Move.castles ks dst] else [])
             else [])
          else [])) ↔
    (m ∈ castleMk bd.squares p ks right rf empties [mid, dst] dst ∧
      inCheck (applyBoard bd.squares p m) p = false) := by
  have hc := c.cons
  have hking : at' bd.squares ks = some ⟨.king, p⟩ := (c.king ks).2 rfl
  have hatt : ∀ x, (attackersOf bd p x == 0#64) = true ↔ attacked bd.squares p.other x = false := by
    intro x
    rw [beq_zero_iff]
    have := attackersOf_ne_zero T bd hc p x
    constructor
    · intro h
      cases ha : attacked bd.squares p.other x with
      | false => rfl
      | true => exact absurd h (this.2 ha)
    · intro h
      apply Decidable.byContradiction
      intro hn
      rw [this.1 hn] at h; cases h
  have hemp : ((reqEmpty &&& bd.occupancy) == 0#64) = true ↔ ∀ x ∈ empties, at' bd.squares x = none := by
    rw [beq_zero_iff, and_zero_iff]
    constructor
    · intro h x hx
      have := h x ((hreq x).2 hx)
      rw [mem_occupancy bd hc] at this
      unfold occOf at this
      cases hh : at' bd.squares x with
      | none => rfl
      | some y => rw [hh] at this; cases this
    · intro h x hx
      rw [mem_occupancy bd hc]
      unfold occOf
      rw [h x ((hreq x).1 hx)]; rfl
  -- legality after the move
  have hlegal : right = true → (∀ x ∈ empties, at' bd.squares x = none) →
      attacked bd.squares p.other dst = false →
      inCheck (applyBoard bd.squares p (Move.castles ks dst)) p = false := by
    intro hr hempt hsafe
    have hat := applyBoard_castle bd.squares p ks dst rf rt hking hcs
    have hk2 : ∀ x, at' (applyBoard bd.squares p (Move.castles ks dst)) x = some ⟨.king, p⟩ ↔ x = dst := by
      intro x
      rw [hat x]
      by_cases h1 : x = rt
      · rw [if_pos h1]
        constructor
        · intro e; cases e
        · intro e; exact absurd (h1 ▸ e).symm hne.2.2.2.2.1
      · rw [if_neg h1]
        by_cases h2 : x = rf
        · rw [if_pos h2]
          constructor
          · intro e; cases e
          · intro e; exact absurd (h2 ▸ e).symm hne.2.2.2.1
        · rw [if_neg h2]
          by_cases h3 : x = dst
          · rw [if_pos h3]; exact ⟨fun _ => h3, fun _ => rfl⟩
          · rw [if_neg h3]
            by_cases h4 : x = ks
            · rw [if_pos h4]
              constructor
              · intro e; cases e
              · intro e; exact absurd e h3
            · rw [if_neg h4]
              constructor
              · intro e; exact absurd ((c.king x).1 e) h4
              · intro e; exact absurd e h3
    unfold inCheck
    rw [kingSq_unique _ p dst hk2]
    simp only
    refine castle_after_safe bd.squares _ p ks dst rf rt hcfg ⟨_, hking, rfl⟩ ⟨_, hrook hr, rfl⟩
      ⟨_, by rw [hat rt, if_pos rfl], rfl⟩ ?_ ?_ ⟨_, by
        rw [hat dst, if_neg hne.2.2.2.2.1, if_neg hne.2.2.2.1, if_pos rfl], rfl⟩ ?_ hsafe
    · rw [hat ks, if_neg hne.2.2.1, if_neg hne.2.1, if_neg hne.1, if_pos rfl]
    · rw [hat rf, if_neg hne.2.2.2.2.2, if_pos rfl]
    · intro x h1 h2 h3 h4
      rw [hat x, if_neg h4, if_neg h3, if_neg h2, if_neg h1]
  unfold castleMk
  constructor
  · intro hm
    split at hm
    · rename_i hchk
      split at hm
      · rename_i hr
        split at hm
        · rename_i hcond
          simp only [Bool.and_eq_true] at hcond
          obtain ⟨⟨h1, h2⟩, h3⟩ := hcond
          have e := List.mem_singleton.1 hm
          have hempt := hemp.1 h1
          have a0 := (hatt ks).1 hchk
          have a1 := (hatt mid).1 h2
          have a2 := (hatt dst).1 h3
          refine ⟨?_, by rw [e]; exact hlegal hr hempt a2⟩
          have hcondR : (right && (at' bd.squares ks == some ⟨.king, p⟩) && at' bd.squares rf == some ⟨.rook, p⟩
              && empties.all (fun s => (at' bd.squares s).isNone)
              && !(attacked bd.squares p.other ks)
              && [mid, dst].all (fun s => !(attacked bd.squares p.other s))) = true := by
            simp only [Bool.and_eq_true, List.all_eq_true, beq_iff_eq, Bool.not_eq_true', List.mem_cons,
              List.mem_nil_iff, or_false]
            refine ⟨⟨⟨⟨⟨hr, hking⟩, hrook hr⟩, fun x hx => by rw [hempt x hx]; rfl⟩, a0⟩, ?_⟩
            rintro x (e' | e') <;> subst e'
            · exact a1
            · exact a2
          rw [if_pos hcondR]
          exact List.mem_singleton.2 e
        · cases hm
      · cases hm
    · cases hm
  · rintro ⟨hm, _⟩
    split at hm
    · rename_i hcondR
      simp only [Bool.and_eq_true, List.all_eq_true, beq_iff_eq, Bool.not_eq_true', List.mem_cons,
        List.mem_nil_iff, or_false] at hcondR
      obtain ⟨⟨⟨⟨⟨hr, _⟩, _⟩, hempt⟩, a0⟩, hpath⟩ := hcondR
      have e := List.mem_singleton.1 hm
      rw [if_pos ((hatt ks).2 a0), if_pos hr]
      have hempt' : ∀ x ∈ empties, at' bd.squares x = none := by
        intro x hx
        have := hempt x hx
        cases hh : at' bd.squares x with
        | none => rfl
        | some y => rw [hh] at this; cases this
      have : ((reqEmpty &&& bd.occupancy) == 0#64 && attackersOf bd p mid == 0#64
          && attackersOf bd p dst == 0#64) = true := by
        simp only [Bool.and_eq_true]
        exact ⟨⟨hemp.2 hempt', (hatt mid).2 (hpath mid (Or.inl rfl))⟩, (hatt dst).2 (hpath dst (Or.inr rfl))⟩
      rw [if_pos this]
      exact List.mem_singleton.2 e
    · cases hm

end Tcheran
