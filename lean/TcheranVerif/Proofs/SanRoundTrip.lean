import TcheranVerif.Proofs.SanChars
/-!
# Reading back the SAN text the writer produced returns the move (C18)

`parse_format`: for a context that satisfies `WF c mv` — the facts about the legal-move list that the rules
of chess guarantee (`Proofs/SanLegal.lean` derives them for the legal moves of a legal position) — the
reader applied to the writer's text for `mv` answers `ok mv`: never an error, never a panic, never another
move.  `format_injective` follows: the text names no other legal move.
-/

namespace Tcheran
namespace San

/-- what the SAN code relies on about the legal-move list, relative to the move being written -/
structure WF (c : Ctx) (mv : Move) : Prop where
  nodup : c.legal.Nodup
  mem : mv ∈ c.legal
  kinds : ∀ m ∈ c.legal, (c.kindAt m.src).isSome = true
  /-- source, destination and promotion piece identify a legal move -/
  key : ∀ m ∈ c.legal, m.src = mv.src → m.dst = mv.dst → m.promotion = mv.promotion → m = mv
  /-- only pawns promote -/
  noPromo : ∀ m ∈ c.legal, ∀ k, c.kindAt m.src = some k → k ≠ .pawn → m.promotion = none
  /-- a square a pawn can advance to is reached by pawns from one square only -/
  pawnPush : c.kindAt mv.src = some .pawn → mv.isCapture = false →
    ∀ m ∈ c.legal, c.kindAt m.src = some .pawn → m.dst = mv.dst → m.src = mv.src
  /-- a pawn capture is identified by the file it starts from -/
  pawnCap : c.kindAt mv.src = some .pawn → mv.isCapture = true →
    ∀ m ∈ c.legal, c.kindAt m.src = some .pawn → m.dst = mv.dst → m.src.file = mv.src.file → m.src = mv.src
  /-- there is one king -/
  king : c.kindAt mv.src = some .king →
    ∀ m ∈ c.legal, c.kindAt m.src = some .king → m.dst = mv.dst → m.src = mv.src

/-! ### the pieces of the reader -/

theorem expectMatching_of_key (c : Ctx) (mv : Move) (h : WF c mv) :
    expectMatching c mv.src mv.dst mv.promotion = .ok mv := by
  unfold expectMatching
  have : c.legal.find? (fun m => m.src = mv.src ∧ m.dst = mv.dst ∧ m.promotion = mv.promotion) = some mv := by
    have hmem := h.mem
    have hkey := h.key
    generalize c.legal = l at hmem hkey
    induction l with
    | nil => cases hmem
    | cons x xs ih =>
      rw [List.find?_cons]
      by_cases hx : (x.src = mv.src ∧ x.dst = mv.dst ∧ x.promotion = mv.promotion)
      · have := hkey x List.mem_cons_self hx.1 hx.2.1 hx.2.2
        subst this
        simp
      · have hd : decide (x.src = mv.src ∧ x.dst = mv.dst ∧ x.promotion = mv.promotion) = false := by simp [hx]
        rw [hd]
        rcases List.mem_cons.1 hmem with e | hin
        · subst e; exact absurd ⟨rfl, rfl, rfl⟩ hx
        · exact ih hin (fun m hm => hkey m (List.mem_cons_of_mem _ hm))
  rw [this]

theorem parseDest_notation (s : Sq) : parseDest [fileChar s.file, rankChar s.rank] = some (some s) := by
  unfold parseDest
  have hb := byteSize_two ⟨s.file, file_lt s⟩ ⟨s.rank, rank_lt s⟩
  rw [if_neg (by simpa using hb)]
  have h1 := parseFile_fileChar ⟨s.file, file_lt s⟩
  have h2 := parseRank_rankChar ⟨s.rank, rank_lt s⟩
  simp only at h1 h2
  simp only [h1, h2, Option.bind_eq_bind, Option.bind_some]
  exact congrArg some (mk_file_rank s)

theorem dedup_const (l : List Sq) (s : Sq) (h : ∀ x ∈ l, x = s) (hne : l ≠ []) : dedup l = [s] := by
  unfold dedup
  have key : ∀ (l : List Sq) (acc : List Sq), (∀ x ∈ l, x = s) → (acc = [] ∨ acc = [s]) →
      (l.foldl (fun acc s => if acc.contains s then acc else acc ++ [s]) acc = acc ∧ l = [] ∨
       l.foldl (fun acc s => if acc.contains s then acc else acc ++ [s]) acc = [s]) := by
    intro l
    induction l with
    | nil => intro acc _ _; exact Or.inl ⟨rfl, rfl⟩
    | cons x xs ih =>
      intro acc hall hacc
      right
      have hx : x = s := hall x List.mem_cons_self
      subst hx
      simp only [List.foldl_cons]
      have hacc' : (if acc.contains x then acc else acc ++ [x]) = [x] := by
        rcases hacc with e | e <;> subst e <;> simp
      rw [hacc']
      rcases ih [x] (fun y hy => hall y (List.mem_cons_of_mem _ hy)) (Or.inr rfl) with ⟨h1, _⟩ | h1
      · exact h1
      · exact h1
  rcases key l [] h (Or.inl rfl) with ⟨_, h2⟩ | h2
  · exact absurd h2 hne
  · exact h2

/-- the source squares the reader collects, in terms of the legal list -/
theorem kinded_filter_src (c : Ctx) (P : PieceKind × Move → Bool) :
    ((c.legal.filterMap fun m => (c.kindAt m.src).map fun k => (k, m)).filter P).map (·.2.src) =
    (c.legal.filter fun m => match c.kindAt m.src with | some k => P (k, m) | none => false).map (·.src) := by
  generalize c.legal = l
  induction l with
  | nil => rfl
  | cons x xs ih =>
    rw [List.filterMap_cons, List.filter_cons]
    cases hk : c.kindAt x.src with
    | none => simp only [Option.map_none, Bool.false_eq_true, if_false]; exact ih
    | some k =>
      simp only [Option.map_some, List.filter_cons]
      by_cases hp : P (k, x) = true
      · simp only [hp, if_true, List.map_cons]; rw [ih]
      · simp only [hp, if_false]; exact ih

theorem kinded_length (c : Ctx) (h : ∀ m ∈ c.legal, (c.kindAt m.src).isSome = true) :
    (c.legal.filterMap fun m => (c.kindAt m.src).map fun k => (k, m)).length = c.legal.length := by
  generalize c.legal = l at h
  induction l with
  | nil => rfl
  | cons x xs ih =>
    rw [List.filterMap_cons]
    have := h x List.mem_cons_self
    cases hk : c.kindAt x.src with
    | none => rw [hk] at this; cases this
    | some k =>
      simp only [Option.map_some, List.length_cons]
      rw [ih (fun m hm => h m (List.mem_cons_of_mem _ hm))]

/-! ### the writer's text as a list of characters -/

def identL (k : PieceKind) (mv : Move) : List Char :=
  match k with
  | .pawn => if mv.isCapture then [fileChar mv.src.file] else []
  | k => [kindChar k]

def ambL (amb : Ambiguity) (mv : Move) : List Char :=
  match amb with
  | .none => [] | .file => [fileChar mv.src.file] | .rank => [rankChar mv.src.rank]
  | .exact => [fileChar mv.src.file, rankChar mv.src.rank]

def xL (mv : Move) : List Char := if mv.isCapture then ['x'] else []
def dstL (mv : Move) : List Char := [fileChar mv.dst.file, rankChar mv.dst.rank]
def promoL (mv : Move) : List Char :=
  match mv.promotion with
  | some p => ['=', promoChar p]
  | none => []
def checkL (c : Ctx) (mv : Move) : List Char := if c.givesCheck mv then ['+'] else []

def isKs (c : Ctx) (k : PieceKind) (mv : Move) : Prop :=
  k = .king ∧ mv.src = Game.kingStart c.player ∧ mv.dst = Game.kingsideCastleDest c.player
def isQs (c : Ctx) (k : PieceKind) (mv : Move) : Prop :=
  k = .king ∧ mv.src = Game.kingStart c.player ∧ mv.dst = Game.queensideCastleDest c.player

theorem format_chars (c : Ctx) (mv : Move) (t : String) (h : format c mv = some t) :
    ∃ k, c.kindAt mv.src = some k ∧
      ((isKs c k mv ∧ t.toList = ['O', '-', 'O'] ++ checkL c mv) ∨
       (¬ isKs c k mv ∧ isQs c k mv ∧ t.toList = ['O', '-', 'O', '-', 'O'] ++ checkL c mv) ∨
       (¬ isKs c k mv ∧ ¬ isQs c k mv ∧ ∃ amb, requiredAmbiguity c mv = some amb ∧
          t.toList = identL k mv ++ ambL amb mv ++ xL mv ++ dstL mv ++ promoL mv ++ checkL c mv)) := by
  unfold format at h
  cases hk : c.kindAt mv.src with
  | none => rw [hk] at h; cases h
  | some k =>
    refine ⟨k, rfl, ?_⟩
    rw [hk] at h
    simp only [bind, Option.bind, pure] at h
    have hcheck : (if c.givesCheck mv = true then "+" else "").toList = checkL c mv := by
      unfold checkL; split <;> rfl
    by_cases h1 : isKs c k mv
    · left
      unfold isKs at h1
      rw [if_pos h1] at h
      refine ⟨h1, ?_⟩
      rw [← Option.some.inj h, String.toList_append, hcheck]
      rfl
    · unfold isKs at h1
      rw [if_neg h1] at h
      right
      by_cases h2 : isQs c k mv
      · left
        unfold isQs at h2
        rw [if_pos h2] at h
        refine ⟨h1, h2, ?_⟩
        rw [← Option.some.inj h, String.toList_append, hcheck]
        rfl
      · right
        unfold isQs at h2
        rw [if_neg h2] at h
        refine ⟨h1, h2, ?_⟩
        cases ha : requiredAmbiguity c mv with
        | none => rw [ha] at h; cases h
        | some amb =>
          refine ⟨amb, rfl, ?_⟩
          rw [ha] at h
          rw [← Option.some.inj h]
          simp only [String.toList_append, hcheck]
          have hl : ∀ k : PieceKind, k ≠ .pawn → (pieceLetter k).toList = [kindChar k] := pieceLetter_toList
          have hpl : ∀ p : Promo, (promoLetter p).toList = [promoChar p] := promoLetter_toList
          by_cases hcap : mv.isCapture = true <;> cases hp : mv.promotion <;> cases k <;> cases amb <;>
            simp [identL, ambL, xL, dstL, promoL, hp, hcap, fileStr, rankStr, Sq.notation, String.toList_append, hpl,
              pieceLetter, kindChar]

/-! ### the source square -/

theorem sq_ext_fr (a b : Sq) (hf : a.file = b.file) (hr : a.rank = b.rank) : a = b := by
  apply Fin.ext
  unfold Sq.file Sq.rank at *
  omega

def resOf (amb : Ambiguity) (mv : Move) : Resolution :=
  match amb with
  | .none => .none | .file => .file mv.src.file | .rank => .rank mv.src.rank
  | .exact => .exact mv.src.file mv.src.rank

theorem parseResolution_ambL (amb : Ambiguity) (mv : Move) :
    parseResolution (ambL amb mv) = some (resOf amb mv) := by
  have h1 := parseFile_fileChar ⟨mv.src.file, file_lt _⟩
  have h2 := parseRank_rankChar ⟨mv.src.rank, rank_lt _⟩
  have h3 := parseFile_rankChar ⟨mv.src.rank, rank_lt _⟩
  simp only at h1 h2 h3
  cases amb <;> simp [ambL, resOf, parseResolution, h1, h2, h3]

theorem amb_of_pawn_king (c : Ctx) (mv : Move) (k : PieceKind) (amb : Ambiguity) (hk : c.kindAt mv.src = some k)
    (h : k = .pawn ∨ k = .king) (ha : requiredAmbiguity c mv = some amb) : amb = .none := by
  unfold requiredAmbiguity at ha
  simp only [hk] at ha
  rw [if_pos h] at ha
  exact (Option.some.inj ha).symm

/-- the writer's disambiguation leaves exactly one candidate -/
theorem amb_unique (c : Ctx) (mv : Move) (k : PieceKind) (amb : Ambiguity) (h : WF c mv)
    (hk : c.kindAt mv.src = some k) (hnp : k ≠ .pawn) (ha : requiredAmbiguity c mv = some amb)
    (x : Move) (hx : x ∈ c.legal) (hxk : c.kindAt x.src = some k) (hxd : x.dst = mv.dst)
    (hs : (resOf amb mv).satisfied x = true) : x = mv := by
  have same_src : x.src = mv.src → x = mv := fun e =>
    h.key x hx e hxd (by rw [h.noPromo x hx k hxk hnp, h.noPromo mv h.mem k hk hnp])
  by_cases hking : k = .king
  · subst hking
    exact same_src (h.king hk x hx hxk hxd)
  · apply Classical.byContradiction
    intro hne
    unfold requiredAmbiguity at ha
    simp only [hk] at ha
    rw [if_neg (by simp [hnp, hking])] at ha
    have hxc : x ∈ c.legal.filter (fun m => decide (m.dst = mv.dst ∧ c.kindAt m.src = some k ∧ m ≠ mv)) := by
      rw [List.mem_filter]
      exact ⟨hx, by simp [hxd, hxk, hne]⟩
    generalize c.legal.filter (fun m => decide (m.dst = mv.dst ∧ c.kindAt m.src = some k ∧ m ≠ mv)) = cands at ha hxc
    split at ha
    · rename_i he
      cases cands with
      | nil => cases hxc
      | cons _ _ => simp at he
    · cases hbf : cands.any (fun m => decide (m.src.file = mv.src.file)) <;>
      cases hbr : cands.any (fun m => decide (m.src.rank = mv.src.rank)) <;>
      rw [hbf, hbr] at ha <;> simp only [Option.some.injEq] at ha <;> subst ha
      · -- file
        have := List.any_eq_false.1 hbf x hxc
        simp only [resOf, Resolution.satisfied, beq_iff_eq] at hs
        simp [hs] at this
      · have := List.any_eq_false.1 hbf x hxc
        simp only [resOf, Resolution.satisfied, beq_iff_eq] at hs
        simp [hs] at this
      · have := List.any_eq_false.1 hbr x hxc
        simp only [resOf, Resolution.satisfied, beq_iff_eq] at hs
        simp [hs] at this
      · simp only [resOf, Resolution.satisfied, Bool.and_eq_true, beq_iff_eq] at hs
        exact hne (same_src (sq_ext_fr _ _ hs.1 hs.2))

theorem resOf_self (amb : Ambiguity) (mv : Move) : (resOf amb mv).satisfied mv = true := by
  cases amb <;> simp [resOf, Resolution.satisfied]

theorem parseSource_piece (c : Ctx) (mv : Move) (k : PieceKind) (amb : Ambiguity) (h : WF c mv)
    (hk : c.kindAt mv.src = some k) (hnp : k ≠ .pawn) (ha : requiredAmbiguity c mv = some amb) :
    parseSource c (kindChar k :: ambL amb mv) mv.dst = .ok mv.src := by
  unfold parseSource
  simp only []
  rw [if_neg (by rw [kinded_length c h.kinds]; simp)]
  simp only [parsePiece_kindChar, parseResolution_ambL]
  rw [kinded_filter_src c (fun x => decide (x.1 = k ∧ x.2.dst = mv.dst ∧ (resOf amb mv).satisfied x.2 = true))]
  rw [filter_singleton_of_unique c.legal _ mv h.nodup h.mem]
  · rfl
  · simp [hk, resOf_self]
  · intro x hx hq
    cases hxk : c.kindAt x.src with
    | none => rw [hxk] at hq; cases hq
    | some k' =>
      rw [hxk] at hq
      simp only [decide_eq_true_eq] at hq
      obtain ⟨e, hd, hs⟩ := hq
      subst e
      exact amb_unique c mv k' amb h hk hnp ha x hx hxk hd hs

theorem parseSource_pawn_push (c : Ctx) (mv : Move) (h : WF c mv) (hk : c.kindAt mv.src = some .pawn)
    (hcap : mv.isCapture = false) : parseSource c [] mv.dst = .ok mv.src := by
  unfold parseSource
  simp only []
  rw [if_neg (by rw [kinded_length c h.kinds]; simp)]
  rw [kinded_filter_src c (fun x => decide (x.1 = .pawn ∧ x.2.dst = mv.dst))]
  rw [dedup_const _ mv.src]
  · intro s hs
    obtain ⟨m, hm, e⟩ := List.mem_map.1 hs
    rw [List.mem_filter] at hm
    obtain ⟨hml, hq⟩ := hm
    cases hmk : c.kindAt m.src with
    | none => rw [hmk] at hq; cases hq
    | some k' =>
      rw [hmk] at hq
      simp only [decide_eq_true_eq] at hq
      rw [← e]
      exact h.pawnPush hk hcap m hml (by rw [hmk, hq.1]) hq.2
  · intro hnil
    have : mv.src ∈ (c.legal.filter fun m => match c.kindAt m.src with
        | some k => decide ((k, m).1 = PieceKind.pawn ∧ (k, m).2.dst = mv.dst) | none => false).map (·.src) :=
      List.mem_map.2 ⟨mv, List.mem_filter.2 ⟨h.mem, by simp [hk]⟩, rfl⟩
    rw [hnil] at this
    cases this

theorem parseSource_pawn_cap (c : Ctx) (mv : Move) (h : WF c mv) (hk : c.kindAt mv.src = some .pawn)
    (hcap : mv.isCapture = true) : parseSource c [fileChar mv.src.file] mv.dst = .ok mv.src := by
  unfold parseSource
  simp only []
  rw [if_neg (by rw [kinded_length c h.kinds]; simp)]
  have h1 := parsePiece_fileChar ⟨mv.src.file, file_lt _⟩
  have h2 := parseFile_fileChar ⟨mv.src.file, file_lt _⟩
  simp only at h1 h2
  simp only [h1, parseResolution, h2]
  rw [kinded_filter_src c (fun x => decide (x.1 = .pawn ∧ x.2.dst = mv.dst ∧
    (Resolution.file mv.src.file).satisfied x.2 = true))]
  rw [dedup_const _ mv.src]
  · intro s hs
    obtain ⟨m, hm, e⟩ := List.mem_map.1 hs
    rw [List.mem_filter] at hm
    obtain ⟨hml, hq⟩ := hm
    cases hmk : c.kindAt m.src with
    | none => rw [hmk] at hq; cases hq
    | some k' =>
      rw [hmk] at hq
      simp only [decide_eq_true_eq, Resolution.satisfied, beq_iff_eq] at hq
      rw [← e]
      exact h.pawnCap hk hcap m hml (by rw [hmk, hq.1]) hq.2.1 hq.2.2
  · intro hnil
    have : mv.src ∈ (c.legal.filter fun m => match c.kindAt m.src with
        | some k => decide ((k, m).1 = PieceKind.pawn ∧ (k, m).2.dst = mv.dst ∧
            (Resolution.file mv.src.file).satisfied (k, m).2 = true) | none => false).map (·.src) :=
      List.mem_map.2 ⟨mv, List.mem_filter.2 ⟨h.mem, by simp [hk, Resolution.satisfied]⟩, rfl⟩
    rw [hnil] at this
    cases this

/-! ### the whole reader on the whole text -/

def plainL (l : List Char) : Prop := ∀ ch ∈ l, plain ch = true

theorem plainL_append {a b : List Char} (ha : plainL a) (hb : plainL b) : plainL (a ++ b) := by
  intro ch h
  rcases List.mem_append.1 h with h | h
  · exact ha ch h
  · exact hb ch h

theorem plain_ne {ch : Char} (h : plain ch = true) :
    ch ≠ '+' ∧ ch ≠ '#' ∧ ch ≠ '=' ∧ ch ≠ 'x' ∧ ch ≠ 'O' ∧ ch ≠ '-' := by
  unfold plain at h
  simp only [Bool.and_eq_true, bne_iff_ne, ne_eq] at h
  obtain ⟨⟨⟨⟨⟨h1, h2⟩, h3⟩, h4⟩, h5⟩, h6⟩ := h
  exact ⟨h1, h2, h3, h4, h5, h6⟩

theorem plainL_ident (k : PieceKind) (mv : Move) : plainL (identL k mv) := by
  intro ch h
  unfold identL at h
  have hf := plain_file ⟨mv.src.file, file_lt _⟩
  cases k <;> simp only [] at h
  · split at h
    · rw [List.mem_singleton.1 h]; exact hf
    · cases h
  all_goals (rw [List.mem_singleton.1 h]; exact plain_kind _)

theorem plainL_amb (amb : Ambiguity) (mv : Move) : plainL (ambL amb mv) := by
  intro ch h
  have hf : plain (fileChar mv.src.file) = true := plain_file ⟨mv.src.file, file_lt _⟩
  have hr : plain (rankChar mv.src.rank) = true := plain_rank ⟨mv.src.rank, rank_lt _⟩
  cases amb with
  | none => cases h
  | file =>
    have h' : ch ∈ [fileChar mv.src.file] := h
    rw [List.mem_singleton.1 h']; exact hf
  | rank =>
    have h' : ch ∈ [rankChar mv.src.rank] := h
    rw [List.mem_singleton.1 h']; exact hr
  | exact =>
    have h' : ch ∈ [fileChar mv.src.file, rankChar mv.src.rank] := h
    rcases List.mem_cons.1 h' with e | h2
    · rw [e]; exact hf
    · rw [List.mem_singleton.1 h2]; exact hr

theorem plainL_dst (mv : Move) : plainL (dstL mv) := by
  intro ch h
  simp only [dstL, List.mem_cons, List.not_mem_nil, or_false] at h
  rcases h with h | h <;> rw [h]
  · exact plain_file ⟨mv.dst.file, file_lt _⟩
  · exact plain_rank ⟨mv.dst.rank, rank_lt _⟩

theorem not_mem_of_plainL {l : List Char} (h : plainL l) :
    '=' ∉ l ∧ 'x' ∉ l ∧ '+' ∉ l ∧ '#' ∉ l := by
  refine ⟨fun hm => ?_, fun hm => ?_, fun hm => ?_, fun hm => ?_⟩
  · exact (plain_ne (h _ hm)).2.2.1 rfl
  · exact (plain_ne (h _ hm)).2.2.2.1 rfl
  · exact (plain_ne (h _ hm)).1 rfl
  · exact (plain_ne (h _ hm)).2.1 rfl

/-- the two strippers of the reader remove the check suffix and nothing else -/
theorem strip_suffix (pre : List Char) (x : Char) (c : Ctx) (mv : Move) (h1 : x ≠ '+') (h2 : x ≠ '#') :
    dropSuffixChars (dropSuffixChars (pre ++ [x] ++ checkL c mv) '+') '#' = pre ++ [x] := by
  unfold checkL
  split
  · rw [dropSuffix_one pre x '+' h1, dropSuffix_id pre x '#' h2]
  · rw [List.append_nil, dropSuffix_id pre x '+' h1, dropSuffix_id pre x '#' h2]

theorem take_drop_two (a : List Char) (x y : Char) :
    ((a ++ [x, y]).take ((a ++ [x, y]).length - 2), (a ++ [x, y]).drop ((a ++ [x, y]).length - 2)) = (a, [x, y]) := by
  have : (a ++ [x, y]).length - 2 = a.length := by simp
  rw [this, List.take_left', List.drop_left']
  · rfl
  · rfl

/-- **parse_format**: the reader returns the move whose text the writer produced -/
theorem parse_format (c : Ctx) (mv : Move) (t : String) (h : WF c mv) (hf : format c mv = some t) :
    parse c t = .ok mv := by
  obtain ⟨k, hk, hcase⟩ := format_chars c mv t hf
  have hpromo_piece : k ≠ .pawn → mv.promotion = none := fun hnp => h.noPromo mv h.mem k hk hnp
  unfold parse
  rcases hcase with ⟨hks, ht⟩ | ⟨_, hqs, ht⟩ | ⟨hks, hqs, amb, ha, ht⟩
  · -- O-O
    have hl : dropSuffixChars (dropSuffixChars t.toList '+') '#' = ['O', '-', 'O'] := by
      rw [ht]; exact strip_suffix ['O', '-'] 'O' c mv (by decide) (by decide)
    simp only [hl]
    rw [if_pos (by decide)]
    have := expectMatching_of_key c mv h
    rw [hks.2.1, hks.2.2, hpromo_piece (by rw [hks.1]; decide)] at this
    exact this
  · have hl : dropSuffixChars (dropSuffixChars t.toList '+') '#' = ['O', '-', 'O', '-', 'O'] := by
      rw [ht]; exact strip_suffix ['O', '-', 'O', '-'] 'O' c mv (by decide) (by decide)
    simp only [hl]
    rw [if_neg (by decide), if_pos (by decide)]
    have := expectMatching_of_key c mv h
    rw [hqs.2.1, hqs.2.2, hpromo_piece (by rw [hqs.1]; decide)] at this
    exact this
  · -- ordinary move
    have hsrcP : plainL (identL k mv ++ ambL amb mv) := plainL_append (plainL_ident k mv) (plainL_amb amb mv)
    have hdstP := plainL_dst mv
    -- the text without its check suffix
    have hl : dropSuffixChars (dropSuffixChars t.toList '+') '#' =
        identL k mv ++ ambL amb mv ++ xL mv ++ dstL mv ++ promoL mv := by
      rw [ht]
      cases hp : mv.promotion with
      | none =>
        have e : identL k mv ++ ambL amb mv ++ xL mv ++ dstL mv ++ promoL mv =
            (identL k mv ++ ambL amb mv ++ xL mv ++ [fileChar mv.dst.file]) ++ [rankChar mv.dst.rank] := by
          simp [promoL, hp, dstL]
        rw [e]
        have hr := plain_ne (plain_rank ⟨mv.dst.rank, rank_lt _⟩)
        exact strip_suffix _ _ c mv hr.1 hr.2.1
      | some p =>
        have e : identL k mv ++ ambL amb mv ++ xL mv ++ dstL mv ++ promoL mv =
            (identL k mv ++ ambL amb mv ++ xL mv ++ dstL mv ++ ['=']) ++ [promoChar p] := by
          simp [promoL, hp]
        rw [e]
        have hr := plain_ne (plain_promo p)
        exact strip_suffix _ _ c mv hr.1 hr.2.1
    simp only [hl]
    -- not castling text: the first character is not 'O'
    have hhead : ∀ rest : List Char, identL k mv ++ ambL amb mv ++ xL mv ++ dstL mv ++ promoL mv ≠ 'O' :: rest := by
      intro rest e
      have hfc := (plain_ne (plain_file ⟨mv.dst.file, file_lt _⟩)).2.2.2.2.1
      have hsf := (plain_ne (plain_file ⟨mv.src.file, file_lt _⟩)).2.2.2.2.1
      cases k <;> simp only [identL, List.cons_append, List.nil_append, List.cons.injEq] at e
      · -- pawn
        split at e
        · simp only [List.cons_append, List.nil_append, List.cons.injEq] at e
          exact hsf e.1
        · have := amb_of_pawn_king c mv .pawn amb hk (Or.inl rfl) ha
          subst this
          rename_i hc
          simp only [ambL, xL, hc, dstL, List.nil_append, List.cons_append, Bool.false_eq_true, if_false,
            List.cons.injEq] at e
          exact hfc e.1
      all_goals exact absurd e.1 (by decide)
    have c1 : "O-O".toList = 'O' :: ['-', 'O'] := by decide
    have c2 : "O-O-O".toList = 'O' :: ['-', 'O', '-', 'O'] := by decide
    rw [if_neg (fun e => hhead _ (e.trans c1)), if_neg (fun e => hhead _ (e.trans c2))]
    -- promotion split
    have hbodyEq : '=' ∉ identL k mv ++ ambL amb mv ++ xL mv ++ dstL mv := by
      intro hm
      rcases List.mem_append.1 hm with hm | hm
      · rcases List.mem_append.1 hm with hm | hm
        · exact (not_mem_of_plainL hsrcP).1 hm
        · unfold xL at hm; split at hm
          · simp at hm
          · cases hm
      · exact (not_mem_of_plainL hdstP).1 hm
    have hsplitP : promoSplit (identL k mv ++ ambL amb mv ++ xL mv ++ dstL mv ++ promoL mv) =
        some (identL k mv ++ ambL amb mv ++ xL mv ++ dstL mv, mv.promotion) := by
      unfold promoSplit
      cases hp : mv.promotion with
      | none =>
        simp only [promoL, hp, List.append_nil]
        rw [splitOnce_none _ _ hbodyEq]
      | some p =>
        have e : promoL mv = '=' :: [promoChar p] := by simp [promoL, hp]
        rw [e, splitOnce_mid _ _ _ hbodyEq]
        cases p <;> rfl
    rw [hsplitP]
    simp only []
    unfold parseBody
    -- capture split
    have hsplitX : splitSrcDst (identL k mv ++ ambL amb mv ++ xL mv ++ dstL mv) =
        some (identL k mv ++ ambL amb mv, dstL mv) := by
      unfold splitSrcDst
      by_cases hc : mv.isCapture = true
      · have e : identL k mv ++ ambL amb mv ++ xL mv ++ dstL mv = (identL k mv ++ ambL amb mv) ++ 'x' :: dstL mv := by
          simp [xL, hc]
        rw [e, splitOnce_mid _ _ _ (not_mem_of_plainL hsrcP).2.1]
      · have e : identL k mv ++ ambL amb mv ++ xL mv ++ dstL mv =
            (identL k mv ++ ambL amb mv) ++ [fileChar mv.dst.file, rankChar mv.dst.rank] := by
          simp [xL, hc, dstL]
        have hx : 'x' ∉ identL k mv ++ ambL amb mv ++ [fileChar mv.dst.file, rankChar mv.dst.rank] :=
          (not_mem_of_plainL (plainL_append hsrcP hdstP)).2.1
        rw [e, splitOnce_none _ _ hx]
        simp only []
        rw [if_neg (by simp; omega), take_drop_two]
        rfl
    rw [hsplitX]
    simp only []
    have hd : parseDest (dstL mv) = some (some mv.dst) := parseDest_notation mv.dst
    rw [hd]
    simp only []
    -- the source square
    have hsrc : parseSource c (identL k mv ++ ambL amb mv) mv.dst = .ok mv.src := by
      by_cases hpw : k = .pawn
      · subst hpw
        have := amb_of_pawn_king c mv .pawn amb hk (Or.inl rfl) ha
        subst this
        by_cases hc : mv.isCapture = true
        · have e : identL .pawn mv ++ ambL .none mv = [fileChar mv.src.file] := by simp [identL, ambL, hc]
          rw [e]; exact parseSource_pawn_cap c mv h hk hc
        · have e : identL .pawn mv ++ ambL .none mv = [] := by simp [identL, ambL, hc]
          rw [e]; exact parseSource_pawn_push c mv h hk (by simpa using hc)
      · have e : identL k mv ++ ambL amb mv = kindChar k :: ambL amb mv := by
          cases k <;> first | exact absurd rfl hpw | rfl
        rw [e]; exact parseSource_piece c mv k amb h hk hpw ha
    rw [hsrc]
    exact expectMatching_of_key c mv h

/-- **format_injective**: the text names no other legal move of the position -/
theorem format_injective (c : Ctx) (m1 m2 : Move) (t : String) (h1 : WF c m1) (h2 : WF c m2)
    (f1 : format c m1 = some t) (f2 : format c m2 = some t) : m1 = m2 := by
  have a := parse_format c m1 t h1 f1
  have b := parse_format c m2 t h2 f2
  rw [a] at b
  exact Outcome.ok.inj b

end San
end Tcheran
