import TcheranVerif.Proofs.Pawns
import TcheranVerif.Proofs.Geo.E
/-!
# En passant (C01)

The engine decides an e.p. capture on a scratch board, which is literally the rules' test; what needs
proof is that its three shortcuts (capturer not orthogonally pinned, diagonal pin only along the capture,
check mask must contain the target or the captured pawn) never discard a legal capture.
-/

namespace Tcheran
open Board Geometry Rules

/-- mailbox after an e.p. capture: `s` and `v` vacated, own pawn on `d` -/
structure EpStep (b b' : RBoard) (p : Player) (s d v : Sq) : Prop where
  src_own : ∃ X, at' b s = some X ∧ X.player = p
  dst_own : ∃ Y, at' b' d = some Y ∧ Y.player = p ∧ Y.kind ≠ .king
  src_empty : at' b' s = none
  cap_empty : at' b' v = none
  off : ∀ x, x ≠ s → x ≠ d → x ≠ v → at' b' x = at' b x
  ne : s ≠ d ∧ v ≠ d ∧ v ≠ s

theorem ep_attacked_iff (b b' : RBoard) (p : Player) (k s d v : Sq) (h : EpStep b b' p s d v) :
    attacked b' p.other k = true ↔
      ∃ q, Geo b p.other q k ∧ q ≠ d ∧ q ≠ v ∧ d ∉ betweenList k q ∧
        ∀ x ∈ betweenList k q, x = s ∨ x = v ∨ occOf b x = false := by
  rw [attacked_iff]
  have hpo : ∀ X : Piece, X.player = p → X.player ≠ p.other := by
    intro X e; rw [e]; cases p <;> simp [Player.other]
  obtain ⟨X, hX, hXp⟩ := h.src_own
  obtain ⟨Y, hY, hYp, _⟩ := h.dst_own
  have hocc' : ∀ x, occOf b' x = false ↔ (x ≠ d ∧ (x = s ∨ x = v ∨ occOf b x = false)) := by
    intro x
    unfold occOf
    by_cases h1 : x = d
    · subst h1; rw [hY]; simp
    · by_cases h2 : x = s
      · subst h2; rw [h.src_empty]; simp [h1]
      · by_cases h3 : x = v
        · subst h3; rw [h.cap_empty]; simp [h1]
        · rw [h.off x h2 h1 h3]; simp [h1, h2, h3]
  constructor
  · rintro ⟨q, hq⟩
    obtain ⟨hg, he⟩ := (attacksFrom_iff_geo b' p.other q k).1 hq
    have hqd : q ≠ d := by
      intro e; subst e
      obtain ⟨kk, a, _⟩ := hg
      rw [hY] at a
      have := hpo Y hYp
      rw [Option.some.inj a] at this
      exact this rfl
    have hqs : q ≠ s := by
      intro e; subst e
      obtain ⟨kk, a, _⟩ := hg
      rw [h.src_empty] at a; cases a
    have hqv : q ≠ v := by
      intro e; subst e
      obtain ⟨kk, a, _⟩ := hg
      rw [h.cap_empty] at a; cases a
    refine ⟨q, (geo_congr b' b p.other q k (h.off q hqs hqd hqv)).1 hg, hqd, hqv, ?_, ?_⟩
    · intro hm; exact ((hocc' d).1 (he d hm)).1 rfl
    · intro x hx; exact ((hocc' x).1 (he x hx)).2
  · rintro ⟨q, hg, hqd, hqv, hdn, he⟩
    have hqs : q ≠ s := by
      intro e; subst e
      obtain ⟨kk, a, _⟩ := hg
      rw [hX] at a
      have := hpo X hXp
      rw [Option.some.inj a] at this
      exact this rfl
    refine ⟨q, (attacksFrom_iff_geo b' p.other q k).2
      ⟨(geo_congr b' b p.other q k (h.off q hqs hqd hqv)).2 hg, ?_⟩⟩
    intro x hx
    exact (hocc' x).2 ⟨fun e => hdn (e ▸ hx), he x hx⟩

/-- placement after an e.p. capture -/
theorem applyBoard_ep (b : RBoard) (p : Player) (s t v : Sq) (X : Piece)
    (hsrc : at' b s = some X) (hv : offset t 0 (-(fwd p)) = some v) (x : Sq) :
    at' (applyBoard b p (Move.enPassant s t)) x =
      if x = v then none else if x = t then some X else if x = s then none else at' b x := by
  unfold applyBoard
  show at' (match at' b s with
    | none => b
    | some moved => _) x = _
  rw [hsrc]
  simp only [Move.enPassant, Move.promotion, Move.isEnPassant, Move.isCastling, beq_self_eq_true, if_true]
  rw [hv]
  simp only [show (MoveFlag.enPassant == MoveFlag.castle) = false from rfl, Bool.false_eq_true, if_false]
  rw [at_setSq, at_setSq, at_setSq]

end Tcheran

namespace Tcheran
open Board Geometry Rules

/-- the e.p. target is empty and the pawn to be captured stands behind it -/
def EpOk (sq : RBoard) (p : Player) (ep : Option Sq) : Prop :=
  ∀ t, ep = some t → at' sq t = none ∧ ∃ v, offset t 0 (-(fwd p)) = some v ∧ at' sq v = some ⟨.pawn, p.other⟩

theorem squares_eq_of_at (a b : RBoard) (h : ∀ x, at' a x = at' b x) : a = b :=
  squares_ext a b (fun s => h s)

/-- the scratch board of the e.p. test is the rules' board after the capture -/
theorem ep_scratch (bd : Board) (hc : Consistent bd) (p : Player) (s t v : Sq)
    (hs : at' bd.squares s = some ⟨.pawn, p⟩) (ht : at' bd.squares t = none)
    (hv : offset t 0 (-(fwd p)) = some v) (hne : s ≠ t ∧ v ≠ t ∧ v ≠ s) :
    Consistent (((bd.removeAt s).removeAt v).setAt t ⟨.pawn, p⟩) ∧
    (((bd.removeAt s).removeAt v).setAt t ⟨.pawn, p⟩).squares = applyBoard bd.squares p (Move.enPassant s t) := by
  have he : ((bd.removeAt s).removeAt v).pieceAt t = none := by
    rw [pieceAt_removeAt, if_neg (Ne.symm hne.2.1), pieceAt_removeAt, if_neg (Ne.symm hne.1)]
    exact ht
  refine ⟨consistent_setAt _ t _ (consistent_removeAt _ v (consistent_removeAt bd s hc)) he, ?_⟩
  apply squares_eq_of_at
  intro x
  rw [applyBoard_ep bd.squares p s t v _ hs hv x]
  show (((bd.removeAt s).removeAt v).setAt t ⟨.pawn, p⟩).pieceAt x = _
  rw [pieceAt_setAt, pieceAt_removeAt, pieceAt_removeAt]
  by_cases h1 : x = v
  · subst h1; rw [if_neg hne.2.1, if_pos rfl, if_pos rfl]
  · rw [if_neg h1, if_neg h1]
    rfl

theorem mem_epCond (cm : BB) (t v : Sq) :
    (cm &&& (bb t ||| bb v)) ≠ 0#64 ↔ (mem cm t = true ∨ mem cm v = true) := by
  rw [bb_ne_zero_iff]
  constructor
  · rintro ⟨x, hx⟩
    rw [mem_and, mem_or, mem_bb, mem_bb, Bool.and_eq_true, Bool.or_eq_true, decide_eq_true_eq,
      decide_eq_true_eq] at hx
    rcases hx.2 with e | e
    · exact Or.inl (e ▸ hx.1)
    · exact Or.inr (e ▸ hx.1)
  · rintro (h | h)
    · exact ⟨t, by rw [mem_and, mem_or, mem_bb, h]; simp⟩
    · exact ⟨v, by rw [mem_and, mem_or, mem_bb, mem_bb, h]; simp⟩

/-- **en_passant_exact** -/
theorem enPassant_spec (T : SliderTables) (g : Game) (k : Sq) (c : Ctx g.board g.player k) (cm op dp : BB)
    (ms : MaskSpec g.board g.player k cm op dp) (hep : EpOk g.board.squares g.player g.ep) :
    ∃ L, Gen.pawnEnPassant g (g.board.pawnsOf g.player) k cm op dp = some L ∧
      ∀ m, m ∈ L ↔ ∃ s df t, at' g.board.squares s = some ⟨.pawn, g.player⟩ ∧ df ∈ ([-1, 1] : List Int) ∧
        offset s df (fwd g.player) = some t ∧ at' g.board.squares t = none ∧ g.ep = some t ∧
        m = Move.enPassant s t ∧ inCheck (applyBoard g.board.squares g.player m) g.player = false := by
  have hc := c.cons
  generalize hp : g.player = p at *
  generalize hbd : g.board = bd at *
  cases hepv : g.ep with
  | none =>
    refine ⟨[], ?_, ?_⟩
    · unfold Gen.pawnEnPassant; rw [hepv]
    · intro m
      constructor
      · intro h; cases h
      · rintro ⟨_, _, _, _, _, _, _, h, _⟩; cases h
  | some t =>
    obtain ⟨ht, v, hv, hvp⟩ := hep t hepv
    have hback : t.backward p = some v := by rw [Geo.backward_offset t p (Geo.mem_players' p)]; exact hv
    -- facts about one capturer
    have hcap : ∀ s df, at' bd.squares s = some ⟨.pawn, p⟩ → df ∈ ([-1, 1] : List Int) →
        offset s df (fwd p) = some t →
        (s ≠ t ∧ v ≠ t ∧ v ≠ s) := by
      intro s df hs hdf ho
      have := Geo.ep_squares s p (Geo.mem_players' p) df hdf
      rw [ho] at this
      simp only at this
      rw [hv] at this
      simp only [decide_eq_true_eq] at this
      exact ⟨this.2.2, this.1, this.2.1⟩
    -- the engine's scratch test is the rules' legality test
    have hL1 : ∀ s df, at' bd.squares s = some ⟨.pawn, p⟩ → df ∈ ([-1, 1] : List Int) →
        offset s df (fwd p) = some t →
        ((attackersOf (((bd.removeAt s).removeAt v).setAt t ⟨.pawn, p⟩) p k != 0#64) = false ↔
          inCheck (applyBoard bd.squares p (Move.enPassant s t)) p = false) := by
      intro s df hs hdf ho
      have hne := hcap s df hs hdf ho
      obtain ⟨hcons, hsq⟩ := ep_scratch bd hc p s t v hs ht hv hne
      have hk2 : ∀ x, at' (applyBoard bd.squares p (Move.enPassant s t)) x = some ⟨.king, p⟩ ↔ x = k := by
        intro x
        rw [applyBoard_ep bd.squares p s t v _ hs hv x]
        by_cases h1 : x = v
        · rw [if_pos h1]
          constructor
          · intro e; cases e
          · intro e
            rw [h1] at e
            rw [e, (c.king k).2 rfl] at hvp; cases hvp
        · rw [if_neg h1]
          by_cases h2 : x = t
          · rw [if_pos h2]
            constructor
            · intro e; cases e
            · intro e
              rw [h2] at e
              rw [e, (c.king k).2 rfl] at ht; cases ht
          · rw [if_neg h2]
            by_cases h3 : x = s
            · rw [if_pos h3]
              constructor
              · intro e; cases e
              · intro e
                rw [h3] at e
                rw [e, (c.king k).2 rfl] at hs; cases hs
            · rw [if_neg h3]; exact c.king x
      unfold inCheck
      rw [kingSq_unique _ p k hk2]
      simp only
      rw [← hsq]
      have := attackersOf_ne_zero T _ hcons p k
      constructor
      · intro h
        cases ha : attacked (((bd.removeAt s).removeAt v).setAt t ⟨.pawn, p⟩).squares p.other k with
        | false => rfl
        | true =>
          rw [(ne_zero_bne _).2 (this.2 ha)] at h; cases h
      · intro h
        cases hb : (attackersOf (((bd.removeAt s).removeAt v).setAt t ⟨.pawn, p⟩) p k != 0#64) with
        | false => rfl
        | true => rw [this.1 ((ne_zero_bne _).1 hb)] at h; cases h
    -- a legal capture passes the three shortcuts
    have hL2 : ∀ s df, at' bd.squares s = some ⟨.pawn, p⟩ → df ∈ ([-1, 1] : List Int) →
        offset s df (fwd p) = some t →
        inCheck (applyBoard bd.squares p (Move.enPassant s t)) p = false →
        (mem op s = false ∧ (mem dp s = true → mem dp t = true) ∧ (mem cm t = true ∨ mem cm v = true)) := by
      intro s df hs hdf ho hl
      have hne := hcap s df hs hdf ho
      have hsown : ∃ X, at' bd.squares s = some X ∧ X.player = p := ⟨_, hs, rfl⟩
      have hstep : EpStep bd.squares (applyBoard bd.squares p (Move.enPassant s t)) p s t v :=
        { src_own := hsown
          dst_own := ⟨⟨.pawn, p⟩, by
            rw [applyBoard_ep bd.squares p s t v _ hs hv t, if_neg (Ne.symm hne.2.1), if_pos rfl], rfl, by simp⟩
          src_empty := by
            rw [applyBoard_ep bd.squares p s t v _ hs hv s, if_neg (Ne.symm hne.2.2), if_neg hne.1, if_pos rfl]
          cap_empty := by rw [applyBoard_ep bd.squares p s t v _ hs hv v, if_pos rfl]
          off := fun x h1 h2 h3 => by
            rw [applyBoard_ep bd.squares p s t v _ hs hv x, if_neg h3, if_neg h2, if_neg h1]
          ne := ⟨hne.1, hne.2.1, hne.2.2⟩ }
      -- the king is where it was
      have hk2 : kingSq (applyBoard bd.squares p (Move.enPassant s t)) p = some k := by
        apply kingSq_unique
        intro x
        rw [applyBoard_ep bd.squares p s t v _ hs hv x]
        by_cases h1 : x = v
        · rw [if_pos h1]
          constructor
          · intro e; cases e
          · intro e; rw [h1] at e; rw [e, (c.king k).2 rfl] at hvp; cases hvp
        · rw [if_neg h1]
          by_cases h2 : x = t
          · rw [if_pos h2]
            constructor
            · intro e; cases e
            · intro e; rw [h2] at e; rw [e, (c.king k).2 rfl] at ht; cases ht
          · rw [if_neg h2]
            by_cases h3 : x = s
            · rw [if_pos h3]
              constructor
              · intro e; cases e
              · intro e; rw [h3] at e; rw [e, (c.king k).2 rfl] at hs; cases hs
            · rw [if_neg h3]; exact c.king x
      unfold inCheck at hl
      rw [hk2] at hl
      simp only at hl
      have hno : ¬ ∃ q, Geo bd.squares p.other q k ∧ q ≠ t ∧ q ≠ v ∧ t ∉ betweenList k q ∧
          ∀ x ∈ betweenList k q, x = s ∨ x = v ∨ occOf bd.squares x = false := by
        intro hex
        rw [(ep_attacked_iff _ _ p k s t v hstep).2 hex] at hl; cases hl
      -- every man attacking through `s` has the target between it and the king
      have hkey : ∀ q, Geo bd.squares p.other q k → q ≠ v →
          (∀ x ∈ betweenList k q, x = s ∨ x = v ∨ occOf bd.squares x = false) → t ∈ betweenList k q := by
        intro q hg hqv hth
        apply Decidable.byContradiction
        intro hn
        have hqt : q ≠ t := by
          intro e
          obtain ⟨kk, a, _⟩ := hg
          rw [e, ht] at a; cases a
        exact hno ⟨q, hg, hqt, hqv, hn, hth⟩
      have hslider_ne_v : ∀ (k1 : PieceKind) (F : List Dir) (q : Sq), k1 ≠ .pawn →
          SliderGeo bd.squares p.other k1 F k q → q ≠ v := by
        intro k1 F q hk1 hq e
        obtain ⟨a | a, _⟩ := hq
        · rw [e, hvp] at a
          have := Option.some.inj a
          simp only [Piece.mk.injEq] at this
          exact hk1 this.1.symm
        · rw [e, hvp] at a
          have := Option.some.inj a
          simp only [Piece.mk.injEq] at this
          cases this.1
      have hr := Geo.capture_ray s p (Geo.mem_players p) df hdf
      rw [ho] at hr
      simp only [Bool.and_eq_true, List.isEmpty_iff, List.any_eq_true] at hr
      obtain ⟨⟨dir2, hdir2, hcon⟩, _⟩ := hr
      have htr : t ∈ ray dir2 s := contains_mem hcon
      refine ⟨?_, ?_, ?_⟩
      · -- not orthogonally pinned
        cases hm : mem op s with
        | false => rfl
        | true =>
          exfalso
          obtain ⟨q, hq, hx, hsq⟩ := (ms.orth s).1 hm
          have hsb : s ∈ betweenList k q := by
            rcases hsq with e | e
            · exact absurd e (own_ne_enemy hsown (sliderGeo_enemy hq))
            · exact e
          have hth := through_of_xr hsown hsb hx
          have htb := hkey q (geo_of_orth _ _ q k hq) (hslider_ne_v _ _ q (by simp) hq)
            (fun x hx' => (hth x hx').imp id Or.inr)
          obtain ⟨_, dirO, hdO, hqr⟩ := hq
          have hdOa := cardinal_sub dirO hdO
          have hiff := Geo.same_ray_family k dirO hdOa s (bl_same_ray hdOa hqr hsb) t (bl_same_ray hdOa hqr htb)
            dir2 (diagonal_sub dir2 hdir2) htr
          rcases Geo.dir_family dir2 (diagonal_sub dir2 hdir2) with ⟨_, cc⟩ | ⟨_, cc⟩
          · exact cc hdir2
          · exact cc (hiff.2 hdO)
      · -- a diagonal pin is respected
        intro hm
        obtain ⟨q, hq, hx, hsq⟩ := (ms.diag s).1 hm
        have hsb : s ∈ betweenList k q := by
          rcases hsq with e | e
          · exact absurd e (own_ne_enemy hsown (sliderGeo_enemy hq))
          · exact e
        have hth := through_of_xr hsown hsb hx
        have htb := hkey q (geo_of_diag _ _ q k hq) (hslider_ne_v _ _ q (by simp) hq)
          (fun x hx' => (hth x hx').imp id Or.inr)
        exact (ms.diag t).2 ⟨q, hq, hx, Or.inr htb⟩
      · -- the check mask contains the target or the captured pawn
        rw [ms.check t, ms.check v]
        by_cases hvc : AttacksFrom bd.squares p.other v k
        · -- the pawn to be captured gives check: it is the only checker
          right
          intro c' hc'
          by_cases hcv : c' = v
          · exact Or.inl hcv
          · exfalso
            obtain ⟨hg', he'⟩ := (attacksFrom_iff_geo _ _ c' k).1 hc'
            have htb := hkey c' hg' hcv (fun x hx' => Or.inr (Or.inr (he' x hx')))
            obtain ⟨dir, hdir, _, htr', _⟩ := bl_on_ray htb
            -- `v` attacks `k` as a pawn
            obtain ⟨kk, a, hkind⟩ := hvc
            rw [hvp] at a
            have hkk : kk = .pawn := by
              have := Option.some.inj a
              simp only [Piece.mk.injEq] at this
              exact this.1.symm
            subst hkk
            have hoff : ∃ df' ∈ ([-1, 1] : List Int), offset k df' (fwd p) = some v := by
              have hf := Geo.fwd_other' p (Geo.mem_players' p)
              rcases hkind with ⟨_, h | h⟩ | ⟨h, _⟩ | ⟨h, _⟩ | ⟨h | h, _⟩ | ⟨h | h, _⟩
              · exact ⟨-1, by simp, by rw [hf, Int.neg_neg] at h; exact h⟩
              · exact ⟨1, by simp, by rw [hf, Int.neg_neg] at h; exact h⟩
              all_goals cases h
            obtain ⟨df', hdf', ho'⟩ := hoff
            have hfact := Geo.ep_check_square k p (Geo.mem_players' p) df' hdf'
            rw [ho'] at hfact
            simp only at hfact
            rw [(Geo.vertical_symm t v p (Geo.mem_players' p)).1 hv] at hfact
            simp only [List.all_eq_true, Bool.not_eq_true'] at hfact
            have := hfact dir hdir
            rw [List.contains_iff_mem.2 htr'] at this
            cases this
        · left
          intro c' hc'
          have hcv : c' ≠ v := fun e => hvc (e ▸ hc')
          obtain ⟨hg', he'⟩ := (attacksFrom_iff_geo _ _ c' k).1 hc'
          exact Or.inr (hkey c' hg' hcv (fun x hx' => Or.inr (Or.inr (he' x hx'))))
    -- the list
    let test : Sq → List Move := fun start =>
      if !(mem dp start) || mem dp t then
        (if !(attackersOf (((bd.removeAt start).removeAt v).setAt t ⟨.pawn, p⟩) p k != 0#64)
          then [Move.enPassant start t] else [])
      else []
    have hcapturers : ∀ s, mem (bd.pawnsOf p &&& ~~~op &&& pawnAttacks t p.other) s = true ↔
        (at' bd.squares s = some ⟨.pawn, p⟩ ∧ mem op s = false ∧
          ∃ df ∈ ([-1, 1] : List Int), offset s df (fwd p) = some t) := by
      intro s
      rw [mem_and, mem_and, mem_not, Bool.and_eq_true, Bool.and_eq_true, mem_pawnsOf bd hc, mem_pawnAttacks]
      simp only [Bool.not_eq_true']
      have e1 := Geo.pawn_attack_symm s t p (Geo.mem_players' p) 1 (by simp)
      have e2 := Geo.pawn_attack_symm s t p (Geo.mem_players' p) (-1) (by simp)
      rw [show (-(-1 : Int)) = 1 from rfl] at e2
      constructor
      · rintro ⟨⟨a, b⟩, h | h⟩
        · exact ⟨a, b, 1, by simp, e1.2 h⟩
        · exact ⟨a, b, -1, by simp, e2.2 h⟩
      · rintro ⟨a, b, df, hdf, h⟩
        refine ⟨⟨a, b⟩, ?_⟩
        simp only [List.mem_cons, List.mem_nil_iff, or_false] at hdf
        rcases hdf with e | e <;> subst e
        · exact Or.inr (e2.1 h)
        · exact Or.inl (e1.1 h)
    by_cases hcond : (cm &&& (bb t ||| bb v)) ≠ 0#64
    · refine ⟨(BB.toList (bd.pawnsOf p &&& ~~~op &&& pawnAttacks t p.other)).flatMap test, ?_, ?_⟩
      · unfold Gen.pawnEnPassant
        rw [hepv]
        simp only [hp, hbd]
        show (do let capturedPawn ← t.backward p; _) = _
        rw [hback]
        show (if (cm &&& (bb t ||| bb v)) ≠ 0#64 then _ else _) = _
        rw [if_pos hcond]
        rfl
      · intro m
        rw [List.mem_flatMap]
        simp only [mem_toList, hcapturers]
        constructor
        · rintro ⟨s, ⟨hs, hop, df, hdf, ho⟩, hm⟩
          simp only [test] at hm
          split at hm
          · split at hm
            · rename_i htest
              have e := List.mem_singleton.1 hm
              refine ⟨s, df, t, hs, hdf, ho, ht, rfl, e, ?_⟩
              rw [e]
              exact (hL1 s df hs hdf ho).1 (by simpa using htest)
            · cases hm
          · cases hm
        · rintro ⟨s, df, t', hs, hdf, ho, _, het, e, hl⟩
          have : t' = t := (Option.some.inj het).symm
          subst this
          rw [e] at hl
          obtain ⟨hop, himp, _⟩ := hL2 s df hs hdf ho hl
          refine ⟨s, ⟨hs, hop, df, hdf, ho⟩, ?_⟩
          simp only [test]
          have h1 : (!(mem dp s) || mem dp t') = true := by
            cases h : mem dp s with
            | false => rfl
            | true => rw [himp h]; rfl
          rw [if_pos h1]
          have h2 := (hL1 s df hs hdf ho).2 hl
          rw [h2]
          simp only [Bool.not_false, if_true]
          exact List.mem_singleton.2 e
    · refine ⟨[], ?_, ?_⟩
      · unfold Gen.pawnEnPassant
        rw [hepv]
        simp only [hp, hbd]
        show (do let capturedPawn ← t.backward p; _) = _
        rw [hback]
        show (if (cm &&& (bb t ||| bb v)) ≠ 0#64 then _ else _) = _
        rw [if_neg hcond]
        rfl
      · intro m
        constructor
        · intro h; cases h
        · rintro ⟨s, df, t', hs, hdf, ho, _, het, e, hl⟩
          have : t' = t := (Option.some.inj het).symm
          subst this
          rw [e] at hl
          obtain ⟨_, _, hcm⟩ := hL2 s df hs hdf ho hl
          exact absurd ((mem_epCond cm t' v).2 hcm) hcond

end Tcheran
