import TcheranVerif.Model.Picker
/-!
# Array facts for the move picker: swaps, index-injectivity, segments, `argmax`, `next_best_move`
-/

namespace Tcheran
namespace Picker

theorem swapAt_size {α} (a : Array α) (i j : Nat) : (swapAt a i j).size = a.size := by
  unfold swapAt
  split
  · exact Array.size_swap
  · rfl

theorem swapAt_get {α} (a : Array α) (i j k : Nat) (hi : i < a.size) (hj : j < a.size) :
    (swapAt a i j)[k]? = if k = i then a[j]? else if k = j then a[i]? else a[k]? := by
  unfold swapAt
  rw [dif_pos ⟨hi, hj⟩, Array.getElem?_swap]
  by_cases h1 : k = i
  · subst h1
    by_cases h2 : j = k
    · subst h2; simp
    · simp [h2, Array.getElem?_eq_getElem hj]
  · by_cases h2 : k = j
    · subst h2; simp [h1, Array.getElem?_eq_getElem hi]
    · have h3 : ¬ j = k := fun e => h2 e.symm
      have h4 : ¬ i = k := fun e => h1 e.symm
      simp [h1, h2, h3, h4]

/-- no two positions hold the same move -/
def Inj (a : Array Move) : Prop := ∀ i j, i < a.size → j < a.size → a[i]? = a[j]? → i = j

/-- the index permutation of a swap -/
def sw (i j k : Nat) : Nat := if k = i then j else if k = j then i else k

theorem swapAt_get_sw (a : Array Move) (i j k : Nat) (hi : i < a.size) (hj : j < a.size) :
    (swapAt a i j)[k]? = a[sw i j k]? := by
  rw [swapAt_get a i j k hi hj]
  unfold sw
  split
  · rfl
  · split <;> rfl

theorem sw_lt (i j k n : Nat) (hi : i < n) (hj : j < n) (hk : k < n) : sw i j k < n := by
  unfold sw; split
  · exact hj
  · split
    · exact hi
    · exact hk

theorem sw_sw (i j k : Nat) : sw i j (sw i j k) = k := by
  by_cases h1 : k = i
  · have e : sw i j k = j := by unfold sw; rw [if_pos h1]
    rw [e]
    unfold sw
    by_cases h2 : j = i
    · rw [if_pos h2]; omega
    · rw [if_neg h2, if_pos rfl]; omega
  · by_cases h2 : k = j
    · have e : sw i j k = i := by unfold sw; rw [if_neg h1, if_pos h2]
      rw [e]
      unfold sw
      rw [if_pos rfl]; omega
    · have e : sw i j k = k := by unfold sw; rw [if_neg h1, if_neg h2]
      rw [e, e]

theorem sw_inj (i j k l : Nat) (h : sw i j k = sw i j l) : k = l := by
  have := congrArg (sw i j) h
  rw [sw_sw, sw_sw] at this
  exact this

theorem inj_swapAt (a : Array Move) (i j : Nat) (hi : i < a.size) (hj : j < a.size) (h : Inj a) :
    Inj (swapAt a i j) := by
  intro k l hk hl e
  rw [swapAt_size] at hk hl
  rw [swapAt_get_sw a i j k hi hj, swapAt_get_sw a i j l hi hj] at e
  exact sw_inj i j k l (h _ _ (sw_lt i j k _ hi hj hk) (sw_lt i j l _ hi hj hl) e)

/-- `x` occurs at a position in `[lo, hi)` -/
def seg (a : Array Move) (lo hi : Nat) (x : Move) : Prop := ∃ k, lo ≤ k ∧ k < hi ∧ a[k]? = some x

theorem seg_empty (a : Array Move) (lo : Nat) (x : Move) : ¬ seg a lo lo x := by
  rintro ⟨k, h1, h2, _⟩; omega

theorem seg_swapAt_inside (a : Array Move) (lo hi i j : Nat) (x : Move) (hi' : hi ≤ a.size)
    (h1 : lo ≤ i) (h2 : i < hi) (h3 : lo ≤ j) (h4 : j < hi) :
    seg (swapAt a i j) lo hi x ↔ seg a lo hi x := by
  have hia : i < a.size := by omega
  have hja : j < a.size := by omega
  constructor
  · rintro ⟨k, k1, k2, e⟩
    rw [swapAt_get a i j k hia hja] at e
    by_cases c1 : k = i
    · rw [if_pos c1] at e; exact ⟨j, h3, h4, e⟩
    · by_cases c2 : k = j
      · rw [if_neg c1, if_pos c2] at e; exact ⟨i, h1, h2, e⟩
      · rw [if_neg c1, if_neg c2] at e; exact ⟨k, k1, k2, e⟩
  · rintro ⟨k, k1, k2, e⟩
    by_cases c1 : k = i
    · refine ⟨j, h3, h4, ?_⟩
      rw [swapAt_get a i j j hia hja]
      by_cases c3 : j = i
      · rw [if_pos c3]; subst c1; subst c3; exact e
      · rw [if_neg c3, if_pos rfl]; subst c1; exact e
    · by_cases c2 : k = j
      · refine ⟨i, h1, h2, ?_⟩
        rw [swapAt_get a i j i hia hja, if_pos rfl]; subst c2; exact e
      · refine ⟨k, k1, k2, ?_⟩
        rw [swapAt_get a i j k hia hja, if_neg c1, if_neg c2]; exact e

theorem swapAt_outside (a : Array Move) (i j k : Nat) (hi : i < a.size) (hj : j < a.size)
    (h1 : k ≠ i) (h2 : k ≠ j) : (swapAt a i j)[k]? = a[k]? := by
  rw [swapAt_get a i j k hi hj, if_neg h1, if_neg h2]

/-! ### `argmax` stays inside the segment -/

theorem argmax_fold_bounds (scores : Array Int) (l : List Nat) (lo hi b : Nat)
    (hb : lo ≤ b ∧ b < hi) (hl : ∀ i ∈ l, lo ≤ i ∧ i < hi) :
    lo ≤ l.foldl (fun best i => if scores.getD i 0 > scores.getD best 0 then i else best) b ∧
    l.foldl (fun best i => if scores.getD i 0 > scores.getD best 0 then i else best) b < hi := by
  induction l generalizing b with
  | nil => exact hb
  | cons x xs ih =>
    simp only [List.foldl_cons]
    apply ih
    · split
      · exact hl x (by simp)
      · exact hb
    · intro i hi'; exact hl i (by simp [hi'])

theorem argmax_bounds (scores : Array Int) (lo hi : Nat) (h : lo < hi) :
    lo ≤ argmax scores lo hi ∧ argmax scores lo hi < hi := by
  unfold argmax
  apply argmax_fold_bounds scores _ lo hi lo ⟨Nat.le_refl _, h⟩
  intro i hi'
  rw [List.mem_range'] at hi'
  obtain ⟨k, hk, e⟩ := hi'
  omega

end Picker
end Tcheran

namespace Tcheran
namespace Picker

theorem seg_split (a : Array Move) (lo hi : Nat) (x : Move) (h : lo < hi) :
    seg a lo hi x ↔ (a[lo]? = some x ∨ seg a (lo + 1) hi x) := by
  constructor
  · rintro ⟨k, k1, k2, e⟩
    by_cases c : k = lo
    · subst c; exact Or.inl e
    · exact Or.inr ⟨k, by omega, k2, e⟩
  · rintro (e | ⟨k, k1, k2, e⟩)
    · exact ⟨lo, Nat.le_refl _, h, e⟩
    · exact ⟨k, by omega, k2, e⟩

theorem seg_mono (a : Array Move) (lo lo' hi hi' : Nat) (x : Move) (h1 : lo' ≤ lo) (h2 : hi ≤ hi')
    (h : seg a lo hi x) : seg a lo' hi' x := by
  obtain ⟨k, k1, k2, e⟩ := h
  exact ⟨k, by omega, by omega, e⟩

theorem seg_congr (a b : Array Move) (lo hi : Nat) (x : Move) (h : ∀ k, lo ≤ k → k < hi → a[k]? = b[k]?) :
    seg a lo hi x ↔ seg b lo hi x := by
  constructor
  · rintro ⟨k, k1, k2, e⟩; exact ⟨k, k1, k2, by rw [← h k k1 k2]; exact e⟩
  · rintro ⟨k, k1, k2, e⟩; exact ⟨k, k1, k2, by rw [h k k1 k2]; exact e⟩

/-- what one call of `next_best_move(limit)` does -/
structure NBSpec (limit : Nat) (st : State) (r : Option (Move × Int)) (st' : State) : Prop where
  inj : Inj st'.moves
  size : st'.moves.size = st.moves.size
  ssize : st'.scores.size = st.scores.size
  idx_ge : st.idx ≤ st'.idx
  idx_le : st'.idx ≤ limit
  hash : st'.hash = st.hash
  loud : st'.onlyCaptures = st.onlyCaptures
  stage : st'.stage = st.stage
  cend : st'.capturesEnd = st.capturesEnd
  fbad : st'.firstBadCapture = st.firstBadCapture
  fquiet : st'.firstQuiet = st.firstQuiet
  outside : ∀ k, (k < st.idx ∨ limit ≤ k) → st'.moves[k]? = st.moves[k]?
  segs : ∀ x, seg st'.moves st.idx limit x ↔ seg st.moves st.idx limit x
  result : match r with
    | some (m, _) => st.idx < st'.idx ∧ st'.moves[st'.idx - 1]? = some m ∧ some m ≠ st.hash ∧
                      ∀ k, st.idx ≤ k → k < st'.idx - 1 → st'.moves[k]? = st.hash
    | none => st'.idx = limit ∧ ∀ k, st.idx ≤ k → k < limit → st'.moves[k]? = st.hash

theorem nextBest_spec (limit : Nat) : ∀ (fuel : Nat) (st : State), Inj st.moves → st.idx ≤ limit →
    limit ≤ st.moves.size → st.scores.size = st.moves.size → limit - st.idx < fuel →
    NBSpec limit st (nextBest limit fuel st).1 (nextBest limit fuel st).2 := by
  intro fuel
  induction fuel with
  | zero => intro st _ _ _ _ h; omega
  | succ n ih =>
    intro st hinj hle hsz hss hf
    unfold nextBest
    by_cases heq : st.idx = limit
    · rw [if_pos heq]
      exact ⟨hinj, rfl, rfl, Nat.le_refl _, by omega, rfl, rfl, rfl, rfl, rfl, rfl, fun _ _ => rfl,
        fun _ => Iff.rfl, ⟨heq, fun k h1 h2 => by omega⟩⟩
    · rw [if_neg heq]
      have hlt : st.idx < limit := by omega
      have hb := argmax_bounds st.scores st.idx limit hlt
      have hbi : argmax st.scores st.idx limit < st.moves.size := by omega
      have hidx : st.idx < st.moves.size := by omega
      simp only
      have hget : st.moves[argmax st.scores st.idx limit]? = some (st.moves[argmax st.scores st.idx limit]'hbi) :=
        Array.getElem?_eq_getElem hbi
      rw [hget]
      simp only
      -- the state after the swap
      let bi := argmax st.scores st.idx limit
      let bm := st.moves[bi]'hbi
      let st1 : State := { st with moves := swapAt st.moves st.idx bi, scores := swapAt st.scores st.idx bi,
                                   idx := st.idx + 1 }
      have inj1 : Inj st1.moves := inj_swapAt st.moves st.idx bi hidx hbi hinj
      have sz1 : st1.moves.size = st.moves.size := swapAt_size _ _ _
      have ss1 : st1.scores.size = st1.moves.size := by
        show (swapAt st.scores st.idx bi).size = (swapAt st.moves st.idx bi).size
        rw [swapAt_size, swapAt_size, hss]
      have at_idx : st1.moves[st.idx]? = some bm := by
        show (swapAt st.moves st.idx bi)[st.idx]? = _
        rw [swapAt_get st.moves st.idx bi st.idx hidx hbi, if_pos rfl]
        exact hget
      have seg1 : ∀ x, seg st1.moves st.idx limit x ↔ seg st.moves st.idx limit x := fun x =>
        seg_swapAt_inside st.moves st.idx limit st.idx bi x hsz (Nat.le_refl _) hlt hb.1 hb.2
      have out1 : ∀ k, (k < st.idx ∨ limit ≤ k) → st1.moves[k]? = st.moves[k]? := by
        intro k hk
        apply swapAt_outside st.moves st.idx bi k hidx hbi <;> omega
      by_cases hh : some bm = st.hash
      · -- skipped: recurse
        have hrec := ih st1 inj1 (by show st.idx + 1 ≤ limit; omega) (by rw [sz1]; exact hsz) ss1
          (by show limit - (st.idx + 1) < n; omega)
        have e : (if some bm = st1.hash then nextBest limit n st1 else (some (bm, st.scores.getD bi 0), st1))
            = nextBest limit n st1 := if_pos hh
        show NBSpec limit st (if some bm = st1.hash then nextBest limit n st1 else _).1
          (if some bm = st1.hash then nextBest limit n st1 else _).2
        rw [e]
        have hout_idx : (nextBest limit n st1).2.moves[st.idx]? = some bm := by
          rw [hrec.outside st.idx (Or.inl (by show st.idx < st.idx + 1; omega))]; exact at_idx
        have e1 : st1.idx = st.idx + 1 := rfl
        refine ⟨hrec.inj, hrec.size.trans sz1, ?_, by have := hrec.idx_ge; omega,
          hrec.idx_le, hrec.hash, hrec.loud, hrec.stage, hrec.cend, hrec.fbad, hrec.fquiet, ?_, ?_, ?_⟩
        · rw [hrec.ssize]; show (swapAt st.scores st.idx bi).size = _; rw [swapAt_size]
        · intro k hk
          rw [hrec.outside k (by rcases hk with h | h; exact Or.inl (by show k < st.idx + 1; omega); exact Or.inr h)]
          exact out1 k hk
        · intro x
          rw [seg_split _ st.idx limit x hlt, ← seg1 x, seg_split st1.moves st.idx limit x hlt, hout_idx, at_idx]
          have := hrec.segs x
          show _ ∨ seg _ (st.idx + 1) limit x ↔ _ ∨ seg st1.moves (st.idx + 1) limit x
          rw [this]
        · have hr := hrec.result
          cases hres : (nextBest limit n st1).1 with
          | none =>
            rw [hres] at hr
            simp only at hr ⊢
            refine ⟨hr.1, ?_⟩
            intro k k1 k2
            by_cases c : k = st.idx
            · subst c; rw [hout_idx]; exact hh
            · exact hr.2 k (by show st.idx + 1 ≤ k; omega) k2
          | some p =>
            obtain ⟨m, sc⟩ := p
            rw [hres] at hr
            simp only at hr ⊢
            obtain ⟨r1, r2, r3, r4⟩ := hr
            refine ⟨by have : st1.idx = st.idx + 1 := rfl; omega, r2, r3, ?_⟩
            intro k k1 k2
            by_cases c : k = st.idx
            · subst c; rw [hout_idx]; exact hh
            · exact r4 k (by show st.idx + 1 ≤ k; omega) k2
      · -- returned
        have e : (if some bm = st1.hash then nextBest limit n st1 else (some (bm, st.scores.getD bi 0), st1))
            = (some (bm, st.scores.getD bi 0), st1) := if_neg hh
        show NBSpec limit st (if some bm = st1.hash then nextBest limit n st1 else _).1
          (if some bm = st1.hash then nextBest limit n st1 else _).2
        rw [e]
        refine ⟨inj1, sz1, ?_, by show st.idx ≤ st.idx + 1; omega, by show st.idx + 1 ≤ limit; omega,
          rfl, rfl, rfl, rfl, rfl, rfl, out1, seg1, ?_⟩
        · show (swapAt st.scores st.idx bi).size = _; rw [swapAt_size]
        · show st.idx < st.idx + 1 ∧ st1.moves[st.idx + 1 - 1]? = some bm ∧ some bm ≠ st.hash ∧ _
          have e2 : st.idx + 1 - 1 = st.idx := by omega
          refine ⟨by omega, by rw [e2]; exact at_idx, hh, ?_⟩
          intro k k1 k2
          have k3 : k < st.idx + 1 - 1 := k2
          omega

end Picker
end Tcheran

namespace Tcheran
namespace Picker

theorem promoteLoop_absent (t : Move) (hi : Nat) : ∀ (fuel i : Nat) (st : State),
    (∀ k, i ≤ k → k < hi → st.moves[k]? ≠ some t) → promoteLoop t hi fuel i st = (none, st) := by
  intro fuel
  induction fuel with
  | zero => intro i st _; rfl
  | succ n ih =>
    intro i st h
    unfold promoteLoop
    by_cases c : i ≥ hi
    · rw [if_pos c]
    · rw [if_neg c, if_neg (h i (Nat.le_refl _) (by omega))]
      exact ih (i + 1) st (fun k k1 k2 => h k (by omega) k2)

/-- what the scan of a killer / counter-move stage does -/
structure PromSpec (t : Move) (st : State) (r : Option Move) (st' : State) : Prop where
  inj : Inj st'.moves
  size : st'.moves.size = st.moves.size
  scores : st'.scores = st.scores
  hash : st'.hash = st.hash
  loud : st'.onlyCaptures = st.onlyCaptures
  stage : st'.stage = st.stage
  cend : st'.capturesEnd = st.capturesEnd
  fbad : st'.firstBadCapture = st.firstBadCapture
  idx : st'.idx = st.idx
  below : ∀ k, k < st.firstQuiet → st'.moves[k]? = st.moves[k]?
  segs : ∀ x, seg st'.moves st.firstQuiet st.moves.size x ↔ seg st.moves st.firstQuiet st.moves.size x
  res : match r with
    | some m => m = t ∧ some t ≠ st.hash ∧ st'.firstQuiet = st.firstQuiet + 1 ∧ st'.moves[st.firstQuiet]? = some t
    | none => st'.firstQuiet = st.firstQuiet ∨
        (some t = st.hash ∧ st'.firstQuiet = st.firstQuiet + 1 ∧ st'.moves[st.firstQuiet]? = some t)

theorem promoteLoop_spec (t : Move) : ∀ (fuel i : Nat) (st : State), Inj st.moves → st.firstQuiet ≤ i →
    i ≤ st.moves.size → st.moves.size - i < fuel →
    PromSpec t st (promoteLoop t st.moves.size fuel i st).1 (promoteLoop t st.moves.size fuel i st).2 := by
  intro fuel
  induction fuel with
  | zero => intro i st _ _ _ h; omega
  | succ n ih =>
    intro i st hinj hfq hi hf
    unfold promoteLoop
    by_cases c : i ≥ st.moves.size
    · rw [if_pos c]
      exact ⟨hinj, rfl, rfl, rfl, rfl, rfl, rfl, rfl, rfl, fun _ _ => rfl, fun _ => Iff.rfl, Or.inl rfl⟩
    · rw [if_neg c]
      have hilt : i < st.moves.size := by omega
      have hfqlt : st.firstQuiet < st.moves.size := by omega
      by_cases hm : st.moves[i]? = some t
      · rw [if_pos hm]
        simp only
        let st1 : State := { st with moves := swapAt st.moves st.firstQuiet i, firstQuiet := st.firstQuiet + 1 }
        have inj1 : Inj st1.moves := inj_swapAt st.moves st.firstQuiet i hfqlt hilt hinj
        have sz1 : st1.moves.size = st.moves.size := swapAt_size _ _ _
        have at_fq : st1.moves[st.firstQuiet]? = some t := by
          show (swapAt st.moves st.firstQuiet i)[st.firstQuiet]? = _
          rw [swapAt_get st.moves st.firstQuiet i st.firstQuiet hfqlt hilt, if_pos rfl]; exact hm
        have seg1 : ∀ x, seg st1.moves st.firstQuiet st.moves.size x ↔ seg st.moves st.firstQuiet st.moves.size x :=
          fun x => seg_swapAt_inside st.moves st.firstQuiet st.moves.size st.firstQuiet i x (Nat.le_refl _)
            (Nat.le_refl _) hfqlt hfq hilt
        have below1 : ∀ k, k < st.firstQuiet → st1.moves[k]? = st.moves[k]? := by
          intro k hk
          apply swapAt_outside st.moves st.firstQuiet i k hfqlt hilt <;> omega
        by_cases hh : some t ≠ st.hash
        · have e : (if some t ≠ st1.hash then (some t, st1) else promoteLoop t st.moves.size n (i + 1) st1)
              = (some t, st1) := if_pos hh
          show PromSpec t st (if some t ≠ st1.hash then (some t, st1) else _).1
            (if some t ≠ st1.hash then (some t, st1) else _).2
          rw [e]
          exact ⟨inj1, sz1, rfl, rfl, rfl, rfl, rfl, rfl, rfl, below1, seg1, ⟨rfl, hh, rfl, at_fq⟩⟩
        · have e : (if some t ≠ st1.hash then (some t, st1) else promoteLoop t st.moves.size n (i + 1) st1)
              = promoteLoop t st.moves.size n (i + 1) st1 := if_neg hh
          show PromSpec t st (if some t ≠ st1.hash then (some t, st1) else _).1
            (if some t ≠ st1.hash then (some t, st1) else _).2
          rw [e]
          have habs : promoteLoop t st.moves.size n (i + 1) st1 = (none, st1) := by
            apply promoteLoop_absent
            intro k k1 k2 hk
            have hk' : st.moves[k]? = some t := by
              have : st1.moves[k]? = st.moves[k]? := by
                apply swapAt_outside st.moves st.firstQuiet i k hfqlt hilt <;> omega
              rw [← this]; exact hk
            have := hinj k i k2 hilt (by rw [hk', hm])
            omega
          rw [habs]
          have hh' : some t = st.hash := by
            by_cases q : some t = st.hash
            · exact q
            · exact absurd q hh
          exact ⟨inj1, sz1, rfl, rfl, rfl, rfl, rfl, rfl, rfl, below1, seg1, Or.inr ⟨hh', rfl, at_fq⟩⟩
      · rw [if_neg hm]
        exact ih (i + 1) st hinj (by omega) (by omega) (by omega)

theorem promote_spec (target : Option Move) (st : State) (hinj : Inj st.moves) (hfq : st.firstQuiet ≤ st.moves.size) :
    match target with
    | some t => PromSpec t st (promote target st).1 (promote target st).2
    | none => promote target st = (none, st) := by
  cases target with
  | none => rfl
  | some t =>
    simp only [promote]
    exact promoteLoop_spec t (st.moves.size + 1) st.firstQuiet st hinj (Nat.le_refl _) hfq (by omega)

end Picker
end Tcheran
