import TcheranVerif.Model.Eval
/-!
# The packed representation and the blend (helper lemmas of C16)
-/
namespace Tcheran
namespace Eval

theorem phaseMax24 : Gen.phaseCountMax = 24 := by decide

theorem midgame_of_pack (mg eg : Int) (h1 : -32768 ≤ mg) (h2 : mg ≤ 32767) : midgame (pack mg eg) = mg := by
  unfold midgame pack; omega

theorem endgame_of_pack (mg eg : Int) (h1 : -32768 ≤ mg) (h2 : mg ≤ 32767) : endgame (pack mg eg) = eg := by
  unfold endgame pack; omega

theorem tdiv24_in (lo hi x : Int) (h1 : lo * 24 ≤ x) (h2 : x ≤ hi * 24) :
    lo ≤ Int.tdiv x 24 ∧ Int.tdiv x 24 ≤ hi := by
  by_cases hx : 0 ≤ x
  · rw [Int.tdiv_eq_ediv_of_nonneg hx]; omega
  · have hn : 0 ≤ -x := by omega
    have e : Int.tdiv x 24 = -((-x) / 24) := by
      have := Int.neg_tdiv (-x) 24
      rw [Int.neg_neg] at this
      rw [this, Int.tdiv_eq_ediv_of_nonneg hn]
    rw [e]; omega

theorem weighted_in (a b w : Int) (hw0 : 0 ≤ w) (hw : w ≤ 24) :
    min a b * 24 ≤ a * w + b * (24 - w) ∧ a * w + b * (24 - w) ≤ max a b * 24 := by
  have hc : w = 0 ∨ w = 1 ∨ w = 2 ∨ w = 3 ∨ w = 4 ∨ w = 5 ∨ w = 6 ∨ w = 7 ∨ w = 8 ∨ w = 9 ∨ w = 10 ∨ w = 11 ∨
      w = 12 ∨ w = 13 ∨ w = 14 ∨ w = 15 ∨ w = 16 ∨ w = 17 ∨ w = 18 ∨ w = 19 ∨ w = 20 ∨ w = 21 ∨ w = 22 ∨
      w = 23 ∨ w = 24 := by omega
  rcases hc with h | h | h | h | h | h | h | h | h | h | h | h | h | h | h | h | h | h | h | h | h | h | h | h | h <;>
    (subst h; omega)

/-- the blend of a pair whose components lie in `[lo, hi] ⊆ i16` is defined and lies in `[lo, hi]` -/
theorem forPhase_in (mg eg phase lo hi : Int) (hlo : -32768 ≤ lo) (hhi : hi ≤ 32767)
    (h1 : lo ≤ mg ∧ mg ≤ hi) (h2 : lo ≤ eg ∧ eg ≤ hi) (hph : 0 ≤ phase) :
    ∃ v, forPhase (pack mg eg) phase = some v ∧ lo ≤ v ∧ v ≤ hi := by
  unfold forPhase
  rw [midgame_of_pack mg eg (by omega) (by omega), endgame_of_pack mg eg (by omega) (by omega), phaseMax24]
  simp only
  have hw := weighted_in mg eg (min phase 24) (by omega) (by omega)
  have hb := tdiv24_in (min mg eg) (max mg eg) _ hw.1 hw.2
  have hr : inI16 (Int.tdiv (mg * min phase 24 + eg * (24 - min phase 24)) 24) = true := by
    unfold inI16
    simp only [Bool.and_eq_true, decide_eq_true_eq]
    omega
  rw [if_pos hr]
  exact ⟨_, rfl, by omega, by omega⟩

end Eval
end Tcheran
