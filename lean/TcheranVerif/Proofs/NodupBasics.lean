import TcheranVerif.Proofs.Bits
import TcheranVerif.Model.Movegen
/-!
# Duplicate-freeness of lists built by nested iteration over bitboards
-/

namespace Tcheran

theorem nodup_map_key {α β κ} (l : List α) (f : α → β) (key : β → κ) (k : α → κ)
    (hk : ∀ x ∈ l, key (f x) = k x) (hinj : ∀ x ∈ l, ∀ y ∈ l, k x = k y → x = y) (h : l.Nodup) :
    (l.map f).Nodup := by
  induction l with
  | nil => exact List.nodup_nil
  | cons x xs ih =>
    rw [List.map_cons, List.nodup_cons]
    have hx := (List.nodup_cons.1 h)
    refine ⟨?_, ih (fun y hy => hk y (List.mem_cons_of_mem _ hy))
      (fun a ha b hb => hinj a (List.mem_cons_of_mem _ ha) b (List.mem_cons_of_mem _ hb)) hx.2⟩
    intro hm
    obtain ⟨y, hy, e⟩ := List.mem_map.1 hm
    have : k y = k x := by
      rw [← hk y (List.mem_cons_of_mem _ hy), ← hk x List.mem_cons_self, e]
    have := hinj y (List.mem_cons_of_mem _ hy) x List.mem_cons_self this
    subst this
    exact hx.1 hy

/-- a `flatMap` whose pieces carry their index in a key is duplicate-free -/
theorem nodup_flatMap_key {α β} [DecidableEq α] (l : List α) (f : α → List β) (key : β → α)
    (h : l.Nodup) (hf : ∀ x ∈ l, (f x).Nodup) (hk : ∀ x ∈ l, ∀ m ∈ f x, key m = x) :
    (l.flatMap f).Nodup := by
  induction l with
  | nil => exact List.nodup_nil
  | cons x xs ih =>
    rw [List.flatMap_cons, List.nodup_append]
    have hx := List.nodup_cons.1 h
    refine ⟨hf x List.mem_cons_self, ih hx.2 (fun y hy => hf y (List.mem_cons_of_mem _ hy))
      (fun y hy => hk y (List.mem_cons_of_mem _ hy)), ?_⟩
    intro a ha b hb e
    obtain ⟨y, hy, hby⟩ := List.mem_flatMap.1 hb
    have k1 := hk x List.mem_cons_self a ha
    have k2 := hk y (List.mem_cons_of_mem _ hy) b hby
    rw [e, k2] at k1
    exact hx.1 (k1 ▸ hy)

/-- stages tagged with pairwise different codes, each duplicate-free and carrying its code -/
theorem nodup_flatten_codes {β} (cls : β → Nat) : ∀ (st : List (Nat × List β)), (st.map Prod.fst).Nodup →
    (∀ p ∈ st, p.2.Nodup ∧ ∀ m ∈ p.2, cls m = p.1) → (st.map Prod.snd).flatten.Nodup := by
  intro st
  induction st with
  | nil => intro _ _; exact List.nodup_nil
  | cons p ps ih =>
    intro hcodes hst
    rw [List.map_cons, List.flatten_cons, List.nodup_append]
    rw [List.map_cons, List.nodup_cons] at hcodes
    refine ⟨(hst p List.mem_cons_self).1, ih hcodes.2 (fun q hq => hst q (List.mem_cons_of_mem _ hq)), ?_⟩
    intro a ha b hb e
    obtain ⟨l, hl, hbl⟩ := List.mem_flatten.1 hb
    obtain ⟨q, hq, e2⟩ := List.mem_map.1 hl
    have c1 := (hst p List.mem_cons_self).2 a ha
    have c2 := (hst q (List.mem_cons_of_mem _ hq)).2 b (e2 ▸ hbl)
    rw [e, c2] at c1
    exact hcodes.1 (List.mem_map.2 ⟨q, hq, c1⟩)

theorem nodup_ite_singleton {β} (c : Prop) [Decidable c] (m : β) : (if c then [m] else []).Nodup := by
  split
  · exact List.nodup_cons.2 ⟨List.not_mem_nil, List.nodup_nil⟩
  · exact List.nodup_nil

/-- `for s in A { for d in B(s) { push(mk s d) } }` -/
theorem nodup_sq_sq (A : BB) (B : Sq → BB) (mk : Sq → Sq → Move)
    (hs : ∀ s d, (mk s d).src = s) (hd : ∀ s d, (mk s d).dst = d) :
    ((BB.toList A).flatMap fun s => (BB.toList (B s)).map fun d => mk s d).Nodup := by
  apply nodup_flatMap_key _ _ Move.src (toList_nodup A)
  · intro s _
    exact nodup_map_key _ _ Move.dst id (fun d _ => hd s d) (fun _ _ _ _ e => e) (toList_nodup (B s))
  · intro s _ m hm
    obtain ⟨d, _, e⟩ := List.mem_map.1 hm
    rw [← e]; exact hs s d

end Tcheran
