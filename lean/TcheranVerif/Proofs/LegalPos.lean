import TcheranVerif.Proofs.GenerateExact
/-!
# The decidable `Legal` predicate provides the hypotheses of `generate_exact` (C01)
-/

namespace Tcheran
open Board Geometry Rules

theorem filter_length_one {α} [DecidableEq α] (l : List α) (hl : l.Nodup) (f : α → Bool)
    (h : (l.filter f).length = 1) : ∃ k, k ∈ l ∧ f k = true ∧ ∀ x ∈ l, f x = true → x = k := by
  match hf : l.filter f, h with
  | [k], _ =>
    have hk : k ∈ l.filter f := by rw [hf]; simp
    rw [List.mem_filter] at hk
    refine ⟨k, hk.1, hk.2, fun x hx hfx => ?_⟩
    have : x ∈ l.filter f := List.mem_filter.2 ⟨hx, hfx⟩
    rw [hf] at this
    simpa using this

theorem king_of_count (b : RBoard) (p : Player) (h : Rules.count b (· == ⟨.king, p⟩) = 1) :
    ∃ k, ∀ s, at' b s = some ⟨.king, p⟩ ↔ s = k := by
  unfold Rules.count at h
  obtain ⟨k, _, hk, huniq⟩ := filter_length_one (List.finRange 64) (List.nodup_finRange 64) _ h
  refine ⟨k, fun s => ⟨fun e => huniq s (List.mem_finRange s) (by rw [e]; simp), fun e => ?_⟩⟩
  subst e
  cases ha : at' b s with
  | none => rw [ha] at hk; simp at hk
  | some pc =>
    rw [ha] at hk
    simp only [Option.any_some, beq_iff_eq] at hk
    rw [hk]

/-- **posH_of_legal**: a position that passes the `Legal` predicate of the quantifier (and whose three
board views agree) satisfies every hypothesis of `generate_exact` -/
theorem posH_of_legal (g : Game) (hc : Consistent g.board) (hl : legalPos (ofGame g) = true) :
    ∃ k, PosH g k := by
  unfold legalPos at hl
  simp only [ofGame, Bool.and_eq_true] at hl
  obtain ⟨⟨⟨⟨⟨⟨⟨⟨hkings, _⟩, _⟩, hrights⟩, hep⟩, _⟩, _⟩, _⟩, _⟩ := hl
  simp only [Bool.and_eq_true, beq_iff_eq] at hkings hrights
  have hk : ∃ k, ∀ s, at' g.board.squares s = some ⟨.king, g.player⟩ ↔ s = k := by
    cases hp : g.player with
    | white => exact king_of_count _ _ hkings.1
    | black => exact king_of_count _ _ hkings.2
  obtain ⟨k, hk⟩ := hk
  refine ⟨k, ⟨hc, hk⟩, ?_, ?_, ?_⟩
  · -- en passant
    intro t het
    rw [het] at hep
    simp only [Bool.and_eq_true] at hep
    obtain ⟨⟨⟨_, hemp⟩, hpawn⟩, _⟩ := hep
    refine ⟨?_, ?_⟩
    · cases ha : at' g.board.squares t with
      | none => rfl
      | some x => rw [ha] at hemp; simp at hemp
    · obtain ⟨v, hv, hvp⟩ := (isPiece_iff _ _ _ _).1 hpawn
      exact ⟨v, hv, hvp⟩
  · intro hr
    have : (!(Game.Rights.has g.rights g.player .king) ||
        (at' g.board.squares (Game.kingStart g.player) == some ⟨.king, g.player⟩ &&
         at' g.board.squares (Game.kingsideRookStart g.player) == some ⟨.rook, g.player⟩)) = true := by
      cases hp : g.player with
      | white => exact hrights.1.1.1
      | black => exact hrights.1.2
    unfold Game.Rights.has at this
    simp only [hr, Bool.not_true, Bool.false_or, Bool.and_eq_true, beq_iff_eq] at this
    exact ⟨((hk _).1 this.1).symm, this.2⟩
  · intro hr
    have : (!(Game.Rights.has g.rights g.player .queen) ||
        (at' g.board.squares (Game.kingStart g.player) == some ⟨.king, g.player⟩ &&
         at' g.board.squares (Game.queensideRookStart g.player) == some ⟨.rook, g.player⟩)) = true := by
      cases hp : g.player with
      | white => exact hrights.1.1.2
      | black => exact hrights.2
    unfold Game.Rights.has at this
    simp only [hr, Bool.not_true, Bool.false_or, Bool.and_eq_true, beq_iff_eq] at this
    exact ⟨((hk _).1 this.1).symm, this.2⟩

end Tcheran
