import TcheranVerif.Model.Bits
/-!
# Set semantics of bitboards

`mem b s` is kept opaque to `simp` (it otherwise rewrites `getLsbD` into bounded `getElem`); these
lemmas are its API. One-bit facts are decided by the kernel over `Fin 64` (× `Fin 64`).
-/

namespace Tcheran

theorem mem_and (a b : BB) (t : Sq) : mem (a &&& b) t = (mem a t && mem b t) := by simp [mem]
theorem mem_or (a b : BB) (t : Sq) : mem (a ||| b) t = (mem a t || mem b t) := by simp [mem]
theorem mem_xor (a b : BB) (t : Sq) : mem (a ^^^ b) t = (mem a t != mem b t) := by simp [mem]
theorem mem_not (a : BB) (t : Sq) : mem (~~~a) t = !mem a t := by
  simp [mem, t.isLt]
theorem mem_zero (t : Sq) : mem 0#64 t = false := by simp [mem]

theorem mem_bb (t u : Sq) : mem (bb t) u = decide (u = t) := by
  have : ∀ t u : Fin 64, mem (bb t) u = decide (u = t) := by decide +kernel
  exact this t u

theorem ext_mem (a b : BB) (h : ∀ t, mem a t = mem b t) : a = b := by
  apply BitVec.eq_of_getLsbD_eq
  intro i hi
  exact h ⟨i, hi⟩

theorem and_bb_eq_zero (occ : BB) (t : Sq) : (occ &&& bb t = 0#64) ↔ mem occ t = false := by
  constructor
  · intro hz
    have := congrArg (fun b => mem b t) hz
    simp only [mem_and, mem_bb, mem_zero, decide_true, Bool.and_true] at this
    exact this
  · intro h
    apply ext_mem; intro u
    rw [mem_and, mem_bb, mem_zero]
    by_cases hu : u = t
    · subst hu; simp [h]
    · simp [hu]

theorem bb_ne_zero (s : Sq) : bb s ≠ 0#64 := by
  intro h
  have h1 : mem (bb s) s = true := by rw [mem_bb]; simp
  rw [h] at h1
  simp [mem] at h1

theorem mem_toList (b : BB) (s : Sq) : s ∈ BB.toList b ↔ mem b s = true := by
  simp [BB.toList, List.mem_filter, List.mem_finRange]

theorem toList_nodup (b : BB) : (BB.toList b).Nodup := by
  unfold BB.toList
  exact List.Nodup.sublist List.filter_sublist (List.nodup_finRange 64)

/-- one step of the bit-level shift on a one-bit board is the square-level step -/
def ofOpt : Option Sq → BB
  | some t => bb t
  | none => 0#64

theorem inDir_bb : ∀ d ∈ Dir.all, ∀ s : Sq, BB.inDir d (bb s) = ofOpt (s.step d) := by decide +kernel

theorem inDir_zero (d : Dir) : BB.inDir d 0#64 = 0#64 := by
  cases d <;> simp [BB.inDir, BB.north, BB.south, BB.east, BB.west, BB.northEast, BB.northWest,
    BB.southEast, BB.southWest]

theorem dir_mem_all (d : Dir) : d ∈ Dir.all := by cases d <;> simp [Dir.all]

theorem count_eq_zero_iff (b : BB) : BB.count b = 0 ↔ b = 0#64 := by
  unfold BB.count
  constructor
  · intro h
    have hnil : BB.toList b = [] := List.eq_nil_of_length_eq_zero h
    apply ext_mem
    intro t
    rw [mem_zero]
    cases hm : mem b t with
    | false => rfl
    | true =>
      have : t ∈ BB.toList b := (mem_toList b t).2 hm
      rw [hnil] at this
      cases this
  · intro h
    subst h
    have : BB.toList 0#64 = [] := by
      apply List.eq_nil_iff_forall_not_mem.2
      intro t ht
      have := (mem_toList 0#64 t).1 ht
      rw [mem_zero] at this
      cases this
    rw [this]; rfl

end Tcheran
