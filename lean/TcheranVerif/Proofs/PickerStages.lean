import TcheranVerif.Proofs.Picker
/-! # Stage lemmas of the move picker -/

namespace Tcheran
namespace Picker

/-- outcome of one stage block -/
def StepOk (env : Env) (st : State) (r : Step) : Prop :=
  match r with
  | .ok st' => Silent env st st'
  | .error (some m, st') => Emit env st m st'
  | .error (none, _) => False

theorem bound_pos (env : Env) : 0 < bound env := by unfold bound; omega

theorem stepOk_skip (env : Env) (st : State) (h : Inv env st) : StepOk env st (.ok st) := Silent.refl env st h

/-! ### BestMove -/

theorem sBest_ok (env : Env) (st : State) (h : Inv env st) : StepOk env st (sBest st) := by
  unfold sBest
  by_cases hs : st.stage = .bestMove
  · rw [if_pos hs]
    have hpre := h.pre (by rw [hs]; rfl)
    have key : ∀ st1 : State, st1 = { st with stage := .genCaptures } →
        StepOk env st (match st1.hash with | some h => .error (some h, st1) | none => .ok st1) := by
      intro st1 e
      have s1 : st1.stage = .genCaptures := by rw [e]
      have h1 : st1.hash = st.hash := by rw [e]
      have l1 : st1.onlyCaptures = st.onlyCaptures := by rw [e]
      have inv1 : Inv env st1 := by
        subst e
        exact
        { inj := h.inj, ssize := h.ssize, hashOk := h.hashOk, loudHash := h.loudHash,
          loudStage := fun _ => ⟨rfl, by simp⟩,
          pre := fun _ => hpre, caps := fun c => by simp [afterCaps] at c,
          noQuietsYet := fun c => by simp [afterCaps] at c,
          loudBad := fun c => by simp at c, good := fun c => by simp at c, fbOk := h.fbOk,
          quiets := fun c => by simp [afterQuiets] at c, badIdx := fun c => by simp at c,
          quietIdx := fun c => by simp at c }
      have hmu : mu env st1 < mu env st := by
        unfold mu work
        simp only [hs, s1, rank]
        have := bound_pos env
        omega
      have hin : ∀ x, InP env st1 x ↔ (InP env st x ∧ notHash st x) := by
        intro x
        unfold InP
        simp only [hs, s1, notHash, qs, h1, l1]
      cases hh : st1.hash with
      | none =>
        show Silent env st st1
        refine ⟨inv1, ?_, Nat.le_of_lt hmu⟩
        intro x
        rw [hin x]
        simp [notHash, ← h1, hh]
      | some hm =>
        show Emit env st hm st1
        refine ⟨inv1, ?_, ?_, hmu⟩
        · unfold InP; simp only [hs]; exact h.hashOk hm (h1 ▸ hh)
        · intro x
          rw [hin x]
          simp only [notHash, ← h1, hh]
          constructor
          · rintro ⟨a, b⟩; exact ⟨a, fun e => b (by rw [e])⟩
          · rintro ⟨a, b⟩; exact ⟨a, fun e => b (Option.some.inj e)⟩
    exact key _ rfl
  · rw [if_neg hs]; exact stepOk_skip env st h

/-! ### GenCaptures -/

theorem setScores_size (scores : Array Int) (moves : Array Move) (f : Move → Int) (lo hi : Nat) :
    (setScores scores moves f lo hi).size = scores.size := by
  unfold setScores
  generalize List.range' lo (hi - lo) = l
  induction l generalizing scores with
  | nil => rfl
  | cons x xs ih =>
    simp only [List.foldl_cons]
    rw [ih]
    split
    · split
      · simp
      · rfl
    · rfl

theorem sGenCaptures_ok (env : Env) (hE : EnvOk env) (st : State) (h : Inv env st) :
    StepOk env st (sGenCaptures env st) := by
  unfold sGenCaptures
  by_cases hs : st.stage = .genCaptures
  · rw [if_pos hs]
    obtain ⟨hm, hsc, hidx, hfb⟩ := h.pre (by rw [hs]; rfl)
    show Silent env st _
    -- the state after the block
    have hmoves : (pushMoves { st with stage := .goodCaptures } env.captures).moves = env.captures.toArray := by
      simp [pushMoves, hm]
    have hscores : (pushMoves { st with stage := .goodCaptures } env.captures).scores.size = env.captures.length := by
      simp [pushMoves, hsc]
    let st1 : State := pushMoves { st with stage := .goodCaptures } env.captures
    let st2 : State := { st1 with capturesEnd := st1.moves.size, firstQuiet := st1.moves.size }
    let st3 : State := { st2 with scores := setScores st2.scores st2.moves env.scoreTactical 0 st2.moves.size }
    show Silent env st st3
    have m3 : st3.moves = env.captures.toArray := hmoves
    have c3 : st3.capturesEnd = env.captures.length := by
      show st1.moves.size = _; rw [hmoves]; simp
    have q3 : st3.firstQuiet = env.captures.length := c3
    have s3 : st3.stage = .goodCaptures := rfl
    have i3 : st3.idx = 0 := hidx
    have f3 : st3.firstBadCapture = none := hfb
    have h3 : st3.hash = st.hash := rfl
    have l3 : st3.onlyCaptures = st.onlyCaptures := rfl
    have sz3 : st3.moves.size = env.captures.length := by rw [m3]; simp
    have inv3 : Inv env st3 :=
      { inj := by rw [m3]; exact inj_toArray _ hE.capsNodup
        ssize := by
          show (setScores st2.scores st2.moves env.scoreTactical 0 st2.moves.size).size = st3.moves.size
          rw [setScores_size, sz3]; exact hscores
        hashOk := fun hm' e => by
          have := h.hashOk hm' (h3 ▸ e)
          simpa [qs, l3] using this
        loudHash := fun e => h.loudHash (l3 ▸ e)
        loudStage := fun _ => ⟨by rw [s3]; rfl, by rw [s3]; simp⟩
        pre := fun c => by rw [s3] at c; simp [afterCaps] at c
        caps := fun _ => ⟨c3, by rw [c3, sz3]; exact Nat.le_refl _, fun x => by rw [c3, m3]; exact seg_toArray _ x⟩
        noQuietsYet := fun _ _ _ _ => ⟨by rw [sz3, c3], by rw [q3, c3]⟩
        loudBad := fun c => by rw [s3] at c; simp at c
        good := fun _ => ⟨f3, by rw [i3]; exact Nat.zero_le _⟩
        fbOk := fun fb e => by rw [f3] at e; cases e
        quiets := fun c => by rw [s3] at c; simp [afterQuiets] at c
        badIdx := fun c => by rw [s3] at c; simp at c
        quietIdx := fun c => by rw [s3] at c; simp at c }
    refine ⟨inv3, ?_, ?_⟩
    · intro x
      unfold InP
      rw [s3]
      simp only [hs, notHash, h3]
      have : seg st3.moves st3.idx st3.capturesEnd x ↔ x ∈ env.captures := by
        rw [i3, c3, m3]; exact seg_toArray _ x
      rw [this]
      simp [qs, l3]
    · unfold mu work
      rw [s3]
      simp only [hs, rank]
      have hb : st3.capturesEnd - st3.idx < bound env := by
        rw [c3, i3]; unfold bound; omega
      omega
  · rw [if_neg hs]; exact stepOk_skip env st h

/-! ### GoodCaptures -/

theorem sGoodCaptures_ok (env : Env) (hE : EnvOk env) (st : State) (h : Inv env st) :
    StepOk env st (sGoodCaptures st) := by
  unfold sGoodCaptures
  by_cases hs : st.stage = .goodCaptures
  · rw [if_pos hs]
    have hac : afterCaps st.stage = true := by rw [hs]; rfl
    obtain ⟨c1, c2, c3⟩ := h.caps hac
    obtain ⟨n1, n2⟩ := h.noQuietsYet hac (by rw [hs]; rfl) (by rw [hs]; simp) (by rw [hs]; simp)
    obtain ⟨g1, g2⟩ := h.good hs
    have hnb := nextBest_spec st.capturesEnd (st.capturesEnd + 1 - st.idx) st h.inj g2 c2 h.ssize (by omega)
    generalize nextBest st.capturesEnd (st.capturesEnd + 1 - st.idx) st = p at hnb
    obtain ⟨r, st'⟩ := p
    simp only at hnb ⊢
    have inv' : Inv env st' := inv_nb h hnb (Or.inl ⟨rfl, Or.inl hs⟩) g2
    have hqs : qs env st' = qs env st := by unfold qs; rw [hnb.loud]
    have hwork : st.capturesEnd < bound env := by unfold bound; omega
    -- the continuation after the good captures are exhausted
    have hcont : ∀ s : State, s.moves = st'.moves → s.scores = st'.scores → s.hash = st'.hash →
        s.onlyCaptures = st'.onlyCaptures → s.capturesEnd = st'.capturesEnd → s.firstQuiet = st'.firstQuiet →
        s.stage = .goodCaptures →
        (∀ fb, s.firstBadCapture = some fb → fb < s.capturesEnd) →
        (∀ x, notHash st x → (seg st.moves st.idx st.capturesEnd x ↔ badSeg s x)) →
        StepOk env st
          (if s.onlyCaptures then
            match s.firstBadCapture with
            | none => .ok { s with stage := .done }
            | some i => .ok { s with idx := i, stage := .badCaptures }
          else .ok { s with stage := .genQuiets }) := by
      intro s sm ss sh sl sc sq sst sfb sseg
      have hloud : s.onlyCaptures = st.onlyCaptures := by rw [sl, hnb.loud]
      have hhash : s.hash = st.hash := by rw [sh, hnb.hash]
      have hcend : s.capturesEnd = st.capturesEnd := by rw [sc, hnb.cend]
      have hsize : s.moves.size = st.moves.size := by rw [sm, hnb.size]
      have hfq : s.firstQuiet = st.firstQuiet := by rw [sq, hnb.fquiet]
      have ac' : afterCaps st'.stage = true := by rw [hnb.stage]; exact hac
      by_cases hl : s.onlyCaptures = true
      · rw [if_pos hl]
        have hl' : st.onlyCaptures = true := hloud ▸ hl
        cases hfb : s.firstBadCapture with
        | none =>
          show Silent env st _
          refine ⟨?_, ?_, ?_⟩
          · exact inv_restage inv' sm (by rw [ss]) sh sl sc sq ac' rfl
              (fun _ => ⟨rfl, by simp⟩) (fun _ _ c => by simp at c)
              (fun c => by simp at c) (fun c => by simp at c) (fun fb e => by cases e)
              (fun c => by simp [afterQuiets] at c)
              (fun c => by simp at c) (fun c => by simp at c)
          · intro x
            unfold InP
            simp only [hs, qs, hl']
            constructor
            · intro c; exact c.elim
            · rintro ⟨a | a, b⟩
              · have := (sseg x b).1 a
                unfold badSeg at this; rw [hfb] at this; exact this
              · simp at a
          · unfold mu work; simp only [hs, rank]; omega
        | some fb =>
          show Silent env st _
          have hfb' := sfb fb hfb
          refine ⟨?_, ?_, ?_⟩
          · exact inv_restage inv' sm (by rw [ss]) sh sl sc sq ac' rfl
              (fun _ => ⟨rfl, by simp⟩) (fun _ c => by simp at c)
              (fun _ _ => by show s.moves.size = s.capturesEnd; omega) (fun c => by simp at c)
              (fun fb' e => by cases e; exact hfb')
              (fun c => by
                rcases c with c | ⟨_, c⟩
                · simp [afterQuiets] at c
                · have c' : s.onlyCaptures = false := c
                  rw [hl] at c'; cases c')
              (fun _ => Nat.le_of_lt hfb') (fun c => by simp at c)
          · intro x
            unfold InP
            simp only [hs, qs, hl']
            have hb : badSeg s x ↔ seg s.moves fb s.capturesEnd x := by unfold badSeg; rw [hfb]
            constructor
            · rintro ⟨a | ⟨a, _⟩, b⟩
              · have b' : notHash st x := by unfold notHash at *; rw [← hhash]; exact b
                exact ⟨Or.inl ((sseg x b').2 (hb.2 a)), b'⟩
              · rw [hl] at a; cases a
            · rintro ⟨a | a, b⟩
              · have b' : notHash s x := by unfold notHash at *; rw [hhash]; exact b
                exact ⟨Or.inl (hb.1 ((sseg x b).1 a)), b'⟩
              · simp at a
          · unfold mu work; simp only [hs, rank]
            have : s.capturesEnd - fb < bound env := by omega
            omega
      · rw [if_neg hl]
        have hl' : st.onlyCaptures = false := by rw [← hloud]; simpa using hl
        show Silent env st { s with stage := .genQuiets }
        refine ⟨?_, ?_, ?_⟩
        · exact inv_restage inv' sm (by rw [ss]) sh sl sc sq ac' rfl
            (fun c => absurd c hl) (fun _ _ _ => ⟨by show s.moves.size = s.capturesEnd; omega,
              by show s.firstQuiet = s.capturesEnd; omega⟩)
            (fun c => by simp at c) (fun c => by simp at c) sfb (fun c => by simp [afterQuiets] at c)
            (fun c => by simp at c) (fun c => by simp at c)
        · intro x
          unfold InP
          simp only [hs, qs, hl']
          have hb : badSeg { s with stage := .genQuiets } x ↔ badSeg s x := Iff.rfl
          rw [hb]
          constructor
          · rintro ⟨a | a, b⟩
            · have b' : notHash st x := by unfold notHash at *; rw [← hhash]; exact b
              exact ⟨Or.inl ((sseg x b').2 a), b'⟩
            · have b' : notHash st x := by unfold notHash at *; rw [← hhash]; exact b
              exact ⟨Or.inr (by simpa using a), b'⟩
          · rintro ⟨a | a, b⟩
            · have b' : notHash s x := by unfold notHash at *; rw [hhash]; exact b
              exact ⟨Or.inl ((sseg x b).1 a), b'⟩
            · have b' : notHash s x := by unfold notHash at *; rw [hhash]; exact b
              exact ⟨Or.inr (by simpa using a), b'⟩
        · unfold mu work; simp only [hs, rank]; omega
    cases r with
    | none =>
      simp only
      refine hcont st' rfl rfl rfl rfl rfl rfl (hnb.stage.trans hs) (fun fb e => inv'.fbOk fb e) ?_
      intro x hx
      have := nb_none hnb x hx
      unfold badSeg; rw [hnb.fbad, g1]
      exact ⟨fun a => absurd a this, fun a => a.elim⟩
    | some ms =>
      obtain ⟨mv, score⟩ := ms
      simp only
      obtain ⟨k1, k2, k3, k4⟩ := nb_some hnb c2
      obtain ⟨r1, r2, r3, r4⟩ := hnb.result
      by_cases hsc : score < goodCaptureScore
      · rw [if_pos hsc]
        refine hcont { st' with firstBadCapture := some (st'.idx - 1), idx := st'.capturesEnd }
          rfl rfl rfl rfl rfl rfl (hnb.stage.trans hs) ?_ ?_
        · intro fb e
          have : st'.idx - 1 = fb := Option.some.inj e
          have := hnb.idx_le
          show fb < st'.capturesEnd
          rw [hnb.cend]; omega
        · intro x hx
          rw [k4 x hx]
          show _ ↔ seg st'.moves (st'.idx - 1) st'.capturesEnd x
          have hlt : st'.idx - 1 < st'.capturesEnd := by have := hnb.idx_le; rw [hnb.cend]; omega
          rw [seg_split _ _ _ x hlt, r2, show st'.idx - 1 + 1 = st'.idx by omega, hnb.cend]
          constructor
          · rintro (e | e)
            · exact Or.inl (by rw [e])
            · exact Or.inr e
          · rintro (e | e)
            · exact Or.inl (Option.some.inj e).symm
            · exact Or.inr e
      · rw [if_neg hsc]
        show Emit env st mv st'
        have hcap : mv ∈ env.captures :=
          (c3 mv).1 (seg_mono _ _ _ _ _ mv (Nat.zero_le _) (Nat.le_refl _) k3)
        refine ⟨inv', ?_, ?_, ?_⟩
        · unfold InP; simp only [hs]; exact ⟨Or.inl k3, k1⟩
        · intro x
          unfold InP
          simp only [hs, hnb.stage, hqs, notHash, hnb.hash, hnb.cend]
          constructor
          · rintro ⟨a | a, b⟩
            · refine ⟨⟨Or.inl ((k4 x b).2 (Or.inr a)), b⟩, ?_⟩
              intro e; rw [e] at a; exact k2 a
            · refine ⟨⟨Or.inr a, b⟩, ?_⟩
              intro e; rw [e] at a
              unfold qs at a
              split at a
              · simp at a
              · exact hE.disjoint mv hcap a
          · rintro ⟨⟨a | a, b⟩, c⟩
            · rcases (k4 x b).1 a with e | e
              · exact absurd e c
              · exact ⟨Or.inl e, b⟩
            · exact ⟨Or.inr a, b⟩
        · unfold mu work
          simp only [hs, hnb.stage, hnb.cend]
          have := hnb.idx_le
          omega
  · rw [if_neg hs]; exact stepOk_skip env st h

/-! ### GenQuiets -/

theorem seg_append_left (a b : Array Move) (lo hi : Nat) (x : Move) (h : hi ≤ a.size) :
    seg (a ++ b) lo hi x ↔ seg a lo hi x :=
  seg_congr _ _ _ _ _ (fun k _ k2 => Array.getElem?_append_left (by omega))

theorem seg_append_right (a : Array Move) (l : List Move) (x : Move) :
    seg (a ++ l.toArray) a.size (a.size + l.length) x ↔ x ∈ l := by
  rw [← seg_toArray l x]
  constructor
  · rintro ⟨k, k1, k2, e⟩
    rw [Array.getElem?_append_right k1] at e
    exact ⟨k - a.size, Nat.zero_le _, by omega, e⟩
  · rintro ⟨k, _, k2, e⟩
    exact ⟨a.size + k, by omega, by omega, by
      rw [Array.getElem?_append_right (by omega), show a.size + k - a.size = k by omega]; exact e⟩

theorem inj_append (a : Array Move) (l : List Move) (ha : Inj a) (hl : l.Nodup)
    (hd : ∀ x, seg a 0 a.size x → x ∉ l) : Inj (a ++ l.toArray) := by
  intro i j hi hj e
  simp only [Array.size_append, List.size_toArray] at hi hj
  by_cases ci : i < a.size <;> by_cases cj : j < a.size
  · rw [Array.getElem?_append_left ci, Array.getElem?_append_left cj] at e
    exact ha i j ci cj e
  · exfalso
    rw [Array.getElem?_append_left ci, Array.getElem?_append_right (by omega)] at e
    have hx : a[i]? = some a[i] := Array.getElem?_eq_getElem ci
    refine hd a[i] ⟨i, Nat.zero_le _, ci, hx⟩ ?_
    rw [hx] at e
    rw [List.getElem?_toArray] at e
    exact List.mem_of_getElem? e.symm
  · exfalso
    rw [Array.getElem?_append_left cj, Array.getElem?_append_right (by omega)] at e
    have hx : a[j]? = some a[j] := Array.getElem?_eq_getElem cj
    refine hd a[j] ⟨j, Nat.zero_le _, cj, hx⟩ ?_
    rw [hx] at e
    rw [List.getElem?_toArray] at e
    exact List.mem_of_getElem? e
  · rw [Array.getElem?_append_right (by omega), Array.getElem?_append_right (by omega)] at e
    have := inj_toArray l hl (i - a.size) (j - a.size) (by simp; omega) (by simp; omega) e
    omega

theorem sGenQuiets_ok (env : Env) (hE : EnvOk env) (st : State) (h : Inv env st) :
    StepOk env st (sGenQuiets env st) := by
  unfold sGenQuiets
  by_cases hs : st.stage = .genQuiets
  · rw [if_pos hs]
    have hac : afterCaps st.stage = true := by rw [hs]; rfl
    obtain ⟨c1, c2, c3⟩ := h.caps hac
    obtain ⟨n1, n2⟩ := h.noQuietsYet hac (by rw [hs]; rfl) (by rw [hs]; simp) (by rw [hs]; simp)
    have hl : st.onlyCaptures = false := by
      cases c : st.onlyCaptures with
      | false => rfl
      | true => exact absurd hs (h.loudStage c).2
    show Silent env st (pushMoves { st with stage := .killer1 } env.quiets)
    generalize hst1 : pushMoves { st with stage := .killer1 } env.quiets = st1
    have m1 : st1.moves = st.moves ++ env.quiets.toArray := by rw [← hst1]; rfl
    have sc1 : st1.scores = st.scores ++ (env.quiets.map fun _ => (0 : Int)).toArray := by rw [← hst1]; rfl
    have h1 : st1.hash = st.hash := by rw [← hst1]; rfl
    have l1 : st1.onlyCaptures = st.onlyCaptures := by rw [← hst1]; rfl
    have s1 : st1.stage = .killer1 := by rw [← hst1]; rfl
    have i1 : st1.idx = st.idx := by rw [← hst1]; rfl
    have ce1 : st1.capturesEnd = st.capturesEnd := by rw [← hst1]; rfl
    have fb1 : st1.firstBadCapture = st.firstBadCapture := by rw [← hst1]; rfl
    have fq1 : st1.firstQuiet = st.firstQuiet := by rw [← hst1]; rfl
    have sz1 : st1.moves.size = st.moves.size + env.quiets.length := by rw [m1]; simp
    have hqseg : ∀ x, seg st1.moves st.moves.size st1.moves.size x ↔ x ∈ env.quiets := by
      intro x; rw [sz1, m1]; exact seg_append_right _ _ x
    have hbad : ∀ x, badSeg st1 x ↔ badSeg st x := by
      intro x
      unfold badSeg
      rw [fb1, ce1, m1]
      cases st.firstBadCapture with
      | none => exact Iff.rfl
      | some fb => exact seg_append_left _ _ _ _ x c2
    have inv1 : Inv env st1 :=
      { inj := by
          rw [m1]
          refine inj_append _ _ h.inj hE.quietsNodup (fun x hx => hE.disjoint x ?_)
          rw [n1] at hx; exact (c3 x).1 hx
        ssize := by rw [sc1, m1]; simp [h.ssize]
        hashOk := fun x e => by
          have := h.hashOk x (h1 ▸ e)
          unfold qs at *; rw [l1]; exact this
        loudHash := fun e => by rw [l1, hl] at e; cases e
        loudStage := fun e => by rw [l1, hl] at e; cases e
        pre := fun c => by rw [s1] at c; simp [afterCaps] at c
        caps := fun _ => by
          rw [ce1]
          refine ⟨c1, by omega, fun x => ?_⟩
          rw [← c3 x, m1]
          exact seg_append_left _ _ _ _ x c2
        noQuietsYet := fun _ c => by rw [s1] at c; simp [afterQuiets] at c
        loudBad := fun c => by rw [s1] at c; simp at c
        good := fun c => by rw [s1] at c; simp at c
        fbOk := fun fb e => by rw [ce1]; exact h.fbOk fb (fb1 ▸ e)
        quiets := fun _ => by
          rw [ce1, fq1]
          refine ⟨by omega, by omega, by omega, fun x => ?_⟩
          rw [← n1]; exact hqseg x
        badIdx := fun c => by rw [s1] at c; simp at c
        quietIdx := fun c => by rw [s1] at c; simp at c }
    refine ⟨inv1, ?_, ?_⟩
    · intro x
      unfold InP
      simp only [hs, s1]
      rw [hbad x, fq1, n2, ← n1, hqseg x]
      unfold notHash; rw [h1]
    · unfold mu work; simp only [hs, s1, rank]; omega
  · rw [if_neg hs]; exact stepOk_skip env st h

/-! ### the killer / counter-move scans -/

/-- the part of the "still to yield" set that lies among the captures -/
def lowSeg (s : State) (x : Move) : Prop :=
  match s.stage with
  | .badCaptures => seg s.moves s.idx s.capturesEnd x
  | .scoreQuiets => False
  | _ => badSeg s x

/-- stages in which a scan runs (the stage is advanced before the scan) -/
def PQ (s : State) : Prop :=
  s.stage = .killer2 ∨ s.stage = .counterMove ∨ s.stage = .scoreQuiets ∨
    (s.stage = .badCaptures ∧ s.onlyCaptures = false)

theorem InP_shape (env : Env) (s : State) (hP : PQ s) (x : Move) :
    InP env s x ↔ (lowSeg s x ∨ seg s.moves s.firstQuiet s.moves.size x) ∧ notHash s x := by
  unfold InP lowSeg
  rcases hP with c | c | c | ⟨c, l⟩ <;> simp only [c]
  · simp
  · simp [l]

theorem lowSeg_index (s : State) (x : Move) (hfb : ∀ fb, s.firstBadCapture = some fb → fb < s.capturesEnd)
    (h : lowSeg s x) : ∃ k, k < s.capturesEnd ∧ s.moves[k]? = some x := by
  unfold lowSeg at h
  have hb : badSeg s x → ∃ k, k < s.capturesEnd ∧ s.moves[k]? = some x := by
    intro hb
    unfold badSeg at hb
    cases hf : s.firstBadCapture with
    | none => rw [hf] at hb; exact hb.elim
    | some fb => rw [hf] at hb; obtain ⟨k, _, k2, e⟩ := hb; exact ⟨k, k2, e⟩
  split at h
  · obtain ⟨k, _, k2, e⟩ := h; exact ⟨k, k2, e⟩
  · exact h.elim
  · exact hb h

theorem lowSeg_congr (s s' : State) (x : Move) (h1 : s'.stage = s.stage) (h2 : s'.idx = s.idx)
    (h3 : s'.capturesEnd = s.capturesEnd) (h4 : s'.firstBadCapture = s.firstBadCapture)
    (h5 : ∀ k, k < s.capturesEnd → s'.moves[k]? = s.moves[k]?) : lowSeg s' x ↔ lowSeg s x := by
  unfold lowSeg badSeg
  rw [h1, h2, h3, h4]
  have : ∀ lo, seg s'.moves lo s.capturesEnd x ↔ seg s.moves lo s.capturesEnd x :=
    fun lo => seg_congr _ _ _ _ _ (fun k _ k2 => h5 k k2)
  split
  · exact this _
  · exact Iff.rfl
  · split
    · exact this _
    · exact Iff.rfl

theorem prom_ok (env : Env) (st s1 s' : State) (target : Option Move) (r : Option Move)
    (h1 : Inv env s1) (hP : PQ s1)
    (hsame : ∀ x, InP env s1 x ↔ InP env st x) (hmu : mu env s1 < mu env st)
    (hpr : promote target s1 = (r, s')) :
    StepOk env st (match (generalizing := false) r with | some m => .error (some m, s') | none => .ok s') := by
  have hq : afterQuiets s1.stage = true ∨ (s1.stage = .badCaptures ∧ s1.onlyCaptures = false) := by
    rcases hP with c | c | c | c
    · left; rw [c]; rfl
    · left; rw [c]; rfl
    · left; rw [c]; rfl
    · right; exact c
  have hnq : s1.stage ≠ .quiets := by
    rcases hP with c | c | c | ⟨c, _⟩ <;> rw [c] <;> simp
  obtain ⟨q1, q2, q3, q4⟩ := h1.quiets hq
  have spec := promote_spec target s1 h1.inj q2
  cases target with
  | none =>
    simp only at spec
    rw [spec] at hpr
    cases hpr
    exact ⟨h1, hsame, Nat.le_of_lt hmu⟩
  | some t =>
    simp only at spec
    rw [hpr] at spec
    simp only at spec
    have inv' : Inv env s' := inv_prom h1 spec hq hnq
    have hP' : PQ s' := by unfold PQ; rw [spec.stage, spec.loud]; exact hP
    have hlow : ∀ x, lowSeg s' x ↔ lowSeg s1 x := fun x =>
      lowSeg_congr s1 s' x spec.stage spec.idx spec.cend spec.fbad (fun k hk => spec.below k (by omega))
    have hnh : ∀ x, notHash s' x ↔ notHash s1 x := fun x => by unfold notHash; rw [spec.hash]
    have hmu' : mu env s' = mu env s1 := by
      unfold mu work; rw [spec.stage, spec.cend, spec.idx, spec.size]
    cases r with
    | none =>
      show Silent env st s'
      refine ⟨inv', fun x => ?_, by omega⟩
      rw [← hsame x, InP_shape env s' hP' x, InP_shape env s1 hP x, hlow x, hnh x, spec.size]
      constructor
      · rintro ⟨a | a, b⟩
        · exact ⟨Or.inl a, b⟩
        · exact ⟨Or.inr ((prom_none spec x b).2 a), b⟩
      · rintro ⟨a | a, b⟩
        · exact ⟨Or.inl a, b⟩
        · exact ⟨Or.inr ((prom_none spec x b).1 a), b⟩
    | some m =>
      show Emit env st m s'
      obtain ⟨p1, p2, p3, p4, p5, p6⟩ := prom_some spec
      subst p1
      have hlt : s1.firstQuiet < s1.moves.size := by
        rw [← spec.size]
        apply Decidable.byContradiction; intro c
        rw [Array.getElem?_eq_none (by omega)] at p4; cases p4
      refine ⟨inv', ?_, fun x => ?_, by omega⟩
      · rw [← hsame m, InP_shape env s1 hP m]
        exact ⟨Or.inr ((p6 m).2 (Or.inl rfl)), p2⟩
      · rw [← hsame x, InP_shape env s' hP' x, InP_shape env s1 hP x, hlow x, hnh x, spec.size]
        constructor
        · rintro ⟨a | a, b⟩
          · refine ⟨⟨Or.inl a, b⟩, fun e => ?_⟩
            obtain ⟨k, k1, k2⟩ := lowSeg_index s' x (fun fb e => inv'.fbOk fb e) ((hlow x).2 a)
            rw [spec.cend] at k1
            have := spec.inj k s1.firstQuiet (by rw [spec.size]; omega) (by rw [spec.size]; omega)
              (by rw [k2, p4, e])
            omega
          · exact ⟨⟨Or.inr ((p6 x).2 (Or.inr a)), b⟩, fun e => p5 (e ▸ a)⟩
        · rintro ⟨⟨a | a, b⟩, c⟩
          · exact ⟨Or.inl a, b⟩
          · rcases (p6 x).1 a with e | e
            · exact absurd e c
            · exact ⟨Or.inr e, b⟩

theorem sKiller1_ok (env : Env) (st : State) (h : Inv env st) : StepOk env st (sKiller1 env st) := by
  unfold sKiller1
  by_cases hs : st.stage = .killer1
  · rw [if_pos hs]
    have hac : afterCaps st.stage = true := by rw [hs]; rfl
    have inv1 : Inv env { st with stage := .killer2 } :=
      inv_restage h rfl rfl rfl rfl rfl rfl hac rfl
        (fun c => by have := (h.loudStage c).1; rw [hs] at this; cases this)
        (fun c => by simp [afterQuiets] at c) (fun c => by simp at c) (fun c => by simp at c)
        h.fbOk (fun _ => Or.inl (by rw [hs]; rfl)) (fun c => by simp at c) (fun c => by simp at c)
    generalize hp : promote env.killer1 { st with stage := .killer2 } = p
    obtain ⟨r, s'⟩ := p
    simp only
    refine prom_ok env st _ s' env.killer1 r inv1 (Or.inl rfl) (fun x => ?_) ?_ hp
    · unfold InP; simp only [hs]; exact Iff.rfl
    · unfold mu work; simp only [hs, rank]; have := bound_pos env; omega
  · rw [if_neg hs]; exact stepOk_skip env st h

theorem sKiller2_ok (env : Env) (st : State) (h : Inv env st) : StepOk env st (sKiller2 env st) := by
  unfold sKiller2
  by_cases hs : st.stage = .killer2
  · rw [if_pos hs]
    have hac : afterCaps st.stage = true := by rw [hs]; rfl
    have inv1 : Inv env { st with stage := .counterMove } :=
      inv_restage h rfl rfl rfl rfl rfl rfl hac rfl
        (fun c => by have := (h.loudStage c).1; rw [hs] at this; cases this)
        (fun c => by simp [afterQuiets] at c) (fun c => by simp at c) (fun c => by simp at c)
        h.fbOk (fun _ => Or.inl (by rw [hs]; rfl)) (fun c => by simp at c) (fun c => by simp at c)
    generalize hp : promote env.killer2 { st with stage := .counterMove } = p
    obtain ⟨r, s'⟩ := p
    simp only
    refine prom_ok env st _ s' env.killer2 r inv1 (Or.inr (Or.inl rfl)) (fun x => ?_) ?_ hp
    · unfold InP; simp only [hs]; exact Iff.rfl
    · unfold mu work; simp only [hs, rank]; have := bound_pos env; omega
  · rw [if_neg hs]; exact stepOk_skip env st h

theorem sCounter_ok (env : Env) (st : State) (h : Inv env st) : StepOk env st (sCounter env st) := by
  unfold sCounter
  by_cases hs : st.stage = .counterMove
  · rw [if_pos hs]
    have hac : afterCaps st.stage = true := by rw [hs]; rfl
    obtain ⟨c1, _, _⟩ := h.caps hac
    have hl : st.onlyCaptures = false := by
      cases c : st.onlyCaptures with
      | false => rfl
      | true => have := (h.loudStage c).1; rw [hs] at this; cases this
    cases hfb : st.firstBadCapture with
    | none =>
      simp only
      have inv1 : Inv env { st with stage := .scoreQuiets, firstBadCapture := none } :=
        inv_restage h rfl rfl rfl rfl rfl rfl hac rfl
          (fun c => by have c' : st.onlyCaptures = true := c; rw [hl] at c'; cases c')
          (fun c => by simp [afterQuiets] at c) (fun c => by simp at c) (fun c => by simp at c)
          (fun fb e => by cases e) (fun _ => Or.inl (by rw [hs]; rfl)) (fun c => by simp at c)
          (fun c => by simp at c)
      generalize hp : promote env.counter { st with stage := .scoreQuiets, firstBadCapture := none } = p
      obtain ⟨r, s'⟩ := p
      simp only
      refine prom_ok env st _ s' env.counter r inv1 (Or.inr (Or.inr (Or.inl rfl))) (fun x => ?_) ?_ hp
      · unfold InP badSeg; simp only [hs, hfb]
        unfold notHash
        simp
      · unfold mu work; simp only [hs, rank]; have := bound_pos env; omega
    | some fb =>
      simp only
      have hfb' := h.fbOk fb hfb
      have inv1 : Inv env { st with idx := fb, stage := .badCaptures, firstBadCapture := some fb } :=
        inv_restage h rfl rfl rfl rfl rfl rfl hac rfl
          (fun c => by have c' : st.onlyCaptures = true := c; rw [hl] at c'; cases c')
          (fun _ c => by simp at c)
          (fun _ c => by have c' : st.onlyCaptures = true := c; rw [hl] at c'; cases c')
          (fun c => by simp at c)
          (fun fb' e => by cases e; exact hfb') (fun _ => Or.inl (by rw [hs]; rfl))
          (fun _ => Nat.le_of_lt hfb') (fun c => by simp at c)
      generalize hp : promote env.counter { st with idx := fb, stage := .badCaptures, firstBadCapture := some fb } = p
      obtain ⟨r, s'⟩ := p
      simp only
      refine prom_ok env st _ s' env.counter r inv1 (Or.inr (Or.inr (Or.inr ⟨rfl, hl⟩))) (fun x => ?_) ?_ hp
      · unfold InP badSeg; simp only [hs, hfb, hl]
        unfold notHash
        simp
      · unfold mu work; simp only [hs, rank]
        have : st.capturesEnd < bound env := by unfold bound; omega
        omega
  · rw [if_neg hs]; exact stepOk_skip env st h

/-! ### BadCaptures, ScoreQuiets, Quiets -/

theorem sBadCaptures_ok (env : Env) (st : State) (h : Inv env st) : StepOk env st (sBadCaptures st) := by
  unfold sBadCaptures
  by_cases hs : st.stage = .badCaptures
  · rw [if_pos hs]
    have hac : afterCaps st.stage = true := by rw [hs]; rfl
    obtain ⟨c1, c2, c3⟩ := h.caps hac
    have g2 := h.badIdx hs
    have hnb := nextBest_spec st.capturesEnd (st.capturesEnd + 1 - st.idx) st h.inj g2 c2 h.ssize (by omega)
    generalize nextBest st.capturesEnd (st.capturesEnd + 1 - st.idx) st = p at hnb
    obtain ⟨r, st'⟩ := p
    simp only at hnb ⊢
    have inv' : Inv env st' := inv_nb h hnb (Or.inl ⟨rfl, Or.inr hs⟩) g2
    have hnh : ∀ x, notHash st' x ↔ notHash st x := fun x => by unfold notHash; rw [hnb.hash]
    have hqseg : st.onlyCaptures = false → ∀ x, seg st'.moves st.firstQuiet st.moves.size x ↔
        seg st.moves st.firstQuiet st.moves.size x := fun l x =>
      nb_seg_out hnb _ _ (Or.inr (h.quiets (Or.inr ⟨hs, l⟩)).1) x
    cases r with
    | none =>
      simp only
      have hnone := nb_none hnb
      by_cases hl : st'.onlyCaptures = true
      · rw [if_pos hl]
        show Silent env st { st' with stage := .done }
        have hl' : st.onlyCaptures = true := hnb.loud ▸ hl
        refine ⟨?_, fun x => ?_, ?_⟩
        · exact inv_restage inv' rfl rfl rfl rfl rfl rfl (by rw [hnb.stage]; exact hac) rfl
            (fun _ => ⟨rfl, by simp⟩) (fun _ _ c => by simp at c) (fun c => by simp at c)
            (fun c => by simp at c) inv'.fbOk (fun c => by simp [afterQuiets] at c)
            (fun c => by simp at c) (fun c => by simp at c)
        · unfold InP; simp only [hs, hl']
          constructor
          · intro c; exact c.elim
          · rintro ⟨a | ⟨a, _⟩, b⟩
            · exact hnone x b a
            · cases a
        · unfold mu work; simp only [hs, rank]; omega
      · rw [if_neg hl]
        show Silent env st { st' with stage := .scoreQuiets }
        have hl0 : st'.onlyCaptures = false := by simpa using hl
        have hl' : st.onlyCaptures = false := hnb.loud ▸ hl0
        refine ⟨?_, fun x => ?_, ?_⟩
        · exact inv_restage inv' rfl rfl rfl rfl rfl rfl (by rw [hnb.stage]; exact hac) rfl
            (fun c => absurd c hl) (fun c => by simp [afterQuiets] at c) (fun c => by simp at c)
            (fun c => by simp at c) inv'.fbOk (fun _ => Or.inr ⟨hnb.stage.trans hs, hl0⟩)
            (fun c => by simp at c) (fun c => by simp at c)
        · unfold InP; simp only [hs, hl']
          show (seg st'.moves st'.firstQuiet st'.moves.size x ∧ notHash st' x) ↔ _
          rw [hnb.fquiet, hnb.size, hqseg hl' x, hnh x]
          constructor
          · rintro ⟨a, b⟩; exact ⟨Or.inr ⟨trivial, a⟩, b⟩
          · rintro ⟨a | ⟨_, a⟩, b⟩
            · exact absurd a (hnone x b)
            · exact ⟨a, b⟩
        · unfold mu work; simp only [hs, rank]; have := bound_pos env; omega
    | some ms =>
      obtain ⟨mv, score⟩ := ms
      simp only
      show Emit env st mv st'
      obtain ⟨k1, k2, k3, k4⟩ := nb_some hnb c2
      refine ⟨inv', ?_, fun x => ?_, ?_⟩
      · unfold InP; simp only [hs]; exact ⟨Or.inl k3, k1⟩
      · unfold InP
        simp only [hs, hnb.stage, hnb.cend, hnb.loud, hnb.fquiet, hnb.size]
        rw [hnh x]
        constructor
        · rintro ⟨a | ⟨l, a⟩, b⟩
          · refine ⟨⟨Or.inl ((k4 x b).2 (Or.inr a)), b⟩, ?_⟩
            intro e; rw [e] at a; exact k2 a
          · have a' := (hqseg l x).1 a
            refine ⟨⟨Or.inr ⟨l, a'⟩, b⟩, ?_⟩
            intro e
            obtain ⟨i, _, i2, ei⟩ := k3
            obtain ⟨j, j1, j2, ej⟩ := a'
            have q1 := (h.quiets (Or.inr ⟨hs, l⟩)).1
            have := h.inj i j (by omega) j2 (by rw [ei, ej, e])
            omega
        · rintro ⟨⟨a | ⟨l, a⟩, b⟩, c⟩
          · rcases (k4 x b).1 a with e | e
            · exact absurd e c
            · exact ⟨Or.inl e, b⟩
          · exact ⟨Or.inr ⟨l, (hqseg l x).2 a⟩, b⟩
      · unfold mu work
        simp only [hs, hnb.stage, hnb.cend]
        obtain ⟨r1, _⟩ := hnb.result
        have := hnb.idx_le
        omega
  · rw [if_neg hs]; exact stepOk_skip env st h

theorem sScoreQuiets_ok (env : Env) (st : State) (h : Inv env st) : StepOk env st (sScoreQuiets env st) := by
  unfold sScoreQuiets
  by_cases hs : st.stage = .scoreQuiets
  · rw [if_pos hs]
    have hac : afterCaps st.stage = true := by rw [hs]; rfl
    obtain ⟨q1, q2, q3, q4⟩ := h.quiets (Or.inl (by rw [hs]; rfl))
    have hl : st.onlyCaptures = false := by
      cases c : st.onlyCaptures with
      | false => rfl
      | true => have := (h.loudStage c).1; rw [hs] at this; cases this
    show Silent env st _
    refine ⟨?_, fun x => ?_, ?_⟩
    · refine inv_restage h rfl ?_ rfl rfl rfl rfl hac rfl
        (fun c => by have c' : st.onlyCaptures = true := c; rw [hl] at c'; cases c')
        (fun c => by simp [afterQuiets] at c) (fun c => by simp at c)
        (fun c => by simp at c) h.fbOk (fun _ => Or.inl (by rw [hs]; rfl))
        (fun c => by simp at c) (fun _ => ⟨Nat.le_refl _, q2⟩)
      exact setScores_size _ _ _ _ _
    · unfold InP; simp only [hs]; exact Iff.rfl
    · unfold mu work; simp only [hs, rank]
      have : st.moves.size - st.firstQuiet < bound env := by unfold bound; omega
      omega
  · rw [if_neg hs]; exact stepOk_skip env st h

theorem sQuiets_ok (env : Env) (st : State) (h : Inv env st) : StepOk env st (sQuiets st) := by
  unfold sQuiets
  by_cases hs : st.stage = .quiets
  · rw [if_pos hs]
    have hac : afterCaps st.stage = true := by rw [hs]; rfl
    obtain ⟨g1, g2⟩ := h.quietIdx hs
    have hnb := nextBest_spec st.moves.size (st.moves.size + 1 - st.idx) st h.inj g2 (Nat.le_refl _) h.ssize (by omega)
    generalize nextBest st.moves.size (st.moves.size + 1 - st.idx) st = p at hnb
    obtain ⟨r, st'⟩ := p
    simp only at hnb ⊢
    have inv' : Inv env st' := inv_nb h hnb (Or.inr ⟨rfl, hs⟩) g2
    have hnh : ∀ x, notHash st' x ↔ notHash st x := fun x => by unfold notHash; rw [hnb.hash]
    cases r with
    | none =>
      simp only
      show Silent env st { st' with stage := .done }
      have hnone := nb_none hnb
      refine ⟨?_, fun x => ?_, ?_⟩
      · exact inv_restage inv' rfl rfl rfl rfl rfl rfl (by rw [hnb.stage]; exact hac) rfl
          (fun _ => ⟨rfl, by simp⟩) (fun _ _ c => by simp at c) (fun c => by simp at c)
          (fun c => by simp at c) inv'.fbOk (fun c => by simp [afterQuiets] at c)
          (fun c => by simp at c) (fun c => by simp at c)
      · unfold InP; simp only [hs]
        constructor
        · intro c; exact c.elim
        · rintro ⟨a, b⟩; exact hnone x b a
      · unfold mu work; simp only [hs, rank]; omega
    | some ms =>
      obtain ⟨mv, score⟩ := ms
      simp only
      show Emit env st mv st'
      obtain ⟨k1, k2, k3, k4⟩ := nb_some hnb (Nat.le_refl _)
      refine ⟨inv', ?_, fun x => ?_, ?_⟩
      · unfold InP; simp only [hs]; exact ⟨k3, k1⟩
      · unfold InP
        simp only [hs, hnb.stage, hnb.size]
        rw [hnh x]
        constructor
        · rintro ⟨a, b⟩
          exact ⟨⟨(k4 x b).2 (Or.inr a), b⟩, fun e => k2 (e ▸ a)⟩
        · rintro ⟨⟨a, b⟩, c⟩
          rcases (k4 x b).1 a with e | e
          · exact absurd e c
          · exact ⟨e, b⟩
      · unfold mu work
        simp only [hs, hnb.stage, hnb.size]
        obtain ⟨r1, _⟩ := hnb.result
        have := hnb.idx_le
        omega
  · rw [if_neg hs]; exact stepOk_skip env st h

end Picker
end Tcheran
