import TcheranVerif.Proofs.Picker
/-! # Stage lemmas of the move picker -/

namespace Tcheran
namespace Picker

/-- outcome of one stage block -/
def StepOk (env : Env) (st : State) (r : Step) : Prop :=
  match r with
  | .ok st' => Silent env st st'
  | .error (some m, st') => Emit env st m st'
  | .error (none, _) => False

theorem bound_pos (env : Env) : 0 < bound env := by unfold bound; omega

theorem stepOk_skip (env : Env) (st : State) (h : Inv env st) : StepOk env st (.ok st) := Silent.refl env st h

/-! ### BestMove -/

theorem sBest_ok (env : Env) (st : State) (h : Inv env st) : StepOk env st (sBest st) := by
  unfold sBest
  by_cases hs : st.stage = .bestMove
  · rw [if_pos hs]
    have hpre := h.pre (by rw [hs]; rfl)
    have key : ∀ st1 : State, st1 = { st with stage := .genCaptures } →
        StepOk env st (match st1.hash with | some h => .error (some h, st1) | none => .ok st1) := by
      intro st1 e
      have s1 : st1.stage = .genCaptures := by rw [e]
      have h1 : st1.hash = st.hash := by rw [e]
      have l1 : st1.onlyCaptures = st.onlyCaptures := by rw [e]
      have inv1 : Inv env st1 := by
        subst e
        exact
        { inj := h.inj, ssize := h.ssize, hashOk := h.hashOk, loudHash := h.loudHash,
          loudStage := fun _ => ⟨rfl, by simp⟩,
          pre := fun _ => hpre, caps := fun c => by simp [afterCaps] at c,
          noQuietsYet := fun c => by simp [afterCaps] at c,
          loudBad := fun c => by simp at c, good := fun c => by simp at c, fbOk := h.fbOk,
          quiets := fun c => by simp [afterQuiets] at c, badIdx := fun c => by simp at c,
          quietIdx := fun c => by simp at c }
      have hmu : mu env st1 < mu env st := by
        unfold mu work
        simp only [hs, s1, rank]
        have := bound_pos env
        omega
      have hin : ∀ x, InP env st1 x ↔ (InP env st x ∧ notHash st x) := by
        intro x
        unfold InP
        simp only [hs, s1, notHash, qs, h1, l1]
      cases hh : st1.hash with
      | none =>
        show Silent env st st1
        refine ⟨inv1, ?_, Nat.le_of_lt hmu⟩
        intro x
        rw [hin x]
        simp [notHash, ← h1, hh]
      | some hm =>
        show Emit env st hm st1
        refine ⟨inv1, ?_, ?_, hmu⟩
        · unfold InP; simp only [hs]; exact h.hashOk hm (h1 ▸ hh)
        · intro x
          rw [hin x]
          simp only [notHash, ← h1, hh]
          constructor
          · rintro ⟨a, b⟩; exact ⟨a, fun e => b (by rw [e])⟩
          · rintro ⟨a, b⟩; exact ⟨a, fun e => b (Option.some.inj e)⟩
    exact key _ rfl
  · rw [if_neg hs]; exact stepOk_skip env st h

/-! ### GenCaptures -/

theorem setScores_size (scores : Array Int) (moves : Array Move) (f : Move → Int) (lo hi : Nat) :
    (setScores scores moves f lo hi).size = scores.size := by
  unfold setScores
  generalize List.range' lo (hi - lo) = l
  induction l generalizing scores with
  | nil => rfl
  | cons x xs ih =>
    simp only [List.foldl_cons]
    rw [ih]
    split
    · split
      · simp
      · rfl
    · rfl

theorem sGenCaptures_ok (env : Env) (hE : EnvOk env) (st : State) (h : Inv env st) :
    StepOk env st (sGenCaptures env st) := by
  unfold sGenCaptures
  by_cases hs : st.stage = .genCaptures
  · rw [if_pos hs]
    obtain ⟨hm, hsc, hidx, hfb⟩ := h.pre (by rw [hs]; rfl)
    show Silent env st _
    -- the state after the block
    have hmoves : (pushMoves { st with stage := .goodCaptures } env.captures).moves = env.captures.toArray := by
      simp [pushMoves, hm]
    have hscores : (pushMoves { st with stage := .goodCaptures } env.captures).scores.size = env.captures.length := by
      simp [pushMoves, hsc]
    let st1 : State := pushMoves { st with stage := .goodCaptures } env.captures
    let st2 : State := { st1 with capturesEnd := st1.moves.size, firstQuiet := st1.moves.size }
    let st3 : State := { st2 with scores := setScores st2.scores st2.moves env.scoreTactical 0 st2.moves.size }
    show Silent env st st3
    have m3 : st3.moves = env.captures.toArray := hmoves
    have c3 : st3.capturesEnd = env.captures.length := by
      show st1.moves.size = _; rw [hmoves]; simp
    have q3 : st3.firstQuiet = env.captures.length := c3
    have s3 : st3.stage = .goodCaptures := rfl
    have i3 : st3.idx = 0 := hidx
    have f3 : st3.firstBadCapture = none := hfb
    have h3 : st3.hash = st.hash := rfl
    have l3 : st3.onlyCaptures = st.onlyCaptures := rfl
    have sz3 : st3.moves.size = env.captures.length := by rw [m3]; simp
    have inv3 : Inv env st3 :=
      { inj := by rw [m3]; exact inj_toArray _ hE.capsNodup
        ssize := by
          show (setScores st2.scores st2.moves env.scoreTactical 0 st2.moves.size).size = st3.moves.size
          rw [setScores_size, sz3]; exact hscores
        hashOk := fun hm' e => by
          have := h.hashOk hm' (h3 ▸ e)
          simpa [qs, l3] using this
        loudHash := fun e => h.loudHash (l3 ▸ e)
        loudStage := fun _ => ⟨by rw [s3]; rfl, by rw [s3]; simp⟩
        pre := fun c => by rw [s3] at c; simp [afterCaps] at c
        caps := fun _ => ⟨c3, by rw [c3, sz3]; exact Nat.le_refl _, fun x => by rw [c3, m3]; exact seg_toArray _ x⟩
        noQuietsYet := fun _ _ _ => ⟨by rw [sz3, c3], by rw [q3, c3]⟩
        loudBad := fun c => by rw [s3] at c; simp at c
        good := fun _ => ⟨f3, by rw [i3]; exact Nat.zero_le _⟩
        fbOk := fun fb e => by rw [f3] at e; cases e
        quiets := fun c => by rw [s3] at c; simp [afterQuiets] at c
        badIdx := fun c => by rw [s3] at c; simp at c
        quietIdx := fun c => by rw [s3] at c; simp at c }
    refine ⟨inv3, ?_, ?_⟩
    · intro x
      unfold InP
      rw [s3]
      simp only [hs, notHash, h3]
      have : seg st3.moves st3.idx st3.capturesEnd x ↔ x ∈ env.captures := by
        rw [i3, c3, m3]; exact seg_toArray _ x
      rw [this]
      simp [qs, l3]
    · unfold mu work
      rw [s3]
      simp only [hs, rank]
      have hb : st3.capturesEnd - st3.idx < bound env := by
        rw [c3, i3]; unfold bound; omega
      omega
  · rw [if_neg hs]; exact stepOk_skip env st h

/-! ### GoodCaptures -/

theorem sGoodCaptures_ok (env : Env) (hE : EnvOk env) (st : State) (h : Inv env st) :
    StepOk env st (sGoodCaptures st) := by
  unfold sGoodCaptures
  by_cases hs : st.stage = .goodCaptures
  · rw [if_pos hs]
    have hac : afterCaps st.stage = true := by rw [hs]; rfl
    obtain ⟨c1, c2, c3⟩ := h.caps hac
    obtain ⟨n1, n2⟩ := h.noQuietsYet hac (by rw [hs]; rfl) (by rw [hs]; simp)
    obtain ⟨g1, g2⟩ := h.good hs
    have hnb := nextBest_spec st.capturesEnd (st.capturesEnd + 1 - st.idx) st h.inj g2 c2 h.ssize (by omega)
    generalize nextBest st.capturesEnd (st.capturesEnd + 1 - st.idx) st = p at hnb
    obtain ⟨r, st'⟩ := p
    simp only at hnb ⊢
    have inv' : Inv env st' := inv_nb h hnb (Or.inl ⟨rfl, Or.inl hs⟩) g2
    have hqs : qs env st' = qs env st := by unfold qs; rw [hnb.loud]
    have hwork : st.capturesEnd < bound env := by unfold bound; omega
    -- the continuation after the good captures are exhausted
    have hcont : ∀ s : State, s.moves = st'.moves → s.scores = st'.scores → s.hash = st'.hash →
        s.onlyCaptures = st'.onlyCaptures → s.capturesEnd = st'.capturesEnd → s.firstQuiet = st'.firstQuiet →
        s.stage = .goodCaptures →
        (∀ fb, s.firstBadCapture = some fb → fb < s.capturesEnd) →
        (∀ x, notHash st x → (seg st.moves st.idx st.capturesEnd x ↔ badSeg s x)) →
        StepOk env st
          (if s.onlyCaptures then
            match s.firstBadCapture with
            | none => .ok { s with stage := .done }
            | some i => .ok { s with idx := i, stage := .badCaptures }
          else .ok { s with stage := .genQuiets }) := by
      intro s sm ss sh sl sc sq sst sfb sseg
      have hloud : s.onlyCaptures = st.onlyCaptures := by rw [sl, hnb.loud]
      have hhash : s.hash = st.hash := by rw [sh, hnb.hash]
      have hcend : s.capturesEnd = st.capturesEnd := by rw [sc, hnb.cend]
      have hsize : s.moves.size = st.moves.size := by rw [sm, hnb.size]
      have hfq : s.firstQuiet = st.firstQuiet := by rw [sq, hnb.fquiet]
      have ac' : afterCaps st'.stage = true := by rw [hnb.stage]; exact hac
      by_cases hl : s.onlyCaptures = true
      · rw [if_pos hl]
        have hl' : st.onlyCaptures = true := hloud ▸ hl
        cases hfb : s.firstBadCapture with
        | none =>
          show Silent env st _
          refine ⟨?_, ?_, ?_⟩
          · exact inv_restage inv' sm (by rw [ss]) sh sl sc sq ac' rfl
              (fun _ => ⟨rfl, by simp⟩) (fun _ _ => ⟨by show s.moves.size = s.capturesEnd; omega,
                by show s.firstQuiet = s.capturesEnd; omega⟩)
              (fun c => by simp at c) (fun c => by simp at c) (fun fb e => by cases e)
              (fun c => by simp [afterQuiets] at c)
              (fun c => by simp at c) (fun c => by simp at c)
          · intro x
            unfold InP
            simp only [hs, qs, hl']
            constructor
            · intro c; exact c.elim
            · rintro ⟨a | a, b⟩
              · have := (sseg x b).1 a
                unfold badSeg at this; rw [hfb] at this; exact this
              · simp at a
          · unfold mu work; simp only [hs, rank]; omega
        | some fb =>
          show Silent env st _
          have hfb' := sfb fb hfb
          refine ⟨?_, ?_, ?_⟩
          · exact inv_restage inv' sm (by rw [ss]) sh sl sc sq ac' rfl
              (fun _ => ⟨rfl, by simp⟩) (fun _ c => by simp at c)
              (fun _ _ => by show s.moves.size = s.capturesEnd; omega) (fun c => by simp at c)
              (fun fb' e => by cases e; exact hfb')
              (fun c => by
                rcases c with c | ⟨_, c⟩
                · simp [afterQuiets] at c
                · have c' : s.onlyCaptures = false := c
                  rw [hl] at c'; cases c')
              (fun _ => Nat.le_of_lt hfb') (fun c => by simp at c)
          · intro x
            unfold InP
            simp only [hs, qs, hl']
            have hb : badSeg s x ↔ seg s.moves fb s.capturesEnd x := by unfold badSeg; rw [hfb]
            constructor
            · rintro ⟨a | ⟨a, _⟩, b⟩
              · have b' : notHash st x := by unfold notHash at *; rw [← hhash]; exact b
                exact ⟨Or.inl ((sseg x b').2 (hb.2 a)), b'⟩
              · rw [hl] at a; cases a
            · rintro ⟨a | a, b⟩
              · have b' : notHash s x := by unfold notHash at *; rw [hhash]; exact b
                exact ⟨Or.inl (hb.1 ((sseg x b).1 a)), b'⟩
              · simp at a
          · unfold mu work; simp only [hs, rank]
            have : s.capturesEnd - fb < bound env := by omega
            omega
      · rw [if_neg hl]
        have hl' : st.onlyCaptures = false := by rw [← hloud]; simpa using hl
        show Silent env st { s with stage := .genQuiets }
        refine ⟨?_, ?_, ?_⟩
        · exact inv_restage inv' sm (by rw [ss]) sh sl sc sq ac' rfl
            (fun c => absurd c hl) (fun _ _ => ⟨by show s.moves.size = s.capturesEnd; omega,
              by show s.firstQuiet = s.capturesEnd; omega⟩)
            (fun c => by simp at c) (fun c => by simp at c) sfb (fun c => by simp [afterQuiets] at c)
            (fun c => by simp at c) (fun c => by simp at c)
        · intro x
          unfold InP
          simp only [hs, qs, hl']
          have hb : badSeg { s with stage := .genQuiets } x ↔ badSeg s x := Iff.rfl
          rw [hb]
          constructor
          · rintro ⟨a | a, b⟩
            · have b' : notHash st x := by unfold notHash at *; rw [← hhash]; exact b
              exact ⟨Or.inl ((sseg x b').2 a), b'⟩
            · have b' : notHash st x := by unfold notHash at *; rw [← hhash]; exact b
              exact ⟨Or.inr (by simpa using a), b'⟩
          · rintro ⟨a | a, b⟩
            · have b' : notHash s x := by unfold notHash at *; rw [hhash]; exact b
              exact ⟨Or.inl ((sseg x b).1 a), b'⟩
            · have b' : notHash s x := by unfold notHash at *; rw [hhash]; exact b
              exact ⟨Or.inr (by simpa using a), b'⟩
        · unfold mu work; simp only [hs, rank]; omega
    cases r with
    | none =>
      simp only
      refine hcont st' rfl rfl rfl rfl rfl rfl (hnb.stage.trans hs) (fun fb e => inv'.fbOk fb e) ?_
      intro x hx
      have := nb_none hnb x hx
      unfold badSeg; rw [hnb.fbad, g1]
      exact ⟨fun a => absurd a this, fun a => a.elim⟩
    | some ms =>
      obtain ⟨mv, score⟩ := ms
      simp only
      obtain ⟨k1, k2, k3, k4⟩ := nb_some hnb c2
      obtain ⟨r1, r2, r3, r4⟩ := hnb.result
      by_cases hsc : score < goodCaptureScore
      · rw [if_pos hsc]
        refine hcont { st' with firstBadCapture := some (st'.idx - 1), idx := st'.capturesEnd }
          rfl rfl rfl rfl rfl rfl (hnb.stage.trans hs) ?_ ?_
        · intro fb e
          have : st'.idx - 1 = fb := Option.some.inj e
          have := hnb.idx_le
          show fb < st'.capturesEnd
          rw [hnb.cend]; omega
        · intro x hx
          rw [k4 x hx]
          show _ ↔ seg st'.moves (st'.idx - 1) st'.capturesEnd x
          have hlt : st'.idx - 1 < st'.capturesEnd := by have := hnb.idx_le; rw [hnb.cend]; omega
          rw [seg_split _ _ _ x hlt, r2, show st'.idx - 1 + 1 = st'.idx by omega, hnb.cend]
          constructor
          · rintro (e | e)
            · exact Or.inl (by rw [e])
            · exact Or.inr e
          · rintro (e | e)
            · exact Or.inl (Option.some.inj e).symm
            · exact Or.inr e
      · rw [if_neg hsc]
        show Emit env st mv st'
        have hcap : mv ∈ env.captures :=
          (c3 mv).1 (seg_mono _ _ _ _ _ mv (Nat.zero_le _) (Nat.le_refl _) k3)
        refine ⟨inv', ?_, ?_, ?_⟩
        · unfold InP; simp only [hs]; exact ⟨Or.inl k3, k1⟩
        · intro x
          unfold InP
          simp only [hs, hnb.stage, hqs, notHash, hnb.hash, hnb.cend]
          constructor
          · rintro ⟨a | a, b⟩
            · refine ⟨⟨Or.inl ((k4 x b).2 (Or.inr a)), b⟩, ?_⟩
              intro e; rw [e] at a; exact k2 a
            · refine ⟨⟨Or.inr a, b⟩, ?_⟩
              intro e; rw [e] at a
              unfold qs at a
              split at a
              · simp at a
              · exact hE.disjoint mv hcap a
          · rintro ⟨⟨a | a, b⟩, c⟩
            · rcases (k4 x b).1 a with e | e
              · exact absurd e c
              · exact ⟨Or.inl e, b⟩
            · exact ⟨Or.inr a, b⟩
        · unfold mu work
          simp only [hs, hnb.stage, hnb.cend]
          have := hnb.idx_le
          omega
  · rw [if_neg hs]; exact stepOk_skip env st h

end Picker
end Tcheran
