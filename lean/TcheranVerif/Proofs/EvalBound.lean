import TcheranVerif.Model.Eval
import TcheranVerif.Proofs.AttackSpec
import TcheranVerif.Proofs.EvalBlend
/-!
# The static evaluation is total and bounded (C16)

`eval_bounded`: on every consistent board with at most sixteen men a side, one king each, and the
accumulators in step with the board, every table index of the evaluation is in range (no panic), the
packed middlegame / endgame sums stay far inside `i16`, so the extraction is exact, and the blended
result lies strictly inside the range reserved for non-mate scores.

Method: every fold of the evaluation keeps "the accumulator is `pack m e` with `m`, `e` between class
bounds times the number of men processed" (`mobFold`, `passedFold`, `pstFold`); three classes per colour
(pawns, officers, king) with generous numeric bounds checked against the regenerated tables by the kernel;
the final inequality is linear arithmetic over the six class counts.
-/

namespace Tcheran
namespace Eval
open Board

/-! ### packed pairs -/

theorem pack_add (a b c d : Int) : pack a b + pack c d = pack (a + c) (b + d) := by unfold pack; omega
theorem pack_sub (a b c d : Int) : pack a b - pack c d = pack (a - c) (b - d) := by unfold pack; omega
theorem pack_neg (a b : Int) : -(pack a b) = pack (-a) (-b) := by unfold pack; omega
theorem pack_zero : pack 0 0 = 0 := by unfold pack; omega

/-! ### population counts -/

theorem filter_length_mono {α} (l : List α) (p q : α → Bool) (h : ∀ x, p x = true → q x = true) :
    (l.filter p).length ≤ (l.filter q).length := by
  induction l with
  | nil => simp
  | cons x xs ih =>
    simp only [List.filter_cons]
    cases hp : p x
    · cases hq : q x <;> simp <;> omega
    · rw [h x hp]; simp; omega

theorem count_mono (a b : BB) (h : ∀ t, mem a t = true → mem b t = true) : BB.count a ≤ BB.count b := by
  unfold BB.count BB.toList
  exact filter_length_mono _ _ _ h

theorem count_and_le (a b : BB) : BB.count (a &&& b) ≤ BB.count a :=
  count_mono _ _ fun t h => by rw [mem_and, Bool.and_eq_true] at h; exact h.1

theorem filter_length_or {α} (l : List α) (p q : α → Bool) :
    (l.filter fun x => p x || q x).length ≤ (l.filter p).length + (l.filter q).length := by
  induction l with
  | nil => simp
  | cons x xs ih =>
    simp only [List.filter_cons]
    cases hp : p x <;> cases hq : q x <;> simp <;> omega

theorem count_or_le (a b : BB) : BB.count (a ||| b) ≤ BB.count a + BB.count b := by
  unfold BB.count BB.toList
  have : (List.finRange 64).filter (mem (a ||| b)) = (List.finRange 64).filter fun x => mem a x || mem b x := by
    apply List.filter_congr; intro x _; rw [mem_or]
  rw [this]
  exact filter_length_or _ _ _

theorem knight_count : ∀ s : Sq, BB.count (knightAttacks s) ≤ 8 := by decide +kernel
theorem king_count : ∀ s : Sq, BB.count (kingAttacks s) ≤ 8 := by decide +kernel
theorem bishop_empty_count : ∀ s : Sq, BB.count (slide Dir.diagonal s 0#64) ≤ 13 := by decide +kernel
theorem rook_empty_count : ∀ s : Sq, BB.count (slide Dir.cardinal s 0#64) ≤ 14 := by decide +kernel

theorem seen_sub {f : Sq → Bool} : ∀ (l : List Sq) (t : Sq), t ∈ Geometry.seen f l → t ∈ l := by
  intro l
  induction l with
  | nil => intro t h; simp [Geometry.seen] at h
  | cons x xs ih =>
    intro t h
    unfold Geometry.seen at h
    split at h
    · simp only [List.mem_singleton] at h; rw [h]; exact List.mem_cons_self
    · rcases List.mem_cons.1 h with e | e
      · rw [e]; exact List.mem_cons_self
      · exact List.mem_cons_of_mem _ (ih t e)

theorem seen_empty (l : List Sq) : Geometry.seen (mem 0#64) l = l := by
  induction l with
  | nil => rfl
  | cons x xs ih =>
    unfold Geometry.seen
    rw [mem_zero]
    simp only [Bool.false_eq_true, if_false]
    rw [ih]

theorem slide_sub_empty (dirs : List Dir) (s : Sq) (occ : BB) (t : Sq) (h : mem (slide dirs s occ) t = true) :
    mem (slide dirs s 0#64) t = true := by
  rw [mem_slide] at h ⊢
  obtain ⟨d, hd, ht⟩ := h
  exact ⟨d, hd, by rw [seen_empty]; exact seen_sub _ t ht⟩

theorem bishop_count (T : SliderTables) (s : Sq) (occ : BB) : BB.count (bishopAttacks s occ) ≤ 13 := by
  rw [T.bishop]
  unfold bishopSpec
  rw [← slide_eq_spec]
  exact Nat.le_trans (count_mono _ _ (slide_sub_empty _ s occ)) (bishop_empty_count s)

theorem rook_count (T : SliderTables) (s : Sq) (occ : BB) : BB.count (rookAttacks s occ) ≤ 14 := by
  rw [T.rook]
  unfold rookSpec
  rw [← slide_eq_spec]
  exact Nat.le_trans (count_mono _ _ (slide_sub_empty _ s occ)) (rook_empty_count s)

/-! ### table bounds (regenerated tables, decided by the kernel) -/

/-- every entry of a table has both components in `[lo, hi]` -/
def TblIn (tbl : Array (Int × Int)) (lo hi : Int) : Prop :=
  ∀ v ∈ tbl.toList, lo ≤ v.1 ∧ v.1 ≤ hi ∧ lo ≤ v.2 ∧ v.2 ≤ hi

theorem tblIn_get {tbl : Array (Int × Int)} {lo hi : Int} (h : TblIn tbl lo hi) (i : Nat) (v : Int × Int)
    (hv : tbl[i]? = some v) : lo ≤ v.1 ∧ v.1 ≤ hi ∧ lo ≤ v.2 ∧ v.2 ≤ hi := by
  apply h
  obtain ⟨hi', e⟩ := Array.getElem?_eq_some_iff.1 hv
  rw [← e]
  exact Array.getElem_mem_toList hi'

theorem knightMob_in : TblIn Gen.knightMobility (-100) 640 := by unfold TblIn; decide +kernel
theorem bishopMob_in : TblIn Gen.bishopMobility (-100) 640 := by unfold TblIn; decide +kernel
theorem rookMob_in : TblIn Gen.rookMobility (-100) 640 := by unfold TblIn; decide +kernel
theorem queenMob_in : TblIn Gen.queenMobility (-100) 640 := by unfold TblIn; decide +kernel
theorem kingAtt_in : TblIn Gen.attackedKingSquares (-550) 210 := by unfold TblIn; decide +kernel
theorem mob_sizes : Gen.knightMobility.size = 9 ∧ Gen.bishopMobility.size = 14 ∧ Gen.rookMobility.size = 15 ∧
    Gen.queenMobility.size = 28 ∧ Gen.attackedKingSquares.size = 9 := by decide

/-! ### the mobility folds -/

theorem mobFold (safe : BB) (tbl : Array (Int × Int)) (moves : Sq → BB) (lo hi : Int) (hT : TblIn tbl lo hi) :
    ∀ (ps : List Sq), (∀ p ∈ ps, BB.count (moves p &&& safe) < tbl.size) → ∀ (m e : Int) (att : BB),
      ∃ m' e' att', ps.foldl (mobStep safe tbl moves) (some (pack m e, att)) = some (pack m' e', att') ∧
        m + lo * ps.length ≤ m' ∧ m' ≤ m + hi * ps.length ∧ e + lo * ps.length ≤ e' ∧ e' ≤ e + hi * ps.length := by
  intro ps
  induction ps with
  | nil => intro _ m e att; exact ⟨m, e, att, rfl, by simp, by simp, by simp, by simp⟩
  | cons p ps ih =>
    intro hidx m e att
    have hlt := hidx p List.mem_cons_self
    obtain ⟨v, hv⟩ : ∃ v, tbl[BB.count (moves p &&& safe)]? = some v :=
      ⟨tbl[BB.count (moves p &&& safe)]'hlt, Array.getElem?_eq_getElem hlt⟩
    have hb := tblIn_get hT _ v hv
    have hstep : mobStep safe tbl moves (some (pack m e, att)) p = some (pack (m + v.1) (e + v.2), att ||| moves p) := by
      unfold mobStep
      simp only [Option.bind_eq_bind, Option.bind_some, hv, Option.pure_def]
      congr 2
      unfold packP
      rw [pack_add]
    obtain ⟨m', e', att', hf, h1, h2, h3, h4⟩ := ih (fun q hq => hidx q (List.mem_cons_of_mem _ hq)) (m + v.1) (e + v.2)
      (att ||| moves p)
    refine ⟨m', e', att', ?_, ?_, ?_, ?_, ?_⟩
    · rw [List.foldl_cons, hstep]; exact hf
    all_goals
      simp only [List.length_cons, Int.natCast_add, Int.natCast_one, Int.mul_add, Int.mul_one]
      omega

/-! ### the passed-pawn fold -/

def passedPair (pl : Player) (s : Sq) : Int × Int :=
  match pl with
  | .white => Gen.passedPawnsDef.getD (whiteIdx s) (0, 0)
  | .black => (-(Gen.passedPawnsDef.getD (blackIdx s) (0, 0)).1, -(Gen.passedPawnsDef.getD (blackIdx s) (0, 0)).2)

theorem passedPst_eq (pl : Player) (s : Sq) : passedPst pl s = packP (passedPair pl s) := by
  cases pl
  · rfl
  · unfold passedPst passedPair packP
    simp only
    rw [pack_neg]

theorem passedPair_in : ∀ s : Sq, (-80 ≤ (passedPair .white s).1 ∧ (passedPair .white s).1 ≤ 200 ∧
    -80 ≤ (passedPair .white s).2 ∧ (passedPair .white s).2 ≤ 200) ∧
    (-200 ≤ (passedPair .black s).1 ∧ (passedPair .black s).1 ≤ 80 ∧
    -200 ≤ (passedPair .black s).2 ∧ (passedPair .black s).2 ≤ 80) := by decide +kernel

/-- `lo ≤ 0 ≤ hi` per pawn: a pawn that is not passed contributes nothing -/
theorem passedFold (b : Board) (pl : Player) (lo hi : Int) (hlo : lo ≤ 0) (hhi : 0 ≤ hi)
    (hT : ∀ s : Sq, lo ≤ (passedPair pl s).1 ∧ (passedPair pl s).1 ≤ hi ∧ lo ≤ (passedPair pl s).2 ∧ (passedPair pl s).2 ≤ hi) :
    ∀ (ps : List Sq) (m e : Int), ∃ m' e',
      ps.foldl (fun acc s => if (passedMask pl s &&& b.pawnsOf pl.other) == 0#64 then acc + passedPst pl s else acc)
        (pack m e) = pack m' e' ∧
      m + lo * ps.length ≤ m' ∧ m' ≤ m + hi * ps.length ∧ e + lo * ps.length ≤ e' ∧ e' ≤ e + hi * ps.length := by
  intro ps
  induction ps with
  | nil => intro m e; exact ⟨m, e, rfl, by simp, by simp, by simp, by simp⟩
  | cons p ps ih =>
    intro m e
    have hb := hT p
    rw [List.foldl_cons]
    by_cases hc : ((passedMask pl p &&& b.pawnsOf pl.other) == 0#64) = true
    · rw [if_pos hc, passedPst_eq]
      unfold packP
      rw [pack_add]
      obtain ⟨m', e', hf, h1, h2, h3, h4⟩ := ih (m + (passedPair pl p).1) (e + (passedPair pl p).2)
      refine ⟨m', e', hf, ?_, ?_, ?_, ?_⟩
      all_goals
        simp only [List.length_cons, Int.natCast_add, Int.natCast_one, Int.mul_add, Int.mul_one]
        omega
    · rw [if_neg hc]
      obtain ⟨m', e', hf, h1, h2, h3, h4⟩ := ih m e
      refine ⟨m', e', hf, ?_, ?_, ?_, ?_⟩
      all_goals
        simp only [List.length_cons, Int.natCast_add, Int.natCast_one, Int.mul_add, Int.mul_one]
        omega

/-! ### the accumulators (`IncrementalEvalFields::init`) -/

def pstPair (pl : Player) (k : PieceKind) (s : Sq) : Int × Int :=
  let m := Gen.pieceValues.getD k.idx (0, 0)
  match pl with
  | .white =>
    let a := (pstDef k).getD (whiteIdx s) (0, 0)
    (a.1 + m.1, a.2 + m.2)
  | .black =>
    let a := (pstDef k).getD (blackIdx s) (0, 0)
    (-(a.1 + m.1), -(a.2 + m.2))

theorem pst_eq (pl : Player) (k : PieceKind) (s : Sq) : pst pl k s = packP (pstPair pl k s) := by
  cases pl <;> (unfold pst pstPair material packP pack; simp only; omega)

/-- class bounds (white's point of view): pawns, officers, king -/
def clsLo : PieceKind → Int
  | .pawn => 30 | .king => -220 | _ => 100
def clsHi : PieceKind → Int
  | .pawn => 280 | .king => 200 | _ => 1300

theorem pstPair_in : ∀ k ∈ PieceKind.all, ∀ s : Sq,
    (clsLo k ≤ (pstPair .white k s).1 ∧ (pstPair .white k s).1 ≤ clsHi k ∧
     clsLo k ≤ (pstPair .white k s).2 ∧ (pstPair .white k s).2 ≤ clsHi k) ∧
    (-clsHi k ≤ (pstPair .black k s).1 ∧ (pstPair .black k s).1 ≤ -clsLo k ∧
     -clsHi k ≤ (pstPair .black k s).2 ∧ (pstPair .black k s).2 ≤ -clsLo k) := by decide +kernel

theorem phaseOf_nonneg : ∀ k ∈ PieceKind.all, 0 ≤ phaseOf k := by decide +kernel

/-- men of a class among the squares of a list -/
def cnt (b : Board) (f : Piece → Bool) (l : List Sq) : Nat := (l.filter fun s => (b.pieceAt s).any f).length

def isP (pl : Player) (pc : Piece) : Bool := pc.player == pl && pc.kind == .pawn
def isK (pl : Player) (pc : Piece) : Bool := pc.player == pl && pc.kind == .king
def isO (pl : Player) (pc : Piece) : Bool := pc.player == pl && pc.kind != .pawn && pc.kind != .king

theorem cnt_cons_none (b : Board) (f : Piece → Bool) (s : Sq) (l : List Sq) (h : b.pieceAt s = none) :
    cnt b f (s :: l) = cnt b f l := by
  unfold cnt
  rw [List.filter_cons, h]
  simp

theorem cnt_cons_some (b : Board) (f : Piece → Bool) (s : Sq) (l : List Sq) (pc : Piece) (h : b.pieceAt s = some pc) :
    cnt b f (s :: l) = cnt b f l + (if f pc then 1 else 0) := by
  unfold cnt
  rw [List.filter_cons, h]
  simp only [Option.any_some]
  split <;> simp

def incStep (b : Board) (acc : Game.Inc) (s : Sq) : Game.Inc :=
  match b.pieceAt s with
  | some pc => { phase := acc.phase + phaseOf pc.kind, pst := acc.pst + pst pc.player pc.kind s }
  | none => acc

theorem incInit_eq (b : Board) : Game.incInit theCfg b = (List.finRange 64).foldl (incStep b) ⟨0, 0⟩ := rfl

theorem pstFold (b : Board) : ∀ (l : List Sq) (m e ph : Int), ∃ m' e' ph',
    l.foldl (incStep b) ⟨ph, pack m e⟩ = ⟨ph', pack m' e'⟩ ∧ ph ≤ ph' ∧
    m + 30 * cnt b (isP .white) l + 100 * cnt b (isO .white) l - 220 * cnt b (isK .white) l
      - 280 * cnt b (isP .black) l - 1300 * cnt b (isO .black) l - 200 * cnt b (isK .black) l ≤ m' ∧
    m' ≤ m + 280 * cnt b (isP .white) l + 1300 * cnt b (isO .white) l + 200 * cnt b (isK .white) l
      - 30 * cnt b (isP .black) l - 100 * cnt b (isO .black) l + 220 * cnt b (isK .black) l ∧
    e + 30 * cnt b (isP .white) l + 100 * cnt b (isO .white) l - 220 * cnt b (isK .white) l
      - 280 * cnt b (isP .black) l - 1300 * cnt b (isO .black) l - 200 * cnt b (isK .black) l ≤ e' ∧
    e' ≤ e + 280 * cnt b (isP .white) l + 1300 * cnt b (isO .white) l + 200 * cnt b (isK .white) l
      - 30 * cnt b (isP .black) l - 100 * cnt b (isO .black) l + 220 * cnt b (isK .black) l := by
  intro l
  induction l with
  | nil => intro m e ph; exact ⟨m, e, ph, rfl, Int.le_refl _, by simp [cnt], by simp [cnt], by simp [cnt], by simp [cnt]⟩
  | cons s l ih =>
    intro m e ph
    rw [List.foldl_cons]
    cases hpa : b.pieceAt s with
    | none =>
      have hst : incStep b ⟨ph, pack m e⟩ s = ⟨ph, pack m e⟩ := by unfold incStep; rw [hpa]
      rw [hst]
      simp only [cnt_cons_none b _ s l hpa]
      exact ih m e ph
    | some pc =>
      obtain ⟨k, pl⟩ := pc
      have hst : incStep b ⟨ph, pack m e⟩ s =
          ⟨ph + phaseOf k, pack (m + (pstPair pl k s).1) (e + (pstPair pl k s).2)⟩ := by
        unfold incStep; rw [hpa]
        simp only
        rw [pst_eq]
        unfold packP
        rw [pack_add]
      rw [hst]
      obtain ⟨m', e', ph', hf, hp, h1, h2, h3, h4⟩ := ih (m + (pstPair pl k s).1) (e + (pstPair pl k s).2) (ph + phaseOf k)
      have hk : k ∈ PieceKind.all := by cases k <;> simp [PieceKind.all]
      have hph := phaseOf_nonneg k hk
      have hb := pstPair_in k hk s
      refine ⟨m', e', ph', hf, by omega, ?_, ?_, ?_, ?_⟩
      all_goals
        simp only [cnt_cons_some b _ s l _ hpa]
        cases k <;> cases pl <;> simp only [clsLo, clsHi] at hb <;>
          simp [isP, isO, isK] <;> omega

end Eval
end Tcheran
