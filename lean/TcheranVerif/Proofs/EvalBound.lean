import TcheranVerif.Model.Eval
import TcheranVerif.Proofs.AttackSpec
import TcheranVerif.Proofs.EvalBlend
/-!
# The static evaluation is total and bounded (C16)

`eval_bounded`: on every consistent board with at most sixteen men a side, one king each, and the
accumulators in step with the board, every table index of the evaluation is in range (no panic), the
packed middlegame / endgame sums stay far inside `i16`, so the extraction is exact, and the blended
result lies strictly inside the range reserved for non-mate scores.

Method: every fold of the evaluation keeps "the accumulator is `pack m e` with `m`, `e` between class
bounds times the number of men processed" (`mobFold`, `passedFold`, `pstFold`); three classes per colour
(pawns, officers, king) with generous numeric bounds checked against the regenerated tables by the kernel;
the final inequality is linear arithmetic over the six class counts.
-/

namespace Tcheran
namespace Eval
open Board

/-! ### packed pairs -/

theorem pack_add (a b c d : Int) : pack a b + pack c d = pack (a + c) (b + d) := by unfold pack; omega
theorem pack_sub (a b c d : Int) : pack a b - pack c d = pack (a - c) (b - d) := by unfold pack; omega
theorem pack_neg (a b : Int) : -(pack a b) = pack (-a) (-b) := by unfold pack; omega
theorem pack_zero : pack 0 0 = 0 := by unfold pack; omega

/-! ### population counts -/

theorem filter_length_mono {α} (l : List α) (p q : α → Bool) (h : ∀ x, p x = true → q x = true) :
    (l.filter p).length ≤ (l.filter q).length := by
  induction l with
  | nil => simp
  | cons x xs ih =>
    simp only [List.filter_cons]
    cases hp : p x
    · cases hq : q x <;> simp <;> omega
    · rw [h x hp]; simp; omega

theorem count_mono (a b : BB) (h : ∀ t, mem a t = true → mem b t = true) : BB.count a ≤ BB.count b := by
  unfold BB.count BB.toList
  exact filter_length_mono _ _ _ h

theorem count_and_le (a b : BB) : BB.count (a &&& b) ≤ BB.count a :=
  count_mono _ _ fun t h => by rw [mem_and, Bool.and_eq_true] at h; exact h.1

theorem filter_length_or {α} (l : List α) (p q : α → Bool) :
    (l.filter fun x => p x || q x).length ≤ (l.filter p).length + (l.filter q).length := by
  induction l with
  | nil => simp
  | cons x xs ih =>
    simp only [List.filter_cons]
    cases hp : p x <;> cases hq : q x <;> simp <;> omega

theorem count_or_le (a b : BB) : BB.count (a ||| b) ≤ BB.count a + BB.count b := by
  unfold BB.count BB.toList
  have : (List.finRange 64).filter (mem (a ||| b)) = (List.finRange 64).filter fun x => mem a x || mem b x := by
    apply List.filter_congr; intro x _; rw [mem_or]
  rw [this]
  exact filter_length_or _ _ _

theorem knight_count : ∀ s : Sq, BB.count (knightAttacks s) ≤ 8 := by decide +kernel
theorem king_count : ∀ s : Sq, BB.count (kingAttacks s) ≤ 8 := by decide +kernel
theorem bishop_empty_count : ∀ s : Sq, BB.count (slide Dir.diagonal s 0#64) ≤ 13 := by decide +kernel
theorem rook_empty_count : ∀ s : Sq, BB.count (slide Dir.cardinal s 0#64) ≤ 14 := by decide +kernel

theorem seen_sub {f : Sq → Bool} : ∀ (l : List Sq) (t : Sq), t ∈ Geometry.seen f l → t ∈ l := by
  intro l
  induction l with
  | nil => intro t h; simp [Geometry.seen] at h
  | cons x xs ih =>
    intro t h
    unfold Geometry.seen at h
    split at h
    · simp only [List.mem_singleton] at h; rw [h]; exact List.mem_cons_self
    · rcases List.mem_cons.1 h with e | e
      · rw [e]; exact List.mem_cons_self
      · exact List.mem_cons_of_mem _ (ih t e)

theorem seen_empty (l : List Sq) : Geometry.seen (mem 0#64) l = l := by
  induction l with
  | nil => rfl
  | cons x xs ih =>
    unfold Geometry.seen
    rw [mem_zero]
    simp only [Bool.false_eq_true, if_false]
    rw [ih]

theorem slide_sub_empty (dirs : List Dir) (s : Sq) (occ : BB) (t : Sq) (h : mem (slide dirs s occ) t = true) :
    mem (slide dirs s 0#64) t = true := by
  rw [mem_slide] at h ⊢
  obtain ⟨d, hd, ht⟩ := h
  exact ⟨d, hd, by rw [seen_empty]; exact seen_sub _ t ht⟩

theorem bishop_count (T : SliderTables) (s : Sq) (occ : BB) : BB.count (bishopAttacks s occ) ≤ 13 := by
  rw [T.bishop]
  unfold Geometry.bishopSpec
  rw [← slide_eq_spec]
  exact Nat.le_trans (count_mono _ _ (slide_sub_empty _ s occ)) (bishop_empty_count s)

theorem rook_count (T : SliderTables) (s : Sq) (occ : BB) : BB.count (rookAttacks s occ) ≤ 14 := by
  rw [T.rook]
  unfold Geometry.rookSpec
  rw [← slide_eq_spec]
  exact Nat.le_trans (count_mono _ _ (slide_sub_empty _ s occ)) (rook_empty_count s)

/-! ### table bounds (regenerated tables, decided by the kernel) -/

/-- every entry of a table has both components in `[lo, hi]` -/
def TblIn (tbl : Array (Int × Int)) (lo hi : Int) : Prop :=
  ∀ v ∈ tbl.toList, lo ≤ v.1 ∧ v.1 ≤ hi ∧ lo ≤ v.2 ∧ v.2 ≤ hi

theorem tblIn_get {tbl : Array (Int × Int)} {lo hi : Int} (h : TblIn tbl lo hi) (i : Nat) (v : Int × Int)
    (hv : tbl[i]? = some v) : lo ≤ v.1 ∧ v.1 ≤ hi ∧ lo ≤ v.2 ∧ v.2 ≤ hi := by
  apply h
  obtain ⟨hi', e⟩ := Array.getElem?_eq_some_iff.1 hv
  rw [← e]
  exact Array.getElem_mem_toList hi'

theorem knightMob_in : TblIn Gen.knightMobility (-100) 640 := by unfold TblIn; decide +kernel
theorem bishopMob_in : TblIn Gen.bishopMobility (-100) 640 := by unfold TblIn; decide +kernel
theorem rookMob_in : TblIn Gen.rookMobility (-100) 640 := by unfold TblIn; decide +kernel
theorem queenMob_in : TblIn Gen.queenMobility (-100) 640 := by unfold TblIn; decide +kernel
theorem kingAtt_in : TblIn Gen.attackedKingSquares (-550) 210 := by unfold TblIn; decide +kernel
theorem mob_sizes : Gen.knightMobility.size = 9 ∧ Gen.bishopMobility.size = 14 ∧ Gen.rookMobility.size = 15 ∧
    Gen.queenMobility.size = 28 ∧ Gen.attackedKingSquares.size = 9 := by decide

/-! ### the mobility folds -/

theorem mobFold (safe : BB) (tbl : Array (Int × Int)) (moves : Sq → BB) (lo hi : Int) (hT : TblIn tbl lo hi) :
    ∀ (ps : List Sq), (∀ p ∈ ps, BB.count (moves p &&& safe) < tbl.size) → ∀ (m e : Int) (att : BB),
      ∃ m' e' att', ps.foldl (mobStep safe tbl moves) (some (pack m e, att)) = some (pack m' e', att') ∧
        m + lo * ps.length ≤ m' ∧ m' ≤ m + hi * ps.length ∧ e + lo * ps.length ≤ e' ∧ e' ≤ e + hi * ps.length := by
  intro ps
  induction ps with
  | nil => intro _ m e att; exact ⟨m, e, att, rfl, by simp, by simp, by simp, by simp⟩
  | cons p ps ih =>
    intro hidx m e att
    have hlt := hidx p List.mem_cons_self
    obtain ⟨v, hv⟩ : ∃ v, tbl[BB.count (moves p &&& safe)]? = some v :=
      ⟨tbl[BB.count (moves p &&& safe)]'hlt, Array.getElem?_eq_getElem hlt⟩
    have hb := tblIn_get hT _ v hv
    have hstep : mobStep safe tbl moves (some (pack m e, att)) p = some (pack (m + v.1) (e + v.2), att ||| moves p) := by
      unfold mobStep
      simp only [Option.bind_eq_bind, Option.bind_some, hv, Option.pure_def]
      congr 2
      unfold packP
      rw [pack_add]
    obtain ⟨m', e', att', hf, h1, h2, h3, h4⟩ := ih (fun q hq => hidx q (List.mem_cons_of_mem _ hq)) (m + v.1) (e + v.2)
      (att ||| moves p)
    refine ⟨m', e', att', ?_, ?_, ?_, ?_, ?_⟩
    · rw [List.foldl_cons, hstep]; exact hf
    all_goals
      simp only [List.length_cons, Int.natCast_add, Int.natCast_one, Int.mul_add, Int.mul_one]
      omega

/-! ### the passed-pawn fold -/

def passedPair (pl : Player) (s : Sq) : Int × Int :=
  match pl with
  | .white => Gen.passedPawnsDef.getD (whiteIdx s) (0, 0)
  | .black => (-(Gen.passedPawnsDef.getD (blackIdx s) (0, 0)).1, -(Gen.passedPawnsDef.getD (blackIdx s) (0, 0)).2)

theorem passedPst_eq (pl : Player) (s : Sq) : passedPst pl s = packP (passedPair pl s) := by
  cases pl
  · rfl
  · unfold passedPst passedPair packP
    simp only
    rw [pack_neg]

theorem passedPair_in : ∀ s : Sq, (-80 ≤ (passedPair .white s).1 ∧ (passedPair .white s).1 ≤ 200 ∧
    -80 ≤ (passedPair .white s).2 ∧ (passedPair .white s).2 ≤ 200) ∧
    (-200 ≤ (passedPair .black s).1 ∧ (passedPair .black s).1 ≤ 80 ∧
    -200 ≤ (passedPair .black s).2 ∧ (passedPair .black s).2 ≤ 80) := by decide +kernel

/-- `lo ≤ 0 ≤ hi` per pawn: a pawn that is not passed contributes nothing -/
theorem passedFold (b : Board) (pl : Player) (lo hi : Int) (hlo : lo ≤ 0) (hhi : 0 ≤ hi)
    (hT : ∀ s : Sq, lo ≤ (passedPair pl s).1 ∧ (passedPair pl s).1 ≤ hi ∧ lo ≤ (passedPair pl s).2 ∧ (passedPair pl s).2 ≤ hi) :
    ∀ (ps : List Sq) (m e : Int), ∃ m' e',
      ps.foldl (fun acc s => if (passedMask pl s &&& b.pawnsOf pl.other) == 0#64 then acc + passedPst pl s else acc)
        (pack m e) = pack m' e' ∧
      m + lo * ps.length ≤ m' ∧ m' ≤ m + hi * ps.length ∧ e + lo * ps.length ≤ e' ∧ e' ≤ e + hi * ps.length := by
  intro ps
  induction ps with
  | nil => intro m e; exact ⟨m, e, rfl, by simp, by simp, by simp, by simp⟩
  | cons p ps ih =>
    intro m e
    have hb := hT p
    rw [List.foldl_cons]
    by_cases hc : ((passedMask pl p &&& b.pawnsOf pl.other) == 0#64) = true
    · rw [if_pos hc, passedPst_eq]
      unfold packP
      rw [pack_add]
      obtain ⟨m', e', hf, h1, h2, h3, h4⟩ := ih (m + (passedPair pl p).1) (e + (passedPair pl p).2)
      refine ⟨m', e', hf, ?_, ?_, ?_, ?_⟩
      all_goals
        simp only [List.length_cons, Int.natCast_add, Int.natCast_one, Int.mul_add, Int.mul_one]
        omega
    · rw [if_neg hc]
      obtain ⟨m', e', hf, h1, h2, h3, h4⟩ := ih m e
      refine ⟨m', e', hf, ?_, ?_, ?_, ?_⟩
      all_goals
        simp only [List.length_cons, Int.natCast_add, Int.natCast_one, Int.mul_add, Int.mul_one]
        omega

/-! ### the accumulators (`IncrementalEvalFields::init`) -/

def pstPair (pl : Player) (k : PieceKind) (s : Sq) : Int × Int :=
  let m := Gen.pieceValues.getD k.idx (0, 0)
  match pl with
  | .white =>
    let a := (pstDef k).getD (whiteIdx s) (0, 0)
    (a.1 + m.1, a.2 + m.2)
  | .black =>
    let a := (pstDef k).getD (blackIdx s) (0, 0)
    (-(a.1 + m.1), -(a.2 + m.2))

theorem pst_eq (pl : Player) (k : PieceKind) (s : Sq) : pst pl k s = packP (pstPair pl k s) := by
  cases pl <;> (unfold pst pstPair material packP pack; simp only; omega)

/-- class bounds (white's point of view): pawns, officers, king -/
def clsLo : PieceKind → Int
  | .pawn => 30 | .king => -220 | _ => 100
def clsHi : PieceKind → Int
  | .pawn => 280 | .king => 200 | _ => 1300

theorem pstPair_in : ∀ k ∈ PieceKind.all, ∀ s : Sq,
    (clsLo k ≤ (pstPair .white k s).1 ∧ (pstPair .white k s).1 ≤ clsHi k ∧
     clsLo k ≤ (pstPair .white k s).2 ∧ (pstPair .white k s).2 ≤ clsHi k) ∧
    (-clsHi k ≤ (pstPair .black k s).1 ∧ (pstPair .black k s).1 ≤ -clsLo k ∧
     -clsHi k ≤ (pstPair .black k s).2 ∧ (pstPair .black k s).2 ≤ -clsLo k) := by decide +kernel

theorem phaseOf_nonneg : ∀ k ∈ PieceKind.all, 0 ≤ phaseOf k := by decide +kernel

/-- men of a class among the squares of a list -/
def cnt (b : Board) (f : Piece → Bool) (l : List Sq) : Nat := (l.filter fun s => (b.pieceAt s).any f).length

def isP (pl : Player) (pc : Piece) : Bool := pc.player == pl && pc.kind == .pawn
def isK (pl : Player) (pc : Piece) : Bool := pc.player == pl && pc.kind == .king
def isO (pl : Player) (pc : Piece) : Bool := pc.player == pl && pc.kind != .pawn && pc.kind != .king

theorem cnt_cons_none (b : Board) (f : Piece → Bool) (s : Sq) (l : List Sq) (h : b.pieceAt s = none) :
    cnt b f (s :: l) = cnt b f l := by
  unfold cnt
  rw [List.filter_cons, h]
  simp

theorem cnt_cons_some (b : Board) (f : Piece → Bool) (s : Sq) (l : List Sq) (pc : Piece) (h : b.pieceAt s = some pc) :
    cnt b f (s :: l) = cnt b f l + (if f pc then 1 else 0) := by
  unfold cnt
  rw [List.filter_cons, h]
  simp only [Option.any_some]
  split <;> simp

def incStep (b : Board) (acc : Inc) (s : Sq) : Inc :=
  match b.pieceAt s with
  | some pc => { phase := acc.phase + phaseOf pc.kind, pst := acc.pst + pst pc.player pc.kind s }
  | none => acc

theorem incInit_eq (b : Board) : Game.incInit theCfg b = (List.finRange 64).foldl (incStep b) ⟨0, 0⟩ := rfl

theorem pstFold (b : Board) : ∀ (l : List Sq) (m e ph : Int), ∃ m' e' ph',
    l.foldl (incStep b) ⟨ph, pack m e⟩ = ⟨ph', pack m' e'⟩ ∧ ph ≤ ph' ∧
    m + 30 * cnt b (isP .white) l + 100 * cnt b (isO .white) l - 220 * cnt b (isK .white) l
      - 280 * cnt b (isP .black) l - 1300 * cnt b (isO .black) l - 200 * cnt b (isK .black) l ≤ m' ∧
    m' ≤ m + 280 * cnt b (isP .white) l + 1300 * cnt b (isO .white) l + 200 * cnt b (isK .white) l
      - 30 * cnt b (isP .black) l - 100 * cnt b (isO .black) l + 220 * cnt b (isK .black) l ∧
    e + 30 * cnt b (isP .white) l + 100 * cnt b (isO .white) l - 220 * cnt b (isK .white) l
      - 280 * cnt b (isP .black) l - 1300 * cnt b (isO .black) l - 200 * cnt b (isK .black) l ≤ e' ∧
    e' ≤ e + 280 * cnt b (isP .white) l + 1300 * cnt b (isO .white) l + 200 * cnt b (isK .white) l
      - 30 * cnt b (isP .black) l - 100 * cnt b (isO .black) l + 220 * cnt b (isK .black) l := by
  intro l
  induction l with
  | nil => intro m e ph; exact ⟨m, e, ph, rfl, Int.le_refl _, by simp [cnt], by simp [cnt], by simp [cnt], by simp [cnt]⟩
  | cons s l ih =>
    intro m e ph
    rw [List.foldl_cons]
    cases hpa : b.pieceAt s with
    | none =>
      have hst : incStep b ⟨ph, pack m e⟩ s = ⟨ph, pack m e⟩ := by unfold incStep; rw [hpa]
      rw [hst]
      simp only [cnt_cons_none b _ s l hpa]
      exact ih m e ph
    | some pc =>
      obtain ⟨k, pl⟩ := pc
      have hst : incStep b ⟨ph, pack m e⟩ s =
          ⟨ph + phaseOf k, pack (m + (pstPair pl k s).1) (e + (pstPair pl k s).2)⟩ := by
        unfold incStep; rw [hpa]
        simp only
        rw [pst_eq]
        unfold packP
        rw [pack_add]
      rw [hst]
      obtain ⟨m', e', ph', hf, hp, h1, h2, h3, h4⟩ := ih (m + (pstPair pl k s).1) (e + (pstPair pl k s).2) (ph + phaseOf k)
      have hk : k ∈ PieceKind.all := by cases k <;> simp [PieceKind.all]
      have hph := phaseOf_nonneg k hk
      have hb := pstPair_in k hk s
      refine ⟨m', e', ph', hf, by omega, ?_, ?_, ?_, ?_⟩
      all_goals
        simp only [cnt_cons_some b _ s l _ hpa]
        cases k <;> cases pl <;> simp only [clsLo, clsHi] at hb <;>
          simp [isP, isO, isK] <;> omega

/-! ### bitboard counts are class counts -/

def sqs : List Sq := List.finRange 64

theorem count_piecesOf (b : Board) (hc : Consistent b) (k : PieceKind) (pl : Player) :
    BB.count (b.byKind k &&& b.occFor pl) = cnt b (fun pc => pc == ⟨k, pl⟩) sqs := by
  unfold BB.count BB.toList cnt sqs
  congr 1
  apply List.filter_congr
  intro s _
  cases hm : mem (b.byKind k &&& b.occFor pl) s with
  | true =>
    rw [(mem_kindOf b hc k pl s).1 hm]
    simp
  | false =>
    cases hp : b.pieceAt s with
    | none => simp
    | some pc =>
      simp only [Option.any_some]
      cases hq : (pc == (⟨k, pl⟩ : Piece))
      · rfl
      · exfalso
        have : b.pieceAt s = some ⟨k, pl⟩ := by rw [hp, eq_of_beq hq]
        rw [(mem_kindOf b hc k pl s).2 this] at hm
        cases hm

theorem cnt_split4 (b : Board) (pl : Player) : ∀ l : List Sq,
    cnt b (isO pl) l = cnt b (fun pc => pc == ⟨.knight, pl⟩) l + cnt b (fun pc => pc == ⟨.bishop, pl⟩) l +
      cnt b (fun pc => pc == ⟨.rook, pl⟩) l + cnt b (fun pc => pc == ⟨.queen, pl⟩) l := by
  intro l
  induction l with
  | nil => simp [cnt]
  | cons s l ih =>
    cases hpa : b.pieceAt s with
    | none => simp only [cnt_cons_none b _ s l hpa]; exact ih
    | some pc =>
      simp only [cnt_cons_some b _ s l pc hpa]
      obtain ⟨k, p⟩ := pc
      cases k <;> cases p <;> cases pl <;> simp [isO] <;> omega

theorem cnt_isP (b : Board) (pl : Player) : ∀ l : List Sq, cnt b (isP pl) l = cnt b (fun pc => pc == ⟨.pawn, pl⟩) l := by
  intro l
  induction l with
  | nil => simp [cnt]
  | cons s l ih =>
    cases hpa : b.pieceAt s with
    | none => simp only [cnt_cons_none b _ s l hpa]; exact ih
    | some pc =>
      simp only [cnt_cons_some b _ s l pc hpa]
      obtain ⟨k, p⟩ := pc
      cases k <;> cases p <;> cases pl <;> simp [isP] <;> omega

theorem cnt_isK (b : Board) (pl : Player) : ∀ l : List Sq, cnt b (isK pl) l = cnt b (fun pc => pc == ⟨.king, pl⟩) l := by
  intro l
  induction l with
  | nil => simp [cnt]
  | cons s l ih =>
    cases hpa : b.pieceAt s with
    | none => simp only [cnt_cons_none b _ s l hpa]; exact ih
    | some pc =>
      simp only [cnt_cons_some b _ s l pc hpa]
      obtain ⟨k, p⟩ := pc
      cases k <;> cases p <;> cases pl <;> simp [isK] <;> omega

/-! ### the terms of the evaluation -/

theorem mobility_side (T : SliderTables) (b : Board) (hc : Consistent b) (pl : Player)
    (hk : cnt b (isK pl.other) sqs = 1) :
    ∃ m e, mobilityFor b pl = some (pack m e) ∧
      -100 * (cnt b (isO pl) sqs : Int) - 210 ≤ m ∧ m ≤ 640 * (cnt b (isO pl) sqs : Int) + 550 ∧
      -100 * (cnt b (isO pl) sqs : Int) - 210 ≤ e ∧ e ≤ 640 * (cnt b (isO pl) sqs : Int) + 550 := by
  obtain ⟨s9, s14, s15, s28, sk⟩ := mob_sizes
  have hN := mobFold (safeSquares b pl) Gen.knightMobility knightAttacks (-100) 640 knightMob_in
    (BB.toList (b.knightsOf pl)) (fun p _ => by
      rw [s9]; exact Nat.lt_of_le_of_lt (Nat.le_trans (count_and_le _ _) (knight_count p)) (by decide)) 0 0 0#64
  obtain ⟨m1, e1, a1, f1, b1, b2, b3, b4⟩ := hN
  have hB := mobFold (safeSquares b pl) Gen.bishopMobility (fun p => bishopAttacks p b.occupancy) (-100) 640 bishopMob_in
    (BB.toList (b.bishopsOf pl)) (fun p _ => by
      rw [s14]; exact Nat.lt_of_le_of_lt (Nat.le_trans (count_and_le _ _) (bishop_count T p _)) (by decide)) m1 e1 a1
  obtain ⟨m2, e2, a2, f2, c1, c2, c3, c4⟩ := hB
  have hR := mobFold (safeSquares b pl) Gen.rookMobility (fun p => rookAttacks p b.occupancy) (-100) 640 rookMob_in
    (BB.toList (b.rooksOf pl)) (fun p _ => by
      rw [s15]; exact Nat.lt_of_le_of_lt (Nat.le_trans (count_and_le _ _) (rook_count T p _)) (by decide)) m2 e2 a2
  obtain ⟨m3, e3, a3, f3, d1, d2, d3, d4⟩ := hR
  have hQ := mobFold (safeSquares b pl) Gen.queenMobility
    (fun p => bishopAttacks p b.occupancy ||| rookAttacks p b.occupancy) (-100) 640 queenMob_in
    (BB.toList (b.queensOf pl)) (fun p _ => by
      rw [s28]
      have h1 := count_and_le (bishopAttacks p b.occupancy ||| rookAttacks p b.occupancy) (safeSquares b pl)
      have h2 := count_or_le (bishopAttacks p b.occupancy) (rookAttacks p b.occupancy)
      have h3 := bishop_count T p b.occupancy
      have h4 := rook_count T p b.occupancy
      omega) m3 e3 a3
  obtain ⟨m4, e4, a4, f4, g1, g2, g3, g4⟩ := hQ
  -- the enemy king
  have hkc : BB.count (b.kingOf pl.other) = 1 := by
    have := count_piecesOf b hc .king pl.other
    rw [← cnt_isK] at this
    rw [show b.kingOf pl.other = b.byKind .king &&& b.occFor pl.other from rfl, this, hk]
  obtain ⟨ek, hek⟩ : ∃ ek, BB.lsbSq? (b.kingOf pl.other) = some ek := by
    unfold BB.lsbSq?
    unfold BB.count at hkc
    cases hl : BB.toList (b.kingOf pl.other) with
    | nil => rw [hl] at hkc; cases hkc
    | cons x xs => exact ⟨x, rfl⟩
  have hidx : BB.count (a4 &&& kingAttacks ek) < Gen.attackedKingSquares.size := by
    rw [sk]
    have h1 : BB.count (a4 &&& kingAttacks ek) ≤ BB.count (kingAttacks ek) :=
      count_mono _ _ fun t h => by rw [mem_and, Bool.and_eq_true] at h; exact h.2
    have := king_count ek
    omega
  obtain ⟨v, hv⟩ : ∃ v, Gen.attackedKingSquares[BB.count (a4 &&& kingAttacks ek)]? = some v :=
    ⟨_, Array.getElem?_eq_getElem hidx⟩
  have hvb := tblIn_get kingAtt_in _ v hv
  -- lengths
  have lN := count_piecesOf b hc .knight pl
  have lB := count_piecesOf b hc .bishop pl
  have lR := count_piecesOf b hc .rook pl
  have lQ := count_piecesOf b hc .queen pl
  have l4 := cnt_split4 b pl sqs
  have eN : (BB.toList (b.knightsOf pl)).length = cnt b (fun pc => pc == ⟨.knight, pl⟩) sqs := lN
  have eB : (BB.toList (b.bishopsOf pl)).length = cnt b (fun pc => pc == ⟨.bishop, pl⟩) sqs := lB
  have eR : (BB.toList (b.rooksOf pl)).length = cnt b (fun pc => pc == ⟨.rook, pl⟩) sqs := lR
  have eQ : (BB.toList (b.queensOf pl)).length = cnt b (fun pc => pc == ⟨.queen, pl⟩) sqs := lQ
  refine ⟨m4 - v.1, e4 - v.2, ?_, ?_, ?_, ?_, ?_⟩
  · unfold mobilityFor
    simp only [Option.bind_eq_bind, Option.pure_def]
    have z : (some ((0 : Int), 0#64) : Option (Int × BB)) = some (pack 0 0, 0#64) := by rw [pack_zero]
    rw [z, f1, f2, f3, f4]
    simp only [Option.bind_some, hek, hv]
    unfold packP
    rw [pack_sub]
  all_goals
    rw [eN] at b1 b2 b3 b4
    rw [eB] at c1 c2 c3 c4
    rw [eR] at d1 d2 d3 d4
    rw [eQ] at g1 g2 g3 g4
    omega

theorem bishopPair_bounds (b : Board) : ∃ m e, bishopPair b = pack m e ∧ -100 ≤ m ∧ m ≤ 100 ∧ -100 ≤ e ∧ e ≤ 100 := by
  have hb : 0 ≤ (Gen.bishopPairBonus.getD 0 (0, 0)).1 ∧ (Gen.bishopPairBonus.getD 0 (0, 0)).1 ≤ 100 ∧
      0 ≤ (Gen.bishopPairBonus.getD 0 (0, 0)).2 ∧ (Gen.bishopPairBonus.getD 0 (0, 0)).2 ≤ 100 := by decide +kernel
  unfold bishopPair packP
  simp only
  generalize Gen.bishopPairBonus.getD 0 (0, 0) = x at hb
  split <;> split
  · exact ⟨0, 0, by unfold pack; omega, by omega, by omega, by omega, by omega⟩
  · exact ⟨x.1, x.2, by unfold pack; omega, by omega, by omega, by omega, by omega⟩
  · exact ⟨-x.1, -x.2, by unfold pack; omega, by omega, by omega, by omega, by omega⟩
  · exact ⟨0, 0, by unfold pack; omega, by omega, by omega, by omega, by omega⟩

theorem passed_side (b : Board) (hc : Consistent b) (pl : Player) (lo hi : Int) (hlo : lo ≤ 0) (hhi : 0 ≤ hi)
    (hT : ∀ s : Sq, lo ≤ (passedPair pl s).1 ∧ (passedPair pl s).1 ≤ hi ∧ lo ≤ (passedPair pl s).2 ∧ (passedPair pl s).2 ≤ hi) :
    ∃ m e, passedBonus b pl = pack m e ∧
      lo * (cnt b (isP pl) sqs : Int) ≤ m ∧ m ≤ hi * (cnt b (isP pl) sqs : Int) ∧
      lo * (cnt b (isP pl) sqs : Int) ≤ e ∧ e ≤ hi * (cnt b (isP pl) sqs : Int) := by
  obtain ⟨m, e, hf, h1, h2, h3, h4⟩ := passedFold b pl lo hi hlo hhi hT (BB.toList (b.pawnsOf pl)) 0 0
  have len : (BB.toList (b.pawnsOf pl)).length = cnt b (isP pl) sqs := by
    rw [cnt_isP]; exact count_piecesOf b hc .pawn pl
  refine ⟨m, e, ?_, ?_, ?_, ?_, ?_⟩
  · unfold passedBonus
    rw [← pack_zero]
    exact hf
  all_goals (rw [len] at h1 h2 h3 h4; omega)

/-- **eval_total_bounded** -/
theorem eval_total_bounded (T : SliderTables) (g : Game) (hc : Consistent g.board)
    (hinc : g.inc = Game.incInit theCfg g.board)
    (hKw : cnt g.board (isK .white) sqs = 1) (hKb : cnt g.board (isK .black) sqs = 1)
    (hW : cnt g.board (isP .white) sqs + cnt g.board (isO .white) sqs + cnt g.board (isK .white) sqs ≤ 16)
    (hB : cnt g.board (isP .black) sqs + cnt g.board (isO .black) sqs + cnt g.board (isK .black) sqs ≤ 16) :
    ∃ v, eval g = some v ∧ -31130 ≤ v ∧ v ≤ 31130 := by
  obtain ⟨pm, pe, ph, hpst, hph, p1, p2, p3, p4⟩ := pstFold g.board sqs 0 0 0
  obtain ⟨wm, we, hwm, w1, w2, w3, w4⟩ := mobility_side T g.board hc .white hKb
  obtain ⟨bm, be, hbm, k1, k2, k3, k4⟩ := mobility_side T g.board hc .black hKw
  obtain ⟨qm, qe, hq, q1, q2, q3, q4⟩ := bishopPair_bounds g.board
  obtain ⟨um, ue, hu, u1, u2, u3, u4⟩ := passed_side g.board hc .white (-80) 200 (by omega) (by omega)
    (fun s => (passedPair_in s).1)
  obtain ⟨vm, ve, hv, v1, v2, v3, v4⟩ := passed_side g.board hc .black (-200) 80 (by omega) (by omega)
    (fun s => (passedPair_in s).2)
  have hincv : g.inc = ⟨ph, pack pm pe⟩ := by
    rw [hinc, incInit_eq, ← pack_zero]; exact hpst
  have hmob : mobility g.board = some (pack (wm - bm) (we - be)) := by
    unfold mobility
    simp only [Option.bind_eq_bind, Option.pure_def]
    rw [hwm, hbm]
    simp only [Option.bind_some]
    rw [pack_sub]
  have htotal : g.inc.pst + bishopPair g.board + pack (wm - bm) (we - be) + pawnStructure g.board =
      pack (pm + qm + (wm - bm) + (um + vm)) (pe + qe + (we - be) + (ue + ve)) := by
    unfold pawnStructure
    rw [hincv, hq, hu, hv]
    simp only [pack_add]
  have hM : -31130 ≤ pm + qm + (wm - bm) + (um + vm) ∧ pm + qm + (wm - bm) + (um + vm) ≤ 31130 := by
    simp only [Int.zero_add] at p1 p2
    constructor <;> omega
  have hE : -31130 ≤ pe + qe + (we - be) + (ue + ve) ∧ pe + qe + (we - be) + (ue + ve) ≤ 31130 := by
    simp only [Int.zero_add] at p3 p4
    constructor <;> omega
  obtain ⟨a, ha, ha1, ha2⟩ := forPhase_in _ _ g.inc.phase (-31130) 31130 (by omega) (by omega) hM hE
    (by rw [hincv]; exact hph)
  have habs : absoluteEval g = some a := by
    unfold absoluteEval
    simp only [Option.bind_eq_bind, Option.pure_def]
    rw [hmob]
    simp only [Option.bind_some]
    rw [htotal]
    exact ha
  unfold eval
  simp only [Option.bind_eq_bind, Option.pure_def]
  rw [habs]
  simp only [Option.bind_some]
  cases g.player
  · exact ⟨a, rfl, ha1, ha2⟩
  · simp only
    rw [if_neg (by omega)]
    exact ⟨-a, rfl, by omega, by omega⟩

/-! ### from the `Legal` predicate -/

open Rules in
theorem count_eq_cnt (b : Board) (f : Piece → Bool) : Rules.count b.squares f = cnt b f sqs := rfl

theorem cnt_player (b : Board) (pl : Player) : ∀ l : List Sq,
    cnt b (fun pc => pc.player == pl) l = cnt b (isP pl) l + cnt b (isO pl) l + cnt b (isK pl) l := by
  intro l
  induction l with
  | nil => simp [cnt]
  | cons s l ih =>
    cases hpa : b.pieceAt s with
    | none => simp only [cnt_cons_none b _ s l hpa]; exact ih
    | some pc =>
      simp only [cnt_cons_some b _ s l pc hpa]
      obtain ⟨k, p⟩ := pc
      cases k <;> cases p <;> cases pl <;> simp [isP, isO, isK] <;> omega

open Rules in
/-- **eval_bounded** for the decidable `Legal` predicate -/
theorem eval_bounded_legal (T : SliderTables) (g : Game) (hc : Consistent g.board)
    (hl : legalPos (ofGame g) = true) (hinc : g.inc = Game.incInit theCfg g.board) :
    ∃ v, eval g = some v ∧ -31900 < v ∧ v < 31900 := by
  unfold legalPos at hl
  simp only [Bool.and_eq_true] at hl
  obtain ⟨⟨⟨⟨⟨⟨⟨⟨hkings, _⟩, _⟩, _⟩, _⟩, hmw⟩, hmb⟩, _⟩, _⟩ := hl
  simp only [Bool.and_eq_true, beq_iff_eq, decide_eq_true_eq] at hkings hmw hmb
  have hKw : cnt g.board (isK .white) sqs = 1 := by rw [cnt_isK]; exact hkings.1
  have hKb : cnt g.board (isK .black) sqs = 1 := by rw [cnt_isK]; exact hkings.2
  have hW := cnt_player g.board .white sqs
  have hB := cnt_player g.board .black sqs
  have h16w : cnt g.board (fun pc => pc.player == .white) sqs ≤ 16 := hmw.1
  have h16b : cnt g.board (fun pc => pc.player == .black) sqs ≤ 16 := hmb.1
  obtain ⟨v, hv, h1, h2⟩ := eval_total_bounded T g hc hinc hKw hKb (by omega) (by omega)
  exact ⟨v, hv, by omega, by omega⟩


end Eval
end Tcheran
