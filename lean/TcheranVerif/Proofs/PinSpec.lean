import TcheranVerif.Proofs.Pins
/-!
# What `get_pins` computes (C01)

`mem_pins_iff` : a square belongs to the orthogonal (diagonal) pin mask exactly when it is an enemy
rook/queen (bishop/queen) `q` on a cardinal (diagonal) ray from the king, or lies between the king and
such a `q`, where between king and `q` there is nothing, or exactly one man and that man is ours
(`XR`).
-/

namespace Tcheran
open Board Geometry Rules

/-! ### list facts about `takeWhile (· != q)` -/

theorem tw_cons_pos (y q : Sq) (ys : List Sq) (h : y ≠ q) :
    (y :: ys).takeWhile (fun x => x != q) = y :: ys.takeWhile (fun x => x != q) :=
  List.takeWhile_cons_of_pos (p := fun x => x != q) (by simpa using h)

theorem tw_cons_neg (q : Sq) (ys : List Sq) : (q :: ys).takeWhile (fun x => x != q) = [] :=
  List.takeWhile_cons_of_neg (p := fun x => x != q) (by simp)

theorem tw_sub {l : List Sq} {q x : Sq} (h : x ∈ l.takeWhile (fun y => y != q)) : x ∈ l ∧ x ≠ q := by
  induction l with
  | nil => cases h
  | cons y ys ih =>
    by_cases hy : y = q
    · subst hy; rw [tw_cons_neg] at h; cases h
    · rw [tw_cons_pos y q ys hy] at h
      rcases List.mem_cons.1 h with e | e
      · subst e; exact ⟨List.mem_cons_self, hy⟩
      · exact ⟨List.mem_cons_of_mem _ (ih e).1, (ih e).2⟩

/-- of two distinct members of a list one precedes the other -/
theorem tw_total {l : List Sq} {a c : Sq} (ha : a ∈ l) (hc : c ∈ l) (hne : a ≠ c) :
    a ∈ l.takeWhile (fun y => y != c) ∨ c ∈ l.takeWhile (fun y => y != a) := by
  induction l with
  | nil => cases ha
  | cons y ys ih =>
    by_cases hya : y = a
    · subst hya
      left
      rw [tw_cons_pos y c ys hne]
      exact List.mem_cons_self
    · by_cases hyc : y = c
      · subst hyc
        right
        rw [tw_cons_pos y a ys (Ne.symm hne)]
        exact List.mem_cons_self
      · have ha' : a ∈ ys := by
          rcases List.mem_cons.1 ha with e | e
          · exact absurd e.symm hya
          · exact e
        have hc' : c ∈ ys := by
          rcases List.mem_cons.1 hc with e | e
          · exact absurd e.symm hyc
          · exact e
        rw [tw_cons_pos y c ys hyc, tw_cons_pos y a ys hya]
        rcases ih ha' hc' with h | h
        · exact Or.inl (List.mem_cons_of_mem _ h)
        · exact Or.inr (List.mem_cons_of_mem _ h)

/-- the squares before `s` are before `q` as well when `s` is before `q` -/
theorem tw_trans {l : List Sq} {q s z : Sq} (hs : s ∈ l.takeWhile (fun y => y != q))
    (hz : z ∈ l.takeWhile (fun y => y != s)) : z ∈ l.takeWhile (fun y => y != q) ∧ z ≠ s := by
  induction l with
  | nil => cases hs
  | cons y ys ih =>
    by_cases hyq : y = q
    · subst hyq; rw [tw_cons_neg] at hs; cases hs
    · rw [tw_cons_pos y q ys hyq] at hs ⊢
      by_cases hys : y = s
      · subst hys; rw [tw_cons_neg] at hz; cases hz
      · rw [tw_cons_pos y s ys hys] at hz
        have hs' : s ∈ ys.takeWhile (fun y => y != q) := by
          rcases List.mem_cons.1 hs with e | e
          · exact absurd e.symm hys
          · exact e
        rcases List.mem_cons.1 hz with e | e
        · subst e; exact ⟨List.mem_cons_self, hys⟩
        · exact ⟨List.mem_cons_of_mem _ (ih hs' e).1, (ih hs' e).2⟩

/-! ### `betweenList` inherits these -/

theorem bl_on_ray {k q x : Sq} (h : x ∈ betweenList k q) :
    ∃ dir ∈ Dir.all, q ∈ ray dir k ∧ x ∈ ray dir k ∧ x ≠ q := by
  unfold betweenList at h
  rw [List.mem_flatMap] at h
  obtain ⟨dir, hd, hx⟩ := h
  split at hx
  · rename_i hq
    exact ⟨dir, hd, hq, (tw_sub hx).1, (tw_sub hx).2⟩
  · cases hx

theorem bl_total {k a c : Sq} {dir : Dir} (hd : dir ∈ Dir.all) (ha : a ∈ ray dir k) (hc : c ∈ ray dir k)
    (hne : a ≠ c) : a ∈ betweenList k c ∨ c ∈ betweenList k a := by
  rw [betweenList_ray k dir hd c hc, betweenList_ray k dir hd a ha]
  exact tw_total ha hc hne

theorem bl_trans {k q s z : Sq} (hs : s ∈ betweenList k q) (hz : z ∈ betweenList k s) :
    z ∈ betweenList k q ∧ z ≠ s := by
  obtain ⟨dir, hd, hq, hsr, _⟩ := bl_on_ray hs
  rw [betweenList_ray k dir hd q hq] at hs ⊢
  rw [betweenList_ray k dir hd s hsr] at hz
  exact tw_trans hs hz

theorem bl_same_ray {k q x : Sq} {dir : Dir} (hd : dir ∈ Dir.all) (hq : q ∈ ray dir k)
    (hx : x ∈ betweenList k q) : x ∈ ray dir k := by
  rw [betweenList_ray k dir hd q hq] at hx
  exact (tw_sub hx).1

/-! ### the x-ray condition -/

/-- between `k` and `q` there is nothing, or exactly one man and it belongs to `p` -/
def XR (b : RBoard) (p : Player) (k q : Sq) : Prop :=
  (∀ y ∈ betweenList k q, occOf b y = false) ∨
  (∃ s ∈ betweenList k q, (∃ X, at' b s = some X ∧ X.player = p) ∧
    ∀ y ∈ betweenList k q, y = s ∨ occOf b y = false)

/-- a slider of the given two kinds on a ray of the given family from `k` -/
def SliderGeo (b : RBoard) (o : Player) (k1 : PieceKind) (dirs : List Dir) (k q : Sq) : Prop :=
  (at' b q = some ⟨k1, o⟩ ∨ at' b q = some ⟨.queen, o⟩) ∧ ∃ dir ∈ dirs, q ∈ ray dir k

theorem mem_foldPins (king : Sq) (L : List Sq) (x : Sq) (acc : BB) :
    mem (L.foldl (fun acc p => acc ||| bb p ||| between king p) acc) x = true ↔
      (mem acc x = true ∨ ∃ p ∈ L, x = p ∨ x ∈ betweenList king p) := by
  induction L generalizing acc with
  | nil =>
    simp only [List.foldl_nil]
    constructor
    · intro h; exact Or.inl h
    · rintro (h | ⟨p, hp, _⟩)
      · exact h
      · cases hp
  | cons y ys ih =>
    rw [List.foldl_cons, ih, mem_or, mem_or, mem_bb, Bool.or_eq_true, Bool.or_eq_true, mem_between,
      decide_eq_true_eq]
    constructor
    · rintro (((a | a) | a) | ⟨q, hq, a⟩)
      · exact Or.inl a
      · exact Or.inr ⟨y, List.mem_cons_self, Or.inl a⟩
      · exact Or.inr ⟨y, List.mem_cons_self, Or.inr a⟩
      · exact Or.inr ⟨q, List.mem_cons_of_mem _ hq, a⟩
    · rintro (a | ⟨q, hq, a⟩)
      · exact Or.inl (Or.inl (Or.inl a))
      · rcases List.mem_cons.1 hq with e | e
        · subst e
          rcases a with a | a
          · exact Or.inl (Or.inl (Or.inr a))
          · exact Or.inl (Or.inr a)
        · exact Or.inr ⟨q, e, a⟩

/-- the generic half of `get_pins`: one family of directions, one slider table -/
theorem pins_family (bd : Board) (hc : Consistent bd) (p : Player) (king : Sq) (dirs : List Dir)
    (hsub : ∀ d ∈ dirs, d ∈ Dir.all) (k1 : PieceKind)
    (att : Sq → BB → BB) (hatt : ∀ s occ, att s occ = slideSpec dirs s occ)
    (sliders : BB) (hsl : ∀ q, mem sliders q = true ↔
      (bd.pieceAt q = some ⟨k1, p.other⟩ ∨ bd.pieceAt q = some ⟨.queen, p.other⟩)) (x : Sq) :
    mem ((BB.toList (att king (bd.occupancy &&& ~~~(att king bd.occupancy &&& bd.occFor p)) &&& sliders)).foldl
        (fun acc q => acc ||| bb q ||| between king q) 0#64) x = true ↔
      ∃ q, SliderGeo bd.squares p.other k1 dirs king q ∧ XR bd.squares p king q ∧
        (x = q ∨ x ∈ betweenList king q) := by
  rw [mem_foldPins]
  simp only [mem_zero, Bool.false_eq_true, false_or, mem_toList, mem_and, Bool.and_eq_true]
  have hocc := mem_occupancy bd hc
  have hown : ∀ y, mem (bd.occFor p) y = true ↔ ∃ X, at' bd.squares y = some X ∧ X.player = p := by
    intro y
    rw [hc.2 p y]
    show _ ↔ ∃ X, bd.pieceAt y = some X ∧ X.player = p
    cases h : bd.pieceAt y with
    | none => simp
    | some pc => simp
  have hseen : ∀ (occ : BB) (q : Sq), mem (att king occ) q = true ↔
      ∃ dir ∈ dirs, q ∈ ray dir king ∧ ∀ y ∈ betweenList king q, mem occ y = false := by
    intro occ q
    rw [hatt, slideSpec, mem_setOf, List.mem_flatMap]
    constructor
    · rintro ⟨dir, hd, h⟩
      exact ⟨dir, hd, (mem_seen_ray _ king q dir (hsub dir hd)).1 h⟩
    · rintro ⟨dir, hd, h⟩
      exact ⟨dir, hd, (mem_seen_ray _ king q dir (hsub dir hd)).2 h⟩
  -- emptiness under the reduced occupancy is the x-ray condition
  have hxr : ∀ (q : Sq) (dir : Dir), dir ∈ dirs → q ∈ ray dir king →
      ((∀ y ∈ betweenList king q,
          mem (bd.occupancy &&& ~~~(att king bd.occupancy &&& bd.occFor p)) y = false) ↔
        XR bd.squares p king q) := by
    intro q dir hd hq
    have hda := hsub dir hd
    constructor
    · intro h
      by_cases hall : ∀ y ∈ betweenList king q, occOf bd.squares y = false
      · exact Or.inl hall
      · right
        have : ∃ s ∈ betweenList king q, occOf bd.squares s = true := by
          apply Decidable.byContradiction
          intro hn
          apply hall
          intro y hy
          cases ho : occOf bd.squares y with
          | false => rfl
          | true => exact absurd ⟨y, hy, ho⟩ hn
        obtain ⟨s, hs, hso⟩ := this
        -- an occupied square between is one of our first-seen men
        have hfirst : ∀ y ∈ betweenList king q, occOf bd.squares y = true →
            (mem (bd.occFor p) y = true ∧ ∀ z ∈ betweenList king y, occOf bd.squares z = false) := by
          intro y hy hyo
          have h2 := h y hy
          rw [mem_and, mem_not, hocc y, hyo, mem_and] at h2
          simp only [Bool.true_and, Bool.not_eq_false', Bool.and_eq_true] at h2
          refine ⟨h2.2, ?_⟩
          obtain ⟨dir', hd', hy', he⟩ := (hseen bd.occupancy y).1 h2.1
          intro z hz
          rw [← hocc z]; exact he z hz
        obtain ⟨hso1, hso2⟩ := hfirst s hs hso
        refine ⟨s, hs, (hown s).1 hso1, ?_⟩
        intro y hy
        by_cases hys : y = s
        · exact Or.inl hys
        · right
          cases hyo : occOf bd.squares y with
          | false => rfl
          | true =>
            exfalso
            obtain ⟨_, hy2⟩ := hfirst y hy hyo
            have hsr := bl_same_ray hda hq hs
            have hyr := bl_same_ray hda hq hy
            rcases bl_total hda hyr hsr hys with h1 | h1
            · rw [hso2 y h1] at hyo; cases hyo
            · rw [hy2 s h1] at hso; cases hso
    · rintro (h | ⟨s, hs, hsown, h⟩)
      · intro y hy
        rw [mem_and, hocc y, h y hy]; rfl
      · intro y hy
        rw [mem_and, mem_not, hocc y]
        rcases h y hy with e | e
        · subst e
          have hsr := bl_same_ray hda hq hy
          have : mem (att king bd.occupancy &&& bd.occFor p) y = true := by
            rw [mem_and, Bool.and_eq_true]
            refine ⟨(hseen bd.occupancy y).2 ⟨dir, hd, hsr, ?_⟩, (hown y).2 hsown⟩
            intro z hz
            obtain ⟨hz1, hz2⟩ := bl_trans hy hz
            rw [hocc z]
            rcases h z hz1 with e | e
            · exact absurd e hz2
            · exact e
          rw [this]; simp
        · rw [e]; rfl
  constructor
  · rintro ⟨q, ⟨hq1, hq2⟩, hx⟩
    obtain ⟨dir, hd, hq, he⟩ := (hseen _ q).1 hq1
    exact ⟨q, ⟨(hsl q).1 hq2, dir, hd, hq⟩, (hxr q dir hd hq).1 he, hx⟩
  · rintro ⟨q, ⟨hk, dir, hd, hq⟩, hx, hm⟩
    exact ⟨q, ⟨(hseen _ q).2 ⟨dir, hd, hq, (hxr q dir hd hq).2 hx⟩, (hsl q).2 hk⟩, hm⟩

end Tcheran
