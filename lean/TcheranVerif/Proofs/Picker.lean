import TcheranVerif.Proofs.PickerBasics
/-!
# The staged picker yields every generated move exactly once — invariant and stage lemmas

`InP env st x` : `x` is still to be yielded in state `st`. `Inv env st` : structural invariant.
Each stage block of `MovePicker::next` is either *silent* (`InP` unchanged) or *emits* one move that
is removed from `InP`; a measure decreases, and `InP` is empty at `Done`.
-/

namespace Tcheran
namespace Picker

structure EnvOk (env : Env) : Prop where
  capsNodup : env.captures.Nodup
  quietsNodup : env.quiets.Nodup
  disjoint : ∀ x, x ∈ env.captures → x ∉ env.quiets

def qs (env : Env) (st : State) : List Move := if st.onlyCaptures then [] else env.quiets

def badSeg (st : State) (x : Move) : Prop :=
  match st.firstBadCapture with
  | some fb => seg st.moves fb st.capturesEnd x
  | none => False

def notHash (st : State) (x : Move) : Prop := some x ≠ st.hash

/-- `x` is still to be yielded -/
def InP (env : Env) (st : State) (x : Move) : Prop :=
  match st.stage with
  | .bestMove => x ∈ env.captures ∨ x ∈ qs env st
  | .genCaptures => (x ∈ env.captures ∨ x ∈ qs env st) ∧ notHash st x
  | .goodCaptures => (seg st.moves st.idx st.capturesEnd x ∨ x ∈ qs env st) ∧ notHash st x
  | .genQuiets => (badSeg st x ∨ x ∈ env.quiets) ∧ notHash st x
  | .killer1 => (badSeg st x ∨ seg st.moves st.firstQuiet st.moves.size x) ∧ notHash st x
  | .killer2 => (badSeg st x ∨ seg st.moves st.firstQuiet st.moves.size x) ∧ notHash st x
  | .counterMove => (badSeg st x ∨ seg st.moves st.firstQuiet st.moves.size x) ∧ notHash st x
  | .badCaptures => (seg st.moves st.idx st.capturesEnd x ∨
      (st.onlyCaptures = false ∧ seg st.moves st.firstQuiet st.moves.size x)) ∧ notHash st x
  | .scoreQuiets => seg st.moves st.firstQuiet st.moves.size x ∧ notHash st x
  | .quiets => seg st.moves st.idx st.moves.size x ∧ notHash st x
  | .done => False

def rank : Stage → Nat
  | .bestMove => 10 | .genCaptures => 9 | .goodCaptures => 8 | .genQuiets => 7 | .killer1 => 6
  | .killer2 => 5 | .counterMove => 4 | .badCaptures => 3 | .scoreQuiets => 2 | .quiets => 1 | .done => 0

def bound (env : Env) : Nat := env.captures.length + env.quiets.length + 1

/-- work left inside the current stage -/
def work (st : State) : Nat :=
  match st.stage with
  | .goodCaptures => st.capturesEnd - st.idx
  | .badCaptures => st.capturesEnd - st.idx
  | .quiets => st.moves.size - st.idx
  | _ => 0

def mu (env : Env) (st : State) : Nat := rank st.stage * bound env + work st

/-- stages at which the captures have been generated -/
def afterCaps : Stage → Bool
  | .bestMove | .genCaptures => false
  | _ => true

/-- stages at which the quiets have been generated -/
def afterQuiets : Stage → Bool
  | .killer1 | .killer2 | .counterMove | .scoreQuiets | .quiets => true
  | _ => false

structure Inv (env : Env) (st : State) : Prop where
  inj : Inj st.moves
  ssize : st.scores.size = st.moves.size
  hashOk : ∀ h, st.hash = some h → (h ∈ env.captures ∨ h ∈ qs env st)
  loudHash : st.onlyCaptures = true → st.hash = none
  loudStage : st.onlyCaptures = true → afterQuiets st.stage = false ∧ st.stage ≠ .genQuiets
  pre : afterCaps st.stage = false → st.moves = #[] ∧ st.scores = #[] ∧ st.idx = 0 ∧ st.firstBadCapture = none
  caps : afterCaps st.stage = true → st.capturesEnd = env.captures.length ∧ st.capturesEnd ≤ st.moves.size ∧
      ∀ x, seg st.moves 0 st.capturesEnd x ↔ x ∈ env.captures
  noQuietsYet : afterCaps st.stage = true → afterQuiets st.stage = false → st.stage ≠ .badCaptures →
      st.stage ≠ .done → st.moves.size = st.capturesEnd ∧ st.firstQuiet = st.capturesEnd
  loudBad : st.stage = .badCaptures → st.onlyCaptures = true → st.moves.size = st.capturesEnd
  good : st.stage = .goodCaptures → st.firstBadCapture = none ∧ st.idx ≤ st.capturesEnd
  fbOk : ∀ fb, st.firstBadCapture = some fb → fb < st.capturesEnd
  quiets : (afterQuiets st.stage = true ∨ (st.stage = .badCaptures ∧ st.onlyCaptures = false)) →
      st.capturesEnd ≤ st.firstQuiet ∧ st.firstQuiet ≤ st.moves.size ∧
      st.moves.size = env.captures.length + env.quiets.length ∧
      ∀ x, seg st.moves st.capturesEnd st.moves.size x ↔ x ∈ env.quiets
  badIdx : st.stage = .badCaptures → st.idx ≤ st.capturesEnd
  quietIdx : st.stage = .quiets → st.firstQuiet ≤ st.idx ∧ st.idx ≤ st.moves.size

/-- a step that yields nothing -/
structure Silent (env : Env) (st st' : State) : Prop where
  inv : Inv env st'
  same : ∀ x, InP env st' x ↔ InP env st x
  mu_le : mu env st' ≤ mu env st

/-- a step that yields `m` -/
structure Emit (env : Env) (st : State) (m : Move) (st' : State) : Prop where
  inv : Inv env st'
  mem : InP env st m
  rest : ∀ x, InP env st' x ↔ (InP env st x ∧ x ≠ m)
  mu_lt : mu env st' < mu env st

theorem Silent.refl (env : Env) (st : State) (h : Inv env st) : Silent env st st :=
  ⟨h, fun _ => Iff.rfl, Nat.le_refl _⟩

theorem Silent.trans {env : Env} {a b c : State} (h1 : Silent env a b) (h2 : Silent env b c) : Silent env a c :=
  ⟨h2.inv, fun x => (h2.same x).trans (h1.same x), Nat.le_trans h2.mu_le h1.mu_le⟩

theorem Silent.emit {env : Env} {a b c : State} {m : Move} (h1 : Silent env a b) (h2 : Emit env b m c) :
    Emit env a m c :=
  ⟨h2.inv, (h1.same m).1 h2.mem, fun x => by rw [h2.rest x, h1.same x], Nat.lt_of_lt_of_le h2.mu_lt h1.mu_le⟩

/-! ### list ↔ array facts -/

theorem seg_toArray (l : List Move) (x : Move) : seg l.toArray 0 l.length x ↔ x ∈ l := by
  constructor
  · rintro ⟨k, _, k2, e⟩
    rw [List.getElem?_toArray] at e
    exact List.mem_of_getElem? e
  · intro h
    obtain ⟨k, hk, e⟩ := List.getElem_of_mem h
    exact ⟨k, Nat.zero_le _, hk, by rw [List.getElem?_toArray, List.getElem?_eq_getElem hk, e]⟩

theorem inj_toArray (l : List Move) (h : l.Nodup) : Inj l.toArray := by
  intro i j hi hj e
  simp only [List.size_toArray] at hi hj
  rw [List.getElem?_toArray, List.getElem?_toArray, List.getElem?_eq_getElem hi, List.getElem?_eq_getElem hj] at e
  exact (List.getElem_inj h).mp (Option.some.inj e)

theorem work_lt_bound (env : Env) (st : State) (h : st.moves.size ≤ env.captures.length + env.quiets.length)
    (hc : st.capturesEnd ≤ st.moves.size) : work st < bound env := by
  unfold work bound
  split <;> omega

end Picker
end Tcheran

namespace Tcheran
namespace Picker

/-! ### consequences of `NBSpec` for the "still to yield" set -/

theorem nb_some {limit : Nat} {st st' : State} {m : Move} {s : Int}
    (h : NBSpec limit st (some (m, s)) st') (hl : limit ≤ st.moves.size) :
    some m ≠ st.hash ∧ ¬ seg st'.moves st'.idx limit m ∧ seg st.moves st.idx limit m ∧
    ∀ x, some x ≠ st.hash → (seg st.moves st.idx limit x ↔ (x = m ∨ seg st'.moves st'.idx limit x)) := by
  obtain ⟨r1, r2, r3, r4⟩ := h.result
  have hidx := h.idx_le
  have hm : seg st'.moves st.idx limit m := ⟨st'.idx - 1, by omega, by omega, r2⟩
  refine ⟨r3, ?_, (h.segs m).1 hm, ?_⟩
  · rintro ⟨k, k1, k2, e⟩
    have := h.inj k (st'.idx - 1) (by rw [h.size]; omega) (by rw [h.size]; omega) (by rw [e, r2])
    omega
  · intro x hx
    rw [← h.segs x]
    constructor
    · rintro ⟨k, k1, k2, e⟩
      by_cases c1 : k < st'.idx - 1
      · exact absurd ((r4 k k1 c1).symm.trans e).symm hx
      · by_cases c2 : k = st'.idx - 1
        · left; rw [c2, r2] at e; exact (Option.some.inj e).symm
        · right; exact ⟨k, by omega, k2, e⟩
    · rintro (e | ⟨k, k1, k2, e⟩)
      · rw [e]; exact hm
      · exact ⟨k, by omega, k2, e⟩

theorem nb_none {limit : Nat} {st st' : State} (h : NBSpec limit st none st') :
    ∀ x, some x ≠ st.hash → ¬ seg st.moves st.idx limit x := by
  intro x hx hs
  obtain ⟨r1, r2⟩ := h.result
  obtain ⟨k, k1, k2, e⟩ := (h.segs x).2 hs
  exact hx ((r2 k k1 k2).symm.trans e).symm

end Picker
end Tcheran

namespace Tcheran
namespace Picker

theorem nb_seg_wide {limit : Nat} {st st' : State} {r} (h : NBSpec limit st r st') (lo hi : Nat)
    (h1 : lo ≤ st.idx) (h2 : limit ≤ hi) (h3 : st.idx ≤ limit) (x : Move) :
    seg st'.moves lo hi x ↔ seg st.moves lo hi x := by
  constructor
  · rintro ⟨k, k1, k2, e⟩
    by_cases c : k < st.idx ∨ limit ≤ k
    · exact ⟨k, k1, k2, by rw [← h.outside k c]; exact e⟩
    · obtain ⟨j, j1, j2, e'⟩ := (h.segs x).1 ⟨k, by omega, by omega, e⟩
      exact ⟨j, by omega, by omega, e'⟩
  · rintro ⟨k, k1, k2, e⟩
    by_cases c : k < st.idx ∨ limit ≤ k
    · exact ⟨k, k1, k2, by rw [h.outside k c]; exact e⟩
    · obtain ⟨j, j1, j2, e'⟩ := (h.segs x).2 ⟨k, by omega, by omega, e⟩
      exact ⟨j, by omega, by omega, e'⟩

theorem nb_seg_out {limit : Nat} {st st' : State} {r} (h : NBSpec limit st r st') (lo hi : Nat)
    (h1 : hi ≤ st.idx ∨ limit ≤ lo) (x : Move) :
    seg st'.moves lo hi x ↔ seg st.moves lo hi x :=
  seg_congr _ _ _ _ _ (fun k k1 k2 => h.outside k (by omega))

/-- the invariant survives a `next_best_move` call in the three stages that make one -/
theorem inv_nb {env : Env} {limit : Nat} {st st' : State} {r} (hi : Inv env st) (h : NBSpec limit st r st')
    (hlim : (limit = st.capturesEnd ∧ (st.stage = .goodCaptures ∨ st.stage = .badCaptures)) ∨
            (limit = st.moves.size ∧ st.stage = .quiets))
    (hle : st.idx ≤ limit) : Inv env st' := by
  have hst := h.stage
  have hqs : qs env st' = qs env st := by unfold qs; rw [h.loud]
  have hac : afterCaps st.stage = true := by
    rcases hlim with ⟨_, c | c⟩ | ⟨_, c⟩ <;> rw [c] <;> rfl
  obtain ⟨c1, c2, c3⟩ := hi.caps hac
  exact
  { inj := h.inj
    ssize := by rw [h.ssize, h.size]; exact hi.ssize
    hashOk := fun hm e => by rw [hqs]; exact hi.hashOk hm (h.hash ▸ e)
    loudHash := fun e => by rw [h.hash]; exact hi.loudHash (h.loud ▸ e)
    loudStage := fun e => by rw [hst]; exact hi.loudStage (h.loud ▸ e)
    pre := fun c => by rw [hst, hac] at c; cases c
    caps := fun _ => by
      rw [h.cend, h.size]
      refine ⟨c1, c2, fun x => ?_⟩
      rw [← c3 x]
      rcases hlim with ⟨l, _⟩ | ⟨l, c⟩
      · exact nb_seg_wide h 0 _ (Nat.zero_le _) (by omega) hle x
      · have := (hi.quiets (Or.inl (by rw [c]; rfl))).1
        have := (hi.quietIdx c).1
        exact nb_seg_out h 0 _ (Or.inl (by omega)) x
    noQuietsYet := fun a b c d => by
      rw [hst] at a b c d; rw [h.size, h.cend, h.fquiet]; exact hi.noQuietsYet a b c d
    loudBad := fun a b => by
      rw [hst] at a; rw [h.loud] at b; rw [h.size, h.cend]; exact hi.loudBad a b
    good := fun a => by
      rw [hst] at a; rw [h.fbad, h.cend]
      refine ⟨(hi.good a).1, ?_⟩
      rcases hlim with ⟨l, _⟩ | ⟨_, c⟩
      · rw [← l]; exact h.idx_le
      · rw [c] at a; cases a
    fbOk := fun fb e => by rw [h.cend]; exact hi.fbOk fb (h.fbad ▸ e)
    quiets := fun a => by
      rw [hst, h.loud] at a
      obtain ⟨q1, q2, q3, q4⟩ := hi.quiets a
      rw [h.cend, h.fquiet, h.size]
      refine ⟨q1, q2, q3, fun x => ?_⟩
      rw [← q4 x]
      rcases hlim with ⟨l, _⟩ | ⟨l, c⟩
      · exact nb_seg_out h _ _ (Or.inr (by omega)) x
      · have := (hi.quietIdx c).1
        exact nb_seg_wide h _ _ (by omega) (by omega) hle x
    badIdx := fun a => by
      rw [hst] at a; rw [h.cend]
      rcases hlim with ⟨l, _⟩ | ⟨_, c⟩
      · rw [← l]; exact h.idx_le
      · rw [c] at a; cases a
    quietIdx := fun a => by
      rw [hst] at a; rw [h.fquiet, h.size]
      have := (hi.quietIdx a).1
      rcases hlim with ⟨_, c | c⟩ | ⟨l, _⟩
      · rw [c] at a; cases a
      · rw [c] at a; cases a
      · exact ⟨Nat.le_trans this h.idx_ge, by rw [← l]; exact h.idx_le⟩ }

end Picker
end Tcheran

namespace Tcheran
namespace Picker

theorem seg_append (a : Array Move) (lo mid hi : Nat) (x : Move) (h1 : lo ≤ mid) (h2 : mid ≤ hi) :
    seg a lo hi x ↔ (seg a lo mid x ∨ seg a mid hi x) := by
  constructor
  · rintro ⟨k, k1, k2, e⟩
    by_cases c : k < mid
    · exact Or.inl ⟨k, k1, c, e⟩
    · exact Or.inr ⟨k, by omega, k2, e⟩
  · rintro (⟨k, k1, k2, e⟩ | ⟨k, k1, k2, e⟩)
    · exact ⟨k, k1, by omega, e⟩
    · exact ⟨k, by omega, k2, e⟩

/-- changing only the stage / cursor / first-bad-capture bookkeeping -/
theorem inv_restage {env : Env} {s1 s2 : State} (h : Inv env s1)
    (hm : s2.moves = s1.moves) (hsc : s2.scores.size = s1.scores.size) (hh : s2.hash = s1.hash)
    (hl : s2.onlyCaptures = s1.onlyCaptures) (hc : s2.capturesEnd = s1.capturesEnd)
    (hq : s2.firstQuiet = s1.firstQuiet)
    (ac1 : afterCaps s1.stage = true) (ac2 : afterCaps s2.stage = true)
    (loudStage : s2.onlyCaptures = true → afterQuiets s2.stage = false ∧ s2.stage ≠ .genQuiets)
    (noQ : afterQuiets s2.stage = false → s2.stage ≠ .badCaptures → s2.stage ≠ .done →
      s2.moves.size = s2.capturesEnd ∧ s2.firstQuiet = s2.capturesEnd)
    (loudBad : s2.stage = .badCaptures → s2.onlyCaptures = true → s2.moves.size = s2.capturesEnd)
    (good : s2.stage = .goodCaptures → s2.firstBadCapture = none ∧ s2.idx ≤ s2.capturesEnd)
    (fbOk : ∀ fb, s2.firstBadCapture = some fb → fb < s2.capturesEnd)
    (qimp : (afterQuiets s2.stage = true ∨ (s2.stage = .badCaptures ∧ s2.onlyCaptures = false)) →
            (afterQuiets s1.stage = true ∨ (s1.stage = .badCaptures ∧ s1.onlyCaptures = false)))
    (badIdx : s2.stage = .badCaptures → s2.idx ≤ s2.capturesEnd)
    (quietIdx : s2.stage = .quiets → s2.firstQuiet ≤ s2.idx ∧ s2.idx ≤ s2.moves.size) : Inv env s2 :=
  { inj := by rw [hm]; exact h.inj
    ssize := by rw [hsc, hm]; exact h.ssize
    hashOk := fun x e => by
      have := h.hashOk x (hh ▸ e)
      unfold qs at *; rw [hl]; exact this
    loudHash := fun e => by rw [hh]; exact h.loudHash (hl ▸ e)
    loudStage := loudStage
    pre := fun c => by rw [ac2] at c; cases c
    caps := fun _ => by rw [hc, hm]; exact h.caps ac1
    noQuietsYet := fun _ b c d => noQ b c d
    loudBad := loudBad
    good := good
    fbOk := fbOk
    quiets := fun a => by rw [hc, hq, hm]; exact h.quiets (qimp a)
    badIdx := badIdx
    quietIdx := quietIdx }

/-- the invariant survives a killer / counter scan -/
theorem inv_prom {env : Env} {t : Move} {st st' : State} {r} (hi : Inv env st) (h : PromSpec t st r st')
    (hq : afterQuiets st.stage = true ∨ (st.stage = .badCaptures ∧ st.onlyCaptures = false))
    (hnq : st.stage ≠ .quiets) : Inv env st' := by
  obtain ⟨q1, q2, q3, q4⟩ := hi.quiets hq
  have hac : afterCaps st.stage = true := by
    rcases hq with c | ⟨c, _⟩
    · revert c; cases st.stage <;> simp [afterQuiets, afterCaps]
    · rw [c]; rfl
  obtain ⟨c1, c2, c3⟩ := hi.caps hac
  have hfq : st.firstQuiet ≤ st'.firstQuiet ∧ st'.firstQuiet ≤ st.moves.size := by
    have hr := h.res
    cases r with
    | some m =>
      obtain ⟨_, _, e, g⟩ := hr
      have : st.firstQuiet < st'.moves.size := by
        apply Decidable.byContradiction; intro c
        rw [Array.getElem?_eq_none (by omega)] at g; cases g
      rw [h.size] at this; omega
    | none =>
      rcases hr with e | ⟨_, e, g⟩
      · omega
      · have : st.firstQuiet < st'.moves.size := by
          apply Decidable.byContradiction; intro c
          rw [Array.getElem?_eq_none (by omega)] at g; cases g
        rw [h.size] at this; omega
  have hst := h.stage
  exact
  { inj := h.inj
    ssize := by rw [h.scores, h.size]; exact hi.ssize
    hashOk := fun x e => by
      have := hi.hashOk x (h.hash ▸ e)
      unfold qs at *; rw [h.loud]; exact this
    loudHash := fun e => by rw [h.hash]; exact hi.loudHash (h.loud ▸ e)
    loudStage := fun e => by rw [hst]; exact hi.loudStage (h.loud ▸ e)
    pre := fun c => by rw [hst, hac] at c; cases c
    caps := fun _ => by
      rw [h.cend, h.size]
      refine ⟨c1, c2, fun x => ?_⟩
      rw [← c3 x]
      exact seg_congr _ _ _ _ _ (fun k _ k2 => h.below k (by omega))
    noQuietsYet := fun _ b c _ => by
      rw [hst] at b c
      rcases hq with d | ⟨d, _⟩
      · rw [d] at b; cases b
      · exact absurd d c
    loudBad := fun a b => by
      rw [hst] at a; rw [h.loud] at b
      rcases hq with d | ⟨_, d⟩
      · rw [a] at d; cases d
      · rw [d] at b; cases b
    good := fun a => by
      rw [hst] at a
      rcases hq with d | ⟨d, _⟩
      · rw [a] at d; cases d
      · rw [a] at d; cases d
    fbOk := fun fb e => by rw [h.cend]; exact hi.fbOk fb (h.fbad ▸ e)
    quiets := fun _ => by
      rw [h.cend, h.size]
      refine ⟨by omega, hfq.2, q3, fun x => ?_⟩
      rw [← q4 x, seg_append _ _ st.firstQuiet _ x q1 q2, seg_append st.moves _ st.firstQuiet _ x q1 q2, h.segs x]
      have : seg st'.moves st.capturesEnd st.firstQuiet x ↔ seg st.moves st.capturesEnd st.firstQuiet x :=
        seg_congr _ _ _ _ _ (fun k _ k2 => h.below k k2)
      rw [this]
    badIdx := fun a => by rw [hst] at a; rw [h.idx, h.cend]; exact hi.badIdx a
    quietIdx := fun a => by rw [hst] at a; exact absurd a hnq }

/-- effect of a scan on the quiet segment -/
theorem prom_some {t m : Move} {st st' : State} (h : PromSpec t st (some m) st') :
    m = t ∧ notHash st t ∧ st'.firstQuiet = st.firstQuiet + 1 ∧ st'.moves[st.firstQuiet]? = some t ∧
    ¬ seg st'.moves st'.firstQuiet st.moves.size t ∧
    ∀ x, seg st.moves st.firstQuiet st.moves.size x ↔ (x = t ∨ seg st'.moves st'.firstQuiet st.moves.size x) := by
  obtain ⟨r1, r2, r3, r4⟩ := h.res
  have hlt : st.firstQuiet < st.moves.size := by
    rw [← h.size]
    apply Decidable.byContradiction; intro c
    rw [Array.getElem?_eq_none (by omega)] at r4; cases r4
  refine ⟨r1, r2, r3, r4, ?_, fun x => ?_⟩
  · rintro ⟨k, k1, k2, e⟩
    have := h.inj k st.firstQuiet (by rw [h.size]; exact k2) (by rw [h.size]; exact hlt) (by rw [e, r4])
    omega
  · rw [← h.segs x, seg_split _ _ _ x hlt, r3, r4]
    constructor
    · rintro (e | e)
      · exact Or.inl (Option.some.inj e).symm
      · exact Or.inr e
    · rintro (e | e)
      · exact Or.inl (by rw [e])
      · exact Or.inr e

theorem prom_none {t : Move} {st st' : State} (h : PromSpec t st none st') :
    ∀ x, notHash st x →
      (seg st.moves st.firstQuiet st.moves.size x ↔ seg st'.moves st'.firstQuiet st.moves.size x) := by
  intro x hx
  rcases h.res with e | ⟨e1, e2, e3⟩
  · rw [e, h.segs x]
  · have hlt : st.firstQuiet < st.moves.size := by
      rw [← h.size]
      apply Decidable.byContradiction; intro c
      rw [Array.getElem?_eq_none (by omega)] at e3; cases e3
    rw [← h.segs x, seg_split _ _ _ x hlt, e2, e3]
    constructor
    · rintro (e | e)
      · exact absurd (e.symm.trans e1) hx
      · exact e
    · exact Or.inr

end Picker
end Tcheran
