import TcheranVerif.Proofs.MakeMove
/-!
# Take-backs restore the earlier position exactly (C02)

`undo_null`: `undo_null_move ∘ make_null_move = id` on every field.
`undo_make`: `undo_move ∘ make_move = id` on every field (board views, side, rights, e.p. target,
clocks, key, accumulators, history stack), for every move that satisfies `MoveOk` — the shape facts
every legal move has (a promotion is made by a pawn, an e.p. capture removes an enemy pawn from
behind an empty target, castling moves the rook from its corner to an empty square).
-/

namespace Tcheran
open Board Game

theorem other_other (p : Player) : p.other.other = p := by cases p <;> rfl

/-- **undo_null** -/
theorem undo_null (c : Cfg) (g : Game) : undoNull (makeNull c g) = some g := by
  unfold undoNull makeNull
  simp only [bind, Option.bind, Option.isSome_none, Bool.false_eq_true, if_false]
  have hp : g.plies + 1 ≠ 0 := by omega
  simp only [hp, if_false, other_other, Nat.add_sub_cancel]

/-- shape facts of a legal move that `undo_move` relies on -/
structure MoveOk (g : Game) (mv : Move) : Prop where
  promo : mv.promotion.isSome → g.board.pieceAt mv.src = some ⟨.pawn, g.player⟩
  ep : mv.isEnPassant = true → g.board.pieceAt mv.dst = none ∧
        ∃ cs, mv.dst.backward g.player = some cs ∧ g.board.pieceAt cs = some ⟨.pawn, g.player.other⟩ ∧
              cs ≠ mv.src ∧ cs ≠ mv.dst
  castle : mv.isCastling = true → g.board.pieceAt mv.dst = none ∧
        ∃ rf rt, castleSquares g.player mv.dst = some (rf, rt) ∧ g.board.pieceAt rf = some ⟨.rook, g.player⟩ ∧
              g.board.pieceAt rt = none ∧ rf ≠ rt ∧ rf ≠ mv.src ∧ rf ≠ mv.dst ∧ rt ≠ mv.src ∧ rt ≠ mv.dst

theorem flag_facts (mv : Move) :
    (mv.isCastling = true → mv.isEnPassant = false ∧ mv.promotion = none) ∧
    (mv.isEnPassant = true → mv.isCastling = false ∧ mv.promotion = none) ∧
    (mv.promotion.isSome → mv.isCastling = false ∧ mv.isEnPassant = false) := by
  cases mv with
  | mk s d f => cases f <;> simp [Move.isCastling, Move.isEnPassant, Move.promotion]

def SameCore (a b : Game) : Prop :=
  a.board = b.board ∧ a.player = b.player ∧ a.history = b.history ∧ a.plies = b.plies ∧ a.ep = b.ep ∧
  a.halfmove = b.halfmove

theorem sameCore_refl (a : Game) : SameCore a a := ⟨rfl, rfl, rfl, rfl, rfl, rfl⟩

theorem sameCore_try (c : Cfg) (a b : Game) (p : Player) (side : Side) (h : SameCore a b) :
    SameCore (tryRemoveRights c a p side) b := by
  obtain ⟨h1, h2, h3, h4, h5, h6⟩ := tryRemoveRights_fields c a p side
  exact ⟨h1.trans h.1, h2.trans h.2.1, h4.trans h.2.2.1, h6.trans h.2.2.2.1, h3.trans h.2.2.2.2.1, h5.trans h.2.2.2.2.2⟩

theorem sameCore_mmRights (c : Cfg) (g : Game) (mv : Move) (moved : Piece) (cap : Option Piece) :
    SameCore (mmRights c g mv moved cap) g := by
  unfold mmRights
  simp only
  have step1 : SameCore (if moved.kind = .king ∧ mv.src = kingStart g.player then
        tryRemoveRights c (tryRemoveRights c g g.player .king) g.player .queen
      else if moved.kind = .rook then
        if mv.src = kingsideRookStart g.player then tryRemoveRights c g g.player .king
        else if mv.src = queensideRookStart g.player then tryRemoveRights c g g.player .queen
        else g
      else g) g := by
    split
    · exact sameCore_try c _ _ _ _ (sameCore_try c _ _ _ _ (sameCore_refl g))
    · split
      · split
        · exact sameCore_try c _ _ _ _ (sameCore_refl g)
        · split
          · exact sameCore_try c _ _ _ _ (sameCore_refl g)
          · exact sameCore_refl g
      · exact sameCore_refl g
  split
  · split
    · exact sameCore_try c _ _ _ _ step1
    · split
      · exact sameCore_try c _ _ _ _ step1
      · exact step1
  · exact step1

/-- the mailbox after the whole of `make_move` -/
theorem makeMove_mailbox (c : Cfg) (g g' : Game) (mv : Move) (hr : makeMove c g mv = some g') :
    ∃ moved cap, g.board.pieceAt mv.src = some moved ∧ cap = g.board.pieceAt mv.dst ∧ mv.src ≠ mv.dst ∧
      g'.player = g.player.other ∧ g'.plies = g.plies + 1 ∧
      g'.history = { mv := some mv, captured := cap, rights := g.rights, ep := g.ep, halfmove := g.halfmove,
                     zobrist := g.zobrist, inc := g.inc } :: g.history ∧
      (mv.isCastling = false → ∀ t, g'.board.pieceAt t =
        if mv.isEnPassant = true ∧ mv.dst.backward g.player = some t then none
        else if t = mv.dst then some (placedPiece mv g.player moved)
        else if t = mv.src then none
        else g.board.pieceAt t) ∧
      (mv.isCastling = true → ∀ rf rt, castleSquares g.player mv.dst = some (rf, rt) →
        ∃ rook, (if rf = mv.dst then some moved else if rf = mv.src then none else g.board.pieceAt rf) = some rook ∧
        ∀ t, g'.board.pieceAt t =
          if t = rt then some rook else if t = rf then none
          else if t = mv.dst then some moved else if t = mv.src then none else g.board.pieceAt t) := by
  unfold makeMove at hr
  simp only [bind, Option.bind_eq_some_iff] at hr
  obtain ⟨⟨g1, moved, cap⟩, h1, newEp, h2, g3, h3, h4⟩ := hr
  simp only [Option.some.injEq] at h4
  subst h4
  have sp := mmPieces_spec c g mv g1 moved cap h1
  have hb4 : ∀ x : Game, (mmFinish c (mmRights c x mv moved cap) moved cap).board = x.board :=
    fun x => (sameCore_mmRights c x mv moved cap).1
  have hp4 : ∀ x : Game, (mmFinish c (mmRights c x mv moved cap) moved cap).player = x.player.other :=
    fun x => congrArg Player.other (sameCore_mmRights c x mv moved cap).2.1
  have hh4 : ∀ x : Game, (mmFinish c (mmRights c x mv moved cap) moved cap).history = x.history :=
    fun x => (sameCore_mmRights c x mv moved cap).2.2.1
  have hl4 : ∀ x : Game, (mmFinish c (mmRights c x mv moved cap) moved cap).plies = x.plies + 1 :=
    fun x => congrArg (· + 1) (sameCore_mmRights c x mv moved cap).2.2.2.1
  refine ⟨moved, cap, sp.moved_eq, sp.cap_eq, sp.src_ne_dst, ?_, ?_, ?_, ?_, ?_⟩
  · -- player
    rw [hp4]
    unfold mmCastle at h3
    split at h3
    · split at h3
      · simp only [bind, Option.bind_eq_some_iff] at h3
        obtain ⟨⟨gx, rook⟩, hx1, hx2⟩ := h3
        simp only [Option.some.injEq] at hx2; subst hx2
        have := (removeAt_fields c _ gx _ rook hx1).1
        show gx.player.other = _
        rw [this]; exact congrArg Player.other sp.player
      · cases h3; exact congrArg Player.other sp.player
    · cases h3; exact congrArg Player.other sp.player
  · -- plies
    rw [hl4]
    unfold mmCastle at h3
    split at h3
    · split at h3
      · simp only [bind, Option.bind_eq_some_iff] at h3
        obtain ⟨⟨gx, rook⟩, hx1, hx2⟩ := h3
        simp only [Option.some.injEq] at hx2; subst hx2
        have := (removeAt_fields c _ gx _ rook hx1).2.2.2.2.1
        show gx.plies + 1 = _
        rw [this]; exact congrArg (· + 1) sp.plies
      · cases h3; exact congrArg (· + 1) sp.plies
    · cases h3; exact congrArg (· + 1) sp.plies
  · -- history
    rw [hh4]
    unfold mmCastle at h3
    split at h3
    · split at h3
      · simp only [bind, Option.bind_eq_some_iff] at h3
        obtain ⟨⟨gx, rook⟩, hx1, hx2⟩ := h3
        simp only [Option.some.injEq] at hx2; subst hx2
        have := (removeAt_fields c _ gx _ rook hx1).2.2.2.2.2.1
        show gx.history = _
        rw [this]; exact sp.history
      · cases h3; exact sp.history
    · cases h3; exact sp.history
  · -- not castling
    intro hc t
    rw [hb4]
    unfold mmCastle at h3
    rw [if_neg (by simp [hc])] at h3
    cases h3
    exact sp.mailbox t
  · -- castling
    intro hc rf rt hcs
    rw [hb4]
    unfold mmCastle at h3
    rw [if_pos hc] at h3
    have hpl : (mmSetEp c g1 newEp).player = g.player := sp.player
    rw [hpl, hcs] at h3
    simp only [bind, Option.bind_eq_some_iff] at h3
    obtain ⟨⟨gx, rook⟩, hx1, hx2⟩ := h3
    simp only [Option.some.injEq] at hx2; subst hx2
    obtain ⟨_, _, _, _, _, _, hbx, hrook⟩ := removeAt_fields c _ gx rf rook hx1
    have hnep : mv.isEnPassant = false := ((flag_facts mv).1 hc).1
    have hnpr : mv.promotion = none := ((flag_facts mv).1 hc).2
    have hplaced : placedPiece mv g.player moved = moved := by unfold placedPiece; rw [hnpr]
    have hmb : ∀ t, g1.board.pieceAt t = if t = mv.dst then some moved else if t = mv.src then none else g.board.pieceAt t := by
      intro t
      rw [sp.mailbox t, hplaced]
      simp [hnep]
    refine ⟨rook, ?_, ?_⟩
    · have : (mmSetEp c g1 newEp).board.pieceAt rf = some rook := hrook
      rw [← this]
      exact (hmb rf).symm
    · intro t
      show (Game.setAt c gx rt rook).board.pieceAt t = _
      rw [(setAt_fields c gx rt rook).2.2.2.2.2.2, pieceAt_setAt, hbx, pieceAt_removeAt]
      show (if t = rt then some rook else if t = rf then none else g1.board.pieceAt t) = _
      rw [hmb t]

/-- consistency of the views is preserved by the whole of `make_move` -/
theorem makeMove_consistent (c : Cfg) (g g' : Game) (mv : Move) (hc : g.board.Consistent)
    (hr : makeMove c g mv = some g')
    (hcastle : mv.isCastling = true → ∀ rf rt, castleSquares g.player mv.dst = some (rf, rt) →
        rt ≠ rf ∧ rt ≠ mv.dst ∧ rt ≠ mv.src ∧ g.board.pieceAt rt = none) : g'.board.Consistent := by
  unfold makeMove at hr
  simp only [bind, Option.bind_eq_some_iff] at hr
  obtain ⟨⟨g1, moved, cap⟩, h1, newEp, h2, g3, h3, h4⟩ := hr
  simp only [Option.some.injEq] at h4
  subst h4
  have sp := mmPieces_spec c g mv g1 moved cap h1
  have c1 := sp.cons hc
  show (mmFinish c (mmRights c g3 mv moved cap) moved cap).board.Consistent
  have : (mmFinish c (mmRights c g3 mv moved cap) moved cap).board = g3.board :=
    (sameCore_mmRights c g3 mv moved cap).1
  rw [this]
  unfold mmCastle at h3
  split at h3
  · rename_i hcas
    have hpl : (mmSetEp c g1 newEp).player = g.player := sp.player
    split at h3
    · rename_i rf rt hcs
      rw [hpl] at hcs
      simp only [bind, Option.bind_eq_some_iff] at h3
      obtain ⟨⟨gx, rook⟩, hx1, hx2⟩ := h3
      simp only [Option.some.injEq] at hx2; subst hx2
      obtain ⟨_, _, _, _, _, _, hbx, _⟩ := removeAt_fields c _ gx rf rook hx1
      obtain ⟨a, b, d, e⟩ := hcastle hcas rf rt hcs
      show (gx.board.setAt rt rook).Consistent
      apply consistent_setAt
      · rw [hbx]; exact consistent_removeAt _ _ c1
      · rw [hbx, pieceAt_removeAt]
        have hnep : mv.isEnPassant = false := ((flag_facts mv).1 hcas).1
        have : g1.board.pieceAt rt = none := by
          rw [sp.mailbox rt]; simp [hnep, b, d, e]
        show (if rt = rf then none else g1.board.pieceAt rt) = none
        rw [this]; simp
    · cases h3; exact c1
  · cases h3; exact c1

theorem undo_assemble (g g' : Game) (pl : Player) (b5 : Board)
    (hp : pl = g.player) (hpl : g'.plies = g.plies + 1) (hb : b5 = g.board) :
    ({ g' with history := g.history, plies := g'.plies - 1, player := pl, zobrist := g.zobrist,
               halfmove := g.halfmove, rights := g.rights, ep := g.ep, inc := g.inc, board := b5 } : Game) = g := by
  cases g
  simp only at hp hpl hb ⊢
  subst hb hp
  simp [hpl]

/-- **undo_make**: taking a move back restores every field of the earlier position -/
theorem undo_make (c : Cfg) (g g' : Game) (mv : Move) (hc : g.board.Consistent) (hok : MoveOk g mv)
    (hr : makeMove c g mv = some g') : undoMove g' = some g := by
  obtain ⟨moved, cap, hsrc, hcap, hne, hp, hpl, hh, hncas, hcas⟩ := makeMove_mailbox c g g' mv hr
  have hcons' : g'.board.Consistent := by
    apply makeMove_consistent c g g' mv hc hr
    intro hcc rf rt hcs
    obtain ⟨_, rf', rt', hcs', _, hrt, h1, h2, h3, h4, h5⟩ := hok.castle hcc
    rw [hcs] at hcs'
    simp only [Option.some.injEq, Prod.mk.injEq] at hcs'
    obtain ⟨e1, e2⟩ := hcs'
    subst e1 e2
    exact ⟨Ne.symm h1, h5, h4, hrt⟩
  have hplayer : g'.player.other = g.player := by rw [hp, other_other]
  have hplies : ¬ g'.plies = 0 := by omega
  by_cases hcc : mv.isCastling = true
  · -- castling
    obtain ⟨hdst0, rf, rt, hcs, hrook, hrt0, n1, n2, n3, n4, n5⟩ := hok.castle hcc
    obtain ⟨rook, hrk, hM⟩ := hcas hcc rf rt hcs
    have hrook' : rook = ⟨.rook, g.player⟩ := by
      simp only [n3, n2, if_false, hrook, Option.some.injEq] at hrk
      exact hrk.symm
    subst hrook'
    have hnep : mv.isEnPassant = false := ((flag_facts mv).1 hcc).1
    have hnpr : mv.promotion = none := ((flag_facts mv).1 hcc).2
    have hcapn : cap = none := by rw [hcap, hdst0]
    -- board after undoing the rook
    let b1 := (g'.board.removeAt rt).setAt rf ⟨.rook, g.player⟩
    have hb1cons : b1.Consistent := by
      apply consistent_setAt _ _ _ (consistent_removeAt _ _ hcons')
      rw [pieceAt_removeAt, hM rf]
      simp [n1]
    have hb1 : ∀ t, b1.pieceAt t = if t = rf then some ⟨.rook, g.player⟩ else if t = rt then none
        else if t = mv.dst then some moved else if t = mv.src then none else g.board.pieceAt t := by
      intro t
      show ((g'.board.removeAt rt).setAt rf _).pieceAt t = _
      rw [pieceAt_setAt, pieceAt_removeAt, hM t]
      by_cases h1 : t = rf
      · simp [h1]
      · by_cases h2 : t = rt <;> simp [h1, h2]
    have hmoved' : b1.pieceAt mv.dst = some moved := by
      rw [hb1]; simp [Ne.symm n3, Ne.symm n5]
    let b5 := (b1.removeAt mv.dst).setAt mv.src moved
    have hb5 : b5 = g.board := by
      apply consistent_ext
      · apply consistent_setAt _ _ _ (consistent_removeAt _ _ hb1cons)
        rw [pieceAt_removeAt, hb1]
        simp [hne, Ne.symm n2, Ne.symm n4]
      · exact hc
      · apply squares_ext
        intro t
        have : b5.pieceAt t = g.board.pieceAt t := by
          show ((b1.removeAt mv.dst).setAt mv.src moved).pieceAt t = _
          rw [pieceAt_setAt, pieceAt_removeAt, hb1]
          by_cases h1 : t = mv.src
          · subst h1; simp [hsrc]
          · by_cases h2 : t = mv.dst
            · subst h2; simp [h1, hdst0]
            · by_cases h3 : t = rf
              · subst h3; simp [h1, h2, hrook]
              · by_cases h4 : t = rt
                · subst h4; simp [h1, h2, h3, hrt0]
                · simp [h1, h2, h3, h4]
        exact this
    unfold undoMove
    rw [hh]
    simp only [bind, Option.bind, hplies, if_false, hcc, if_true, hplayer, hcs, hnep, Bool.false_eq_true,
      hnpr, Option.isSome_none, hcapn]
    have hmoved'' : ((g'.board.removeAt rt).setAt rf ⟨.rook, g.player⟩).pieceAt mv.dst = some moved := hmoved'
    rw [hmoved'']
    simp only [Option.some.injEq]
    exact undo_assemble g g' g.player b5 rfl hpl hb5
  · have hccf : mv.isCastling = false := by simpa using hcc
    have hM := hncas hccf
    by_cases hep : mv.isEnPassant = true
    · -- en passant
      obtain ⟨hdst0, cs, hcs, hvictim, m1, m2⟩ := hok.ep hep
      have hnpr : mv.promotion = none := ((flag_facts mv).2.1 hep).2
      have hcapn : cap = none := by rw [hcap, hdst0]
      have hplaced : placedPiece mv g.player moved = moved := by unfold placedPiece; rw [hnpr]
      have hM' : ∀ t, g'.board.pieceAt t = if t = cs then none else if t = mv.dst then some moved
          else if t = mv.src then none else g.board.pieceAt t := by
        intro t
        rw [hM t, hplaced, hcs]
        by_cases h : t = cs
        · subst h; simp [hep]
        · have : ¬ (some cs = some t) := fun e => h (Option.some.inj e).symm
          simp [h, this]
      let b2 := g'.board.setAt cs ⟨.pawn, g.player.other⟩
      have hb2cons : b2.Consistent := by
        apply consistent_setAt _ _ _ hcons'
        rw [hM']; simp
      have hb2 : ∀ t, b2.pieceAt t = if t = cs then some ⟨.pawn, g.player.other⟩ else if t = mv.dst then some moved
          else if t = mv.src then none else g.board.pieceAt t := by
        intro t
        show (g'.board.setAt cs _).pieceAt t = _
        rw [pieceAt_setAt, hM']
        by_cases h : t = cs <;> simp [h]
      have hmoved' : b2.pieceAt mv.dst = some moved := by rw [hb2]; simp [Ne.symm m2]
      let b5 := (b2.removeAt mv.dst).setAt mv.src moved
      have hb5 : b5 = g.board := by
        apply consistent_ext
        · apply consistent_setAt _ _ _ (consistent_removeAt _ _ hb2cons)
          rw [pieceAt_removeAt, hb2]
          simp [hne, Ne.symm m1]
        · exact hc
        · apply squares_ext
          intro t
          have : b5.pieceAt t = g.board.pieceAt t := by
            show ((b2.removeAt mv.dst).setAt mv.src moved).pieceAt t = _
            rw [pieceAt_setAt, pieceAt_removeAt, hb2]
            by_cases h1 : t = mv.src
            · subst h1; simp [hsrc]
            · by_cases h2 : t = mv.dst
              · subst h2; simp [h1, hdst0]
              · by_cases h3 : t = cs
                · subst h3; simp [h1, h2, hvictim]
                · simp [h1, h2, h3]
          exact this
      unfold undoMove
      rw [hh]
      simp only [bind, Option.bind, hplies, if_false, hccf, Bool.false_eq_true, hep, if_true, hplayer, hcs,
        hnpr, Option.isSome_none, hcapn]
      rw [hp]
      have hmoved'' : (g'.board.setAt cs ⟨.pawn, g.player.other⟩).pieceAt mv.dst = some moved := hmoved'
      rw [hmoved'']
      simp only [Option.some.injEq]
      exact undo_assemble g g' g.player b5 rfl hpl hb5
    · -- ordinary move, capture, promotion
      have hepf : mv.isEnPassant = false := by simpa using hep
      have hM' : ∀ t, g'.board.pieceAt t = if t = mv.dst then some (placedPiece mv g.player moved)
          else if t = mv.src then none else g.board.pieceAt t := by
        intro t; rw [hM t]; simp [hepf]
      have hmoved' : g'.board.pieceAt mv.dst = some (placedPiece mv g.player moved) := by rw [hM']; simp
      let b3 := g'.board.removeAt mv.dst
      have hb3cons : b3.Consistent := consistent_removeAt _ _ hcons'
      let b4 := match (generalizing := false) cap with
        | some cp => b3.setAt mv.dst cp
        | none => b3
      have hb4cons : b4.Consistent := by
        show (match (generalizing := false) cap with | some cp => b3.setAt mv.dst cp | none => b3).Consistent
        cases cap with
        | none => exact hb3cons
        | some cp =>
          apply consistent_setAt _ _ _ hb3cons
          show (g'.board.removeAt mv.dst).pieceAt mv.dst = none
          rw [pieceAt_removeAt]; simp
      have hb4 : ∀ t, b4.pieceAt t = if t = mv.dst then cap else if t = mv.src then none else g.board.pieceAt t := by
        intro t
        show (match (generalizing := false) cap with | some cp => b3.setAt mv.dst cp | none => b3).pieceAt t = _
        cases cap with
        | none =>
          show (g'.board.removeAt mv.dst).pieceAt t = _
          rw [pieceAt_removeAt, hM']
          by_cases h : t = mv.dst <;> simp [h]
        | some cp =>
          show ((g'.board.removeAt mv.dst).setAt mv.dst cp).pieceAt t = _
          rw [pieceAt_setAt, pieceAt_removeAt, hM']
          by_cases h : t = mv.dst <;> simp [h]
      let back : Piece := if mv.promotion.isSome then ⟨.pawn, g.player⟩ else placedPiece mv g.player moved
      have hback : some back = g.board.pieceAt mv.src := by
        show some (if mv.promotion.isSome then (⟨.pawn, g.player⟩ : Piece) else placedPiece mv g.player moved) = _
        by_cases hpr : mv.promotion.isSome
        · rw [if_pos hpr, hok.promo hpr]
        · rw [if_neg hpr, hsrc]
          have : mv.promotion = none := by simpa using hpr
          unfold placedPiece; rw [this]
      let b5 := b4.setAt mv.src back
      have hb5 : b5 = g.board := by
        apply consistent_ext
        · apply consistent_setAt _ _ _ hb4cons
          rw [hb4]; simp [hne]
        · exact hc
        · apply squares_ext
          intro t
          have : b5.pieceAt t = g.board.pieceAt t := by
            show (b4.setAt mv.src back).pieceAt t = _
            rw [pieceAt_setAt, hb4]
            by_cases h1 : t = mv.src
            · subst h1; simp [hback]
            · by_cases h2 : t = mv.dst
              · subst h2; simp [h1, hcap]
              · simp [h1, h2]
          exact this
      unfold undoMove
      rw [hh]
      simp only [bind, Option.bind, hplies, if_false, hccf, Bool.false_eq_true, hepf, hplayer, hmoved']
      simp only [Option.some.injEq]
      have hfin : (if mv.promotion.isSome = true then b4.setAt mv.src ⟨.pawn, g.player⟩
          else b4.setAt mv.src (placedPiece mv g.player moved)) = b5 := by
        show _ = b4.setAt mv.src (if mv.promotion.isSome then (⟨.pawn, g.player⟩ : Piece) else placedPiece mv g.player moved)
        split <;> rfl
      have key : ∀ bb : Board, bb = b4 →
          ({ g' with history := g.history, plies := g'.plies - 1, player := g.player, zobrist := g.zobrist,
                     halfmove := g.halfmove, rights := g.rights, ep := g.ep, inc := g.inc,
                     board := if mv.promotion.isSome = true then bb.setAt mv.src ⟨.pawn, g.player⟩
                              else bb.setAt mv.src (placedPiece mv g.player moved) } : Game) = g := by
        intro bb hbb
        subst hbb
        rw [hfin]
        exact undo_assemble g g' g.player b5 rfl hpl hb5
      cases cap <;> exact key _ rfl

end Tcheran
