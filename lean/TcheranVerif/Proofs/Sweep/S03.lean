import TcheranVerif.Proofs.MagicCert
/-! C07 sweep, part 3: rook squares [63] — decided by the kernel alone -/
namespace Tcheran.Sweep

def squaresS03 : List Sq := [⟨63, by decide⟩]

theorem partS03 : ∀ s ∈ squaresS03, certOne (rookMask s) (rookIndex s) (genRookAttacks s) = true := by
  decide +kernel

end Tcheran.Sweep
