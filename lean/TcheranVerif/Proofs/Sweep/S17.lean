import TcheranVerif.Proofs.MagicCert
import TcheranVerif.Proofs.Sweep.S13  -- only to bound how many parts are checked at once (≈8 GB each)
/-! C07 sweep, part 17: rook squares [13, 14, 17, 18] — decided by the kernel alone -/
namespace Tcheran.Sweep

def squaresS17 : List Sq := [⟨13, by decide⟩, ⟨14, by decide⟩, ⟨17, by decide⟩, ⟨18, by decide⟩]

theorem partS17 : ∀ s ∈ squaresS17, certOne (rookMask s) (rookIndex s) (genRookAttacks s) = true := by
  decide +kernel

end Tcheran.Sweep
