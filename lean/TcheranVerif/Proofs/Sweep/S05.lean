import TcheranVerif.Proofs.MagicCert
import TcheranVerif.Proofs.Sweep.S01  -- only to bound how many parts are checked at once (≈8 GB each)
/-! C07 sweep, part 5: rook squares [3, 4] — decided by the kernel alone -/
namespace Tcheran.Sweep

def squaresS05 : List Sq := [⟨3, by decide⟩, ⟨4, by decide⟩]

theorem partS05 : ∀ s ∈ squaresS05, certOne (rookMask s) (rookIndex s) (genRookAttacks s) = true := by
  decide +kernel

end Tcheran.Sweep
