import TcheranVerif.Proofs.MagicCert
import TcheranVerif.Proofs.Sweep.S14  -- only to bound how many parts are checked at once (≈8 GB each)
/-! C07 sweep, part 18: rook squares [19, 20, 21, 22] — decided by the kernel alone -/
namespace Tcheran.Sweep

def squaresS18 : List Sq := [⟨19, by decide⟩, ⟨20, by decide⟩, ⟨21, by decide⟩, ⟨22, by decide⟩]

theorem partS18 : ∀ s ∈ squaresS18, certOne (rookMask s) (rookIndex s) (genRookAttacks s) = true := by
  decide +kernel

end Tcheran.Sweep
