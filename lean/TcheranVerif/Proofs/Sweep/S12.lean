import TcheranVerif.Proofs.MagicCert
import TcheranVerif.Proofs.Sweep.S08  -- only to bound how many parts are checked at once (≈8 GB each)
/-! C07 sweep, part 12: rook squares [48, 55] — decided by the kernel alone -/
namespace Tcheran.Sweep

def squaresS12 : List Sq := [⟨48, by decide⟩, ⟨55, by decide⟩]

theorem partS12 : ∀ s ∈ squaresS12, certOne (rookMask s) (rookIndex s) (genRookAttacks s) = true := by
  decide +kernel

end Tcheran.Sweep
