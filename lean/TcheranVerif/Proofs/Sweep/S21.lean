import TcheranVerif.Proofs.MagicCert
import TcheranVerif.Proofs.Sweep.S17  -- only to bound how many parts are checked at once (≈8 GB each)
/-! C07 sweep, part 21: rook squares [35, 36, 37, 38] — decided by the kernel alone -/
namespace Tcheran.Sweep

def squaresS21 : List Sq := [⟨35, by decide⟩, ⟨36, by decide⟩, ⟨37, by decide⟩, ⟨38, by decide⟩]

theorem partS21 : ∀ s ∈ squaresS21, certOne (rookMask s) (rookIndex s) (genRookAttacks s) = true := by
  decide +kernel

end Tcheran.Sweep
