import TcheranVerif.Proofs.MagicCert
import TcheranVerif.Proofs.Sweep.S02  -- only to bound how many parts are checked at once (≈8 GB each)
/-! C07 sweep, part 6: rook squares [5, 6] — decided by the kernel alone -/
namespace Tcheran.Sweep

def squaresS06 : List Sq := [⟨5, by decide⟩, ⟨6, by decide⟩]

theorem partS06 : ∀ s ∈ squaresS06, certOne (rookMask s) (rookIndex s) (genRookAttacks s) = true := by
  decide +kernel

end Tcheran.Sweep
