import TcheranVerif.Proofs.MagicCert
import TcheranVerif.Proofs.Sweep.S20  -- only to bound how many parts are checked at once (≈8 GB each)
/-! C07 sweep, part 24: rook squares [51, 52, 53, 54] — decided by the kernel alone -/
namespace Tcheran.Sweep

def squaresS24 : List Sq := [⟨51, by decide⟩, ⟨52, by decide⟩, ⟨53, by decide⟩, ⟨54, by decide⟩]

theorem partS24 : ∀ s ∈ squaresS24, certOne (rookMask s) (rookIndex s) (genRookAttacks s) = true := by
  decide +kernel

end Tcheran.Sweep
