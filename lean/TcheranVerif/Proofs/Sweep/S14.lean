import TcheranVerif.Proofs.MagicCert
import TcheranVerif.Proofs.Sweep.S10  -- only to bound how many parts are checked at once (≈8 GB each)
/-! C07 sweep, part 14: rook squares [59, 60] — decided by the kernel alone -/
namespace Tcheran.Sweep

def squaresS14 : List Sq := [⟨59, by decide⟩, ⟨60, by decide⟩]

theorem partS14 : ∀ s ∈ squaresS14, certOne (rookMask s) (rookIndex s) (genRookAttacks s) = true := by
  decide +kernel

end Tcheran.Sweep
