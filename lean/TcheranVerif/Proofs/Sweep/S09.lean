import TcheranVerif.Proofs.MagicCert
import TcheranVerif.Proofs.Sweep.S05  -- only to bound how many parts are checked at once (≈8 GB each)
/-! C07 sweep, part 9: rook squares [24, 31] — decided by the kernel alone -/
namespace Tcheran.Sweep

def squaresS09 : List Sq := [⟨24, by decide⟩, ⟨31, by decide⟩]

theorem partS09 : ∀ s ∈ squaresS09, certOne (rookMask s) (rookIndex s) (genRookAttacks s) = true := by
  decide +kernel

end Tcheran.Sweep
