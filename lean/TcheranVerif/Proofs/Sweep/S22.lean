import TcheranVerif.Proofs.MagicCert
import TcheranVerif.Proofs.Sweep.S18  -- only to bound how many parts are checked at once (≈8 GB each)
/-! C07 sweep, part 22: rook squares [41, 42, 43, 44] — decided by the kernel alone -/
namespace Tcheran.Sweep

def squaresS22 : List Sq := [⟨41, by decide⟩, ⟨42, by decide⟩, ⟨43, by decide⟩, ⟨44, by decide⟩]

theorem partS22 : ∀ s ∈ squaresS22, certOne (rookMask s) (rookIndex s) (genRookAttacks s) = true := by
  decide +kernel

end Tcheran.Sweep
