import TcheranVerif.Proofs.MagicCert
import TcheranVerif.Proofs.Sweep.S19  -- only to bound how many parts are checked at once (≈8 GB each)
/-! C07 sweep, part 23: rook squares [45, 46, 49, 50] — decided by the kernel alone -/
namespace Tcheran.Sweep

def squaresS23 : List Sq := [⟨45, by decide⟩, ⟨46, by decide⟩, ⟨49, by decide⟩, ⟨50, by decide⟩]

theorem partS23 : ∀ s ∈ squaresS23, certOne (rookMask s) (rookIndex s) (genRookAttacks s) = true := by
  decide +kernel

end Tcheran.Sweep
