import TcheranVerif.Proofs.MagicCert
import TcheranVerif.Proofs.Sweep.S12  -- only to bound how many parts are checked at once (≈8 GB each)
/-! C07 sweep, part 16: rook squares [9, 10, 11, 12] — decided by the kernel alone -/
namespace Tcheran.Sweep

def squaresS16 : List Sq := [⟨9, by decide⟩, ⟨10, by decide⟩, ⟨11, by decide⟩, ⟨12, by decide⟩]

theorem partS16 : ∀ s ∈ squaresS16, certOne (rookMask s) (rookIndex s) (genRookAttacks s) = true := by
  decide +kernel

end Tcheran.Sweep
