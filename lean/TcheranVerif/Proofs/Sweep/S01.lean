import TcheranVerif.Proofs.MagicCert
/-! C07 sweep, part 1: rook squares [7] — decided by the kernel alone -/
namespace Tcheran.Sweep

def squaresS01 : List Sq := [⟨7, by decide⟩]

theorem partS01 : ∀ s ∈ squaresS01, certOne (rookMask s) (rookIndex s) (genRookAttacks s) = true := by
  decide +kernel

end Tcheran.Sweep
