import TcheranVerif.Proofs.MagicCert
import TcheranVerif.Proofs.Sweep.S15  -- only to bound how many parts are checked at once (≈8 GB each)
/-! C07 sweep, part 19: rook squares [25, 26, 27, 28] — decided by the kernel alone -/
namespace Tcheran.Sweep

def squaresS19 : List Sq := [⟨25, by decide⟩, ⟨26, by decide⟩, ⟨27, by decide⟩, ⟨28, by decide⟩]

theorem partS19 : ∀ s ∈ squaresS19, certOne (rookMask s) (rookIndex s) (genRookAttacks s) = true := by
  decide +kernel

end Tcheran.Sweep
