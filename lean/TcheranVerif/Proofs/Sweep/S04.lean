import TcheranVerif.Proofs.MagicCert
import TcheranVerif.Proofs.Sweep.S00  -- only to bound how many parts are checked at once (≈8 GB each)
/-! C07 sweep, part 4: rook squares [1, 2] — decided by the kernel alone -/
namespace Tcheran.Sweep

def squaresS04 : List Sq := [⟨1, by decide⟩, ⟨2, by decide⟩]

theorem partS04 : ∀ s ∈ squaresS04, certOne (rookMask s) (rookIndex s) (genRookAttacks s) = true := by
  decide +kernel

end Tcheran.Sweep
