import TcheranVerif.Proofs.MagicCert
import TcheranVerif.Proofs.Sweep.S21  -- only to bound how many parts are checked at once (≈8 GB each)
/-! C07 sweep, part 25: bishop squares [0, 1, 2, 3, 4, 5, 6, 7, 8, 9, 10, 11, 12, 13, 14, 15, 16, 17, 18, 19, 20, 21, 22, 23, 24, 25, 26, 27, 28, 29, 30, 31] — decided by the kernel alone -/
namespace Tcheran.Sweep

def squaresS25 : List Sq := [⟨0, by decide⟩, ⟨1, by decide⟩, ⟨2, by decide⟩, ⟨3, by decide⟩, ⟨4, by decide⟩, ⟨5, by decide⟩, ⟨6, by decide⟩, ⟨7, by decide⟩, ⟨8, by decide⟩, ⟨9, by decide⟩, ⟨10, by decide⟩, ⟨11, by decide⟩, ⟨12, by decide⟩, ⟨13, by decide⟩, ⟨14, by decide⟩, ⟨15, by decide⟩, ⟨16, by decide⟩, ⟨17, by decide⟩, ⟨18, by decide⟩, ⟨19, by decide⟩, ⟨20, by decide⟩, ⟨21, by decide⟩, ⟨22, by decide⟩, ⟨23, by decide⟩, ⟨24, by decide⟩, ⟨25, by decide⟩, ⟨26, by decide⟩, ⟨27, by decide⟩, ⟨28, by decide⟩, ⟨29, by decide⟩, ⟨30, by decide⟩, ⟨31, by decide⟩]

theorem partS25 : ∀ s ∈ squaresS25, certOne (bishopMask s) (bishopIndex s) (genBishopAttacks s) = true := by
  decide +kernel

end Tcheran.Sweep
