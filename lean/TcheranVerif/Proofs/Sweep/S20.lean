import TcheranVerif.Proofs.MagicCert
import TcheranVerif.Proofs.Sweep.S16  -- only to bound how many parts are checked at once (≈8 GB each)
/-! C07 sweep, part 20: rook squares [29, 30, 33, 34] — decided by the kernel alone -/
namespace Tcheran.Sweep

def squaresS20 : List Sq := [⟨29, by decide⟩, ⟨30, by decide⟩, ⟨33, by decide⟩, ⟨34, by decide⟩]

theorem partS20 : ∀ s ∈ squaresS20, certOne (rookMask s) (rookIndex s) (genRookAttacks s) = true := by
  decide +kernel

end Tcheran.Sweep
