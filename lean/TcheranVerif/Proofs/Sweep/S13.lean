import TcheranVerif.Proofs.MagicCert
import TcheranVerif.Proofs.Sweep.S09  -- only to bound how many parts are checked at once (≈8 GB each)
/-! C07 sweep, part 13: rook squares [57, 58] — decided by the kernel alone -/
namespace Tcheran.Sweep

def squaresS13 : List Sq := [⟨57, by decide⟩, ⟨58, by decide⟩]

theorem partS13 : ∀ s ∈ squaresS13, certOne (rookMask s) (rookIndex s) (genRookAttacks s) = true := by
  decide +kernel

end Tcheran.Sweep
