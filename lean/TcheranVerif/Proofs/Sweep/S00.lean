import TcheranVerif.Proofs.MagicCert
/-! C07 sweep, part 0: rook squares [0] — decided by the kernel alone -/
namespace Tcheran.Sweep

def squaresS00 : List Sq := [⟨0, by decide⟩]

theorem partS00 : ∀ s ∈ squaresS00, certOne (rookMask s) (rookIndex s) (genRookAttacks s) = true := by
  decide +kernel

end Tcheran.Sweep
