import TcheranVerif.Proofs.MagicCert
import TcheranVerif.Proofs.Sweep.S04  -- only to bound how many parts are checked at once (≈8 GB each)
/-! C07 sweep, part 8: rook squares [16, 23] — decided by the kernel alone -/
namespace Tcheran.Sweep

def squaresS08 : List Sq := [⟨16, by decide⟩, ⟨23, by decide⟩]

theorem partS08 : ∀ s ∈ squaresS08, certOne (rookMask s) (rookIndex s) (genRookAttacks s) = true := by
  decide +kernel

end Tcheran.Sweep
