import TcheranVerif.Proofs.MagicCert
/-! C07 sweep, part 8: rook squares [16, 23] — decided by the kernel alone -/
namespace Tcheran.Sweep

def squaresS08 : List Sq := [⟨16, by decide⟩, ⟨23, by decide⟩]

theorem partS08 : ∀ s ∈ squaresS08, certOne (rookMask s) (rookIndex s) (genRookAttacks s) = true := by
  decide +kernel

end Tcheran.Sweep
