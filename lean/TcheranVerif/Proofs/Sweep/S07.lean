import TcheranVerif.Proofs.MagicCert
import TcheranVerif.Proofs.Sweep.S03  -- only to bound how many parts are checked at once (≈8 GB each)
/-! C07 sweep, part 7: rook squares [8, 15] — decided by the kernel alone -/
namespace Tcheran.Sweep

def squaresS07 : List Sq := [⟨8, by decide⟩, ⟨15, by decide⟩]

theorem partS07 : ∀ s ∈ squaresS07, certOne (rookMask s) (rookIndex s) (genRookAttacks s) = true := by
  decide +kernel

end Tcheran.Sweep
