import TcheranVerif.Proofs.MagicCert
import TcheranVerif.Proofs.Sweep.S07  -- only to bound how many parts are checked at once (≈8 GB each)
/-! C07 sweep, part 11: rook squares [40, 47] — decided by the kernel alone -/
namespace Tcheran.Sweep

def squaresS11 : List Sq := [⟨40, by decide⟩, ⟨47, by decide⟩]

theorem partS11 : ∀ s ∈ squaresS11, certOne (rookMask s) (rookIndex s) (genRookAttacks s) = true := by
  decide +kernel

end Tcheran.Sweep
