import TcheranVerif.Proofs.MagicCert
import TcheranVerif.Proofs.Sweep.S06  -- only to bound how many parts are checked at once (≈8 GB each)
/-! C07 sweep, part 10: rook squares [32, 39] — decided by the kernel alone -/
namespace Tcheran.Sweep

def squaresS10 : List Sq := [⟨32, by decide⟩, ⟨39, by decide⟩]

theorem partS10 : ∀ s ∈ squaresS10, certOne (rookMask s) (rookIndex s) (genRookAttacks s) = true := by
  decide +kernel

end Tcheran.Sweep
