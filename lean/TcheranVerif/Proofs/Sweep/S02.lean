import TcheranVerif.Proofs.MagicCert
/-! C07 sweep, part 2: rook squares [56] — decided by the kernel alone -/
namespace Tcheran.Sweep

def squaresS02 : List Sq := [⟨56, by decide⟩]

theorem partS02 : ∀ s ∈ squaresS02, certOne (rookMask s) (rookIndex s) (genRookAttacks s) = true := by
  decide +kernel

end Tcheran.Sweep
