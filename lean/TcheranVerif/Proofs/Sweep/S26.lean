import TcheranVerif.Proofs.MagicCert
import TcheranVerif.Proofs.Sweep.S22  -- only to bound how many parts are checked at once (≈8 GB each)
/-! C07 sweep, part 26: bishop squares [32, 33, 34, 35, 36, 37, 38, 39, 40, 41, 42, 43, 44, 45, 46, 47, 48, 49, 50, 51, 52, 53, 54, 55, 56, 57, 58, 59, 60, 61, 62, 63] — decided by the kernel alone -/
namespace Tcheran.Sweep

def squaresS26 : List Sq := [⟨32, by decide⟩, ⟨33, by decide⟩, ⟨34, by decide⟩, ⟨35, by decide⟩, ⟨36, by decide⟩, ⟨37, by decide⟩, ⟨38, by decide⟩, ⟨39, by decide⟩, ⟨40, by decide⟩, ⟨41, by decide⟩, ⟨42, by decide⟩, ⟨43, by decide⟩, ⟨44, by decide⟩, ⟨45, by decide⟩, ⟨46, by decide⟩, ⟨47, by decide⟩, ⟨48, by decide⟩, ⟨49, by decide⟩, ⟨50, by decide⟩, ⟨51, by decide⟩, ⟨52, by decide⟩, ⟨53, by decide⟩, ⟨54, by decide⟩, ⟨55, by decide⟩, ⟨56, by decide⟩, ⟨57, by decide⟩, ⟨58, by decide⟩, ⟨59, by decide⟩, ⟨60, by decide⟩, ⟨61, by decide⟩, ⟨62, by decide⟩, ⟨63, by decide⟩]

theorem partS26 : ∀ s ∈ squaresS26, certOne (bishopMask s) (bishopIndex s) (genBishopAttacks s) = true := by
  decide +kernel

end Tcheran.Sweep
