import TcheranVerif.Proofs.MagicCert
import TcheranVerif.Proofs.Sweep.S11  -- only to bound how many parts are checked at once (≈8 GB each)
/-! C07 sweep, part 15: rook squares [61, 62] — decided by the kernel alone -/
namespace Tcheran.Sweep

def squaresS15 : List Sq := [⟨61, by decide⟩, ⟨62, by decide⟩]

theorem partS15 : ∀ s ∈ squaresS15, certOne (rookMask s) (rookIndex s) (genRookAttacks s) = true := by
  decide +kernel

end Tcheran.Sweep
