import TcheranVerif.Proofs.Magic
/-!
# The rank flip on bitboards (`Bitboard::flip_vertically`, `u64::swap_bytes`) — set meaning

`mem_flipV : mem (flipV b) t = mem b t.flip` for every board, and the commutation of the flip with every
shift the evaluation uses. Method: all these operations distribute over `|||`, every board is the union of
its one-square boards (`setOf_toList`), and facts about one-square boards are decided by the kernel over
the 64 squares.
-/

namespace Tcheran
open Geometry

/-- a map on bitboards that distributes over unions -/
structure BLinear (f : BB → BB) : Prop where
  zero : f 0#64 = 0#64
  or : ∀ a b, f (a ||| b) = f a ||| f b

theorem BLinear.comp {f g : BB → BB} (hf : BLinear f) (hg : BLinear g) : BLinear (fun b => f (g b)) :=
  ⟨by simp only [hg.zero, hf.zero], fun a b => by simp only [hg.or, hf.or]⟩

theorem BLinear.or' {f g : BB → BB} (hf : BLinear f) (hg : BLinear g) : BLinear (fun b => f b ||| g b) :=
  ⟨by simp only [hg.zero, hf.zero, BitVec.or_zero], fun a b => by
    simp only [hg.or, hf.or]
    apply ext_mem; intro t
    simp only [mem_or]
    cases mem (f a) t <;> cases mem (f b) t <;> cases mem (g a) t <;> cases mem (g b) t <;> rfl⟩

theorem BLinear.andConst (c : BB) : BLinear (fun b => b &&& c) :=
  ⟨by simp, fun a b => by
    apply ext_mem; intro t
    simp only [mem_or, mem_and]
    cases mem a t <;> cases mem b t <;> cases mem c t <;> rfl⟩

theorem BLinear.shl (n : Nat) : BLinear (fun b => b <<< n) :=
  ⟨by simp, fun a b => by ext i; simp [BitVec.getElem_shiftLeft, Bool.and_or_distrib_left]⟩

theorem BLinear.shr (n : Nat) : BLinear (fun b => b >>> n) :=
  ⟨by simp, fun a b => by ext i; simp [BitVec.getElem_ushiftRight]⟩

theorem BLinear.id' : BLinear (fun b => b) := ⟨rfl, fun _ _ => rfl⟩

/-- two union-distributing maps that agree on one-square boards agree everywhere -/
theorem linear_ext {f g : BB → BB} (hf : BLinear f) (hg : BLinear g) (h : ∀ s : Sq, f (bb s) = g (bb s))
    (b : BB) : f b = g b := by
  have key : ∀ l : List Sq, f (setOf l) = g (setOf l) := by
    intro l
    induction l with
    | nil => rw [setOf_nil, hf.zero, hg.zero]
    | cons t l ih => rw [setOf_cons, hf.or, hg.or, h t, ih]
  rw [← setOf_toList b]
  exact key _

theorem north_linear : BLinear BB.north := BLinear.shl 8
theorem south_linear : BLinear BB.south := BLinear.shr 8
theorem east_linear : BLinear BB.east := (BLinear.andConst BB.notA).comp (BLinear.shl 1)
theorem west_linear : BLinear BB.west := (BLinear.andConst BB.notH).comp (BLinear.shr 1)

theorem flipV_linear : BLinear BB.flipV := by
  unfold BB.flipV
  exact ((((((((BLinear.shl 56).or' ((BLinear.andConst _).comp (BLinear.shl 40))).or'
    ((BLinear.andConst _).comp (BLinear.shl 24))).or' ((BLinear.andConst _).comp (BLinear.shl 8))).or'
    ((BLinear.andConst _).comp (BLinear.shr 8))).or' ((BLinear.andConst _).comp (BLinear.shr 24))).or'
    ((BLinear.andConst _).comp (BLinear.shr 40))).or' (BLinear.shr 56))

theorem forward_linear (p : Player) : BLinear (BB.forward p) := by
  cases p
  · exact north_linear
  · exact south_linear

theorem flip_flip : ∀ s : Sq, s.flip.flip = s := by decide +kernel

theorem flip_inj {a b : Sq} (h : a.flip = b.flip) : a = b := by
  have := congrArg Sq.flip h
  rwa [flip_flip, flip_flip] at this

theorem flip_eq_iff (a b : Sq) : a.flip = b ↔ a = b.flip := by
  constructor
  · intro h; rw [← h, flip_flip]
  · intro h; rw [h, flip_flip]

theorem flipV_bb : ∀ s : Sq, BB.flipV (bb s) = bb s.flip := by decide +kernel

theorem flipV_zero : BB.flipV 0#64 = 0#64 := flipV_linear.zero
theorem flipV_or (a b : BB) : BB.flipV (a ||| b) = BB.flipV a ||| BB.flipV b := flipV_linear.or a b

theorem mem_flipV_setOf (l : List Sq) (t : Sq) : mem (BB.flipV (setOf l)) t = mem (setOf l) t.flip := by
  induction l with
  | nil => rw [setOf_nil, flipV_zero, mem_zero, mem_zero]
  | cons x l ih =>
    rw [setOf_cons, flipV_or, mem_or, mem_or, ih, flipV_bb, mem_bb, mem_bb]
    congr 1
    by_cases h : t = x.flip
    · have : t.flip = x := by rw [h, flip_flip]
      rw [decide_eq_true h, decide_eq_true this]
    · have : t.flip ≠ x := fun e => h (by rw [← e, flip_flip])
      rw [decide_eq_false h, decide_eq_false this]

/-- **set meaning of the rank flip** -/
theorem mem_flipV (b : BB) (t : Sq) : mem (BB.flipV b) t = mem b t.flip := by
  rw [← setOf_toList b]
  exact mem_flipV_setOf _ t

theorem flipV_flipV (b : BB) : BB.flipV (BB.flipV b) = b := by
  apply ext_mem; intro t
  rw [mem_flipV, mem_flipV, flip_flip]

theorem flipV_and (a b : BB) : BB.flipV (a &&& b) = BB.flipV a &&& BB.flipV b := by
  apply ext_mem; intro t
  simp only [mem_flipV, mem_and]

theorem flipV_not (a : BB) : BB.flipV (~~~a) = ~~~(BB.flipV a) := by
  apply ext_mem; intro t
  simp only [mem_flipV, mem_not]

theorem flipV_eq_zero (a : BB) : BB.flipV a = 0#64 ↔ a = 0#64 := by
  constructor
  · intro h
    have := congrArg BB.flipV h
    rwa [flipV_flipV, flipV_zero] at this
  · intro h; rw [h, flipV_zero]

theorem flipV_north (b : BB) : BB.flipV (BB.north b) = BB.south (BB.flipV b) :=
  linear_ext (flipV_linear.comp north_linear) (south_linear.comp flipV_linear) (by decide +kernel) b

theorem flipV_south (b : BB) : BB.flipV (BB.south b) = BB.north (BB.flipV b) :=
  linear_ext (flipV_linear.comp south_linear) (north_linear.comp flipV_linear) (by decide +kernel) b

theorem flipV_east (b : BB) : BB.flipV (BB.east b) = BB.east (BB.flipV b) :=
  linear_ext (flipV_linear.comp east_linear) (east_linear.comp flipV_linear) (by decide +kernel) b

theorem flipV_west (b : BB) : BB.flipV (BB.west b) = BB.west (BB.flipV b) :=
  linear_ext (flipV_linear.comp west_linear) (west_linear.comp flipV_linear) (by decide +kernel) b

theorem flipV_forward (p : Player) (b : BB) : BB.flipV (BB.forward p b) = BB.forward p.other (BB.flipV b) := by
  cases p
  · exact flipV_north b
  · exact flipV_south b

/-! ### iteration order and population count -/

theorem nodup_map_flip (l : List Sq) (h : l.Nodup) : (l.map Sq.flip).Nodup := by
  induction l with
  | nil => exact List.nodup_nil
  | cons x xs ih =>
    rw [List.map_cons, List.nodup_cons]
    have hx := List.nodup_cons.1 h
    refine ⟨?_, ih hx.2⟩
    intro hm
    obtain ⟨y, hy, e⟩ := List.mem_map.1 hm
    rw [flip_inj e] at hy
    exact hx.1 hy

theorem toList_flipV_perm (b : BB) : (BB.toList (BB.flipV b)).Perm ((BB.toList b).map Sq.flip) := by
  apply (List.perm_ext_iff_of_nodup (toList_nodup _) ?_).2
  · intro t
    rw [mem_toList, mem_flipV, List.mem_map]
    constructor
    · intro h; exact ⟨t.flip, (mem_toList _ _).2 h, flip_flip t⟩
    · rintro ⟨u, hu, e⟩
      rw [← e, flip_flip]; exact (mem_toList _ _).1 hu
  · exact nodup_map_flip _ (toList_nodup b)

theorem count_flipV (b : BB) : BB.count (BB.flipV b) = BB.count b := by
  unfold BB.count
  rw [(toList_flipV_perm b).length_eq, List.length_map]

end Tcheran
