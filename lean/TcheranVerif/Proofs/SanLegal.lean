import TcheranVerif.Proofs.SanRoundTrip
import TcheranVerif.Proofs.PositionCmd
/-!
# The legal moves of a legal position satisfy what the SAN code relies on (C18)

`san_wf`: for every position that satisfies the game invariant `GInv` (one king a side, e.p. target with the
pushed pawn behind it, …) and every duplicate-free list with exactly the rules' legal moves — which is what
the engine's generator returns (C01) — the context handed to the SAN writer / reader satisfies `San.WF` for
every move of the list.  With `parse_format` this gives the reader round trip and the injectivity of the SAN
text on the legal moves of every legal position.
-/

namespace Tcheran
open Board Game Rules San UciMove

theorem offset_coords (s t : Sq) (df dr : Int) (h : offset s df dr = some t) :
    (t.file : Int) = s.file + df ∧ (t.rank : Int) = s.rank + dr := by
  unfold offset Sq.mk? at h
  split at h
  · rename_i hb
    have := Option.some.inj h
    have hv : t.val = ((s.rank + dr) * 8 + (s.file + df) : Int).toNat := by rw [← this]
    unfold Sq.file Sq.rank at *
    omega
  · cases h

/-- the SAN context of a position: legal list, kind of the man on each square, check oracle -/
def rulesCtx (pos : Pos) (legal : List Move) (gc : Move → Bool) : San.Ctx :=
  { player := pos.player, legal := legal, kindAt := fun s => (at' pos.board s).map (·.kind), givesCheck := gc }

theorem qp_cap (s t : Sq) (pr : Promo) : (Move.quietPromotion s t pr).isCapture = false := by
  cases pr <;> simp [Move.quietPromotion, Move.isCapture, MoveFlag.code]
theorem cp_cap (s t : Sq) (pr : Promo) : (Move.capturePromotion s t pr).isCapture = true := by
  cases pr <;> simp [Move.capturePromotion, Move.isCapture, MoveFlag.code]
theorem quiet_cap (s t : Sq) : (Move.quiet s t).isCapture = false := by
  simp [Move.quiet, Move.isCapture, MoveFlag.code]
theorem capture_cap (s t : Sq) : (Move.capture s t).isCapture = true := by
  simp [Move.capture, Move.isCapture, MoveFlag.code]
theorem ep_cap (s t : Sq) : (Move.enPassant s t).isCapture = true := by
  simp [Move.enPassant, Move.isCapture, MoveFlag.code]

/-- the two shapes of a pawn move -/
theorem pawn_shape (pos : Pos) (s : Sq) (m : Move) (h : m ∈ pawnMoves pos s) :
    m.src = s ∧
    ((m.isCapture = false ∧ at' pos.board m.dst = none ∧
        (offset s 0 (fwd pos.player) = some m.dst ∨
         (offset s 0 (2 * fwd pos.player) = some m.dst ∧
           ∃ t1, offset s 0 (fwd pos.player) = some t1 ∧ at' pos.board t1 = none))) ∨
     (m.isCapture = true ∧ ∃ df ∈ ([-1, 1] : List Int), offset s df (fwd pos.player) = some m.dst ∧
        ((∃ pc, at' pos.board m.dst = some pc) ∨ (at' pos.board m.dst = none ∧ pos.ep = some m.dst)))) := by
  rcases (mem_pawnMoves pos s m).1 h with ⟨t1, o1, e1, h1⟩ | ⟨df, hdf, t, o, h1⟩
  · rcases h1 with ⟨_, pr, _, q⟩ | ⟨_, q⟩ | ⟨_, t2, o2, e2, q⟩
    · subst q
      exact ⟨qp_src _ _ _, Or.inl ⟨qp_cap _ _ _, by rw [qp_dst]; exact e1, Or.inl (by rw [qp_dst]; exact o1)⟩⟩
    · subst q
      exact ⟨rfl, Or.inl ⟨quiet_cap _ _, e1, Or.inl o1⟩⟩
    · subst q
      exact ⟨rfl, Or.inl ⟨quiet_cap _ _, e2, Or.inr ⟨o2, t1, o1, e1⟩⟩⟩
  · rcases h1 with ⟨pc, hpc, _, ⟨_, pr, _, q⟩ | ⟨_, q⟩⟩ | ⟨hn, hep, q⟩
    · subst q
      exact ⟨cp_src _ _ _, Or.inr ⟨cp_cap _ _ _, df, hdf, by rw [cp_dst]; exact o, Or.inl ⟨pc, by rw [cp_dst]; exact hpc⟩⟩⟩
    · subst q
      exact ⟨rfl, Or.inr ⟨capture_cap _ _, df, hdf, o, Or.inl ⟨pc, hpc⟩⟩⟩
    · subst q
      exact ⟨rfl, Or.inr ⟨ep_cap _ _, df, hdf, o, Or.inr ⟨hn, hep⟩⟩⟩

/-- a legal move is a move of the man on its source square, which belongs to the side to move -/
theorem legal_src (pos : Pos) (m : Move) (hm : m ∈ legalMoves pos) :
    ∃ pc, at' pos.board m.src = some pc ∧ pc.player = pos.player ∧
      ((m ∈ pieceMoves pos m.src pc) ∨ (pc.kind = .king ∧ m.promotion = none)) := by
  obtain ⟨hps, _⟩ := (mem_legalMoves_iff pos m).1 hm
  rcases hps with ⟨s, pc, ha, hp, hmv⟩ | hc
  · have := (piece_move_src pos s pc m ha hmv).1
    subst this
    exact ⟨pc, ha, hp, Or.inl hmv⟩
  · obtain ⟨rf, rt, hmk, hk, _⟩ := castle_move_facts2 pos m hc
    have hsrc : m.src = kingStart pos.player := by rw [hmk]; rfl
    refine ⟨⟨.king, pos.player⟩, by rw [hsrc]; exact hk, rfl, Or.inr ⟨rfl, by rw [hmk]; rfl⟩⟩

theorem piece_no_promo (pos : Pos) (s : Sq) (pc : Piece) (m : Move) (hk : pc.kind ≠ .pawn)
    (hm : m ∈ pieceMoves pos s pc) : m.promotion = none := by
  have hstep : ∀ deltas, m ∈ stepMoves pos.board pos.player s deltas → m.promotion = none := by
    intro deltas h
    obtain ⟨d, _, t, _, h⟩ := (mem_stepMoves _ _ _ _ _).1 h
    rcases h with ⟨_, e⟩ | ⟨_, _, _, e⟩ <;> rw [e] <;> rfl
  have hslide : ∀ R, m ∈ slideMoves pos.board pos.player s R → m.promotion = none := by
    intro R h
    obtain ⟨t, _, h⟩ := (mem_slideMoves _ _ _ _ _).1 h
    rcases h with ⟨_, e⟩ | ⟨_, _, _, e⟩ <;> rw [e] <;> rfl
  unfold pieceMoves at hm
  obtain ⟨kk, pl⟩ := pc
  cases kk <;> simp only at hm
  · exact absurd rfl hk
  · exact hstep _ hm
  · obtain ⟨dir, _, h⟩ := List.mem_flatMap.1 hm; exact hslide _ h
  · obtain ⟨dir, _, h⟩ := List.mem_flatMap.1 hm; exact hslide _ h
  · obtain ⟨dir, _, h⟩ := List.mem_flatMap.1 hm; exact hslide _ h
  · exact hstep _ hm

/-- a legal move from a square that holds a pawn is one of that pawn's moves -/
theorem legal_pawn (pos : Pos) (m : Move) (hm : m ∈ legalMoves pos)
    (hk : (at' pos.board m.src).map (·.kind) = some .pawn) :
    at' pos.board m.src = some ⟨.pawn, pos.player⟩ ∧ m ∈ pawnMoves pos m.src := by
  obtain ⟨pc, ha, hp, h⟩ := legal_src pos m hm
  rw [ha] at hk
  simp only [Option.map_some, Option.some.injEq] at hk
  obtain ⟨k, pl⟩ := pc
  simp only at hk hp
  subst hk; subst hp
  refine ⟨ha, ?_⟩
  rcases h with h | ⟨h, _⟩
  · exact h
  · cases h

/-- **san_wf** -/
theorem san_wf (pos : Pos) (hi : GInv pos) (legal : List Move) (hn : legal.Nodup)
    (hex : ∀ m, m ∈ legal ↔ m ∈ legalMoves pos) (gc : Move → Bool) (mv : Move) (hmv : mv ∈ legal) :
    WF (rulesCtx pos legal gc) mv := by
  have hl : ∀ m ∈ legal, m ∈ legalMoves pos := fun m h => (hex m).1 h
  have hmvl := hl mv hmv
  refine ⟨hn, hmv, ?_, ?_, ?_, ?_, ?_, ?_⟩
  · -- kinds
    intro m hm
    obtain ⟨pc, ha, _⟩ := legal_src pos m (hl m hm)
    show ((at' pos.board m.src).map (·.kind)).isSome = true
    rw [ha]; rfl
  · -- key
    intro m hm e1 e2 e3
    apply legal_key_inj pos m mv (hl m hm) hmvl
    unfold keyOf
    rw [e1, e2, e3]
  · -- noPromo
    intro m hm k hk hnp
    obtain ⟨pc, ha, _, h⟩ := legal_src pos m (hl m hm)
    have hk' : (at' pos.board m.src).map (·.kind) = some k := hk
    rw [ha] at hk'
    simp only [Option.map_some, Option.some.injEq] at hk'
    rcases h with h | ⟨_, h⟩
    · exact piece_no_promo pos m.src pc m (by rw [hk']; exact hnp) h
    · exact h
  · -- pawnPush
    intro hk hcap m hm hmk hd
    obtain ⟨hS, hpS⟩ := legal_pawn pos mv hmvl hk
    obtain ⟨hM, hpM⟩ := legal_pawn pos m (hl m hm) hmk
    obtain ⟨_, shS⟩ := pawn_shape pos mv.src mv hpS
    obtain ⟨_, shM⟩ := pawn_shape pos m.src m hpM
    have hpush : ∃ hDe : at' pos.board mv.dst = none,
        (offset mv.src 0 (fwd pos.player) = some mv.dst ∨
          (offset mv.src 0 (2 * fwd pos.player) = some mv.dst ∧
            ∃ t1, offset mv.src 0 (fwd pos.player) = some t1 ∧ at' pos.board t1 = none)) := by
      rcases shS with ⟨_, hDe, hS1⟩ | ⟨hc, _⟩
      · exact ⟨hDe, hS1⟩
      · rw [hcap] at hc; cases hc
    obtain ⟨hDe, hS1⟩ := hpush
    rcases shM with ⟨_, _, hM1⟩ | ⟨_, df, hdf, oM, hcapM⟩
    · -- both pushes
      rw [hd] at hM1
      rcases hS1 with oS | ⟨oS, t1, o1, e1⟩ <;> rcases hM1 with oM | ⟨oM, u1, p1, f1⟩
      · have a := offset_coords _ _ _ _ oS
        have b := offset_coords _ _ _ _ oM
        exact sq_ext_fr _ _ (by omega) (by omega)
      · -- mv single, m double: the square m jumps over is mv.src, which is occupied
        exfalso
        have a := offset_coords _ _ _ _ oS
        have b := offset_coords _ _ _ _ oM
        have c := offset_coords _ _ _ _ p1
        have : u1 = mv.src := sq_ext_fr _ _ (by omega) (by omega)
        rw [this, hS] at f1; cases f1
      · exfalso
        have a := offset_coords _ _ _ _ oS
        have b := offset_coords _ _ _ _ oM
        have c := offset_coords _ _ _ _ o1
        have : t1 = m.src := sq_ext_fr _ _ (by omega) (by omega)
        rw [this, hM] at e1; cases e1
      · have a := offset_coords _ _ _ _ oS
        have b := offset_coords _ _ _ _ oM
        exact sq_ext_fr _ _ (by omega) (by omega)
    · -- m captures on the square mv advances to
      exfalso
      rw [hd] at hcapM oM
      rcases hcapM with ⟨pc, hpc⟩ | ⟨_, hep⟩
      · rw [hDe] at hpc; cases hpc
      · obtain ⟨_, v, ov, hv⟩ := hi.ep mv.dst hep
        have c := offset_coords _ _ _ _ ov
        rcases hS1 with oS | ⟨oS, t1, o1, e1⟩
        · have a := offset_coords _ _ _ _ oS
          have : v = mv.src := sq_ext_fr _ _ (by omega) (by omega)
          rw [this, hS] at hv
          have := Option.some.inj hv
          simp only [Piece.mk.injEq, true_and] at this
          exact player_ne_other _ this
        · have a := offset_coords _ _ _ _ oS
          have b := offset_coords _ _ _ _ o1
          have : v = t1 := sq_ext_fr _ _ (by omega) (by omega)
          rw [this, e1] at hv; cases hv
  · -- pawnCap
    intro hk hcap m hm hmk hd hfile
    obtain ⟨hS, hpS⟩ := legal_pawn pos mv hmvl hk
    obtain ⟨hM, hpM⟩ := legal_pawn pos m (hl m hm) hmk
    obtain ⟨_, shS⟩ := pawn_shape pos mv.src mv hpS
    obtain ⟨_, shM⟩ := pawn_shape pos m.src m hpM
    rcases shS with ⟨hc, _⟩ | ⟨_, df, hdf, oS, _⟩
    · rw [hcap] at hc; cases hc
    have a := offset_coords _ _ _ _ oS
    have hdf' : df = -1 ∨ df = 1 := by simpa using hdf
    rcases shM with ⟨_, _, hM1⟩ | ⟨_, dg, hdg, oM, _⟩
    · exfalso
      rw [hd] at hM1
      rcases hM1 with oM | ⟨oM, _⟩
      · have b := offset_coords _ _ _ _ oM
        omega
      · have b := offset_coords _ _ _ _ oM
        omega
    · rw [hd] at oM
      have b := offset_coords _ _ _ _ oM
      exact sq_ext_fr _ _ hfile (by omega)
  · -- king
    intro hk m hm hmk _
    obtain ⟨pc, ha, hp, _⟩ := legal_src pos mv hmvl
    obtain ⟨pc', ha', hp', _⟩ := legal_src pos m (hl m hm)
    have hk1 : (at' pos.board mv.src).map (·.kind) = some .king := hk
    have hk2 : (at' pos.board m.src).map (·.kind) = some .king := hmk
    rw [ha] at hk1; rw [ha'] at hk2
    simp only [Option.map_some, Option.some.injEq] at hk1 hk2
    obtain ⟨k, hkk⟩ := hi.king pos.player
    have e1 : mv.src = k := (hkk _).1 (by rw [ha]; obtain ⟨a, b⟩ := pc; simp only at hk1 hp; subst hk1; subst hp; rfl)
    have e2 : m.src = k := (hkk _).1 (by rw [ha']; obtain ⟨a, b⟩ := pc'; simp only at hk2 hp'; subst hk2; subst hp'; rfl)
    rw [e1, e2]

end Tcheran
