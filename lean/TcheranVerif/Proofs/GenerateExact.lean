import TcheranVerif.Proofs.PawnClass
/-!
# `generate_exact`: the generated moves are exactly the rules' legal moves (C01)
-/

namespace Tcheran
open Board Geometry Rules

theorem mem_full : ∀ s : Sq, mem BB.full s = true := by decide +kernel

/-- what a legal position provides (see `Props.C01.posH_of_legal`) -/
structure PosH (g : Game) (k : Sq) : Prop where
  ctx : Ctx g.board g.player k
  ep : EpOk g.board.squares g.player g.ep
  ksRight : (g.rights.forP g.player).kingSide = true →
    k = Game.kingStart g.player ∧ at' g.board.squares (Game.kingsideRookStart g.player) = some ⟨.rook, g.player⟩
  qsRight : (g.rights.forP g.player).queenSide = true →
    k = Game.kingStart g.player ∧ at' g.board.squares (Game.queensideRookStart g.player) = some ⟨.rook, g.player⟩

theorem lsb_king (g : Game) (k : Sq) (h : PosH g k) : BB.lsbSq? (g.board.kingOf g.player) = some k := by
  rw [lsbSq_kingOf g.board h.ctx.cons g.player]
  exact kingSq_unique _ _ k h.ctx.king

/-- the check mask and its meaning, with at most one checker -/
theorem checkMask_spec (T : SliderTables) (g : Game) (k : Sq) (h : PosH g k)
    (hn : ¬ BB.count (attackersOf g.board g.player k) > 1) :
    ∃ cm, checkMaskFor (attackersOf g.board g.player k) k (BB.count (attackersOf g.board g.player k)) = some cm ∧
      ∀ d, mem cm d = true ↔ CheckOK g.board.squares g.player.other k d := by
  have hc := h.ctx.cons
  unfold checkMaskFor
  unfold BB.count at hn ⊢
  match hl : BB.toList (attackersOf g.board g.player k) with
  | [] =>
    refine ⟨BB.full, by simp, fun d => ?_⟩
    have hz : attackersOf g.board g.player k = 0#64 := by
      apply ext_mem
      intro x
      rw [mem_zero]
      cases hm : mem (attackersOf g.board g.player k) x with
      | false => rfl
      | true =>
        have := (mem_toList _ x).2 hm
        rw [hl] at this; cases this
    rw [mem_full]
    exact ⟨fun _ => checkOK_zero T g.board hc g.player k d hz, fun _ => rfl⟩
  | [c] =>
    refine ⟨between c k ||| attackersOf g.board g.player k, ?_, fun d => ?_⟩
    · simp only [List.length_singleton, beq_self_eq_true, if_true]
      unfold BB.lsbSq?
      rw [hl]
      rfl
    · exact (checkOK_one T g.board hc g.player k d c hl).symm
  | c1 :: c2 :: rest =>
    rw [hl] at hn
    simp at hn

theorem maskSpec_of (T : SliderTables) (g : Game) (k : Sq) (h : PosH g k) (cm : BB)
    (hcm : ∀ d, mem cm d = true ↔ CheckOK g.board.squares g.player.other k d) :
    MaskSpec g.board g.player k cm (getPins g.board g.player k).1 (getPins g.board g.player k).2 :=
  { check := hcm
    orth := getPins_orth T g.board h.ctx.cons g.player k
    diag := getPins_diag T g.board h.ctx.cons g.player k }

end Tcheran

namespace Tcheran
open Board Geometry Rules

theorem castle_side (T : SliderTables) (bd : Board) (p : Player) (k : Sq) (c : Ctx bd p k) (right : Bool)
    (ks dst mid rf rt : Sq) (empties : List Sq) (reqEmpty : BB)
    (hcfg : (ks, dst, rf, rt) ∈ Geo.castleConfigs)
    (hreq : ∀ x, mem reqEmpty x = true ↔ x ∈ empties)
    (hcs : Game.castleSquares p dst = some (rf, rt))
    (hmid : mid ∈ empties) (hdst : dst ∈ empties) (hrtmid : rt = mid)
    (hne : ks ≠ dst ∧ ks ≠ rf ∧ ks ≠ rt ∧ dst ≠ rf ∧ dst ≠ rt ∧ rf ≠ rt)
    (hright : right = true → k = ks ∧ at' bd.squares rf = some ⟨.rook, p⟩) (m : Move) :
    (m ∈ (if attackersOf bd p k == 0#64 then
            (if right then
              (if (reqEmpty &&& bd.occupancy) == 0#64 && attackersOf bd p mid == 0#64
                  && attackersOf bd p dst == 0#64 then [Move.castles ks dst] else [])
             else [])
          else [])) ↔
    (m ∈ castleMk bd.squares p ks right rf empties [mid, dst] dst ∧
      inCheck (applyBoard bd.squares p m) p = false) := by
  cases hr : right with
  | false =>
    unfold castleMk
    simp
  | true =>
    obtain ⟨e, hrook⟩ := hright hr
    subst e
    have := castle_one T bd p k c dst mid rf rt empties reqEmpty hcfg hreq hcs hmid hdst hrtmid hne true
      (fun _ => hrook) m
    exact this

theorem mem_if_append {c : Prop} [Decidable c] (A B : List Move) (m : Move) :
    m ∈ (if c then A ++ B else []) ↔ (m ∈ (if c then A else []) ∨ m ∈ (if c then B else [])) := by
  by_cases h : c
  · simp [h]
  · simp [h]

theorem mem_bb2 (a b x : Sq) : mem (bb a ||| bb b) x = true ↔ x ∈ [a, b] := by
  rw [mem_or, mem_bb, mem_bb]; simp
theorem mem_bb3 (a b c x : Sq) : mem (bb a ||| bb b ||| bb c) x = true ↔ x ∈ [a, b, c] := by
  rw [mem_or, mem_or, mem_bb, mem_bb, mem_bb]; simp [or_assoc]

/-- **castling_exact** -/
theorem castles_spec (T : SliderTables) (g : Game) (k : Sq) (h : PosH g k) (m : Move) :
    (m ∈ (if attackersOf g.board g.player k == 0#64 then Gen.castles g g.board.occupancy else [])) ↔
    (m ∈ castleMoves (ofGame g) ∧ inCheck (applyBoard g.board.squares g.player m) g.player = false) := by
  rw [castleMoves_eq]
  unfold Gen.castles Gen.castleFor
  rw [mem_if_append]
  have hk := h.ksRight
  have hq := h.qsRight
  have hctx := h.ctx
  show _ ↔ (m ∈ (match g.player with
    | .white => _
    | .black => _) ∧ _)
  generalize g.player = p at *
  cases p with
  | white =>
    simp only [List.mem_append]
    have e1 := castle_side T g.board .white k hctx (g.rights.forP .white).kingSide E1 G1 F1 H1 F1 [F1, G1]
      (bb F1 ||| bb G1) (by decide) (mem_bb2 F1 G1) (by decide) (by decide) (by decide) rfl (by decide) hk m
    have e2 := castle_side T g.board .white k hctx (g.rights.forP .white).queenSide E1 C1 D1 A1 D1 [B1, C1, D1]
      (bb B1 ||| bb C1 ||| bb D1) (by decide) (mem_bb3 B1 C1 D1) (by decide) (by decide) (by decide) rfl
      (by decide) hq m
    constructor
    · rintro (a | a)
      · exact ⟨Or.inl (e1.1 a).1, (e1.1 a).2⟩
      · exact ⟨Or.inr (e2.1 a).1, (e2.1 a).2⟩
    · rintro ⟨a | a, l⟩
      · exact Or.inl (e1.2 ⟨a, l⟩)
      · exact Or.inr (e2.2 ⟨a, l⟩)
  | black =>
    simp only [List.mem_append]
    have e1 := castle_side T g.board .black k hctx (g.rights.forP .black).kingSide E8 G8 F8 H8 F8 [F8, G8]
      (bb F8 ||| bb G8) (by decide) (mem_bb2 F8 G8) (by decide) (by decide) (by decide) rfl (by decide) hk m
    have e2 := castle_side T g.board .black k hctx (g.rights.forP .black).queenSide E8 C8 D8 A8 D8 [B8, C8, D8]
      (bb B8 ||| bb C8 ||| bb D8) (by decide) (mem_bb3 B8 C8 D8) (by decide) (by decide) (by decide) rfl
      (by decide) hq m
    constructor
    · rintro (a | a)
      · exact ⟨Or.inl (e1.1 a).1, (e1.1 a).2⟩
      · exact ⟨Or.inr (e2.1 a).1, (e2.1 a).2⟩
    · rintro ⟨a | a, l⟩
      · exact Or.inl (e1.2 ⟨a, l⟩)
      · exact Or.inr (e2.2 ⟨a, l⟩)

end Tcheran

namespace Tcheran
open Board Geometry Rules

/-- the rules' legal moves, class by class, in the generator's vocabulary -/
theorem legal_classes (g : Game) (m : Move) :
    m ∈ legalMoves (ofGame g) ↔
      (RPromoCap g.board.squares g.player m ∨ RPromoPush g.board.squares g.player [.queen] m ∨
       RPlainCap g.board.squares g.player m ∨ REp g.board.squares g.player g.ep m ∨
       RPromoPush g.board.squares g.player Gen.promoOrderQuietUnder m ∨ RSingle g.board.squares g.player m ∨
       RDouble g.board.squares g.player m ∨
       (∃ s, at' g.board.squares s = some ⟨.knight, g.player⟩ ∧ m ∈ stepMoves g.board.squares g.player s knightDeltas ∧
          inCheck (applyBoard g.board.squares g.player m) g.player = false) ∨
       (∃ s, at' g.board.squares s = some ⟨.king, g.player⟩ ∧ m ∈ stepMoves g.board.squares g.player s kingDeltas ∧
          inCheck (applyBoard g.board.squares g.player m) g.player = false) ∨
       (∃ s, (at' g.board.squares s = some ⟨.bishop, g.player⟩ ∨ at' g.board.squares s = some ⟨.queen, g.player⟩) ∧
          ∃ dir ∈ Dir.diagonal, m ∈ slideMoves g.board.squares g.player s (ray dir s) ∧
            inCheck (applyBoard g.board.squares g.player m) g.player = false) ∨
       (∃ s, (at' g.board.squares s = some ⟨.rook, g.player⟩ ∨ at' g.board.squares s = some ⟨.queen, g.player⟩) ∧
          ∃ dir ∈ Dir.cardinal, m ∈ slideMoves g.board.squares g.player s (ray dir s) ∧
            inCheck (applyBoard g.board.squares g.player m) g.player = false) ∨
       (m ∈ castleMoves (ofGame g) ∧ inCheck (applyBoard g.board.squares g.player m) g.player = false)) := by
  rw [mem_legalMoves_iff, piece_class]
  have hpc := pawn_class (ofGame g) m
  simp only [ofGame] at hpc ⊢
  constructor
  · rintro ⟨(hp | hn | hk | hd | ho) | hcs, hl⟩
    · rcases hpc.1 ⟨hp, hl⟩ with a | a | a | a | a | a | a
      · exact Or.inl a
      · exact Or.inr (Or.inl a)
      · exact Or.inr (Or.inr (Or.inl a))
      · exact Or.inr (Or.inr (Or.inr (Or.inl a)))
      · exact Or.inr (Or.inr (Or.inr (Or.inr (Or.inl a))))
      · exact Or.inr (Or.inr (Or.inr (Or.inr (Or.inr (Or.inl a)))))
      · exact Or.inr (Or.inr (Or.inr (Or.inr (Or.inr (Or.inr (Or.inl a))))))
    · obtain ⟨s, a, b⟩ := hn
      exact Or.inr (Or.inr (Or.inr (Or.inr (Or.inr (Or.inr (Or.inr (Or.inl ⟨s, a, b, hl⟩)))))))
    · obtain ⟨s, a, b⟩ := hk
      exact Or.inr (Or.inr (Or.inr (Or.inr (Or.inr (Or.inr (Or.inr (Or.inr (Or.inl ⟨s, a, b, hl⟩))))))))
    · obtain ⟨s, a, dir, hdir, b⟩ := hd
      exact Or.inr (Or.inr (Or.inr (Or.inr (Or.inr (Or.inr (Or.inr (Or.inr (Or.inr (Or.inl
        ⟨s, a, dir, hdir, b, hl⟩)))))))))
    · obtain ⟨s, a, dir, hdir, b⟩ := ho
      exact Or.inr (Or.inr (Or.inr (Or.inr (Or.inr (Or.inr (Or.inr (Or.inr (Or.inr (Or.inr (Or.inl
        ⟨s, a, dir, hdir, b, hl⟩))))))))))
    · exact Or.inr (Or.inr (Or.inr (Or.inr (Or.inr (Or.inr (Or.inr (Or.inr (Or.inr (Or.inr (Or.inr
        ⟨hcs, hl⟩))))))))))
  · intro hall
    have pawn : ∀ (a : RPromoCap g.board.squares g.player m ∨ RPromoPush g.board.squares g.player [.queen] m ∨
        RPlainCap g.board.squares g.player m ∨ REp g.board.squares g.player g.ep m ∨
        RPromoPush g.board.squares g.player Gen.promoOrderQuietUnder m ∨ RSingle g.board.squares g.player m ∨
        RDouble g.board.squares g.player m), _ := fun a => hpc.2 a
    rcases hall with a | a | a | a | a | a | a | ⟨s, a, b, hl⟩ | ⟨s, a, b, hl⟩ | ⟨s, a, dir, hdir, b, hl⟩ |
      ⟨s, a, dir, hdir, b, hl⟩ | ⟨hcs, hl⟩
    · obtain ⟨x, y⟩ := pawn (Or.inl a); exact ⟨Or.inl (Or.inl x), y⟩
    · obtain ⟨x, y⟩ := pawn (Or.inr (Or.inl a)); exact ⟨Or.inl (Or.inl x), y⟩
    · obtain ⟨x, y⟩ := pawn (Or.inr (Or.inr (Or.inl a))); exact ⟨Or.inl (Or.inl x), y⟩
    · obtain ⟨x, y⟩ := pawn (Or.inr (Or.inr (Or.inr (Or.inl a)))); exact ⟨Or.inl (Or.inl x), y⟩
    · obtain ⟨x, y⟩ := pawn (Or.inr (Or.inr (Or.inr (Or.inr (Or.inl a))))); exact ⟨Or.inl (Or.inl x), y⟩
    · obtain ⟨x, y⟩ := pawn (Or.inr (Or.inr (Or.inr (Or.inr (Or.inr (Or.inl a))))))
      exact ⟨Or.inl (Or.inl x), y⟩
    · obtain ⟨x, y⟩ := pawn (Or.inr (Or.inr (Or.inr (Or.inr (Or.inr (Or.inr a))))))
      exact ⟨Or.inl (Or.inl x), y⟩
    · exact ⟨Or.inl (Or.inr (Or.inl ⟨s, a, b⟩)), hl⟩
    · exact ⟨Or.inl (Or.inr (Or.inr (Or.inl ⟨s, a, b⟩))), hl⟩
    · exact ⟨Or.inl (Or.inr (Or.inr (Or.inr (Or.inl ⟨s, a, dir, hdir, b⟩)))), hl⟩
    · exact ⟨Or.inl (Or.inr (Or.inr (Or.inr (Or.inr ⟨s, a, dir, hdir, b⟩)))), hl⟩
    · exact ⟨Or.inr hcs, hl⟩

end Tcheran

namespace Tcheran
open Board Geometry Rules

theorem mem_sliders_spec (bd : Board) (hc : Consistent bd) (p : Player) (k1 : PieceKind) (s : Sq) :
    mem (bd.byKind k1 &&& bd.occFor p ||| bd.byKind .queen &&& bd.occFor p) s = true ↔
      (at' bd.squares s = some ⟨k1, p⟩ ∨ at' bd.squares s = some ⟨.queen, p⟩) := by
  rw [mem_or, Bool.or_eq_true, mem_kindOf bd hc, mem_kindOf bd hc]
  rfl

/-- **generate_exact, at most one checker** -/
theorem generate_le1 (T : SliderTables) (g : Game) (k : Sq) (h : PosH g k)
    (hn : ¬ BB.count (attackersOf g.board g.player k) > 1) :
    ∃ caps cache quiets, generateCaptures g = some (caps, cache) ∧ generateQuiets g cache = some quiets ∧
      ∀ m, m ∈ caps ++ quiets ↔ m ∈ legalMoves (ofGame g) := by
  have hc := h.ctx.cons
  obtain ⟨cm, hcmeq, hcm⟩ := checkMask_spec T g k h hn
  have ms := maskSpec_of T g k h cm hcm
  generalize hop : (getPins g.board g.player k).1 = op at ms
  generalize hdp : (getPins g.board g.player k).2 = dp at ms
  have hpins : getPins g.board g.player k = (op, dp) := by rw [← hop, ← hdp]
  obtain ⟨L2, hL2, sL2⟩ := promoPushes_spec g.board g.player k h.ctx cm op dp ms [.queen]
  obtain ⟨Q1, hQ1, sQ1⟩ := promoPushes_spec g.board g.player k h.ctx cm op dp ms Gen.promoOrderQuietUnder
  obtain ⟨Q2, hQ2, sQ2⟩ := singlePushes_spec g.board g.player k h.ctx cm op dp ms
  obtain ⟨Q3, hQ3, sQ3⟩ := doublePushes_spec g.board g.player k h.ctx cm op dp ms
  obtain ⟨Lep, hLep, sLep⟩ := enPassant_spec T g k h.ctx cm op dp ms h.ep
  have hpc : Gen.pawnCaptures g (g.board.pawnsOf g.player) k (g.board.occFor g.player.other) g.board.occupancy
      cm op dp = some (Gen.pawnPromoCaptures g.player (g.board.pawnsOf g.player) (g.board.occFor g.player.other) cm op dp
        ++ L2.flatten ++ Gen.pawnPlainCaptures g.player (g.board.pawnsOf g.player) (g.board.occFor g.player.other) cm op dp
        ++ Lep) := by
    unfold Gen.pawnCaptures
    rw [hL2, hLep]
    rfl
  have hpq : Gen.pawnQuiets g (g.board.pawnsOf g.player) g.board.occupancy cm op dp =
      some (Q1.flatten ++ Q2.flatten ++ Q3.flatten) := by
    unfold Gen.pawnQuiets
    rw [hQ1, hQ2, hQ3]
    rfl
  let cache : MovegenCache := { checkers := attackersOf g.board g.player k, checkMask := cm, orthPins := op, diagPins := dp }
  refine ⟨(Gen.pawnPromoCaptures g.player (g.board.pawnsOf g.player) (g.board.occFor g.player.other) cm op dp
        ++ L2.flatten ++ Gen.pawnPlainCaptures g.player (g.board.pawnsOf g.player) (g.board.occFor g.player.other) cm op dp
        ++ Lep)
      ++ Gen.knightCaptures (g.board.knightsOf g.player) (g.board.occFor g.player.other) cm op dp
      ++ Gen.diagSliderCaptures (g.board.diagSliders g.player) (g.board.occFor g.player.other) g.board.occupancy cm op dp
      ++ Gen.orthSliderCaptures (g.board.orthSliders g.player) (g.board.occFor g.player.other) g.board.occupancy cm op dp
      ++ Gen.kingCaptures g k (g.board.occFor g.player.other),
    cache,
    ((Q1.flatten ++ Q2.flatten ++ Q3.flatten)
      ++ Gen.knightQuiets (g.board.knightsOf g.player) g.board.occupancy cm op dp
      ++ Gen.diagSliderQuiets (g.board.diagSliders g.player) g.board.occupancy cm op dp
      ++ Gen.orthSliderQuiets (g.board.orthSliders g.player) g.board.occupancy cm op dp
      ++ Gen.kingQuiets g k g.board.occupancy)
      ++ (if attackersOf g.board g.player k == 0#64 then Gen.castles g g.board.occupancy else []),
    ?_, ?_, ?_⟩
  · unfold generateCaptures
    rw [lsb_king g k h]
    show (if BB.count (attackersOf g.board g.player k) > 1 then _ else _) = _
    rw [if_neg hn]
    show (do let checkMask ← checkMaskFor _ k _; capturesWith g k _ checkMask) = _
    rw [hcmeq]
    show capturesWith g k _ cm = _
    unfold capturesWith
    rw [hpins]
    simp only
    rw [hpc]
    rfl
  · unfold generateQuiets
    rw [lsb_king g k h]
    show (if BB.count cache.checkers > 1 then _ else _) = _
    rw [if_neg hn]
    show quietsWith g k cache = _
    unfold quietsWith
    show (do let p ← Gen.pawnQuiets g (g.board.pawnsOf g.player) g.board.occupancy cm op dp; _) = _
    rw [hpq]
    rfl
  · intro m
    rw [legal_classes]
    simp only [List.mem_append]
    -- class by class
    have eKn := knight_moves_exact g.board g.player k h.ctx cm op dp ms m
    have eKg := king_moves_exact T g hc k (fun s => h.ctx.king s) m
    have eD := slider_moves_exact_gen g.board g.player k h.ctx Dir.diagonal Dir.cardinal .bishop .rook
      (Or.inr ⟨rfl, rfl, rfl, rfl⟩) bishopAttacks (fun s occ => T.bishop s occ) (g.board.diagSliders g.player)
      (fun s => mem_sliders_spec g.board hc g.player .bishop s) cm dp op ms.check ms.diag ms.orth m
    have eO := slider_moves_exact_gen g.board g.player k h.ctx Dir.cardinal Dir.diagonal .rook .bishop
      (Or.inl ⟨rfl, rfl, rfl, rfl⟩) rookAttacks (fun s occ => T.rook s occ) (g.board.orthSliders g.player)
      (fun s => mem_sliders_spec g.board hc g.player .rook s) cm op dp ms.check ms.orth ms.diag m
    rw [← diagCaps_eq, ← diagQuiets_eq, List.mem_append] at eD
    rw [← orthCaps_eq, ← orthQuiets_eq, List.mem_append] at eO
    rw [List.mem_append] at eKn eKg
    have eKg : (m ∈ Gen.kingCaptures g k (g.board.occFor g.player.other) ∨ m ∈ Gen.kingQuiets g k g.board.occupancy) ↔
        ∃ s, at' g.board.squares s = some ⟨.king, g.player⟩ ∧ m ∈ stepMoves g.board.squares g.player s kingDeltas ∧
          inCheck (applyBoard g.board.squares g.player m) g.player = false := by
      rw [eKg]
      constructor
      · rintro ⟨a, b⟩; exact ⟨k, (h.ctx.king k).2 rfl, a, b⟩
      · rintro ⟨s, hs, a, b⟩
        have := (h.ctx.king s).1 hs
        subst this
        exact ⟨a, b⟩
    have ePC := promoCaptures_spec g.board g.player k h.ctx cm op dp ms m
    have ePl := plainCaptures_spec g.board g.player k h.ctx cm op dp ms m
    have eCs := castles_spec T g k h m
    have e2 := sL2 m
    have e1 := sQ1 m
    have es := sQ2 m
    have ed := sQ3 m
    have ee := sLep m
    unfold RPromoCap RPromoPush RPlainCap REp RSingle RDouble
    constructor
    · rintro ((((((((a | a) | a) | a) | a) | a) | a) | a) | (((((((a | a) | a) | a) | a) | a) | a) | a))
      · exact Or.inl (ePC.1 a)
      · exact Or.inr (Or.inl (e2.1 a))
      · exact Or.inr (Or.inr (Or.inl (ePl.1 a)))
      · exact Or.inr (Or.inr (Or.inr (Or.inl (ee.1 a))))
      · exact Or.inr (Or.inr (Or.inr (Or.inr (Or.inr (Or.inr (Or.inr (Or.inl (eKn.1 (Or.inl a)))))))))
      · exact Or.inr (Or.inr (Or.inr (Or.inr (Or.inr (Or.inr (Or.inr (Or.inr (Or.inr (Or.inl (eD.1 (Or.inl a)))))))))))
      · exact Or.inr (Or.inr (Or.inr (Or.inr (Or.inr (Or.inr (Or.inr (Or.inr (Or.inr (Or.inr (Or.inl
          (eO.1 (Or.inl a))))))))))))
      · exact Or.inr (Or.inr (Or.inr (Or.inr (Or.inr (Or.inr (Or.inr (Or.inr (Or.inl (eKg.1 (Or.inl a))))))))))
      · exact Or.inr (Or.inr (Or.inr (Or.inr (Or.inl (e1.1 a)))))
      · exact Or.inr (Or.inr (Or.inr (Or.inr (Or.inr (Or.inl (es.1 a))))))
      · exact Or.inr (Or.inr (Or.inr (Or.inr (Or.inr (Or.inr (Or.inl (ed.1 a)))))))
      · exact Or.inr (Or.inr (Or.inr (Or.inr (Or.inr (Or.inr (Or.inr (Or.inl (eKn.1 (Or.inr a)))))))))
      · exact Or.inr (Or.inr (Or.inr (Or.inr (Or.inr (Or.inr (Or.inr (Or.inr (Or.inr (Or.inl (eD.1 (Or.inr a)))))))))))
      · exact Or.inr (Or.inr (Or.inr (Or.inr (Or.inr (Or.inr (Or.inr (Or.inr (Or.inr (Or.inr (Or.inl
          (eO.1 (Or.inr a))))))))))))
      · exact Or.inr (Or.inr (Or.inr (Or.inr (Or.inr (Or.inr (Or.inr (Or.inr (Or.inl (eKg.1 (Or.inr a))))))))))
      · exact Or.inr (Or.inr (Or.inr (Or.inr (Or.inr (Or.inr (Or.inr (Or.inr (Or.inr (Or.inr (Or.inr
          (eCs.1 a)))))))))))
    · rintro (a | a | a | a | a | a | a | a | a | a | a | a)
      · exact Or.inl (Or.inl (Or.inl (Or.inl (Or.inl (Or.inl (Or.inl (Or.inl (ePC.2 a))))))))
      · exact Or.inl (Or.inl (Or.inl (Or.inl (Or.inl (Or.inl (Or.inl (Or.inr (e2.2 a))))))))
      · exact Or.inl (Or.inl (Or.inl (Or.inl (Or.inl (Or.inl (Or.inr (ePl.2 a)))))))
      · exact Or.inl (Or.inl (Or.inl (Or.inl (Or.inl (Or.inr (ee.2 a))))))
      · exact Or.inr (Or.inl (Or.inl (Or.inl (Or.inl (Or.inl (Or.inl (Or.inl (e1.2 a))))))))
      · exact Or.inr (Or.inl (Or.inl (Or.inl (Or.inl (Or.inl (Or.inl (Or.inr (es.2 a))))))))
      · exact Or.inr (Or.inl (Or.inl (Or.inl (Or.inl (Or.inl (Or.inr (ed.2 a)))))))
      · rcases eKn.2 a with b | b
        · exact Or.inl (Or.inl (Or.inl (Or.inl (Or.inr b))))
        · exact Or.inr (Or.inl (Or.inl (Or.inl (Or.inl (Or.inr b)))))
      · rcases eKg.2 a with b | b
        · exact Or.inl (Or.inr b)
        · exact Or.inr (Or.inl (Or.inr b))
      · rcases eD.2 a with b | b
        · exact Or.inl (Or.inl (Or.inl (Or.inr b)))
        · exact Or.inr (Or.inl (Or.inl (Or.inl (Or.inr b))))
      · rcases eO.2 a with b | b
        · exact Or.inl (Or.inl (Or.inr b))
        · exact Or.inr (Or.inl (Or.inl (Or.inr b)))
      · exact Or.inr (Or.inr (eCs.2 a))

end Tcheran

namespace Tcheran
open Board Geometry Rules

theorem toList_zero : BB.toList 0#64 = [] := by
  unfold BB.toList
  apply List.filter_eq_nil_iff.2
  intro x _
  rw [mem_zero]; simp

theorem flatMap_nil' {α β} (l : List α) (f : α → List β) (h : ∀ x ∈ l, f x = []) : l.flatMap f = [] := by
  induction l with
  | nil => rfl
  | cons x xs ih =>
    rw [List.flatMap_cons, h x List.mem_cons_self, ih (fun y hy => h y (List.mem_cons_of_mem _ hy))]
    rfl

/-- **generate_exact, double check**: only king moves are generated and only king moves are legal -/
theorem generate_gt1 (T : SliderTables) (g : Game) (k : Sq) (h : PosH g k)
    (hn : BB.count (attackersOf g.board g.player k) > 1) :
    ∃ caps cache quiets, generateCaptures g = some (caps, cache) ∧ generateQuiets g cache = some quiets ∧
      ∀ m, m ∈ caps ++ quiets ↔ m ∈ legalMoves (ofGame g) := by
  have hc := h.ctx.cons
  let cache : MovegenCache := { checkers := attackersOf g.board g.player k }
  refine ⟨Gen.kingCaptures g k (g.board.occFor g.player.other), cache, Gen.kingQuiets g k g.board.occupancy, ?_, ?_, ?_⟩
  · unfold generateCaptures
    rw [lsb_king g k h]
    show (if BB.count (attackersOf g.board g.player k) > 1 then _ else _) = _
    rw [if_pos hn]
    rfl
  · unfold generateQuiets
    rw [lsb_king g k h]
    show (if BB.count cache.checkers > 1 then _ else _) = _
    rw [if_pos hn]
    rfl
  · intro m
    -- with two checkers nothing satisfies the check condition: use the empty check mask
    have hcm : ∀ d, mem 0#64 d = true ↔ CheckOK g.board.squares g.player.other k d := by
      intro d
      rw [mem_zero]
      constructor
      · intro e; cases e
      · intro e; exact absurd e (checkOK_many T g.board hc g.player k d hn)
    have ms := maskSpec_of T g k h 0#64 hcm
    generalize (getPins g.board g.player k).1 = op at ms
    generalize (getPins g.board g.player k).2 = dp at ms
    have z : ∀ t, ¬ (mem 0#64 t = true) := fun t e => by rw [mem_zero] at e; cases e
    have eKn := knight_moves_exact g.board g.player k h.ctx 0#64 op dp ms m
    have eKg := king_moves_exact T g hc k (fun s => h.ctx.king s) m
    have eD := slider_moves_exact_gen g.board g.player k h.ctx Dir.diagonal Dir.cardinal .bishop .rook
      (Or.inr ⟨rfl, rfl, rfl, rfl⟩) bishopAttacks (fun s occ => T.bishop s occ) (g.board.diagSliders g.player)
      (fun s => mem_sliders_spec g.board hc g.player .bishop s) 0#64 dp op ms.check ms.diag ms.orth m
    have eO := slider_moves_exact_gen g.board g.player k h.ctx Dir.cardinal Dir.diagonal .rook .bishop
      (Or.inl ⟨rfl, rfl, rfl, rfl⟩) rookAttacks (fun s occ => T.rook s occ) (g.board.orthSliders g.player)
      (fun s => mem_sliders_spec g.board hc g.player .rook s) 0#64 op dp ms.check ms.orth ms.diag m
    obtain ⟨Lep, hLep, sLep⟩ := enPassant_spec T g k h.ctx 0#64 op dp ms h.ep
    have hKn0 : ¬ (m ∈ Gen.knightCaptures (g.board.knightsOf g.player) (g.board.occFor g.player.other) 0#64 op dp ++
        Gen.knightQuiets (g.board.knightsOf g.player) g.board.occupancy 0#64 op dp) := by
      unfold Gen.knightCaptures Gen.knightQuiets
      simp [BitVec.and_zero, BitVec.zero_and, toList_zero]
    have hsl0 : ∀ (att : Sq → BB → BB) (sl th all PS PO : BB),
        ¬ (m ∈ sliderCaps att sl th all 0#64 PS PO ++ sliderQuiets att sl all 0#64 PS PO) := by
      intro att sl th all PS PO
      have hd : ∀ s, sliderDests att s all 0#64 PS = 0#64 := by
        intro s
        unfold sliderDests
        simp only [BitVec.and_zero]
        split
        · exact BitVec.zero_and
        · rfl
      unfold sliderCaps sliderQuiets
      simp [hd, BitVec.zero_and, toList_zero]
    have hep0 : Lep = [] := by
      unfold Gen.pawnEnPassant at hLep
      cases hepv : g.ep with
      | none => rw [hepv] at hLep; exact (Option.some.inj hLep).symm
      | some t =>
        rw [hepv] at hLep
        simp only at hLep
        cases hb : t.backward g.player with
        | none => rw [hb] at hLep; cases hLep
        | some v =>
          rw [hb] at hLep
          have : ¬ ((0#64 &&& (bb t ||| bb v)) ≠ 0#64) := by rw [BitVec.zero_and]; simp
          change (if (0#64 &&& (bb t ||| bb v)) ≠ 0#64 then _ else _) = _ at hLep
          rw [if_neg this] at hLep
          exact (Option.some.inj hLep).symm
    rw [legal_classes, List.mem_append, ← List.mem_append, eKg]
    constructor
    · rintro ⟨a, b⟩
      exact Or.inr (Or.inr (Or.inr (Or.inr (Or.inr (Or.inr (Or.inr (Or.inr (Or.inl
        ⟨k, (h.ctx.king k).2 rfl, a, b⟩))))))))
    · rintro (a | a | a | a | a | a | a | a | a | a | a | a)
      · exfalso
        obtain ⟨s, df, t, hs, hdf, ho, hte, _, ⟨pr, _, e⟩, hl⟩ := a
        rw [e] at hl
        exact z t ((pawn_capture_legal g.board g.player k h.ctx 0#64 op dp ms s t _ df hdf hs ho hte (cp_src _ _ _)
          (cp_dst _ _ _) (cp_flag _ _ _)).1 hl).1
      · exfalso
        obtain ⟨s, t, hs, ho, he, _, ⟨pr, _, e⟩, hl⟩ := a
        rw [e] at hl
        have hf : s.forward g.player = some t := by
          rw [← (Geo.offset_forward s g.player (Geo.mem_players _)).1]; exact ho
        exact z t ((pawn_push_legal g.board g.player k h.ctx 0#64 op dp ms s t _ hs hf he (qp_src _ _ _)
          (qp_dst _ _ _) (qp_flag _ _ _)).1 hl).1
      · exfalso
        obtain ⟨s, df, t, hs, hdf, ho, hte, _, e, hl⟩ := a
        rw [e] at hl
        exact z t ((pawn_capture_legal g.board g.player k h.ctx 0#64 op dp ms s t _ df hdf hs ho hte rfl rfl
          ⟨by simp [Move.capture], by simp [Move.capture]⟩).1 hl).1
      · exfalso
        have := (sLep m).2 a
        rw [hep0] at this; cases this
      · exfalso
        obtain ⟨s, t, hs, ho, he, _, ⟨pr, _, e⟩, hl⟩ := a
        rw [e] at hl
        have hf : s.forward g.player = some t := by
          rw [← (Geo.offset_forward s g.player (Geo.mem_players _)).1]; exact ho
        exact z t ((pawn_push_legal g.board g.player k h.ctx 0#64 op dp ms s t _ hs hf he (qp_src _ _ _)
          (qp_dst _ _ _) (qp_flag _ _ _)).1 hl).1
      · exfalso
        obtain ⟨s, t, hs, ho, he, _, e, hl⟩ := a
        rw [e] at hl
        have hf : s.forward g.player = some t := by
          rw [← (Geo.offset_forward s g.player (Geo.mem_players _)).1]; exact ho
        exact z t ((pawn_push_legal g.board g.player k h.ctx 0#64 op dp ms s t _ hs hf he rfl rfl
          ⟨by simp [Move.quiet], by simp [Move.quiet]⟩).1 hl).1
      · exfalso
        obtain ⟨s, t1, t2, hs, ho1, he1, _, ho2, he2, e, hl⟩ := a
        rw [e] at hl
        have hoo := Geo.offset_forward s g.player (Geo.mem_players _)
        have e1 : s.forward g.player = some t1 := by rw [← hoo.1]; exact ho1
        have e2 : t1.forward g.player = some t2 := by
          have := hoo.2
          rw [ho2, e1] at this
          exact this.symm
        exact z t2 ((pawn_double_legal g.board g.player k h.ctx 0#64 op dp ms s t1 t2 _ hs e1 e2 he1 he2 rfl rfl
          ⟨by simp [Move.quiet], by simp [Move.quiet]⟩).1 hl).1
      · exact absurd (eKn.2 a) hKn0
      · obtain ⟨s, hs, a1, a2⟩ := a
        have := (h.ctx.king s).1 hs
        subst this
        exact ⟨a1, a2⟩
      · exfalso
        have := eD.2 a
        exact hsl0 _ _ _ _ _ _ this
      · exfalso
        have := eO.2 a
        exact hsl0 _ _ _ _ _ _ this
      · exfalso
        obtain ⟨hcs, _⟩ := a
        rw [castleMoves_eq] at hcs
        -- any castling move needs the king unattacked on its home square
        have hnone : ∀ (ks : Sq) (right : Bool) (rf : Sq) (emp path : List Sq) (dst : Sq),
            m ∉ castleMk g.board.squares g.player ks right rf emp path dst := by
          intro ks right rf emp path dst hm
          unfold castleMk at hm
          split at hm
          · rename_i hcond
            simp only [Bool.and_eq_true, beq_iff_eq, Bool.not_eq_true'] at hcond
            obtain ⟨⟨⟨⟨⟨_, hk1⟩, _⟩, _⟩, hna⟩, _⟩ := hcond
            have : ks = k := (h.ctx.king ks).1 hk1
            subst this
            have hz : attackersOf g.board g.player ks = 0#64 := by
              apply Decidable.byContradiction
              intro hne
              rw [(attackersOf_ne_zero T g.board hc g.player ks).1 hne] at hna; cases hna
            rw [hz] at hn
            unfold BB.count at hn
            rw [toList_zero] at hn
            simp at hn
          · cases hm
        simp only [ofGame] at hcs
        cases hp : g.player with
        | white =>
          rw [hp] at hcs hnone
          simp only [List.mem_append] at hcs
          rcases hcs with c | c
          · exact hnone _ _ _ _ _ _ c
          · exact hnone _ _ _ _ _ _ c
        | black =>
          rw [hp] at hcs hnone
          simp only [List.mem_append] at hcs
          rcases hcs with c | c
          · exact hnone _ _ _ _ _ _ c
          · exact hnone _ _ _ _ _ _ c

/-- **generate_exact**: in every position satisfying `PosH` both generator stages answer, and together
they list exactly the rules' legal moves (same squares, same flag) -/
theorem generate_exact (T : SliderTables) (g : Game) (k : Sq) (h : PosH g k) :
    ∃ caps cache quiets, generateCaptures g = some (caps, cache) ∧ generateQuiets g cache = some quiets ∧
      ∀ m, m ∈ caps ++ quiets ↔ m ∈ legalMoves (ofGame g) := by
  by_cases hn : BB.count (attackersOf g.board g.player k) > 1
  · exact generate_gt1 T g k h hn
  · exact generate_le1 T g k h hn

end Tcheran
