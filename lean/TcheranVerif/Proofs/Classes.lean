import TcheranVerif.Proofs.PlainMove
/-!
# Per-class exactness of the generator: knights and sliders (C01)
-/

namespace Tcheran
open Board Geometry Rules

/-- what the shared cache of `generate_captures` means (at most one checker) -/
structure MaskSpec (bd : Board) (p : Player) (k : Sq) (checkMask orthPins diagPins : BB) : Prop where
  check : ∀ d, mem checkMask d = true ↔ CheckOK bd.squares p.other k d
  orth : ∀ x, mem orthPins x = true ↔ ∃ q, SliderGeo bd.squares p.other .rook Dir.cardinal k q ∧
    XR bd.squares p k q ∧ (x = q ∨ x ∈ betweenList k q)
  diag : ∀ x, mem diagPins x = true ↔ ∃ q, SliderGeo bd.squares p.other .bishop Dir.diagonal k q ∧
    XR bd.squares p k q ∧ (x = q ∨ x ∈ betweenList k q)

theorem getPins_orth (T : SliderTables) (bd : Board) (hc : Consistent bd) (p : Player) (k x : Sq) :
    mem (getPins bd p k).1 x = true ↔ ∃ q, SliderGeo bd.squares p.other .rook Dir.cardinal k q ∧
      XR bd.squares p k q ∧ (x = q ∨ x ∈ betweenList k q) := by
  refine pins_family bd hc p k Dir.cardinal cardinal_sub .rook rookAttacks (fun s occ => T.rook s occ)
    (bd.orthSliders p.other) ?_ x
  intro q
  unfold orthSliders rooksOf queensOf
  rw [mem_or, Bool.or_eq_true, show bd.rooks = bd.byKind .rook from rfl,
    show bd.queens = bd.byKind .queen from rfl, mem_kindOf bd hc, mem_kindOf bd hc]

theorem getPins_diag (T : SliderTables) (bd : Board) (hc : Consistent bd) (p : Player) (k x : Sq) :
    mem (getPins bd p k).2 x = true ↔ ∃ q, SliderGeo bd.squares p.other .bishop Dir.diagonal k q ∧
      XR bd.squares p k q ∧ (x = q ∨ x ∈ betweenList k q) := by
  refine pins_family bd hc p k Dir.diagonal diagonal_sub .bishop bishopAttacks (fun s occ => T.bishop s occ)
    (bd.diagSliders p.other) ?_ x
  intro q
  unfold diagSliders bishopsOf queensOf
  rw [mem_or, Bool.or_eq_true, show bd.bishops = bd.byKind .bishop from rfl,
    show bd.queens = bd.byKind .queen from rfl, mem_kindOf bd hc, mem_kindOf bd hc]

/-! ### membership helpers -/

theorem mem_theirs (bd : Board) (hc : Consistent bd) (p : Player) (t : Sq) :
    mem (bd.occFor p.other) t = true ↔ ∃ pc, at' bd.squares t = some pc ∧ pc.player ≠ p := by
  rw [hc.2 p.other t]
  show _ ↔ ∃ pc, bd.pieceAt t = some pc ∧ pc.player ≠ p
  cases h : bd.pieceAt t with
  | none => simp
  | some pc =>
    obtain ⟨kk, pl⟩ := pc
    cases pl <;> cases p <;> simp [Player.other]

theorem mem_empty (bd : Board) (hc : Consistent bd) (t : Sq) :
    mem (~~~bd.occupancy) t = true ↔ at' bd.squares t = none := by
  rw [mem_not, mem_occupancy bd hc t]
  unfold occOf
  cases at' bd.squares t <;> simp

/-- the common setting of the class theorems -/
structure Ctx (bd : Board) (p : Player) (k : Sq) : Prop where
  cons : Consistent bd
  king : ∀ s, at' bd.squares s = some ⟨.king, p⟩ ↔ s = k

theorem Ctx.king_occ {bd : Board} {p : Player} {k : Sq} (c : Ctx bd p k) : occOf bd.squares k = true := by
  unfold occOf; rw [(c.king k).2 rfl]; rfl

/-- a square that is empty or holds an enemy man is not the king square -/
theorem Ctx.dst_ne_king {bd : Board} {p : Player} {k : Sq} (c : Ctx bd p k) (t : Sq)
    (h : at' bd.squares t = none ∨ ∃ pc, at' bd.squares t = some pc ∧ pc.player ≠ p) : t ≠ k := by
  intro e
  subst e
  rw [(c.king t).2 rfl] at h
  rcases h with h | ⟨pc, h, hp⟩
  · cases h
  · have := Option.some.inj h
    subst this
    exact hp rfl

/-! ### knights -/

theorem knight_moves_exact (bd : Board) (p : Player) (k : Sq) (c : Ctx bd p k) (cm op dp : BB)
    (ms : MaskSpec bd p k cm op dp) (m : Move) :
    (m ∈ Gen.knightCaptures (bd.knightsOf p) (bd.occFor p.other) cm op dp ++
         Gen.knightQuiets (bd.knightsOf p) bd.occupancy cm op dp) ↔
    ∃ s, at' bd.squares s = some ⟨.knight, p⟩ ∧ m ∈ stepMoves bd.squares p s knightDeltas ∧
      inCheck (applyBoard bd.squares p m) p = false := by
  have hc := c.cons
  have hknight : ∀ s, mem (bd.knightsOf p) s = true ↔ at' bd.squares s = some ⟨.knight, p⟩ := fun s =>
    mem_kindOf bd hc .knight p s
  -- legality of one knight step
  have hlegal : ∀ (s t : Sq) (δ : Int × Int) (m : Move), at' bd.squares s = some ⟨.knight, p⟩ →
      δ ∈ knightDeltas → offset s δ.1 δ.2 = some t →
      (at' bd.squares t = none ∨ ∃ pc, at' bd.squares t = some pc ∧ pc.player ≠ p) →
      (m = Move.quiet s t ∨ m = Move.capture s t) →
      (inCheck (applyBoard bd.squares p m) p = false ↔
        (mem cm t = true ∧ mem (op ||| dp) s = false)) := by
    intro s t δ m hs hδ ho hte hm
    have hsrc : m.src = s := by rcases hm with e | e <;> rw [e] <;> rfl
    have hdst : m.dst = t := by rcases hm with e | e <;> rw [e] <;> rfl
    have hfl : m.flag ≠ .enPassant ∧ m.flag ≠ .castle := by
      rcases hm with e | e <;> rw [e] <;> exact ⟨by simp [Move.quiet, Move.capture], by simp [Move.quiet, Move.capture]⟩
    have hst : s ≠ t := fun e => knight_offset_ne s δ hδ (e ▸ ho)
    rw [plain_move_legal bd.squares p k c.king m ⟨.knight, p⟩ (hsrc ▸ hs) rfl (by simp) hfl
      (hdst ▸ c.dst_ne_king t hte) (by rw [hsrc, hdst]; exact hst), hsrc, hdst, ← ms.check t,
      pin_knight bd.squares p k s t ⟨_, hs, rfl⟩ dp op ms.diag ms.orth δ hδ ho, mem_or]
    constructor
    · rintro ⟨a, b1, b2⟩; exact ⟨a, by rw [b1, b2]; rfl⟩
    · rintro ⟨a, b⟩
      refine ⟨a, ?_, ?_⟩
      · cases h1 : mem op s with
        | false => rfl
        | true => rw [h1] at b; simp at b
      · cases h2 : mem dp s with
        | false => rfl
        | true => rw [h2] at b; simp at b
  rw [List.mem_append]
  unfold Gen.knightCaptures Gen.knightQuiets
  simp only [List.mem_flatMap, List.mem_map, mem_toList, mem_and, mem_not, Bool.and_eq_true, mem_knightAttacks,
    Bool.not_eq_true']
  constructor
  · rintro (⟨s, ⟨hs, hp⟩, t, ⟨⟨⟨δ, hδ, ho⟩, hcm⟩, hth⟩, hm⟩ | ⟨s, ⟨hs, hp⟩, t, ⟨⟨⟨δ, hδ, ho⟩, hcm⟩, hemp⟩, hm⟩)
    · have hs' := (hknight s).1 hs
      obtain ⟨pc, hpc, hpl⟩ := (mem_theirs bd hc p t).1 hth
      refine ⟨s, hs', (mem_stepMoves _ _ _ _ _).2 ⟨δ, hδ, t, ho, Or.inr ⟨pc, hpc, hpl, hm.symm⟩⟩, ?_⟩
      exact (hlegal s t δ m hs' hδ ho (Or.inr ⟨pc, hpc, hpl⟩) (Or.inr hm.symm)).2 ⟨hcm, hp⟩
    · have hs' := (hknight s).1 hs
      have he : at' bd.squares t = none := (mem_empty bd hc t).1 (by rw [mem_not]; exact hemp ▸ rfl)
      refine ⟨s, hs', (mem_stepMoves _ _ _ _ _).2 ⟨δ, hδ, t, ho, Or.inl ⟨he, hm.symm⟩⟩, ?_⟩
      exact (hlegal s t δ m hs' hδ ho (Or.inl he) (Or.inl hm.symm)).2 ⟨hcm, hp⟩
  · rintro ⟨s, hs, hstep, hl⟩
    obtain ⟨δ, hδ, t, ho, h⟩ := (mem_stepMoves _ _ _ _ _).1 hstep
    rcases h with ⟨he, hm⟩ | ⟨pc, hpc, hpl, hm⟩
    · right
      obtain ⟨a, b⟩ := (hlegal s t δ m hs hδ ho (Or.inl he) (Or.inl hm)).1 hl
      refine ⟨s, ⟨(hknight s).2 hs, b⟩, t, ⟨⟨⟨δ, hδ, ho⟩, a⟩, ?_⟩, hm.symm⟩
      have := (mem_empty bd hc t).2 he
      rw [mem_not] at this
      simpa using this
    · left
      obtain ⟨a, b⟩ := (hlegal s t δ m hs hδ ho (Or.inr ⟨pc, hpc, hpl⟩) (Or.inr hm)).1 hl
      exact ⟨s, ⟨(hknight s).2 hs, b⟩, t, ⟨⟨⟨δ, hδ, ho⟩, a⟩, (mem_theirs bd hc p t).2 ⟨pc, hpc, hpl⟩⟩, hm.symm⟩

end Tcheran
