import TcheranVerif.Proofs.SearchSound
import TcheranVerif.Proofs.MenCount
/-!
# What holds at every position a search can reach (C04, with C02 / C15 / C16)

`ReachN root` (legal moves and null moves out of check, any depth) contains every position the search model
visits.  `reach_facts`: from a legal root whose key and accumulators are in step, every such position keeps
consistent views, the game invariant, key and accumulators in step, and at most sixteen men a side.  Hence at
every node: the static evaluation is total and strictly inside the non-mate range (`reach_eval`: the panic
sites "eval", the out-of-range table indices and the `i16` narrowing cannot fire), the reverse-futility and
futility margins do not overflow, the king is found, and `make_move` answers for every legal move.
-/

namespace Tcheran
namespace Search
open Board Game Rules

structure NodeOk (g : Game) : Prop where
  sinv : SInv g
  sync : Sync theCfg g
  white : count (ofGame g).board (ofColour .white) ≤ 16
  black : count (ofGame g).board (ofColour .black) ≤ 16

theorem nodeOk_of_legal (g : Game) (hs : Sync theCfg g) (hl : legalPos (ofGame g) = true) : NodeOk g := by
  refine ⟨⟨hs.cons, ginv_of_legal _ hl⟩, hs, ?_, ?_⟩
  all_goals
    unfold legalPos at hl
    simp only [Bool.and_eq_true] at hl
    obtain ⟨⟨⟨⟨⟨⟨⟨⟨_, _⟩, _⟩, _⟩, _⟩, hmw⟩, hmb⟩, _⟩, _⟩ := hl
    simp only [Bool.and_eq_true, decide_eq_true_eq] at hmw hmb
  · exact hmw.1
  · exact hmb.1

theorem nodeOk_make (g g' : Game) (m : Move) (h : NodeOk g) (hl : m ∈ legalMoves (ofGame g))
    (hm : makeMove theCfg g m = some g') : NodeOk g' := by
  obtain ⟨hs', hr⟩ := sinv_make g g' m h.sinv hl hm
  refine ⟨hs', sync_makeMove theCfg g g' m h.sync hm (castle_hyp_of_legal g m hl), ?_, ?_⟩
  · rw [hr]; exact Nat.le_trans (men_apply _ m hl .white) h.white
  · rw [hr]; exact Nat.le_trans (men_apply _ m hl .black) h.black

theorem nodeOk_null (g : Game) (h : NodeOk g) (hc : inCheck g.board.squares g.player = false) :
    NodeOk (makeNull theCfg g) :=
  ⟨sinv_null g h.sinv hc, sync_makeNull theCfg g h.sync, h.white, h.black⟩

/-- **reach_facts** -/
theorem reach_facts (root : Game) (h : NodeOk root) : ∀ n g, ReachN root n g → NodeOk g := by
  intro n g hr
  induction hr with
  | root => exact h
  | move n g g' m _ hl hm ih => exact nodeOk_make g g' m ih hl hm
  | null n g _ hc ih => exact nodeOk_null g ih hc

open Eval in
/-- the evaluation at a node that satisfies `NodeOk` -/
theorem nodeOk_eval (T : SliderTables) (g : Game) (h : NodeOk g) :
    ∃ v, Eval.eval g = some v ∧ -31900 < v ∧ v < 31900 := by
  have hKw := king_cnt (ofGame g) g.board rfl h.sinv.2 .white
  have hKb := king_cnt (ofGame g) g.board rfl h.sinv.2 .black
  have hW := cnt_player g.board .white Eval.sqs
  have hB := cnt_player g.board .black Eval.sqs
  have hw' : cnt g.board (fun pc => pc.player == .white) Eval.sqs ≤ 16 := h.white
  have hb' : cnt g.board (fun pc => pc.player == .black) Eval.sqs ≤ 16 := h.black
  obtain ⟨v, hv, b1, b2⟩ := eval_total_bounded T g h.sync.cons h.sync.inc hKw hKb (by omega) (by omega)
  exact ⟨v, hv, by omega, by omega⟩

/-- **reach_eval**: no evaluation panic, and a value outside the mate range, at every position a search from
a legal root can reach -/
theorem reach_eval (T : SliderTables) (root : Game) (hs : Sync theCfg root) (hl : legalPos (ofGame root) = true)
    (n : Nat) (g : Game) (hr : ReachN root n g) :
    ∃ v, Eval.eval g = some v ∧ -31900 < v ∧ v < 31900 ∧ isMateInMoves v = none :=  by
  obtain ⟨v, hv, b1, b2⟩ := nodeOk_eval T g (reach_facts root (nodeOk_of_legal root hs hl) n g hr)
  refine ⟨v, hv, b1, b2, ?_⟩
  unfold isMateInMoves
  have e1 : Gen.mateThreshold = 31900 := by decide
  rw [e1, if_neg (by omega), if_neg (by omega)]

end Search
end Tcheran
