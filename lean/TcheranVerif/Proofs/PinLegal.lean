import TcheranVerif.Proofs.PinSpec
/-!
# Legality of a plain move in terms of checkers and pins (C01)
-/

namespace Tcheran
open Board Geometry Rules

/-- nothing but (possibly) `s` stands between `k` and `q` -/
def Through (b : RBoard) (s k q : Sq) : Prop := ∀ y ∈ betweenList k q, y = s ∨ occOf b y = false

/-- every enemy man that would attack `k` with `s` lifted is captured on `d` or blocked by `d` -/
def PinOK (b : RBoard) (o : Player) (k s d : Sq) : Prop :=
  ∀ q, Geo b o q k → s ∈ betweenList k q → Through b s k q → (q = d ∨ d ∈ betweenList k q)

/-- every checker is captured on `d` or blocked by `d` -/
def CheckOK (b : RBoard) (o : Player) (k d : Sq) : Prop :=
  ∀ c, AttacksFrom b o c k → (c = d ∨ d ∈ betweenList k c)

instance (l : List Sq) (x : Sq) : Decidable (x ∈ l) := inferInstance

/-- **plain_legal_iff** -/
theorem plain_legal_iff (b b' : RBoard) (p : Player) (k s d : Sq) (h : PlainStep b b' p s d)
    (hsk : s ≠ k) (hdk : d ≠ k) :
    attacked b' p.other k = false ↔ (CheckOK b p.other k d ∧ PinOK b p.other k s d) := by
  have key := plain_attacked_iff b b' p k s d h hsk hdk
  constructor
  · intro hf
    have hn : ¬ ∃ q, Geo b p.other q k ∧ q ≠ d ∧ d ∉ betweenList k q ∧
        ∀ x ∈ betweenList k q, x = s ∨ occOf b x = false := by
      intro he; rw [key.2 he] at hf; cases hf
    constructor
    · intro c hc
      obtain ⟨hg, he⟩ := (attacksFrom_iff_geo b p.other c k).1 hc
      by_cases h1 : c = d
      · exact Or.inl h1
      · by_cases h2 : d ∈ betweenList k c
        · exact Or.inr h2
        · exact absurd ⟨c, hg, h1, h2, fun x hx => Or.inr (he x hx)⟩ hn
    · intro q hg _ ht
      by_cases h1 : q = d
      · exact Or.inl h1
      · by_cases h2 : d ∈ betweenList k q
        · exact Or.inr h2
        · exact absurd ⟨q, hg, h1, h2, ht⟩ hn
  · rintro ⟨hck, hpin⟩
    cases ha : attacked b' p.other k with
    | false => rfl
    | true =>
      exfalso
      obtain ⟨q, hg, h1, h2, ht⟩ := key.1 ha
      by_cases hs : s ∈ betweenList k q
      · rcases hpin q hg hs ht with e | e
        · exact h1 e
        · exact h2 e
      · have hall : ∀ x ∈ betweenList k q, occOf b x = false := by
          intro x hx
          rcases ht x hx with e | e
          · exact absurd (e ▸ hx) hs
          · exact e
        rcases hck q ((attacksFrom_iff_geo b p.other q k).2 ⟨hg, hall⟩) with e | e
        · exact h1 e
        · exact h2 e

/-! ### the shape of `Geo` -/

theorem geo_cases (b : RBoard) (o : Player) (q k : Sq) (h : Geo b o q k) :
    betweenList k q = [] ∨ SliderGeo b o .bishop Dir.diagonal k q ∨ SliderGeo b o .rook Dir.cardinal k q := by
  obtain ⟨kk, a, h⟩ := h
  rcases h with ⟨_, h⟩ | ⟨_, d, hd, h⟩ | ⟨_, d, hd, h⟩ | ⟨hk, h⟩ | ⟨hk, h⟩
  · left
    rcases h with h | h
    · exact bl_of_king_delta k q (-1, -(fwd o)) (pawn_delta_king o (by cases o <;> simp) (-1) (by simp)) h
    · exact bl_of_king_delta k q (1, -(fwd o)) (pawn_delta_king o (by cases o <;> simp) 1 (by simp)) h
  · exact Or.inl (bl_of_knight_delta k q d hd h)
  · exact Or.inl (bl_of_king_delta k q d hd h)
  · right; left
    refine ⟨?_, h⟩
    rcases hk with e | e <;> subst e
    · exact Or.inl a
    · exact Or.inr a
  · right; right
    refine ⟨?_, h⟩
    rcases hk with e | e <;> subst e
    · exact Or.inl a
    · exact Or.inr a

theorem geo_of_diag (b : RBoard) (o : Player) (q k : Sq) (h : SliderGeo b o .bishop Dir.diagonal k q) :
    Geo b o q k := by
  obtain ⟨a | a, h⟩ := h
  · exact ⟨_, a, Or.inr (Or.inr (Or.inr (Or.inl ⟨Or.inl rfl, h⟩)))⟩
  · exact ⟨_, a, Or.inr (Or.inr (Or.inr (Or.inl ⟨Or.inr rfl, h⟩)))⟩

theorem geo_of_orth (b : RBoard) (o : Player) (q k : Sq) (h : SliderGeo b o .rook Dir.cardinal k q) :
    Geo b o q k := by
  obtain ⟨a | a, h⟩ := h
  · exact ⟨_, a, Or.inr (Or.inr (Or.inr (Or.inr ⟨Or.inl rfl, h⟩)))⟩
  · exact ⟨_, a, Or.inr (Or.inr (Or.inr (Or.inr ⟨Or.inr rfl, h⟩)))⟩

theorem sliderGeo_enemy {b : RBoard} {o : Player} {k1 : PieceKind} {F : List Dir} {k q : Sq}
    (h : SliderGeo b o k1 F k q) : ∃ Y, at' b q = some Y ∧ Y.player = o := by
  obtain ⟨a | a, _⟩ := h
  · exact ⟨_, a, rfl⟩
  · exact ⟨_, a, rfl⟩

theorem own_ne_enemy {b : RBoard} {p : Player} {s q : Sq} (hs : ∃ X, at' b s = some X ∧ X.player = p)
    (hq : ∃ Y, at' b q = some Y ∧ Y.player = p.other) : s ≠ q := by
  intro e
  subst e
  obtain ⟨X, hX, hXp⟩ := hs
  obtain ⟨Y, hY, hYp⟩ := hq
  rw [hX] at hY
  have := Option.some.inj hY
  subst this
  rw [hXp] at hYp
  cases p <;> simp [Player.other] at hYp

theorem occ_of_piece {b : RBoard} {s : Sq} {p : Player} (hs : ∃ X, at' b s = some X ∧ X.player = p) :
    occOf b s = true := by
  obtain ⟨X, hX, _⟩ := hs
  unfold occOf; rw [hX]; rfl

/-- with an own man on `s` between, the x-ray condition is "nothing but `s`" -/
theorem through_of_xr {b : RBoard} {p : Player} {k q s : Sq} (hs : ∃ X, at' b s = some X ∧ X.player = p)
    (hm : s ∈ betweenList k q) (hx : XR b p k q) : Through b s k q := by
  rcases hx with hx | ⟨s', hs', _, hx⟩
  · have := hx s hm
    rw [occ_of_piece hs] at this; cases this
  · intro y hy
    rcases hx s hm with e | e
    · subst e; exact hx y hy
    · rw [occ_of_piece hs] at e; cases e

theorem xr_of_through {b : RBoard} {p : Player} {k q s : Sq} (hs : ∃ X, at' b s = some X ∧ X.player = p)
    (hm : s ∈ betweenList k q) (ht : Through b s k q) : XR b p k q :=
  Or.inr ⟨s, hm, hs, ht⟩

/-- **pin_generic**: a move along a direction of family `F` satisfies the pin condition iff the mover is
not in the pin mask of the other family and, when in the mask of `F`, stays in it -/
theorem pin_generic (b : RBoard) (p : Player) (k s d : Sq) (hking : occOf b k = true)
    (hsown : ∃ X, at' b s = some X ∧ X.player = p)
    (F Fo : List Dir) (kF kFo : PieceKind)
    (hfam : (F = Dir.cardinal ∧ Fo = Dir.diagonal ∧ kF = .rook ∧ kFo = .bishop) ∨
            (F = Dir.diagonal ∧ Fo = Dir.cardinal ∧ kF = .bishop ∧ kFo = .rook))
    (PS PO : BB)
    (hPS : ∀ x, mem PS x = true ↔ ∃ q, SliderGeo b p.other kF F k q ∧ XR b p k q ∧ (x = q ∨ x ∈ betweenList k q))
    (hPO : ∀ x, mem PO x = true ↔ ∃ q, SliderGeo b p.other kFo Fo k q ∧ XR b p k q ∧ (x = q ∨ x ∈ betweenList k q))
    (dir2 : Dir) (hdir2 : dir2 ∈ F) (hd : d ∈ ray dir2 s) (hpath : ∀ x ∈ betweenList s d, occOf b x = false) :
    PinOK b p.other k s d ↔ (mem PO s = false ∧ (mem PS s = true → mem PS d = true)) := by
  have hFsub : ∀ x ∈ F, x ∈ Dir.all := by
    rcases hfam with ⟨e, _⟩ | ⟨e, _⟩ <;> rw [e]
    · exact cardinal_sub
    · exact diagonal_sub
  have hFosub : ∀ x ∈ Fo, x ∈ Dir.all := by
    rcases hfam with ⟨_, e, _⟩ | ⟨_, e, _⟩ <;> rw [e]
    · exact diagonal_sub
    · exact cardinal_sub
  have hFF : F = Dir.cardinal ∨ F = Dir.diagonal := by
    rcases hfam with ⟨e, _⟩ | ⟨e, _⟩
    · exact Or.inl e
    · exact Or.inr e
  have geoS : ∀ q, SliderGeo b p.other kF F k q → Geo b p.other q k := by
    intro q hq
    rcases hfam with ⟨e1, _, e3, _⟩ | ⟨e1, _, e3, _⟩
    · subst e1; subst e3; exact geo_of_orth b _ q k hq
    · subst e1; subst e3; exact geo_of_diag b _ q k hq
  have geoO : ∀ q, SliderGeo b p.other kFo Fo k q → Geo b p.other q k := by
    intro q hq
    rcases hfam with ⟨_, e2, _, e4⟩ | ⟨_, e2, _, e4⟩
    · subst e2; subst e4; exact geo_of_diag b _ q k hq
    · subst e2; subst e4; exact geo_of_orth b _ q k hq
  have geoSplit : ∀ q, Geo b p.other q k → betweenList k q = [] ∨ SliderGeo b p.other kF F k q ∨
      SliderGeo b p.other kFo Fo k q := by
    intro q hq
    rcases geo_cases b _ q k hq with h | h | h
    · exact Or.inl h
    · rcases hfam with ⟨e1, e2, e3, e4⟩ | ⟨e1, e2, e3, e4⟩
      · subst e2; subst e4; exact Or.inr (Or.inr h)
      · subst e1; subst e3; exact Or.inr (Or.inl h)
    · rcases hfam with ⟨e1, e2, e3, e4⟩ | ⟨e1, e2, e3, e4⟩
      · subst e1; subst e3; exact Or.inr (Or.inl h)
      · subst e2; subst e4; exact Or.inr (Or.inr h)
  constructor
  · intro hpin
    constructor
    · cases hm : mem PO s with
      | false => rfl
      | true =>
        exfalso
        obtain ⟨q, hq, hx, hsq⟩ := (hPO s).1 hm
        have hne := own_ne_enemy hsown (sliderGeo_enemy hq)
        have hsb : s ∈ betweenList k q := by
          rcases hsq with e | e
          · exact absurd e hne
          · exact e
        obtain ⟨_, dirO, hdO, hqO⟩ := hq
        have hdOa := hFosub dirO hdO
        have hdr : d ∈ ray dirO k := by
          rcases hpin q (geoO q ⟨by assumption, dirO, hdO, hqO⟩) hsb (through_of_xr hsown hsb hx) with e | e
          · rw [← e]; exact hqO
          · exact bl_same_ray hdOa hqO e
        have hsr : s ∈ ray dirO k := bl_same_ray hdOa hqO hsb
        have hiff := Geo.same_ray_family k dirO hdOa s hsr d hdr dir2 (hFsub dir2 hdir2) hd
        rcases hfam with ⟨e1, e2, _, _⟩ | ⟨e1, e2, _, _⟩
        · subst e1; subst e2
          have := hiff.1 hdir2
          rcases Geo.dir_family dirO hdOa with ⟨_, c⟩ | ⟨_, c⟩
          · exact c hdO
          · exact c this
        · subst e1; subst e2
          have := hiff.2 hdO
          rcases Geo.dir_family dir2 (hFsub dir2 hdir2) with ⟨_, c⟩ | ⟨_, c⟩
          · exact c hdir2
          · exact c this
    · intro hm
      obtain ⟨q, hq, hx, hsq⟩ := (hPS s).1 hm
      have hne := own_ne_enemy hsown (sliderGeo_enemy hq)
      have hsb : s ∈ betweenList k q := by
        rcases hsq with e | e
        · exact absurd e hne
        · exact e
      exact (hPS d).2 ⟨q, hq, hx, by
        rcases hpin q (geoS q hq) hsb (through_of_xr hsown hsb hx) with e | e
        · exact Or.inl e.symm
        · exact Or.inr e⟩
  · rintro ⟨hno, himp⟩ q hg hsb ht
    rcases geoSplit q hg with h0 | hq | hq
    · rw [h0] at hsb; cases hsb
    · -- same family
      have hxr := xr_of_through hsown hsb ht
      have hmS : mem PS s = true := (hPS s).2 ⟨q, hq, hxr, Or.inr hsb⟩
      obtain ⟨q', hq', hx', hdq'⟩ := (hPS d).1 (himp hmS)
      obtain ⟨hqk, dir, hdF, hqr⟩ := hq
      obtain ⟨hqk', dir', hdF', hqr'⟩ := hq'
      have hda := hFsub dir hdF
      have hda' := hFsub dir' hdF'
      have hsr : s ∈ ray dir k := bl_same_ray hda hqr hsb
      have hdr' : d ∈ ray dir' k := by
        rcases hdq' with e | e
        · rw [e]; exact hqr'
        · exact bl_same_ray hda' hqr' e
      by_cases hdd : dir = dir'
      · subst hdd
        have hqq : q' = q := by
          apply Decidable.byContradiction
          intro hne
          have hqe : ∃ Y, at' b q = some Y ∧ Y.player = p.other := sliderGeo_enemy ⟨hqk, dir, hdF, hqr⟩
          have hqe' : ∃ Y, at' b q' = some Y ∧ Y.player = p.other := sliderGeo_enemy ⟨hqk', dir, hdF', hqr'⟩
          rcases bl_total hda hqr' hqr hne with h1 | h1
          · -- q' between k and q
            rcases ht q' h1 with e | e
            · exact own_ne_enemy hsown hqe' e.symm
            · rw [occ_of_piece hqe'] at e; cases e
          · -- q between k and q'
            rcases hx' with hx' | ⟨s', _, hs'own, hx'⟩
            · have := hx' q h1
              rw [occ_of_piece hqe] at this; cases this
            · rcases hx' q h1 with e | e
              · exact own_ne_enemy hs'own hqe e.symm
              · rw [occ_of_piece hqe] at e; cases e
        rw [hqq] at hdq'
        exact hdq'.imp Eq.symm id
      · exfalso
        have := Geo.cross_ray k F hFF dir dir' hdF hdF' hdd s hsr dir2 hdir2 d hd hdr'
        rw [hpath k this] at hking; cases hking
    · -- other family: then `s` would be in the other mask
      exfalso
      have hxr := xr_of_through hsown hsb ht
      rw [(hPO s).2 ⟨q, hq, hxr, Or.inr hsb⟩] at hno
      cases hno

/-- **pin_knight**: a knight satisfies the pin condition iff it is in neither mask -/
theorem pin_knight (b : RBoard) (p : Player) (k s d : Sq)
    (hsown : ∃ X, at' b s = some X ∧ X.player = p) (PD PR : BB)
    (hPD : ∀ x, mem PD x = true ↔ ∃ q, SliderGeo b p.other .bishop Dir.diagonal k q ∧ XR b p k q ∧
      (x = q ∨ x ∈ betweenList k q))
    (hPR : ∀ x, mem PR x = true ↔ ∃ q, SliderGeo b p.other .rook Dir.cardinal k q ∧ XR b p k q ∧
      (x = q ∨ x ∈ betweenList k q))
    (δ : Int × Int) (hδ : δ ∈ knightDeltas) (ho : offset s δ.1 δ.2 = some d) :
    PinOK b p.other k s d ↔ (mem PR s = false ∧ mem PD s = false) := by
  have hcontra : ∀ (F : List Dir) (k1 : PieceKind) (q : Sq), (∀ x ∈ F, x ∈ Dir.all) →
      SliderGeo b p.other k1 F k q → s ∈ betweenList k q → (q = d ∨ d ∈ betweenList k q) → False := by
    intro F k1 q hsub hq hsb hdq
    obtain ⟨_, dir, hdF, hqr⟩ := hq
    have hda := hsub dir hdF
    have hsr := bl_same_ray hda hqr hsb
    have hdr : d ∈ ray dir k := by
      rcases hdq with e | e
      · rw [← e]; exact hqr
      · exact bl_same_ray hda hqr e
    exact Geo.same_ray_no_knight k dir hda s hsr δ hδ d ho hdr
  constructor
  · intro hpin
    constructor
    · cases hm : mem PR s with
      | false => rfl
      | true =>
        exfalso
        obtain ⟨q, hq, hx, hsq⟩ := (hPR s).1 hm
        have hsb : s ∈ betweenList k q := by
          rcases hsq with e | e
          · exact absurd e (own_ne_enemy hsown (sliderGeo_enemy hq))
          · exact e
        exact hcontra _ _ q cardinal_sub hq hsb
          (hpin q (geo_of_orth b _ q k hq) hsb (through_of_xr hsown hsb hx))
    · cases hm : mem PD s with
      | false => rfl
      | true =>
        exfalso
        obtain ⟨q, hq, hx, hsq⟩ := (hPD s).1 hm
        have hsb : s ∈ betweenList k q := by
          rcases hsq with e | e
          · exact absurd e (own_ne_enemy hsown (sliderGeo_enemy hq))
          · exact e
        exact hcontra _ _ q diagonal_sub hq hsb
          (hpin q (geo_of_diag b _ q k hq) hsb (through_of_xr hsown hsb hx))
  · rintro ⟨h1, h2⟩ q hg hsb ht
    exfalso
    have hxr := xr_of_through hsown hsb ht
    rcases geo_cases b _ q k hg with h0 | hq | hq
    · rw [h0] at hsb; cases hsb
    · rw [(hPD s).2 ⟨q, hq, hxr, Or.inr hsb⟩] at h2; cases h2
    · rw [(hPR s).2 ⟨q, hq, hxr, Or.inr hsb⟩] at h1; cases h1

end Tcheran
