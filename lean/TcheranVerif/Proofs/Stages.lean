import TcheranVerif.Proofs.GenerateExact
import TcheranVerif.Proofs.NodupBasics
import TcheranVerif.Proofs.Geo.F
/-!
# No move is generated twice (C01)

Each stage of the generator is duplicate-free by construction (nested iteration over bitboards, the
source and destination squares are read back from the move), and the stages are told apart by the kind
of the man on the source square, the flag and the shape of the move.
-/

namespace Tcheran
open Board Geometry Rules

def stageCode : Option PieceKind → MoveFlag → Bool → Nat → Nat
  | _, .castle, _, _ => 16
  | _, .enPassant, _, _ => 4
  | some .pawn, .capPromoB, _, _ => 1
  | some .pawn, .capPromoN, _, _ => 1
  | some .pawn, .capPromoR, _, _ => 1
  | some .pawn, .capPromoQ, _, _ => 1
  | some .pawn, .promoQ, _, _ => 2
  | some .pawn, .promoB, _, _ => 9
  | some .pawn, .promoN, _, _ => 9
  | some .pawn, .promoR, _, _ => 9
  | some .pawn, .capture, _, _ => 3
  | some .pawn, .quiet, _, 1 => 10
  | some .pawn, .quiet, _, _ => 11
  | some .knight, .capture, _, _ => 5
  | some .knight, .quiet, _, _ => 12
  | some .king, .capture, _, _ => 8
  | some .king, .quiet, _, _ => 15
  | _, .capture, true, _ => 6
  | _, .capture, false, _ => 7
  | _, .quiet, true, _ => 13
  | _, .quiet, false, _ => 14
  | _, _, _, _ => 0

/-- the stage of the generator a move belongs to -/
def stage (b : RBoard) (m : Move) : Nat :=
  stageCode ((at' b m.src).map (·.kind)) m.flag (Geo.diagMove m.src m.dst) (Geo.rankDist m.src m.dst)

/-! ### stages that are two nested loops -/

theorem knightCaps_nodup (kn th cm op dp : BB) : (Gen.knightCaptures kn th cm op dp).Nodup :=
  nodup_sq_sq _ _ Move.capture (fun _ _ => rfl) (fun _ _ => rfl)
theorem knightQuiets_nodup (kn all cm op dp : BB) : (Gen.knightQuiets kn all cm op dp).Nodup :=
  nodup_sq_sq _ _ Move.quiet (fun _ _ => rfl) (fun _ _ => rfl)
theorem sliderCaps_nodup (att : Sq → BB → BB) (sl th all cm PS PO : BB) : (sliderCaps att sl th all cm PS PO).Nodup :=
  nodup_sq_sq _ _ Move.capture (fun _ _ => rfl) (fun _ _ => rfl)
theorem sliderQuiets_nodup (att : Sq → BB → BB) (sl all cm PS PO : BB) : (sliderQuiets att sl all cm PS PO).Nodup :=
  nodup_sq_sq _ _ Move.quiet (fun _ _ => rfl) (fun _ _ => rfl)
theorem plainCaps_nodup (p : Player) (pawns th cm op dp : BB) : (Gen.pawnPlainCaptures p pawns th cm op dp).Nodup :=
  nodup_sq_sq _ _ Move.capture (fun _ _ => rfl) (fun _ _ => rfl)

theorem promoCaps_nodup (p : Player) (pawns th cm op dp : BB) : (Gen.pawnPromoCaptures p pawns th cm op dp).Nodup := by
  unfold Gen.pawnPromoCaptures
  apply nodup_flatMap_key _ _ Move.src (toList_nodup _)
  · intro s _
    apply nodup_flatMap_key _ _ Move.dst (toList_nodup _)
    · intro t _
      exact nodup_map_key _ _ Move.flag (fun pr => (Move.capturePromotion s t pr).flag) (fun _ _ => rfl)
        (by intro a _ b _ e; cases a <;> cases b <;> first | rfl | (simp [Move.capturePromotion] at e))
        (by decide)
    · intro t _ m hm
      obtain ⟨pr, _, e⟩ := List.mem_map.1 hm
      rw [← e]; exact cp_dst s t pr
  · intro s _ m hm
    obtain ⟨t, _, hm2⟩ := List.mem_flatMap.1 hm
    obtain ⟨pr, _, e⟩ := List.mem_map.1 hm2
    rw [← e]; exact cp_src s t pr

theorem kingCaps_nodup (g : Game) (k : Sq) (th : BB) : (Gen.kingCaptures g k th).Nodup := by
  unfold Gen.kingCaptures
  apply nodup_flatMap_key _ _ Move.dst (toList_nodup _)
  · intro d _; exact nodup_ite_singleton _ _
  · intro d _ m hm
    split at hm
    · rw [List.mem_singleton.1 hm]; rfl
    · cases hm

theorem kingQuiets_nodup (g : Game) (k : Sq) (all : BB) : (Gen.kingQuiets g k all).Nodup := by
  unfold Gen.kingQuiets
  apply nodup_flatMap_key _ _ Move.dst (toList_nodup _)
  · intro d _; exact nodup_ite_singleton _ _
  · intro d _ m hm
    split at hm
    · rw [List.mem_singleton.1 hm]; rfl
    · cases hm

/-! ### stages built with `mapM` -/

theorem mapM_cons_some {α β} (f : α → Option β) (x : α) (xs : List α) (L : List β)
    (h : (x :: xs).mapM f = some L) : ∃ r rs, f x = some r ∧ xs.mapM f = some rs ∧ L = r :: rs := by
  rw [List.mapM_cons] at h
  cases hf : f x with
  | none => rw [hf] at h; cases h
  | some r =>
    rw [hf] at h
    cases hm : xs.mapM f with
    | none => rw [hm] at h; cases h
    | some rs =>
      rw [hm] at h
      exact ⟨r, rs, rfl, rfl, (Option.some.inj h).symm⟩

theorem nodup_mapM_key {β} (l : List Sq) (f : Sq → Option (List β)) (key : β → Sq) (h : l.Nodup)
    (hf : ∀ x ∈ l, ∀ r, f x = some r → r.Nodup ∧ ∀ m ∈ r, key m = x) :
    ∀ L, l.mapM f = some L → L.flatten.Nodup ∧ ∀ m ∈ L.flatten, key m ∈ l := by
  induction l with
  | nil =>
    intro L hL
    have : L = [] := by
      have e : ([] : List Sq).mapM f = some [] := rfl
      rw [e] at hL
      exact (Option.some.inj hL).symm
    subst this
    exact ⟨List.nodup_nil, fun m hm => by cases hm⟩
  | cons x xs ih =>
    intro L hL
    obtain ⟨r, rs, hr, hrs, e⟩ := mapM_cons_some f x xs L hL
    subst e
    have hx := List.nodup_cons.1 h
    obtain ⟨n1, k1⟩ := hf x List.mem_cons_self r hr
    obtain ⟨n2, k2⟩ := ih hx.2 (fun y hy => hf y (List.mem_cons_of_mem _ hy)) rs hrs
    rw [List.flatten_cons]
    refine ⟨List.nodup_append.2 ⟨n1, n2, ?_⟩, ?_⟩
    · intro a ha b hb e
      have := k2 b hb
      rw [← e, k1 a ha] at this
      exact hx.1 this
    · intro m hm
      rcases List.mem_append.1 hm with a | a
      · rw [k1 m a]; exact List.mem_cons_self
      · exact List.mem_cons_of_mem _ (k2 m a)

theorem promoPushes_nodup (p : Player) (which : List Promo) (hw : which.Nodup) (pawns all cm op dp : BB)
    (L : List (List Move)) (h : Gen.pawnPromoPushes p which pawns all cm op dp = some L) : L.flatten.Nodup := by
  unfold Gen.pawnPromoPushes at h
  refine (nodup_mapM_key _ _ Move.src (toList_nodup _) ?_ L h).1
  intro x _ r hr
  cases hf : x.forward p with
  | none => rw [hf] at hr; cases hr
  | some t =>
    rw [hf] at hr
    have : r = (if !(mem op x) then which.map (Move.quietPromotion x t) else []) := (Option.some.inj hr).symm
    subst this
    split
    · refine ⟨nodup_map_key _ _ Move.flag (fun pr => (Move.quietPromotion x t pr).flag) (fun _ _ => rfl)
        (by intro a _ b _ e; cases a <;> cases b <;> first | rfl | (simp [Move.quietPromotion] at e)) hw, ?_⟩
      intro m hm
      obtain ⟨pr, _, e⟩ := List.mem_map.1 hm
      rw [← e]; exact qp_src x t pr
    · exact ⟨List.nodup_nil, fun m hm => by cases hm⟩

theorem singlePushes_nodup (p : Player) (pawns all cm op dp : BB)
    (L : List (List Move)) (h : Gen.pawnSinglePushes p pawns all cm op dp = some L) : L.flatten.Nodup := by
  unfold Gen.pawnSinglePushes at h
  refine (nodup_mapM_key _ _ Move.src (toList_nodup _) ?_ L h).1
  intro x _ r hr
  cases hf : x.forward p with
  | none => rw [hf] at hr; cases hr
  | some t =>
    rw [hf] at hr
    have : r = (if !(mem op x) || mem op t then [Move.quiet x t] else []) := (Option.some.inj hr).symm
    subst this
    refine ⟨nodup_ite_singleton _ _, ?_⟩
    intro m hm
    split at hm
    · rw [List.mem_singleton.1 hm]; rfl
    · cases hm

theorem doublePushes_nodup (p : Player) (pawns all cm op dp : BB)
    (L : List (List Move)) (h : Gen.pawnDoublePushes p pawns all cm op dp = some L) : L.flatten.Nodup := by
  unfold Gen.pawnDoublePushes at h
  refine (nodup_mapM_key _ _ Move.src (toList_nodup _) ?_ L h).1
  intro x _ r hr
  cases hf : x.forward p with
  | none => rw [hf] at hr; cases hr
  | some f1 =>
    rw [hf] at hr
    cases hf2 : f1.forward p with
    | none =>
      change (do let f2 ← f1.forward p; pure _) = some r at hr
      rw [hf2] at hr; cases hr
    | some t =>
      change (do let f2 ← f1.forward p; pure _) = some r at hr
      rw [hf2] at hr
      have : r = (if !(mem op x) || mem op t then [Move.quiet x t] else []) := (Option.some.inj hr).symm
      subst this
      refine ⟨nodup_ite_singleton _ _, ?_⟩
      intro m hm
      split at hm
      · rw [List.mem_singleton.1 hm]; rfl
      · cases hm

theorem ep_nodup (g : Game) (pawns : BB) (k : Sq) (cm op dp : BB) (L : List Move)
    (h : Gen.pawnEnPassant g pawns k cm op dp = some L) : L.Nodup ∧ ∀ m ∈ L, m.flag = .enPassant := by
  unfold Gen.pawnEnPassant at h
  cases hep : g.ep with
  | none =>
    rw [hep] at h
    have : L = [] := (Option.some.inj h).symm
    subst this
    exact ⟨List.nodup_nil, fun m hm => by cases hm⟩
  | some t =>
    rw [hep] at h
    simp only at h
    cases hb : t.backward g.player with
    | none => rw [hb] at h; cases h
    | some v =>
      rw [hb] at h
      change (if (cm &&& (bb t ||| bb v)) ≠ 0#64 then _ else _) = some L at h
      split at h
      · have := (Option.some.inj h).symm
        subst this
        constructor
        · apply nodup_flatMap_key _ _ Move.src (toList_nodup _)
          · intro s _
            split
            · exact nodup_ite_singleton _ _
            · exact List.nodup_nil
          · intro s _ m hm
            split at hm
            · split at hm
              · rw [List.mem_singleton.1 hm]; rfl
              · cases hm
            · cases hm
        · intro m hm
          obtain ⟨s, _, hm2⟩ := List.mem_flatMap.1 hm
          split at hm2
          · split at hm2
            · rw [List.mem_singleton.1 hm2]; rfl
            · cases hm2
          · cases hm2
      · have : L = [] := (Option.some.inj h).symm
        subst this
        exact ⟨List.nodup_nil, fun m hm => by cases hm⟩

theorem castleFor_spec (g : Game) (ks : Bool) (all : BB) :
    (Gen.castleFor g ks all).Nodup ∧
    ∀ m ∈ Gen.castleFor g ks all, m = Move.castles (Game.kingStart g.player) (Gen.castleGeom ks g.player).2.1 := by
  unfold Gen.castleFor
  generalize Gen.castleGeom ks g.player = geo
  obtain ⟨r, t, mid⟩ := geo
  simp only
  constructor
  · exact nodup_ite_singleton _ _
  · intro m hm
    split at hm
    · exact List.mem_singleton.1 hm
    · cases hm

theorem castles_nodup (g : Game) (all : BB) :
    (Gen.castles g all).Nodup ∧ ∀ m ∈ Gen.castles g all, m.flag = .castle := by
  unfold Gen.castles
  have hne : ∀ p : Player, (Gen.castleGeom true p).2.1 ≠ (Gen.castleGeom false p).2.1 := by
    intro p; cases p <;> decide
  have hA : ∀ ks : Bool, ((if ks then Gen.castleFor g true all else []) : List Move).Nodup ∧
      ∀ m ∈ (if ks then Gen.castleFor g true all else []),
        m = Move.castles (Game.kingStart g.player) (Gen.castleGeom true g.player).2.1 := by
    intro ks
    cases ks
    · exact ⟨List.nodup_nil, fun m hm => by cases hm⟩
    · exact castleFor_spec g true all
  have hB : ∀ qs : Bool, ((if qs then Gen.castleFor g false all else []) : List Move).Nodup ∧
      ∀ m ∈ (if qs then Gen.castleFor g false all else []),
        m = Move.castles (Game.kingStart g.player) (Gen.castleGeom false g.player).2.1 := by
    intro qs
    cases qs
    · exact ⟨List.nodup_nil, fun m hm => by cases hm⟩
    · exact castleFor_spec g false all
  obtain ⟨a1, a2⟩ := hA (g.rights.forP g.player).kingSide
  obtain ⟨b1, b2⟩ := hB (g.rights.forP g.player).queenSide
  constructor
  · rw [List.nodup_append]
    refine ⟨a1, b1, ?_⟩
    intro x hx y hy e
    rw [a2 x hx, b2 y hy] at e
    exact hne g.player (congrArg Move.dst e)
  · intro m hm
    rcases List.mem_append.1 hm with c | c
    · rw [a2 m c]; rfl
    · rw [b2 m c]; rfl

end Tcheran
