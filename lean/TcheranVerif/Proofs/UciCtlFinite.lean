import TcheranVerif.Model.UciCtl
/-!
# Kernel decisions over the whole (finite) state space of the UCI controller model
(9,248 states × 11 events; kept in their own module so that the lifting lemmas rebuild quickly)
-/
namespace Tcheran.UciCtlFinite
open Tcheran.UciCtl

theorem inv_init : Inv init = true := by decide

theorem inv_preserved_all : invPreserved = true := by decide +kernel

theorem no_deadlock_all : noDeadlock = true := by decide +kernel

theorem thread_steps_decrease_all : threadStepsDecrease = true := by decide +kernel

theorem blocked_without_threads_resumes_all : blockedWithNoThreadsResumes = true := by decide +kernel

theorem isready_always_served_all : isreadyAlwaysServed = true := by decide +kernel

theorem go_answered_all : goAnswered = true := by decide +kernel


end Tcheran.UciCtlFinite
