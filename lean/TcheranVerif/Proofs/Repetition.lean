import TcheranVerif.Proofs.GameInv
import TcheranVerif.Proofs.FenRoundTrip
import TcheranVerif.Model.Draw
/-!
# The history stack along a game records the keys of the earlier positions (C11, with C02 / C03)

`game_history`: along every game of legal moves from a position whose key is in step with its board, the
`zobrist` fields of the history stack are — entry for entry, most recent first — the keys of the rules'
positions the game went through.  This discharges the hypothesis `hkeys` of `Props.C11.repeated_exact`.
-/

namespace Tcheran
open Board Game Rules

/-- the key the engine computes from scratch for a rules position -/
def posKey (c : Cfg) (p : Pos) : BB := fullHash c (Board.ofSquares p.board) p.player p.rights p.ep

theorem key_ofGame (c : Cfg) (g : Game) (hs : Sync c g) : g.zobrist = posKey c (ofGame g) := by
  unfold posKey ofGame
  simp only
  rw [consistent_ext _ _ (consistent_ofSquares _) hs.cons rfl]
  exact hs.key

/-- the positions a game went through before its last move, most recent first, on top of `acc` -/
def trail : Pos → List Move → List Pos → List Pos
  | _, [], acc => acc
  | pos, m :: ms, acc => trail (Rules.apply pos m) ms (pos :: acc)

/-- **game_history** -/
theorem game_history (c : Cfg) (g : Game) (ms : List Move) (pos' : Pos) (earlier : List Pos) (hs : Sync c g)
    (h : GInv (ofGame g)) (hp : LegalPath (ofGame g) ms pos')
    (hh : g.history.map (·.zobrist) = earlier.map (posKey c)) :
    ∃ g', makeMoves c g ms = some g' ∧ ofGame g' = pos' ∧ Sync c g' ∧
      g'.history.map (·.zobrist) = (trail (ofGame g) ms earlier).map (posKey c) := by
  generalize hpos : ofGame g = pos at hp
  induction hp generalizing g earlier with
  | nil _ => exact ⟨g, rfl, hpos, hs, hh⟩
  | cons pos m ms pos' hl _ ih =>
    subst hpos
    obtain ⟨k, hk⟩ := posH_of_ginv g hs.cons h
    obtain ⟨g1, hg1, hr⟩ := make_move_legal_total c g k hk m hl
    have hs1 : Sync c g1 := sync_makeMove c g g1 m hs hg1 (castle_hyp_of_legal g m hl)
    have hi1 : GInv (ofGame g1) := by rw [hr]; exact ginv_apply _ m h hl
    obtain ⟨_, _, _, _, _, _, _, hhist, _⟩ := makeMove_mailbox c g g1 m hg1
    have hh1 : g1.history.map (·.zobrist) = (ofGame g :: earlier).map (posKey c) := by
      rw [hhist, List.map_cons, List.map_cons, hh, ← key_ofGame c g hs]
    obtain ⟨g', hg', e, hs', hh'⟩ := ih g1 (ofGame g :: earlier) hs1 hi1 hh1 hr
    refine ⟨g', ?_, e, hs', ?_⟩
    · show (makeMove c g m).bind _ = some g'
      rw [hg1]
      exact hg'
    · rw [hh']
      rfl

theorem samePosition_key (c : Cfg) (a b : Pos) (h : samePosition a b = true) : posKey c b = posKey c a := by
  unfold samePosition at h
  simp only [Bool.and_eq_true, beq_iff_eq] at h
  obtain ⟨⟨⟨h1, h2⟩, h3⟩, h4⟩ := h
  unfold posKey
  rw [h1, h2, h3, h4]

end Tcheran
