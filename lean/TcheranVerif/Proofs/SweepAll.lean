import TcheranVerif.Proofs.Sweep.S00
import TcheranVerif.Proofs.Sweep.S01
import TcheranVerif.Proofs.Sweep.S02
import TcheranVerif.Proofs.Sweep.S03
import TcheranVerif.Proofs.Sweep.S04
import TcheranVerif.Proofs.Sweep.S05
import TcheranVerif.Proofs.Sweep.S06
import TcheranVerif.Proofs.Sweep.S07
import TcheranVerif.Proofs.Sweep.S08
import TcheranVerif.Proofs.Sweep.S09
import TcheranVerif.Proofs.Sweep.S10
import TcheranVerif.Proofs.Sweep.S11
import TcheranVerif.Proofs.Sweep.S12
import TcheranVerif.Proofs.Sweep.S13
import TcheranVerif.Proofs.Sweep.S14
import TcheranVerif.Proofs.Sweep.S15
import TcheranVerif.Proofs.Sweep.S16
import TcheranVerif.Proofs.Sweep.S17
import TcheranVerif.Proofs.Sweep.S18
import TcheranVerif.Proofs.Sweep.S19
import TcheranVerif.Proofs.Sweep.S20
import TcheranVerif.Proofs.Sweep.S21
import TcheranVerif.Proofs.Sweep.S22
import TcheranVerif.Proofs.Sweep.S23
import TcheranVerif.Proofs.Sweep.S24
import TcheranVerif.Proofs.Sweep.S25
import TcheranVerif.Proofs.Sweep.S26
/-!
# C07 sweep assembled: every square is in one of the parts, so the per-square fact holds for all 64
squares of both slider kinds (107,648 (square, blocker subset) pairs, kernel only), and with
`table_of_cert` the table built by the initialisation returns the ray walk at the magic index.
-/
namespace Tcheran.Sweep

theorem app {P : Sq → Prop} {A B : List Sq} (h1 : ∀ s ∈ A, P s) (h2 : ∀ s ∈ B, P s) : ∀ s ∈ A ++ B, P s := by
  intro s hs
  rcases List.mem_append.1 hs with h | h
  · exact h1 s h
  · exact h2 s h

theorem rook_cover : ∀ s : Sq, s ∈ squaresS00 ++ squaresS01 ++ squaresS02 ++ squaresS03 ++ squaresS04 ++ squaresS05 ++ squaresS06 ++ squaresS07 ++ squaresS08 ++ squaresS09 ++ squaresS10 ++ squaresS11 ++ squaresS12 ++ squaresS13 ++ squaresS14 ++ squaresS15 ++ squaresS16 ++ squaresS17 ++ squaresS18 ++ squaresS19 ++ squaresS20 ++ squaresS21 ++ squaresS22 ++ squaresS23 ++ squaresS24 := by decide +kernel
theorem bishop_cover : ∀ s : Sq, s ∈ squaresS25 ++ squaresS26 := by decide +kernel

theorem rook_all (s : Sq) : certOne (rookMask s) (rookIndex s) (genRookAttacks s) = true :=
  (app (app (app (app (app (app (app (app (app (app (app (app (app (app (app (app (app (app (app (app (app (app (app (app partS00 partS01) partS02) partS03) partS04) partS05) partS06) partS07) partS08) partS09) partS10) partS11) partS12) partS13) partS14) partS15) partS16) partS17) partS18) partS19) partS20) partS21) partS22) partS23) partS24) s (rook_cover s)

theorem bishop_all (s : Sq) : certOne (bishopMask s) (bishopIndex s) (genBishopAttacks s) = true :=
  (app partS25 partS26) s (bishop_cover s)

end Tcheran.Sweep
